import WebrtcVerif.Proofs.OggSingle
/-!
  The multi-track `Writer` refines `finalStream` for every track: what has been written is `flat log`, and
  the pages of `log` that carry a track's serial are that track's stream.
-/
namespace WebrtcVerif.Ogg
open WebrtcVerif.Bytes WebrtcVerif.OggSpec

/-! ### one `writePage` call = one item; the pages of a list of items -/

/-- payload, header type, granule position of one `writePage` call -/
abbrev Item := Bs × UInt8 × Nat

def itemsIdx (serial : Nat) : Nat → List Item → Nat
  | idx, [] => idx
  | idx, it :: rest => itemsIdx serial ((idx + (createPages it.1 it.2.1 it.2.2 serial idx).length) % two32) rest

def itemsPages (serial : Nat) : Nat → List Item → List Page
  | _, [] => []
  | idx, it :: rest =>
    createPages it.1 it.2.1 it.2.2 serial idx ++
      itemsPages serial ((idx + (createPages it.1 it.2.1 it.2.2 serial idx).length) % two32) rest

theorem itemsPages_snoc (serial idx : Nat) (its : List Item) (it : Item) :
    itemsPages serial idx (its ++ [it]) = itemsPages serial idx its ++
      createPages it.1 it.2.1 it.2.2 serial (itemsIdx serial idx its) ∧
    itemsIdx serial idx (its ++ [it]) =
      (itemsIdx serial idx its + (createPages it.1 it.2.1 it.2.2 serial (itemsIdx serial idx its)).length) % two32 := by
  induction its generalizing idx with
  | nil => simp [itemsPages, itemsIdx]
  | cons a rest ih =>
    obtain ⟨i1, i2⟩ := ih ((idx + (createPages a.1 a.2.1 a.2.2 serial idx).length) % two32)
    simp only [List.cons_append, itemsPages, itemsIdx, i1, i2, List.append_assoc, and_self]

def dataItems : Nat → List Pkt → List Item
  | _, [] => []
  | g, q :: rest => (q.1, 0, (g + q.2) % two64) :: dataItems ((g + q.2) % two64) rest

theorem itemsPages_data (serial : Nat) (c : Cur) (pkts : List Pkt) :
    itemsPages serial c.idx (dataItems c.g pkts) = dataPages serial c pkts ∧
    itemsIdx serial c.idx (dataItems c.g pkts) = (c.run serial pkts).idx := by
  induction pkts generalizing c with
  | nil => simp [dataItems, itemsPages, itemsIdx, dataPages, Cur.run]
  | cons q rest ih =>
    obtain ⟨i1, i2⟩ := ih (c.step serial q)
    simp only [Cur.step] at i1 i2
    simp only [dataItems, itemsPages, itemsIdx, dataPages, Cur.run, List.foldl_cons, Cur.step, i1]
    refine ⟨trivial, ?_⟩
    simpa [Cur.run, Cur.step] using i2

/-- the items of a started track: OpusHead, OpusTags, then the audio packets -/
def trackItems (head tags : Bs) (pkts : List Pkt) : List Item :=
  (head, pageHeaderTypeBeginningOfStream, 0) :: (tags, 0, 0) :: dataItems 0 pkts

theorem itemsPages_track (serial : Nat) (head tags : Bs) (pkts : List Pkt) :
    itemsPages serial 0 (trackItems head tags pkts) = bodyPages serial head tags pkts ∧
    itemsIdx serial 0 (trackItems head tags pkts) = (endCur serial head tags pkts).idx := by
  obtain ⟨d1, d2⟩ := itemsPages_data serial (startCur serial head tags) pkts
  have hs : (startCur serial head tags).g = 0 := rfl
  have hi : (startCur serial head tags).idx =
      ((0 + (headPages serial head).length) % two32 + (tagsPages serial head tags).length) % two32 := by
    simp [startCur]
  rw [hs] at d1 d2
  simp only [trackItems, itemsPages, itemsIdx, bodyPages, endCur]
  have e1 : createPages head pageHeaderTypeBeginningOfStream 0 serial 0 = headPages serial head := rfl
  have e2 : createPages tags 0 0 serial ((0 + (headPages serial head).length) % two32) = tagsPages serial head tags := by
    simp [tagsPages]
  rw [e1, e2, ← hi, d1, d2]
  simp [List.append_assoc]

/-- granule position recorded after the items -/
def lastG : List Item → Nat
  | [] => 0
  | [it] => it.2.2
  | _ :: b' :: rest => lastG (b' :: rest)

theorem lastG_snoc (its : List Item) (it : Item) : lastG (its ++ [it]) = it.2.2 := by
  induction its with
  | nil => rfl
  | cons a rest ih =>
    cases hr : rest ++ [it] with
    | nil => simp at hr
    | cons x xs => rw [hr] at ih; simp only [List.cons_append, hr, lastG, ih]

theorem lastG_track (head tags : Bs) (pkts : List Pkt) :
    lastG (trackItems head tags pkts) = samplesSum pkts % two64 := by
  have h : ∀ (g : Nat) (pre : Item) (pkts : List Pkt), g < two64 → pre.2.2 = g →
      lastG (pre :: dataItems g pkts) = (g + samplesSum pkts) % two64 := by
    intro g pre pkts
    induction pkts generalizing g pre with
    | nil => intro hg hp; simp [dataItems, lastG, samplesSum, hp, Nat.mod_eq_of_lt hg]
    | cons q rest ih =>
      intro hg hp
      simp only [dataItems, lastG]
      rw [ih ((g + q.2) % two64) _ (Nat.mod_lt _ (by decide)) rfl]
      simp only [samplesSum, List.map_cons, List.sum_cons, two64]; omega
  have := h 0 (tags, 0, 0) pkts (by decide) rfl
  simpa [trackItems, lastG] using this

/-! ### the pages of one serial inside a log -/

theorem streamOf_append (s : Nat) (a c : List Page) : streamOf s (a ++ c) = streamOf s a ++ streamOf s c := by
  simp [streamOf]

theorem streamOf_all (s : Nat) (l : List Page) (h : ∀ p ∈ l, p.serial = s) : streamOf s l = l := by
  simp only [streamOf, List.filter_eq_self]
  intro p hp; simp [h p hp]

theorem streamOf_none (s : Nat) (l : List Page) (h : ∀ p ∈ l, p.serial ≠ s) : streamOf s l = [] := by
  simp only [streamOf, List.filter_eq_nil_iff]
  intro p hp; simp [h p hp]

theorem createPages_serial (payload : Bs) (ht : UInt8) (g serial idx : Nat) :
    ∀ p ∈ createPages payload ht g serial idx, p.serial = serial :=
  createPagesLoop_serial ht g serial _ payload idx true


/-! ### per-track invariant -/

/-- what the rewriter bookkeeping of a track says about the log -/
structure Ptr (log : List Page) (t : Track) : Prop where
  written : t.lastPageWritten = true
  complete : (laceLoop maxOggPageSegments t.lastPayload.length).complete = true
  pos : ∃ k, log[k]? = some (lastPageOf t) ∧ t.lastPageOffset = (flat (log.take k)).length ∧
    ∀ j q, k < j → log[j]? = some q → q.serial ≠ t.serial

/-- with a rewriter and something written the bookkeeping is right; otherwise nothing is recorded -/
def PtrOk (sk : Bool) (log : List Page) (t : Track) (nonempty : Bool) : Prop :=
  if sk && nonempty then Ptr log t else t.lastPageWritten = false

structure TInv (sk : Bool) (log : List Page) (t : Track) (its : List Item) : Prop where
  stream : streamOf t.serial log = itemsPages t.serial 0 its
  idx : t.pageIndex = itemsIdx t.serial 0 its
  gran : t.previousGranulePosition = lastG its
  ptr : PtrOk sk log t (!its.isEmpty)
  bounds : t.pageIndex < two32 ∧ t.previousGranulePosition < two64 ∧ t.serial < two32

theorem Ptr.append {log : List Page} {t : Track} (h : Ptr log t) (P : List Page) (hP : ∀ q ∈ P, q.serial ≠ t.serial) :
    Ptr (log ++ P) t := by
  obtain ⟨k, h1, h2, h3⟩ := h.pos
  have hk : k < log.length := (List.getElem?_eq_some_iff.mp h1).1
  refine ⟨h.written, h.complete, k, ?_, ?_, ?_⟩
  · rw [List.getElem?_append_left hk]; exact h1
  · rw [List.take_append_of_le_length (Nat.le_of_lt hk)]; exact h2
  · intro j q hj hq
    by_cases hjl : j < log.length
    · rw [List.getElem?_append_left hjl] at hq; exact h3 j q hj hq
    · rw [List.getElem?_append_right (by omega)] at hq
      exact hP q (List.mem_of_getElem? hq)

theorem TInv.append_other {sk : Bool} {log : List Page} {t : Track} {its : List Item} (h : TInv sk log t its)
    (P : List Page) (hP : ∀ q ∈ P, q.serial ≠ t.serial) : TInv sk (log ++ P) t its := by
  refine ⟨by rw [streamOf_append, streamOf_none _ P hP, List.append_nil]; exact h.stream, h.idx, h.gran, ?_, h.bounds⟩
  have := h.ptr
  unfold PtrOk at this ⊢
  split
  · rename_i hc; rw [if_pos hc] at this; exact this.append P hP
  · rename_i hc; rw [if_neg hc] at this; exact this

/-- the track as it is handed to `writePage` (granule position already advanced to `g`) -/
def withG (t : Track) (g : Nat) : Track := { t with previousGranulePosition := g }

theorem TInv.write_own {sk : Bool} {log : List Page} {t : Track} {its : List Item} (h : TInv sk log t its)
    (out : Bs) (hout : out = flat log) (payload : Bs) (ht : UInt8) (g : Nat) (hg : g < two64) :
    TInv sk (log ++ createPages payload ht g t.serial t.pageIndex) (writePage out sk (withG t g) payload ht g).2
      (its ++ [(payload, ht, g)]) := by
  obtain ⟨c1, c2, c3⟩ := writePage_cfg out sk (withG t g) payload ht g
  have hs : (withG t g).serial = t.serial := rfl
  have hi : (withG t g).pageIndex = t.pageIndex := rfl
  obtain ⟨s1, s2⟩ := itemsPages_snoc t.serial 0 its (payload, ht, g)
  refine ⟨?_, ?_, ?_, ?_, ?_⟩
  · rw [c1.serial, hs, streamOf_append, h.stream, streamOf_all _ _ (createPages_serial _ _ _ _ _), s1, ← h.idx]
  · rw [c2, c1.serial, hs, hi, s2, ← h.idx]
  · rw [c3, lastG_snoc]; rfl
  rotate_left
  · refine ⟨by rw [c2]; exact Nat.mod_lt _ (by decide), by rw [c3]; exact hg, by rw [c1.serial, hs]; exact h.bounds.2.2⟩
  · unfold PtrOk
    cases sk with
    | false =>
      simp only [Bool.false_and, Bool.false_eq_true, if_false]
      have := h.ptr
      simp only [PtrOk, Bool.false_and, Bool.false_eq_true, if_false] at this
      rw [writePage_nolast]; exact this
    | true =>
      have hne : (!(its ++ [(payload, ht, g)]).isEmpty) = true := by simp
      rw [hne]
      simp only [Bool.and_self, if_true]
      obtain ⟨pre', p, he, l1, l2, l3, l4⟩ := writePage_last out (withG t g) payload ht g
      rw [hs, hi] at he
      refine ⟨l1, l4, log.length + pre'.length, ?_, ?_, ?_⟩
      · rw [l3, he, ← List.append_assoc, List.getElem?_append_right (by simp)]
        simp
      · rw [l2, hout, he, ← List.append_assoc, List.take_left' (by simp), flat_append, List.length_append]
      · intro j q hj hq
        rw [he, ← List.append_assoc] at hq
        have : (log ++ pre' ++ [p]).length ≤ j := by simp; omega
        rw [List.getElem?_eq_none this] at hq
        cases hq


/-! ### all tracks -/

/-- serial numbers identify tracks -/
def Distinct (tracks : List MTrack) : Prop :=
  ∀ (i j : Nat) (a c : MTrack), tracks[i]? = some a → tracks[j]? = some c → a.t.serial = c.t.serial → i = j

structure MInv (sk : Bool) (out : Bs) (tracks : List MTrack) (log : List Page) (items : List (List Item)) : Prop where
  out : out = flat log
  len : items.length = tracks.length
  distinct : Distinct tracks
  wf : ∀ p ∈ log, p.wf
  tinv : ∀ (i : Nat) (m : MTrack) (its : List Item), tracks[i]? = some m → items[i]? = some its → TInv sk log m.t its

theorem Distinct.set {tracks : List MTrack} (h : Distinct tracks) (i : Nat) (m m' : MTrack)
    (hm : tracks[i]? = some m) (hs : m'.t.serial = m.t.serial) : Distinct (tracks.set i m') := by
  intro j k a c ha hc hac
  have hil : i < tracks.length := (List.getElem?_eq_some_iff.mp hm).1
  rw [List.getElem?_set] at ha hc
  by_cases hj : i = j <;> by_cases hk : i = k
  · omega
  · simp only [hj, if_true] at ha; rw [if_neg hk] at hc
    rw [if_pos (by omega)] at ha; cases ha
    exact hj ▸ h i k m c hm hc (by rw [← hs]; exact hac)
  · rw [if_neg hj] at ha; simp only [hk, if_true] at hc
    rw [if_pos (by omega)] at hc; cases hc
    exact hk ▸ h j i a m ha hm (by rw [hac]; exact hs)
  · rw [if_neg hj] at ha; rw [if_neg hk] at hc
    exact h j k a c ha hc hac

/-- one `writePage` on the `i`-th track -/
theorem MInv.write_at {sk : Bool} {out : Bs} {tracks : List MTrack} {log : List Page} {items : List (List Item)}
    (h : MInv sk out tracks log items) (i : Nat) (m : MTrack) (its : List Item)
    (hm : tracks[i]? = some m) (hi : items[i]? = some its) (payload : Bs) (ht : UInt8) (g : Nat)
    (hht : ht = 0 ∨ ht = 2) (hg : g < two64) :
    MInv sk (writePage out sk (withG m.t g) payload ht g).1
      (tracks.set i { m with t := (writePage out sk (withG m.t g) payload ht g).2 })
      (log ++ createPages payload ht g m.t.serial m.t.pageIndex)
      (items.set i (its ++ [(payload, ht, g)])) := by
  obtain ⟨c1, _, _⟩ := writePage_cfg out sk (withG m.t g) payload ht g
  have hil : i < tracks.length := (List.getElem?_eq_some_iff.mp hm).1
  have hb := (h.tinv i m its hm hi).bounds
  refine ⟨?_, by simp [h.len], h.distinct.set i m _ hm (by rw [c1.serial]; rfl), ?_, ?_⟩
  · rw [writePage_out, h.out, flat_append]; rfl
  · intro p hp
    rcases List.mem_append.mp hp with hp | hp
    · exact h.wf p hp
    · exact (createPages_all payload ht g m.t.serial m.t.pageIndex hht hg hb.2.2 hb.1 p hp).1
  · intro j m' its' hm' hi'
    rw [List.getElem?_set] at hm' hi'
    by_cases hj : i = j
    · subst hj
      rw [if_pos rfl, if_pos hil] at hm'
      rw [if_pos rfl, if_pos (by rw [h.len]; exact hil)] at hi'
      cases hm'; cases hi'
      exact (h.tinv i m its hm hi).write_own out h.out payload ht g hg
    · rw [if_neg hj] at hm' hi'
      refine (h.tinv j m' its' hm' hi').append_other _ ?_
      intro q hq
      rw [createPages_serial _ _ _ _ _ q hq]
      intro e
      exact hj (h.distinct i j m m' hm hm' e)


/-! ### the header loops of `startLocked` -/

theorem withG_self (t : Track) (g : Nat) (h : t.previousGranulePosition = g) : withG t g = t := by
  cases t; simp only [withG] at *; subst h; rfl

theorem set_append_mid {α : Type} (a : List α) (x y : α) (c : List α) :
    (a ++ x :: c).set a.length y = a ++ y :: c := by
  induction a with
  | nil => rfl
  | cons h t ih => simp [ih]

/-- one pass over the tracks not yet handled (`todo`), each getting one more item -/
theorem hdrLoop (sk : Bool) (f : Bs → Bool → Track → Bs × Track) (pl : Track → Bs) (ht : UInt8) (hht : ht = 0 ∨ ht = 2)
    (hf : ∀ o t, t.previousGranulePosition = 0 → f o sk t = writePage o sk (withG t 0) (pl t) ht 0) :
    ∀ (todo done : List MTrack) (out : Bs) (log : List Page) (items : List (List Item)),
      MInv sk out (done ++ todo) log items →
      (∀ (i : Nat) (its : List Item), done.length ≤ i → items[i]? = some its → lastG its = 0) →
      ∃ log' items', MInv sk (writeHeadersLoop f sk out todo).1 (done ++ (writeHeadersLoop f sk out todo).2) log' items' ∧
        (writeHeadersLoop f sk out todo).2.length = todo.length ∧
        (∀ (i : Nat) (its : List Item), i < done.length → items[i]? = some its → items'[i]? = some its) ∧
        (∀ (j : Nat) (m : MTrack) (its : List Item), todo[j]? = some m → items[done.length + j]? = some its →
          items'[done.length + j]? = some (its ++ [(pl m.t, ht, 0)])) ∧
        (∀ (j : Nat) (m : MTrack), todo[j]? = some m → ∃ m' : MTrack, (writeHeadersLoop f sk out todo).2[j]? = some m' ∧
          SameCfg m.t m'.t ∧ m'.ssrc = m.ssrc) := by
  intro todo
  induction todo with
  | nil =>
    intro done out log items h _
    refine ⟨log, items, by simpa [writeHeadersLoop] using h, rfl, fun i its _ hi => hi, ?_, ?_⟩
    · intro j m its hm; simp at hm
    · intro j m hm; simp at hm
  | cons m ms ih =>
    intro done out log items h hz
    have hlen : done.length < items.length := by rw [h.len]; simp
    obtain ⟨its, hits⟩ : ∃ its, items[done.length]? = some its := ⟨items[done.length], by simp [hlen]⟩
    have hm : (done ++ m :: ms)[done.length]? = some m := by simp
    have hprev : m.t.previousGranulePosition = 0 := by
      rw [(h.tinv _ m its hm hits).gran]; exact hz _ its (Nat.le_refl _) hits
    have hstep := h.write_at done.length m its hm hits (pl m.t) ht 0 hht (by decide)
    rw [set_append_mid, ← hf out m.t hprev] at hstep
    have e : done ++ { m with t := (f out sk m.t).2 } :: ms = (done ++ [{ m with t := (f out sk m.t).2 }]) ++ ms := by simp
    rw [e] at hstep
    obtain ⟨log', items', i1, i2, i3, i4, i5⟩ := ih (done ++ [{ m with t := (f out sk m.t).2 }]) (f out sk m.t).1 _ _ hstep (by
      intro i its' hi hits'
      simp only [List.length_append, List.length_singleton] at hi
      rw [List.getElem?_set_ne (by omega)] at hits'
      exact hz i its' (by omega) hits')
    refine ⟨log', items', ?_, ?_, ?_, ?_, ?_⟩
    · simpa [writeHeadersLoop, List.append_assoc] using i1
    · simp [writeHeadersLoop, i2]
    · intro i its' hi hits'
      refine i3 i its' (by simp; omega) ?_
      rw [List.getElem?_set_ne (by omega)]; exact hits'
    · intro j m' its' hm' hits'
      cases j with
      | zero =>
        simp only [List.getElem?_cons_zero, Option.some.injEq] at hm'
        subst hm'
        rw [Nat.add_zero] at hits' ⊢
        rw [hits] at hits'; cases hits'
        refine i3 done.length _ (by simp) ?_
        rw [List.getElem?_set_self hlen]
      | succ j =>
        simp only [List.getElem?_cons_succ] at hm'
        have := i4 j m' its' hm' (by
          simp only [List.length_append, List.length_singleton]
          rw [List.getElem?_set_ne (by omega), show done.length + 1 + j = done.length + (j + 1) by omega]
          exact hits')
        simpa [show done.length + 1 + j = done.length + (j + 1) by omega] using this
    · intro j m' hm'
      cases j with
      | zero =>
        simp only [List.getElem?_cons_zero, Option.some.injEq] at hm'
        subst hm'
        refine ⟨{ m with t := (f out sk m.t).2 }, by simp [writeHeadersLoop], ?_, rfl⟩
        rw [hf out m.t hprev]
        have := (writePage_cfg out sk (withG m.t 0) (pl m.t) ht 0).1
        rw [withG_self m.t 0 hprev] at this ⊢
        exact this
      | succ j =>
        simp only [List.getElem?_cons_succ] at hm'
        obtain ⟨m'', a1, a2, a3⟩ := i5 j m' hm'
        exact ⟨m'', by simpa [writeHeadersLoop] using a1, a2, a3⟩


/-! ### the two endings of `Close` -/

/-- the nil EOS pages `nilEosAll` appends -/
def eosList : List MTrack → List Page
  | [] => []
  | m :: ms =>
    (if m.t.pageIndex = 0 then [] else [eosPage m.t.serial { idx := m.t.pageIndex, g := m.t.previousGranulePosition }])
      ++ eosList ms

theorem nilEosAll_out (out : Bs) (tracks : List MTrack) : (nilEosAll out tracks).1 = out ++ flat (eosList tracks) := by
  induction tracks generalizing out with
  | nil => simp [nilEosAll, eosList, flat_nil]
  | cons m ms ih =>
    simp only [nilEosAll, eosList, ih]
    by_cases hz : m.t.pageIndex = 0
    · simp [writeNilEndOfStreamPage, hz]
    · rw [writeNilEos_spec _ _ hz]; simp [hz, flat_cons]

theorem nilEosAll_len (out : Bs) (tracks : List MTrack) : (nilEosAll out tracks).2.length = tracks.length := by
  induction tracks generalizing out with
  | nil => rfl
  | cons m ms ih => simp [nilEosAll, ih]

/-- among tracks with distinct serials, the EOS pages with a given track's serial are that track's own -/
theorem streamOf_eosList (tracks : List MTrack) (hd : Distinct tracks) (i : Nat) (m : MTrack) (hm : tracks[i]? = some m) :
    streamOf m.t.serial (eosList tracks) =
      if m.t.pageIndex = 0 then [] else [eosPage m.t.serial { idx := m.t.pageIndex, g := m.t.previousGranulePosition }] := by
  induction tracks generalizing i with
  | nil => simp at hm
  | cons a rest ih =>
    have hd' : Distinct rest := by
      intro j k x y hx hy hxy
      have := hd (j + 1) (k + 1) x y (by simpa using hx) (by simpa using hy) hxy
      omega
    simp only [eosList, streamOf_append]
    cases i with
    | zero =>
      simp only [List.getElem?_cons_zero, Option.some.injEq] at hm
      subst hm
      have hrest : streamOf a.t.serial (eosList rest) = [] := by
        apply streamOf_none
        intro q hq
        -- every page of `eosList rest` carries the serial of a track in `rest`
        have : ∀ (l : List MTrack) (q : Page), q ∈ eosList l → ∃ (j : Nat) (x : MTrack), l[j]? = some x ∧ q.serial = x.t.serial := by
          intro l
          induction l with
          | nil => intro q hq; simp [eosList] at hq
          | cons y ys ihy =>
            intro q hq
            simp only [eosList, List.mem_append] at hq
            rcases hq with hq | hq
            · split at hq
              · simp at hq
              · simp only [List.mem_singleton] at hq; subst hq; exact ⟨0, y, by simp, rfl⟩
            · obtain ⟨j, x, hj, hx⟩ := ihy q hq
              exact ⟨j + 1, x, by simpa using hj, hx⟩
        obtain ⟨j, x, hj, hx⟩ := this rest q hq
        intro e
        have := hd 0 (j + 1) a x (by simp) (by simpa using hj) (by rw [← e, hx])
        omega
      rw [hrest, List.append_nil]
      split
      · rfl
      · exact streamOf_all _ _ (by intro p hp; simp only [List.mem_singleton] at hp; subst hp; rfl)
    | succ i =>
      simp only [List.getElem?_cons_succ] at hm
      have hne : a.t.serial ≠ m.t.serial := by
        intro e
        have := hd 0 (i + 1) a m (by simp) (by simpa using hm) e
        omega
      have hfirst : streamOf m.t.serial (if a.t.pageIndex = 0 then []
          else [eosPage a.t.serial { idx := a.t.pageIndex, g := a.t.previousGranulePosition }]) = [] := by
        apply streamOf_none
        intro q hq
        split at hq
        · simp at hq
        · simp only [List.mem_singleton] at hq; subst hq; exact hne
      rw [hfirst, List.nil_append]
      exact ih hd' i hm


theorem flat_length_set (l : List Page) (j : Nat) (x : Page)
    (h : ∀ p, l[j]? = some p → x.encode.length = p.encode.length) : (flat (l.set j x)).length = (flat l).length := by
  induction l generalizing j with
  | nil => rfl
  | cons a rest ih =>
    cases j with
    | zero => simp only [List.set_cons_zero, flat_cons, List.length_append]; rw [h a (by simp)]
    | succ j =>
      simp only [List.set_cons_succ, flat_cons, List.length_append]
      rw [ih j (fun p hp => h p (by simpa using hp))]

theorem lastPageOf_serial (t : Track) : (lastPageOf t).serial = t.serial := rfl

/-- marking another track's last page leaves this track's bookkeeping valid -/
theorem Ptr.set_other {log : List Page} {t : Track} (h : Ptr log t) (k' : Nat) (p' : Page)
    (hp : log[k']? = some p') (hs : p'.serial ≠ t.serial) : Ptr (log.set k' (markEos p')) t := by
  obtain ⟨k, h1, h2, h3⟩ := h.pos
  have hkk : k' ≠ k := by
    intro e; subst e; rw [hp] at h1; cases h1; exact hs (lastPageOf_serial t)
  refine ⟨h.written, h.complete, k, ?_, ?_, ?_⟩
  · rw [List.getElem?_set_ne hkk]; exact h1
  · rw [List.take_set, flat_length_set]
    · exact h2
    · intro p hpp
      rw [List.getElem?_take] at hpp
      split at hpp
      · rw [hp] at hpp; cases hpp; exact markEos_encode_length p'
      · cases hpp
  · intro j q hj hq
    rw [List.getElem?_set] at hq
    split at hq
    · split at hq
      · cases hq; exact hs
      · cases hq
    · exact h3 j q hj hq

theorem streamOf_set_last (log : List Page) (k : Nat) (p : Page) (s : Nat) (hk : log[k]? = some p) (hs : p.serial = s)
    (hlater : ∀ j q, k < j → log[j]? = some q → q.serial ≠ s) :
    streamOf s (log.set k (markEos p)) = markLast (streamOf s log) := by
  obtain ⟨hsplit, _⟩ := list_split_at log k p hk
  have hdrop : streamOf s (log.drop (k + 1)) = [] := by
    apply streamOf_none
    intro q hq
    obtain ⟨j, hj⟩ := List.getElem?_of_mem hq
    rw [List.getElem?_drop] at hj
    exact hlater (k + 1 + j) q (by omega) hj
  rw [list_set_at log k p _ hk]
  conv => rhs; rw [hsplit]
  rw [streamOf_append, streamOf_append]
  have e1 : streamOf s (markEos p :: List.drop (k + 1) log) = [markEos p] := by
    have hm : (markEos p).serial = s := hs
    have := hdrop
    simp only [streamOf] at this ⊢
    rw [List.filter_cons_of_pos (by simp [hm]), this]
  have e2 : streamOf s (p :: List.drop (k + 1) log) = [p] := by
    have := hdrop
    simp only [streamOf] at this ⊢
    rw [List.filter_cons_of_pos (by simp [hs]), this]
  rw [e1, e2, markLast_concat]

theorem streamOf_set_other (log : List Page) (k : Nat) (p : Page) (s : Nat) (hk : log[k]? = some p) (hs : p.serial ≠ s) :
    streamOf s (log.set k (markEos p)) = streamOf s log := by
  obtain ⟨hsplit, _⟩ := list_split_at log k p hk
  rw [list_set_at log k p _ hk]
  conv => rhs; rw [hsplit]
  rw [streamOf_append, streamOf_append]
  have hs' : (markEos p).serial ≠ s := hs
  congr 1
  simp only [streamOf]
  rw [List.filter_cons_of_neg (by simp [hs']), List.filter_cons_of_neg (by simp [hs])]

/-- `markAll` over tracks with valid bookkeeping and distinct serials marks the last page of each of them -/
theorem markAll_spec : ∀ (todo : List MTrack) (out : Bs) (log : List Page), out = flat log →
    (∀ (j : Nat) (m : MTrack), todo[j]? = some m → Ptr log m.t) →
    (∀ (i j : Nat) (a c : MTrack), todo[i]? = some a → todo[j]? = some c → a.t.serial = c.t.serial → i = j) →
    ∃ log', markAll out todo = flat log' ∧ log'.length = log.length ∧
      (∀ q ∈ log', ∃ q0 ∈ log, q = q0 ∨ q = markEos q0) ∧
      (∀ s, (∃ (j : Nat) (m : MTrack), todo[j]? = some m ∧ m.t.serial = s) → streamOf s log' = markLast (streamOf s log)) ∧
      (∀ s, (∀ (j : Nat) (m : MTrack), todo[j]? = some m → m.t.serial ≠ s) → streamOf s log' = streamOf s log) := by
  intro todo
  induction todo with
  | nil =>
    intro out log h _ _
    exact ⟨log, by simpa [markAll] using h, rfl, fun q hq => ⟨q, hq, Or.inl rfl⟩,
      by intro s ⟨j, m, hj, _⟩; simp at hj, fun s _ => rfl⟩
  | cons a rest ih =>
    intro out log hout hptr hdist
    have hpa := hptr 0 a (by simp)
    obtain ⟨k, h1, h2, h3⟩ := hpa.pos
    have hmark := markTrackEndOfStream_spec log a.t k hpa.written h1 h2 hpa.complete
    have hrest_ne : ∀ (j : Nat) (m : MTrack), rest[j]? = some m → m.t.serial ≠ a.t.serial := by
      intro j m hj e
      have := hdist 0 (j + 1) a m (by simp) (by simpa using hj) e.symm
      omega
    obtain ⟨log', i1, i2, imem, i3, i4⟩ := ih (markTrackEndOfStream out a.t) (log.set k (markEos (lastPageOf a.t)))
      (by rw [hout]; exact hmark)
      (by
        intro j m hj
        exact (hptr (j + 1) m (by simpa using hj)).set_other k _ h1
          (by rw [lastPageOf_serial]; exact (hrest_ne j m hj).symm))
      (by
        intro i j x y hx hy hxy
        have := hdist (i + 1) (j + 1) x y (by simpa using hx) (by simpa using hy) hxy
        omega)
    refine ⟨log', by simpa [markAll] using i1, by rw [i2]; simp, ?_, ?_, ?_⟩
    · intro q hq
      obtain ⟨q0, hq0, hq1⟩ := imem q hq
      rcases List.mem_or_eq_of_mem_set hq0 with hmem | heq
      · exact ⟨q0, hmem, hq1⟩
      · refine ⟨lastPageOf a.t, List.mem_of_getElem? h1, ?_⟩
        subst heq
        rcases hq1 with rfl | rfl
        · exact Or.inr rfl
        · right
          -- marking twice is marking once
          have : markEos (markEos (lastPageOf a.t)) = markEos (lastPageOf a.t) := by
            obtain ⟨_, _, h4⟩ := u8_bits (lastPageOf a.t).headerType
            simp only [markEos, pageHeaderTypeEndOfStream]
            congr 1
            apply UInt8.toBitVec_inj.mp
            simp only [UInt8.toBitVec_or]
            apply BitVec.eq_of_getLsbD_eq; intro i hi
            simp only [BitVec.getLsbD_or]
            cases ((lastPageOf a.t).headerType.toBitVec.getLsbD i) <;> simp
          exact this
    · intro s ⟨j, m, hj, hs⟩
      cases j with
      | zero =>
        simp only [List.getElem?_cons_zero, Option.some.injEq] at hj
        subst hj
        rw [i4 s (by intro j m hj; rw [← hs]; exact hrest_ne j m hj)]
        exact streamOf_set_last log k _ s h1 (by rw [lastPageOf_serial]; exact hs) (by
          intro j q hj hq; rw [← hs]; exact h3 j q hj hq)
      | succ j =>
        simp only [List.getElem?_cons_succ] at hj
        rw [i3 s ⟨j, m, hj, hs⟩, streamOf_set_other log k _ s h1 (by
          rw [lastPageOf_serial, ← hs]; exact (hrest_ne j m hj).symm)]
    · intro s hs
      rw [i4 s (fun j m hj => hs (j + 1) m (by simpa using hj)),
        streamOf_set_other log k _ s h1 (by rw [lastPageOf_serial]; exact hs 0 a (by simp))]

end WebrtcVerif.Ogg
