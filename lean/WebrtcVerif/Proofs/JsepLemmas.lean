import WebrtcVerif.Model.Jsep
/-! Helper lemmas about Model.Jsep (used by Props/C06, C07, C09). Core Lean only. -/
namespace WebrtcVerif.Jsep

/-! ### dataMediaSectionMid: the bounded search always ends on a free number -/

theorem firstFree_spec (ids : List Mid) : ∀ fuel n,
    (Mid.num (firstFree ids fuel n) ∉ ids) ∨
      (firstFree ids fuel n = n + fuel ∧ ∀ k, n ≤ k → k < n + fuel → Mid.num k ∈ ids) := by
  intro fuel
  induction fuel with
  | zero => intro n; right; exact ⟨rfl, fun k h1 h2 => by omega⟩
  | succ f ih =>
    intro n
    unfold firstFree
    by_cases hc : ids.contains (Mid.num n) = true
    · simp only [hc, if_true]
      rcases ih (n + 1) with h | ⟨h1, h2⟩
      · left; exact h
      · right
        refine ⟨by omega, fun k hk1 hk2 => ?_⟩
        by_cases hkn : k = n
        · subst hkn; simpa using hc
        · exact h2 k (by omega) (by omega)
    · simp only [hc]
      left
      simpa using hc

/-- a list that contains `fuel + 1` consecutive numbers has more than `fuel` elements -/
theorem pigeon : ∀ (fuel : Nat) (l : List Mid) (n : Nat),
    (∀ k, n ≤ k → k < n + fuel + 1 → Mid.num k ∈ l) → fuel + 1 ≤ l.length := by
  intro fuel
  induction fuel with
  | zero =>
    intro l n h
    have := h n (Nat.le_refl _) (by omega)
    exact List.length_pos_of_mem this
  | succ f ih =>
    intro l n h
    have hlast : Mid.num (n + f + 1) ∈ l := h (n + f + 1) (by omega) (by omega)
    have := ih (l.erase (Mid.num (n + f + 1))) n (fun k hk1 hk2 => by
      have hk : Mid.num k ∈ l := h k hk1 (by omega)
      have hne : Mid.num k ≠ Mid.num (n + f + 1) := by
        intro e; injection e with e; omega
      exact (List.mem_erase_of_ne hne).2 hk)
    rw [List.length_erase_of_mem hlast] at this
    have hpos := List.length_pos_of_mem hlast
    omega

theorem firstFree_fresh (ids : List Mid) (n : Nat) : Mid.num (firstFree ids ids.length n) ∉ ids := by
  rcases firstFree_spec ids ids.length n with h | ⟨h1, h2⟩
  · exact h
  · intro hmem
    have := pigeon ids.length ids n (fun k hk1 hk2 => by
      by_cases hk : k < n + ids.length
      · exact h2 k hk1 hk
      · have : k = n + ids.length := by omega
        subst this
        rw [h1] at hmem; exact hmem)
    omega

theorem dataMid_fresh (ms : List MSec) : dataMid ms ∉ ms.map MSec.id := by
  unfold dataMid
  have := firstFree_fresh (ms.map MSec.id) ms.length
  simpa using this


/-! ### populateSDP -/

def Sec.accepted (s : Sec) : Bool := !s.port0

/-- what populateSDP guarantees for one emitted section -/
structure SecOK (st : St) (role : Setup) (m : MSec) (s : Sec) (inB : Bool) : Prop where
  mid : s.mid = some m.id
  port : s.port0 = !inB
  creds : inB = true → s.ufrag = true ∧ s.pwd = true ∧ s.dirs.length = 1 ∧ s.setup = some role ∧ s.fp = st.cfg.mediaFp

theorem populateOne_ok {st : St} {role : Setup} {grp : Option (Option (List Mid))} {m : MSec} {s : Sec} {inB : Bool}
    (h : populateOne st role grp m = .ok (s, inB)) : SecOK st role m s inB := by
  cases m with
  | data id =>
    simp only [populateOne, Except.ok.injEq, Prod.mk.injEq] at h
    obtain ⟨rfl, rfl⟩ := h
    exact ⟨rfl, rfl, fun _ => ⟨rfl, rfl, rfl, rfl, rfl⟩⟩
  | unsupported id media =>
    simp only [populateOne, Except.ok.injEq, Prod.mk.injEq] at h
    obtain ⟨rfl, rfl⟩ := h
    exact ⟨rfl, rfl, fun h => by cases h⟩
  | tr id t =>
    simp only [populateOne] at h
    split at h
    · simp only [Except.ok.injEq, Prod.mk.injEq] at h
      obtain ⟨rfl, rfl⟩ := h
      exact ⟨rfl, rfl, fun _ => ⟨rfl, rfl, rfl, rfl, rfl⟩⟩
    · split at h
      · cases h
      · simp only [Except.ok.injEq, Prod.mk.injEq] at h
        obtain ⟨rfl, rfl⟩ := h
        exact ⟨rfl, rfl, fun h => by cases h⟩

/-- the media name populateSDP prints for a section -/
def MSec.media : MSec → String
  | .data _ => mediaApplication
  | .unsupported _ media => media
  | .tr _ t => t.kind.name

theorem populateOne_media {st : St} {role : Setup} {grp : Option (Option (List Mid))} {m : MSec} {s : Sec} {inB : Bool}
    (h : populateOne st role grp m = .ok (s, inB)) :
    s.media = m.media := by
  cases m with
  | data id =>
    simp only [populateOne, Except.ok.injEq, Prod.mk.injEq] at h
    obtain ⟨rfl, rfl⟩ := h; rfl
  | unsupported id media =>
    simp only [populateOne, Except.ok.injEq, Prod.mk.injEq] at h
    obtain ⟨rfl, rfl⟩ := h; rfl
  | tr id t =>
    simp only [populateOne] at h
    split at h
    · simp only [Except.ok.injEq, Prod.mk.injEq] at h
      obtain ⟨rfl, rfl⟩ := h; rfl
    · split at h
      · cases h
      · simp only [Except.ok.injEq, Prod.mk.injEq] at h
        obtain ⟨rfl, rfl⟩ := h; rfl

theorem pushPop_ok {id : Mid} {r : Sec × Bool} {x : Except Err (List Sec × List Mid)} {ss : List Sec} {b : List Mid}
    (h : pushPop id r x = .ok (ss, b)) :
    ∃ ss' b', x = .ok (ss', b') ∧ ss = r.1 :: ss' ∧ b = if r.2 then id :: b' else b' := by
  cases x with
  | error e => simp [pushPop] at h
  | ok v =>
    obtain ⟨ss', b'⟩ := v
    simp only [pushPop, Except.ok.injEq, Prod.mk.injEq] at h
    exact ⟨ss', b', rfl, h.1.symm, h.2.symm⟩

/-- sections and BUNDLE list of populateSDP, position by position -/
theorem populateSecs_spec {st : St} {role : Setup} {grp : Option (Option (List Mid))} :
    ∀ {ms : List MSec} {ss : List Sec} {b : List Mid},
      populateSecs st role grp ms = .ok (ss, b) →
      ss.map (·.mid) = ms.map (fun m => some m.id) ∧
      ss.map (·.media) = ms.map MSec.media ∧
      b = (ss.filter Sec.accepted).filterMap (·.mid) ∧
      (∀ s ∈ ss, s.accepted = true →
        s.ufrag = true ∧ s.pwd = true ∧ s.dirs.length = 1 ∧ s.setup = some role ∧ s.fp = st.cfg.mediaFp) := by
  intro ms
  induction ms with
  | nil =>
    intro ss b h
    simp only [populateSecs, Except.ok.injEq, Prod.mk.injEq] at h
    obtain ⟨rfl, rfl⟩ := h
    simp
  | cons m ms ih =>
    intro ss b h
    simp only [populateSecs] at h
    split at h
    · cases h
    · rename_i r hone
      obtain ⟨s, inB⟩ := r
      obtain ⟨ss', b', hrest, rfl, rfl⟩ := pushPop_ok h
      have ok := populateOne_ok hone
      obtain ⟨h1, hm, h2, h3⟩ := ih hrest
      refine ⟨by simp [ok.mid, h1], by simp [populateOne_media hone, hm], ?_, ?_⟩
      · cases inB with
        | true =>
          have : s.accepted = true := by simp [Sec.accepted, ok.port]
          simp [this, ok.mid, h2]
        | false =>
          have : s.accepted = false := by simp [Sec.accepted, ok.port]
          simp [this, h2]
      · intro x hx hacc
        rcases List.mem_cons.1 hx with rfl | hx
        · apply ok.creds
          cases inB with
          | true => rfl
          | false => simp [Sec.accepted, ok.port] at hacc
        · exact h3 x hx hacc

/-! ### pluck -/

theorem pluck_some {p : Tr → Bool} : ∀ {l : List Tr} {x : Tr} {r : List Tr},
    pluck p l = some (x, r) →
    p x = true ∧ ∃ l1 l2, l = l1 ++ x :: l2 ∧ r = l1 ++ l2 ∧ ∀ y ∈ l1, p y = false := by
  intro l
  induction l with
  | nil => intro x r h; simp [pluck] at h
  | cons t ts ih =>
    intro x r h
    cases hp : p t with
    | true =>
      simp only [pluck, hp, ↓reduceIte, Option.some.injEq, Prod.mk.injEq] at h
      obtain ⟨rfl, rfl⟩ := h
      exact ⟨hp, [], ts, rfl, rfl, by simp⟩
    | false =>
      simp only [pluck, hp, Bool.false_eq_true, ↓reduceIte] at h
      split at h
      · rename_i x' r' hrec
        simp only [Option.some.injEq, Prod.mk.injEq] at h
        obtain ⟨rfl, rfl⟩ := h
        obtain ⟨hx, l1, l2, e1, e2, hl1⟩ := ih hrec
        refine ⟨hx, t :: l1, l2, by simp [e1], by simp [e2], ?_⟩
        intro y hy
        rcases List.mem_cons.1 hy with rfl | hy
        · exact hp
        · exact hl1 y hy
      · cases h

theorem pluck_none {p : Tr → Bool} : ∀ {l : List Tr}, pluck p l = none → ∀ y ∈ l, p y = false := by
  intro l
  induction l with
  | nil => intro _ y hy; cases hy
  | cons t ts ih =>
    intro h y hy
    cases hp : p t with
    | true => simp [pluck, hp] at h
    | false =>
      simp only [pluck, hp, Bool.false_eq_true, ↓reduceIte] at h
      split at h
      · cases h
      · rename_i hrec
        rcases List.mem_cons.1 hy with rfl | hy
        · exact hp
        · exact ih hrec y hy

/-- the mids that are set are pairwise distinct -/
def MidsDistinct (l : List Tr) : Prop := (l.filterMap (·.mid)).Nodup

instance (l : List Tr) : Decidable (MidsDistinct l) := by unfold MidsDistinct; infer_instance

theorem MidsDistinct.sublist {l l' : List Tr} (h : MidsDistinct l) (hs : l'.Sublist l) : MidsDistinct l' :=
  List.Nodup.sublist (List.Sublist.filterMap _ hs) h

theorem MidsDistinct.remove {l1 l2 : List Tr} {x : Tr} {m : Mid} (h : MidsDistinct (l1 ++ x :: l2)) (hx : x.mid = some m) :
    MidsDistinct (l1 ++ l2) ∧ ∀ t ∈ l1 ++ l2, t.mid ≠ some m := by
  unfold MidsDistinct at *
  simp only [List.filterMap_append, List.filterMap_cons, hx] at h
  have h' := List.nodup_append.1 h
  obtain ⟨n1, n2, disj⟩ := h'
  have n2' := List.nodup_cons.1 n2
  refine ⟨?_, ?_⟩
  · simp only [List.filterMap_append]
    refine List.nodup_append.2 ⟨n1, n2'.2, ?_⟩
    intro a ha b hb
    exact disj a ha b (List.mem_cons_of_mem _ hb)
  · intro t ht hm
    rcases List.mem_append.1 ht with ht | ht
    · have : m ∈ l1.filterMap (·.mid) := List.mem_filterMap.2 ⟨t, ht, hm⟩
      exact disj m this m (List.mem_cons_self) rfl
    · have : m ∈ l2.filterMap (·.mid) := List.mem_filterMap.2 ⟨t, ht, hm⟩
      exact n2'.1 this

/-! ### the m-section loop of generateMatchedSDP -/

@[simp] theorem Tr.narrow_kind (ans : Bool) (d : Dir) (t : Tr) : (t.narrow ans d).kind = t.kind := by
  unfold Tr.narrow; split <;> rfl

@[simp] theorem Tr.narrow_mid (ans : Bool) (d : Dir) (t : Tr) : (t.narrow ans d).mid = t.mid := by
  unfold Tr.narrow; split <;> rfl

theorem pushSec_ok {m : MSec} {isApp : Bool} {x : Except Err (List MSec × List Tr × Bool)}
    {ms : List MSec} {l : List Tr} {app : Bool} (h : pushSec m isApp x = .ok (ms, l, app)) :
    ∃ ms' app', x = .ok (ms', l, app') ∧ ms = m :: ms' ∧ app = (app' || isApp) := by
  cases x with
  | error e => simp [pushSec] at h
  | ok v =>
    obtain ⟨ms', l', app'⟩ := v
    simp only [pushSec, Except.ok.injEq, Prod.mk.injEq] at h
    obtain ⟨h1, h2, h3⟩ := h
    subst h2
    exact ⟨ms', app', rfl, h1.symm, h3.symm⟩

/-- every remote section yields exactly one media section carrying its mid, whatever the semantics -/
theorem matchLoop_ids (sem : Sem) (dpb ans : Bool) : ∀ (secs : List Sec) (loc : List Tr) ms left app,
    matchLoop sem dpb ans secs loc = .ok (ms, left, app) →
      ms.map (fun m => some m.id) = secs.map (·.mid) := by
  intro secs
  induction secs with
  | nil =>
    intro loc ms left app h
    simp only [matchLoop, Except.ok.injEq, Prod.mk.injEq] at h
    simp [h.1.symm]
  | cons s rest ih =>
    intro loc ms left app h
    simp only [matchLoop] at h
    split at h
    · cases h
    · rename_i m hm
      split at h
      · obtain ⟨ms', app', hr, rfl, _⟩ := pushSec_ok h
        rw [List.map_cons, List.map_cons, ih _ _ _ _ hr, hm]; rfl
      · split at h
        · obtain ⟨ms', app', hr, rfl, _⟩ := pushSec_ok h
          rw [List.map_cons, List.map_cons, ih _ _ _ _ hr, hm]; rfl
        · split at h
          · split at h
            · cases h
            · obtain ⟨ms', app', hr, rfl, _⟩ := pushSec_ok h
              rw [List.map_cons, List.map_cons, ih _ _ _ _ hr, hm]; rfl
          · split at h
            · cases h
            · split at h
              · cases h
              · obtain ⟨ms', app', hr, rfl, _⟩ := pushSec_ok h
                rw [List.map_cons, List.map_cons, ih _ _ _ _ hr, hm]; rfl

theorem findByMid_some {m : Mid} {l : List Tr} {t : Tr} {r : List Tr} (h : findByMid m l = some (t, r)) :
    t.mid = some m ∧ ∃ l1 l2, l = l1 ++ t :: l2 ∧ r = l1 ++ l2 := by
  obtain ⟨hp, l1, l2, e1, e2, _⟩ := pluck_some h
  exact ⟨by simpa using hp, l1, l2, e1, e2⟩

/-- what an answer section's media name is, given the offered one: the very same text, or the canonical
    name of the (case-insensitively) same kind -/
def MediaAnswers (offered answered : String) : Prop :=
  answered = offered ∨ ∃ k, kindOf offered = some k ∧ answered = k.name

inductive Forall2 {α β : Type} (R : α → β → Prop) : List α → List β → Prop
  | nil : Forall2 R [] []
  | cons {a b as bs} : R a b → Forall2 R as bs → Forall2 R (a :: as) (b :: bs)

/-- Unified Plan (and fallback without Plan-B detection): what is left over is a sublist of the local
    transceivers and has none of the mids of the remote audio/video sections; each section carries the
    offered media type provided a transceiver that holds an offered mid has the offered kind -/
theorem matchLoop_unified (sem : Sem) (ans : Bool) (hsem : sem ≠ .planB) :
    ∀ (secs : List Sec) (loc : List Tr) ms left app,
    matchLoop sem false ans secs loc = .ok (ms, left, app) → MidsDistinct loc →
      left.Sublist loc ∧
      (∀ s ∈ secs, s.media ≠ mediaApplication → (kindOf s.media).isSome = true → ∀ t ∈ left, t.mid ≠ s.mid) ∧
      ((∀ s ∈ secs, ∀ t ∈ loc, s.mid.isSome = true → t.mid = s.mid → kindOf s.media = some t.kind) →
        Forall2 MediaAnswers (secs.map (·.media)) (ms.map MSec.media)) := by
  intro secs
  induction secs with
  | nil =>
    intro loc ms left app h hd
    simp only [matchLoop, Except.ok.injEq, Prod.mk.injEq] at h
    obtain ⟨rfl, rfl, _⟩ := h
    exact ⟨List.Sublist.refl _, by simp, fun _ => Forall2.nil⟩
  | cons s rest ih =>
    intro loc ms left app h hd
    simp only [matchLoop] at h
    split at h
    · cases h
    · rename_i m hm
      split at h
      · rename_i happ
        obtain ⟨ms', app', hr, rfl, _⟩ := pushSec_ok h
        obtain ⟨i1, i2, i3⟩ := ih _ _ _ _ hr hd
        refine ⟨i1, ?_, ?_⟩
        · intro s' hs' hna hk
          rcases List.mem_cons.1 hs' with rfl | hs'
          · exact absurd happ hna
          · exact i2 s' hs' hna hk
        · intro hg
          refine Forall2.cons (Or.inl (by simp [MSec.media, happ])) (i3 fun s' hs' => hg s' (List.mem_cons_of_mem _ hs'))
      · rename_i happ
        split at h
        · rename_i hk
          obtain ⟨ms', app', hr, rfl, _⟩ := pushSec_ok h
          obtain ⟨i1, i2, i3⟩ := ih _ _ _ _ hr hd
          refine ⟨i1, ?_, ?_⟩
          · intro s' hs' hna hk'
            rcases List.mem_cons.1 hs' with rfl | hs'
            · simp [hk] at hk'
            · exact i2 s' hs' hna hk'
          · intro hg
            refine Forall2.cons (Or.inl (by simp [MSec.media])) (i3 fun s' hs' => hg s' (List.mem_cons_of_mem _ hs'))
        · rename_i k hk
          split at h
          · rename_i hpb
            simp [hsem] at hpb
          · split at h
            · rename_i hf; cases hf
            · split at h
              · cases h
              · rename_i t loc' hfind
                obtain ⟨ms', app', hr, rfl, _⟩ := pushSec_ok h
                obtain ⟨htm, l1, l2, e1, e2⟩ := findByMid_some hfind
                subst e1 e2
                obtain ⟨hd', hne⟩ := MidsDistinct.remove hd htm
                obtain ⟨i1, i2, i3⟩ := ih _ _ _ _ hr hd'
                refine ⟨i1.trans (by simp), ?_, ?_⟩
                · intro s' hs' hna hk'
                  rcases List.mem_cons.1 hs' with rfl | hs'
                  · intro t' ht'
                    rw [hm]
                    exact hne t' (i1.subset ht')
                  · exact i2 s' hs' hna hk'
                · intro hg
                  have hkind : kindOf s.media = some t.kind :=
                    hg s (List.mem_cons_self) t (by simp) (by simp [hm]) (by rw [htm, hm])
                  refine Forall2.cons (Or.inr ⟨t.kind, hkind, by simp [MSec.media]⟩) (i3 fun s' hs' t' ht' => ?_)
                  apply hg s' (List.mem_cons_of_mem _ hs') t'
                  rcases List.mem_append.1 ht' with h1 | h2
                  · exact List.mem_append.2 (Or.inl h1)
                  · exact List.mem_append.2 (Or.inr (List.mem_cons_of_mem _ h2))

/-! ### greaterMid: scanning and numbering -/

theorem bump_ge (g : Int) (m : Mid) : g ≤ bump g m := by
  unfold bump
  split
  · split <;> omega
  · omega

theorem bump_atoi {g : Int} {m : Mid} {n : Int} (h : m.atoi = some n) : n ≤ bump g m := by
  unfold bump
  rw [h]
  simp only
  split <;> omega

theorem scanTrs_ge : ∀ (l : List Tr) (g : Int), g ≤ scanTrs g l := by
  intro l
  induction l with
  | nil => intro g; simp [scanTrs]
  | cons t ts ih =>
    intro g
    simp only [scanTrs]
    split
    · exact Int.le_trans (bump_ge _ _) (ih _)
    · exact ih _

theorem scanTrs_bound : ∀ (l : List Tr) (g : Int) (t : Tr), t ∈ l → ∀ m n, t.mid = some m → m.atoi = some n →
    n ≤ scanTrs g l := by
  intro l
  induction l with
  | nil => intro g t ht; cases ht
  | cons x xs ih =>
    intro g t ht m n hm hn
    simp only [scanTrs]
    rcases List.mem_cons.1 ht with rfl | ht
    · rw [hm]
      exact Int.le_trans (bump_atoi hn) (scanTrs_ge _ _)
    · split
      · exact ih _ t ht m n hm hn
      · exact ih _ t ht m n hm hn

theorem scanSecs_ge : ∀ (l : List Sec) (g : Int), g ≤ scanSecs g l := by
  intro l
  induction l with
  | nil => intro g; simp [scanSecs]
  | cons t ts ih =>
    intro g
    simp only [scanSecs]
    split
    · exact Int.le_trans (bump_ge _ _) (ih _)
    · exact ih _

theorem scanSecs_bound : ∀ (l : List Sec) (g : Int) (s : Sec), s ∈ l → ∀ m n, s.mid = some m → m.atoi = some n →
    n ≤ scanSecs g l := by
  intro l
  induction l with
  | nil => intro g t ht; cases ht
  | cons x xs ih =>
    intro g t ht m n hm hn
    simp only [scanSecs]
    rcases List.mem_cons.1 ht with rfl | ht
    · rw [hm]
      exact Int.le_trans (bump_atoi hn) (scanSecs_ge _ _)
    · split
      · exact ih _ t ht m n hm hn
      · exact ih _ t ht m n hm hn

theorem scanDesc_ge (g : Int) (d : Option Desc) : g ≤ scanDesc g d := by
  cases d with
  | none => simp [scanDesc]
  | some d => exact scanSecs_ge _ _

theorem scanDesc_bound (g : Int) (d : Desc) (s : Sec) (hs : s ∈ d.secs) (m : Mid) (n : Int)
    (hm : s.mid = some m) (hn : m.atoi = some n) : n ≤ scanDesc g (some d) :=
  scanSecs_bound _ _ s hs m n hm hn

/-- number of transceivers still without a mid -/
def midless (l : List Tr) : Nat := (l.filter (·.mid.isNone)).length

theorem num_atoi {n : Nat} (h : (n : Int) ≤ maxInt64) : (Mid.num n).atoi = some (n : Int) := by
  simp [Mid.atoi, h]

/-- every existing decimal mid is at most `g` (or too large for an int, so never allocated) -/
def BoundedBy (g : Int) (l : List Tr) : Prop :=
  ∀ t ∈ l, ∀ n : Nat, t.mid = some (.num n) → (n : Int) ≤ g ∨ maxInt64 < (n : Int)

theorem allocMids_spec : ∀ (l : List Tr) (g : Int), -1 ≤ g → g + midless l ≤ maxInt64 → MidsDistinct l → BoundedBy g l →
    (allocMids g l).1 = g + midless l ∧
    MidsDistinct (allocMids g l).2 ∧
    (∀ t ∈ (allocMids g l).2, t.mid.isSome = true) ∧
    (∀ m ∈ (allocMids g l).2.filterMap (·.mid),
       m ∈ l.filterMap (·.mid) ∨ ∃ k : Nat, g < (k : Int) ∧ (k : Int) ≤ g + midless l ∧ m = .num k) := by
  intro l
  induction l with
  | nil => intro g _ _ _ _; simp [allocMids, midless, MidsDistinct]
  | cons t ts ih =>
    intro g hg hb hd hbd
    cases hm : t.mid with
    | some m =>
      have hml : midless (t :: ts) = midless ts := by simp [midless, hm]
      have hd' : MidsDistinct ts := hd.sublist (by simp)
      have hbd' : BoundedBy g ts := fun x hx => hbd x (List.mem_cons_of_mem _ hx)
      obtain ⟨i1, i2, i3, i4⟩ := ih g hg (by omega) hd' hbd'
      simp only [allocMids, hm]
      refine ⟨by rw [i1, hml], ?_, ?_, ?_⟩
      · unfold MidsDistinct at *
        simp only [List.filterMap_cons, hm] at hd ⊢
        refine List.nodup_cons.2 ⟨?_, i2⟩
        intro hmem
        rcases i4 m hmem with hold | ⟨k, hk1, hk2, rfl⟩
        · exact (List.nodup_cons.1 hd).1 hold
        · rcases hbd t (List.mem_cons_self) k hm with h | h <;> omega
      · intro x hx
        rcases List.mem_cons.1 hx with rfl | hx
        · simp [hm]
        · exact i3 x hx
      · intro m' hm'
        simp only [List.filterMap_cons, hm, List.mem_cons] at hm' ⊢
        rcases hm' with rfl | hm'
        · left; left; rfl
        · rcases i4 m' hm' with h | ⟨k, hk1, hk2, rfl⟩
          · left; right; exact h
          · right; exact ⟨k, hk1, by omega, rfl⟩
    | none =>
      have hml : midless (t :: ts) = midless ts + 1 := by simp [midless, hm]
      have hlt : g ≠ maxInt64 := by omega
      have hw : wrapInc g = g + 1 := by simp [wrapInc, hlt]
      have hit : itoa (g + 1) = .num (g + 1).toNat := by simp [itoa]; omega
      have hd' : MidsDistinct ts := hd.sublist (by simp)
      have hbd' : BoundedBy (g + 1) ts := fun x hx n hn => by
        rcases hbd x (List.mem_cons_of_mem _ hx) n hn with h | h
        · left; omega
        · right; exact h
      obtain ⟨i1, i2, i3, i4⟩ := ih (g + 1) (by omega) (by omega) hd' hbd'
      simp only [allocMids, hm, hw, hit]
      have hcast : (((g + 1).toNat : Nat) : Int) = g + 1 := by omega
      refine ⟨by rw [i1, hml]; omega, ?_, ?_, ?_⟩
      · unfold MidsDistinct at *
        simp only [List.filterMap_cons]
        refine List.nodup_cons.2 ⟨?_, i2⟩
        intro hmem
        rcases i4 _ hmem with hold | ⟨k, hk1, hk2, hk3⟩
        · obtain ⟨x, hx, hxm⟩ := List.mem_filterMap.1 hold
          rcases hbd x (List.mem_cons_of_mem _ hx) _ hxm with h | h <;> omega
        · injection hk3 with hk3
          omega
      · intro x hx
        rcases List.mem_cons.1 hx with rfl | hx
        · simp
        · exact i3 x hx
      · intro m' hm'
        simp only [List.filterMap_cons, hm, List.mem_cons] at hm' ⊢
        rcases hm' with rfl | hm'
        · right; exact ⟨(g + 1).toNat, by omega, by omega, rfl⟩
        · rcases i4 m' hm' with h | ⟨k, hk1, hk2, rfl⟩
          · left; exact h
          · right; exact ⟨k, by omega, by omega, rfl⟩

/-! ### C06 on one description -/

/-- "gives each m-section a mid that no other m-section shares; the BUNDLE group lists exactly the mids of
    the accepted (non-zero-port) m-sections, each once; each accepted m-section has ICE credentials,
    exactly one direction attribute, a setup attribute, and a DTLS fingerprint at session or media level" -/
structure SpecC06 (d : Desc) : Prop where
  everyMid : ∀ s ∈ d.secs, s.mid.isSome = true
  unique : (d.secs.filterMap (·.mid)).Nodup
  bundle : d.bundle.getD [] = (d.secs.filter Sec.accepted).filterMap (·.mid)
  accepted : ∀ s ∈ d.secs, s.accepted = true →
    s.ufrag = true ∧ s.pwd = true ∧ s.dirs.length = 1 ∧ s.setup.isSome = true ∧ (s.fp = true ∨ d.sessFp = true)

theorem filterMap_of_map_some {α β γ : Type} {f : α → Option γ} {g : β → γ} :
    ∀ {l : List α} {l' : List β}, l.map f = l'.map (fun x => some (g x)) → l.filterMap f = l'.map g := by
  intro l
  induction l with
  | nil => intro l' h; cases l' with
    | nil => rfl
    | cons _ _ => simp at h
  | cons a as ih =>
    intro l' h
    cases l' with
    | nil => simp at h
    | cons b bs =>
      simp only [List.map_cons, List.cons.injEq] at h
      simp [h.1, ih h.2]

/-- populateSDP: a list of media sections with pairwise distinct ids gives a description that satisfies C06 -/
theorem populate_spec {st : St} {typ : SdpType} {role : Setup} {grp : Option (Option (List Mid))} {ms : List MSec} {d : Desc}
    (h : populate st typ role grp ms = .ok d) (hn : (ms.map MSec.id).Nodup) :
    SpecC06 d ∧ d.secs.map (·.mid) = ms.map (fun m => some m.id) ∧ d.secs.map (·.media) = ms.map MSec.media ∧
      d.typ = typ := by
  unfold populate at h
  split at h
  · cases h
  · rename_i ss b hs
    simp only [Except.ok.injEq] at h
    subst h
    obtain ⟨h1, hm, h2, h3⟩ := populateSecs_spec hs
    refine ⟨⟨?_, ?_, ?_, ?_⟩, h1, hm, rfl⟩
    · intro s hs'
      have : s.mid ∈ ss.map (·.mid) := List.mem_map.2 ⟨s, hs', rfl⟩
      rw [h1] at this
      obtain ⟨m, _, hm'⟩ := List.mem_map.1 this
      simp [← hm']
    · simp only
      rw [filterMap_of_map_some h1]
      exact hn
    · simp only
      rw [← h2]
      by_cases hb : b.isEmpty = true
      · simp only [hb, if_true, Option.getD_none]
        cases b with
        | nil => rfl
        | cons _ _ => simp at hb
      · simp [hb]
    · intro s hs' hacc
      obtain ⟨a1, a2, a3, a4, a5⟩ := h3 s hs' hacc
      refine ⟨a1, a2, a3, by simp [a4], ?_⟩
      simp only
      cases hfp : st.cfg.mediaFp with
      | true => left; rw [a5, hfp]
      | false => right; simp


/-! ### answers -/

theorem generateMatched_answer {st : St} {r : Desc} {role : Setup} {d : Desc}
    (h : generateMatched st r false role = .ok d) (hr : (r.secs.filterMap (·.mid)).Nodup) :
    SpecC06 d ∧ d.secs.map (·.mid) = r.secs.map (·.mid) ∧ d.typ = .answer ∧
      ∃ ms left app, matchLoop st.cfg.sem (st.cfg.sem != .unified && possiblyPlanB r) true r.secs st.trs = .ok (ms, left, app) ∧
        d.secs.map (·.media) = ms.map MSec.media := by
  unfold generateMatched at h
  simp only [Bool.not_false] at h
  split at h
  · cases h
  · rename_i ms left app hml
    simp only [Bool.false_eq_true, if_false] at h
    have hids := matchLoop_ids _ _ _ _ _ _ _ _ hml
    have hn : (ms.map MSec.id).Nodup := by
      rw [← filterMap_of_map_some hids.symm]; exact hr
    obtain ⟨spec, hm, hmedia, ht⟩ := populate_spec h hn
    exact ⟨spec, by rw [hm, hids], ht, ms, left, app, hml, hmedia⟩


/-! ### offers -/

theorem kindOf_application : kindOf mediaApplication = none := by decide +kernel

theorem map_getD_mid {x : Mid} : ∀ {l : List Tr}, (∀ t ∈ l, t.mid.isSome = true) →
    l.map (fun t => t.mid.getD x) = l.filterMap (·.mid) := by
  intro l
  induction l with
  | nil => intro _; rfl
  | cons t ts ih =>
    intro h
    have ht := h t (List.mem_cons_self)
    cases hm : t.mid with
    | none => simp [hm] at ht
    | some m =>
      simp [hm, ih (fun x hx => h x (List.mem_cons_of_mem _ hx))]

/-- the ids of the sections generated for a list of transceivers that all have a mid -/
theorem ids_of_trs {l : List Tr} (hall : ∀ t ∈ l, t.mid.isSome = true) :
    (l.map fun t => MSec.tr (t.mid.getD (.other "")) t).map MSec.id = l.filterMap (·.mid) := by
  rw [List.map_map]
  exact map_getD_mid hall

theorem nodup_append_data (ms : List MSec) (b : Bool) (h : (ms.map MSec.id).Nodup) :
    ((ms ++ (if b then [MSec.data (dataMid ms)] else [])).map MSec.id).Nodup := by
  cases b with
  | false => simpa using h
  | true =>
    simp only [if_true, List.map_append, List.map_cons, List.map_nil]
    refine List.nodup_append.2 ⟨h, by simp, ?_⟩
    intro a ha b hb
    simp only [List.mem_singleton] at hb
    subst hb
    intro e
    subst e
    exact dataMid_fresh ms ha

theorem generateUnmatched_spec {st : St} {d : Desc} (h : generateUnmatched st = .ok d) (hsem : st.cfg.sem ≠ .planB)
    (hd : MidsDistinct st.trs) (hall : ∀ t ∈ st.trs, t.mid.isSome = true) :
    SpecC06 d ∧ d.typ = .offer ∧
      (st.trs.map (·.mid)).IsPrefix (d.secs.map (·.mid)) := by
  unfold generateUnmatched at h
  simp only [hsem, if_false] at h
  have hbase : ((st.trs.map fun t => MSec.tr (t.mid.getD (.other "")) t).map MSec.id).Nodup := by
    rw [ids_of_trs hall]; exact hd
  obtain ⟨spec, hm, _, ht⟩ := populate_spec h (nodup_append_data _ _ hbase)
  refine ⟨spec, ht, ?_⟩
  have hpre : st.trs.map (·.mid) =
      (st.trs.map fun t => MSec.tr (t.mid.getD (.other "")) t).map (fun m => some m.id) := by
    rw [List.map_map]
    apply List.map_congr_left
    intro t ht'
    have := hall t ht'
    cases hm' : t.mid with
    | none => simp [hm'] at this
    | some m => simp [MSec.id, hm']
  rw [hm, List.map_append, hpre]
  exact List.prefix_append _ _

/-- no transceiver holds the mid of a remote section of another kind (or of an application / unsupported
    section).  This is what the recorded finding `remote-reuses-unapplied-local-mid` breaks. -/
def NoGlare (trs : List Tr) (r : Desc) : Prop :=
  ∀ s ∈ r.secs, ∀ t ∈ trs, s.mid.isSome = true → t.mid = s.mid → kindOf s.media = some t.kind

theorem generateMatched_offer {st : St} {r : Desc} {role : Setup} {d : Desc}
    (h : generateMatched st r true role = .ok d)
    (hsem : st.cfg.sem ≠ .planB) (hpb : (st.cfg.sem != .unified && possiblyPlanB r) = false)
    (hr : (r.secs.filterMap (·.mid)).Nodup)
    (hd : MidsDistinct st.trs) (hall : ∀ t ∈ st.trs, t.mid.isSome = true) (hg : NoGlare st.trs r) :
    SpecC06 d ∧ d.typ = .offer ∧ (r.secs.map (·.mid)).IsPrefix (d.secs.map (·.mid)) := by
  unfold generateMatched at h
  simp only [hpb] at h
  split at h
  · cases h
  · rename_i ms left app hml
    simp only [if_true, Bool.false_eq_true, if_false] at h
    have hids := matchLoop_ids _ _ _ _ _ _ _ _ hml
    obtain ⟨hsub, hleft, _⟩ := matchLoop_unified _ _ hsem _ _ _ _ _ hml hd
    have hallL : ∀ t ∈ left, t.mid.isSome = true := fun t ht => hall t (hsub.subset ht)
    have hn1 : ((ms ++ left.map fun t => MSec.tr (t.mid.getD (.other "")) t).map MSec.id).Nodup := by
      rw [List.map_append, ids_of_trs hallL, ← filterMap_of_map_some hids.symm]
      refine List.nodup_append.2 ⟨hr, hd.sublist hsub, ?_⟩
      intro a ha b hb e
      subst e
      obtain ⟨s, hs, hsm⟩ := List.mem_filterMap.1 ha
      obtain ⟨t, ht, htm⟩ := List.mem_filterMap.1 hb
      have hk := hg s hs t (hsub.subset ht) (by simp [hsm]) (by rw [htm, hsm])
      have hna : s.media ≠ mediaApplication := by
        intro e; rw [e, kindOf_application] at hk; cases hk
      exact hleft s hs hna (by simp [hk]) t ht (by rw [htm, hsm])
    obtain ⟨spec, hm, _, ht⟩ := populate_spec h (by
      split
      · exact nodup_append_data _ true hn1
      · simpa using hn1)
    refine ⟨spec, ht, ?_⟩
    rw [hm, ← hids]
    split
    · rw [List.map_append, List.map_append, List.append_assoc]; exact List.prefix_append _ _
    · rw [List.map_append]; exact List.prefix_append _ _

/-! ### CreateOffer / CreateAnswer -/

theorem offerIsPlanB_false {st : St} (hsem : st.cfg.sem ≠ .planB) : offerIsPlanB st = false := by
  unfold offerIsPlanB
  cases st.curRemote <;> simp [hsem]

theorem offerState_eq {st : St} (hsem : st.cfg.sem ≠ .planB) :
    offerState st =
      { st with greaterMid := (allocMids (scanAll st) st.trs).1, trs := (allocMids (scanAll st) st.trs).2 } := by
  simp [offerState, offerIsPlanB_false hsem]

theorem createOffer_ok {st : St} {d : Desc} (h : (createOffer st).2 = .ok d) :
    (createOffer st).1 = (offerState st).register d ∧ offerDesc (offerState st) = .ok d := by
  unfold createOffer at h ⊢
  split at h
  · cases h
  · rename_i d' hd
    split at h
    · cases h
    · simp only [Except.ok.injEq] at h
      subst h
      rename_i hc
      simp [hc, hd]

theorem createAnswer_ok {st : St} {d : Desc} (h : (createAnswer st).2 = .ok d) :
    ∃ r, st.remoteDesc = some r ∧ st.sig = .haveRemoteOffer ∧ generateMatched st r false .active = .ok d ∧
      (createAnswer st).1 = (answerState st r).register d := by
  unfold createAnswer at h ⊢
  split at h
  · cases h
  · rename_i r hr
    split at h
    · cases h
    · rename_i hs
      split at h
      · cases h
      · rename_i d' hg
        simp only [Except.ok.injEq] at h
        subst h
        refine ⟨r, hr, by simpa using hs, hg, ?_⟩
        simp [hs]


theorem allocMids_mem : ∀ (l : List Tr) (g : Int), -1 ≤ g → g + midless l ≤ maxInt64 →
    ∀ t' ∈ (allocMids g l).2, t' ∈ l ∨ ∃ k : Nat, g < (k : Int) ∧ (k : Int) ≤ g + midless l ∧ t'.mid = some (.num k) := by
  intro l
  induction l with
  | nil => intro g _ _ t' ht'; simp [allocMids] at ht'
  | cons t ts ih =>
    intro g hg hb t' ht'
    cases hm : t.mid with
    | some m =>
      have hml : midless (t :: ts) = midless ts := by simp [midless, hm]
      simp only [allocMids, hm] at ht'
      rcases List.mem_cons.1 ht' with rfl | ht'
      · left; exact List.mem_cons_self
      · rcases ih g hg (by omega) t' ht' with h | ⟨k, h1, h2, h3⟩
        · left; exact List.mem_cons_of_mem _ h
        · right; exact ⟨k, h1, by omega, h3⟩
    | none =>
      have hml : midless (t :: ts) = midless ts + 1 := by simp [midless, hm]
      have hlt : g ≠ maxInt64 := by omega
      have hw : wrapInc g = g + 1 := by simp [wrapInc, hlt]
      have hit : itoa (g + 1) = .num (g + 1).toNat := by simp [itoa]; omega
      simp only [allocMids, hm, hw, hit] at ht'
      rcases List.mem_cons.1 ht' with rfl | ht'
      · right; exact ⟨(g + 1).toNat, by omega, by omega, rfl⟩
      · rcases ih (g + 1) (by omega) (by omega) t' ht' with h | ⟨k, h1, h2, h3⟩
        · left; exact List.mem_cons_of_mem _ h
        · right; exact ⟨k, by omega, by omega, h3⟩

theorem scanAll_ge (st : St) : st.greaterMid ≤ scanAll st := by
  unfold scanAll
  refine Int.le_trans ?_ (scanTrs_ge _ _)
  refine Int.le_trans ?_ (scanDesc_ge _ _)
  refine Int.le_trans ?_ (scanDesc_ge _ _)
  refine Int.le_trans ?_ (scanDesc_ge _ _)
  exact scanDesc_ge _ _

theorem scanAll_trs (st : St) : BoundedBy (scanAll st) st.trs := by
  intro t ht n hn
  by_cases h : (n : Int) ≤ maxInt64
  · left
    exact scanTrs_bound _ _ t ht _ _ hn (num_atoi h)
  · right; omega

/-- every decimal mid of the remote description CreateOffer generates from was seen by the scan -/
theorem scanAll_remote (st : St) (r : Desc) (hr : st.remoteDesc = some r) (s : Sec) (hs : s ∈ r.secs) (n : Nat)
    (hm : s.mid = some (.num n)) (hn : (n : Int) ≤ maxInt64) : (n : Int) ≤ scanAll st := by
  unfold scanAll
  refine Int.le_trans ?_ (scanTrs_ge _ _)
  refine Int.le_trans ?_ (scanDesc_ge _ _)
  refine Int.le_trans ?_ (scanDesc_ge _ _)
  unfold St.remoteDesc at hr
  cases hp : st.pendRemote with
  | some p =>
    simp only [hp, Option.some.injEq] at hr
    subst hr
    exact scanDesc_bound _ _ s hs _ _ hm (num_atoi hn)
  | none =>
    simp only [hp] at hr
    refine Int.le_trans ?_ (scanDesc_ge _ _)
    rw [hr]
    exact scanDesc_bound _ _ s hs _ _ hm (num_atoi hn)

/-- CreateOffer's counter does not overflow.  Excludes exactly the recorded finding
    `mid-collision:int64-wrap`. -/
def NoWrap (st : St) : Prop := scanAll st + midless st.trs ≤ maxInt64

instance (st : St) : Decidable (NoWrap st) := by unfold NoWrap; infer_instance

structure PeerInv (st : St) : Prop where
  distinct : MidsDistinct st.trs
  counter : -1 ≤ st.greaterMid

theorem offerState_inv {st : St} (hsem : st.cfg.sem ≠ .planB) (inv : PeerInv st) (hw : NoWrap st) :
    PeerInv (offerState st) ∧ (∀ t ∈ (offerState st).trs, t.mid.isSome = true) ∧
      (offerState st).cfg = st.cfg ∧ (offerState st).curRemote = st.curRemote ∧
      (offerState st).remoteDesc = st.remoteDesc := by
  rw [offerState_eq hsem]
  have hg : -1 ≤ scanAll st := Int.le_trans inv.counter (scanAll_ge st)
  obtain ⟨a1, a2, a3, _⟩ := allocMids_spec st.trs (scanAll st) hg hw inv.distinct (scanAll_trs st)
  refine ⟨⟨a2, ?_⟩, a3, rfl, rfl, rfl⟩
  simp only [a1]
  omega

theorem offerState_noGlare {st : St} (hsem : st.cfg.sem ≠ .planB) (inv : PeerInv st) (hw : NoWrap st)
    {r : Desc} (hr : st.remoteDesc = some r) (hg : NoGlare st.trs r) : NoGlare (offerState st).trs r := by
  rw [offerState_eq hsem]
  intro s hs t' ht' hsm htm
  have hg0 : -1 ≤ scanAll st := Int.le_trans inv.counter (scanAll_ge st)
  rcases allocMids_mem st.trs (scanAll st) hg0 hw t' ht' with hold | ⟨k, hk1, hk2, hk3⟩
  · exact hg s hs t' hold hsm htm
  · exfalso
    rw [hk3] at htm
    have := scanAll_remote st r hr s hs k htm.symm (by unfold NoWrap at hw; omega)
    omega

/-! ### operations that leave every mid alone -/

theorem MidsDistinct.of_map_eq {l l' : List Tr} (h : l'.map (·.mid) = l.map (·.mid)) (hd : MidsDistinct l) :
    MidsDistinct l' := by
  unfold MidsDistinct at *
  have e : ∀ (x : List Tr), x.filterMap (·.mid) = (x.map (·.mid)).filterMap id := by
    intro x; rw [List.filterMap_map]; rfl
  rw [e, h, ← e]; exact hd

theorem modifyNth_mid {f : Tr → Tr} (hf : ∀ t, (f t).mid = t.mid) : ∀ (i : Nat) (l : List Tr),
    (modifyNth f i l).map (·.mid) = l.map (·.mid) := by
  intro i l
  induction l generalizing i with
  | nil => simp [modifyNth]
  | cons t ts ih =>
    cases i with
    | zero => simp [modifyNth, hf]
    | succ n => simp [modifyNth, ih]

theorem updWhere_mid {p : Tr → Bool} {f : Tr → Tr} (hf : ∀ t, (f t).mid = t.mid) : ∀ {l l' : List Tr},
    updWhere p f l = some l' → l'.map (·.mid) = l.map (·.mid) := by
  intro l
  induction l with
  | nil => intro l' h; simp [updWhere] at h
  | cons t ts ih =>
    intro l' h
    cases hp : p t with
    | true =>
      simp only [updWhere, hp, ↓reduceIte, Option.some.injEq] at h
      subst h; simp [hf]
    | false =>
      simp only [updWhere, hp, Bool.false_eq_true, ↓reduceIte] at h
      split at h
      · rename_i r hr
        simp only [Option.some.injEq] at h
        subst h; simp [ih hr]
      · cases h

theorem updByMid_mid {m : Mid} {f : Tr → Tr} (hf : ∀ t, (f t).mid = t.mid) : ∀ {w w' : List (Tr × Bool)},
    updByMid m f w = some w' → w'.map (·.1.mid) = w.map (·.1.mid) := by
  intro w
  induction w with
  | nil => intro w' h; simp [updByMid] at h
  | cons p ps ih =>
    intro w' h
    obtain ⟨t, used⟩ := p
    simp only [updByMid] at h
    split at h
    · simp only [Option.some.injEq] at h
      subst h; simp [hf]
    · split at h
      · rename_i r hr
        simp only [Option.some.injEq] at h
        subst h; simp [ih hr]
      · cases h

theorem curDirLoop_mid (weOffer : Bool) : ∀ (secs : List Sec) (w : List (Tr × Bool)),
    (curDirLoop weOffer secs w).map (·.1.mid) = w.map (·.1.mid) := by
  intro secs
  induction secs with
  | nil => intro w; rfl
  | cons s rest ih =>
    intro w
    simp only [curDirLoop]
    split
    · rfl
    · split
      · exact ih w
      · split
        · rfl
        · rename_i w' hw'
          rw [ih w']
          apply updByMid_mid _ hw'
          intro t
          split <;> rfl

theorem setCurrentDirections_mid (d : Desc) (weOffer : Bool) (trs : List Tr) :
    (setCurrentDirections d weOffer trs).map (·.mid) = trs.map (·.mid) := by
  unfold setCurrentDirections
  rw [List.map_map]
  have := curDirLoop_mid weOffer d.secs (trs.map fun t => (t, false))
  simpa [List.map_map, Function.comp_def] using this


/-! ### the m-section loop of SetRemoteDescription keeps the transceivers' mids distinct -/

theorem updFirst_some {p : Tr → Bool} {f : Tr → Tr} : ∀ {w w' : List (Tr × Bool)},
    updFirst p f w = some w' →
    ∃ w1 t w2, w = w1 ++ (t, false) :: w2 ∧ p t = true ∧ w' = w1 ++ (f t, true) :: w2 := by
  intro w
  induction w with
  | nil => intro w' h; simp [updFirst] at h
  | cons x xs ih =>
    intro w' h
    obtain ⟨t, used⟩ := x
    simp only [updFirst] at h
    split at h
    · rename_i hc
      simp only [Option.some.injEq] at h
      subst h
      simp only [Bool.and_eq_true, Bool.not_eq_true'] at hc
      obtain ⟨hu, hp⟩ := hc
      subst hu
      exact ⟨[], t, xs, rfl, hp, rfl⟩
    · split at h
      · rename_i r hr
        simp only [Option.some.injEq] at h
        subst h
        obtain ⟨w1, t', w2, e1, hp, e2⟩ := ih hr
        exact ⟨(t, used) :: w1, t', w2, by simp [e1], hp, by simp [e2]⟩
      · cases h

theorem updFirst_none {p : Tr → Bool} {f : Tr → Tr} : ∀ {w : List (Tr × Bool)},
    updFirst p f w = none → ∀ x ∈ w, x.2 = false → p x.1 = false := by
  intro w
  induction w with
  | nil => intro _ x hx; cases hx
  | cons y ys ih =>
    intro h x hx hu
    obtain ⟨t, used⟩ := y
    simp only [updFirst] at h
    split at h
    · cases h
    · rename_i hc
      split at h
      · cases h
      · rename_i hr
        rcases List.mem_cons.1 hx with rfl | hx
        · simp only at hu
          subst hu
          simpa using hc
        · exact ih hr x hx hu

theorem firstSome_some {α β : Type} {f : α → Option β} : ∀ {l : List α} {b : β},
    firstSome f l = some b → ∃ a ∈ l, f a = some b := by
  intro l
  induction l with
  | nil => intro b h; simp [firstSome] at h
  | cons a as ih =>
    intro b h
    simp only [firstSome] at h
    split at h
    · rename_i b' hb
      simp only [Option.some.injEq] at h
      subst h
      exact ⟨a, List.mem_cons_self, hb⟩
    · obtain ⟨a', ha', hf⟩ := ih h
      exact ⟨a', List.mem_cons_of_mem _ ha', hf⟩

/-- invariant of the loop: `done` holds the mids of the sections already processed -/
structure WInv (w : List (Tr × Bool)) (done : List Mid) : Prop where
  distinct : MidsDistinct (w.map (·.1))
  marked : ∀ p ∈ w, p.2 = true → ∀ m, p.1.mid = some m → m ∈ done

theorem WInv.mono {w : List (Tr × Bool)} {done : List Mid} (h : WInv w done) (m : Mid) : WInv w (m :: done) :=
  ⟨h.distinct, fun p hp hu m' hm' => List.mem_cons_of_mem _ (h.marked p hp hu m' hm')⟩

theorem onFoundByMid_mid {m : Mid} {d : Dir} {t : Tr} (h : t.mid = some m) : (onFoundByMid m d t).mid = some m := by
  unfold onFoundByMid Tr.setMidIfUnset
  by_cases hd : d = .inactive <;> simp [hd, Tr.stop, h]

theorem onSatisfied_mid {m : Mid} {d : Dir} {t : Tr} (h : t.mid = none) : (onSatisfied m d t).mid = some m := by
  unfold onSatisfied Tr.setMidIfUnset
  simp [h]

/-- nobody in the working list holds `m`: marked entries hold processed mids, unmarked ones were searched -/
theorem fresh_in_w {w : List (Tr × Bool)} {done : List Mid} {m : Mid} (inv : WInv w done) (hm : m ∉ done)
    (hnone : updFirst (fun t => t.mid = some m) (onFoundByMid m .sendrecv) w = none) :
    ∀ x ∈ w, x.1.mid ≠ some m := by
  intro x hx hxm
  cases hu : x.2 with
  | true => exact hm (inv.marked x hx hu m hxm)
  | false =>
    have := updFirst_none hnone x hx hu
    simp [hxm] at this

theorem updFirst_none_indep {p : Tr → Bool} {f g : Tr → Tr} : ∀ {w : List (Tr × Bool)},
    updFirst p f w = none → updFirst p g w = none := by
  intro w
  induction w with
  | nil => intro _; rfl
  | cons y ys ih =>
    intro h
    obtain ⟨t, used⟩ := y
    simp only [updFirst] at h ⊢
    split at h
    · cases h
    · rename_i hc
      simp only [hc]
      split at h
      · cases h
      · rename_i hr
        simp [ih hr]

theorem WInv.assign {w1 w2 : List (Tr × Bool)} {t t' : Tr} {done : List Mid} {m : Mid}
    (inv : WInv (w1 ++ (t, false) :: w2) done) (ht : t.mid = none) (ht' : t'.mid = some m)
    (hfresh : ∀ x ∈ w1 ++ (t, false) :: w2, x.1.mid ≠ some m) :
    WInv (w1 ++ (t', true) :: w2) (m :: done) := by
  refine ⟨?_, ?_⟩
  · have hd := inv.distinct
    unfold MidsDistinct at *
    simp only [List.map_append, List.map_cons, List.filterMap_append, List.filterMap_cons, ht, ht'] at hd ⊢
    obtain ⟨n1, n2, disj⟩ := List.nodup_append.1 hd
    have hm1 : m ∉ (w1.map (·.1)).filterMap (·.mid) := by
      intro hmem
      obtain ⟨x, hx, hxm⟩ := List.mem_filterMap.1 hmem
      obtain ⟨y, hy, rfl⟩ := List.mem_map.1 hx
      exact hfresh y (List.mem_append.2 (Or.inl hy)) hxm
    have hm2 : m ∉ (w2.map (·.1)).filterMap (·.mid) := by
      intro hmem
      obtain ⟨x, hx, hxm⟩ := List.mem_filterMap.1 hmem
      obtain ⟨y, hy, rfl⟩ := List.mem_map.1 hx
      exact hfresh y (List.mem_append.2 (Or.inr (List.mem_cons_of_mem _ hy))) hxm
    refine List.nodup_append.2 ⟨n1, List.nodup_cons.2 ⟨hm2, n2⟩, ?_⟩
    intro a ha b hb
    rcases List.mem_cons.1 hb with rfl | hb
    · intro e; subst e; exact hm1 ha
    · exact disj a ha b hb
  · intro p hp hu m' hm'
    rcases List.mem_append.1 hp with h | h
    · exact List.mem_cons_of_mem _ (inv.marked p (List.mem_append.2 (Or.inl h)) hu m' hm')
    · rcases List.mem_cons.1 h with rfl | h
      · simp only [ht', Option.some.injEq] at hm'
        subst hm'; exact List.mem_cons_self
      · exact List.mem_cons_of_mem _ (inv.marked p (List.mem_append.2 (Or.inr (List.mem_cons_of_mem _ h))) hu m' hm')

theorem remoteSecStep_inv {st : St} {s : Sec} {w w' : List (Tr × Bool)} {done : List Mid} {m : Mid}
    (h : remoteSecStep st s w = .ok w') (hs : s.mid = some m) (hm : m ∉ done) (inv : WInv w done) :
    WInv w' (m :: done) := by
  unfold remoteSecStep at h
  rw [hs] at h
  simp only at h
  split at h
  · simp only [Except.ok.injEq] at h; subst h; exact inv.mono m
  · split at h
    · simp only [Except.ok.injEq] at h; subst h; exact inv.mono m
    · rename_i k hk
      split at h
      · -- found by mid
        rename_i w'' hfound
        simp only [Except.ok.injEq] at h; subst h
        obtain ⟨w1, t, w2, e1, hp, e2⟩ := updFirst_some hfound
        subst e1 e2
        have htm : t.mid = some m := by simpa using hp
        refine ⟨?_, ?_⟩
        · apply MidsDistinct.of_map_eq _ inv.distinct
          simp [onFoundByMid_mid htm, htm]
        · intro p hp' hu m' hm'
          rcases List.mem_append.1 hp' with h | h
          · exact List.mem_cons_of_mem _ (inv.marked p (List.mem_append.2 (Or.inl h)) hu m' hm')
          · rcases List.mem_cons.1 h with rfl | h
            · simp only [onFoundByMid_mid htm, Option.some.injEq] at hm'
              subst hm'; exact List.mem_cons_self
            · exact List.mem_cons_of_mem _ (inv.marked p (List.mem_append.2 (Or.inr (List.mem_cons_of_mem _ h))) hu m' hm')
      · rename_i hnone
        have hfresh := fresh_in_w inv hm (updFirst_none_indep hnone)
        split at h
        · -- satisfied by kind and direction
          rename_i w'' hsat
          simp only [Except.ok.injEq] at h; subst h
          unfold satisfyUpd at hsat
          obtain ⟨pd, _, hupd⟩ := firstSome_some hsat
          obtain ⟨w1, t, w2, e1, hp, e2⟩ := updFirst_some hupd
          subst e1 e2
          have htn : t.mid = none := by
            simp only [Bool.and_eq_true, decide_eq_true_eq] at hp
            exact hp.1.1
          exact WInv.assign inv htn (onSatisfied_mid htn) hfresh
        · -- a new transceiver
          simp only [Except.ok.injEq] at h; subst h
          refine ⟨?_, ?_⟩
          · have hd := inv.distinct
            unfold MidsDistinct at *
            simp only [List.map_append, List.map_cons, List.map_nil, List.filterMap_append, List.filterMap_cons,
              newFromRemote, List.filterMap_nil]
            refine List.nodup_append.2 ⟨hd, by simp, ?_⟩
            intro a ha b hb
            simp only [List.mem_singleton] at hb
            subst hb
            intro e; subst e
            obtain ⟨x, hx, hxm⟩ := List.mem_filterMap.1 ha
            obtain ⟨y, hy, rfl⟩ := List.mem_map.1 hx
            exact hfresh y hy hxm
          · intro p hp' hu m' hm'
            rcases List.mem_append.1 hp' with h | h
            · exact List.mem_cons_of_mem _ (inv.marked p h hu m' hm')
            · simp only [List.mem_singleton] at h
              subst h
              simp only [newFromRemote, Option.some.injEq] at hm'
              subst hm'; exact List.mem_cons_self

theorem remoteLoop_inv (st : St) : ∀ (secs : List Sec) (w : List (Tr × Bool)) (done : List Mid),
    WInv w done → (secs.filterMap (·.mid)).Nodup → (∀ m ∈ secs.filterMap (·.mid), m ∉ done) →
    MidsDistinct ((remoteLoop st secs w).1.map (·.1)) := by
  intro secs
  induction secs with
  | nil => intro w done inv _ _; exact inv.distinct
  | cons s rest ih =>
    intro w done inv hn hdone
    simp only [remoteLoop]
    split
    · exact inv.distinct
    · rename_i w' hstep
      cases hm : s.mid with
      | none =>
        simp [remoteSecStep, hm] at hstep
      | some m =>
        simp only [List.filterMap_cons, hm] at hn hdone
        have hn' := List.nodup_cons.1 hn
        apply ih w' (m :: done) (remoteSecStep_inv hstep hm (hdone m List.mem_cons_self) inv) hn'.2
        intro m' hm' hmem
        rcases List.mem_cons.1 hmem with rfl | hmem
        · exact hn'.1 hm'
        · exact hdone m' (List.mem_cons_of_mem _ hm') hmem

/-! ### every operation preserves the peer invariant -/

theorem engineUpdate_same (d : Desc) : ∀ (st : St),
    (engineUpdate st d).trs = st.trs ∧ (engineUpdate st d).greaterMid = st.greaterMid ∧
    (engineUpdate st d).cfg = st.cfg ∧ (engineUpdate st d).curRemote = st.curRemote ∧
    (engineUpdate st d).pendRemote = st.pendRemote ∧ (engineUpdate st d).created = st.created ∧
    (engineUpdate st d).createdPrev = st.createdPrev ∧ (engineUpdate st d).sig = st.sig := by
  unfold engineUpdate
  generalize d.secs = secs
  induction secs with
  | nil => intro st; simp
  | cons s rest ih =>
    intro st
    simp only [List.foldl_cons]
    obtain ⟨a1, a2, a3, a4, a5, a6, a7, a8⟩ := ih (engineStep st s)
    have e : (engineStep st s).trs = st.trs ∧ (engineStep st s).greaterMid = st.greaterMid ∧
        (engineStep st s).cfg = st.cfg ∧ (engineStep st s).curRemote = st.curRemote ∧
        (engineStep st s).pendRemote = st.pendRemote ∧ (engineStep st s).created = st.created ∧
        (engineStep st s).createdPrev = st.createdPrev ∧ (engineStep st s).sig = st.sig := by
      unfold engineStep
      split <;> simp
    obtain ⟨e1, e2, e3, e4, e5, e6, e7, e8⟩ := e
    exact ⟨a1.trans e1, a2.trans e2, a3.trans e3, a4.trans e4, a5.trans e5, a6.trans e6, a7.trans e7, a8.trans e8⟩

theorem PeerInv.of_trs {st st' : St} (inv : PeerInv st) (ht : st'.trs.map (·.mid) = st.trs.map (·.mid))
    (hg : st'.greaterMid = st.greaterMid) : PeerInv st' :=
  ⟨MidsDistinct.of_map_eq ht inv.distinct, by rw [hg]; exact inv.counter⟩

/-- pairwise distinct, present or not: the condition on remote descriptions -/
def DescOK (d : Desc) : Prop := (d.secs.filterMap (·.mid)).Nodup

instance (d : Desc) : Decidable (DescOK d) := by unfold DescOK; infer_instance

theorem setDescRemote_same {st st1 : St} {d : Desc} (h : setDescRemote st d = .ok st1) :
    st1.trs = st.trs ∧ st1.greaterMid = st.greaterMid ∧ st1.cfg = st.cfg ∧ st1.created = st.created ∧
      st1.createdPrev = st.createdPrev := by
  unfold setDescRemote at h
  split at h <;> split at h <;> cases h <;> exact ⟨rfl, rfl, rfl, rfl, rfl⟩

theorem remoteTrs_distinct (st : St) (d : Desc) (h : MidsDistinct st.trs) (hd : DescOK d) :
    MidsDistinct (remoteTrs st d).1 := by
  unfold remoteTrs
  split
  · have hw : WInv (st.trs.map fun t => (t, false)) [] := by
      refine ⟨?_, ?_⟩
      · simp only [List.map_map]
        have : ((fun x : Tr × Bool => x.1) ∘ fun t => (t, false)) = id := rfl
        rw [this, List.map_id]; exact h
      · intro p hp hu
        obtain ⟨t, _, rfl⟩ := List.mem_map.1 hp
        cases hu
    exact remoteLoop_inv _ _ _ _ hw hd (by simp)
  · exact h

/-- where SetRemoteDescription can leave the state -/
theorem setRemote_shape (st : St) (d : Desc) :
    (setRemote st d).1 = st ∨
      ∃ st1, setDescRemote st d = .ok st1 ∧
        ((setRemote st d).1 = { engineUpdate st1 d with trs := (remoteTrs (engineUpdate st1 d) d).1 } ∨
         (d.typ = .answer ∧ (setRemote st d).1 =
            { engineUpdate st1 d with trs := setCurrentDirections d true (remoteTrs (engineUpdate st1 d) d).1 })) := by
  unfold setRemote
  split
  · exact Or.inl rfl
  · split
    · exact Or.inl rfl
    · split
      · exact Or.inl rfl
      · split
        · exact Or.inl rfl
        · split
          · exact Or.inl rfl
          · rename_i st1 h1
            right
            refine ⟨st1, h1, ?_⟩
            simp only
            split
            · exact Or.inl rfl
            · split
              · rename_i ht; exact Or.inr ⟨ht, rfl⟩
              · exact Or.inl rfl

/-- … and where it leaves it when it succeeds -/
theorem setRemote_success {st : St} {d : Desc} (hok : (setRemote st d).2 = .ok ()) :
    ∃ st1, setDescRemote st d = .ok st1 ∧
      ((d.typ ≠ .answer ∧
          (setRemote st d).1 = { engineUpdate st1 d with trs := (remoteTrs (engineUpdate st1 d) d).1 }) ∨
       (d.typ = .answer ∧ (setRemote st d).1 =
          { engineUpdate st1 d with trs := setCurrentDirections d true (remoteTrs (engineUpdate st1 d) d).1 })) := by
  unfold setRemote at hok ⊢
  split at hok
  · cases hok
  · split at hok
    · cases hok
    · split at hok
      · cases hok
      · split at hok
        · cases hok
        · split at hok
          · cases hok
          · rename_i h1 h2 h3 h4 _ st1 h5
            rw [if_neg h1, if_neg h2, if_neg h3, if_neg h4]
            refine ⟨st1, h5, ?_⟩
            simp only at hok ⊢
            by_cases c : (!(remoteTrs (engineUpdate st1 d) d).2) = true
            · rw [if_pos c] at hok; cases hok
            · rw [if_neg c]
              by_cases ht : d.typ = .answer
              · rw [if_pos ht]; exact Or.inr ⟨ht, rfl⟩
              · rw [if_neg ht]; exact Or.inl ⟨ht, rfl⟩

theorem setRemote_inv (st : St) (d : Desc) (inv : PeerInv st) (hd : DescOK d) : PeerInv (setRemote st d).1 := by
  rcases setRemote_shape st d with h | ⟨st1, h1, h2⟩
  · rw [h]; exact inv
  · obtain ⟨t1, g1, _⟩ := setDescRemote_same h1
    obtain ⟨t2, g2, _⟩ := engineUpdate_same d st1
    have hdist : MidsDistinct (remoteTrs (engineUpdate st1 d) d).1 :=
      remoteTrs_distinct _ _ (by rw [t2, t1]; exact inv.distinct) hd
    have hcnt : -1 ≤ (engineUpdate st1 d).greaterMid := by rw [g2, g1]; exact inv.counter
    rcases h2 with h2 | ⟨_, h2⟩
    · rw [h2]; exact ⟨hdist, hcnt⟩
    · rw [h2]; exact ⟨MidsDistinct.of_map_eq (setCurrentDirections_mid _ _ _) hdist, hcnt⟩

theorem setDescLocal_same {st st1 : St} {n : Nat} {d : Desc} (h : setDescLocal st n d = .ok st1) :
    st1.trs = st.trs ∧ st1.greaterMid = st.greaterMid ∧ st1.cfg = st.cfg ∧ st1.created = st.created ∧
      st1.createdPrev = st.createdPrev := by
  unfold setDescLocal at h
  split at h <;> split at h <;> (try split at h) <;> cases h <;> exact ⟨rfl, rfl, rfl, rfl, rfl⟩

theorem setLocal_inv (st : St) (n : Nat) (d : Desc) (inv : PeerInv st) : PeerInv (setLocal st n d).1 := by
  unfold setLocal
  split
  · exact inv
  · rename_i st1 h1
    obtain ⟨t1, g1, _⟩ := setDescLocal_same h1
    split
    · exact inv.of_trs (by simp [setCurrentDirections_mid, t1]) g1
    · exact inv.of_trs (by rw [t1]) g1

theorem MidsDistinct.append_midless {l : List Tr} {t : Tr} (h : MidsDistinct l) (ht : t.mid = none) :
    MidsDistinct (l ++ [t]) := by
  unfold MidsDistinct at *
  simpa [List.filterMap_append, ht] using h

theorem addTrack_inv (st : St) (k : Kind) (inv : PeerInv st) : PeerInv (addTrack st k) := by
  unfold addTrack
  split
  · rename_i trs h
    exact inv.of_trs (updWhere_mid (fun t => by simp [Tr.attachTrack]) h) rfl
  · exact ⟨inv.distinct.append_midless rfl, inv.counter⟩

theorem addTransceiver_inv (st : St) (k : Kind) (d : Dir) (inv : PeerInv st) : PeerInv (addTransceiver st k d).1 := by
  unfold addTransceiver
  split
  · split
    · exact ⟨inv.distinct.append_midless rfl, inv.counter⟩
    · exact inv
  · split
    · exact ⟨inv.distinct.append_midless rfl, inv.counter⟩
    · exact inv
  · exact ⟨inv.distinct.append_midless rfl, inv.counter⟩
  · exact inv

theorem removeTrack_inv (st : St) (i : Nat) (inv : PeerInv st) :
    ∀ r, removeTrack st i = some r → PeerInv r.1 := by
  intro r h
  unfold removeTrack at h
  split at h
  · cases h
  · rename_i t _
    split at h
    · cases h
    · simp only [Option.some.injEq] at h
      subst h
      refine inv.of_trs ?_ rfl
      simp only
      apply modifyNth_mid
      intro x
      unfold Tr.detachTrack
      split <;> rfl

theorem stopTransceiver_inv (st : St) (i : Nat) (inv : PeerInv st) :
    ∀ s, stopTransceiver st i = some s → PeerInv s := by
  intro s h
  unfold stopTransceiver at h
  split at h
  · cases h
  · simp only [Option.some.injEq] at h
    subst h
    exact inv.of_trs (modifyNth_mid (f := Tr.stop) (fun _ => rfl) _ _) rfl

theorem register_same (st : St) (d : Desc) :
    (st.register d).trs = st.trs ∧ (st.register d).greaterMid = st.greaterMid ∧ (st.register d).cfg = st.cfg ∧
    (st.register d).curRemote = st.curRemote ∧ (st.register d).pendRemote = st.pendRemote ∧
    (st.register d).created = some (st.serial, d) ∧ (st.register d).createdPrev = st.created := by
  unfold St.register
  cases d.typ <;> simp

theorem narrowLoop_mid : ∀ (secs : List Sec) (w : List (Tr × Bool)),
    (narrowLoop secs w).map (·.1.mid) = w.map (·.1.mid) := by
  intro secs
  induction secs with
  | nil => intro w; rfl
  | cons s rest ih =>
    intro w
    simp only [narrowLoop]
    split
    · rfl
    · split
      · exact ih w
      · split
        · exact ih w
        · split
          · rfl
          · rename_i w' hw'
            rw [ih w']
            obtain ⟨w1, t, w2, e1, _, e2⟩ := updFirst_some hw'
            subst e1 e2
            simp

theorem answerState_same (st : St) (r : Desc) :
    (answerState st r).trs.map (·.mid) = st.trs.map (·.mid) ∧ (answerState st r).greaterMid = st.greaterMid ∧
    (answerState st r).cfg = st.cfg ∧ (answerState st r).curRemote = st.curRemote ∧
    (answerState st r).pendRemote = st.pendRemote ∧ (answerState st r).created = st.created ∧
    (answerState st r).createdPrev = st.createdPrev ∧ (answerState st r).sig = st.sig ∧
    (answerState st r).serial = st.serial ∧ (answerState st r).curLocal = st.curLocal ∧
    (answerState st r).pendLocal = st.pendLocal ∧ (answerState st r).lastAnswer = st.lastAnswer := by
  unfold answerState
  simp only
  split
  · exact ⟨rfl, rfl, rfl, rfl, rfl, rfl, rfl, rfl, rfl, rfl, rfl, rfl⟩
  · refine ⟨?_, rfl, rfl, rfl, rfl, rfl, rfl, rfl, rfl, rfl, rfl, rfl⟩
    have := narrowLoop_mid r.secs (st.trs.map fun t => (t, false))
    simpa [List.map_map, Function.comp_def] using this

theorem createAnswer_inv (st : St) (inv : PeerInv st) : PeerInv (createAnswer st).1 := by
  unfold createAnswer
  split
  · exact inv
  · rename_i r _
    obtain ⟨at1, ag, _⟩ := answerState_same st r
    split
    · exact inv
    · split
      · exact inv.of_trs at1 ag
      · obtain ⟨t, g, _⟩ := register_same (answerState st r) ‹Desc›
        exact inv.of_trs (by rw [t]; exact at1) (by rw [g]; exact ag)

theorem createOffer_inv (st : St) (hsem : st.cfg.sem ≠ .planB) (inv : PeerInv st) (hw : NoWrap st) :
    PeerInv (createOffer st).1 := by
  obtain ⟨inv', _⟩ := offerState_inv hsem inv hw
  unfold createOffer
  split
  · exact inv'
  · split
    · exact inv'
    · obtain ⟨t, g, _⟩ := register_same (offerState st) ‹Desc›
      exact inv'.of_trs (by rw [t]) g


/-! ### C06 for one CreateAnswer / CreateOffer -/

theorem answer_spec (st : St) (d : Desc) (h : (createAnswer st).2 = .ok d)
    (hr : ∀ r, st.remoteDesc = some r → DescOK r) : SpecC06 d := by
  obtain ⟨r, hrd, _, hg, _⟩ := createAnswer_ok h
  exact (generateMatched_answer hg (hr r hrd)).1

theorem first_offer_spec (st : St) (d : Desc) (h : (createOffer st).2 = .ok d) (hsem : st.cfg.sem ≠ .planB)
    (hcur : st.curRemote = none) (inv : PeerInv st) (hw : NoWrap st) : SpecC06 d := by
  obtain ⟨_, hd⟩ := createOffer_ok h
  obtain ⟨inv', hall, hcfg, hc, _⟩ := offerState_inv hsem inv hw
  unfold offerDesc at hd
  rw [hc, hcur] at hd
  exact (generateUnmatched_spec hd (by rw [hcfg]; exact hsem) inv'.distinct hall).1

theorem reoffer_spec (st : St) (d : Desc) (r : Desc) (h : (createOffer st).2 = .ok d) (hsem : st.cfg.sem ≠ .planB)
    (hcur : st.curRemote.isSome = true) (hrd : st.remoteDesc = some r)
    (hpb : (st.cfg.sem != .unified && possiblyPlanB r) = false)
    (hr : DescOK r) (inv : PeerInv st) (hw : NoWrap st) (hg : NoGlare st.trs r) : SpecC06 d := by
  obtain ⟨_, hd⟩ := createOffer_ok h
  obtain ⟨inv', hall, hcfg, hc, hrd'⟩ := offerState_inv hsem inv hw
  unfold offerDesc at hd
  rw [hc] at hd
  cases hcr : st.curRemote with
  | none => simp [hcr] at hcur
  | some c =>
    simp only [hcr, hrd', hrd] at hd
    exact (generateMatched_offer hd (by rw [hcfg]; exact hsem) (by rw [hcfg]; exact hpb) hr inv'.distinct hall
      (offerState_noGlare hsem inv hw hrd hg)).1

/-- an answer lists exactly the mids of the offer it is generated from, in its order (every semantics) -/
theorem answer_mids (st : St) (a : Desc) (h : (createAnswer st).2 = .ok a) :
    ∃ offer, st.remoteDesc = some offer ∧ a.secs.map (·.mid) = offer.secs.map (·.mid) ∧
      a.secs.length = offer.secs.length ∧ a.typ = .answer := by
  obtain ⟨r, hrd, _, hg, _⟩ := createAnswer_ok h
  unfold generateMatched at hg
  simp only [Bool.not_false] at hg
  split at hg
  · cases hg
  · rename_i ms left app hml
    simp only [Bool.false_eq_true, if_false] at hg
    have hids := matchLoop_ids _ _ _ _ _ _ _ _ hml
    unfold populate at hg
    split at hg
    · cases hg
    · rename_i ss b hs
      simp only [Except.ok.injEq] at hg
      subst hg
      obtain ⟨h1, _⟩ := populateSecs_spec hs
      refine ⟨r, hrd, by simp only; rw [h1, hids], ?_, rfl⟩
      have := congrArg List.length (h1.trans hids)
      simpa using this

end WebrtcVerif.Jsep
