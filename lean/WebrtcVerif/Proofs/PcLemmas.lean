import WebrtcVerif.Model.PcSections
import WebrtcVerif.Proofs.CodecLemmas
import WebrtcVerif.Proofs.SectionLemmas
/-! Lemmas about the small PeerConnection model (C10, C16). -/
namespace WebrtcVerif.PcSections
open WebrtcVerif.Codec WebrtcVerif.AnswerCodecs WebrtcVerif.SectionSdp

/-- the engine part and the error of `updateSectionX` are those of `Codec.updateSection` -/
theorem updateSectionX_eng (e : Engine) (x : ExtEngine) (s : RSection) :
    ((updateSectionX e x s).1.1, (updateSectionX e x s).2) = updateSection e s.toSection := by
  unfold updateSectionX updateSection codecPart RSection.toSection
  simp only
  by_cases hf : (kindOf s.media != Kind.other && !e.negFlag (kindOf s.media)) = true
  · simp only [hf, if_true, Bool.not_true, Bool.false_and, Bool.false_eq_true, if_false]
    cases hc : s.codecs with
    | none => simp
    | some remote =>
      simp only
      cases hm : matchSection ((e.setFlag (kindOf s.media)).locals (kindOf s.media)) remote with
      | error er => simp
      | ok p =>
        rcases p with ⟨ex, pa⟩
        simp only
        by_cases hemp : (ex.isEmpty && pa.isEmpty) = true
        · simp [hemp]
        · simp only [hemp, Bool.false_eq_true, if_false]
          cases hp : pushCodecs ((e.setFlag (kindOf s.media)).negCodecs (kindOf s.media)) (chosen ex pa) with
          | mk neg err => cases err <;> simp
  · have hf' : (kindOf s.media != Kind.other && !e.negFlag (kindOf s.media)) = false := by simpa using hf
    simp only [hf', Bool.false_eq_true, if_false, Bool.not_false, Bool.true_and]
    by_cases hm : (!e.multi || kindOf s.media == Kind.other) = true
    · simp [hm]
    · simp only [hm, Bool.false_eq_true, if_false]
      cases hc : s.codecs with
      | none => simp
      | some remote =>
        simp only
        cases hmm : matchSection (e.locals (kindOf s.media)) remote with
        | error er => simp
        | ok p =>
          rcases p with ⟨ex, pa⟩
          simp only
          by_cases hemp : (ex.isEmpty && pa.isEmpty) = true
          · simp [hemp]
          · simp only [hemp, Bool.false_eq_true, if_false]
            cases hp : pushCodecs (e.negCodecs (kindOf s.media)) (chosen ex pa) with
            | mk neg err => cases err <;> simp

/-- the header-extension part of `updateSectionX` is the old one, updated zero, one or two times from the
    section's extmap lines -/
theorem updateSectionX_ext_inv (e : Engine) (x : ExtEngine) (s : RSection) {P : ExtEngine → Prop} (hx : P x)
    (hU : ∀ y, P y → P (updateHeaderExtensions y (kindOf s.media) s.exts)) : P (updateSectionX e x s).1.2 := by
  unfold updateSectionX codecPart
  simp only
  repeat' split
  all_goals first | exact hx | exact hU _ hx | exact hU _ (hU _ hx)

theorem updateX_inv {P : Engine × ExtEngine → Prop}
    (hstep : ∀ e x s, P (e, x) → P (updateSectionX e x s).1) :
    ∀ (secs : List RSection) (e : Engine) (x : ExtEngine), P (e, x) → P (updateX e x secs).1 := by
  intro secs
  induction secs with
  | nil => intro e x h; simpa [updateX] using h
  | cons s rest ih =>
    intro e x h
    have hs := hstep e x s h
    unfold updateX
    split
    · rename_i ex er heq; rw [heq] at hs; exact hs
    · rename_i e' x' heq; rw [heq] at hs; exact ih e' x' hs

/-- a property of the header-extension state that every section of a description preserves is preserved by
    updateFromRemoteDescription -/
theorem updateX_ext_inv {P : ExtEngine → Prop} : ∀ (secs : List RSection),
    (∀ s ∈ secs, ∀ y, P y → P (updateHeaderExtensions y (kindOf s.media) s.exts)) →
    ∀ (e : Engine) (x : ExtEngine), P x → P (updateX e x secs).1.2 := by
  intro secs
  induction secs with
  | nil => intro _ e x h; simpa [updateX] using h
  | cons s rest ih =>
    intro hU e x h
    have hs : P (updateSectionX e x s).1.2 :=
      updateSectionX_ext_inv e x s h (hU s List.mem_cons_self)
    unfold updateX
    split
    · rename_i ex er heq; rw [heq] at hs; exact hs
    · rename_i e' x' heq; rw [heq] at hs
      exact ih (fun s' hs' => hU s' (List.mem_cons_of_mem _ hs')) e' x' hs

/-! ### invariants of every reachable PeerConnection -/

/-- payload types are unique inside each registered and each negotiated codec list -/
def EngineWf (e : Engine) : Prop :=
  (∀ k, ((e.locals k).map (·.pt)).Nodup) ∧ (∀ k, ((e.negCodecs k).map (·.pt)).Nodup)

/-- negotiated ids are unique (a map) and registered URIs are unique -/
def ExtWf (x : ExtEngine) : Prop := NegKeysNodup x ∧ ExtsUriNodup x

def PcWf (pc : Pc) : Prop := EngineWf pc.eng ∧ ExtWf pc.xe

theorem EngineWf.codecsByKind {e : Engine} (h : EngineWf e) (k : Kind) : ((e.codecsByKind k).map (·.pt)).Nodup := by
  cases k with
  | other => simp [Engine.codecsByKind]
  | audio =>
    have h2 := h.2 .audio; have h1 := h.1 .audio
    simp only [Engine.codecsByKind, Engine.negCodecs, Engine.locals] at h1 h2 ⊢
    split <;> assumption
  | video =>
    have h2 := h.2 .video; have h1 := h.1 .video
    simp only [Engine.codecsByKind, Engine.negCodecs, Engine.locals] at h1 h2 ⊢
    split <;> assumption

theorem updateSectionX_wf (e : Engine) (x : ExtEngine) (s : RSection) (he : EngineWf e) (hx : ExtWf x) :
    EngineWf (updateSectionX e x s).1.1 ∧ ExtWf (updateSectionX e x s).1.2 := by
  constructor
  · have heq := updateSectionX_eng e x s
    have h1 : (updateSectionX e x s).1.1 = (updateSection e s.toSection).1 := congrArg Prod.fst heq
    rw [h1]
    have heff := updateSection_effect e s.toSection
    exact ⟨fun k => by rw [effect_locals heff k]; exact he.1 k, effect_nodup heff he.2⟩
  · apply updateSectionX_ext_inv e x s (P := ExtWf) hx
    intro y hy
    exact ⟨updateHeaderExtensions_keysNodup _ _ _ hy.1, by
      unfold ExtsUriNodup; rw [updateHeaderExtensions_exts]; exact hy.2⟩

theorem updateX_wf (secs : List RSection) (e : Engine) (x : ExtEngine) (he : EngineWf e) (hx : ExtWf x) :
    EngineWf (updateX e x secs).1.1 ∧ ExtWf (updateX e x secs).1.2 :=
  updateX_inv (P := fun p => EngineWf p.1 ∧ ExtWf p.2)
    (fun e x s h => updateSectionX_wf e x s h.1 h.2) secs e x ⟨he, hx⟩

/-! ### registration -/

theorem register_wf (e : Engine) (k : Kind) (c : CodecP) (h : EngineWf e) : EngineWf (e.register k c).1 := by
  constructor
  · intro k'
    cases k with
    | other => simpa [Engine.register] using h.1 k'
    | audio =>
      cases k' with
      | audio => simpa [Engine.register, Engine.locals] using addCodec_nodup c (h.1 .audio)
      | video => simpa [Engine.register, Engine.locals] using h.1 .video
      | other => simp [Engine.locals]
    | video =>
      cases k' with
      | video => simpa [Engine.register, Engine.locals] using addCodec_nodup c (h.1 .video)
      | audio => simpa [Engine.register, Engine.locals] using h.1 .audio
      | other => simp [Engine.locals]
  · intro k'
    have := h.2 k'
    cases k <;> cases k' <;> simp [Engine.register, Engine.negCodecs] at this ⊢ <;> exact this

theorem lastIndexOfUri_spec (exts : List HdrExt) (uri : Str) : ∀ n,
    let r := (List.range n).foldl (fun acc i =>
      match exts[i]? with
      | some e => if e.uri == uri then some i else acc
      | none => acc) (none : Option Nat)
    (∀ i, r = some i → ∃ e, exts[i]? = some e ∧ e.uri = uri) ∧
    (r = none → ∀ j < n, ∀ e, exts[j]? = some e → e.uri ≠ uri) := by
  intro n
  induction n with
  | zero => simp
  | succ n ih =>
    simp only [List.range_succ, List.foldl_append, List.foldl_cons, List.foldl_nil]
    generalize hr : (List.range n).foldl _ (none : Option Nat) = r at ih ⊢
    simp only at ih
    cases hn : exts[n]? with
    | none =>
      simp only
      refine ⟨ih.1, fun hnone j hj e he => ?_⟩
      by_cases hjn : j = n
      · subst hjn; rw [hn] at he; cases he
      · exact ih.2 hnone j (by omega) e he
    | some e0 =>
      simp only
      by_cases hu : (e0.uri == uri) = true
      · simp only [hu, if_true]
        refine ⟨fun i hi => ?_, fun h => by cases h⟩
        cases hi
        exact ⟨e0, hn, by simpa using hu⟩
      · simp only [hu]
        refine ⟨ih.1, fun hnone j hj e he => ?_⟩
        by_cases hjn : j = n
        · subst hjn; rw [hn] at he; cases he; simpa using hu
        · exact ih.2 hnone j (by omega) e he

theorem map_setAt_uri : ∀ (l : List HdrExt) (i : Nat) (v e : HdrExt), l[i]? = some e → v.uri = e.uri →
    (setAt l i v).map (·.uri) = l.map (·.uri) := by
  intro l
  induction l with
  | nil => intro i v e h; simp at h
  | cons a as ih =>
    intro i v e h hv
    cases i with
    | zero => simp at h; subst h; simp [setAt, hv]
    | succ i => simp at h; simp [setAt, ih i v e h hv]

theorem setAt_append_length {α} : ∀ (l : List α) (a v : α), setAt (l ++ [a]) l.length v = l ++ [v] := by
  intro l
  induction l with
  | nil => intro a v; rfl
  | cons x xs ih => intro a v; simp [setAt, ih]

theorem registerExt_uriNodup (exts : List HdrExt) (uri : Str) (typ : Kind) (dirs : List XDir)
    (h : (exts.map (·.uri)).Nodup) : ((registerExt exts uri typ dirs).map (·.uri)).Nodup := by
  unfold registerExt lastIndexOfUri
  have spec := lastIndexOfUri_spec exts uri exts.length
  simp only at spec
  generalize (List.range exts.length).foldl _ (none : Option Nat) = r at spec ⊢
  cases r with
  | some i =>
    simp only
    rcases spec.1 i rfl with ⟨e, he, heu⟩
    rw [map_setAt_uri exts i _ e he]
    · exact h
    · cases typ <;> simp [heu]
  | none =>
    simp only
    have hnot : uri ∉ exts.map (·.uri) := by
      intro hm
      rcases List.mem_map.mp hm with ⟨e, he, heu⟩
      rcases List.getElem?_of_mem he with ⟨j, hj⟩
      have hjlt : j < exts.length := by
        rcases List.getElem?_eq_some_iff.mp hj with ⟨hlt, _⟩; exact hlt
      exact spec.2 rfl j hjlt e hj heu
    rw [setAt_append_length]
    rw [List.map_append]
    refine List.nodup_append.mpr ⟨h, by simp, ?_⟩
    intro a ha b hb
    simp at hb
    intro e; subst e
    apply hnot
    cases typ <;> simp_all

theorem freshPc_wf (multi : Bool) (codecs : List (Kind × CodecP)) (exts : List (Str × Kind × List XDir)) :
    PcWf (freshPc multi codecs exts) := by
  unfold freshPc PcWf
  constructor
  · apply foldl_inv (P := EngineWf) _ _ _
    · constructor <;> intro k <;> cases k <;> simp [Engine.locals, Engine.negCodecs]
    · intro e kc _ he; exact register_wf e kc.1 kc.2 he
  · refine ⟨by simp [NegKeysNodup, IdMap.keys], ?_⟩
    unfold ExtsUriNodup
    simp only
    apply foldl_inv (P := fun (xs : List HdrExt) => (xs.map (·.uri)).Nodup) _ _ _ (by simp)
    intro xs r _ hxs
    exact registerExt_uriNodup xs r.1 r.2.1 r.2.2 hxs

/-! ### what the calls do to the engine -/

/-- the MediaEngine of a PeerConnection -/
def core (pc : Pc) : Engine × ExtEngine := (pc.eng, pc.xe)

theorem addTransceiver_core {pc pc' : Pc} {k : Kind} {d : TDir} (h : addTransceiver pc k d = some pc') :
    core pc' = core pc := by
  unfold addTransceiver at h
  split at h
  · cases h
  · cases h; rfl
  · split at h
    · cases h
    · cases h; rfl

theorem setPrefs_core (pc : Pc) (i : Nat) (cs : List CodecP) : core (setPrefs pc i cs).1 = core pc := by
  unfold setPrefs
  split <;> rfl

theorem createOffer_core (pc : Pc) : core (createOffer pc).1 = core pc := by
  unfold createOffer
  repeat' (first | rfl | split | dsimp only)

theorem createAnswer_core (pc : Pc) : core (createAnswer pc).1 = core pc := by
  unfold createAnswer
  repeat' (first | rfl | split | dsimp only)

theorem setLocalAnswer_core (pc : Pc) : core (setLocalAnswer pc).1 = core pc := by
  unfold setLocalAnswer
  repeat' (first | rfl | split | dsimp only)

theorem applyRemoteSection_core {pc pc' : Pc} {work work' : List Nat} {s : RSection}
    (h : applyRemoteSection pc work s = some (pc', work')) : core pc' = core pc := by
  unfold applyRemoteSection at h
  repeat' (first | (cases h; rfl) | (cases h; done) | split at h | dsimp only at h)

theorem applyRemoteSections_core : ∀ (secs : List RSection) (pc pc' : Pc) (work : List Nat),
    applyRemoteSections pc work secs = some pc' → core pc' = core pc := by
  intro secs
  induction secs with
  | nil => intro pc pc' work h; simp [applyRemoteSections] at h; rw [h]
  | cons s rest ih =>
    intro pc pc' work h
    unfold applyRemoteSections at h
    split at h
    · cases h
    · rename_i pc1 w1 h1
      rw [ih pc1 pc' w1 h, applyRemoteSection_core h1]

theorem setRemoteOffer_core (pc : Pc) (d : RDesc) :
    core (setRemoteOffer pc d).1 = core pc ∨ core (setRemoteOffer pc d).1 = (updateX pc.eng pc.xe d.secs).1 := by
  unfold setRemoteOffer
  split
  · exact Or.inl rfl
  · split
    · exact Or.inl rfl
    · split
      · rename_i e x er h; right; simp [core, h]
      · rename_i e x h
        simp only
        split
        · right; simp [core, h]
        · rename_i pc' h'
          right
          rw [applyRemoteSections_core _ _ _ _ h']
          simp [core, h]

theorem step_wf (pc : Pc) (a : Action) (h : PcWf pc) : PcWf (step pc a) := by
  have key : ∀ pc' : Pc, core pc' = core pc → PcWf pc' := by
    intro pc' hc
    have h1 : pc'.eng = pc.eng := congrArg Prod.fst hc
    have h2 : pc'.xe = pc.xe := congrArg Prod.snd hc
    unfold PcWf; rw [h1, h2]; exact h
  cases a with
  | add k d =>
    simp only [step]
    cases ha : addTransceiver pc k d with
    | none => simpa using h
    | some pc' => exact key pc' (addTransceiver_core ha)
  | pref i cs => exact key _ (setPrefs_core pc i cs)
  | offer => exact key _ (createOffer_core pc)
  | answer => exact key _ (createAnswer_core pc)
  | sla => exact key _ (setLocalAnswer_core pc)
  | sro d =>
    rcases setRemoteOffer_core pc d with hc | hc
    · exact key _ hc
    · have hw := updateX_wf d.secs pc.eng pc.xe h.1 h.2
      have h1 : (step pc (.sro d)).eng = (updateX pc.eng pc.xe d.secs).1.1 := congrArg Prod.fst hc
      have h2 : (step pc (.sro d)).xe = (updateX pc.eng pc.xe d.secs).1.2 := congrArg Prod.snd hc
      unfold PcWf; rw [h1, h2]; exact hw

/-- every PeerConnection reached by a history of calls satisfies the invariants -/
theorem reachable_wf (multi : Bool) (codecs : List (Kind × CodecP)) (exts : List (Str × Kind × List XDir))
    (acts : List Action) : PcWf (acts.foldl step (freshPc multi codecs exts)) :=
  foldl_inv (P := PcWf) step acts _ (freshPc_wf multi codecs exts) (fun pc a _ h => step_wf pc a h)

/-! ### where generated sections come from -/

theorem mapM'_mem {α β} (f : α → Option β) : ∀ (l : List α) (r : List β), mapM' f l = some r →
    ∀ b ∈ r, ∃ a ∈ l, f a = some b := by
  intro l
  induction l with
  | nil => intro r h b hb; simp [mapM'] at h; subst h; cases hb
  | cons a as ih =>
    intro r h b hb
    unfold mapM' at h
    split at h
    · cases h
    · rename_i b0 hb0
      split at h
      · cases h
      · rename_i bs hbs
        cases h
        rcases List.mem_cons.mp hb with hb | hb
        · exact ⟨a, List.mem_cons_self, by rw [hb]; exact hb0⟩
        · rcases ih bs hbs b hb with ⟨a', ha', hf⟩
          exact ⟨a', List.mem_cons_of_mem _ ha', hf⟩

/-- every section of a generated description is what addTransceiverSDP writes for one of the transceivers -/
theorem matchedSections_mem {pc : Pc} {bundle : Option (List Str)} {pairs : List (RSection × Nat)}
    {unmatched : List Nat} {secs : List OutSection} (h : matchedSections pc bundle pairs unmatched = some secs) :
    ∀ o ∈ secs, ∃ t ∈ pc.trs, ∃ me, sectionFor pc.eng pc.xe t me = some o.sec := by
  unfold matchedSections at h
  simp only at h
  split at h
  · rename_i a b ha hb
    cases h
    intro o ho
    rcases List.mem_append.mp ho with ho | ho
    · rcases mapM'_mem _ _ _ ha o ho with ⟨p, _, hp⟩
      split at hp
      · cases hp
      · rename_i t ht
        rcases Option.map_eq_some_iff.mp hp with ⟨sec, hsec, rfl⟩
        exact ⟨t, List.mem_of_getElem? ht, _, hsec⟩
    · rcases mapM'_mem _ _ _ hb o ho with ⟨i, _, hp⟩
      split at hp
      · cases hp
      · rename_i t ht
        rcases Option.map_eq_some_iff.mp hp with ⟨sec, hsec, rfl⟩
        exact ⟨t, List.mem_of_getElem? ht, _, hsec⟩
  · cases h

theorem offerSections_mem {pc : Pc} {secs : List OutSection} (h : offerSections pc = some secs) :
    ∀ o ∈ secs, ∃ t ∈ pc.trs, ∃ me, sectionFor pc.eng pc.xe t me = some o.sec := by
  unfold offerSections at h
  dsimp only at h
  split at h
  · cases h
  · split at h
    · cases h
    · rename_i secs' hm
      split at h
      · cases h
      · simp only [Option.some.injEq] at h
        subst h
        exact matchedSections_mem hm

theorem answerSections_mem {pc : Pc} {secs : List OutSection} (h : answerSections pc = some secs) :
    ∀ o ∈ secs, ∃ t ∈ pc.trs, ∃ me, sectionFor pc.eng pc.xe t me = some o.sec := by
  unfold answerSections at h
  split at h
  · cases h
  · dsimp only at h
    split at h
    · cases h
    · exact matchedSections_mem h

/-- CreateOffer: the sections are those of the PeerConnection it leaves behind -/
theorem createOffer_sections (pc : Pc) : (createOffer pc).2 = offerSections (createOffer pc).1 := by
  unfold createOffer
  rfl

theorem createAnswer_sections (pc : Pc) {secs : List OutSection} (h : (createAnswer pc).2 = some secs) :
    ∀ o ∈ secs, ∃ t ∈ (createAnswer pc).1.trs, ∃ me,
      sectionFor (createAnswer pc).1.eng (createAnswer pc).1.xe t me = some o.sec := by
  unfold createAnswer at h ⊢
  exact answerSections_mem h

end WebrtcVerif.PcSections
