import WebrtcVerif.Model.Fmtp
import WebrtcVerif.Model.Codec
import WebrtcVerif.Model.StaticRtp
import WebrtcVerif.Model.AnnexB
import WebrtcVerif.Model.H26xWriter
import WebrtcVerif.Model.Rtp
import WebrtcVerif.Model.Fingerprint
import WebrtcVerif.Proofs.H26xWriterLemmas
import WebrtcVerif.Proofs.FmtpLemmas
import WebrtcVerif.Proofs.AnnexBLemmas
/-!
# Agreement between duplicated models ("one model, several views")

Several properties were built independently and model the SAME Go code more than once.  Each copy is tied
to the real code by its own differential run; this file adds machine-checked statements that the copies
agree with each other, so that only one of them has to be trusted.

## 1. internal/fmtp + rtpcodec.go:codecParametersFuzzySearch — three copies

* `Model/Fmtp.lean`      (C17)  exact Unicode corner cases, map = reversed association list + `List.lookup`
* `Model/Codec.lean`     (C15)  ASCII folding, Latin-1 `IsSpace`, map = unique-key list built with `Params.set`
* `Model/StaticRtp.lean` (C29)  ASCII folding, **only SP/TAB/LF/CR as space**, map = source-order list + `lookupLast`

All three are shown to be views of one generic parser `parseG sp low` (source-order association list read
with `lookupLast`) and one map-compatibility relation `Compat`.

Results (all theorems fully proved; core Lean, no Mathlib):

* `StaticRtp` vs `Codec` agree on EVERY fmtp line and mime type (both fold ASCII only).  The first version of
  this file found that `StaticRtp.isSp` omitted four of the eight Latin-1 code points of `unicode.IsSpace`
  (U+000B, U+000C, U+0085, U+00A0: Go trims them; `Codec`/`Fmtp` were right, `StaticRtp` was not); the model
  has been corrected, the C29 corpus has lines with those characters, and the hypothesis is gone.
* `Codec` vs `Fmtp` agree when mime types and fmtp lines are Latin-1 (`latin1`: every code point < 256;
  ASCII is a special case).  Outside they disagree on purpose (`codec_fmtp_disagree_*`): `Codec` folds
  ASCII only, `Fmtp` knows U+0130/U+017F/U+212A and the non-Latin-1 spaces.
* `StaticRtp` vs `Fmtp` by composition.

## 2. Annex-B readers — two copies

`Model/AnnexB.lean` (C34, chunked byte machine, both SEI settings) and `readBack`/`rdLoop` of
`Model/H26xWriter.lean` (C35, whole slice, SEI inclusion on) return the same units and the same end
status for ARBITRARY bytes and any clean chunking (`annexB_readers_agree`).

## 3. io.ReadFull

`Model/Ivf.lean` and `Model/Rtpdump.lean` use `Base/Bytes.lean:readFull` directly; `Model/Ogg.lean` has its
own `readN` with `readN_eq_readFull` (Proofs/OggLemmas.lean).  Nothing to reconcile.

## 4. RTP header record (C29) vs RFC 3550 wire model (C26)

`toRtp` converts; `writeOne_serialize` / `writeOne_parse`: the header rewrite of `writeRTP` is "bytes 1 and
8..11 of the serialized packet", and C26's parser reads the binding's SSRC/PT back.

## 5. strings.EqualFold — a fourth copy

`Model/Fingerprint.lean` (C14) has its own `equalFold`; it is the same function as `Fmtp.equalFold` on ALL
strings (`fingerprint_equalFold`).
-/
namespace WebrtcVerif.Agreement

abbrev Str := List Char

/-! ## 0. characters -/

theorem char_le_iff (a c : Char) : a ≤ c ↔ a.toNat ≤ c.toNat := by
  rw [Char.le_def]; exact UInt32.le_iff_toNat_le

theorem ofNat_val (n : Nat) (h : n < 55296) : (Char.ofNat n).val = UInt32.ofNat n := by
  have hv : n.isValidChar := Or.inl h
  unfold Char.ofNat
  rw [dif_pos hv]
  simp only [Char.ofNatAux]
  apply UInt32.toNat_inj.mp
  simp
  omega

/-- `Char.toLower` (used by `StaticRtp.lower`) in the form `Codec.lowerChar` is written in -/
theorem toLower_eq (c : Char) :
    c.toLower = if 65 ≤ c.toNat ∧ c.toNat ≤ 90 then Char.ofNat (c.toNat + 32) else c := by
  unfold Char.toLower
  by_cases h : 65 ≤ c.toNat ∧ c.toNat ≤ 90
  · have h' : c.val ≥ 'A'.val ∧ c.val ≤ 'Z'.val := by
      constructor
      · show 'A'.val ≤ c.val
        rw [UInt32.le_iff_toNat_le]; exact h.1
      · rw [UInt32.le_iff_toNat_le]; exact h.2
    rw [dif_pos h', if_pos h]
    apply Char.ext
    have h32 : ('a'.val - 'A'.val) = 32 := by decide
    show c.val + ('a'.val - 'A'.val) = _
    rw [h32, ofNat_val _ (by omega)]
    apply UInt32.toNat_inj.mp
    have : c.val.toNat = c.toNat := rfl
    simp [UInt32.toNat_add, this]
  · have h' : ¬ (c.val ≥ 'A'.val ∧ c.val ≤ 'Z'.val) := by
      intro hh
      apply h
      exact ⟨UInt32.le_iff_toNat_le.mp hh.1, UInt32.le_iff_toNat_le.mp hh.2⟩
    rw [dif_neg h', if_neg h]

theorem codec_lowerChar_eq (c : Char) :
    Codec.lowerChar c = if 65 ≤ c.toNat ∧ c.toNat ≤ 90 then Char.ofNat (c.toNat + 32) else c := by
  unfold Codec.lowerChar
  simp only [char_le_iff]
  rfl

/-- the two ASCII lower-casings are the same function on ALL characters -/
theorem static_lowerChar (c : Char) : c.toLower = Codec.lowerChar c := by
  rw [toLower_eq, codec_lowerChar_eq]

theorem fmtp_lowerChar_eq (c : Char) :
    Fmtp.lowerChar c = if 65 ≤ c.toNat ∧ c.toNat ≤ 90 then Char.ofNat (c.toNat + 32)
      else if c = Fmtp.kelvin then 'k' else if c = Fmtp.dotI then 'i' else c := by
  unfold Fmtp.lowerChar
  by_cases h : 65 ≤ c.toNat ∧ c.toNat ≤ 90
  · rw [if_pos ((Fmtp.isUpperAscii_iff c).2 h), if_pos h]
  · have : ¬ Fmtp.isUpperAscii c = true := fun hu => h ((Fmtp.isUpperAscii_iff c).1 hu)
    rw [if_neg this, if_neg h]

/-- every code point below 256 -/
def latin1 (s : Str) : Bool := s.all (fun c => c.toNat < 256)

/-- every code point below 128 -/
def ascii (s : Str) : Bool := s.all (fun c => c.toNat < 128)

theorem latin1_of_ascii {s : Str} (h : ascii s = true) : latin1 s = true := by
  simp only [ascii, latin1, List.all_eq_true, decide_eq_true_eq] at h ⊢
  intro c hc; have := h c hc; omega

theorem latin1_mem {s : Str} (h : latin1 s = true) {c : Char} (hc : c ∈ s) : c.toNat < 256 := by
  simp only [latin1, List.all_eq_true, decide_eq_true_eq] at h
  exact h c hc

theorem ne_special {c : Char} (h : c.toNat < 256) :
    c ≠ Fmtp.longS ∧ c ≠ Fmtp.kelvin ∧ c ≠ Fmtp.dotI := by
  refine ⟨?_, ?_, ?_⟩ <;> apply Fmtp.ne_of_toNat_ne
  · rw [Fmtp.longS_toNat]; omega
  · rw [Fmtp.kelvin_toNat]; omega
  · rw [Fmtp.dotI_toNat]; omega

/-- on Latin-1, `unicode.ToLower` of C17 is the ASCII lower-casing of C15 -/
theorem fmtp_lowerChar {c : Char} (h : c.toNat < 256) : Fmtp.lowerChar c = Codec.lowerChar c := by
  obtain ⟨_, hk, hi⟩ := ne_special h
  rw [fmtp_lowerChar_eq, codec_lowerChar_eq, if_neg hk, if_neg hi]

/-- on Latin-1, the simple-fold representative of C17 is the ASCII lower-casing of C15 -/
theorem fmtp_foldChar {c : Char} (h : c.toNat < 256) : Fmtp.foldChar c = Codec.lowerChar c := by
  obtain ⟨hs, _, hi⟩ := ne_special h
  rw [Fmtp.foldChar_of_ne hs hi, fmtp_lowerChar h]

theorem toNat_eq_iff (c : Char) (n : Nat) (h : n < 55296) : c = Char.ofNat n ↔ c.toNat = n := by
  constructor
  · intro e; rw [e]; exact Fmtp.toNat_ofNat_small n h
  · intro e; rw [← e, Char.ofNat_toNat]

/-- on Latin-1, the complete `unicode.IsSpace` of C17 is the Latin-1 `IsSpace` of C15 -/
theorem fmtp_isSpace {c : Char} (h : c.toNat < 256) : Fmtp.isSpace c = Codec.isSpace c := by
  have e : ∀ n, n < 55296 → (c == Char.ofNat n) = (c.toNat == n) := by
    intro n hn
    apply Bool.eq_iff_iff.2
    simp only [beq_iff_eq]
    exact toNat_eq_iff c n hn
  have e32 : (c == ' ') = (c.toNat == 32) := e 32 (by omega)
  have e9 : (c == '\t') = (c.toNat == 9) := e 9 (by omega)
  have e10 : (c == '\n') = (c.toNat == 10) := e 10 (by omega)
  have e13 : (c == '\r') = (c.toNat == 13) := e 13 (by omega)
  unfold Fmtp.isSpace Codec.isSpace
  rw [e32, e9, e10, e13, e 11 (by omega), e 12 (by omega), e 0x85 (by omega), e 0xA0 (by omega)]
  apply Bool.eq_iff_iff.2
  simp only [Bool.or_eq_true, Bool.and_eq_true, decide_eq_true_eq, beq_iff_eq]
  omega

/-- the four Latin-1 code points of `unicode.IsSpace` that `StaticRtp.isSp` leaves out -/
def exoticSpace (c : Char) : Bool :=
  c.toNat == 11 || c.toNat == 12 || c.toNat == 0x85 || c.toNat == 0xA0

/-- `Codec.isSpace` = `StaticRtp.isSp` + the four exotic ones, on ALL characters -/
theorem codec_isSpace_eq (c : Char) : Codec.isSpace c = (StaticRtp.isSp c || exoticSpace c) := by
  have e : ∀ n, n < 55296 → (c == Char.ofNat n) = (c.toNat == n) := by
    intro n hn
    apply Bool.eq_iff_iff.2
    simp only [beq_iff_eq]
    exact toNat_eq_iff c n hn
  have e32 : (c == ' ') = (c.toNat == 32) := e 32 (by omega)
  have e9 : (c == '\t') = (c.toNat == 9) := e 9 (by omega)
  have e10 : (c == '\n') = (c.toNat == 10) := e 10 (by omega)
  have e13 : (c == '\r') = (c.toNat == 13) := e 13 (by omega)
  unfold Codec.isSpace StaticRtp.isSp exoticSpace
  rw [e32, e9, e10, e13, e 11 (by omega), e 12 (by omega), e 0x85 (by omega), e 0xA0 (by omega)]
  apply Bool.eq_iff_iff.2
  simp only [Bool.or_eq_true, beq_iff_eq]
  omega

/-- the fmtp line contains none of U+000B, U+000C, U+0085, U+00A0 -/
def noExoticSpace (s : Str) : Bool := s.all (fun c => !exoticSpace c)

theorem static_isSp (c : Char) : StaticRtp.isSp c = Codec.isSpace c := rfl

theorem dropWhile_congr {α : Type} {p q : α → Bool} : ∀ {l : List α}, (∀ x ∈ l, p x = q x) →
    l.dropWhile p = l.dropWhile q
  | [], _ => rfl
  | x :: t, h => by
    have hx := h x (by simp)
    have ht : ∀ y ∈ t, p y = q y := fun y hy => h y (by simp [hy])
    simp only [List.dropWhile_cons, hx, dropWhile_congr ht]

theorem mem_of_mem_dropWhile {α : Type} (p : α → Bool) {l : List α} {x : α} (h : x ∈ l.dropWhile p) : x ∈ l :=
  (List.dropWhile_sublist p).subset h

theorem mem_of_mem_takeWhile {α : Type} (p : α → Bool) {l : List α} {x : α} (h : x ∈ l.takeWhile p) : x ∈ l :=
  (List.takeWhile_sublist p).subset h

/-- `strings.TrimSpace` for a given notion of space -/
def trimG (sp : Char → Bool) (s : Str) : Str := ((s.dropWhile sp).reverse.dropWhile sp).reverse

theorem trimG_congr {sp sp' : Char → Bool} {s : Str} (h : ∀ c ∈ s, sp c = sp' c) : trimG sp s = trimG sp' s := by
  unfold trimG
  rw [dropWhile_congr h]
  rw [dropWhile_congr (p := sp) (q := sp')]
  intro x hx
  exact h x (mem_of_mem_dropWhile sp' (List.mem_reverse.mp hx))

theorem mem_of_mem_trimG (sp : Char → Bool) {s : Str} {c : Char} (h : c ∈ trimG sp s) : c ∈ s := by
  unfold trimG at h
  exact mem_of_mem_dropWhile sp (List.mem_reverse.mp (mem_of_mem_dropWhile sp (List.mem_reverse.mp h)))

/-- one `;`-separated segment: trim, split at the first `=`, lower-case the key -/
def segG (sp : Char → Bool) (low : Char → Char) (seg : Str) : Str × Str :=
  ((trimG sp seg).takeWhile (· != '=') |>.map low, ((trimG sp seg).dropWhile (· != '=')).drop 1)

/-- the generic `parseParameters`: the assignments `m[key] = value` in source order -/
def parseG (sp : Char → Bool) (low : Char → Char) (line : Str) : List (Str × Str) :=
  (Codec.splitOn ';' line).map (segG sp low)

/-- the value a Go map holds for `k` after the assignments `ps` (the last one wins) -/
def lookupLast (ps : List (Str × Str)) (k : Str) : Option Str := StaticRtp.lookupLast ps k

theorem mem_of_mem_splitOn (sep : Char) : ∀ (s : Str) {seg : Str} {c : Char},
    seg ∈ Codec.splitOn sep s → c ∈ seg → c ∈ s
  | [], seg, c, hs, hc => by
    simp only [Codec.splitOn, List.mem_singleton] at hs
    subst hs; exact hc
  | x :: xs, seg, c, hs, hc => by
    unfold Codec.splitOn at hs
    split at hs
    · rcases List.mem_cons.mp hs with rfl | hs
      · cases hc
      · exact List.mem_cons_of_mem _ (mem_of_mem_splitOn sep xs hs hc)
    · split at hs
      · simp only [List.mem_singleton] at hs
        subst hs
        simp only [List.mem_singleton] at hc
        subst hc; simp
      · rename_i h t heq
        rcases List.mem_cons.mp hs with rfl | hs
        · rcases List.mem_cons.mp hc with rfl | hc
          · simp
          · exact List.mem_cons_of_mem _ (mem_of_mem_splitOn sep xs (by rw [heq]; simp) hc)
        · exact List.mem_cons_of_mem _ (mem_of_mem_splitOn sep xs (by rw [heq]; simp [hs]) hc)

theorem segG_congr {sp sp' : Char → Bool} {low low' : Char → Char} {seg : Str}
    (hsp : ∀ c ∈ seg, sp c = sp' c) (hlow : ∀ c ∈ seg, low c = low' c) : segG sp low seg = segG sp' low' seg := by
  unfold segG
  rw [trimG_congr hsp]
  congr 1
  apply List.map_congr_left
  intro c hc
  exact hlow c (mem_of_mem_trimG sp' (mem_of_mem_takeWhile _ hc))

/-- two parsers that treat the characters OF THIS LINE alike return the same assignments -/
theorem parseG_congr {sp sp' : Char → Bool} {low low' : Char → Char} {line : Str}
    (hsp : ∀ c ∈ line, sp c = sp' c) (hlow : ∀ c ∈ line, low c = low' c) :
    parseG sp low line = parseG sp' low' line := by
  unfold parseG
  apply List.map_congr_left
  intro seg hseg
  exact segG_congr (fun c hc => hsp c (mem_of_mem_splitOn ';' line hseg hc))
    (fun c hc => hlow c (mem_of_mem_splitOn ';' line hseg hc))

/-- parameter values consist of characters of the line -/
theorem parseG_value_mem {sp : Char → Bool} {low : Char → Char} {line : Str} {kv : Str × Str}
    (h : kv ∈ parseG sp low line) {c : Char} (hc : c ∈ kv.2) : c ∈ line := by
  unfold parseG at h
  obtain ⟨seg, hseg, rfl⟩ := List.mem_map.mp h
  simp only [segG] at hc
  have := mem_of_mem_dropWhile _ (List.mem_of_mem_drop hc)
  exact mem_of_mem_splitOn ';' line hseg (mem_of_mem_trimG sp this)

theorem lookupLast_mem {ps : List (Str × Str)} {k v : Str} (h : lookupLast ps k = some v) : (k, v) ∈ ps := by
  unfold lookupLast StaticRtp.lookupLast at h
  cases hf : ps.reverse.find? (·.1 == k) with
  | none => rw [hf] at h; cases h
  | some kv =>
    rw [hf] at h
    simp only [Option.map_some, Option.some.injEq] at h
    have hm := List.mem_reverse.mp (List.mem_of_find?_eq_some hf)
    have hk := List.find?_some hf
    simp only [beq_iff_eq] at hk
    obtain ⟨k', v'⟩ := kv
    simp only at hk h; subst hk h
    exact hm

theorem lookupLast_isSome {ps : List (Str × Str)} {kv : Str × Str} (h : kv ∈ ps) : ∃ v, lookupLast ps kv.1 = some v := by
  unfold lookupLast StaticRtp.lookupLast
  cases hf : ps.reverse.find? (·.1 == kv.1) with
  | none =>
    have := List.find?_eq_none.mp hf kv (List.mem_reverse.mpr h)
    simp at this
  | some x => exact ⟨x.2, rfl⟩

theorem lookupLast_snoc (ps : List (Str × Str)) (kv : Str × Str) (k : Str) :
    lookupLast (ps ++ [kv]) k = if kv.1 == k then some kv.2 else lookupLast ps k := by
  unfold lookupLast StaticRtp.lookupLast
  rw [List.reverse_append]
  simp only [List.reverse_cons, List.reverse_nil, List.nil_append, List.singleton_append, List.find?_cons]
  cases kv.1 == k <;> simp

theorem lookupLast_cons (kv : Str × Str) (ps : List (Str × Str)) (k : Str) :
    lookupLast (kv :: ps) k = (lookupLast ps k).or (if kv.1 == k then some kv.2 else none) := by
  unfold lookupLast StaticRtp.lookupLast
  rw [List.reverse_cons, List.find?_append]
  simp only [List.find?_cons, List.find?_nil]
  cases List.find? (fun x => x.1 == k) ps.reverse <;> cases kv.1 == k <;> simp

/-! ### view 1: `StaticRtp` -/

theorem static_lower (s : Str) : StaticRtp.lower s = Codec.lower s := by
  unfold StaticRtp.lower Codec.lower
  exact List.map_congr_left (fun c _ => static_lowerChar c)

theorem static_eqFold (a b : Str) : StaticRtp.eqFold a b = Codec.equalFold a b := by
  unfold StaticRtp.eqFold Codec.equalFold
  rw [static_lower, static_lower]

theorem static_splitOn (sep : Char) : ∀ s : Str, StaticRtp.splitOn sep s = Codec.splitOn sep s
  | [] => rfl
  | c :: cs => by
    unfold StaticRtp.splitOn Codec.splitOn
    rw [static_splitOn sep cs]
    by_cases h : c = sep
    · simp [h]
    · simp only [beq_iff_eq, h, if_false]
      cases Codec.splitOn sep cs <;> rfl

theorem static_trimSpace (s : Str) : StaticRtp.trimSpace s = trimG StaticRtp.isSp s := rfl

theorem static_parse_view (line : Str) :
    StaticRtp.parseParameters line = parseG StaticRtp.isSp Char.toLower line := by
  unfold StaticRtp.parseParameters parseG
  rw [static_splitOn]
  rfl

/-! ### view 2: `Fmtp` -/

theorem fmtp_splitOn (sep : Char) : ∀ s : Str, Fmtp.splitOn sep s = Codec.splitOn sep s
  | [] => rfl
  | c :: cs => by
    unfold Fmtp.splitOn Codec.splitOn
    rw [fmtp_splitOn sep cs]
    split
    · rfl
    · cases Codec.splitOn sep cs <;> rfl

theorem fmtp_parse_view (line : Str) :
    Fmtp.parseParameters line = (parseG Fmtp.isSpace Fmtp.lowerChar line).reverse := by
  unfold Fmtp.parseParameters parseG
  rw [fmtp_splitOn]
  rfl

theorem lookup_eq_find (k : Str) : ∀ l : List (Str × Str),
    List.lookup k l = (l.find? (·.1 == k)).map (·.2)
  | [] => rfl
  | (k', v) :: t => by
    simp only [List.lookup, List.find?_cons]
    rw [Fmtp.beq_comm' k k']
    cases k' == k
    · exact lookup_eq_find k t
    · rfl

/-- `Fmtp.Params.get?` on the reversed list is "last assignment wins" -/
theorem fmtp_get_view (ps : List (Str × Str)) (k : Str) : Fmtp.Params.get? ps.reverse k = lookupLast ps k := by
  unfold Fmtp.Params.get? lookupLast StaticRtp.lookupLast
  exact lookup_eq_find k _

/-! ### view 3: `Codec` (a unique-key list maintained by `Params.set`) -/

theorem codec_splitKV : ∀ s : Str,
    (Codec.splitKV s).1 = s.takeWhile (· != '=') ∧ (Codec.splitKV s).2.getD [] = (s.dropWhile (· != '=')).drop 1
  | [] => by simp [Codec.splitKV]
  | c :: cs => by
    unfold Codec.splitKV
    by_cases h : c = '='
    · subst h; simp
    · have ih := codec_splitKV cs
      simp only [h, if_false]
      have hb : (c != '=') = true := by simp [h]
      simp only [List.takeWhile_cons, List.dropWhile_cons, hb, if_true]
      exact ⟨by rw [← ih.1], ih.2⟩

theorem codec_trimSpace (s : Str) : Codec.trimSpace s = trimG Codec.isSpace s := rfl

/-- the map `Codec.parseParameters` builds from a list of assignments -/
def build (kvs : List (Str × Str)) : Codec.Params := kvs.foldl (fun m kv => m.set kv.1 kv.2) []

theorem codec_parse_view (line : Str) :
    Codec.parseParameters line = build (parseG Codec.isSpace Codec.lowerChar line) := by
  unfold Codec.parseParameters build parseG
  rw [List.foldl_map]
  congr 1
  funext m p
  have := codec_splitKV (Codec.trimSpace p)
  cases hkv : Codec.splitKV (Codec.trimSpace p) with
  | mk k v =>
    rw [hkv] at this
    simp only [segG, Codec.lower, ← codec_trimSpace]
    simp only at this
    rw [← this.1, ← this.2]

theorem get_set (m : Codec.Params) (k v k' : Str) :
    (m.set k v).get k' = if k == k' then some v else m.get k' := by
  induction m with
  | nil => simp only [Codec.Params.set, Codec.Params.get, List.find?_cons]; cases k == k' <;> simp
  | cons kv rest ih =>
    obtain ⟨k0, v0⟩ := kv
    unfold Codec.Params.set
    by_cases h0 : k0 = k
    · subst h0
      simp only [beq_self_eq_true, if_true, Codec.Params.get, List.find?_cons]
      cases k0 == k' <;> simp
    · have hb : (k0 == k) = false := by simp [h0]
      simp only [hb, Bool.false_eq_true, if_false]
      simp only [Codec.Params.get, List.find?_cons] at ih ⊢
      by_cases h1 : k0 = k'
      · subst h1
        have : (k == k0) = false := by simp; exact fun e => h0 e.symm
        simp [this]
      · have hb1 : (k0 == k') = false := by simp [h1]
        simp only [hb1]
        exact ih

theorem foldl_set_get (kvs : List (Str × Str)) : ∀ (m : Codec.Params) (k : Str),
    (kvs.foldl (fun m kv => m.set kv.1 kv.2) m).get k = ((lookupLast kvs k).or (m.get k)) := by
  induction kvs with
  | nil => intro m k; simp [lookupLast, StaticRtp.lookupLast]
  | cons kv ps ih =>
    intro m k
    rw [List.foldl_cons, ih, get_set, lookupLast_cons]
    cases lookupLast ps k <;> cases kv.1 == k <;> simp

/-- reading the unique-key map of `Codec` = "last assignment wins" -/
theorem codec_get_view (kvs : List (Str × Str)) (k : Str) : (build kvs).get k = lookupLast kvs k := by
  unfold build
  rw [foldl_set_get]
  simp [Codec.Params.get]

def keys (m : Codec.Params) : List Str := m.map (·.1)

theorem keys_set_mem (m : Codec.Params) (k v k' : Str) : k' ∈ keys (m.set k v) ↔ k' = k ∨ k' ∈ keys m := by
  induction m with
  | nil => simp [Codec.Params.set, keys]
  | cons kv rest ih =>
    obtain ⟨k0, v0⟩ := kv
    unfold Codec.Params.set
    by_cases h0 : k0 = k
    · subst h0; simp [keys]
    · have hb : (k0 == k) = false := by simp [h0]
      simp only [hb, Bool.false_eq_true, if_false]
      simp only [keys, List.map_cons, List.mem_cons] at ih ⊢
      rw [ih]
      constructor
      · rintro (h | h | h)
        · exact Or.inr (Or.inl h)
        · exact Or.inl h
        · exact Or.inr (Or.inr h)
      · rintro (h | h | h)
        · exact Or.inr (Or.inl h)
        · exact Or.inl h
        · exact Or.inr (Or.inr h)

theorem keys_set_nodup (m : Codec.Params) (k v : Str) (h : (keys m).Nodup) : (keys (m.set k v)).Nodup := by
  induction m with
  | nil => simp [Codec.Params.set, keys]
  | cons kv rest ih =>
    obtain ⟨k0, v0⟩ := kv
    unfold Codec.Params.set
    simp only [keys, List.map_cons, List.nodup_cons] at h
    by_cases h0 : k0 = k
    · subst h0
      simp only [beq_self_eq_true, if_true, keys, List.map_cons, List.nodup_cons]
      exact h
    · have hb : (k0 == k) = false := by simp [h0]
      simp only [hb, Bool.false_eq_true, if_false, keys, List.map_cons, List.nodup_cons]
      refine ⟨?_, ih h.2⟩
      intro hm
      have := (keys_set_mem rest k v k0).mp hm
      rcases this with e | e
      · exact h0 e
      · exact h.1 e

theorem foldl_set_nodup (kvs : List (Str × Str)) : ∀ m : Codec.Params, (keys m).Nodup →
    (keys (kvs.foldl (fun m kv => m.set kv.1 kv.2) m)).Nodup := by
  induction kvs with
  | nil => intro m h; exact h
  | cons kv ps ih => intro m h; exact ih _ (keys_set_nodup m _ _ h)

theorem build_nodup (kvs : List (Str × Str)) : (keys (build kvs)).Nodup :=
  foldl_set_nodup kvs [] (by simp [keys])

/-- in a unique-key list, membership is what `get` says -/
theorem mem_iff_get {m : Codec.Params} (h : (keys m).Nodup) (k v : Str) : (k, v) ∈ m ↔ m.get k = some v := by
  induction m with
  | nil => simp [Codec.Params.get]
  | cons kv rest ih =>
    obtain ⟨k0, v0⟩ := kv
    simp only [keys, List.map_cons, List.nodup_cons] at h
    have ih' := ih h.2
    simp only [Codec.Params.get, List.find?_cons] at ih' ⊢
    by_cases h0 : k0 = k
    · subst h0
      simp only [beq_self_eq_true, Option.map_some, Option.some.injEq, List.mem_cons, Prod.mk.injEq, true_and]
      constructor
      · rintro (e | e)
        · exact e.symm
        · exfalso; apply h.1
          exact List.mem_map.mpr ⟨(k0, v), e, rfl⟩
      · intro e; exact Or.inl e.symm
    · have hb : (k0 == k) = false := by simp [h0]
      simp only [hb, List.mem_cons, Prod.mk.injEq]
      rw [← ih']
      constructor
      · rintro (⟨e, _⟩ | e)
        · exact absurd e.symm h0
        · exact e
      · intro e; exact Or.inr e

/-! ## 1b. one `paramsEqual`, three views -/

/-- `paramsEqual` as a relation between two Go maps given by their lookup functions: every key present on
    both sides has `EqualFold` values (`ef` = the model's `strings.EqualFold`). -/
def Compat (ef : Str → Str → Bool) (f g : Str → Option Str) : Prop :=
  ∀ k va vb, f k = some va → g k = some vb → ef vb va = true

theorem Compat_symm {ef : Str → Str → Bool} (hef : ∀ a b, ef a b = ef b a) {f g : Str → Option Str}
    (h : Compat ef f g) : Compat ef g f :=
  fun k va vb ha hb => by rw [hef]; exact h k vb va hb ha

theorem Compat_congr {ef ef' : Str → Str → Bool} {f g : Str → Option Str}
    (h : ∀ k va vb, f k = some va → g k = some vb → ef vb va = ef' vb va) : Compat ef f g ↔ Compat ef' f g :=
  ⟨fun hc k va vb ha hb => by rw [← h k va vb ha hb]; exact hc k va vb ha hb,
   fun hc k va vb ha hb => by rw [h k va vb ha hb]; exact hc k va vb ha hb⟩

theorem codec_equalFold_comm (a b : Str) : Codec.equalFold a b = Codec.equalFold b a := by
  unfold Codec.equalFold; exact Fmtp.beq_comm' _ _

theorem codec_paramsLeq_view (A B : List (Str × Str)) :
    Codec.paramsLeq (build A) (build B) = true ↔ Compat Codec.equalFold (lookupLast A) (lookupLast B) := by
  unfold Codec.paramsLeq
  rw [List.all_eq_true]
  constructor
  · intro h k va vb ha hb
    have hm : (k, va) ∈ build A := (mem_iff_get (build_nodup A) k va).mpr (by rw [codec_get_view]; exact ha)
    have := h (k, va) hm
    simp only [codec_get_view, hb] at this
    exact this
  · intro h kv hm
    obtain ⟨k, v⟩ := kv
    have ha := (mem_iff_get (build_nodup A) k v).mp hm
    rw [codec_get_view] at ha
    simp only [codec_get_view]
    cases hb : lookupLast B k with
    | none => rfl
    | some vb => exact h k v vb ha hb

/-- view 3: `Codec.paramsEqual` on the maps built from two assignment lists -/
theorem codec_paramsEqual_view (A B : List (Str × Str)) :
    Codec.paramsEqual (build A) (build B) = true ↔ Compat Codec.equalFold (lookupLast A) (lookupLast B) := by
  unfold Codec.paramsEqual
  rw [Bool.and_eq_true, codec_paramsLeq_view, codec_paramsLeq_view]
  exact ⟨fun h => h.1, fun h => ⟨h, Compat_symm codec_equalFold_comm h⟩⟩

/-- view 1: `StaticRtp.paramsEqual` (one loop only; the model's comment claims the symmetry proved here) -/
theorem static_paramsEqual_view (A B : List (Str × Str)) :
    StaticRtp.paramsEqual A B = true ↔ Compat StaticRtp.eqFold (lookupLast A) (lookupLast B) := by
  unfold StaticRtp.paramsEqual
  rw [List.all_eq_true]
  constructor
  · intro h k va vb ha hb
    have := h (k, va) (lookupLast_mem ha)
    have ha' : StaticRtp.lookupLast A k = some va := ha
    have hb' : StaticRtp.lookupLast B k = some vb := hb
    simp only [ha', hb', Option.getD_some] at this
    exact this
  · intro h kv hm
    obtain ⟨v, hv⟩ := lookupLast_isSome hm
    have hv' : StaticRtp.lookupLast A kv.1 = some v := hv
    cases hb : StaticRtp.lookupLast B kv.1 with
    | none => rfl
    | some vb =>
      simp only [hv', Option.getD_some]
      exact h kv.1 v vb hv hb

theorem fmtp_paramsHalf_view (A B : List (Str × Str)) :
    Fmtp.paramsHalf A.reverse B.reverse = true ↔ Compat Fmtp.equalFold (lookupLast A) (lookupLast B) := by
  unfold Fmtp.paramsHalf
  rw [List.all_eq_true]
  constructor
  · intro h k va vb ha hb
    have := h (k, va) (List.mem_reverse.mpr (lookupLast_mem ha))
    simp only [fmtp_get_view, ha, hb] at this
    exact this
  · intro h kv _
    simp only [fmtp_get_view]
    cases hb : lookupLast B kv.1 with
    | none => rfl
    | some vb =>
      cases ha : lookupLast A kv.1 with
      | none => rfl
      | some va => exact h kv.1 va vb ha hb

/-- view 2: `Fmtp.paramsEqual` on the reversed assignment lists -/
theorem fmtp_paramsEqual_view (A B : List (Str × Str)) :
    Fmtp.paramsEqual A.reverse B.reverse = true ↔ Compat Fmtp.equalFold (lookupLast A) (lookupLast B) := by
  unfold Fmtp.paramsEqual
  rw [Bool.and_eq_true, fmtp_paramsHalf_view, fmtp_paramsHalf_view]
  exact ⟨fun h => h.1, fun h => ⟨h, Compat_symm Fmtp.equalFold_comm h⟩⟩

/-- `StaticRtp.paramsEqual` = `Codec.paramsEqual`, for ANY two assignment lists -/
theorem static_codec_paramsEqual (A B : List (Str × Str)) :
    StaticRtp.paramsEqual A B = Codec.paramsEqual (build A) (build B) := by
  apply Bool.eq_iff_iff.2
  rw [static_paramsEqual_view, codec_paramsEqual_view]
  exact Compat_congr (fun _ _ _ _ _ => static_eqFold _ _)

theorem fmtp_equalFold {a b : Str} (ha : latin1 a = true) (hb : latin1 b = true) :
    Fmtp.equalFold a b = Codec.equalFold a b := by
  unfold Fmtp.equalFold Codec.equalFold Codec.lower
  rw [List.map_congr_left (fun c hc => fmtp_foldChar (latin1_mem ha hc)),
      List.map_congr_left (fun c hc => fmtp_foldChar (latin1_mem hb hc))]

theorem fmtp_toLower {a : Str} (ha : latin1 a = true) : Fmtp.toLower a = Codec.lower a := by
  unfold Fmtp.toLower Codec.lower
  exact List.map_congr_left (fun c hc => fmtp_lowerChar (latin1_mem ha hc))

def valuesLatin1 (A : List (Str × Str)) : Prop := ∀ kv ∈ A, latin1 kv.2 = true

/-- `Fmtp.paramsEqual` = `Codec.paramsEqual` when the parameter VALUES are Latin-1 -/
theorem fmtp_codec_paramsEqual (A B : List (Str × Str)) (hA : valuesLatin1 A) (hB : valuesLatin1 B) :
    Fmtp.paramsEqual A.reverse B.reverse = Codec.paramsEqual (build A) (build B) := by
  apply Bool.eq_iff_iff.2
  rw [fmtp_paramsEqual_view, codec_paramsEqual_view]
  exact Compat_congr (fun k va vb ha hb =>
    fmtp_equalFold (hB _ (lookupLast_mem hb)) (hA _ (lookupLast_mem ha)))

/-! ## 1c. `StaticRtp` (C29) vs `Codec` (C15) -/

theorem static_defaultClockRate (m : Str) : StaticRtp.defaultClockRate m = Codec.defaultClockRate m := by
  unfold StaticRtp.defaultClockRate Codec.defaultClockRate
  simp only [static_lower]
  have h1 : StaticRtp.audioOpus = "audio/opus".toList := rfl
  have h2 : StaticRtp.audioPcmu = "audio/pcmu".toList := rfl
  have h3 : StaticRtp.audioPcma = "audio/pcma".toList := rfl
  rw [h1, h2, h3]
  cases (Codec.lower m == "audio/opus".toList) <;> cases (Codec.lower m == "audio/pcmu".toList) <;>
    cases (Codec.lower m == "audio/pcma".toList) <;> rfl

theorem static_defaultChannels (m : Str) : StaticRtp.defaultChannels m = Codec.defaultChannels m := by
  unfold StaticRtp.defaultChannels Codec.defaultChannels
  rw [static_lower]; rfl

/-- `ClockRateEqual`: the same function (all inputs) -/
theorem static_clockRateEqual (m : Str) (a b : Nat) : StaticRtp.clockRateEqual m a b = Codec.clockRateEqual m a b := by
  unfold StaticRtp.clockRateEqual Codec.clockRateEqual
  simp only [static_defaultClockRate, beq_iff_eq]

/-- `ChannelsEqual`: the same function (all inputs) -/
theorem static_channelsEqual (m : Str) (a b : Nat) : StaticRtp.channelsEqual m a b = Codec.channelsEqual m a b := by
  unfold StaticRtp.channelsEqual Codec.channelsEqual
  simp only [static_defaultChannels, beq_iff_eq]

theorem static_hexNibble (c : Char) : StaticRtp.hexNibble c = Codec.hexVal c := rfl

theorem static_hexFirstTwo (s : Str) : StaticRtp.hexFirstTwo s = Codec.hexFirst2 s := by
  unfold StaticRtp.hexFirstTwo Codec.hexFirst2
  simp only [static_hexNibble]
  by_cases hodd : (s.length % 2 != 0) = true
  · simp [hodd]
  · have hodd' : (s.length % 2 != 0) = false := by simpa using hodd
    by_cases hall : s.all (fun c => (Codec.hexVal c).isSome) = true
    · match s, hall with
      | [], _ => simp
      | [_], _ => simp
      | [_, _], _ => simp
      | [_, _, _], _ => simp
      | a :: b :: c :: d :: rest, hall =>
        simp only [List.all_cons, Bool.and_eq_true] at hall
        obtain ⟨ha, hb, hc, hd, hr⟩ := hall
        obtain ⟨a', ha'⟩ := Option.isSome_iff_exists.mp ha
        obtain ⟨b', hb'⟩ := Option.isSome_iff_exists.mp hb
        obtain ⟨c', hc'⟩ := Option.isSome_iff_exists.mp hc
        obtain ⟨d', hd'⟩ := Option.isSome_iff_exists.mp hd
        simp only [List.length_cons, bne_iff_ne, ne_eq, Decidable.not_not] at hodd
        have h1 : ¬ ((rest.length + 1 + 1 + 1 + 1) % 2 = 1 ∨ rest.length + 1 + 1 + 1 + 1 < 4) := by omega
        have h2 : ¬ ((rest.length + 1 + 1 + 1 + 1) % 2 = 1) := by omega
        simp [ha', hb', hc', hd', hr, h2]
    · have hall' : s.all (fun c => (Codec.hexVal c).isSome) = false := by simpa using hall
      simp [hodd', hall']

/-- `profileLevelIDMatches`: the same function (all inputs) -/
theorem static_profileLevelIDMatches (a b : Str) :
    StaticRtp.profileLevelIDMatches a b = Codec.profileLevelIDMatches a b := by
  unfold StaticRtp.profileLevelIDMatches Codec.profileLevelIDMatches
  rw [static_hexFirstTwo, static_hexFirstTwo]
  cases Codec.hexFirst2 a <;> cases Codec.hexFirst2 b <;> rfl

def kindS2C : StaticRtp.FmtpKind → Codec.FmtpKind
  | .h264 => .h264 | .vp9 => .vp9 | .av1 => .av1 | .generic => .generic

/-- the dispatch of `fmtp.Parse` on the mime type: the same function (all inputs) -/
theorem static_fmtpKind (m : Str) : Codec.fmtpKindOf m = kindS2C (StaticRtp.fmtpKind m) := by
  unfold Codec.fmtpKindOf StaticRtp.fmtpKind
  simp only [static_eqFold]
  have h1 : StaticRtp.videoH264 = "video/h264".toList := rfl
  have h2 : StaticRtp.videoVp9 = "video/vp9".toList := rfl
  have h3 : StaticRtp.videoAv1 = "video/av1".toList := rfl
  rw [h1, h2, h3]
  cases Codec.equalFold m "video/h264".toList <;> cases Codec.equalFold m "video/vp9".toList <;>
    cases Codec.equalFold m "video/av1".toList <;> rfl

/-- `parseParameters`, as Go maps: the value under every key is the same, for every line that contains
    none of the four Latin-1 spaces `StaticRtp.isSp` omits -/
theorem static_codec_parseParameters (line : Str) (k : Str) :
    StaticRtp.lookupLast (StaticRtp.parseParameters line) k = (Codec.parseParameters line).get k := by
  rw [static_parse_view, codec_parse_view, codec_get_view]
  rw [parseG_congr (sp' := Codec.isSpace) (low' := Codec.lowerChar)
    (fun c _ => static_isSp c) (fun c _ => static_lowerChar c)]
  rfl

theorem static_parse_eq (line : Str) :
    StaticRtp.parseParameters line = parseG Codec.isSpace Codec.lowerChar line := by
  rw [static_parse_view]
  exact parseG_congr (fun c _ => static_isSp c) (fun c _ => static_lowerChar c)

/-- the record conversion C29 → C15 (a C29 codec carries no RTCP feedback) -/
def s2c (c : StaticRtp.Codec) : Codec.CodecP :=
  { mime := c.mime, clock := c.clockRate, channels := c.channels, fmtp := c.fmtp, fb := [], pt := c.pt }

theorem s2c_injective {a b : StaticRtp.Codec} (h : s2c a = s2c b) : a = b := by
  cases a; cases b
  simp only [s2c, Codec.CodecP.mk.injEq] at h
  simp [h]

/-- **`fmtp.Parse(a).Match(fmtp.Parse(b))`: C29's copy = C15's copy** on all mime types, clock rates, channel
    counts, and all fmtp lines free of U+000B/U+000C/U+0085/U+00A0. -/
theorem static_codec_fmtpMatch (a b : StaticRtp.Codec) :
    StaticRtp.fmtpMatch a b = Codec.fmtpMatch (s2c a).parse (s2c b).parse := by
  have gA : ∀ k, (Codec.parseParameters a.fmtp).get k = lookupLast (parseG Codec.isSpace Codec.lowerChar a.fmtp) k :=
    fun k => by rw [codec_parse_view, codec_get_view]
  have gB : ∀ k, (Codec.parseParameters b.fmtp).get k = lookupLast (parseG Codec.isSpace Codec.lowerChar b.fmtp) k :=
    fun k => by rw [codec_parse_view, codec_get_view]
  have hpe := static_codec_paramsEqual (parseG Codec.isSpace Codec.lowerChar a.fmtp)
    (parseG Codec.isSpace Codec.lowerChar b.fmtp)
  rw [← codec_parse_view, ← codec_parse_view] at hpe
  unfold StaticRtp.fmtpMatch Codec.fmtpMatch
  simp only [Codec.CodecP.parse, Codec.fmtpParse, s2c, static_fmtpKind, gA, gB,
    static_parse_eq a.fmtp, static_parse_eq b.fmtp]
  have k1 : StaticRtp.kPacketizationMode = "packetization-mode".toList := rfl
  have k2 : StaticRtp.kProfileLevelId = "profile-level-id".toList := rfl
  have k3 : StaticRtp.kProfileId = "profile-id".toList := rfl
  have k4 : StaticRtp.kProfile = "profile".toList := rfl
  rw [k1, k2, k3, k4]
  change (match StaticRtp.fmtpKind a.mime, StaticRtp.fmtpKind b.mime with
    | .h264, .h264 => _ | .vp9, .vp9 => _ | .av1, .av1 => _ | .generic, .generic => _ | _, _ => _) = _
  cases StaticRtp.fmtpKind a.mime <;> cases StaticRtp.fmtpKind b.mime <;> simp only [kindS2C]
  all_goals first
    | rfl
    | (simp only [static_eqFold, static_clockRateEqual, static_channelsEqual, hpe]; simp)
    | skip
  simp only [lookupLast, static_profileLevelIDMatches]
  cases StaticRtp.lookupLast (parseG Codec.isSpace Codec.lowerChar a.fmtp) "packetization-mode".toList <;>
  cases StaticRtp.lookupLast (parseG Codec.isSpace Codec.lowerChar b.fmtp) "packetization-mode".toList <;>
  cases StaticRtp.lookupLast (parseG Codec.isSpace Codec.lowerChar a.fmtp) "profile-level-id".toList <;>
  cases StaticRtp.lookupLast (parseG Codec.isSpace Codec.lowerChar b.fmtp) "profile-level-id".toList <;>
  simp

theorem find?_congr_mem {α : Type} {p q : α → Bool} : ∀ {l : List α}, (∀ x ∈ l, p x = q x) →
    l.find? p = l.find? q
  | [], _ => rfl
  | x :: t, h => by
    have hx := h x (by simp)
    have ht : ∀ y ∈ t, p y = q y := fun y hy => h y (by simp [hy])
    simp only [List.find?_cons, hx, find?_congr_mem ht]

/-- second loop of `codecParametersFuzzySearch` (mime, clock rate, channels): the same function (all inputs) -/
theorem static_codec_partialPred (needle c : StaticRtp.Codec) :
    (StaticRtp.eqFold c.mime needle.mime && StaticRtp.clockRateEqual c.mime c.clockRate needle.clockRate
      && StaticRtp.channelsEqual c.mime c.channels needle.channels) = Codec.partialPred (s2c needle) (s2c c) := by
  unfold Codec.partialPred
  rw [static_eqFold, static_clockRateEqual, static_channelsEqual]
  rfl

/-- what C29's `fuzzySearch` keeps of C15's result: the selected codec, unless the match class is `mNone` -/
def selected (r : Codec.CodecP × Codec.MatchType) : Option Codec.CodecP :=
  if r.2 = .mNone then none else some r.1

/-- **`codecParametersFuzzySearch`: C15's result determined by C29's two passes** — same selected element,
    and the match class is `mExact` iff C29's first pass finds it. -/
theorem static_codec_fuzzySearch_class (needle : StaticRtp.Codec) (hay : List StaticRtp.Codec) :
    Codec.fuzzySearch (s2c needle) (hay.map s2c) =
      match hay.find? (fun c => StaticRtp.fmtpMatch needle c) with
      | some c => (s2c c, .mExact)
      | none =>
        match StaticRtp.fuzzySearch needle hay with
        | some c => (s2c c, .mPartial)
        | none => ({}, .mNone) := by
  have e1 : (hay.map s2c).find? (Codec.exactPred (s2c needle)) =
      (hay.find? (fun c => StaticRtp.fmtpMatch needle c)).map s2c := by
    rw [List.find?_map]
    congr 1
    apply find?_congr_mem
    intro c hc
    simp only [Function.comp, Codec.exactPred]
    exact (static_codec_fmtpMatch needle c).symm
  have e2 : (hay.map s2c).find? (Codec.partialPred (s2c needle)) =
      (hay.find? (fun c => StaticRtp.eqFold c.mime needle.mime
        && StaticRtp.clockRateEqual c.mime c.clockRate needle.clockRate
        && StaticRtp.channelsEqual c.mime c.channels needle.channels)).map s2c := by
    rw [List.find?_map]
    congr 1
    apply find?_congr_mem
    intro c _
    simp only [Function.comp]
    exact (static_codec_partialPred needle c).symm
  unfold Codec.fuzzySearch StaticRtp.fuzzySearch
  rw [e1, e2]
  cases hay.find? (fun c => StaticRtp.fmtpMatch needle c) with
  | some c => rfl
  | none =>
    simp only [Option.map_none]
    cases hay.find? (fun c => StaticRtp.eqFold c.mime needle.mime
        && StaticRtp.clockRateEqual c.mime c.clockRate needle.clockRate
        && StaticRtp.channelsEqual c.mime c.channels needle.channels) <;> rfl

/-- **`codecParametersFuzzySearch`: C29's copy = C15's copy** (same selected element, `none` ⇔ `mNone`),
    for every needle and haystack whose fmtp lines are free of U+000B/U+000C/U+0085/U+00A0. -/
theorem static_codec_fuzzySearch (needle : StaticRtp.Codec) (hay : List StaticRtp.Codec) :
    (StaticRtp.fuzzySearch needle hay).map s2c = selected (Codec.fuzzySearch (s2c needle) (hay.map s2c)) := by
  rw [static_codec_fuzzySearch_class needle hay]
  unfold StaticRtp.fuzzySearch
  cases hay.find? (fun c => StaticRtp.fmtpMatch needle c) with
  | some c => simp [selected]
  | none =>
    simp only
    cases hay.find? (fun c => StaticRtp.eqFold c.mime needle.mime
        && StaticRtp.clockRateEqual c.mime c.clockRate needle.clockRate
        && StaticRtp.channelsEqual c.mime c.channels needle.channels) <;> simp [selected]

/-- the hypothesis is satisfiable: every fmtp line of `RegisterDefaultCodecs` qualifies -/
example : ∀ c ∈ Fmtp.defaultCodecs, noExoticSpace c.line = true ∧ ascii c.line = true ∧ ascii c.mime = true := by
  decide

/-! ### history: the disagreement this file found

  `strings.TrimSpace` trims `unicode.IsSpace`, which on Latin-1 is {U+0009..U+000D, U+0020, U+0085, U+00A0}.
  `StaticRtp.isSp` used to know only four of these eight, so C29's copy parsed `"\x0Bprofile-id=1"` with the key
  `"\x0Bprofile-id"` where Go (and `Codec`, `Fmtp`) see `profile-id`.  The first version of this file proved the
  agreement only under a `noExoticSpace` hypothesis and exhibited the witnesses by `decide`; `StaticRtp.isSp` has
  since been corrected to the eight code points, the hypothesis is gone, and the witnesses below now AGREE. -/

def witnessA : StaticRtp.Codec :=
  { mime := "video/VP9".toList, clockRate := 90000, channels := 0, fmtp := Char.ofNat 11 :: "profile-id=1".toList }
def witnessB : StaticRtp.Codec :=
  { mime := "video/VP9".toList, clockRate := 90000, channels := 0, fmtp := "profile-id=1".toList }

example : StaticRtp.fmtpMatch witnessA witnessB = true ∧
    Codec.fmtpMatch (s2c witnessA).parse (s2c witnessB).parse = true := by decide

/-! ## 1d. `Codec` (C15) vs `Fmtp` (C17) -/

theorem fmtp_hexVal (c : Char) : Fmtp.hexVal? c = Codec.hexVal c := by
  unfold Fmtp.hexVal? Codec.hexVal
  simp only [char_le_iff]
  rfl

/-- the first two bytes of a successful `hex.DecodeString` -/
def first2 : Option (List Nat) → Option (Nat × Nat)
  | some (a :: b :: _) => some (a, b)
  | _ => none

theorem hexDecode_isSome : ∀ s : Str,
    (Fmtp.hexDecode s).isSome = (s.length % 2 == 0 && s.all (fun c => (Codec.hexVal c).isSome))
  | [] => rfl
  | [_] => by simp [Fmtp.hexDecode]
  | a :: b :: rest => by
    have ih := hexDecode_isSome rest
    unfold Fmtp.hexDecode
    simp only [fmtp_hexVal, List.length_cons, List.all_cons]
    have hl : ((rest.length + 1 + 1) % 2 == 0) = (rest.length % 2 == 0) := by
      apply Bool.eq_iff_iff.2; simp only [beq_iff_eq]; omega
    rw [hl]
    cases hd : Fmtp.hexDecode rest <;> rw [hd] at ih <;>
    cases Codec.hexVal a <;> cases Codec.hexVal b <;>
    cases h1 : (rest.length % 2 == 0) <;> cases h2 : rest.all (fun c => (Codec.hexVal c).isSome) <;> simp_all

theorem hexFirst2_cons4 (a b c d : Char) (rest : Str) :
    Codec.hexFirst2 (a :: b :: c :: d :: rest) =
      if (Fmtp.hexDecode rest).isSome = true then
        (match Codec.hexVal a, Codec.hexVal b, Codec.hexVal c, Codec.hexVal d with
         | some a, some b, some c, some d => some (a * 16 + b, c * 16 + d)
         | _, _, _, _ => none)
      else none := by
  rw [hexDecode_isSome rest]
  unfold Codec.hexFirst2
  have hl : ((a :: b :: c :: d :: rest).length % 2 != 0) = !(rest.length % 2 == 0) := by
    apply Bool.eq_iff_iff.2
    simp only [List.length_cons, bne_iff_ne, Bool.not_eq_true', beq_eq_false_iff_ne]; omega
  simp only [hl, List.all_cons]
  cases Codec.hexVal a <;> cases Codec.hexVal b <;> cases Codec.hexVal c <;> cases Codec.hexVal d <;>
    cases h1 : (rest.length % 2 == 0) <;> cases h2 : rest.all (fun c => (Codec.hexVal c).isSome) <;> simp

theorem fmtp_hexFirst2 (s : Str) : first2 (Fmtp.hexDecode s) = Codec.hexFirst2 s := by
  match s with
  | [] => simp [Fmtp.hexDecode, first2, Codec.hexFirst2]
  | [_] => simp [Fmtp.hexDecode, first2, Codec.hexFirst2]
  | [a, b] =>
    simp only [Fmtp.hexDecode, Codec.hexFirst2, fmtp_hexVal]
    cases Codec.hexVal a <;> cases Codec.hexVal b <;> simp [first2]
  | [a, b, c] =>
    simp only [Fmtp.hexDecode, Codec.hexFirst2, fmtp_hexVal]
    cases Codec.hexVal a <;> cases Codec.hexVal b <;> simp [first2]
  | a :: b :: c :: d :: rest =>
    rw [hexFirst2_cons4]
    simp only [Fmtp.hexDecode, fmtp_hexVal]
    cases Fmtp.hexDecode rest <;>
    cases Codec.hexVal a <;> cases Codec.hexVal b <;> cases Codec.hexVal c <;> cases Codec.hexVal d <;>
      simp [first2]

/-- `profileLevelIDMatches`: the same function (all inputs) -/
theorem fmtp_profileLevelIDMatches (a b : Str) :
    Fmtp.profileLevelIDMatches a b = Codec.profileLevelIDMatches a b := by
  unfold Fmtp.profileLevelIDMatches Codec.profileLevelIDMatches
  rw [← fmtp_hexFirst2, ← fmtp_hexFirst2]
  cases Fmtp.hexDecode a with
  | none => cases Fmtp.hexDecode b <;> rfl
  | some aa =>
    rcases aa with _ | ⟨a0, _ | ⟨a1, at'⟩⟩
    · cases Fmtp.hexDecode b <;> rfl
    · cases Fmtp.hexDecode b <;> rfl
    · cases Fmtp.hexDecode b with
      | none => rfl
      | some bb =>
        rcases bb with _ | ⟨b0, _ | ⟨b1, bt⟩⟩
        · rfl
        · rfl
        · simp only [first2]
          apply Bool.eq_iff_iff.2
          simp [Prod.ext_iff]

theorem fmtp_defaultClockRate {m : Str} (h : latin1 m = true) : Fmtp.defaultClockRate m = Codec.defaultClockRate m := by
  unfold Fmtp.defaultClockRate Codec.defaultClockRate
  simp only [fmtp_toLower h, beq_iff_eq]
  rfl

theorem fmtp_defaultChannels {m : Str} (h : latin1 m = true) : Fmtp.defaultChannels m = Codec.defaultChannels m := by
  unfold Fmtp.defaultChannels Codec.defaultChannels
  simp only [fmtp_toLower h, beq_iff_eq]
  rfl

/-- `ClockRateEqual`: C17's copy = C15's copy for Latin-1 mime types -/
theorem fmtp_clockRateEqual {m : Str} (h : latin1 m = true) (a b : Nat) :
    Fmtp.clockRateEqual m a b = Codec.clockRateEqual m a b := by
  unfold Fmtp.clockRateEqual Codec.clockRateEqual
  rw [fmtp_defaultClockRate h]

/-- `ChannelsEqual`: C17's copy = C15's copy for Latin-1 mime types -/
theorem fmtp_channelsEqual {m : Str} (h : latin1 m = true) (a b : Nat) :
    Fmtp.channelsEqual m a b = Codec.channelsEqual m a b := by
  unfold Fmtp.channelsEqual Codec.channelsEqual
  rw [fmtp_defaultChannels h]

theorem fmtp_parse_eq {line : Str} (h : latin1 line = true) :
    Fmtp.parseParameters line = (parseG Codec.isSpace Codec.lowerChar line).reverse := by
  rw [fmtp_parse_view]
  congr 1
  exact parseG_congr (fun c hc => fmtp_isSpace (latin1_mem h hc)) (fun c hc => fmtp_lowerChar (latin1_mem h hc))

/-- `parseParameters`, as Go maps: the value under every key is the same, for every Latin-1 line -/
theorem fmtp_codec_parseParameters {line : Str} (h : latin1 line = true) (k : Str) :
    (Fmtp.parseParameters line).get? k = (Codec.parseParameters line).get k := by
  rw [fmtp_parse_eq h, fmtp_get_view, codec_parse_view, codec_get_view]

theorem parseG_valuesLatin1 {sp : Char → Bool} {low : Char → Char} {line : Str} (h : latin1 line = true) :
    valuesLatin1 (parseG sp low line) := by
  intro kv hkv
  simp only [latin1, List.all_eq_true, decide_eq_true_eq]
  intro c hc
  exact latin1_mem h (parseG_value_mem hkv hc)

/-- the record conversion C15 → C17 (feedback and payload type play no role in `fmtp.Parse`) -/
def c2f (c : Codec.CodecP) : Fmtp.Codec :=
  { mime := c.mime, clockRate := c.clock, channels := c.channels, line := c.fmtp }

/-- `fmtp.Parse`: the dynamic type C17 returns is the `kind` C15 records -/
theorem fmtp_parse_kind {m : Str} (h : latin1 m = true) (cl ch : Nat) (line : Str) :
    Fmtp.parse m cl ch line =
      match Codec.fmtpKindOf m with
      | .h264 => .h264 (Fmtp.parseParameters line)
      | .vp9 => .vp9 (Fmtp.parseParameters line)
      | .av1 => .av1 (Fmtp.parseParameters line)
      | .generic => .generic m cl ch (Fmtp.parseParameters line) := by
  unfold Fmtp.parse Codec.fmtpKindOf
  have h1 : Fmtp.equalFold m Fmtp.mimeH264 = Codec.equalFold m "video/h264".toList :=
    fmtp_equalFold h (by decide)
  have h2 : Fmtp.equalFold m Fmtp.mimeVP9 = Codec.equalFold m "video/vp9".toList :=
    fmtp_equalFold h (by decide)
  have h3 : Fmtp.equalFold m Fmtp.mimeAV1 = Codec.equalFold m "video/av1".toList :=
    fmtp_equalFold h (by decide)
  simp only [h1, h2, h3]
  cases Codec.equalFold m "video/h264".toList <;> cases Codec.equalFold m "video/vp9".toList <;>
    cases Codec.equalFold m "video/av1".toList <;> rfl

/-- **`fmtp.Parse(a).Match(fmtp.Parse(b))`: C15's copy = C17's copy** whenever the mime types and fmtp
    lines are Latin-1 (in particular ASCII); clock rates and channel counts are unrestricted. -/
theorem codec_fmtp_fmtpMatch (a b : Codec.CodecP)
    (ham : latin1 a.mime = true) (hal : latin1 a.fmtp = true)
    (hbm : latin1 b.mime = true) (hbl : latin1 b.fmtp = true) :
    Codec.fmtpMatch a.parse b.parse = Fmtp.matchFmtp (c2f a) (c2f b) := by
  have gA : ∀ k, (Codec.parseParameters a.fmtp).get k = lookupLast (parseG Codec.isSpace Codec.lowerChar a.fmtp) k :=
    fun k => by rw [codec_parse_view, codec_get_view]
  have gB : ∀ k, (Codec.parseParameters b.fmtp).get k = lookupLast (parseG Codec.isSpace Codec.lowerChar b.fmtp) k :=
    fun k => by rw [codec_parse_view, codec_get_view]
  have fA : ∀ k, (Fmtp.parseParameters a.fmtp).get? k = lookupLast (parseG Codec.isSpace Codec.lowerChar a.fmtp) k :=
    fun k => by rw [fmtp_parse_eq hal, fmtp_get_view]
  have fB : ∀ k, (Fmtp.parseParameters b.fmtp).get? k = lookupLast (parseG Codec.isSpace Codec.lowerChar b.fmtp) k :=
    fun k => by rw [fmtp_parse_eq hbl, fmtp_get_view]
  have hpe := fmtp_codec_paramsEqual (parseG Codec.isSpace Codec.lowerChar a.fmtp)
    (parseG Codec.isSpace Codec.lowerChar b.fmtp) (parseG_valuesLatin1 hal) (parseG_valuesLatin1 hbl)
  rw [← codec_parse_view, ← codec_parse_view, ← fmtp_parse_eq hal, ← fmtp_parse_eq hbl] at hpe
  unfold Fmtp.matchFmtp Fmtp.Codec.parsed Codec.fmtpMatch
  simp only [c2f, fmtp_parse_kind ham, fmtp_parse_kind hbm, Codec.CodecP.parse, Codec.fmtpParse]
  cases Codec.fmtpKindOf a.mime <;> cases Codec.fmtpKindOf b.mime <;> simp only [Fmtp.Parsed.matches]
  all_goals first
    | rfl
    | (simp only [Fmtp.genericMatch, fmtp_equalFold ham hbm, fmtp_clockRateEqual ham, fmtp_channelsEqual ham, hpe]
       simp; done)
    | skip
  · -- h264
    have k1 : Fmtp.keyPacketizationMode = "packetization-mode".toList := rfl
    have k2 : Fmtp.keyProfileLevelID = "profile-level-id".toList := rfl
    simp only [Fmtp.h264Match, fA, fB, gA, gB, k1, k2, fmtp_profileLevelIDMatches]
    cases lookupLast (parseG Codec.isSpace Codec.lowerChar a.fmtp) "packetization-mode".toList <;>
    cases lookupLast (parseG Codec.isSpace Codec.lowerChar b.fmtp) "packetization-mode".toList <;>
    cases lookupLast (parseG Codec.isSpace Codec.lowerChar a.fmtp) "profile-level-id".toList <;>
    cases lookupLast (parseG Codec.isSpace Codec.lowerChar b.fmtp) "profile-level-id".toList <;>
    simp
    all_goals (rename_i x y _ _; by_cases e : x = y <;> simp [e])
  · -- vp9
    have k3 : Fmtp.keyProfileID = "profile-id".toList := rfl
    simp only [Fmtp.profileMatch, fA, fB, gA, gB, k3]
    simp
  · -- av1
    have k4 : Fmtp.keyProfile = "profile".toList := rfl
    simp only [Fmtp.profileMatch, fA, fB, gA, gB, k4]
    simp

/-- first loop of `codecParametersFuzzySearch` as C15 states it -/
theorem codec_fmtp_exactPred (needle c : Codec.CodecP)
    (hnm : latin1 needle.mime = true) (hnl : latin1 needle.fmtp = true)
    (hcm : latin1 c.mime = true) (hcl : latin1 c.fmtp = true) :
    Codec.exactPred needle c = Fmtp.matchFmtp (c2f needle) (c2f c) :=
  codec_fmtp_fmtpMatch needle c hnm hnl hcm hcl

/-- ASCII special case (the hypothesis the generators of C15/C29 guarantee) -/
theorem codec_fmtp_fmtpMatch_ascii (a b : Codec.CodecP)
    (ham : ascii a.mime = true) (hal : ascii a.fmtp = true)
    (hbm : ascii b.mime = true) (hbl : ascii b.fmtp = true) :
    Codec.fmtpMatch a.parse b.parse = Fmtp.matchFmtp (c2f a) (c2f b) :=
  codec_fmtp_fmtpMatch a b (latin1_of_ascii ham) (latin1_of_ascii hal) (latin1_of_ascii hbm) (latin1_of_ascii hbl)

/-- the default codecs of `RegisterDefaultCodecs` satisfy every hypothesis used in this file, and on them
    the three copies of `Match` agree (checked by evaluation as well, as a sanity test of the statements) -/
example : ∀ a ∈ Fmtp.defaultCodecs, ∀ b ∈ Fmtp.defaultCodecs,
    let sa : StaticRtp.Codec := { mime := a.mime, clockRate := a.clockRate, channels := a.channels, fmtp := a.line }
    let sb : StaticRtp.Codec := { mime := b.mime, clockRate := b.clockRate, channels := b.channels, fmtp := b.line }
    StaticRtp.fmtpMatch sa sb = Fmtp.matchFmtp a b ∧
    Codec.fmtpMatch (s2c sa).parse (s2c sb).parse = Fmtp.matchFmtp a b := by
  decide

/-! ### the deliberate differences between C15 and C17 (outside Latin-1)

  `Codec` folds ASCII only (its header says so); `Fmtp` models the three non-ASCII code points that
  interact with ASCII under `ToLower`/`EqualFold`, and the complete `unicode.IsSpace`.  Smallest witnesses: -/

/-- U+017F LONG S is `EqualFold`-equal to `s`: generic codecs with mime types "ſ" and "s" match in Go/C17,
    not in C15 -/
theorem codec_fmtp_disagree_longS :
    Fmtp.matchFmtp (c2f { mime := [Fmtp.longS] }) (c2f { mime := ['s'] }) = true ∧
    Codec.fmtpMatch (Codec.CodecP.parse { mime := [Fmtp.longS] }) (Codec.CodecP.parse { mime := ['s'] }) = false ∧
    latin1 [Fmtp.longS] = false := by decide

/-- U+0130 lower-cases to `i`: "audİo/opus" gets the Opus default clock rate in Go/C17, 90000 in C15 -/
theorem codec_fmtp_disagree_dotI :
    Fmtp.clockRateEqual ("aud".toList ++ Fmtp.dotI :: "o/opus".toList) 0 48000 = true ∧
    Codec.clockRateEqual ("aud".toList ++ Fmtp.dotI :: "o/opus".toList) 0 48000 = false := by decide

/-- U+2003 EM SPACE is trimmed by Go/C17, kept as part of the key by C15 -/
theorem codec_fmtp_disagree_space :
    (Fmtp.parseParameters (Char.ofNat 0x2003 :: "a=1".toList)).get? ['a'] = some ['1'] ∧
    (Codec.parseParameters (Char.ofNat 0x2003 :: "a=1".toList)).get ['a'] = none := by decide

/-! ## 1e. `StaticRtp` (C29) vs `Fmtp` (C17), by composition -/

def s2f (c : StaticRtp.Codec) : Fmtp.Codec := c2f (s2c c)

/-- the fmtp line is Latin-1 — the domain on which C17's copy (which models non-ASCII folding) and the two
    ASCII-folding copies coincide -/
def lineOK (s : Str) : Bool := latin1 s

/-- **`fmtp.Parse(a).Match(fmtp.Parse(b))`: C29's copy = C17's copy** on Latin-1 mime types and `lineOK` lines -/
theorem static_fmtp_fmtpMatch (a b : StaticRtp.Codec)
    (ham : latin1 a.mime = true) (hal : lineOK a.fmtp = true)
    (hbm : latin1 b.mime = true) (hbl : lineOK b.fmtp = true) :
    StaticRtp.fmtpMatch a b = Fmtp.matchFmtp (s2f a) (s2f b) := by
  unfold lineOK at hal hbl
  rw [static_codec_fmtpMatch a b]
  exact codec_fmtp_fmtpMatch (s2c a) (s2c b) ham hal hbm hbl

theorem static_fmtp_parseParameters {line : Str} (h : lineOK line = true) (k : Str) :
    StaticRtp.lookupLast (StaticRtp.parseParameters line) k = (Fmtp.parseParameters line).get? k := by
  unfold lineOK at h
  rw [static_codec_parseParameters line, fmtp_codec_parseParameters h]

theorem static_fmtp_clockRateEqual {m : Str} (h : latin1 m = true) (a b : Nat) :
    StaticRtp.clockRateEqual m a b = Fmtp.clockRateEqual m a b := by
  rw [static_clockRateEqual, fmtp_clockRateEqual h]

theorem static_fmtp_channelsEqual {m : Str} (h : latin1 m = true) (a b : Nat) :
    StaticRtp.channelsEqual m a b = Fmtp.channelsEqual m a b := by
  rw [static_channelsEqual, fmtp_channelsEqual h]

/-- satisfiability of the hypotheses -/
example : lineOK "level-asymmetry-allowed=1; packetization-mode=1;\tprofile-level-id=42e01f".toList = true ∧
    ascii "video/H264".toList = true := by decide

/-! ## 2. the Annex-B readers: `Model/AnnexB.lean` (C34) vs `readBack` of `Model/H26xWriter.lean` (C35) -/

section AnnexB
open WebrtcVerif.Bytes WebrtcVerif.AnnexB

/-- the C34 reader in the middle of a completely buffered stream, SEI inclusion on -/
def midR (c : AnnexB.Codec) (nr : Bs) (z : Nat) (buf : Bs) : Reader :=
  { codec := c, includeSEI := true, src := [], readBuffer := buf, nalRev := nr, zeros := z, prefixParsed := true }

theorem nextNAL_midR (c : AnnexB.Codec) (nr : Bs) (z : Nat) (buf : Bs) :
    nextNAL (midR c nr z buf) = body c true z nr buf [] := by
  simp [nextNAL, midR]

theorem skip_true (c : AnnexB.Codec) (d : Bs) : skip c true d = false := by simp [skip]

theorem readAll_midR_nil (c : AnnexB.Codec) (z : Nat) : readAll (midR c [] z []) = ([], .err .eof) := by
  rw [readAll_eq, nextNAL_midR]
  simp [body, loop, scan, finish, finishOut]

/-- a byte that does not complete a unit: the same as having it in `nalBuffer` already -/
theorem readAll_step_notfound (c : AnnexB.Codec) (nr : Bs) (z : Nat) (x : Byte) (xs : Bs) (z' : Nat)
    (h : processByte nr z x = (false, nr, z')) :
    readAll (midR c nr z (x :: xs)) = readAll (midR c (x :: nr) z' xs) := by
  rw [readAll_eq, readAll_eq (midR c (x :: nr) z' xs), nextNAL_midR, nextNAL_midR]
  simp only [body, loop_nil, scan_cons_notfound c true nr z x xs z' h]

/-- a byte that completes a unit: the unit is returned and the reader starts afresh -/
theorem readAll_step_found (c : AnnexB.Codec) (nr : Bs) (z : Nat) (x : Byte) (xs : Bs) (nr' : Bs) (z' : Nat)
    (h : processByte nr z x = (true, nr', z')) :
    readAll (midR c nr z (x :: xs)) =
      (nalOf c nr'.reverse :: (readAll (midR c [] 0 xs)).1, (readAll (midR c [] 0 xs)).2) := by
  obtain ⟨hne, _, hz⟩ := processByte_found nr z x nr' z' h
  subst hz
  have hne' : nr'.reverse ≠ [] := by simpa using hne
  obtain ⟨s, hs⟩ := isSEI?_ne_nil c nr'.reverse hne'
  have hscan : scan c true nr z (x :: xs) = .found nr' 0 xs := by
    rw [scan, h]
    simp only [hs]
    simp
  have hfin := finish_keep c true nr'.reverse 0 xs [] hne' (skip_true c _)
  rw [List.reverse_reverse] at hfin
  rw [readAll_eq, nextNAL_midR]
  simp only [body, loop_nil, hscan, hfin]
  rfl

/-- **the byte machines agree**: from any state (`nalBuffer`, zero count) and for ANY remaining bytes, the
    C34 reader returns exactly the units `rdLoop` returns, then io.EOF -/
theorem readAll_rdLoop (c : AnnexB.Codec) : ∀ (buf nr : Bs) (z : Nat),
    readAll (midR c nr z buf) = ((H26xWriter.rdLoop buf nr z).map (nalOf c), .err .eof) := by
  intro buf
  induction buf with
  | nil =>
    intro nr z
    cases nr with
    | nil => rw [readAll_midR_nil]; rfl
    | cons y t =>
      have hne : (y :: t).reverse ≠ [] := by simp
      have hfin := finish_keep c true (y :: t).reverse z [] [] hne (skip_true c _)
      rw [List.reverse_reverse] at hfin
      rw [readAll_eq, nextNAL_midR]
      simp only [body, loop_nil, scan, hfin]
      have := readAll_midR_nil c z
      simp only [midR] at this
      rw [this]
      simp [H26xWriter.rdLoop]
  | cons x xs ih =>
    intro nr z
    by_cases hx0 : x = 0
    · subst hx0
      rw [readAll_step_notfound c nr z 0 xs (z + 1) (by simp [processByte]), ih]
      simp [H26xWriter.rdLoop]
    · have hb0 : (x == 0) = false := by simpa using hx0
      by_cases hx1 : x = 1
      · subst hx1
        by_cases hz : 2 ≤ z
        · by_cases hl : prefixZeros z < nr.length
          · rw [readAll_step_found c nr z 1 xs (nr.drop (prefixZeros z)) 0 (by simp [processByte, hz, hl]), ih]
            have hl' : nr.length > (if z > 2 then 3 else 2) := by simpa [prefixZeros] using hl
            simp [H26xWriter.rdLoop, hz, hl', prefixZeros]
          · rw [readAll_step_notfound c nr z 1 xs 0 (by simp [processByte, hz, hl]), ih]
            have hl' : ¬ nr.length > (if z > 2 then 3 else 2) := by simpa [prefixZeros] using hl
            simp [H26xWriter.rdLoop, hz, hl']
        · rw [readAll_step_notfound c nr z 1 xs 0 (by simp [processByte, hz]), ih]
          simp [H26xWriter.rdLoop, hz]
      · have hb1 : (x == 1) = false := by simpa using hx1
        rw [readAll_step_notfound c nr z x xs 0 (by simp [processByte, hx0, hx1]), ih]
        simp [H26xWriter.rdLoop, hb0, hb1]

/-- the end status of C35's `readBack` in C34's vocabulary -/
def endOf : H26xWriter.RdEnd → Err
  | .eof => .eof
  | .notBitstream => .notStream

/-- the C34 reader on a completely buffered stream `s` (what `Reader.flatten` produces) -/
def flatReader (c : AnnexB.Codec) (s : Bs) : Reader :=
  { codec := c, includeSEI := true, src := [], readBuffer := s, nalRev := [], zeros := 0, prefixParsed := false }

theorem readAll_flatReader (c : AnnexB.Codec) (s : Bs) :
    readAll (flatReader c s) =
      ((H26xWriter.readBack s).1.map (nalOf c), .err (endOf (H26xWriter.readBack s).2)) := by
  match s with
  | [] => rw [readAll_eq]; simp [flatReader, nextNAL, AnnexB.read, fill, H26xWriter.readBack, endOf]
  | [_] => rw [readAll_eq]; simp [flatReader, nextNAL, AnnexB.read, fill, H26xWriter.readBack, endOf]
  | [_, _] => rw [readAll_eq]; simp [flatReader, nextNAL, AnnexB.read, fill, H26xWriter.readBack, endOf]
  | [_, _, _] => rw [readAll_eq]; simp [flatReader, nextNAL, AnnexB.read, fill, H26xWriter.readBack, endOf]
  | a :: b :: cc :: d :: rest =>
    have hread : AnnexB.read 4 (a :: b :: cc :: d :: rest) [] = (.ok [a, b, cc, d], rest, []) := by
      simp [AnnexB.read, fill]
    by_cases h1 : a = 0 ∧ b = 0 ∧ cc = 1
    · obtain ⟨rfl, rfl, rfl⟩ := h1
      have hnext : nextNAL (flatReader c (0 :: 0 :: 1 :: d :: rest)) = nextNAL (midR c [d] 0 rest) := by
        rw [nextNAL_midR]
        simp [nextNAL, flatReader, hread, startsWithPrefix]
      rw [readAll_eq, hnext, ← readAll_eq, readAll_rdLoop]
      rfl
    · by_cases h2 : a = 0 ∧ b = 0 ∧ cc = 0 ∧ d = 1
      · obtain ⟨rfl, rfl, rfl, rfl⟩ := h2
        have hnext : nextNAL (flatReader c (0 :: 0 :: 0 :: 1 :: rest)) = nextNAL (midR c [] 0 rest) := by
          rw [nextNAL_midR]
          simp [nextNAL, flatReader, hread, startsWithPrefix]
        rw [readAll_eq, hnext, ← readAll_eq, readAll_rdLoop]
        rfl
      · have hrb : H26xWriter.readBack (a :: b :: cc :: d :: rest) = ([], .notBitstream) := by
          unfold H26xWriter.readBack
          split
          · rename_i heq; simp only [List.cons.injEq] at heq
            exact absurd ⟨heq.1, heq.2.1, heq.2.2.1⟩ h1
          · rename_i heq; simp only [List.cons.injEq] at heq
            exact absurd ⟨heq.1, heq.2.1, heq.2.2.1, heq.2.2.2.1⟩ h2
          · rfl
          · rename_i _ _ hno; exact absurd rfl (hno a b cc d rest)
        rw [readAll_eq, hrb]
        simp [nextNAL, flatReader, hread, startsWithPrefix, h1, h2, endOf]

/-- **The two Annex-B reader models agree on ARBITRARY bytes and any clean chunking** (SEI inclusion on,
    either codec): the C34 reader fed the stream `src` (non-empty chunks, then io.EOF) returns exactly the
    units C35's `readBack` finds in the concatenated bytes — with the header fields C34 parses from them —
    and ends with the same status (`io.EOF`, or "not an H.26x stream" for a bad first start code). -/
theorem annexB_readers_agree (c : AnnexB.Codec) (src : List Ev) (hc : clean src = true) :
    readAll (init c true src) =
      ((H26xWriter.readBack (flat src)).1.map (nalOf c), .err (endOf (H26xWriter.readBack (flat src)).2)) := by
  rw [readAll_clean _ (by simpa [init] using hc)]
  have : (init c true src).flatten = flatReader c (flat src) := by simp [Reader.flatten, init, flatReader]
  rw [this, readAll_flatReader]

/-- the unit BYTES are those of `readBack` -/
theorem annexB_readers_agree_data (c : AnnexB.Codec) (src : List Ev) (hc : clean src = true) :
    (readAll (init c true src)).1.map (·.data) = (H26xWriter.readBack (flat src)).1 := by
  rw [annexB_readers_agree c src hc]
  simp only [List.map_map]
  have : ((fun n : NAL => n.data) ∘ nalOf c) = id := by funext d; simp [nalOf_data]
  rw [this, List.map_id]

/-- one chunk (the whole file in one `Read`), the case C35 has in mind -/
theorem annexB_readers_agree_one_chunk (c : AnnexB.Codec) (s : Bs) :
    readAll (init c true (if s = [] then [] else [.data s])) =
      ((H26xWriter.readBack s).1.map (nalOf c), .err (endOf (H26xWriter.readBack s).2)) := by
  cases s with
  | nil => simpa [flat] using annexB_readers_agree c [] rfl
  | cons x t => simpa [flat, clean] using annexB_readers_agree c [.data (x :: t)] rfl

end AnnexB

/-! ## 4. RTP headers: the record of `Model/StaticRtp.lean` (C29) vs the wire model `Model/Rtp.lean` (C26)

  C29 keeps `rtp.Header` as a record, C26 has RFC 3550 `serialize`/`parse`.  The two do not overlap in
  behaviour (C29 never serializes), so there is nothing that could disagree; what can be stated is that the
  only thing `writeRTP` does to a packet is what C26 would call "another SSRC and payload type":
  on the wire, bytes 1 (M|PT) and 8..11 (SSRC) change and nothing else.  pion/rtp's encoding of the
  extension list is in neither model and enters as the parameter `enc`; the padding filler is zeros. -/

section RtpHeader
open WebrtcVerif.Bytes

/-- the C26 packet a C29 header + payload stands for -/
def toRtp (enc : List StaticRtp.Ext → Bs) (h : StaticRtp.Header) (payload : Bs) : Rtp.Packet :=
  { version := h.version, marker := h.marker, pt := h.pt, seq := h.seq, ts := h.ts, ssrc := h.ssrc,
    csrcs := h.csrc,
    ext := if h.ext then some { profile := h.extProfile, data := enc h.exts } else none,
    payload := payload,
    pad := if h.padding then some (List.replicate (h.paddingSize - 1) 0) else none }

/-- the header one iteration of `writeRTP`'s loop delivers: SSRC and payload type of the binding, and the
    deprecated `Packet.PaddingSize` migrated into the header when the header has none -/
theorem writeOne_hdr (r : StaticRtp.Ref) (m : StaticRtp.Mem) (b : StaticRtp.Binding) :
    (StaticRtp.writeOne r m b).2.hdr =
      { (m.get r).hdr with
          ssrc := b.ssrc, pt := b.pt,
          paddingSize := if (m.get r).paddingSize != 0 && (m.get r).hdr.paddingSize == 0
                         then (m.get r).paddingSize else (m.get r).hdr.paddingSize } := by
  unfold StaticRtp.writeOne
  simp only
  split <;> rfl

theorem writeOne_payload (r : StaticRtp.Ref) (m : StaticRtp.Mem) (b : StaticRtp.Binding) :
    (StaticRtp.writeOne r m b).2.payload = (m.get r).payload := rfl

/-- in C26's terms the rewrite is "set SSRC and PT" — provided the deprecated padding field is not in play
    (it is zero, or the header already carries a padding size, or the P bit is clear) -/
theorem writeOne_toRtp (enc : List StaticRtp.Ext → Bs) (r : StaticRtp.Ref) (m : StaticRtp.Mem)
    (b : StaticRtp.Binding)
    (hpad : (m.get r).paddingSize = 0 ∨ (m.get r).hdr.paddingSize ≠ 0 ∨ (m.get r).hdr.padding = false) :
    toRtp enc (StaticRtp.writeOne r m b).2.hdr (StaticRtp.writeOne r m b).2.payload =
      { toRtp enc (m.get r).hdr (m.get r).payload with ssrc := b.ssrc, pt := b.pt } := by
  rw [writeOne_hdr, writeOne_payload]
  simp only [toRtp]
  rcases hpad with h | h | h
  · simp [h]
  · simp [h]
  · simp [h]

/-- on the wire: byte 1 and bytes 8..11 are rewritten, everything else is kept -/
theorem serialize_set_ssrc_pt (q : Rtp.Packet) (ssrc pt : Nat) :
    Rtp.serialize { q with ssrc := ssrc, pt := pt } =
      (Rtp.serialize q).take 1 ++ [Bytes.b ((if q.marker then 128 else 0) + pt)] ++
        ((Rtp.serialize q).drop 2).take 6 ++ be32 ssrc ++ (Rtp.serialize q).drop 12 := rfl

/-- **`writeRTP`'s header rewrite on the wire**: the serialized delivery is the serialized input with the
    M|PT byte and the SSRC word replaced -/
theorem writeOne_serialize (enc : List StaticRtp.Ext → Bs) (r : StaticRtp.Ref) (m : StaticRtp.Mem)
    (b : StaticRtp.Binding)
    (hpad : (m.get r).paddingSize = 0 ∨ (m.get r).hdr.paddingSize ≠ 0 ∨ (m.get r).hdr.padding = false) :
    let q := toRtp enc (m.get r).hdr (m.get r).payload
    Rtp.serialize (toRtp enc (StaticRtp.writeOne r m b).2.hdr (StaticRtp.writeOne r m b).2.payload) =
      (Rtp.serialize q).take 1 ++ [Bytes.b ((if (m.get r).hdr.marker then 128 else 0) + b.pt)] ++
        ((Rtp.serialize q).drop 2).take 6 ++ be32 b.ssrc ++ (Rtp.serialize q).drop 12 := by
  intro q
  rw [writeOne_toRtp enc r m b hpad, serialize_set_ssrc_pt]
  rfl

/-- … and C26's parser reads the binding's SSRC and payload type back, all other fields unchanged -/
theorem writeOne_parse (enc : List StaticRtp.Ext → Bs) (r : StaticRtp.Ref) (m : StaticRtp.Mem)
    (b : StaticRtp.Binding)
    (hpad : (m.get r).paddingSize = 0 ∨ (m.get r).hdr.paddingSize ≠ 0 ∨ (m.get r).hdr.padding = false)
    (hwf : (toRtp enc (m.get r).hdr (m.get r).payload).WF) (hs : b.ssrc < 4294967296) (hp : b.pt < 128) :
    Rtp.parse (Rtp.serialize (toRtp enc (StaticRtp.writeOne r m b).2.hdr (StaticRtp.writeOne r m b).2.payload)) =
      some { toRtp enc (m.get r).hdr (m.get r).payload with ssrc := b.ssrc, pt := b.pt } := by
  rw [writeOne_toRtp enc r m b hpad]
  apply Rtp.parse_serialize
  obtain ⟨h1, _, h3, h4, _, h6, h7, h8, h9⟩ := hwf
  exact ⟨h1, hp, h3, h4, hs, h6, h7, h8, h9⟩

/-- when the deprecated field IS in play the wire image changes beyond SSRC/PT (the padding grows from
    nothing to `Packet.PaddingSize`): this is the C29 padding clause, stated here as a concrete instance -/
example :
    let p : StaticRtp.Packet := { hdr := { version := 2, padding := true }, payload := [1], paddingSize := 3 }
    let m : StaticRtp.Mem := { caller := p, pooled := p }
    let bnd : StaticRtp.Binding := { id := [], ssrc := 0, ssrcRTX := 0, ssrcFEC := 0, pt := 0, ptRTX := 0, writer := 0 }
    (toRtp (fun _ => []) (StaticRtp.writeOne .pooled m bnd).2.hdr [1]).pad = some [0, 0] ∧
    (toRtp (fun _ => []) p.hdr [1]).pad = some [] := by decide

end RtpHeader

/-! ### the domain C35 uses, stated through both round-trip theorems -/

section AnnexBwf
open WebrtcVerif.Bytes WebrtcVerif.AnnexB

/-- On `annexB ns` (well-formed units behind 4-byte start codes — what `H26xWriter` writes), delivered in any
    clean chunking: C35's `readBack` returns `ns`, and so does the C34 reader. -/
theorem annexB_readers_agree_wf (c : AnnexB.Codec) (ns : List Bs) (hns : ∀ m ∈ ns, H26xPacket.wf m = true)
    (src : List Ev) (hc : clean src = true) (hflat : flat src = H26xPacket.annexB ns) :
    H26xWriter.readBack (H26xPacket.annexB ns) = (ns, .eof) ∧
    readAll (init c true src) = (ns.map (nalOf c), .err .eof) := by
  have hrb := H26xWriter.readBack_annexB ns hns
  refine ⟨hrb, ?_⟩
  rw [annexB_readers_agree c src hc, hflat, hrb]
  rfl

end AnnexBwf

/-! ## 5. `strings.EqualFold`: `Model/Fingerprint.lean` (C14) vs `Model/Fmtp.lean` (C17) -/

theorem fingerprint_foldKey (c : Char) : Fingerprint.foldKey c = Fmtp.foldChar c := by
  unfold Fingerprint.foldKey Fmtp.foldChar Fingerprint.asciiLower
  have hk : c.toNat = 0x212A ↔ c = Fmtp.kelvin := by
    constructor
    · intro h; rw [← Char.ofNat_toNat c, h]; rfl
    · intro h; rw [h]; exact Fmtp.kelvin_toNat
  have hs : c.toNat = 0x17F ↔ c = Fmtp.longS := by
    constructor
    · intro h; rw [← Char.ofNat_toNat c, h]; rfl
    · intro h; rw [h]; exact Fmtp.longS_toNat
  have hA : 'A'.toNat = 65 := rfl
  have hZ : 'Z'.toNat = 90 := rfl
  rw [hA, hZ, fmtp_lowerChar_eq]
  by_cases h1 : c = Fmtp.kelvin
  · subst h1; decide
  · by_cases h2 : c = Fmtp.longS
    · subst h2; decide
    · by_cases h3 : c = Fmtp.dotI
      · subst h3; decide
      · have h1' : ¬ c.toNat = 0x212A := fun h => h1 (hk.mp h)
        have h2' : ¬ c.toNat = 0x17F := fun h => h2 (hs.mp h)
        simp only [h1, h2, h3, h1', h2', if_false]

/-- **`strings.EqualFold`: C14's copy = C17's copy on ALL strings** (both know U+017F and U+212A; U+0130
    folds to itself in both) -/
theorem fingerprint_equalFold : ∀ a b : Str, Fingerprint.equalFold a b = Fmtp.equalFold a b
  | [], [] => rfl
  | [], _ :: _ => by simp [Fingerprint.equalFold, Fmtp.equalFold]
  | _ :: _, [] => by simp [Fingerprint.equalFold, Fmtp.equalFold]
  | x :: xs, y :: ys => by
    have ih := fingerprint_equalFold xs ys
    unfold Fingerprint.equalFold
    rw [ih, fingerprint_foldKey, fingerprint_foldKey]
    unfold Fmtp.equalFold
    apply Bool.eq_iff_iff.2
    simp

end WebrtcVerif.Agreement
