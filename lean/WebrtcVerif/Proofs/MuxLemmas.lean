import WebrtcVerif.Model.Mux
/-! Invariants of the Mux transition system (helper lemmas for Props/C27.lean). -/
namespace WebrtcVerif.Mux

def bound (s : St) : Nat :=
  match s.inflight with
  | some (_, d) => d.seq
  | none => s.arrivals.length

def SeqAsc (l : List Dg) : Prop := l.Pairwise (fun (a b : Dg) => a.seq < b.seq)

structure Inv (s : St) : Prop where
  arrSeq : ∀ (i : Nat) (d : Dg), s.arrivals[i]? = some d → d.seq = i
  gotAsc : ∀ (k : Nat) (e : Ep), s.eps[k]? = some e → SeqAsc e.got
  gotLt : ∀ (k : Nat) (e : Ep), s.eps[k]? = some e → ∀ d ∈ e.got, d.seq < bound s
  pendAsc : SeqAsc s.pending
  pendLt : ∀ d ∈ s.pending, d.seq < bound s
  infl : ∀ (k : Nat) (d : Dg), s.inflight = some (k, d) → d.seq + 1 = s.arrivals.length ∧ d ∈ s.arrivals ∧
    ∃ e, s.eps[k]? = some e ∧ e.m.eval d.data = true ∧ e.regAt ≤ d.seq
  gotMatch : ∀ (k : Nat) (e : Ep), s.eps[k]? = some e → ∀ d ∈ e.got, e.m.eval d.data = true
  gotArr : ∀ (k : Nat) (e : Ep), s.eps[k]? = some e → ∀ d ∈ e.got, d ∈ s.arrivals
  pendArr : ∀ d ∈ s.pending, d ∈ s.arrivals
  pendNoReg : ∀ d ∈ s.pending, ∀ (k : Nat) (e : Ep), s.eps[k]? = some e → e.registered = true → e.m.eval d.data = false
  pendAfterReg : ∀ (k : Nat) (e : Ep), s.eps[k]? = some e → ∀ d ∈ s.pending, e.m.eval d.data = true → e.regAt ≤ d.seq
  disjoint : ∀ (k1 k2 : Nat) (e1 e2 : Ep), k1 ≠ k2 → s.eps[k1]? = some e1 → s.eps[k2]? = some e2 → ∀ d ∈ e1.got, d ∉ e2.got
  gotPend : ∀ (k : Nat) (e : Ep), s.eps[k]? = some e → ∀ d ∈ e.got, d ∉ s.pending
  regLe : ∀ (k : Nat) (e : Ep), s.eps[k]? = some e → e.regAt ≤ s.arrivals.length
  pendCap : s.pending.length ≤ maxPendingPackets
  conserve : ∀ d ∈ s.arrivals, (∃ (k : Nat) (e : Ep), s.eps[k]? = some e ∧ d ∈ e.got) ∨ d ∈ s.pending ∨
    (∃ k, s.inflight = some (k, d)) ∨ d ∈ s.lost.map Prod.fst

theorem inv_init : Inv init := by
  constructor <;> simp [init, SeqAsc, maxPendingPackets]

theorem bound_le {s : St} (h : Inv s) : bound s ≤ s.arrivals.length := by
  unfold bound
  split
  · next k d hi => have := (h.infl k d hi).1; omega
  · exact Nat.le_refl _

theorem writeAll_spec (e : Ep) (l : List Dg) :
    (writeAll e l).1.m = e.m ∧ (writeAll e l).1.registered = e.registered ∧ (writeAll e l).1.regAt = e.regAt ∧
    (writeAll e l).1.bufClosed = e.bufClosed ∧ (writeAll e l).1.nread = e.nread ∧ (writeAll e l).1.limit = e.limit ∧
    ∃ sub, sub.Sublist l ∧ (writeAll e l).1.got = e.got ++ sub ∧
      ∀ d ∈ l, d ∈ sub ∨ d ∈ (writeAll e l).2.map Prod.fst := by
  induction l generalizing e with
  | nil => simp [writeAll]
  | cons d rest ih =>
    unfold writeAll
    split
    · next hw =>
      have := ih { e with got := e.got ++ [d] }
      obtain ⟨h1, h2, h3, h4, h5, h6, sub, hs, hg, hall⟩ := this
      refine ⟨h1, h2, h3, h4, h5, h6, d :: sub, hs.cons_cons d, ?_, ?_⟩
      · simp [hg]
      · intro x hx
        simp at hx
        rcases hx with rfl | hx
        · simp
        · rcases hall x hx with h | h
          · left; simp [h]
          · right; exact h
    · next r hr =>
      obtain ⟨h1, h2, h3, h4, h5, h6, sub, hs, hg, hall⟩ := ih e
      refine ⟨h1, h2, h3, h4, h5, h6, sub, hs.cons d, hg, ?_⟩
      intro x hx
      simp at hx
      rcases hx with rfl | hx
      · right; simp
      · rcases hall x hx with h | h
        · left; exact h
        · right; simp at h ⊢; right; exact h


/-- actions that only touch endpoint flags (`registered` may only be cleared) keep every invariant -/
theorem inv_of_flags {s s' : St} (h : Inv s)
    (hp : s'.pending = s.pending) (hi : s'.inflight = s.inflight) (ha : s'.arrivals = s.arrivals)
    (hl : s'.lost = s.lost)
    (he : ∀ (k : Nat) (e' : Ep), s'.eps[k]? = some e' → ∃ e, s.eps[k]? = some e ∧ e'.m = e.m ∧ e'.got = e.got ∧
      e'.regAt = e.regAt ∧ (e'.registered = true → e.registered = true))
    (he2 : ∀ (k : Nat) (e : Ep), s.eps[k]? = some e → ∃ e', s'.eps[k]? = some e' ∧ e'.got = e.got) : Inv s' := by
  have hb : bound s' = bound s := by simp [bound, hi, ha]
  constructor
  · rw [ha]; exact h.arrSeq
  · intro k e' hk
    obtain ⟨e, hke, _, hg, _, _⟩ := he k e' hk
    rw [hg]; exact h.gotAsc k e hke
  · intro k e' hk d hd
    obtain ⟨e, hke, _, hg, _, _⟩ := he k e' hk
    rw [hb]; rw [hg] at hd; exact h.gotLt k e hke d hd
  · rw [hp]; exact h.pendAsc
  · rw [hp, hb]; exact h.pendLt
  · intro k d hkd
    rw [hi] at hkd
    obtain ⟨h1, h2, e, hke, hm, hr⟩ := h.infl k d hkd
    obtain ⟨e', hke', _⟩ := he2 k e hke
    obtain ⟨e2, hke2, hm2, _, hr2, _⟩ := he k e' hke'
    rw [hke] at hke2
    cases hke2
    exact ⟨by rw [ha]; exact h1, by rw [ha]; exact h2, e', hke', by rw [hm2]; exact hm, by rw [hr2]; exact hr⟩
  · intro k e' hk d hd
    obtain ⟨e, hke, hm, hg, _, _⟩ := he k e' hk
    rw [hm]; rw [hg] at hd; exact h.gotMatch k e hke d hd
  · intro k e' hk d hd
    obtain ⟨e, hke, hm, hg, _, _⟩ := he k e' hk
    rw [ha]; rw [hg] at hd; exact h.gotArr k e hke d hd
  · rw [hp, ha]; exact h.pendArr
  · intro d hd k e' hk hreg
    obtain ⟨e, hke, hm, hg, _, hr⟩ := he k e' hk
    rw [hp] at hd
    rw [hm]; exact h.pendNoReg d hd k e hke (hr hreg)
  · intro k e' hk d hd hm'
    obtain ⟨e, hke, hm, hg, hra, hr⟩ := he k e' hk
    rw [hp] at hd
    rw [hra]; rw [hm] at hm'; exact h.pendAfterReg k e hke d hd hm'
  · intro k1 k2 e1' e2' hne h1 h2 d hd
    obtain ⟨e1, hke1, _, hg1, _, _⟩ := he k1 e1' h1
    obtain ⟨e2, hke2, _, hg2, _, _⟩ := he k2 e2' h2
    rw [hg2]; rw [hg1] at hd
    exact h.disjoint k1 k2 e1 e2 hne hke1 hke2 d hd
  · intro k e' hk d hd
    obtain ⟨e, hke, _, hg, _, _⟩ := he k e' hk
    rw [hp]; rw [hg] at hd; exact h.gotPend k e hke d hd
  · intro k e' hk
    obtain ⟨e, hke, _, _, hra, _⟩ := he k e' hk
    rw [ha, hra]; exact h.regLe k e hke
  · rw [hp]; exact h.pendCap
  · intro d hd
    rw [ha] at hd
    rcases h.conserve d hd with ⟨k, e, hke, hde⟩ | hpd | ⟨k, hk⟩ | hlo
    · obtain ⟨e', hke', hg'⟩ := he2 k e hke
      exact Or.inl ⟨k, e', hke', by rw [hg']; exact hde⟩
    · exact Or.inr (Or.inl (by rw [hp]; exact hpd))
    · exact Or.inr (Or.inr (Or.inl ⟨k, by rw [hi]; exact hk⟩))
    · exact Or.inr (Or.inr (Or.inr (by rw [hl]; exact hlo)))


theorem inv_set {s : St} (h : Inv s) (k : Nat) (e e' : Ep) (hk : s.eps[k]? = some e) (hm : e'.m = e.m)
    (hg : e'.got = e.got) (hr : e'.regAt = e.regAt) (hreg : e'.registered = true → e.registered = true) :
    Inv { s with eps := s.eps.set k e' } := by
  have hlt : k < s.eps.length := by
    rcases Nat.lt_or_ge k s.eps.length with h1 | h1
    · exact h1
    · rw [List.getElem?_eq_none h1] at hk; cases hk
  refine inv_of_flags (s' := _) h (by rfl) (by rfl) (by rfl) (by rfl) ?_ ?_
  · intro k' e'' hk'
    simp only [List.getElem?_set] at hk'
    by_cases hkk : k = k'
    · subst hkk
      simp [hlt] at hk'
      subst hk'
      exact ⟨e, hk, hm, hg, hr, hreg⟩
    · simp [hkk] at hk'
      exact ⟨e'', hk', rfl, rfl, rfl, id⟩
  · intro k' e0 hk'
    by_cases hkk : k = k'
    · subst hkk
      rw [hk] at hk'; cases hk'
      exact ⟨e', by simp [hlt], hg⟩
    · exact ⟨e0, by simp [hkk, hk'], rfl⟩

theorem closeEp_fields (e : Ep) : (closeEp e).m = e.m ∧ (closeEp e).got = e.got ∧ (closeEp e).regAt = e.regAt ∧
    ((closeEp e).registered = true → e.registered = true) := by
  unfold closeEp
  split <;> simp_all

theorem inv_muxClose {s : St} (h : Inv s) : Inv { s with eps := s.eps.map closeEp, isClosed := true } := by
  refine inv_of_flags (s' := _) h (by rfl) (by rfl) (by rfl) (by rfl) ?_ ?_
  · intro k e' hk
    simp only [List.getElem?_map] at hk
    cases he : s.eps[k]? with
    | none => simp [he] at hk
    | some e =>
      simp [he] at hk
      subst hk
      have := closeEp_fields e
      exact ⟨e, rfl, this.1, this.2.1, this.2.2.1, this.2.2.2⟩
  · intro k e hk
    exact ⟨closeEp e, by simp [List.getElem?_map, hk], (closeEp_fields e).2.1⟩


theorem bound_none {s : St} (h : s.inflight = none) : bound s = s.arrivals.length := by simp [bound, h]

theorem mem_arr_seq {s : St} (h : Inv s) {d : Dg} (hd : d ∈ s.arrivals) : d.seq < s.arrivals.length := by
  obtain ⟨i, hi⟩ := List.getElem?_of_mem hd
  have := h.arrSeq i d hi
  have := (List.getElem?_eq_some_iff.mp hi).1
  omega

theorem arrSeq_append {s : St} (h : Inv s) (d : Pkt) (i : Nat) (x : Dg)
    (hx : (s.arrivals ++ [⟨s.arrivals.length, d⟩])[i]? = some x) : x.seq = i := by
  simp only [List.getElem?_append] at hx
  split at hx
  · exact h.arrSeq i x hx
  · next hge =>
    have : i - s.arrivals.length = 0 := by
      rcases Nat.eq_zero_or_pos (i - s.arrivals.length) with h0 | h0
      · exact h0
      · simp [Nat.ne_of_gt h0] at hx
    simp [this] at hx
    subst hx
    simp; omega

theorem conserve_mono {s : St} (h : Inv s) (x : Dg) (hx : x ∈ s.arrivals) (lost' : List (Dg × Drop)) :
    (∃ (k : Nat) (e : Ep), s.eps[k]? = some e ∧ x ∈ e.got) ∨ x ∈ s.pending ∨ (∃ k, s.inflight = some (k, x)) ∨
      x ∈ (s.lost ++ lost').map Prod.fst := by
  rcases h.conserve x hx with h1 | h1 | h1 | h1
  · exact Or.inl h1
  · exact Or.inr (Or.inl h1)
  · exact Or.inr (Or.inr (Or.inl h1))
  · refine Or.inr (Or.inr (Or.inr ?_)); simp at h1 ⊢; left; exact h1

theorem inv_arrive_lost {s : St} (h : Inv s) (hin : s.inflight = none) (d : Pkt) (r : Drop) :
    Inv { s with arrivals := s.arrivals ++ [⟨s.arrivals.length, d⟩],
                 lost := s.lost ++ [(⟨s.arrivals.length, d⟩, r)] } := by
  constructor
  · exact arrSeq_append h d
  · exact h.gotAsc
  · intro k e hk x hx
    have := h.gotLt k e hk x hx
    simp [bound, hin] at this ⊢
    omega
  · exact h.pendAsc
  · intro x hx
    have := h.pendLt x hx
    simp [bound, hin] at this ⊢
    omega
  · intro k x hkx
    simp [hin] at hkx
  · exact h.gotMatch
  · intro k e hk x hx
    simp; left; exact h.gotArr k e hk x hx
  · intro x hx
    simp; left; exact h.pendArr x hx
  · exact h.pendNoReg
  · exact h.pendAfterReg
  · exact h.disjoint
  · exact h.gotPend
  · intro k e hk
    have := h.regLe k e hk
    simp; omega
  · exact h.pendCap
  · intro x hx
    simp only [List.mem_append, List.mem_singleton] at hx
    rcases hx with hx | rfl
    · exact conserve_mono h x hx _
    · refine Or.inr (Or.inr (Or.inr ?_)); simp

theorem inv_arrive_queue {s : St} (h : Inv s) (hin : s.inflight = none) (d : Pkt)
    (hroom : s.pending.length < maxPendingPackets)
    (hno : ∀ (k : Nat) (e : Ep), s.eps[k]? = some e → e.registered = true → e.m.eval d = false) :
    Inv { s with arrivals := s.arrivals ++ [⟨s.arrivals.length, d⟩],
                 pending := s.pending ++ [⟨s.arrivals.length, d⟩] } := by
  have hb := bound_none hin
  constructor
  · exact arrSeq_append h d
  · exact h.gotAsc
  · intro k e hk x hx
    have := h.gotLt k e hk x hx
    simp [bound, hin] at this ⊢
    omega
  · show SeqAsc (s.pending ++ [_])
    unfold SeqAsc
    rw [List.pairwise_append]
    refine ⟨h.pendAsc, by simp, ?_⟩
    intro a ha b hb'
    simp at hb'
    subst hb'
    have := h.pendLt a ha
    rw [hb] at this
    exact this
  · intro x hx
    simp only [List.mem_append, List.mem_singleton] at hx
    simp [bound, hin]
    rcases hx with hx | rfl
    · have := h.pendLt x hx
      rw [hb] at this; omega
    · simp
  · intro k x hkx
    simp [hin] at hkx
  · exact h.gotMatch
  · intro k e hk x hx
    simp; left; exact h.gotArr k e hk x hx
  · intro x hx
    simp only [List.mem_append, List.mem_singleton] at hx ⊢
    rcases hx with hx | rfl
    · left; exact h.pendArr x hx
    · right; rfl
  · intro x hx k e hk hreg
    simp only [List.mem_append, List.mem_singleton] at hx
    rcases hx with hx | rfl
    · exact h.pendNoReg x hx k e hk hreg
    · exact hno k e hk hreg
  · intro k e hk x hx hm
    simp only [List.mem_append, List.mem_singleton] at hx
    rcases hx with hx | rfl
    · exact h.pendAfterReg k e hk x hx hm
    · exact h.regLe k e hk
  · exact h.disjoint
  · intro k e hk x hx
    simp only [List.mem_append, List.mem_singleton, not_or]
    refine ⟨h.gotPend k e hk x hx, ?_⟩
    intro heq
    have := h.gotLt k e hk x hx
    rw [hb, heq] at this
    simp at this
  · intro k e hk
    have := h.regLe k e hk
    simp; omega
  · simp only [List.length_append, List.length_singleton]; omega
  · intro x hx
    simp only [List.mem_append, List.mem_singleton] at hx
    rcases hx with hx | rfl
    · rcases h.conserve x hx with h1 | h1 | h1 | h1
      · exact Or.inl h1
      · exact Or.inr (Or.inl (by simp [h1]))
      · exact Or.inr (Or.inr (Or.inl h1))
      · exact Or.inr (Or.inr (Or.inr h1))
    · exact Or.inr (Or.inl (by simp))

theorem inv_arrive_found {s : St} (h : Inv s) (hin : s.inflight = none) (d : Pkt) (k : Nat) (e : Ep)
    (hk : s.eps[k]? = some e) (hm : e.m.eval d = true) :
    Inv { s with arrivals := s.arrivals ++ [⟨s.arrivals.length, d⟩],
                 inflight := some (k, ⟨s.arrivals.length, d⟩) } := by
  have hb := bound_none hin
  constructor
  · exact arrSeq_append h d
  · exact h.gotAsc
  · intro k' e' hk' x hx
    have := h.gotLt k' e' hk' x hx
    simp [bound, hin] at this ⊢
    omega
  · exact h.pendAsc
  · intro x hx
    have := h.pendLt x hx
    simp [bound, hin] at this ⊢
    omega
  · intro k' x hkx
    simp at hkx
    obtain ⟨rfl, rfl⟩ := hkx
    exact ⟨by simp, by simp, e, hk, hm, h.regLe _ e hk⟩
  · exact h.gotMatch
  · intro k' e' hk' x hx
    simp; left; exact h.gotArr k' e' hk' x hx
  · intro x hx
    simp; left; exact h.pendArr x hx
  · exact h.pendNoReg
  · exact h.pendAfterReg
  · exact h.disjoint
  · exact h.gotPend
  · intro k' e' hk'
    have := h.regLe k' e' hk'
    simp; omega
  · exact h.pendCap
  · intro x hx
    simp only [List.mem_append, List.mem_singleton] at hx
    rcases hx with hx | rfl
    · rcases h.conserve x hx with h1 | h1 | h1 | h1
      · exact Or.inl h1
      · exact Or.inr (Or.inl h1)
      · obtain ⟨k', hk'⟩ := h1; rw [hin] at hk'; cases hk'
      · exact Or.inr (Or.inr (Or.inr h1))
    · exact Or.inr (Or.inr (Or.inl ⟨k, rfl⟩))


theorem bound_some {s : St} {k : Nat} {d : Dg} (h : s.inflight = some (k, d)) : bound s = d.seq := by
  simp [bound, h]

theorem lt_of_getElem? {α} {l : List α} {k : Nat} {x : α} (h : l[k]? = some x) : k < l.length :=
  (List.getElem?_eq_some_iff.mp h).1

/-- dispatch: the buffer write that succeeds -/
theorem inv_write_ok {s : St} (h : Inv s) (k : Nat) (dg : Dg) (e : Ep) (hin : s.inflight = some (k, dg))
    (hk : s.eps[k]? = some e) :
    Inv { s with inflight := none, eps := s.eps.set k { e with got := e.got ++ [dg] } } := by
  have hb := bound_some hin
  obtain ⟨hseq, harr, e0, hk0, hm, hreg⟩ := h.infl k dg hin
  rw [hk] at hk0; cases hk0
  have hlt := lt_of_getElem? hk
  -- what an endpoint of the new state is
  have hget : ∀ (k' : Nat) (e' : Ep), (s.eps.set k { e with got := e.got ++ [dg] })[k']? = some e' →
      (k' = k ∧ e' = { e with got := e.got ++ [dg] }) ∨ (k' ≠ k ∧ s.eps[k']? = some e') := by
    intro k' e' hk'
    simp only [List.getElem?_set] at hk'
    by_cases hkk : k = k'
    · subst hkk; simp [hlt] at hk'; exact Or.inl ⟨rfl, hk'.symm⟩
    · simp [hkk] at hk'; exact Or.inr ⟨fun h' => hkk h'.symm, hk'⟩
  have hnew : ∀ (k' : Nat) (e' : Ep), s.eps[k']? = some e' → ∀ x ∈ e'.got, x ≠ dg := by
    intro k' e' hk' x hx heq
    have := h.gotLt k' e' hk' x hx
    rw [hb, heq] at this
    exact Nat.lt_irrefl _ this
  constructor
  · exact h.arrSeq
  · intro k' e' hk'
    rcases hget k' e' hk' with ⟨rfl, rfl⟩ | ⟨_, hk''⟩
    · show SeqAsc (e.got ++ [dg])
      unfold SeqAsc
      rw [List.pairwise_append]
      refine ⟨h.gotAsc _ e hk, by simp, ?_⟩
      intro a ha b hb'
      simp at hb'; subst hb'
      have := h.gotLt _ e hk a ha
      rw [hb] at this; exact this
    · exact h.gotAsc k' e' hk''
  · intro k' e' hk' x hx
    simp only [bound]
    rcases hget k' e' hk' with ⟨rfl, rfl⟩ | ⟨_, hk''⟩
    · simp only [List.mem_append, List.mem_singleton] at hx
      rcases hx with hx | rfl
      · have := h.gotLt _ e hk x hx
        rw [hb] at this; omega
      · omega
    · have := h.gotLt k' e' hk'' x hx
      rw [hb] at this; omega
  · exact h.pendAsc
  · intro x hx
    have := h.pendLt x hx
    rw [hb] at this
    simp only [bound]; omega
  · intro k' x hkx; simp at hkx
  · intro k' e' hk' x hx
    rcases hget k' e' hk' with ⟨rfl, rfl⟩ | ⟨_, hk''⟩
    · simp only [List.mem_append, List.mem_singleton] at hx
      rcases hx with hx | rfl
      · exact h.gotMatch _ e hk x hx
      · exact hm
    · exact h.gotMatch k' e' hk'' x hx
  · intro k' e' hk' x hx
    rcases hget k' e' hk' with ⟨rfl, rfl⟩ | ⟨_, hk''⟩
    · simp only [List.mem_append, List.mem_singleton] at hx
      rcases hx with hx | rfl
      · exact h.gotArr _ e hk x hx
      · exact harr
    · exact h.gotArr k' e' hk'' x hx
  · exact h.pendArr
  · intro x hx k' e' hk' hr
    rcases hget k' e' hk' with ⟨rfl, rfl⟩ | ⟨_, hk''⟩
    · exact h.pendNoReg x hx _ e hk hr
    · exact h.pendNoReg x hx k' e' hk'' hr
  · intro k' e' hk' x hx hmx
    rcases hget k' e' hk' with ⟨rfl, rfl⟩ | ⟨_, hk''⟩
    · exact h.pendAfterReg _ e hk x hx hmx
    · exact h.pendAfterReg k' e' hk'' x hx hmx
  · intro k1 k2 e1 e2 hne h1 h2 x hx
    rcases hget k1 e1 h1 with ⟨rfl, rfl⟩ | ⟨hn1, h1'⟩
    · rcases hget k2 e2 h2 with ⟨rfl, _⟩ | ⟨hn2, h2'⟩
      · exact absurd rfl hne
      · simp only [List.mem_append, List.mem_singleton] at hx
        rcases hx with hx | rfl
        · exact h.disjoint _ k2 e e2 hne hk h2' x hx
        · intro hc; exact hnew k2 e2 h2' _ hc rfl
    · rcases hget k2 e2 h2 with ⟨rfl, rfl⟩ | ⟨hn2, h2'⟩
      · simp only [List.mem_append, List.mem_singleton, not_or]
        exact ⟨h.disjoint k1 _ e1 e hne h1' hk x hx, hnew k1 e1 h1' x hx⟩
      · exact h.disjoint k1 k2 e1 e2 hne h1' h2' x hx
  · intro k' e' hk' x hx
    rcases hget k' e' hk' with ⟨rfl, rfl⟩ | ⟨_, hk''⟩
    · simp only [List.mem_append, List.mem_singleton] at hx
      rcases hx with hx | rfl
      · exact h.gotPend _ e hk x hx
      · intro hc
        have := h.pendLt _ hc
        rw [hb] at this; exact Nat.lt_irrefl _ this
    · exact h.gotPend k' e' hk'' x hx
  · intro k' e' hk'
    rcases hget k' e' hk' with ⟨rfl, rfl⟩ | ⟨_, hk''⟩
    · exact h.regLe _ e hk
    · exact h.regLe k' e' hk''
  · exact h.pendCap
  · intro x hx
    rcases h.conserve x hx with ⟨k', e', hk', hxe⟩ | h1 | ⟨k', hk'⟩ | h1
    · by_cases hkk : k' = k
      · subst hkk
        rw [hk] at hk'; cases hk'
        exact Or.inl ⟨k', { e with got := e.got ++ [dg] }, by simp [hlt], by simp [hxe]⟩
      · exact Or.inl ⟨k', e', by simp [Ne.symm hkk, hk'], hxe⟩
    · exact Or.inr (Or.inl h1)
    · rw [hin] at hk'
      cases hk'
      exact Or.inl ⟨k, { e with got := e.got ++ [dg] }, by simp [hlt], by simp⟩
    · exact Or.inr (Or.inr (Or.inr h1))

/-- dispatch: the buffer write that fails (packetio.ErrFull, io.ErrClosedPipe, errPacketTooBig) -/
theorem inv_write_lost {s : St} (h : Inv s) (k : Nat) (dg : Dg) (hin : s.inflight = some (k, dg)) (r : Drop)
    (dead : Bool) : Inv { s with inflight := none, lost := s.lost ++ [(dg, r)], loopDead := dead } := by
  have hb := bound_some hin
  obtain ⟨hseq, harr, e0, hk0, hm, hreg⟩ := h.infl k dg hin
  constructor
  · exact h.arrSeq
  · exact h.gotAsc
  · intro k' e' hk' x hx
    have := h.gotLt k' e' hk' x hx
    rw [hb] at this
    simp only [bound]; omega
  · exact h.pendAsc
  · intro x hx
    have := h.pendLt x hx
    rw [hb] at this
    simp only [bound]; omega
  · intro k' x hkx; simp at hkx
  · exact h.gotMatch
  · exact h.gotArr
  · exact h.pendArr
  · exact h.pendNoReg
  · exact h.pendAfterReg
  · exact h.disjoint
  · exact h.gotPend
  · exact h.regLe
  · exact h.pendCap
  · intro x hx
    rcases h.conserve x hx with h1 | h1 | ⟨k', hk'⟩ | h1
    · exact Or.inl h1
    · exact Or.inr (Or.inl h1)
    · rw [hin] at hk'; cases hk'
      exact Or.inr (Or.inr (Or.inr (by simp)))
    · refine Or.inr (Or.inr (Or.inr ?_)); simp at h1 ⊢; left; exact h1


theorem getElem?_append_singleton {α} {l : List α} {a x : α} {k : Nat} (h : (l ++ [a])[k]? = some x) :
    (k < l.length ∧ l[k]? = some x) ∨ (k = l.length ∧ x = a) := by
  simp only [List.getElem?_append] at h
  split at h
  · next hlt => exact Or.inl ⟨hlt, h⟩
  · next hge =>
    have : k - l.length = 0 := by
      rcases Nat.eq_zero_or_pos (k - l.length) with h0 | h0
      · exact h0
      · simp [Nat.ne_of_gt h0] at h
    simp [this] at h
    exact Or.inr ⟨by omega, h.symm⟩

/-- NewEndpoint: register and flush the matching pending packets, one critical section -/
theorem inv_newEndpoint {s : St} (h : Inv s) (m : Matcher) :
    Inv { s with
      eps := s.eps ++ [(writeAll { m := m, regAt := s.arrivals.length } (s.pending.filter (fun d => m.eval d.data))).1],
      pending := s.pending.filter (fun d => !m.eval d.data),
      lost := s.lost ++ (writeAll { m := m, regAt := s.arrivals.length } (s.pending.filter (fun d => m.eval d.data))).2 } := by
  obtain ⟨hm, hreg, hra, _, _, _, sub, hsub, hgot, hall⟩ :=
    writeAll_spec { m := m, regAt := s.arrivals.length } (s.pending.filter (fun d => m.eval d.data))
  generalize (writeAll { m := m, regAt := s.arrivals.length } (s.pending.filter (fun d => m.eval d.data))) = w at *
  simp only [List.nil_append] at hgot
  have hsubp : sub.Sublist s.pending := hsub.trans List.filter_sublist
  have hsubm : ∀ x ∈ sub, x ∈ s.pending ∧ m.eval x.data = true := by
    intro x hx
    have := hsub.subset hx
    simpa using this
  have hb : ∀ (x : List Ep) (y : List Dg) (z : List (Dg × Drop)),
      bound ({ s with eps := x, pending := y, lost := z } : St) = bound s := fun _ _ _ => rfl
  have hget : ∀ (k : Nat) (e : Ep), (s.eps ++ [w.1])[k]? = some e →
      s.eps[k]? = some e ∨ (k = s.eps.length ∧ e = w.1) := by
    intro k e hk
    rcases getElem?_append_singleton hk with ⟨_, h1⟩ | h1
    · exact Or.inl h1
    · exact Or.inr h1
  constructor
  · exact h.arrSeq
  · intro k e hk
    rcases hget k e hk with hk' | ⟨_, rfl⟩
    · exact h.gotAsc k e hk'
    · rw [hgot]; exact List.Pairwise.sublist hsubp h.pendAsc
  · intro k e hk x hx
    rw [hb]
    rcases hget k e hk with hk' | ⟨_, rfl⟩
    · exact h.gotLt k e hk' x hx
    · rw [hgot] at hx; exact h.pendLt x (hsubm x hx).1
  · exact List.Pairwise.sublist List.filter_sublist h.pendAsc
  · intro x hx
    rw [hb]
    exact h.pendLt x (List.mem_filter.mp hx).1
  · intro k x hkx
    obtain ⟨h1, h2, e, hke, h3, h4⟩ := h.infl k x hkx
    refine ⟨h1, h2, e, ?_, h3, h4⟩
    show (s.eps ++ [w.1])[k]? = some e
    rw [List.getElem?_append_left (lt_of_getElem? hke)]; exact hke
  · intro k e hk x hx
    rcases hget k e hk with hk' | ⟨_, rfl⟩
    · exact h.gotMatch k e hk' x hx
    · rw [hgot] at hx; rw [hm]; exact (hsubm x hx).2
  · intro k e hk x hx
    rcases hget k e hk with hk' | ⟨_, rfl⟩
    · exact h.gotArr k e hk' x hx
    · rw [hgot] at hx; exact h.pendArr x (hsubm x hx).1
  · intro x hx
    exact h.pendArr x (List.mem_filter.mp hx).1
  · intro x hx k e hk hr
    have hx' : x ∈ s.pending ∧ m.eval x.data = false := by simpa using hx
    rcases hget k e hk with hk' | ⟨_, rfl⟩
    · exact h.pendNoReg x hx'.1 k e hk' hr
    · rw [hm]; exact hx'.2
  · intro k e hk x hx hmx
    have hx' : x ∈ s.pending ∧ m.eval x.data = false := by simpa using hx
    rcases hget k e hk with hk' | ⟨_, rfl⟩
    · exact h.pendAfterReg k e hk' x hx'.1 hmx
    · rw [hm] at hmx; rw [hx'.2] at hmx; cases hmx
  · intro k1 k2 e1 e2 hne h1 h2 x hx
    rcases hget k1 e1 h1 with h1' | ⟨hk1, rfl⟩
    · rcases hget k2 e2 h2 with h2' | ⟨hk2, rfl⟩
      · exact h.disjoint k1 k2 e1 e2 hne h1' h2' x hx
      · rw [hgot]; intro hc
        exact h.gotPend k1 e1 h1' x hx (hsubm x hc).1
    · rcases hget k2 e2 h2 with h2' | ⟨hk2, rfl⟩
      · rw [hgot] at hx; intro hc
        exact h.gotPend k2 e2 h2' x hc (hsubm x hx).1
      · exact absurd (hk1.trans hk2.symm) hne
  · intro k e hk x hx hc
    have hc' : x ∈ s.pending ∧ m.eval x.data = false := by simpa using hc
    rcases hget k e hk with hk' | ⟨_, rfl⟩
    · exact h.gotPend k e hk' x hx hc'.1
    · rw [hgot] at hx
      have := (hsubm x hx).2
      rw [hc'.2] at this; cases this
  · intro k e hk
    rcases hget k e hk with hk' | ⟨_, rfl⟩
    · exact h.regLe k e hk'
    · rw [hra]; exact Nat.le_refl _
  · exact Nat.le_trans (List.length_filter_le _ _) h.pendCap
  · intro x hx
    rcases h.conserve x hx with ⟨k, e, hk, hxe⟩ | h1 | h1 | h1
    · refine Or.inl ⟨k, e, ?_, hxe⟩
      show (s.eps ++ [w.1])[k]? = some e
      rw [List.getElem?_append_left (lt_of_getElem? hk)]; exact hk
    · cases hmx : m.eval x.data with
      | false => exact Or.inr (Or.inl (by simp [h1, hmx]))
      | true =>
        rcases hall x (by simp [h1, hmx]) with h2 | h2
        · refine Or.inl ⟨s.eps.length, w.1, ?_, by rw [hgot]; exact h2⟩
          show (s.eps ++ [w.1])[s.eps.length]? = some w.1
          simp
        · refine Or.inr (Or.inr (Or.inr ?_))
          simp only [List.map_append, List.mem_append]
          exact Or.inr h2
    · exact Or.inr (Or.inr (Or.inl h1))
    · refine Or.inr (Or.inr (Or.inr ?_))
      simp only [List.map_append, List.mem_append]
      exact Or.inl h1

theorem anyMatch_false {eps : List Ep} {d : Pkt} (h : anyMatch eps d = false) (k : Nat) (e : Ep)
    (hk : eps[k]? = some e) (hr : e.registered = true) : e.m.eval d = false := by
  unfold anyMatch at h
  rw [List.any_eq_false] at h
  have := h e (List.mem_of_getElem? hk)
  simpa [hr] using this

/-- every action preserves the invariant -/
theorem inv_step {s s' : St} (h : Inv s) (a : Action) (hs : step s a = some s') : Inv s' := by
  cases a with
  | arrive d target =>
    simp only [step] at hs
    split at hs
    · cases hs
    · next hguard =>
      have hin : s.inflight = none := by
        cases hi : s.inflight with
        | none => rfl
        | some x => simp [hi] at hguard
      split at hs
      · -- zero-length datagram
        cases target with
        | none => simp only [Option.some.injEq] at hs; subst hs; exact inv_arrive_lost h hin d .empty
        | some k => cases hs
      · cases target with
        | some k =>
          simp only at hs
          split at hs
          · next e hk =>
            split at hs
            · next hm =>
              simp only [Option.some.injEq] at hs; subst hs
              simp only [Bool.and_eq_true] at hm
              exact inv_arrive_found h hin d k e hk hm.2
            · cases hs
          · cases hs
        | none =>
          simp only at hs
          split at hs
          · cases hs
          · next hno =>
            have hno' : anyMatch s.eps d = false := by simpa using hno
            split at hs
            · simp only [Option.some.injEq] at hs; subst hs; exact inv_arrive_lost h hin d .muxClosed
            · split at hs
              · simp only [Option.some.injEq] at hs; subst hs; exact inv_arrive_lost h hin d .queueFull
              · next hfull =>
                simp only [Option.some.injEq] at hs; subst hs
                exact inv_arrive_queue h hin d (by omega) (anyMatch_false hno')
  | write =>
    simp only [step] at hs
    split at hs
    · cases hs
    · next k dg hin =>
      split at hs
      · cases hs
      · next e hk =>
        split at hs
        · simp only [Option.some.injEq] at hs; subst hs; exact inv_write_ok h k dg e hin hk
        · simp only [Option.some.injEq] at hs; subst hs
          have := inv_write_lost h k dg hin .bufFull s.loopDead
          exact this
        · simp only [Option.some.injEq] at hs; subst hs; exact inv_write_lost h k dg hin .bufClosed true
        · simp only [Option.some.injEq] at hs; subst hs; exact inv_write_lost h k dg hin .tooBig true
  | newEndpoint m =>
    simp only [step, Option.some.injEq] at hs
    subst hs
    exact inv_newEndpoint h m
  | epClose k =>
    simp only [step] at hs
    split at hs
    · next e hk => simp only [Option.some.injEq] at hs; subst hs; exact inv_set h k e _ hk rfl rfl rfl id
    · cases hs
  | remove k =>
    simp only [step] at hs
    split at hs
    · next e hk =>
      simp only [Option.some.injEq] at hs; subst hs
      exact inv_set h k e _ hk rfl rfl rfl (by intro hc; cases hc)
    · cases hs
  | muxClose =>
    simp only [step, Option.some.injEq] at hs
    subst hs
    exact inv_muxClose h
  | read k =>
    simp only [step] at hs
    split at hs
    · next e hk =>
      split at hs
      · simp only [Option.some.injEq] at hs; subst hs; exact inv_set h k e _ hk rfl rfl rfl id
      · cases hs
    · cases hs
  | setLimit k n =>
    simp only [step] at hs
    split at hs
    · next e hk => simp only [Option.some.injEq] at hs; subst hs; exact inv_set h k e _ hk rfl rfl rfl id
    · cases hs

theorem inv_of_reachable {s : St} (h : Reachable s) : Inv s := by
  induction h with
  | init => exact inv_init
  | step a _ hs ih => exact inv_step ih a hs


/-! ### small facts about the match functions and ascending lists -/

theorem matchRange_cons (lo hi b : UInt8) (r : Pkt) :
    matchRange lo hi (b :: r) = true ↔ lo.toNat ≤ b.toNat ∧ b.toNat ≤ hi.toNat := by
  simp [matchRange, UInt8.le_iff_toNat_le]

theorem isRTCP_short (buf : Pkt) (h : buf.length < 4) : isRTCP buf = false := by
  simp [isRTCP, h]

theorem isRTCP_long (b0 b1 b2 b3 : UInt8) (rest : Pkt) :
    isRTCP (b0 :: b1 :: b2 :: b3 :: rest) = true ↔ 192 ≤ b1.toNat ∧ b1.toNat ≤ 223 := by
  simp [isRTCP, UInt8.le_iff_toNat_le]

theorem split_at_seq (l : List Dg) (n : Nat) (h : l.Pairwise (fun a b => a.seq < b.seq)) :
    ∃ pre post, l = pre ++ post ∧ (∀ d ∈ pre, d.seq < n) ∧ (∀ d ∈ post, n ≤ d.seq) := by
  induction l with
  | nil => exact ⟨[], [], rfl, by simp, by simp⟩
  | cons a t ih =>
    rw [List.pairwise_cons] at h
    rcases Nat.lt_or_ge a.seq n with hlt | hge
    · obtain ⟨pre, post, ht, hp, hq⟩ := ih h.2
      refine ⟨a :: pre, post, by simp [ht], ?_, hq⟩
      intro d hd
      simp at hd
      rcases hd with rfl | hd
      · exact hlt
      · exact hp d hd
    · refine ⟨[], a :: t, rfl, by simp, ?_⟩
      intro d hd
      simp at hd
      rcases hd with rfl | hd
      · exact hge
      · have := h.1 d hd; omega


/-! ### the flush of NewEndpoint cannot fill the fresh buffer -/

theorem used_append (e : Ep) (d : Dg) (h : e.nread ≤ e.got.length) :
    ({ e with got := e.got ++ [d] } : Ep).used = e.used + (2 + d.data.length) := by
  simp only [Ep.used]
  rw [List.drop_append_of_le_length h]
  simp

theorem writeAll_all_ok (e : Ep) (l : List Dg) (hc : e.bufClosed = false) (hn : e.nread ≤ e.got.length)
    (hsz : ∀ d ∈ l, d.data.length < 65536)
    (hfit : e.used + (l.map (fun d => 2 + d.data.length)).sum ≤ e.limit) :
    (writeAll e l).1.got = e.got ++ l ∧ (writeAll e l).2 = [] := by
  induction l generalizing e with
  | nil => simp [writeAll]
  | cons d rest ih =>
    have hd := hsz d (by simp)
    simp only [List.map_cons, List.sum_cons] at hfit
    have hok : bufWrite e d.data = .ok := by
      unfold bufWrite
      have h1 : ¬ (d.data.length ≥ 65536) := by omega
      have h3 : ¬ (e.limit > 0 ∧ e.used + 2 + d.data.length > e.limit) := by omega
      simp [h1, hc, h3]
    unfold writeAll
    rw [hok]
    have := ih { e with got := e.got ++ [d] } hc (by simp; omega) (fun x hx => hsz x (by simp [hx]))
      (by rw [used_append e d hn]; simp only []; omega)
    simp only [] at this ⊢
    rw [this.1, this.2]
    simp

theorem sum_sizes_le (l : List Dg) (hsz : ∀ d ∈ l, d.data.length < 65536) :
    (l.map (fun d => 2 + d.data.length)).sum ≤ l.length * 65537 := by
  induction l with
  | nil => simp
  | cons d rest ih =>
    have := hsz d (by simp)
    have := ih (fun x hx => hsz x (by simp [hx]))
    simp only [List.map_cons, List.sum_cons, List.length_cons]
    omega

/-! ### strictly ascending lists are determined by their members -/

theorem asc_ext (l1 l2 : List Dg) (h1 : SeqAsc l1) (h2 : SeqAsc l2) (hm : ∀ d, d ∈ l1 ↔ d ∈ l2) : l1 = l2 := by
  induction l1 generalizing l2 with
  | nil =>
    cases l2 with
    | nil => rfl
    | cons b t => exact absurd ((hm b).mpr (by simp)) (by simp)
  | cons a t1 ih =>
    cases l2 with
    | nil => exact absurd ((hm a).mp (by simp)) (by simp)
    | cons b t2 =>
      unfold SeqAsc at h1 h2
      rw [List.pairwise_cons] at h1 h2
      have hab : a = b := by
        have ha := (hm a).mp (by simp)
        have hb := (hm b).mpr (by simp)
        simp only [List.mem_cons] at ha hb
        rcases ha with ha | ha
        · exact ha
        · rcases hb with hb | hb
          · exact hb.symm
          · have := h2.1 a ha
            have := h1.1 b hb
            omega
      subst hab
      have : t1 = t2 := by
        apply ih t2 h1.2 h2.2
        intro d
        constructor
        · intro hd
          have := (hm d).mp (by simp [hd])
          simp only [List.mem_cons] at this
          rcases this with rfl | h'
          · have := h1.1 d hd; omega
          · exact h'
        · intro hd
          have := (hm d).mpr (by simp [hd])
          simp only [List.mem_cons] at this
          rcases this with rfl | h'
          · have := h2.1 d hd; omega
          · exact h'
      rw [this]

theorem arrivals_asc {s : St} (h : Inv s) : SeqAsc s.arrivals := by
  unfold SeqAsc
  rw [List.pairwise_iff_getElem]
  intro i j hi hj hij
  have h1 := h.arrSeq i s.arrivals[i] (by simp [hi])
  have h2 := h.arrSeq j s.arrivals[j] (by simp [hj])
  omega

end WebrtcVerif.Mux
