import WebrtcVerif.Model.Origin
/-!
  Inductive invariant of the `updateSDPOrigin` transition system (`Model/Origin.lean`) and the lemmas the
  C11 theorems are corollaries of.
-/
namespace WebrtcVerif.Origin

/-! ### UInt64 and list helpers -/

theorem u64_ne_zero (x : UInt64) : x ≠ 0 ↔ x.toNat ≠ 0 := by
  rw [Ne, Ne, ← UInt64.toNat_inj]; rfl

theorem u64_succ (x : UInt64) (h : x.toNat + 1 < 2 ^ 64) : (x + 1).toNat = x.toNat + 1 := by
  rw [UInt64.toNat_add]
  simp
  omega

theorem get_set_cases {l : List Call} {i k : Nat} {c' ck : Call} (h : (l.set i c')[k]? = some ck) :
    (k = i ∧ ck = c') ∨ (k ≠ i ∧ l[k]? = some ck) := by
  rw [List.getElem?_set] at h
  split at h
  · rename_i hik
    split at h
    · left; exact ⟨hik.symm, by cases h; rfl⟩
    · cases h
  · rename_i hik
    right; exact ⟨fun e => hik e.symm, h⟩

theorem get_set_self {l : List Call} {i : Nat} {c c' : Call} (h : l[i]? = some c) : (l.set i c')[i]? = some c' := by
  rw [List.getElem?_set]
  have : i < l.length := by
    rcases Nat.lt_or_ge i l.length with h1 | h1
    · exact h1
    · rw [List.getElem?_eq_none h1] at h; cases h
  simp [this]

theorem get_set_other {l : List Call} {i k : Nat} {c' : Call} (h : k ≠ i) : (l.set i c')[k]? = l[k]? := by
  rw [List.getElem?_set]
  simp [Ne.symm h]

/-- 1 for a call that has not been assigned a version yet (it may still win the CAS or add) -/
def Pc.pending : Pc → Nat
  | .idle => 1
  | .called => 1
  | .spin => 1
  | .loaded _ => 1
  | .won => 0
  | .done _ _ => 0

def rem : List Call → Nat
  | [] => 0
  | c :: cs => c.pc.pending + rem cs

theorem rem_le_length (l : List Call) : rem l ≤ l.length := by
  induction l with
  | nil => simp [rem]
  | cons c cs ih =>
    have : c.pc.pending ≤ 1 := by cases c.pc <;> simp [Pc.pending]
    simp [rem]; omega

theorem rem_set {l : List Call} {i : Nat} {c c' : Call} (h : l[i]? = some c) :
    rem (l.set i c') + c.pc.pending = rem l + c'.pc.pending := by
  induction l generalizing i with
  | nil => simp at h
  | cons a as ih =>
    cases i with
    | zero =>
      simp at h; subst h
      simp [rem]; omega
    | succ i =>
      simp at h
      have := ih h
      simp [rem]; omega

/-- the version a call's description carries, once decided -/
def Call.held (c : Call) : Option UInt64 :=
  match c.pc with
  | .won => some c.v0
  | .done _ v => some v
  | _ => none

/-! ### the invariant -/

structure OInv (s : St) : Prop where
  hyp : ∀ (i : Nat) (c : Call), s.calls[i]? = some c →
    c.id0 ≠ 0 ∧ c.v0 ≠ 0 ∧ c.v0.toNat + s.calls.length < 2 ^ 64
  nowrap : s.ver ≠ 0 → s.ver.toNat + rem s.calls < 2 ^ 64
  zero : s.ver = 0 → s.id = 0 ∧ ∀ (i : Nat) (c : Call), s.calls[i]? = some c → c.pc = .idle ∨ c.pc = .called
  wonId : ∀ (i : Nat) (c : Call), s.calls[i]? = some c → c.pc = .won → s.id = 0
  wonUniq : ∀ (i j : Nat) (ci cj : Call), s.calls[i]? = some ci → s.calls[j]? = some cj →
    ci.pc = .won → cj.pc = .won → i = j
  idEq : ∀ (i : Nat) (c : Call) (r : UInt64), s.calls[i]? = some c →
    (c.pc = .loaded r ∨ ∃ v, c.pc = .done r v) → r = s.id ∧ r ≠ 0
  prog : s.ver ≠ 0 → (∃ (i : Nat) (c : Call), s.calls[i]? = some c ∧ c.pc = .won) ∨ s.id ≠ 0
  heldLe : ∀ (i : Nat) (c : Call) (v : UInt64), s.calls[i]? = some c → c.held = some v →
    v.toNat ≤ s.ver.toNat ∧ s.ver ≠ 0
  heldInj : ∀ (i j : Nat) (ci cj : Call) (v : UInt64), s.calls[i]? = some ci → s.calls[j]? = some cj →
    ci.held = some v → cj.held = some v → i = j
  startLt : ∀ (i : Nat) (c : Call), s.calls[i]? = some c → c.pc ≠ .idle → c.startAt < s.now
  doneLt : ∀ (i : Nat) (c : Call) (r v : UInt64), s.calls[i]? = some c → c.pc = .done r v →
    c.startAt < c.doneAt ∧ c.doneAt < s.now
  rt : ∀ (i j : Nat) (ci cj : Call) (ri vi vj : UInt64), s.calls[i]? = some ci → s.calls[j]? = some cj →
    ci.pc = .done ri vi → cj.held = some vj → ci.doneAt < cj.startAt → vi.toNat < vj.toNat

theorem lt_length_of_get {l : List Call} {i : Nat} {c : Call} (h : l[i]? = some c) : i < l.length := by
  rcases Nat.lt_or_ge i l.length with h1 | h1
  · exact h1
  · rw [List.getElem?_eq_none h1] at h; cases h

theorem rem_pos_of_pending {l : List Call} {i : Nat} {c : Call} (h : l[i]? = some c) (hp : c.pc.pending = 1) :
    1 ≤ rem l := by
  have := rem_set (c' := { c with pc := .won }) h
  rw [hp] at this
  simp only [Pc.pending] at this
  omega

/-! ### every instruction preserves the invariant -/

/-- invocation: idle → called -/
theorem oinv_call {s : St} {i : Nat} {c : Call} (h : OInv s) (hi : s.calls[i]? = some c) (hpc : c.pc = .idle) :
    OInv ⟨s.ver, s.id, s.now + 1, s.calls.set i { c with pc := .called, startAt := s.now }⟩ := by
  have hrem := rem_set (c' := { c with pc := .called, startAt := s.now }) hi
  simp only [hpc, Pc.pending] at hrem
  constructor
  · intro k ck hk
    simp only [List.length_set]
    rcases get_set_cases hk with ⟨rfl, rfl⟩ | ⟨_, hk'⟩
    · exact h.hyp _ c hi
    · exact h.hyp _ _ hk'
  · intro hv
    have := h.nowrap hv
    simp only at *
    omega
  · intro hv
    refine ⟨(h.zero hv).1, ?_⟩
    intro k ck hk
    rcases get_set_cases hk with ⟨rfl, rfl⟩ | ⟨_, hk'⟩
    · right; rfl
    · exact (h.zero hv).2 _ _ hk'
  · intro k ck hk hw
    rcases get_set_cases hk with ⟨rfl, rfl⟩ | ⟨_, hk'⟩
    · cases hw
    · exact h.wonId _ _ hk' hw
  · intro k j ck cj hk hj hwk hwj
    rcases get_set_cases hk with ⟨rfl, rfl⟩ | ⟨_, hk'⟩
    · cases hwk
    · rcases get_set_cases hj with ⟨rfl, rfl⟩ | ⟨_, hj'⟩
      · cases hwj
      · exact h.wonUniq _ _ _ _ hk' hj' hwk hwj
  · intro k ck r hk hr
    rcases get_set_cases hk with ⟨rfl, rfl⟩ | ⟨_, hk'⟩
    · rcases hr with hr | ⟨v, hr⟩ <;> cases hr
    · exact h.idEq _ _ _ hk' hr
  · intro hv
    rcases h.prog hv with ⟨j, cj, hj, hw⟩ | hid
    · left
      refine ⟨j, cj, ?_, hw⟩
      have : j ≠ i := by
        rintro rfl
        rw [hi] at hj; cases hj; rw [hpc] at hw; cases hw
      rw [get_set_other this]; exact hj
    · right; exact hid
  · intro k ck v hk hh
    rcases get_set_cases hk with ⟨rfl, rfl⟩ | ⟨_, hk'⟩
    · simp [Call.held] at hh
    · exact h.heldLe _ _ _ hk' hh
  · intro k j ck cj v hk hj hhk hhj
    rcases get_set_cases hk with ⟨rfl, rfl⟩ | ⟨_, hk'⟩
    · simp [Call.held] at hhk
    · rcases get_set_cases hj with ⟨rfl, rfl⟩ | ⟨_, hj'⟩
      · simp [Call.held] at hhj
      · exact h.heldInj _ _ _ _ _ hk' hj' hhk hhj
  · intro k ck hk hne
    rcases get_set_cases hk with ⟨rfl, rfl⟩ | ⟨_, hk'⟩
    · simp
    · have := h.startLt _ _ hk' hne
      simp only; omega
  · intro k ck r v hk hd
    rcases get_set_cases hk with ⟨rfl, rfl⟩ | ⟨_, hk'⟩
    · cases hd
    · have := h.doneLt _ _ _ _ hk' hd
      simp only; omega
  · intro k j ck cj rk vk vj hk hj hd hh hlt
    rcases get_set_cases hk with ⟨rfl, rfl⟩ | ⟨_, hk'⟩
    · cases hd
    · rcases get_set_cases hj with ⟨rfl, rfl⟩ | ⟨_, hj'⟩
      · simp [Call.held] at hh
      · exact h.rt _ _ _ _ _ _ _ hk' hj' hd hh hlt

theorem held_idle_called {c : Call} (h : c.pc = .idle ∨ c.pc = .called) : c.held = none := by
  rcases h with h | h <;> simp [Call.held, h]

theorem pc_ne_idle_of_held {c : Call} {v : UInt64} (h : c.held = some v) : c.pc ≠ .idle := by
  intro hp; simp [Call.held, hp] at h

/-- CAS fails: called → spin -/
theorem oinv_casLose {s : St} {i : Nat} {c : Call} (h : OInv s) (hi : s.calls[i]? = some c) (hpc : c.pc = .called)
    (hv0 : s.ver ≠ 0) :
    OInv ⟨s.ver, s.id, s.now + 1, s.calls.set i { c with pc := .spin }⟩ := by
  have hrem := rem_set (c' := { c with pc := .spin }) hi
  simp only [hpc, Pc.pending] at hrem
  constructor
  · intro k ck hk
    simp only [List.length_set]
    rcases get_set_cases hk with ⟨rfl, rfl⟩ | ⟨_, hk'⟩
    · exact h.hyp _ c hi
    · exact h.hyp _ _ hk'
  · intro hv
    have := h.nowrap hv
    simp only at *
    omega
  · intro hv
    exact absurd hv hv0
  · intro k ck hk hw
    rcases get_set_cases hk with ⟨rfl, rfl⟩ | ⟨_, hk'⟩
    · cases hw
    · exact h.wonId _ _ hk' hw
  · intro k j ck cj hk hj hwk hwj
    rcases get_set_cases hk with ⟨rfl, rfl⟩ | ⟨_, hk'⟩
    · cases hwk
    · rcases get_set_cases hj with ⟨rfl, rfl⟩ | ⟨_, hj'⟩
      · cases hwj
      · exact h.wonUniq _ _ _ _ hk' hj' hwk hwj
  · intro k ck r hk hr
    rcases get_set_cases hk with ⟨rfl, rfl⟩ | ⟨_, hk'⟩
    · rcases hr with hr | ⟨v, hr⟩ <;> cases hr
    · exact h.idEq _ _ _ hk' hr
  · intro hv
    rcases h.prog hv with ⟨j, cj, hj, hw⟩ | hid
    · left
      refine ⟨j, cj, ?_, hw⟩
      have : j ≠ i := by
        rintro rfl
        rw [hi] at hj; cases hj; rw [hpc] at hw; cases hw
      rw [get_set_other this]; exact hj
    · right; exact hid
  · intro k ck v hk hh
    rcases get_set_cases hk with ⟨rfl, rfl⟩ | ⟨_, hk'⟩
    · simp [Call.held] at hh
    · exact h.heldLe _ _ _ hk' hh
  · intro k j ck cj v hk hj hhk hhj
    rcases get_set_cases hk with ⟨rfl, rfl⟩ | ⟨_, hk'⟩
    · simp [Call.held] at hhk
    · rcases get_set_cases hj with ⟨rfl, rfl⟩ | ⟨_, hj'⟩
      · simp [Call.held] at hhj
      · exact h.heldInj _ _ _ _ _ hk' hj' hhk hhj
  · intro k ck hk hne
    rcases get_set_cases hk with ⟨rfl, rfl⟩ | ⟨_, hk'⟩
    · have := h.startLt _ c hi (by rw [hpc]; simp)
      simp only; omega
    · have := h.startLt _ _ hk' hne
      simp only; omega
  · intro k ck r v hk hd
    rcases get_set_cases hk with ⟨rfl, rfl⟩ | ⟨_, hk'⟩
    · cases hd
    · have := h.doneLt _ _ _ _ hk' hd
      simp only; omega
  · intro k j ck cj rk vk vj hk hj hd hh hlt
    rcases get_set_cases hk with ⟨rfl, rfl⟩ | ⟨_, hk'⟩
    · cases hd
    · rcases get_set_cases hj with ⟨rfl, rfl⟩ | ⟨_, hj'⟩
      · simp [Call.held] at hh
      · exact h.rt _ _ _ _ _ _ _ hk' hj' hd hh hlt

/-- CAS succeeds: called → won, the version cell takes the description's version -/
theorem oinv_casWin {s : St} {i : Nat} {c : Call} (h : OInv s) (hi : s.calls[i]? = some c) (hpc : c.pc = .called)
    (hv0 : s.ver = 0) :
    OInv ⟨c.v0, s.id, s.now + 1, s.calls.set i { c with pc := .won }⟩ := by
  have hrem := rem_set (c' := { c with pc := .won }) hi
  simp only [hpc, Pc.pending] at hrem
  have hz := h.zero hv0
  have hc := h.hyp _ c hi
  have hothers : ∀ (k : Nat) (ck : Call), s.calls[k]? = some ck → ck.held = none :=
    fun k ck hk => held_idle_called (hz.2 k ck hk)
  have hnd : ∀ (k : Nat) (ck : Call), s.calls[k]? = some ck → ∀ r v, ck.pc ≠ .done r v := by
    intro k ck hk r v hd
    rcases hz.2 k ck hk with h1 | h1 <;> rw [h1] at hd <;> cases hd
  constructor
  · intro k ck hk
    simp only [List.length_set]
    rcases get_set_cases hk with ⟨rfl, rfl⟩ | ⟨_, hk'⟩
    · exact h.hyp _ c hi
    · exact h.hyp _ _ hk'
  · intro _
    have := rem_le_length s.calls
    simp only at *
    omega
  · intro hv
    exact absurd hv hc.2.1
  · intro k ck hk hw
    exact hz.1
  · intro k j ck cj hk hj hwk hwj
    rcases get_set_cases hk with ⟨rfl, rfl⟩ | ⟨_, hk'⟩
    · rcases get_set_cases hj with ⟨rfl, rfl⟩ | ⟨_, hj'⟩
      · rfl
      · rcases hz.2 _ _ hj' with h1 | h1 <;> rw [h1] at hwj <;> cases hwj
    · rcases hz.2 _ _ hk' with h1 | h1 <;> rw [h1] at hwk <;> cases hwk
  · intro k ck r hk hr
    rcases get_set_cases hk with ⟨rfl, rfl⟩ | ⟨_, hk'⟩
    · rcases hr with hr | ⟨v, hr⟩ <;> cases hr
    · rcases hz.2 _ _ hk' with h1 | h1 <;> rw [h1] at hr <;> rcases hr with hr | ⟨v, hr⟩ <;> cases hr
  · intro _
    left
    exact ⟨i, _, get_set_self hi, rfl⟩
  · intro k ck v hk hh
    rcases get_set_cases hk with ⟨rfl, rfl⟩ | ⟨_, hk'⟩
    · simp [Call.held] at hh
      subst hh
      exact ⟨Nat.le_refl _, hc.2.1⟩
    · rw [hothers _ _ hk'] at hh; cases hh
  · intro k j ck cj v hk hj hhk hhj
    rcases get_set_cases hk with ⟨rfl, rfl⟩ | ⟨_, hk'⟩
    · rcases get_set_cases hj with ⟨rfl, rfl⟩ | ⟨_, hj'⟩
      · rfl
      · rw [hothers _ _ hj'] at hhj; cases hhj
    · rw [hothers _ _ hk'] at hhk; cases hhk
  · intro k ck hk hne
    rcases get_set_cases hk with ⟨rfl, rfl⟩ | ⟨_, hk'⟩
    · have := h.startLt _ c hi (by rw [hpc]; simp)
      simp only; omega
    · have := h.startLt _ _ hk' hne
      simp only; omega
  · intro k ck r v hk hd
    rcases get_set_cases hk with ⟨rfl, rfl⟩ | ⟨_, hk'⟩
    · cases hd
    · exact absurd hd (hnd _ _ hk' r v)
  · intro k j ck cj rk vk vj hk hj hd hh hlt
    rcases get_set_cases hk with ⟨rfl, rfl⟩ | ⟨_, hk'⟩
    · cases hd
    · exact absurd hd (hnd _ _ hk' rk vk)

/-- the winner stores its session id and returns: won → done id0 v0 -/
theorem oinv_store {s : St} {i : Nat} {c : Call} (h : OInv s) (hi : s.calls[i]? = some c) (hpc : c.pc = .won) :
    OInv ⟨s.ver, c.id0, s.now + 1, s.calls.set i { c with pc := .done c.id0 c.v0, doneAt := s.now }⟩ := by
  have hrem := rem_set (c' := { c with pc := .done c.id0 c.v0, doneAt := s.now }) hi
  simp only [hpc, Pc.pending] at hrem
  have hc := h.hyp _ c hi
  have hid0 : s.id = 0 := h.wonId _ c hi hpc
  have hheld : c.held = some c.v0 := by simp [Call.held, hpc]
  have hst : c.startAt < s.now := h.startLt _ c hi (by rw [hpc]; simp)
  have hvne : s.ver ≠ 0 := (h.heldLe _ c _ hi hheld).2
  constructor
  · intro k ck hk
    simp only [List.length_set]
    rcases get_set_cases hk with ⟨rfl, rfl⟩ | ⟨_, hk'⟩
    · exact h.hyp _ c hi
    · exact h.hyp _ _ hk'
  · intro hv
    have := h.nowrap hv
    simp only at *
    omega
  · intro hv
    exact absurd hv hvne
  · intro k ck hk hw
    rcases get_set_cases hk with ⟨rfl, rfl⟩ | ⟨hne, hk'⟩
    · cases hw
    · exact absurd (h.wonUniq _ _ _ _ hk' hi hw hpc) hne
  · intro k j ck cj hk hj hwk hwj
    rcases get_set_cases hk with ⟨rfl, rfl⟩ | ⟨_, hk'⟩
    · cases hwk
    · rcases get_set_cases hj with ⟨rfl, rfl⟩ | ⟨_, hj'⟩
      · cases hwj
      · exact h.wonUniq _ _ _ _ hk' hj' hwk hwj
  · intro k ck r hk hr
    rcases get_set_cases hk with ⟨rfl, rfl⟩ | ⟨_, hk'⟩
    · rcases hr with hr | ⟨v, hr⟩
      · cases hr
      · simp only [Pc.done.injEq] at hr
        rw [← hr.1]
        exact ⟨rfl, hc.1⟩
    · have := h.idEq _ _ _ hk' hr
      rw [hid0] at this
      exact absurd this.1 this.2
  · intro _
    right; exact hc.1
  · intro k ck v hk hh
    rcases get_set_cases hk with ⟨rfl, rfl⟩ | ⟨_, hk'⟩
    · simp [Call.held] at hh
      subst hh
      exact h.heldLe _ c _ hi hheld
    · exact h.heldLe _ _ _ hk' hh
  · intro k j ck cj v hk hj hhk hhj
    rcases get_set_cases hk with ⟨rfl, rfl⟩ | ⟨_, hk'⟩
    · rcases get_set_cases hj with ⟨rfl, rfl⟩ | ⟨_, hj'⟩
      · rfl
      · simp [Call.held] at hhk
        subst hhk
        exact h.heldInj _ _ _ _ _ hi hj' hheld hhj
    · rcases get_set_cases hj with ⟨rfl, rfl⟩ | ⟨_, hj'⟩
      · simp [Call.held] at hhj
        subst hhj
        exact h.heldInj _ _ _ _ _ hk' hi hhk hheld
      · exact h.heldInj _ _ _ _ _ hk' hj' hhk hhj
  · intro k ck hk hne
    rcases get_set_cases hk with ⟨rfl, rfl⟩ | ⟨_, hk'⟩
    · simp only; omega
    · have := h.startLt _ _ hk' hne
      simp only; omega
  · intro k ck r v hk hd
    rcases get_set_cases hk with ⟨rfl, rfl⟩ | ⟨_, hk'⟩
    · simp only; omega
    · have := h.doneLt _ _ _ _ hk' hd
      simp only; omega
  · intro k j ck cj rk vk vj hk hj hd hh hlt
    rcases get_set_cases hk with ⟨rfl, rfl⟩ | ⟨_, hk'⟩
    · -- the call that returns now: nobody has started after `now`
      rcases get_set_cases hj with ⟨rfl, rfl⟩ | ⟨_, hj'⟩
      · simp only at hlt; omega
      · have := h.startLt _ _ hj' (pc_ne_idle_of_held hh)
        simp only at hlt; omega
    · rcases get_set_cases hj with ⟨rfl, rfl⟩ | ⟨_, hj'⟩
      · simp [Call.held] at hh
        subst hh
        exact h.rt _ _ _ _ _ _ _ hk' hi hd hheld hlt
      · exact h.rt _ _ _ _ _ _ _ hk' hj' hd hh hlt

/-- a load that returns 0: the call stays in the loop -/
theorem oinv_spinStay {s : St} (h : OInv s) : OInv ⟨s.ver, s.id, s.now + 1, s.calls⟩ := by
  constructor
  · exact h.hyp
  · exact h.nowrap
  · exact h.zero
  · exact h.wonId
  · exact h.wonUniq
  · exact h.idEq
  · exact h.prog
  · exact h.heldLe
  · exact h.heldInj
  · intro k ck hk hne
    have := h.startLt _ _ hk hne
    simp only; omega
  · intro k ck r v hk hd
    have := h.doneLt _ _ _ _ hk hd
    simp only; omega
  · exact h.rt

/-- a load that returns a non-zero id: spin → loaded -/
theorem oinv_spinLoad {s : St} {i : Nat} {c : Call} (h : OInv s) (hi : s.calls[i]? = some c) (hpc : c.pc = .spin)
    (hid : s.id ≠ 0) :
    OInv ⟨s.ver, s.id, s.now + 1, s.calls.set i { c with pc := .loaded s.id }⟩ := by
  have hrem := rem_set (c' := { c with pc := .loaded s.id }) hi
  simp only [hpc, Pc.pending] at hrem
  constructor
  · intro k ck hk
    simp only [List.length_set]
    rcases get_set_cases hk with ⟨rfl, rfl⟩ | ⟨_, hk'⟩
    · exact h.hyp _ c hi
    · exact h.hyp _ _ hk'
  · intro hv
    have := h.nowrap hv
    simp only at *
    omega
  · intro hv
    rcases (h.zero hv).2 _ c hi with h1 | h1 <;> rw [h1] at hpc <;> cases hpc
  · intro k ck hk hw
    rcases get_set_cases hk with ⟨rfl, rfl⟩ | ⟨_, hk'⟩
    · cases hw
    · exact h.wonId _ _ hk' hw
  · intro k j ck cj hk hj hwk hwj
    rcases get_set_cases hk with ⟨rfl, rfl⟩ | ⟨_, hk'⟩
    · cases hwk
    · rcases get_set_cases hj with ⟨rfl, rfl⟩ | ⟨_, hj'⟩
      · cases hwj
      · exact h.wonUniq _ _ _ _ hk' hj' hwk hwj
  · intro k ck r hk hr
    rcases get_set_cases hk with ⟨rfl, rfl⟩ | ⟨_, hk'⟩
    · rcases hr with hr | ⟨v, hr⟩
      · simp only [Pc.loaded.injEq] at hr
        rw [← hr]; exact ⟨rfl, hid⟩
      · cases hr
    · exact h.idEq _ _ _ hk' hr
  · intro hv
    rcases h.prog hv with ⟨j, cj, hj, hw⟩ | hid'
    · left
      refine ⟨j, cj, ?_, hw⟩
      have : j ≠ i := by
        rintro rfl
        rw [hi] at hj; cases hj; rw [hpc] at hw; cases hw
      rw [get_set_other this]; exact hj
    · right; exact hid'
  · intro k ck v hk hh
    rcases get_set_cases hk with ⟨rfl, rfl⟩ | ⟨_, hk'⟩
    · simp [Call.held] at hh
    · exact h.heldLe _ _ _ hk' hh
  · intro k j ck cj v hk hj hhk hhj
    rcases get_set_cases hk with ⟨rfl, rfl⟩ | ⟨_, hk'⟩
    · simp [Call.held] at hhk
    · rcases get_set_cases hj with ⟨rfl, rfl⟩ | ⟨_, hj'⟩
      · simp [Call.held] at hhj
      · exact h.heldInj _ _ _ _ _ hk' hj' hhk hhj
  · intro k ck hk hne
    rcases get_set_cases hk with ⟨rfl, rfl⟩ | ⟨_, hk'⟩
    · have := h.startLt _ c hi (by rw [hpc]; simp)
      simp only; omega
    · have := h.startLt _ _ hk' hne
      simp only; omega
  · intro k ck r v hk hd
    rcases get_set_cases hk with ⟨rfl, rfl⟩ | ⟨_, hk'⟩
    · cases hd
    · have := h.doneLt _ _ _ _ hk' hd
      simp only; omega
  · intro k j ck cj rk vk vj hk hj hd hh hlt
    rcases get_set_cases hk with ⟨rfl, rfl⟩ | ⟨_, hk'⟩
    · cases hd
    · rcases get_set_cases hj with ⟨rfl, rfl⟩ | ⟨_, hj'⟩
      · simp [Call.held] at hh
      · exact h.rt _ _ _ _ _ _ _ hk' hj' hd hh hlt

/-- the atomic add: loaded r → done r (ver+1) -/
theorem oinv_add {s : St} {i : Nat} {c : Call} {r : UInt64} (h : OInv s) (hi : s.calls[i]? = some c)
    (hpc : c.pc = .loaded r) :
    OInv ⟨s.ver + 1, s.id, s.now + 1, s.calls.set i { c with pc := .done r (s.ver + 1), doneAt := s.now }⟩ := by
  have hrem := rem_set (c' := { c with pc := .done r (s.ver + 1), doneAt := s.now }) hi
  simp only [hpc, Pc.pending] at hrem
  have hvne : s.ver ≠ 0 := by
    intro hv
    rcases (h.zero hv).2 _ c hi with h1 | h1 <;> rw [h1] at hpc <;> cases hpc
  have hnw := h.nowrap hvne
  have hsucc : (s.ver + 1).toNat = s.ver.toNat + 1 := u64_succ _ (by omega)
  have hne1 : s.ver + 1 ≠ 0 := by
    rw [u64_ne_zero]; omega
  have hst : c.startAt < s.now := h.startLt _ c hi (by rw [hpc]; simp)
  constructor
  · intro k ck hk
    simp only [List.length_set]
    rcases get_set_cases hk with ⟨rfl, rfl⟩ | ⟨_, hk'⟩
    · exact h.hyp _ c hi
    · exact h.hyp _ _ hk'
  · intro _
    simp only at *
    omega
  · intro hv
    exact absurd hv hne1
  · intro k ck hk hw
    rcases get_set_cases hk with ⟨rfl, rfl⟩ | ⟨_, hk'⟩
    · cases hw
    · exact h.wonId _ _ hk' hw
  · intro k j ck cj hk hj hwk hwj
    rcases get_set_cases hk with ⟨rfl, rfl⟩ | ⟨_, hk'⟩
    · cases hwk
    · rcases get_set_cases hj with ⟨rfl, rfl⟩ | ⟨_, hj'⟩
      · cases hwj
      · exact h.wonUniq _ _ _ _ hk' hj' hwk hwj
  · intro k ck r' hk hr
    rcases get_set_cases hk with ⟨rfl, rfl⟩ | ⟨_, hk'⟩
    · rcases hr with hr | ⟨v, hr⟩
      · cases hr
      · simp only [Pc.done.injEq] at hr
        rw [← hr.1]
        exact h.idEq _ c r hi (Or.inl hpc)
    · exact h.idEq _ _ _ hk' hr
  · intro _
    rcases h.prog hvne with ⟨j, cj, hj, hw⟩ | hid'
    · left
      refine ⟨j, cj, ?_, hw⟩
      have : j ≠ i := by
        rintro rfl
        rw [hi] at hj; cases hj; rw [hpc] at hw; cases hw
      rw [get_set_other this]; exact hj
    · right; exact hid'
  · intro k ck v hk hh
    rcases get_set_cases hk with ⟨rfl, rfl⟩ | ⟨_, hk'⟩
    · simp [Call.held] at hh
      subst hh
      exact ⟨Nat.le_refl _, hne1⟩
    · have := h.heldLe _ _ _ hk' hh
      exact ⟨by simp only; omega, hne1⟩
  · intro k j ck cj v hk hj hhk hhj
    rcases get_set_cases hk with ⟨rfl, rfl⟩ | ⟨_, hk'⟩
    · rcases get_set_cases hj with ⟨rfl, rfl⟩ | ⟨_, hj'⟩
      · rfl
      · simp [Call.held] at hhk
        subst hhk
        have := (h.heldLe _ _ _ hj' hhj).1
        omega
    · rcases get_set_cases hj with ⟨rfl, rfl⟩ | ⟨_, hj'⟩
      · simp [Call.held] at hhj
        subst hhj
        have := (h.heldLe _ _ _ hk' hhk).1
        omega
      · exact h.heldInj _ _ _ _ _ hk' hj' hhk hhj
  · intro k ck hk hne
    rcases get_set_cases hk with ⟨rfl, rfl⟩ | ⟨_, hk'⟩
    · simp only; omega
    · have := h.startLt _ _ hk' hne
      simp only; omega
  · intro k ck r' v hk hd
    rcases get_set_cases hk with ⟨rfl, rfl⟩ | ⟨_, hk'⟩
    · simp only; omega
    · have := h.doneLt _ _ _ _ hk' hd
      simp only; omega
  · intro k j ck cj rk vk vj hk hj hd hh hlt
    rcases get_set_cases hk with ⟨rfl, rfl⟩ | ⟨_, hk'⟩
    · rcases get_set_cases hj with ⟨rfl, rfl⟩ | ⟨_, hj'⟩
      · simp only at hlt; omega
      · have := h.startLt _ _ hj' (pc_ne_idle_of_held hh)
        simp only at hlt; omega
    · rcases get_set_cases hj with ⟨rfl, rfl⟩ | ⟨_, hj'⟩
      · -- the new version is larger than every version handed out before
        simp [Call.held] at hh
        subst hh
        have hk_held : ck.held = some vk := by simp [Call.held, hd]
        have := (h.heldLe _ _ _ hk' hk_held).1
        omega
      · exact h.rt _ _ _ _ _ _ _ hk' hj' hd hh hlt

theorem oinv_step {s s' : St} {i : Nat} (h : OInv s) (hs : step s i = some s') : OInv s' := by
  unfold step at hs
  split at hs
  · cases hs
  · rename_i c hi
    unfold exec at hs
    split at hs
    · rename_i hpc
      cases hs; exact oinv_call h hi hpc
    · rename_i hpc
      split at hs
      · rename_i hv; cases hs; exact oinv_casWin h hi hpc hv
      · rename_i hv; cases hs; exact oinv_casLose h hi hpc hv
    · rename_i hpc
      cases hs; exact oinv_store h hi hpc
    · rename_i hpc
      split at hs
      · cases hs; exact oinv_spinStay h
      · rename_i hid; cases hs; exact oinv_spinLoad h hi hpc hid
    · rename_i r hpc
      cases hs; exact oinv_add h hi hpc
    · cases hs

theorem init_get {ps : List (UInt64 × UInt64)} {i : Nat} {c : Call} (h : (init ps).calls[i]? = some c) :
    ∃ p, ps[i]? = some p ∧ c = { id0 := p.1, v0 := p.2 } := by
  simp only [init, List.getElem?_map] at h
  cases hp : ps[i]? with
  | none => rw [hp] at h; cases h
  | some p => rw [hp] at h; cases h; exact ⟨p, rfl, rfl⟩

theorem oinv_init {ps : List (UInt64 × UInt64)} (hy : Hyp ps) : OInv (init ps) := by
  have hidle : ∀ (i : Nat) (c : Call), (init ps).calls[i]? = some c → c.pc = .idle := by
    intro i c h
    obtain ⟨p, _, rfl⟩ := init_get h
    rfl
  constructor
  · intro i c h
    obtain ⟨p, hp, rfl⟩ := init_get h
    have := hy p (List.mem_of_getElem? hp)
    simpa [init] using this
  · intro hv; exact absurd rfl hv
  · intro _; exact ⟨rfl, fun i c h => Or.inl (hidle i c h)⟩
  · intro i c h hw; rw [hidle i c h] at hw; cases hw
  · intro i j ci cj hi _ hw _; rw [hidle i ci hi] at hw; cases hw
  · intro i c r h hr
    rw [hidle i c h] at hr
    rcases hr with hr | ⟨v, hr⟩ <;> cases hr
  · intro hv; exact absurd rfl hv
  · intro i c v h hh; simp [Call.held, hidle i c h] at hh
  · intro i j ci cj v hi _ hh _; simp [Call.held, hidle i ci hi] at hh
  · intro i c h hne; exact absurd (hidle i c h) hne
  · intro i c r v h hd; rw [hidle i c h] at hd; cases hd
  · intro i j ci cj ri vi vj hi _ hd _ _; rw [hidle i ci hi] at hd; cases hd

theorem oinv_of_reachable {ps : List (UInt64 × UInt64)} {s : St} (hy : Hyp ps) (h : Reachable ps s) : OInv s := by
  induction h with
  | init => exact oinv_init hy
  | step i _ hs ih => exact oinv_step ih hs

/-! ### progress -/

/-- a disabled step means the call does not exist or has returned -/
theorem step_none_iff {s : St} {i : Nat} :
    step s i = none ↔ (s.calls[i]? = none ∨ ∃ c r v, s.calls[i]? = some c ∧ c.pc = .done r v) := by
  unfold step
  cases hi : s.calls[i]? with
  | none => simp
  | some c =>
    simp only [reduceCtorEq, false_or, Option.some.injEq]
    unfold exec
    cases hpc : c.pc with
    | idle => simp [hpc]
    | called => dsimp only; split <;> simp [hpc]
    | won => simp [hpc]
    | spin => dsimp only; split <;> simp [hpc]
    | loaded r => simp [hpc]
    | done r v => simp [hpc]

/-- what one step does, as a case list (used for the stability lemmas below) -/
theorem step_cases {s s' : St} {i : Nat} (hs : step s i = some s') :
    ∃ c, s.calls[i]? = some c ∧ (∀ r v, c.pc ≠ .done r v) ∧ s'.now = s.now + 1 ∧
      ((s'.calls = s.calls) ∨
       (∃ c', s'.calls = s.calls.set i c' ∧ c'.id0 = c.id0 ∧ c'.v0 = c.v0 ∧
          (c'.startAt = c.startAt ∨ (c.pc = .idle ∧ c'.pc = .called ∧ c'.startAt = s.now)) ∧
          (c'.pc ≠ .idle) ∧
          ((∀ r v, c'.pc ≠ .done r v) ∨ c'.doneAt = s.now))) := by
  unfold step at hs
  split at hs
  · cases hs
  · rename_i c hi
    refine ⟨c, hi, ?_⟩
    unfold exec at hs
    split at hs
    · rename_i hpc; cases hs
      refine ⟨by simp [hpc], rfl, Or.inr ⟨_, rfl, rfl, rfl, Or.inr ⟨hpc, rfl, rfl⟩, by simp, Or.inl (by simp)⟩⟩
    · rename_i hpc
      split at hs
      · cases hs
        refine ⟨by simp [hpc], rfl, Or.inr ⟨_, rfl, rfl, rfl, Or.inl rfl, by simp, Or.inl (by simp)⟩⟩
      · cases hs
        refine ⟨by simp [hpc], rfl, Or.inr ⟨_, rfl, rfl, rfl, Or.inl rfl, by simp, Or.inl (by simp)⟩⟩
    · rename_i hpc; cases hs
      refine ⟨by simp [hpc], rfl, Or.inr ⟨_, rfl, rfl, rfl, Or.inl rfl, by simp, Or.inr rfl⟩⟩
    · rename_i hpc
      split at hs
      · cases hs
        exact ⟨by simp [hpc], rfl, Or.inl rfl⟩
      · cases hs
        refine ⟨by simp [hpc], rfl, Or.inr ⟨_, rfl, rfl, rfl, Or.inl rfl, by simp, Or.inl (by simp)⟩⟩
    · rename_i r hpc; cases hs
      refine ⟨by simp [hpc], rfl, Or.inr ⟨_, rfl, rfl, rfl, Or.inl rfl, by simp, Or.inr rfl⟩⟩
    · cases hs

/-- a call that has returned is never touched again -/
theorem done_stable {s s' : St} {i k : Nat} {ck : Call} {r v : UInt64} (hs : step s i = some s')
    (hk : s.calls[k]? = some ck) (hd : ck.pc = .done r v) : s'.calls[k]? = some ck := by
  obtain ⟨c, hi, hnd, _, hc | ⟨c', hc, _⟩⟩ := step_cases hs
  · rw [hc]; exact hk
  · have : k ≠ i := by
      rintro rfl
      rw [hi] at hk; cases hk
      exact hnd r v hd
    rw [hc, get_set_other this]; exact hk

/-- once invoked, a call keeps its start tick; and it is never idle again -/
theorem started_stable {s s' : St} {i k : Nat} {ck : Call} (hs : step s i = some s')
    (hk : s.calls[k]? = some ck) (hne : ck.pc ≠ .idle) :
    ∃ ck', s'.calls[k]? = some ck' ∧ ck'.startAt = ck.startAt ∧ ck'.pc ≠ .idle := by
  obtain ⟨c, hi, _, _, hc | ⟨c', hc, _, _, hst, hni, _⟩⟩ := step_cases hs
  · exact ⟨ck, by rw [hc]; exact hk, rfl, hne⟩
  · by_cases hki : k = i
    · subst hki
      rw [hi] at hk; cases hk
      refine ⟨c', by rw [hc]; exact get_set_self hi, ?_, hni⟩
      rcases hst with h1 | ⟨h1, _⟩
      · exact h1
      · exact absurd h1 hne
    · exact ⟨ck, by rw [hc, get_set_other hki]; exact hk, rfl, hne⟩

/-- states reachable from `s` by further steps (any continuation of a run) -/
inductive ReachFrom (s : St) : St → Prop
  | refl : ReachFrom s s
  | step {t t' : St} (i : Nat) : ReachFrom s t → step t i = some t' → ReachFrom s t'

theorem reachable_trans {ps : List (UInt64 × UInt64)} {s t : St} (h : Reachable ps s) (ht : ReachFrom s t) :
    Reachable ps t := by
  induction ht with
  | refl => exact h
  | step i _ hs ih => exact Reachable.step i ih hs

theorem done_stable_from {s t : St} {k : Nat} {ck : Call} {r v : UInt64} (ht : ReachFrom s t)
    (hk : s.calls[k]? = some ck) (hd : ck.pc = .done r v) : t.calls[k]? = some ck := by
  induction ht with
  | refl => exact hk
  | step i _ hs ih => exact done_stable hs ih hd

theorem started_stable_from {s t : St} {k : Nat} {ck : Call} (ht : ReachFrom s t)
    (hk : s.calls[k]? = some ck) (hne : ck.pc ≠ .idle) :
    ∃ ck', t.calls[k]? = some ck' ∧ ck'.startAt = ck.startAt ∧ ck'.pc ≠ .idle := by
  induction ht with
  | refl => exact ⟨ck, hk, rfl, hne⟩
  | step i _ hs ih =>
    obtain ⟨c1, h1, h2, h3⟩ := ih
    obtain ⟨c2, g1, g2, g3⟩ := started_stable hs h1 h3
    exact ⟨c2, g1, by rw [g2, h2], g3⟩

/-- the session-id cell, once non-zero, holds the id of a call that won the CAS, stored it and returned
    with its own origin -/
def IdSrc (s : St) : Prop :=
  s.id ≠ 0 → ∃ (w : Nat) (cw : Call), s.calls[w]? = some cw ∧ cw.pc = .done cw.id0 cw.v0 ∧ cw.id0 = s.id

theorem idSrc_step {s s' : St} {i : Nat} (hsrc : IdSrc s) (hs : step s i = some s') : IdSrc s' := by
  intro hid'
  by_cases hid : s'.id = s.id
  · rw [hid] at hid'
    obtain ⟨w, cw, hw, hd, he⟩ := hsrc hid'
    exact ⟨w, cw, done_stable hs hw hd, hd, by rw [hid]; exact he⟩
  · -- the id cell changed: this was the winner's store
    unfold step at hs
    split at hs
    · cases hs
    · rename_i c hi
      unfold exec at hs
      split at hs
      · cases hs; exact absurd rfl hid
      · split at hs <;> cases hs <;> exact absurd rfl hid
      · cases hs
        exact ⟨i, _, get_set_self hi, rfl, rfl⟩
      · split at hs <;> cases hs <;> exact absurd rfl hid
      · cases hs; exact absurd rfl hid
      · cases hs

theorem idSrc_of_reachable {ps : List (UInt64 × UInt64)} {s : St} (h : Reachable ps s) : IdSrc s := by
  induction h with
  | init => intro hne; exact absurd rfl hne
  | step i _ hs ih => exact idSrc_step ih hs

/-! ### sequential use -/

/-- cells of an origin that is unused, or in use with room for `R` more increments -/
def CellsOk (cells : UInt64 × UInt64) (R : Nat) : Prop :=
  cells = (0, 0) ∨ (cells.1 ≠ 0 ∧ cells.2 ≠ 0 ∧ cells.1.toNat + R < 2 ^ 64)

theorem runFresh_spec (B R' : Nat) : ∀ (ds : List (UInt64 × UInt64)) (cells : UInt64 × UInt64)
    (last : Option (UInt64 × UInt64)),
    (∀ p ∈ ds, p.1 ≠ 0 ∧ p.2 ≠ 0 ∧ p.2.toNat + B < 2 ^ 64) → ds.length + R' ≤ B →
    CellsOk cells (ds.length + R') →
    ∃ cells' last', runFresh cells ds last = some (cells', last') ∧ CellsOk cells' R' ∧
      (ds = [] → cells' = cells ∧ last' = last) ∧
      (ds ≠ [] → last' = some (cells'.2, cells'.1) ∧ cells'.1 ≠ 0 ∧ cells.1.toNat < cells'.1.toNat ∧
        (cells.1 ≠ 0 → cells'.2 = cells.2)) := by
  intro ds
  induction ds with
  | nil =>
    intro cells last _ _ hW
    refine ⟨cells, last, rfl, ?_, fun _ => ⟨rfl, rfl⟩, fun h => absurd rfl h⟩
    simpa using hW
  | cons d ds ih =>
    intro cells last hds hB hW
    have hd := hds d (by simp)
    have hds' : ∀ p ∈ ds, p.1 ≠ 0 ∧ p.2 ≠ 0 ∧ p.2.toNat + B < 2 ^ 64 := fun p hp => hds p (by simp [hp])
    simp only [List.length_cons] at hB hW
    rcases hW with hz | ⟨h1, h2, h3⟩
    · -- unused origin: this description's own origin is kept
      subst hz
      have hW1 : CellsOk (d.2, d.1) (ds.length + R') := Or.inr ⟨hd.2.1, hd.1, by simp only; omega⟩
      obtain ⟨cells', last', hr, hW', hnil, hcons⟩ := ih (d.2, d.1) (some d) hds' (by omega) hW1
      refine ⟨cells', last', ?_, hW', fun h => (by cases h), fun _ => ?_⟩
      · simp only [runFresh, updateSeq, ↓reduceIte]; exact hr
      · by_cases hne : ds = []
        · obtain ⟨e1, e2⟩ := hnil hne
          subst e1
          refine ⟨by rw [e2], hd.2.1, ?_, fun h => absurd rfl h⟩
          have := (u64_ne_zero d.2).mp hd.2.1
          simp only [UInt64.toNat_zero]; omega
        · obtain ⟨e1, e2, e3, _⟩ := hcons hne
          refine ⟨e1, e2, ?_, fun h => absurd rfl h⟩
          simp only [UInt64.toNat_zero] at *; omega
    · have hs : (cells.1 + 1).toNat = cells.1.toNat + 1 := u64_succ _ (by omega)
      have hne1 : cells.1 + 1 ≠ 0 := by rw [u64_ne_zero]; omega
      have hW1 : CellsOk (cells.1 + 1, cells.2) (ds.length + R') := Or.inr ⟨hne1, h2, by simp only; omega⟩
      obtain ⟨cells', last', hr, hW', hnil, hcons⟩ := ih (cells.1 + 1, cells.2) (some (cells.2, cells.1 + 1)) hds' (by omega) hW1
      refine ⟨cells', last', ?_, hW', fun h => (by cases h), fun _ => ?_⟩
      · simp only [runFresh, updateSeq, h1, h2, ↓reduceIte]; exact hr
      · by_cases hne : ds = []
        · obtain ⟨e1, e2⟩ := hnil hne
          subst e1
          exact ⟨e2, hne1, by simp only; omega, fun _ => rfl⟩
        · obtain ⟨e1, e2, e3, e4⟩ := hcons hne
          exact ⟨e1, e2, by simp only at e3; omega, fun _ => e4 hne1⟩

theorem allFresh_cons (a : Api) (as : List Api) : allFresh (a :: as) = a.fresh ++ allFresh as := by
  simp [allFresh]

theorem runHistory_spec (B : Nat) : ∀ (h : List Api) (cells : UInt64 × UInt64),
    (∀ p ∈ allFresh h, p.1 ≠ 0 ∧ p.2 ≠ 0 ∧ p.2.toNat + B < 2 ^ 64) → (allFresh h).length ≤ B →
    CellsOk cells (allFresh h).length →
    ∃ outs, runHistory cells h = some outs ∧
      outs.Pairwise (fun a b => a.2.toNat < b.2.toNat) ∧
      (∀ o ∈ outs, cells.1.toNat < o.2.toNat ∧ (cells.1 ≠ 0 → o.1 = cells.2)) ∧
      (∀ o ∈ outs, ∀ o' ∈ outs, o.1 = o'.1) := by
  intro h
  induction h with
  | nil =>
    intro cells _ _ _
    exact ⟨[], rfl, List.Pairwise.nil, fun o ho => (by cases ho), fun o ho => (by cases ho)⟩
  | cons a as ih =>
    intro cells hf hB hW
    rw [allFresh_cons] at hf hB hW
    simp only [List.length_append] at hB hW
    have hf1 : ∀ p ∈ a.fresh, p.1 ≠ 0 ∧ p.2 ≠ 0 ∧ p.2.toNat + B < 2 ^ 64 := fun p hp => hf p (by simp [hp])
    have hf2 : ∀ p ∈ allFresh as, p.1 ≠ 0 ∧ p.2 ≠ 0 ∧ p.2.toNat + B < 2 ^ 64 := fun p hp => hf p (by simp [hp])
    obtain ⟨cells', last', hr, hW', hnil, hcons⟩ :=
      runFresh_spec B (allFresh as).length a.fresh cells none hf1 hB hW
    obtain ⟨outs', hr', hpw, hlo, hids⟩ := ih cells' hf2 (by omega) hW'
    -- facts relating cells' to cells
    have hmono : cells.1.toNat ≤ cells'.1.toNat := by
      by_cases hne : a.fresh = []
      · rw [(hnil hne).1]; exact Nat.le_refl _
      · exact Nat.le_of_lt (hcons hne).2.2.1
    have hid : cells.1 ≠ 0 → cells'.1 ≠ 0 ∧ cells'.2 = cells.2 := by
      intro hc
      by_cases hne : a.fresh = []
      · rw [(hnil hne).1]; exact ⟨hc, rfl⟩
      · exact ⟨(hcons hne).2.1, (hcons hne).2.2.2 hc⟩
    have hlo' : ∀ o ∈ outs', cells.1.toNat < o.2.toNat ∧ (cells.1 ≠ 0 → o.1 = cells.2) := by
      intro o ho
      refine ⟨Nat.lt_of_le_of_lt hmono (hlo o ho).1, fun hc => ?_⟩
      rw [(hlo o ho).2 (hid hc).1, (hid hc).2]
    by_cases hret : a.returns = true ∧ a.fresh ≠ []
    · -- the call hands out the last description it generated
      obtain ⟨hret1, hne⟩ := hret
      obtain ⟨e1, e2, e3, e4⟩ := hcons hne
      refine ⟨(cells'.2, cells'.1) :: outs', ?_, ?_, ?_, ?_⟩
      · simp only [runHistory, hr, hr', hret1, e1]
      · refine List.Pairwise.cons (fun o ho => (hlo o ho).1) hpw
      · intro o ho
        rcases List.mem_cons.mp ho with rfl | ho
        · exact ⟨e3, e4⟩
        · exact hlo' o ho
      · intro o ho o' ho'
        have key : ∀ x ∈ (cells'.2, cells'.1) :: outs', x.1 = cells'.2 := by
          intro x hx
          rcases List.mem_cons.mp hx with rfl | hx
          · rfl
          · exact (hlo x hx).2 e2
        rw [key o ho, key o' ho']
    · refine ⟨outs', ?_, hpw, hlo', hids⟩
      by_cases hne : a.fresh = []
      · have := (hnil hne).2
        subst this
        cases hb : a.returns <;> simp [runHistory, hr, hr', hb]
      · have hb : a.returns = false := by
          cases hb : a.returns
          · rfl
          · exact absurd ⟨hb, hne⟩ hret
        simp [runHistory, hr, hr', hb]

theorem step_eq {s : St} {i : Nat} {c : Call} (hi : s.calls[i]? = some c) : step s i = exec s i c := by
  unfold step; rw [hi]

theorem set_set_same (l : List Call) (i : Nat) (a b : Call) : (l.set i a).set i b = l.set i b := by
  simp

/-- `updateSeq` is the transition system's call run without interference: from a state in which call `i`
    has not been invoked, letting only `i` step executes exactly `updateSeq` on the two cells. -/
theorem updateSeq_refines {s : St} {i : Nat} {c : Call} (hi : s.calls[i]? = some c) (hpc : c.pc = .idle)
    {cells' o : UInt64 × UInt64} (hu : updateSeq (s.ver, s.id) (c.id0, c.v0) = some (cells', o)) :
    ∃ n s', runSched s (List.replicate n i) = some s' ∧ (s'.ver, s'.id) = cells' ∧
      ∃ c', s'.calls[i]? = some c' ∧ c'.result = some o := by
  -- step 1: invocation
  let c1 : Call := { c with pc := .called, startAt := s.now }
  let s1 : St := ⟨s.ver, s.id, s.now + 1, s.calls.set i c1⟩
  have h1 : step s i = some s1 := by rw [step_eq hi]; simp only [exec, hpc]; rfl
  have hi1 : s1.calls[i]? = some c1 := get_set_self hi
  unfold updateSeq at hu
  simp only at hu
  split at hu
  · rename_i hv
    cases hu
    -- step 2: the CAS succeeds; step 3: the store
    let c2 : Call := { c1 with pc := .won }
    let s2 : St := ⟨c.v0, s.id, s1.now + 1, s1.calls.set i c2⟩
    have h2 : step s1 i = some s2 := by
      rw [step_eq hi1]; simp only [exec, c1, s1, hv, ↓reduceIte]; rfl
    have hi2 : s2.calls[i]? = some c2 := get_set_self hi1
    let c3 : Call := { c2 with pc := .done c.id0 c.v0, doneAt := s2.now }
    let s3 : St := ⟨c.v0, c.id0, s2.now + 1, s2.calls.set i c3⟩
    have h3 : step s2 i = some s3 := by
      rw [step_eq hi2]; simp only [exec, c2]; rfl
    refine ⟨3, s3, ?_, rfl, c3, get_set_self hi2, rfl⟩
    simp only [List.replicate, runSched, h1, h2, h3, Option.bind_some]
  · rename_i hv
    split at hu
    · cases hu
    · rename_i hid
      cases hu
      let c2 : Call := { c1 with pc := .spin }
      let s2 : St := ⟨s.ver, s.id, s1.now + 1, s1.calls.set i c2⟩
      have h2 : step s1 i = some s2 := by
        rw [step_eq hi1]; simp only [exec, c1, s1, hv, ↓reduceIte]; rfl
      have hi2 : s2.calls[i]? = some c2 := get_set_self hi1
      let c3 : Call := { c2 with pc := .loaded s.id }
      let s3 : St := ⟨s.ver, s.id, s2.now + 1, s2.calls.set i c3⟩
      have h3 : step s2 i = some s3 := by
        rw [step_eq hi2]; simp only [exec, c2, s2, hid, ↓reduceIte]; rfl
      have hi3 : s3.calls[i]? = some c3 := get_set_self hi2
      let c4 : Call := { c3 with pc := .done s.id (s.ver + 1), doneAt := s3.now }
      let s4 : St := ⟨s.ver + 1, s.id, s3.now + 1, s3.calls.set i c4⟩
      have h4 : step s3 i = some s4 := by
        rw [step_eq hi3]; simp only [exec, c3]; rfl
      refine ⟨4, s4, ?_, rfl, c4, get_set_self hi3, rfl⟩
      simp only [List.replicate, runSched, h1, h2, h3, h4, Option.bind_some]


/-- a run of `runSched` from a reachable state ends in a reachable state -/
theorem reachable_of_runSched {ps : List (UInt64 × UInt64)} {sched : List Nat} {s t : St}
    (h : Reachable ps s) (hr : runSched s sched = some t) : Reachable ps t := by
  induction sched generalizing s with
  | nil => simp [runSched] at hr; subst hr; exact h
  | cons i is ih =>
    simp only [runSched] at hr
    cases hs : step s i with
    | none => rw [hs] at hr; cases hr
    | some s' => rw [hs] at hr; exact ih (Reachable.step i h hs) hr

/-! ### histories on one PeerConnection, with setDescription (rollback, older descriptions) in between -/

theorem cellsOk_mono {cells : UInt64 × UInt64} {R R' : Nat} (h : CellsOk cells R) (hle : R' ≤ R) : CellsOk cells R' := by
  rcases h with h | ⟨h1, h2, h3⟩
  · exact Or.inl h
  · exact Or.inr ⟨h1, h2, by omega⟩

/-- what is known about the descriptions handed out so far, relative to the origin cells -/
def PcInv (s : PcSt) : Prop :=
  s.created.Pairwise (fun a b => a.2.toNat < b.2.toNat) ∧
  ∀ o ∈ s.created, s.cells.1 ≠ 0 ∧ o.1 = s.cells.2 ∧ o.2.toNat ≤ s.cells.1.toNat

theorem pcFresh_cons (a : PcAct) (as : List PcAct) : pcFresh (a :: as) = a.fresh ++ pcFresh as := by
  simp [pcFresh]

/-- one generating call (guards passed) keeps the invariant -/
theorem pcGenerate_spec (B R' : Nat) (s : PcSt) (a : Api) (neg' : Signaling.Neg)
    (hds : ∀ p ∈ a.fresh, p.1 ≠ 0 ∧ p.2 ≠ 0 ∧ p.2.toNat + B < 2 ^ 64) (hB : a.fresh.length + R' ≤ B)
    (hW : CellsOk s.cells (a.fresh.length + R')) (hI : PcInv s) :
    ∃ s', pcGenerate s a neg' = some s' ∧ CellsOk s'.cells R' ∧ PcInv s' := by
  obtain ⟨cells', last', hr, hW', hnil, hcons⟩ := runFresh_spec B R' a.fresh s.cells none hds hB hW
  have hmono : s.cells.1.toNat ≤ cells'.1.toNat := by
    by_cases hne : a.fresh = []
    · rw [(hnil hne).1]; exact Nat.le_refl _
    · exact Nat.le_of_lt (hcons hne).2.2.1
  have hid : s.cells.1 ≠ 0 → cells'.1 ≠ 0 ∧ cells'.2 = s.cells.2 := by
    intro hc
    by_cases hne : a.fresh = []
    · rw [(hnil hne).1]; exact ⟨hc, rfl⟩
    · exact ⟨(hcons hne).2.1, (hcons hne).2.2.2 hc⟩
  -- the descriptions handed out before, seen from the new cells
  have hold : ∀ o ∈ s.created, cells'.1 ≠ 0 ∧ o.1 = cells'.2 ∧ o.2.toNat ≤ cells'.1.toNat := by
    intro o ho
    obtain ⟨h1, h2, h3⟩ := hI.2 o ho
    exact ⟨(hid h1).1, by rw [h2, (hid h1).2], Nat.le_trans h3 hmono⟩
  by_cases hret : a.returns = true ∧ a.fresh ≠ []
  · obtain ⟨hret1, hne⟩ := hret
    obtain ⟨e1, e2, e3, _⟩ := hcons hne
    refine ⟨{ neg := neg', cells := cells', created := s.created ++ [(cells'.2, cells'.1)] }, ?_, hW', ?_, ?_⟩
    · simp only [pcGenerate, hr, hret1, e1]
    · refine List.pairwise_append.mpr ⟨hI.1, List.pairwise_singleton _ _, ?_⟩
      intro o ho o' ho'
      rw [List.mem_singleton] at ho'
      subst ho'
      have := (hI.2 o ho).2.2
      simp only; omega
    · intro o ho
      rcases List.mem_append.mp ho with ho | ho
      · exact hold o ho
      · rw [List.mem_singleton] at ho
        subst ho
        exact ⟨e2, rfl, Nat.le_refl _⟩
  · refine ⟨{ s with cells := cells' }, ?_, hW', hI.1, hold⟩
    by_cases hne : a.fresh = []
    · have := (hnil hne).2
      subst this
      cases hb : a.returns <;> simp [pcGenerate, hr, hb]
    · have hb : a.returns = false := by
        cases hb : a.returns
        · rfl
        · exact absurd ⟨hb, hne⟩ hret
      simp [pcGenerate, hr, hb]

theorem pcRun_spec (B : Nat) : ∀ (acts : List PcAct) (s : PcSt),
    (∀ p ∈ pcFresh acts, p.1 ≠ 0 ∧ p.2 ≠ 0 ∧ p.2.toNat + B < 2 ^ 64) → (pcFresh acts).length ≤ B →
    CellsOk s.cells (pcFresh acts).length → PcInv s →
    ∃ s', pcRun s acts = some s' ∧ PcInv s' := by
  intro acts
  induction acts with
  | nil => intro s _ _ _ hI; exact ⟨s, rfl, hI⟩
  | cons a as ih =>
    intro s hf hB hW hI
    rw [pcFresh_cons] at hf hB hW
    simp only [List.length_append] at hB hW
    have hf1 : ∀ p ∈ a.fresh, p.1 ≠ 0 ∧ p.2 ≠ 0 ∧ p.2.toNat + B < 2 ^ 64 := fun p hp => hf p (by simp [hp])
    have hf2 : ∀ p ∈ pcFresh as, p.1 ≠ 0 ∧ p.2 ≠ 0 ∧ p.2.toNat + B < 2 ^ 64 := fun p hp => hf p (by simp [hp])
    -- it suffices to find the state after `a`, still within budget for the rest
    suffices h : ∃ s1, pcStep s a = some s1 ∧ CellsOk s1.cells (pcFresh as).length ∧ PcInv s1 by
      obtain ⟨s1, h1, h2, h3⟩ := h
      obtain ⟨s', h4, h5⟩ := ih s1 hf2 (by omega) h2 h3
      exact ⟨s', by simp only [pcRun, h1, Option.bind_some]; exact h4, h5⟩
    have hskip : CellsOk s.cells (pcFresh as).length := cellsOk_mono hW (by omega)
    cases a with
    | createOffer ap =>
      simp only [pcStep]
      cases he : (Signaling.createOffer s.neg s.created.length).err with
      | some _ => exact ⟨s, rfl, hskip, hI⟩
      | none => exact pcGenerate_spec B _ s ap _ hf1 hB hW hI
    | createAnswer ap =>
      simp only [pcStep]
      cases he : (Signaling.createAnswer s.neg s.created.length).err with
      | some _ => exact ⟨s, rfl, hskip, hI⟩
      | none => exact pcGenerate_spec B _ s ap _ hf1 hB hW hI
    | setLocal d => exact ⟨_, rfl, hskip, hI⟩
    | setRemote d => exact ⟨_, rfl, hskip, hI⟩
    | close => exact ⟨_, rfl, hskip, hI⟩

end WebrtcVerif.Origin
