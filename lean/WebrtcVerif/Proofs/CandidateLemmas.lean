import WebrtcVerif.Model.Candidate
/-! Helper lemmas for C25 (core Lean only). -/
namespace WebrtcVerif.Candidate

/-! ### exportExtensions ∘ setExtensions -/

/-- an extension token: no space inside -/
def NoSp (s : Str) : Prop := ' ' ∉ s

theorem exportGo_skip (w : Str) (hw : NoSp w) (t cur key : Str) :
    exportCalls.go (w ++ ' ' :: t) cur key = exportCalls.go (' ' :: t) (cur ++ w) key := by
  induction w generalizing cur with
  | nil => simp
  | cons c w ih =>
    have hc : c ≠ ' ' := by intro h; exact hw (by simp [h])
    have hw' : NoSp w := fun h => hw (List.mem_cons_of_mem _ h)
    have hne : w ++ ' ' :: t ≠ [] := by simp
    rw [List.cons_append, exportCalls.go]
    simp only [hc, if_false, hne]
    rw [ih hw']
    simp

theorem exportGo_last (w : Str) (hw : NoSp w) (hne : w ≠ []) (cur key : Str) :
    exportCalls.go w cur key = if key ≠ [] then [⟨key, cur ++ w⟩] else [⟨cur ++ w, []⟩] := by
  induction w generalizing cur with
  | nil => exact absurd rfl hne
  | cons c w ih =>
    have hc : c ≠ ' ' := by intro h; exact hw (by simp [h])
    have hw' : NoSp w := fun h => hw (List.mem_cons_of_mem _ h)
    rw [exportCalls.go]
    simp only [hc, if_false]
    by_cases hwn : w = []
    · subst hwn; simp
    · simp only [hwn, if_false]
      rw [ih hw' hwn]
      simp

theorem setExtensions_ne_nil (e : Ext) (es : List Ext) : setExtensions (e :: es) ≠ [] := by
  cases es <;> simp [setExtensions]

/-- `k v` at the head of an extension string, followed by more: one call, then the rest. -/
theorem exportGo_pair_more (k v t : Str) (hk : NoSp k) (hkne : k ≠ []) (hv : NoSp v) :
    exportCalls.go (k ++ ' ' :: v ++ ' ' :: t) [] [] = ⟨k, v⟩ :: exportCalls.go t [] [] := by
  have : k ++ ' ' :: v ++ ' ' :: t = k ++ ' ' :: (v ++ ' ' :: t) := by simp
  rw [this, exportGo_skip k hk, exportCalls.go]
  have h1 : v ++ ' ' :: t ≠ [] := by simp
  simp only [if_true, List.nil_append, h1, if_false, ne_eq, not_true_eq_false]
  rw [exportGo_skip v hv, exportCalls.go]
  simp [hkne]

theorem exportGo_pair_last (k v : Str) (hk : NoSp k) (hkne : k ≠ []) (hv : NoSp v) :
    exportCalls.go (k ++ ' ' :: v) [] [] = [⟨k, v⟩] := by
  rw [exportGo_skip k hk, exportCalls.go]
  by_cases hvn : v = []
  · subst hvn; simp
  · simp only [if_true, List.nil_append, hvn, if_false, ne_eq, not_true_eq_false]
    rw [exportGo_last v hv hvn]
    simp [hkne]

/-- the ICE grammar's condition on an extension list: names non-empty, no space in names or values -/
def ExtsOK (l : List Ext) : Prop := ∀ e ∈ l, e.key ≠ [] ∧ NoSp e.key ∧ NoSp e.value

theorem exportCalls_setExtensions (l : List Ext) (h : ExtsOK l) : exportCalls (setExtensions l) = l := by
  unfold exportCalls
  induction l with
  | nil => simp [setExtensions, exportCalls.go]
  | cons e es ih =>
    obtain ⟨hkne, hk, hv⟩ := h e (by simp)
    cases es with
    | nil => simpa [setExtensions] using exportGo_pair_last e.key e.value hk hkne hv
    | cons e' rest =>
      have ih' := ih (fun x hx => h x (List.mem_cons_of_mem _ hx))
      have : setExtensions (e :: e' :: rest) = e.key ++ ' ' :: e.value ++ ' ' :: setExtensions (e' :: rest) := by
        simp [setExtensions]
      rw [this, exportGo_pair_more e.key e.value _ hk hkne hv, ih']

/-! ### AddExtension -/

theorem newTCPType_str (t : TcpType) : newTCPType t.str = t := by
  cases t <;> decide

theorem tcpStr_noSp (t : TcpType) : NoSp t.str := by
  cases t <;> simp [NoSp, TcpType.str]

theorem addExtension_tcptype (c : IceCand) (t : TcpType) (ht : t ≠ .unspecified) :
    c.addExtension ⟨tcptypeKey, t.str⟩ = .ok { c with tcp := t } := by
  simp [IceCand.addExtension, newTCPType_str, ht]

theorem addExtension_fresh (c : IceCand) (e : Ext) (h1 : e.key ≠ tcptypeKey) (h2 : e.key ≠ [])
    (h3 : ∀ x ∈ c.exts, x.key ≠ e.key) :
    c.addExtension e = .ok { c with exts := c.exts ++ [e] } := by
  have : c.exts.any (fun x => decide (x.key = e.key)) = false := by
    simp only [List.any_eq_false, decide_eq_true_eq]
    exact h3
  simp [IceCand.addExtension, h1, h2, this]

theorem addAll_fresh (l : List Ext) (c : IceCand)
    (hk : ∀ e ∈ l, e.key ≠ [] ∧ e.key ≠ tcptypeKey)
    (hnd : (l.map (·.key)).Nodup)
    (hdisj : ∀ e ∈ l, ∀ x ∈ c.exts, x.key ≠ e.key) :
    c.addAll l = .ok { c with exts := c.exts ++ l } := by
  induction l generalizing c with
  | nil => simp [IceCand.addAll]
  | cons e es ih =>
    obtain ⟨hne, htc⟩ := hk e (by simp)
    rw [IceCand.addAll, addExtension_fresh c e htc hne (hdisj e (by simp))]
    simp only
    simp only [List.map_cons, List.nodup_cons] at hnd
    rw [ih _ (fun x hx => hk x (List.mem_cons_of_mem _ hx)) hnd.2]
    · simp
    · intro e' he' x hx
      simp only [List.mem_append, List.mem_singleton] at hx
      rcases hx with hx | hx
      · exact hdisj e' (List.mem_cons_of_mem _ he') x hx
      · subst hx
        intro heq
        exact hnd.1 (by rw [heq]; exact List.mem_map_of_mem he')

/-! ### the domain of C25 and the recorded findings -/

def IceTok (f : Str) : Prop := f ≠ [] ∧ f.length ≤ 32 ∧ ∀ c ∈ f, isIceChar c = true

def ExtTok (s : Str) : Prop := NoSp s ∧ ∀ c ∈ s, isByteChar c = true

/-- a related address exactly on the non-host types, as a token with a 16-bit port -/
def RelOK : CandType → Option (Str × Nat) → Prop
  | .host, none => True
  | .host, some _ => False
  | _, none => False
  | _, some (a, p) => NoSp a ∧ p < 65536

/-- an extension named `raddr` right after the candidate type would be read as the related address -/
def HeadOK : List Ext → Prop
  | [] => True
  | e :: _ => e.key ≠ chars!"raddr"

/-- "Every ICE candidate pion can represent" that the candidate-attribute grammar, as pion/ice reads it, can
    write down: accessor values within their wire ranges, an address its constructor accepts, a related
    address exactly on the non-host types, extension names/values that are byte-strings. -/
def WF (c : IceCand) : Prop :=
  (c.foundation = [' '] ∨ IceTok c.foundation)
  ∧ c.component < 65536
  ∧ (0 < c.priority ∧ c.priority < 4294967296)
  ∧ c.port < 65536
  ∧ (NoSp c.address ∧ '%' ∉ c.address)
  ∧ (if c.typ = .host ∧ isNameAddress c.address = true then c.net.short = .udp else (parseAddr c.address).isSome = true)
  ∧ RelOK c.typ c.related
  ∧ (∀ e ∈ c.exts, e.key ≠ [] ∧ e.key ≠ tcptypeKey ∧ ExtTok e.key ∧ ExtTok e.value)
  ∧ (c.tcp = .unspecified → HeadOK c.exts)

/-- the related address is one pion/ice's Marshal writes (both parts non-zero) or the all-zero one it
    reads back when nothing was written -/
def RelWritten : Option (Str × Nat) → Prop
  | some (a, p) => (a ≠ [] ∧ p ≠ 0) ∨ (a = [] ∧ p = 0)
  | none => True

/-- The three recorded findings, excluded exactly: a repeated extension name; a related address that
    pion/ice's Marshal does not write (port 0 or empty address, unless both); a TCP type on a non-host
    candidate (dropped by pion/ice's UnmarshalCandidate). -/
def NoFinding (c : IceCand) : Prop :=
  (c.exts.map (·.key)).Nodup
  ∧ RelWritten c.related
  ∧ (c.tcp ≠ .unspecified → c.typ = .host)

instance (s : Str) : Decidable (NoSp s) := inferInstanceAs (Decidable (' ' ∉ s))
instance (s : Str) : Decidable (IceTok s) := inferInstanceAs (Decidable (_ ∧ _ ∧ _))
instance (s : Str) : Decidable (ExtTok s) := inferInstanceAs (Decidable (_ ∧ _))
instance : (t : CandType) → (r : Option (Str × Nat)) → Decidable (RelOK t r)
  | .host, none => inferInstanceAs (Decidable True)
  | .host, some _ => inferInstanceAs (Decidable False)
  | .srflx, none => inferInstanceAs (Decidable False)
  | .prflx, none => inferInstanceAs (Decidable False)
  | .relay, none => inferInstanceAs (Decidable False)
  | .srflx, some (a, p) => inferInstanceAs (Decidable (NoSp a ∧ p < 65536))
  | .prflx, some (a, p) => inferInstanceAs (Decidable (NoSp a ∧ p < 65536))
  | .relay, some (a, p) => inferInstanceAs (Decidable (NoSp a ∧ p < 65536))
instance : (l : List Ext) → Decidable (HeadOK l)
  | [] => inferInstanceAs (Decidable True)
  | e :: _ => inferInstanceAs (Decidable (e.key ≠ chars!"raddr"))
instance : (r : Option (Str × Nat)) → Decidable (RelWritten r)
  | some (a, p) => inferInstanceAs (Decidable ((a ≠ [] ∧ p ≠ 0) ∨ (a = [] ∧ p = 0)))
  | none => inferInstanceAs (Decidable True)
instance (c : IceCand) : Decidable (WF c) := inferInstanceAs (Decidable (_ ∧ _ ∧ _ ∧ _ ∧ _ ∧ _ ∧ _ ∧ _ ∧ _))
instance (c : IceCand) : Decidable (NoFinding c) := inferInstanceAs (Decidable (_ ∧ _ ∧ _))

/-- the network type `NewCandidate*` derives from the short protocol name and the address -/
def canonNet (typ : CandType) (proto : Proto) (address : Str) : NetType :=
  if typ = .host ∧ isNameAddress address = true then .udp4
  else match parseAddr address, proto with
    | some .v4, .udp => .udp4 | some .v4, .tcp => .tcp4
    | some .v6, .udp => .udp6 | some .v6, .tcp => .tcp6
    | none, _ => .udp4

/-- what a candidate looks like after being rebuilt from its own accessor values: same observable
    fields, overrides filled in, relay preference of an unknown relay protocol -/
def canon (c : IceCand) : IceCand :=
  { c with net := canonNet c.typ c.net.short c.address, foundationOverride := c.foundation,
           priorityOverride := c.priority, relayPref := 3 }

/-! ### ToICE ∘ newICECandidateFromICE -/

theorem determine_proto (p : Proto) (k : AddrKind) :
    determineNetworkType p.str k = .ok (match k, p with
      | .v4, .udp => .udp4 | .v4, .tcp => .tcp4 | .v6, .udp => .udp6 | .v6, .tcp => .tcp6) := by
  cases p <;> cases k <;> rfl

theorem wproto_str (p : Proto) : (WProto.ofICE p).str = p.str := by cases p <;> rfl

theorem extensions_ok (c : IceCand) (h : WF c) : ExtsOK c.extensions := by
  obtain ⟨_, _, _, _, _, _, _, hexts, _⟩ := h
  intro e he
  simp only [IceCand.extensions, List.mem_append] at he
  rcases he with he | he
  · split at he
    · simp only [List.mem_singleton] at he
      subst he
      exact ⟨(by decide : tcptypeKey ≠ []), (by decide : NoSp tcptypeKey), tcpStr_noSp _⟩
    · simp at he
  · obtain ⟨h1, _, h3, h4⟩ := hexts e he
    exact ⟨h1, h3.1, h4.1⟩

/-- the AddExtension calls of `exportExtensions` rebuild TCP type and extension list -/
theorem addAll_extensions (c : IceCand) (base : IceCand) (h : WF c) (hnd : (c.exts.map (·.key)).Nodup)
    (hb : base.exts = []) (htcp : base.tcp = c.tcp ∨ base.tcp = .unspecified) :
    base.addAll c.extensions = .ok { base with tcp := c.tcp, exts := c.exts } := by
  obtain ⟨_, _, _, _, _, _, _, hexts, _⟩ := h
  have hk : ∀ e ∈ c.exts, e.key ≠ [] ∧ e.key ≠ tcptypeKey := fun e he => ⟨(hexts e he).1, (hexts e he).2.1⟩
  unfold IceCand.extensions
  by_cases ht : c.tcp = .unspecified
  · simp only [ht, ne_eq, not_true_eq_false, if_false, List.nil_append]
    rw [addAll_fresh c.exts base hk hnd (by simp [hb])]
    rcases htcp with h1 | h1 <;> simp [hb, h1, ht]
  · simp only [ne_eq, ht, not_false_eq_true, if_true, List.singleton_append]
    rw [IceCand.addAll, addExtension_tcptype base c.tcp ht]
    simp only
    rw [addAll_fresh c.exts _ hk hnd (by simp [hb])]
    simp [hb]



theorem newCandidate_canon (typ : CandType) (p : Proto) (address : Str) (port comp prio : Nat) (found : Str)
    (tcp : TcpType) (ra : Str) (rp relayPref : Nat)
    (hv : if typ = .host ∧ isNameAddress address = true then True else (parseAddr address).isSome = true) :
    newCandidate { typ := typ, network := p.str, address := address, port := port, component := comp,
                   priority := prio, foundation := found, tcp := tcp, relAddr := ra, relPort := rp,
                   relayPref := relayPref } =
      .ok { typ := typ, net := canonNet typ p address, address := address, port := port, component := comp,
            foundationOverride := found, priorityOverride := prio,
            related := if typ = .host then none else some (ra, rp),
            tcp := if typ = .host then tcp else .unspecified,
            relayPref := if typ = .relay then relayPref else 3, exts := [] } := by
  by_cases hn : typ = .host ∧ isNameAddress address = true
  · obtain ⟨rfl, hn⟩ := hn
    simp [newCandidate, hn, canonNet]
  · simp only [hn, if_false] at hv
    obtain ⟨k, hk⟩ := Option.isSome_iff_exists.mp hv
    cases typ with
    | host =>
      have hn' : isNameAddress address = false := by simpa using hn
      simp only [newCandidate, hn', hk, determine_proto, canonNet]
      cases k <;> cases p <;> simp
    | srflx => simp only [newCandidate, hk, determine_proto, canonNet]; cases k <;> cases p <;> simp
    | prflx => simp only [newCandidate, hk, determine_proto, canonNet]; cases k <;> cases p <;> simp
    | relay => simp only [newCandidate, hk, determine_proto, canonNet]; cases k <;> cases p <;> simp



theorem wf_valid (c : IceCand) (h : WF c) :
    if c.typ = .host ∧ isNameAddress c.address = true then True else (parseAddr c.address).isSome = true := by
  obtain ⟨_, _, _, _, _, hvalid, _⟩ := h
  split
  · trivial
  · rename_i hn; simpa [hn] using hvalid

theorem toICE_fromICE (c : IceCand) (h : WF c) (hnd : (c.exts.map (·.key)).Nodup) :
    (fromICE c).toICE = .ok (canon c) := by
  have hext := exportCalls_setExtensions c.extensions (extensions_ok c h)
  have hv := wf_valid c h
  have hadd := fun base hb htcp => addAll_extensions c base h hnd hb htcp
  obtain ⟨hf, hcomp, hprio, hport, haddr, hvalid, hrel, hexts, hfirst⟩ := h
  have hp : c.port % 65536 = c.port := Nat.mod_eq_of_lt hport
  cases htyp : c.typ <;> cases hrelv : c.related <;> simp only [htyp, hrelv, RelOK] at hrel
  all_goals
    rw [htyp] at hv
    simp only [ICECandidate.toICE, fromICE, htyp, hrelv, WType.ofICE, wproto_str, hext, newTCPType_str]
    rw [newCandidate_canon _ _ _ _ _ _ _ _ _ _ _ hv]
    simp only
    rw [hadd _ rfl (by simp)]
    simp only [canon, hp, htyp]
  · cases c; simp_all
  all_goals
    rename_i val
    obtain ⟨a, p⟩ := val
    simp only at hrel
    cases c
    simp_all [Nat.mod_eq_of_lt hrel.2]


/-! ### token readers of UnmarshalCandidate -/
theorem readString_sp (t r : Str) (h : NoSp t) : readString (t ++ ' ' :: r) = (t, r) := by
  induction t with
  | nil => simp [readString]
  | cons c t ih =>
    have hc : c ≠ ' ' := by intro e; exact h (by simp [e])
    have ht : NoSp t := fun m => h (List.mem_cons_of_mem _ m)
    simp [readString, hc, ih ht]

theorem readString_end (t : Str) (h : NoSp t) : readString t = (t, []) := by
  induction t with
  | nil => simp [readString]
  | cons c t ih =>
    have hc : c ≠ ' ' := by intro e; exact h (by simp [e])
    have ht : NoSp t := fun m => h (List.mem_cons_of_mem _ m)
    simp [readString, hc, ih ht]

theorem iceChar_ne_sp (c : Char) (h : isIceChar c = true) : c ≠ ' ' := by
  intro e; subst e; revert h; decide

theorem readCharToken_sp (limit : Nat) (f r : Str) (i : Nat) (hf : ∀ c ∈ f, isIceChar c = true)
    (hl : i + f.length ≤ limit) : readCharToken limit (f ++ ' ' :: r) i = some (f, r) := by
  induction f generalizing i with
  | nil => simp [readCharToken]
  | cons c f ih =>
    have hc := hf c (by simp)
    have hsp := iceChar_ne_sp c hc
    have hi : i ≠ limit := by simp at hl; omega
    rw [List.cons_append, readCharToken]
    simp only [hsp, if_false, hi, hc, Bool.not_true]
    rw [ih (i + 1) (fun x hx => hf x (List.mem_cons_of_mem _ hx)) (by simp at hl ⊢; omega)]
    simp

theorem digit_ne_sp (c : Char) (h : c.isDigit = true) : c ≠ ' ' := by
  intro e; subst e; revert h; decide

theorem readDigits_sp (limit : Nat) (ds r : Str) (i val : Nat) (hd : ∀ c ∈ ds, c.isDigit = true)
    (hl : i + ds.length ≤ limit) :
    readDigits limit (ds ++ ' ' :: r) i val = some (Nat.ofDigitChars 10 ds val, r) := by
  induction ds generalizing i val with
  | nil => simp [readDigits]
  | cons c ds ih =>
    have hc := hd c (by simp)
    have hsp := digit_ne_sp c hc
    have hi : i ≠ limit := by simp at hl; omega
    rw [List.cons_append, readDigits]
    simp only [hsp, if_false, hi, hc, Bool.not_true]
    rw [ih (i + 1) _ (fun x hx => hd x (List.mem_cons_of_mem _ hx)) (by simp at hl ⊢; omega)]
    simp [Nat.ofDigitChars_cons]

theorem readDigits_end (limit : Nat) (ds : Str) (i val : Nat) (hd : ∀ c ∈ ds, c.isDigit = true)
    (hl : i + ds.length ≤ limit) :
    readDigits limit ds i val = some (Nat.ofDigitChars 10 ds val, []) := by
  induction ds generalizing i val with
  | nil => simp [readDigits]
  | cons c ds ih =>
    have hc := hd c (by simp)
    have hsp := digit_ne_sp c hc
    have hi : i ≠ limit := by simp at hl; omega
    rw [readDigits]
    simp only [hsp, if_false, hi, hc, Bool.not_true]
    rw [ih (i + 1) _ (fun x hx => hd x (List.mem_cons_of_mem _ hx)) (by simp at hl ⊢; omega)]
    simp [Nat.ofDigitChars_cons]

theorem natStr_digits (n : Nat) : ∀ c ∈ natStr n, c.isDigit = true :=
  fun _ hc => Nat.isDigit_of_mem_toDigits (by decide) (by decide) hc

theorem natStr_len (n k : Nat) (hk : 0 < k) (h : n < 10 ^ k) : (natStr n).length ≤ k :=
  (Nat.length_toDigits_le_iff (by decide) hk).mpr h

theorem natStr_ne_nil (n : Nat) : natStr n ≠ [] := Nat.toDigits_ne_nil

theorem natStr_noSp (n : Nat) : NoSp (natStr n) := fun h => digit_ne_sp _ (natStr_digits n _ h) rfl

theorem readDigits_natStr_sp (limit n : Nat) (r : Str) (hl : 0 < limit) (h : n < 10 ^ limit) :
    readDigits limit (natStr n ++ ' ' :: r) 0 0 = some (n, r) := by
  rw [readDigits_sp limit _ r 0 0 (natStr_digits n) (by simpa using natStr_len n limit hl h)]
  simp [natStr]

theorem readDigits_natStr_end (limit n : Nat) (hl : 0 < limit) (h : n < 10 ^ limit) :
    readDigits limit (natStr n) 0 0 = some (n, []) := by
  rw [readDigits_end limit _ 0 0 (natStr_digits n) (by simpa using natStr_len n limit hl h)]
  simp [natStr]

/-! ### extension parser -/
theorem readByteString_sp (t r : Str) (h : ExtTok t) : readByteString (t ++ ' ' :: r) = some (t, r) := by
  induction t with
  | nil => simp [readByteString]
  | cons c t ih =>
    have hc : c ≠ ' ' := by intro e; exact h.1 (by simp [e])
    have hb := h.2 c (by simp)
    have ht : ExtTok t := ⟨fun m => h.1 (List.mem_cons_of_mem _ m), fun x hx => h.2 x (List.mem_cons_of_mem _ hx)⟩
    rw [List.cons_append, readByteString]
    simp [hc, hb, ih ht]

theorem readByteString_end (t : Str) (h : ExtTok t) : readByteString t = some (t, []) := by
  induction t with
  | nil => simp [readByteString]
  | cons c t ih =>
    have hc : c ≠ ' ' := by intro e; exact h.1 (by simp [e])
    have hb := h.2 c (by simp)
    have ht : ExtTok t := ⟨fun m => h.1 (List.mem_cons_of_mem _ m), fun x hx => h.2 x (List.mem_cons_of_mem _ hx)⟩
    rw [readByteString]
    simp [hc, hb, ih ht]

/-- extension lists whose names and values are byte-string tokens, names non-empty -/
def ExtsTok (l : List Ext) : Prop := ∀ e ∈ l, e.key ≠ [] ∧ ExtTok e.key ∧ ExtTok e.value

/-- what the parser's loop makes of a list: non-tcptype entries appended, last tcptype value kept -/
def splitTcp : List Ext → List Ext → Str → List Ext × Str
  | [], acc, t => (acc, t)
  | e :: es, acc, t => if e.key = tcptypeKey then splitTcp es acc e.value else splitTcp es (acc ++ [e]) t

theorem setExtensions_length_cons (e e' : Ext) (rest : List Ext) :
    (setExtensions (e :: e' :: rest)).length = e.key.length + 1 + e.value.length + 1 + (setExtensions (e' :: rest)).length := by
  simp [setExtensions]; omega

theorem unmarshalExtsGo_set (l : List Ext) (h : ExtsTok l) (fuel : Nat) (acc : List Ext) (t : Str)
    (hf : (setExtensions l).length ≤ fuel) :
    unmarshalExts.go fuel (setExtensions l) acc t = some (splitTcp l acc t) := by
  induction l generalizing fuel acc t with
  | nil => cases fuel <;> simp [setExtensions, unmarshalExts.go, splitTcp]
  | cons e es ih =>
    obtain ⟨hkne, hk, hv⟩ := h e (by simp)
    have hes : ExtsTok es := fun x hx => h x (List.mem_cons_of_mem _ hx)
    obtain ⟨c0, k', hk0⟩ := List.exists_cons_of_ne_nil hkne
    cases es with
    | nil =>
      cases fuel with
      | zero => simp [setExtensions, hk0] at hf
      | succ fuel =>
        have hraw : setExtensions [e] = c0 :: (k' ++ ' ' :: e.value) := by simp [setExtensions, hk0]
        rw [hraw, unmarshalExts.go]
        have : c0 :: (k' ++ ' ' :: e.value) = e.key ++ ' ' :: e.value := by simp [hk0]
        rw [this, readByteString_sp _ _ hk]
        simp only
        by_cases hvn : e.value = []
        · simp only [hvn, if_true]
          by_cases htk : e.key = tcptypeKey
          · cases fuel <;> simp [htk, unmarshalExts.go, splitTcp, hvn]
          · have he : (⟨e.key, []⟩ : Ext) = e := by cases e; simp only at hvn; subst hvn; rfl
            cases fuel <;> simp [htk, unmarshalExts.go, splitTcp] <;> exact he
        · simp only [hvn, if_false, readByteString_end _ hv]
          by_cases htk : e.key = tcptypeKey
          · cases fuel <;> simp [htk, unmarshalExts.go, splitTcp]
          · cases fuel <;> simp [htk, unmarshalExts.go, splitTcp]
    | cons e' rest =>
      cases fuel with
      | zero => simp [setExtensions, hk0] at hf
      | succ fuel =>
        have hlen := setExtensions_length_cons e e' rest
        have hraw : setExtensions (e :: e' :: rest) = c0 :: (k' ++ ' ' :: (e.value ++ ' ' :: setExtensions (e' :: rest))) := by
          simp [setExtensions, hk0]
        rw [hraw, unmarshalExts.go]
        have : c0 :: (k' ++ ' ' :: (e.value ++ ' ' :: setExtensions (e' :: rest)))
            = e.key ++ ' ' :: (e.value ++ ' ' :: setExtensions (e' :: rest)) := by simp [hk0]
        rw [this, readByteString_sp _ _ hk]
        simp only
        have hne : e.value ++ ' ' :: setExtensions (e' :: rest) ≠ [] := by simp
        simp only [hne, if_false, readByteString_sp _ _ hv]
        have hfuel : (setExtensions (e' :: rest)).length ≤ fuel := by omega
        by_cases htk : e.key = tcptypeKey
        · simp only [htk, if_true]
          rw [ih hes fuel acc e.value hfuel]
          simp [splitTcp, htk]
        · simp only [htk, if_false]
          rw [ih hes fuel (acc ++ [e]) t hfuel]
          simp [splitTcp, htk]

theorem setExtensions_head_ne_sp (e : Ext) (es : List Ext) (hk : e.key ≠ []) (hs : NoSp e.key) :
    ∃ c r, setExtensions (e :: es) = c :: r ∧ c ≠ ' ' := by
  obtain ⟨c0, k', hk0⟩ := List.exists_cons_of_ne_nil hk
  have hc : c0 ≠ ' ' := by intro e'; exact hs (by simp [hk0, e'])
  cases es with
  | nil => exact ⟨c0, k' ++ ' ' :: e.value, by simp [setExtensions, hk0], hc⟩
  | cons e' rest =>
    exact ⟨c0, k' ++ ' ' :: (e.value ++ ' ' :: setExtensions (e' :: rest)), by simp [setExtensions, hk0], hc⟩

theorem unmarshalExts_set (l : List Ext) (h : ExtsTok l) :
    unmarshalExts (setExtensions l) = some (splitTcp l [] []) := by
  cases l with
  | nil => simp [setExtensions, unmarshalExts, splitTcp]
  | cons e es =>
    obtain ⟨hkne, hk, _⟩ := h e (by simp)
    obtain ⟨c, r, hcr, hc⟩ := setExtensions_head_ne_sp e es hkne hk.1
    have := unmarshalExtsGo_set (e :: es) h (setExtensions (e :: es)).length [] [] (Nat.le_refl _)
    rw [hcr] at this ⊢
    unfold unmarshalExts
    split
    · rename_i heq; cases heq
    · rename_i heq; injection heq with h1; exact absurd h1 hc
    · exact this

/-! ### Marshal pieces -/
theorem marshalExtensions_foldl (l : List Ext) (acc : Str) (ha : acc ≠ []) :
    l.foldl (fun value e => (if value ≠ [] then value ++ [' '] else value) ++ e.key ++ ' ' :: e.value) acc
      = acc ++ (if l = [] then [] else ' ' :: setExtensions l) := by
  induction l generalizing acc with
  | nil => simp
  | cons e es ih =>
    rw [List.foldl_cons, ih _ (by simp)]
    cases es with
    | nil => simp [ha, setExtensions]
    | cons e' rest => simp [ha, setExtensions]

theorem marshalExtensions_eq (l : List Ext) : marshalExtensions l = setExtensions l := by
  cases l with
  | nil => rfl
  | cons e es =>
    unfold marshalExtensions
    rw [List.foldl_cons]
    simp only [ne_eq, not_true_eq_false, if_false, List.nil_append]
    rw [marshalExtensions_foldl es _ (by simp)]
    cases es <;> simp [setExtensions]

theorem removeZone_id (a : Str) (h : '%' ∉ a) : removeZone a = a := by
  unfold removeZone
  induction a with
  | nil => rfl
  | cons c a ih =>
    have hc : c ≠ '%' := by intro e; exact h (by simp [e])
    have := ih (fun m => h (List.mem_cons_of_mem _ m))
    simp only [List.takeWhile, ne_eq, hc, not_false_eq_true, decide_true, List.cons.injEq, true_and]
    exact this

theorem prefix_append_cons (p t r : Str) (x : Char) (hx : x ∉ p)
    (h : p <+: t ++ x :: r) : ∃ s, t = p ++ s := by
  induction p generalizing t with
  | nil => exact ⟨t, rfl⟩
  | cons a p ih =>
    cases t with
    | nil =>
      simp only [List.nil_append, List.cons_prefix_cons] at h
      exact absurd (by simp [h.1]) hx
    | cons b t =>
      simp only [List.cons_append, List.cons_prefix_cons] at h
      obtain ⟨s, hs⟩ := ih t (fun m => hx (List.mem_cons_of_mem _ m)) h.2
      exact ⟨s, by simp [h.1, hs]⟩

theorem stripPrefix_token (f r : Str) (hf : ∀ c ∈ f, isIceChar c = true) :
    stripPrefix candidatePrefix (f ++ ' ' :: r) = f ++ ' ' :: r := by
  unfold stripPrefix
  split
  · rename_i h
    obtain ⟨s, hs⟩ := prefix_append_cons candidatePrefix f r ' ' (by decide) (List.isPrefixOf_iff_prefix.mp h)
    have : ':' ∈ f := by rw [hs]; simp [candidatePrefix]
    exact absurd (hf _ this) (by decide)
  · rfl

theorem stripPrefix_prefix (m : Str) : stripPrefix candidatePrefix (candidatePrefix ++ m) = m := by
  simp [stripPrefix, candidatePrefix, List.isPrefixOf]

/-! ### UnmarshalCandidate ∘ Marshal -/
def relBody (a : Str) (p : Nat) : Str := chars!"raddr" ++ ' ' :: (a ++ ' ' :: (chars!"rport" ++ ' ' :: natStr p))

def relPart (o : Obs) : Str := match o.related with
  | some (a, p) => if a ≠ [] ∧ p ≠ 0 then ' ' :: relBody a p else []
  | none => []

def extPart (o : Obs) : Str := if o.extensions = [] then [] else ' ' :: setExtensions o.extensions

theorem setExtensions_eq_nil (l : List Ext) : setExtensions l = [] ↔ l = [] := by
  cases l with
  | nil => simp [setExtensions]
  | cons e es => simp [setExtensions_ne_nil]

theorem marshal_nf (o : Obs) : o.marshal =
    (if o.foundation = [' '] then [] else o.foundation) ++ ' ' :: (natStr o.component ++ ' ' :: (o.proto.str ++ ' ' ::
      (natStr o.priority ++ ' ' :: (removeZone o.address ++ ' ' :: (natStr o.port ++ ' ' :: 't' :: 'y' :: 'p' :: ' ' ::
        (o.typ.str ++ (relPart o ++ extPart o))))))) := by
  unfold Obs.marshal relPart extPart relBody
  rw [marshalExtensions_eq]
  rcases hr : o.related with _ | ⟨a, p⟩
  · by_cases he : o.extensions = [] <;> simp [he, setExtensions_eq_nil, List.append_assoc]
  · by_cases hap : a ≠ [] ∧ p ≠ 0 <;> by_cases he : o.extensions = [] <;>
      simp [hap, he, setExtensions_eq_nil, List.append_assoc]



theorem tryRead_none (s : Str) (hs : (readString s).1 ≠ chars!"raddr") :
    tryReadRelativeAddrs s = some ([], 0, s) := by
  unfold tryReadRelativeAddrs
  simp [hs]

theorem readPort_natStr_sp (p : Nat) (r : Str) (hp : p < 65536) :
    readPort (natStr p ++ ' ' :: r) = some (p, r) := by
  unfold readPort
  rw [readDigits_natStr_sp 5 p r (by decide) (by omega)]
  simp; omega

theorem readPort_natStr_end (p : Nat) (hp : p < 65536) : readPort (natStr p) = some (p, []) := by
  unfold readPort
  rw [readDigits_natStr_end 5 p (by decide) (by omega)]
  simp; omega

theorem tryRead_rel_sp (a : Str) (p : Nat) (r : Str) (ha : NoSp a) (hp : p < 65536) :
    tryReadRelativeAddrs (relBody a p ++ ' ' :: r) = some (a, p, r) := by
  unfold tryReadRelativeAddrs relBody
  have e1 : (chars!"raddr" ++ ' ' :: (a ++ ' ' :: (chars!"rport" ++ ' ' :: natStr p))) ++ ' ' :: r
      = chars!"raddr" ++ ' ' :: (a ++ ' ' :: (chars!"rport" ++ ' ' :: (natStr p ++ ' ' :: r))) := by simp
  rw [e1, readString_sp _ _ (by decide)]
  simp only [ne_eq, not_true_eq_false, if_false]
  rw [readString_sp _ _ ha]
  simp only [List.append_eq_nil_iff, reduceCtorEq, and_false, if_false]
  rw [readString_sp _ _ (by decide)]
  simp only [not_true_eq_false, if_false, List.append_eq_nil_iff, reduceCtorEq, and_false]
  rw [readPort_natStr_sp p r hp]

theorem tryRead_rel_end (a : Str) (p : Nat) (ha : NoSp a) (hp : p < 65536) :
    tryReadRelativeAddrs (relBody a p) = some (a, p, []) := by
  unfold tryReadRelativeAddrs relBody
  rw [readString_sp _ _ (by decide)]
  simp only [ne_eq, not_true_eq_false, if_false]
  rw [readString_sp _ _ ha]
  simp only [List.append_eq_nil_iff, reduceCtorEq, and_false, if_false]
  rw [readString_sp _ _ (by decide)]
  simp only [not_true_eq_false, if_false, natStr_ne_nil]
  rw [readPort_natStr_end p hp]

theorem splitTcp_plain (l acc : List Ext) (t : Str) (h : ∀ e ∈ l, e.key ≠ tcptypeKey) :
    splitTcp l acc t = (acc ++ l, t) := by
  induction l generalizing acc with
  | nil => simp [splitTcp]
  | cons e es ih =>
    rw [splitTcp]
    simp only [h e (by simp), if_false]
    rw [ih _ (fun x hx => h x (List.mem_cons_of_mem _ hx))]
    simp

theorem tcpStr_extTok (t : TcpType) : ExtTok t.str := by cases t <;> decide

theorem extensions_tok (c : IceCand) (h : WF c) : ExtsTok c.extensions := by
  obtain ⟨_, _, _, _, _, _, _, hexts, _⟩ := h
  intro e he
  simp only [IceCand.extensions, List.mem_append] at he
  rcases he with he | he
  · split at he
    · simp only [List.mem_singleton] at he
      subst he
      exact ⟨(by decide : tcptypeKey ≠ []), (by decide : ExtTok tcptypeKey), tcpStr_extTok _⟩
    · simp at he
  · obtain ⟨h1, _, h3, h4⟩ := hexts e he
    exact ⟨h1, h3, h4⟩

theorem splitTcp_extensions (c : IceCand) (h : WF c) :
    splitTcp c.extensions [] [] = (c.exts, c.tcp.str) := by
  obtain ⟨_, _, _, _, _, _, _, hexts, _⟩ := h
  have hk : ∀ e ∈ c.exts, e.key ≠ tcptypeKey := fun e he => (hexts e he).2.1
  unfold IceCand.extensions
  by_cases ht : c.tcp = .unspecified
  · simp [ht, splitTcp_plain _ _ _ hk, TcpType.str]
  · simp [ht, splitTcp, splitTcp_plain _ _ _ hk]

/-- the first token of a non-empty extension string is the first extension's name -/
theorem readString_setExtensions (e : Ext) (es : List Ext) (hk : NoSp e.key) :
    (readString (setExtensions (e :: es))).1 = e.key := by
  cases es with
  | nil => simp [setExtensions, readString_sp _ _ hk]
  | cons e' rest =>
    have : setExtensions (e :: e' :: rest) = e.key ++ ' ' :: (e.value ++ ' ' :: setExtensions (e' :: rest)) := by
      simp [setExtensions]
    rw [this, readString_sp _ _ hk]



theorem typStr_noSp (t : CandType) : NoSp t.str := by cases t <;> decide

theorem head_key_ne_raddr (c : IceCand) (h : WF c) (e : Ext) (es : List Ext) (he : c.extensions = e :: es) :
    e.key ≠ chars!"raddr" := by
  obtain ⟨_, _, _, _, _, _, _, _, hfirst⟩ := h
  unfold IceCand.extensions at he
  by_cases ht : c.tcp = .unspecified
  · simp only [ht, ne_eq, not_true_eq_false, if_false, List.nil_append] at he
    have := hfirst ht; rw [he] at this; exact this
  · simp only [ne_eq, ht, not_false_eq_true, if_true, List.singleton_append, List.cons.injEq] at he
    rw [← he.1]; exact (by decide : tcptypeKey ≠ chars!"raddr")

theorem tail_after_typ (c : IceCand) (h : WF c) (hn : NoFinding c) :
    (readString (c.typ.str ++ (relPart c.obs ++ extPart c.obs))).1 = c.typ.str ∧
    ∃ ra rp rest, tryReadRelativeAddrs (readString (c.typ.str ++ (relPart c.obs ++ extPart c.obs))).2 = some (ra, rp, rest)
      ∧ (c.typ ≠ .host → c.related = some (ra, rp))
      ∧ unmarshalExts rest = some (c.exts, c.tcp.str) := by
  have hext := unmarshalExts_set c.extensions (extensions_tok c h)
  rw [splitTcp_extensions c h] at hext
  have hhead := head_key_ne_raddr c h
  have htok := extensions_tok c h
  obtain ⟨_, _, _, _, _, _, hrel, _, _⟩ := h
  obtain ⟨_, hnrel, _⟩ := hn
  have hts := typStr_noSp c.typ
  -- is the related address written?
  by_cases hem : ∃ a p, c.related = some (a, p) ∧ a ≠ [] ∧ p ≠ 0
  · obtain ⟨a, p, hr, ha, hp⟩ := hem
    have hrp : relPart c.obs = ' ' :: relBody a p := by simp [relPart, IceCand.obs, hr, ha, hp]
    have hwf : NoSp a ∧ p < 65536 := by
      cases ht : c.typ <;> simp only [ht, hr, RelOK] at hrel <;> first | exact hrel | exact absurd hrel id
    rcases hx : c.extensions with _ | ⟨e, es⟩
    · have hxp : extPart c.obs = [] := by simp [extPart, IceCand.obs, hx]
      rw [hrp, hxp, List.append_nil, readString_sp _ _ hts]
      refine ⟨rfl, a, p, [], tryRead_rel_end a p hwf.1 hwf.2, fun _ => hr, ?_⟩
      simpa [hx, setExtensions] using hext
    · have hxp : extPart c.obs = ' ' :: setExtensions (e :: es) := by simp [extPart, IceCand.obs, hx]
      rw [hrp, hxp, List.cons_append, readString_sp _ _ hts]
      refine ⟨rfl, a, p, setExtensions (e :: es), tryRead_rel_sp a p _ hwf.1 hwf.2, fun _ => hr, ?_⟩
      simpa [hx] using hext
  · have hrp : relPart c.obs = [] := by
      rcases hr : c.related with _ | ⟨a, p⟩
      · simp [relPart, IceCand.obs, hr]
      · have : ¬ (a ≠ [] ∧ p ≠ 0) := fun hh => hem ⟨a, p, hr, hh.1, hh.2⟩
        simp only [relPart, IceCand.obs, hr]
        simp only [this, if_false]
    have hrelv : c.typ ≠ .host → c.related = some ([], 0) := by
      intro hth
      rcases hr : c.related with _ | ⟨a, p⟩
      · cases ht : c.typ <;> simp only [ht, hr, RelOK] at hrel <;> first | exact absurd ht hth | exact absurd hrel id
      · simp only [hr, RelWritten] at hnrel
        rcases hnrel with hh | hh
        · exact absurd ⟨a, p, hr, hh.1, hh.2⟩ hem
        · simp [hh.1, hh.2]
    rcases hx : c.extensions with _ | ⟨e, es⟩
    · have hxp : extPart c.obs = [] := by simp [extPart, IceCand.obs, hx]
      rw [hrp, hxp, List.append_nil, List.append_nil, readString_end _ hts]
      refine ⟨rfl, [], 0, [], tryRead_none [] (by simp [readString]), hrelv, ?_⟩
      simpa [hx, setExtensions] using hext
    · have hxp : extPart c.obs = ' ' :: setExtensions (e :: es) := by simp [extPart, IceCand.obs, hx]
      rw [hrp, hxp, List.nil_append, readString_sp _ _ hts]
      have hk := (htok e (by simp [hx])).2.1.1
      refine ⟨rfl, [], 0, setExtensions (e :: es),
        tryRead_none _ (by rw [readString_setExtensions e es hk]; exact hhead e es hx), hrelv, ?_⟩
      simpa [hx] using hext



theorem candTypeOfStr_str (t : CandType) : candTypeOfStr t.str = some t := by cases t <;> decide

theorem unmarshalTail_ok (c : IceCand) (h : WF c) (hn : NoFinding c) (fnd : Str) :
    unmarshalTail fnd c.component c.net.short.str c.priority c.address c.port
        (c.typ.str ++ (relPart c.obs ++ extPart c.obs))
      = .ok { typ := c.typ, net := canonNet c.typ c.net.short c.address, address := c.address, port := c.port,
              component := c.component, foundationOverride := fnd, priorityOverride := c.priority,
              related := c.related, tcp := c.tcp, relayPref := 3, exts := c.exts } := by
  obtain ⟨htyp, ra, rp, rest, htr, hrelv, hue⟩ := tail_after_typ c h hn
  have hv := wf_valid c h
  obtain ⟨_, hcomp, hprio, _, _, _, hrel, _, _⟩ := h
  obtain ⟨_, _, hntcp⟩ := hn
  unfold unmarshalTail
  simp only [htyp, htr, hue, candTypeOfStr_str, newTCPType_str]
  have hcond : ¬ (c.tcp.str ≠ [] ∧ c.tcp = .unspecified) := by
    intro hh; rw [hh.2] at hh; exact hh.1 rfl
  simp only [hcond, if_false, Nat.mod_eq_of_lt hcomp, Nat.mod_eq_of_lt hprio.2]
  rw [newCandidate_canon _ _ _ _ _ _ _ _ _ _ _ hv]
  simp only [Except.ok.injEq, IceCand.mk.injEq, true_and, and_true, ite_self]
  refine ⟨?_, ?_⟩
  · by_cases hth : c.typ = .host
    · simp only [hth, if_true]
      rcases hr : c.related with _ | v
      · rfl
      · simp only [hth, hr, RelOK] at hrel
    · simp only [hth, if_false]; exact (hrelv hth).symm
  · by_cases hth : c.typ = .host
    · simp [hth]
    · simp only [hth, if_false]
      by_cases ht : c.tcp = .unspecified
      · exact ht.symm
      · exact absurd (hntcp ht) hth

theorem wf_foundation_ne_nil (c : IceCand) (h : WF c) : c.foundation ≠ [] := by
  rcases h.1 with h1 | h1
  · simp [h1]
  · exact h1.1

theorem unmarshal_head (fnd : Str) (comp : Nat) (proto : Proto) (prio : Nat) (addr : Str) (port : Nat) (T : Str)
    (hf : fnd = [' '] ∨ IceTok fnd) (hcomp : comp < 65536) (hprio : prio < 4294967296) (hport : port < 65536)
    (haddr : NoSp addr ∧ '%' ∉ addr) (hT : T ≠ []) :
    unmarshal ((if fnd = [' '] then [] else fnd) ++ ' ' :: (natStr comp ++ ' ' :: (proto.str ++ ' ' ::
      (natStr prio ++ ' ' :: (removeZone addr ++ ' ' :: (natStr port ++ ' ' :: 't' :: 'y' :: 'p' :: ' ' :: T))))))
      = unmarshalTail fnd comp proto.str prio addr port T := by
  have hfice : ∀ ch ∈ (if fnd = [' '] then [] else fnd), isIceChar ch = true := by
    rcases hf with h1 | h1
    · simp [h1]
    · split
      · simp
      · exact h1.2.2
  have hflen : (if fnd = [' '] then [] else fnd).length ≤ 32 := by
    rcases hf with h1 | h1
    · simp [h1]
    · split
      · simp
      · exact h1.2.1
  have hfback : (if (if fnd = [' '] then [] else fnd) = [] then [' '] else
      (if fnd = [' '] then [] else fnd)) = fnd := by
    rcases hf with h1 | h1
    · simp [h1]
    · have : fnd ≠ [' '] := by
        intro e; have := h1.2.2 ' ' (by simp [e]); revert this; decide
      simp [this, h1.1]
  unfold unmarshal
  simp only [stripPrefix_token _ _ hfice, readCharToken_sp 32 _ _ 0 hfice (by omega), hfback]
  simp only [List.append_eq_nil_iff, reduceCtorEq, and_false, if_false]
  rw [readDigits_natStr_sp 5 comp _ (by decide) (by omega)]
  simp only [List.append_eq_nil_iff, reduceCtorEq, and_false, if_false]
  rw [readString_sp _ _ (by cases proto <;> decide)]
  simp only [List.append_eq_nil_iff, reduceCtorEq, and_false, if_false]
  rw [readDigits_natStr_sp 10 prio _ (by decide) (by omega)]
  simp only [List.append_eq_nil_iff, reduceCtorEq, and_false, if_false, removeZone_id _ haddr.2]
  rw [readString_sp _ _ haddr.1]
  simp only [List.append_eq_nil_iff, reduceCtorEq, and_false, if_false, removeZone_id _ haddr.2]
  rw [readPort_natStr_sp port _ hport]
  simp only
  have : 't' :: 'y' :: 'p' :: ' ' :: T = chars!"typ" ++ ' ' :: T := rfl
  rw [this, readString_sp _ _ (by decide)]
  simp only [ne_eq, not_true_eq_false, if_false, hT]

theorem unmarshal_marshal (c : IceCand) (h : WF c) (hn : NoFinding c) :
    unmarshal c.marshal = .ok (canon c) := by
  have htail := unmarshalTail_ok c h hn c.foundation
  obtain ⟨hf, hcomp, hprio, hport, haddr, _, _, _, _⟩ := h
  have hne : c.typ.str ++ (relPart c.obs ++ extPart c.obs) ≠ [] := by cases c.typ <;> simp [CandType.str]
  have hh := unmarshal_head c.foundation c.component c.net.short c.priority c.address c.port _
    hf hcomp hprio.2 hport haddr hne
  unfold IceCand.marshal
  rw [marshal_nf]
  exact hh.trans htail

/-! ### rebuilt candidates -/
theorem canonNet_short (c : IceCand) (h : WF c) : (canonNet c.typ c.net.short c.address).short = c.net.short := by
  obtain ⟨_, _, _, _, _, hvalid, _⟩ := h
  unfold canonNet
  by_cases hn : c.typ = .host ∧ isNameAddress c.address = true
  · simp only [hn, and_self, if_true] at hvalid ⊢
    rw [hvalid]; rfl
  · simp only [hn, if_false] at hvalid ⊢
    obtain ⟨k, hk⟩ := Option.isSome_iff_exists.mp hvalid
    rw [hk]
    cases k <;> cases c.net.short <;> rfl

theorem canon_foundation (c : IceCand) (h : WF c) : (canon c).foundation = c.foundation := by
  have := wf_foundation_ne_nil c h
  simp [canon, IceCand.foundation] at this ⊢
  intro h1; exact absurd h1 (by simpa [IceCand.foundation] using this)



theorem canon_priority (c : IceCand) (h : WF c) : (canon c).priority = c.priority := by
  obtain ⟨_, _, hprio, _⟩ := h
  have : c.priority ≠ 0 := by omega
  simp [canon, IceCand.priority] at this ⊢
  intro h1
  exact absurd h1 (by simpa [IceCand.priority] using this)

theorem canon_obs (c : IceCand) (h : WF c) : (canon c).obs = c.obs := by
  have h1 := canon_foundation c h
  have h2 := canon_priority c h
  have h3 := canonNet_short c h
  have h4 : (canon c).extensions = c.extensions := rfl
  simp only [IceCand.obs, h1, h2, h4]
  simp [canon, h3]

theorem canon_WF (c : IceCand) (h : WF c) : WF (canon c) := by
  have h1 := canon_foundation c h
  have h2 := canon_priority c h
  have h3 := canonNet_short c h
  unfold WF at h ⊢
  rw [h1, h2]
  simpa [canon, h3] using h

theorem canon_NoFinding (c : IceCand) (h : NoFinding c) : NoFinding (canon c) := by
  simpa [NoFinding, canon] using h

theorem canon_getExtension (c : IceCand) (k : Str) : (canon c).getExtension k = c.getExtension k := rfl

theorem toJSON_fromICE (c : IceCand) (h : WF c) (hn : (c.exts.map (·.key)).Nodup) :
    (fromICE c).toJSON = candidatePrefix ++ c.marshal := by
  unfold ICECandidate.toJSON
  rw [toICE_fromICE c h hn]
  simp only [IceCand.marshal, canon_obs c h]

theorem unmarshal_nil : unmarshal [] = .error .other := by rfl

theorem contains_mem_all (d : Desc) (u : Str) (h : d.containsUfrag u = true) : u ∈ d.allUfrags := by
  unfold Desc.containsUfrag at h
  unfold Desc.allUfrags
  simp only [Bool.or_eq_true, decide_eq_true_eq, List.any_eq_true] at h
  rcases h with h | ⟨m, hm, h⟩
  · exact List.mem_append_left _ (List.mem_of_mem_head? h)
  · exact List.mem_append_right _ (List.mem_flatten.mpr ⟨m, hm, List.mem_of_mem_head? h⟩)

end WebrtcVerif.Candidate
