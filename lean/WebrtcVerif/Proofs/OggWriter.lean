import WebrtcVerif.Proofs.OggStream
/-!
  The writers of `Model/Ogg.lean` refine the page-list description of `Proofs/OggStream.lean`:
  what they have written is always `flat log` for a list of pages `log` whose per-serial sub-lists are
  `bodyPages …`, and `Close` turns each of them into `finalStream …`.
-/
namespace WebrtcVerif.Ogg
open WebrtcVerif.Bytes WebrtcVerif.OggSpec

theorem flat_append (a c : List Page) : flat (a ++ c) = flat a ++ flat c := by simp [flat]
theorem flat_cons (p : Page) (l : List Page) : flat (p :: l) = p.encode ++ flat l := by simp [flat]
theorem flat_nil : flat [] = [] := rfl
theorem flat_singleton (p : Page) : flat [p] = p.encode := by simp [flat]

theorem encode_length (p : Page) : p.encode.length = 27 + p.segs.length + p.payload.length :=
  createPage_length _ _ _ _ _ _

theorem markEos_encode_length (p : Page) : (markEos p).encode.length = p.encode.length := by
  simp [encode_length, markEos]

/-! ### `writePage` -/

theorem writePage_out (out : Bs) (rw : Bool) (t : Track) (payload : Bs) (ht : UInt8) (g : Nat) :
    (writePage out rw t payload ht g).1 = out ++ flat (createPages payload ht g t.serial t.pageIndex) := rfl

/-- the fields `writePage` never touches -/
structure SameCfg (t t' : Track) : Prop where
  sampleRate : t'.sampleRate = t.sampleRate
  mapping : t'.mapping = t.mapping
  preSkip : t'.preSkip = t.preSkip
  serial : t'.serial = t.serial
  tags : t'.tags = t.tags

theorem SameCfg.refl (t : Track) : SameCfg t t := ⟨rfl, rfl, rfl, rfl, rfl⟩
theorem SameCfg.trans {a c d : Track} (h1 : SameCfg a c) (h2 : SameCfg c d) : SameCfg a d :=
  ⟨h2.1.trans h1.1, h2.2.trans h1.2, h2.3.trans h1.3, h2.4.trans h1.4, h2.5.trans h1.5⟩

theorem writePage_cfg (out : Bs) (rw : Bool) (t : Track) (payload : Bs) (ht : UInt8) (g : Nat) :
    SameCfg t (writePage out rw t payload ht g).2 ∧
    (writePage out rw t payload ht g).2.pageIndex =
      (t.pageIndex + (createPages payload ht g t.serial t.pageIndex).length) % two32 ∧
    (writePage out rw t payload ht g).2.previousGranulePosition = t.previousGranulePosition := by
  unfold writePage
  cases rw
  · exact ⟨⟨rfl, rfl, rfl, rfl, rfl⟩, rfl, rfl⟩
  · cases h : (createPages payload ht g t.serial t.pageIndex).getLast? <;>
      refine ⟨⟨?_, ?_, ?_, ?_, ?_⟩, ?_, ?_⟩ <;> simp [h]

/-- without a rewriter nothing about the last page is recorded -/
theorem writePage_nolast (out : Bs) (t : Track) (payload : Bs) (ht : UInt8) (g : Nat) :
    (writePage out false t payload ht g).2.lastPageWritten = t.lastPageWritten := rfl

/-- the page `markTrackEndOfStream` will rebuild from the recorded fields -/
def lastPageOf (t : Track) : Page :=
  { headerType := t.lastPageHeaderType, granule := t.lastGranulePosition, serial := t.serial
    index := t.lastPageIndex, segs := (laceLoop maxOggPageSegments t.lastPayload.length).segs, payload := t.lastPayload }

/-- the last page of a packet fits one page when laced again -/
theorem createPagesLoop_last (ht : UInt8) (g serial : Nat)
    (fuel : Nat) (payload : Bs) (idx : Nat) (first : Bool) (hf : payload.length < fuel * 65025) :
    ∃ pre p, createPagesLoop fuel payload ht g serial idx first = pre ++ [p] ∧
      (laceLoop maxOggPageSegments p.payload.length).complete = true ∧
      p.segs = (laceLoop maxOggPageSegments p.payload.length).segs := by
  refine createPagesLoop_ind (P := fun fuel payload idx first =>
    ∃ pre p, createPagesLoop fuel payload ht g serial idx first = pre ++ [p] ∧
      (laceLoop maxOggPageSegments p.payload.length).complete = true ∧
      p.segs = (laceLoop maxOggPageSegments p.payload.length).segs) ?_ ?_ fuel payload idx first hf
  · intro fuel payload idx first hc
    obtain ⟨_, _, h3, h4, _⟩ := laceLoop_spec maxOggPageSegments payload.length
    have hsz : (laceLoop maxOggPageSegments payload.length).size = payload.length := by have := h4 hc; omega
    refine ⟨[], loopPage payload ht g serial idx first, by rw [createPagesLoop_succ, hc]; simp, ?_, ?_⟩
    · simp only [loopPage, hsz, List.take_length]; exact hc
    · simp only [loopPage, hsz, List.take_length]
  · intro fuel payload idx first hc ih
    obtain ⟨pre, p, he, h1, h2⟩ := ih
    refine ⟨loopPage payload ht g serial idx first :: pre, p, ?_, h1, h2⟩
    rw [createPagesLoop_succ, hc, (lace_incomplete _ hc).1]
    simp [he]

theorem createPages_last (payload : Bs) (ht : UInt8) (g serial idx : Nat) :
    ∃ pre p, createPages payload ht g serial idx = pre ++ [p] ∧
      (laceLoop maxOggPageSegments p.payload.length).complete = true ∧
      p.segs = (laceLoop maxOggPageSegments p.payload.length).segs :=
  createPagesLoop_last ht g serial _ payload idx true (fuel_ok _)

theorem createPagesLoop_serial (ht : UInt8) (g serial : Nat) (fuel : Nat) :
    ∀ (payload : Bs) (idx : Nat) (first : Bool), ∀ p ∈ createPagesLoop fuel payload ht g serial idx first, p.serial = serial := by
  induction fuel with
  | zero => intro payload idx first p hp; simp [createPagesLoop] at hp
  | succ fuel ih =>
    intro payload idx first p hp
    rw [createPagesLoop_succ] at hp
    split at hp
    · simp only [List.mem_singleton] at hp; subst hp; rfl
    · rcases List.mem_cons.mp hp with rfl | h
      · rfl
      · exact ih _ _ _ p h

/-- with a rewriter the last page written is recorded, with the offset it was written at -/
theorem writePage_last (out : Bs) (t : Track) (payload : Bs) (ht : UInt8) (g : Nat) :
    ∃ pre p, createPages payload ht g t.serial t.pageIndex = pre ++ [p] ∧
      let t' := (writePage out true t payload ht g).2
      t'.lastPageWritten = true ∧ t'.lastPageOffset = out.length + (flat pre).length ∧
      lastPageOf t' = p ∧ (laceLoop maxOggPageSegments t'.lastPayload.length).complete = true := by
  obtain ⟨pre, p, he, h1, h2⟩ := createPages_last payload ht g t.serial t.pageIndex
  have hall : p.serial = t.serial :=
    createPagesLoop_serial ht g t.serial _ payload t.pageIndex true p (by
      have : createPagesLoop (payload.length / 65025 + 1) payload ht g t.serial t.pageIndex true = pre ++ [p] := he
      rw [this]; simp)
  refine ⟨pre, p, he, ?_⟩
  unfold writePage
  simp only [if_true, he, List.getLast?_append, List.getLast?_singleton, Option.some_or, List.dropLast_concat]
  refine ⟨trivial, trivial, ?_, h1⟩
  simp only [lastPageOf, ← h2, ← hall]


/-! ### rewriting the last page -/

theorem list_split_at {α : Type} (l : List α) (k : Nat) (x : α) (h : l[k]? = some x) :
    l = l.take k ++ x :: l.drop (k + 1) ∧ k < l.length := by
  obtain ⟨hk, hx⟩ := List.getElem?_eq_some_iff.mp h
  refine ⟨?_, hk⟩
  rw [← hx, List.getElem_cons_drop hk, List.take_append_drop]

theorem list_set_at {α : Type} (l : List α) (k : Nat) (x y : α) (h : l[k]? = some x) :
    l.set k y = l.take k ++ y :: l.drop (k + 1) := by
  obtain ⟨_, hk⟩ := list_split_at l k x h
  rw [List.set_eq_take_append_cons_drop, if_pos hk]

theorem writeAt_mid (a e e' c : Bs) (h : e'.length = e.length) :
    writeAt (a ++ e ++ c) e' a.length = a ++ e' ++ c := by
  unfold writeAt
  have h1 : List.take a.length (a ++ e ++ c) = a := by
    rw [List.append_assoc]; exact List.take_left' rfl
  have h2 : List.drop (a.length + e'.length) (a ++ e ++ c) = c := List.drop_left' (by simp [h])
  rw [h1, h2, List.append_assoc]

/-- `markTrackEndOfStream` replaces the recorded last page by the same page with the EOS flag -/
theorem markTrackEndOfStream_spec (log : List Page) (t : Track) (k : Nat)
    (hw : t.lastPageWritten = true) (hk : log[k]? = some (lastPageOf t))
    (hoff : t.lastPageOffset = (flat (log.take k)).length)
    (hc : (laceLoop maxOggPageSegments t.lastPayload.length).complete = true) :
    markTrackEndOfStream (flat log) t = flat (log.set k (markEos (lastPageOf t))) := by
  obtain ⟨hsplit, _⟩ := list_split_at log k _ hk
  unfold markTrackEndOfStream
  simp only [hw, Bool.not_true, Bool.false_eq_true, if_false, createPageForSerial]
  rw [createPages_single _ _ _ _ _ hc, list_set_at log k _ _ hk, flat_singleton]
  show writeAt (flat log) (markEos (lastPageOf t)).encode t.lastPageOffset = _
  have hfl : flat log = flat (log.take k) ++ (lastPageOf t).encode ++ flat (log.drop (k + 1)) := by
    conv => lhs; rw [hsplit]
    rw [flat_append, flat_cons, List.append_assoc]
  rw [hoff, hfl, flat_append, flat_cons, ← List.append_assoc]
  exact writeAt_mid _ _ _ _ (markEos_encode_length _)

/-- `writeNilEndOfStreamPage` appends the nil EOS page -/
theorem writeNilEos_spec (out : Bs) (t : Track) (h : t.pageIndex ≠ 0) :
    (writeNilEndOfStreamPage out t).1 =
      out ++ (eosPage t.serial { idx := t.pageIndex, g := t.previousGranulePosition }).encode := by
  unfold writeNilEndOfStreamPage
  rw [if_neg h]; rfl


/-! ### the specification parser reads a list of well-formed pages back -/

theorem splitPage_encode (p : Page) (hp : p.wf) (rest : Bs) : splitPage (p.encode ++ rest) = some (p, true, rest) := by
  obtain ⟨h1, h2, h3, h4, h5⟩ := hp
  unfold Page.encode
  rw [splitPage_createPage _ _ _ _ _ _ _ h1 h2, Nat.mod_eq_of_lt h3, Nat.mod_eq_of_lt h4, Nat.mod_eq_of_lt h5]

theorem encode_ne_nil (p : Page) : p.encode ≠ [] := by
  intro h; have := encode_length p; rw [h] at this; simp at this; omega

theorem splitPages_flat (S : List Page) (hS : ∀ p ∈ S, p.wf) :
    ∀ fuel, S.length ≤ fuel → splitPages fuel (flat S) = some (S.map (fun p => (p, true))) := by
  induction S with
  | nil => intro fuel _; simp [flat_nil, splitPages]
  | cons p rest ih =>
    intro fuel hf
    cases fuel with
    | zero => simp at hf
    | succ fuel =>
      rw [flat_cons]
      have hne : p.encode ++ flat rest ≠ [] := by simp [encode_ne_nil]
      cases hx : p.encode ++ flat rest with
      | nil => exact absurd hx hne
      | cons a l =>
        rw [splitPages, ← hx, splitPage_encode p (hS p (by simp))]
        · simp only
          rw [ih (fun q hq => hS q (by simp [hq])) fuel (by simpa using hf)]
          simp
        · intro h; cases h

theorem flat_length_ge (S : List Page) : S.length ≤ (flat S).length := by
  induction S with
  | nil => simp
  | cons p rest ih => rw [flat_cons, List.length_append, encode_length]; simp; omega

theorem parsePages_flat (S : List Page) (hS : ∀ p ∈ S, p.wf) : parsePages (flat S) = some S := by
  unfold parsePages
  rw [splitPages_flat S hS _ (flat_length_ge S)]
  simp [Function.comp_def]


/-! ### the reader (model of `ParseNextPage`) reads a list of well-formed pages back -/

/-- the header `ParseNextPage` reports for a page -/
def Page.header (p : Page) : PageHeader :=
  { granulePosition := p.granule, sig := oggS, version := 0, headerType := p.headerType, serial := p.serial
    index := p.index, segmentsCount := b p.segs.length }

theorem parseNextPage_encode (ck : Bool) (p : Page) (hp : p.wf) (rest : Bs) :
    parseNextPage ck (p.encode ++ rest) = .ok p.payload p.header rest := by
  obtain ⟨h1, h2, h3, h4, h5⟩ := hp
  unfold Page.encode Page.header
  rw [parseNextPage_createPage ck _ _ _ _ _ _ _ h1 (by rw [sumSegs_eq]; exact h2),
    Nat.mod_eq_of_lt h3, Nat.mod_eq_of_lt h4, Nat.mod_eq_of_lt h5]

theorem readAllPages_flat (ck : Bool) (S : List Page) (hS : ∀ p ∈ S, p.wf) :
    readAllPages ck (S.length + 1) (flat S) = some (S.map (fun p => (p.payload, p.header))) := by
  induction S with
  | nil => simp [flat_nil, readAllPages, parseNextPage, readN]
  | cons p rest ih =>
    rw [flat_cons]
    have hstep : readAllPages ck ((p :: rest).length + 1) (p.encode ++ flat rest) =
        (readAllPages ck (rest.length + 1) (flat rest)).map ((p.payload, p.header) :: ·) := by
      rw [List.length_cons, readAllPages, parseNextPage_encode ck p (hS p (by simp))]
    rw [hstep, ih (fun q hq => hS q (by simp [hq]))]
    simp

end WebrtcVerif.Ogg
