import WebrtcVerif.Proofs.CloseLemmas
/-!
  One step of one close() caller preserves the flag part `GInv` of the invariant (one lemma per program
  counter, so that each checks within the default heartbeat budget).
-/
namespace WebrtcVerif.Close
open WebrtcVerif.ConnState

/-- steps that do not touch the shared state -/
theorem cstep_silent {s s1 : St} {c : Nat} {cl cl' : Closer}
    (hpc : cl.pc = .cs1 ∨ cl.pc = .gWait ∨ cl.pc = .gWoke ∨ cl.pc = .cWait ∨ cl.pc = .cWoke)
    (h : cstepFn s c cl = some (s1, cl')) : s1 = s := by
  obtain ⟨g, role, pc⟩ := cl
  rcases hpc with hpc | hpc | hpc | hpc | hpc <;> simp only at hpc <;> subst hpc <;> simp [cstepFn] at h
  · cases role <;> simp at h <;> exact h.1.symm
  · exact h.2.1.symm
  · exact h.1.symm
  · exact h.2.1.symm
  · exact h.1.symm

set_option hygiene false in
macro "ginv_case" : tactic => `(tactic|
  (simp [cstepFn] at h <;>
    (first | (obtain ⟨rfl, rfl⟩ := h) | (obtain ⟨hcond, rfl, rfl⟩ := h)) <;>
    constructor <;>
    simp_all [isOwner, pastDG, gDone, prog, afterBody, gracefulOps, storeSection, storeTarget, BStep.canon,
      CPc.isReturned, closedFinal_snoc_closed]))

theorem cstep_ginv_bSig {s s1 : St} {c : Nat} {g : Bool} {role : Role} {cl' : Closer} (hg : GInv s)
    (hc : COk s c ⟨g, role, .bSig⟩) (h : cstepFn s c ⟨g, role, .bSig⟩ = some (s1, cl')) : GInv s1 := by
  obtain ⟨h1, h2, h3, h4, h5, h6, h7, h8, h9, h10, h11, h12, h13, h14⟩ := hc
  obtain ⟨g1, g2, g3, g4, g5, g6, g7, g8, g9, g10, g11, g12, g13, g14⟩ := hg
  cases role <;> simp [allowed] at h1 <;> ginv_case <;> (cases g <;> simp_all)

theorem cstep_ginv_bMedia {s s1 : St} {c : Nat} {g : Bool} {role : Role} {cl' : Closer} (hg : GInv s)
    (hc : COk s c ⟨g, role, .bMedia⟩) (h : cstepFn s c ⟨g, role, .bMedia⟩ = some (s1, cl')) : GInv s1 := by
  obtain ⟨h1, h2, h3, h4, h5, h6, h7, h8, h9, h10, h11, h12, h13, h14⟩ := hc
  obtain ⟨g1, g2, g3, g4, g5, g6, g7, g8, g9, g10, g11, g12, g13, g14⟩ := hg
  cases role <;> simp [allowed] at h1 <;> ginv_case <;> (cases g <;> simp_all)

theorem cstep_ginv_bChannels {s s1 : St} {c : Nat} {g : Bool} {role : Role} {cl' : Closer} (hg : GInv s)
    (hc : COk s c ⟨g, role, .bChannels⟩) (h : cstepFn s c ⟨g, role, .bChannels⟩ = some (s1, cl')) : GInv s1 := by
  obtain ⟨h1, h2, h3, h4, h5, h6, h7, h8, h9, h10, h11, h12, h13, h14⟩ := hc
  obtain ⟨g1, g2, g3, g4, g5, g6, g7, g8, g9, g10, g11, g12, g13, g14⟩ := hg
  cases role <;> simp [allowed] at h1 <;> ginv_case <;> (cases g <;> simp_all)

theorem cstep_ginv_bSctp {s s1 : St} {c : Nat} {g : Bool} {role : Role} {cl' : Closer} (hg : GInv s)
    (hc : COk s c ⟨g, role, .bSctp⟩) (h : cstepFn s c ⟨g, role, .bSctp⟩ = some (s1, cl')) : GInv s1 := by
  obtain ⟨h1, h2, h3, h4, h5, h6, h7, h8, h9, h10, h11, h12, h13, h14⟩ := hc
  obtain ⟨g1, g2, g3, g4, g5, g6, g7, g8, g9, g10, g11, g12, g13, g14⟩ := hg
  cases role <;> simp [allowed] at h1 <;> ginv_case <;> (cases g <;> simp_all)

theorem cstep_ginv_bDtls {s s1 : St} {c : Nat} {g : Bool} {role : Role} {cl' : Closer} (hg : GInv s)
    (hc : COk s c ⟨g, role, .bDtls⟩) (h : cstepFn s c ⟨g, role, .bDtls⟩ = some (s1, cl')) : GInv s1 := by
  obtain ⟨h1, h2, h3, h4, h5, h6, h7, h8, h9, h10, h11, h12, h13, h14⟩ := hc
  obtain ⟨g1, g2, g3, g4, g5, g6, g7, g8, g9, g10, g11, g12, g13, g14⟩ := hg
  cases role <;> simp [allowed] at h1 <;> ginv_case <;> (cases g <;> simp_all)

theorem cstep_ginv_bIce {s s1 : St} {c : Nat} {g : Bool} {role : Role} {cl' : Closer} (hg : GInv s)
    (hc : COk s c ⟨g, role, .bIce⟩) (h : cstepFn s c ⟨g, role, .bIce⟩ = some (s1, cl')) : GInv s1 := by
  obtain ⟨h1, h2, h3, h4, h5, h6, h7, h8, h9, h10, h11, h12, h13, h14⟩ := hc
  obtain ⟨g1, g2, g3, g4, g5, g6, g7, g8, g9, g10, g11, g12, g13, g14⟩ := hg
  cases role <;> simp [allowed] at h1 <;> ginv_case <;> (cases g <;> simp_all)

theorem cstep_ginv_bUpdate {s s1 : St} {c : Nat} {g : Bool} {role : Role} {cl' : Closer} (hg : GInv s)
    (hc : COk s c ⟨g, role, .bUpdate⟩) (h : cstepFn s c ⟨g, role, .bUpdate⟩ = some (s1, cl')) : GInv s1 := by
  obtain ⟨h1, h2, h3, h4, h5, h6, h7, h8, h9, h10, h11, h12, h13, h14⟩ := hc
  obtain ⟨g1, g2, g3, g4, g5, g6, g7, g8, g9, g10, g11, g12, g13, g14⟩ := hg
  cases role <;> simp [allowed] at h1 <;> ginv_case <;> (cases g <;> simp_all)

theorem cstep_ginv_bGraceful {s s1 : St} {c : Nat} {g : Bool} {role : Role} {cl' : Closer} (hg : GInv s)
    (hc : COk s c ⟨g, role, .bGraceful⟩) (h : cstepFn s c ⟨g, role, .bGraceful⟩ = some (s1, cl')) : GInv s1 := by
  obtain ⟨h1, h2, h3, h4, h5, h6, h7, h8, h9, h10, h11, h12, h13, h14⟩ := hc
  obtain ⟨g1, g2, g3, g4, g5, g6, g7, g8, g9, g10, g11, g12, g13, g14⟩ := hg
  cases role <;> simp [allowed] at h1 <;> ginv_case <;> (cases g <;> simp_all)

theorem cstep_ginv_bFinish {s s1 : St} {c : Nat} {g : Bool} {role : Role} {cl' : Closer} (hg : GInv s)
    (hc : COk s c ⟨g, role, .bFinish⟩) (h : cstepFn s c ⟨g, role, .bFinish⟩ = some (s1, cl')) : GInv s1 := by
  obtain ⟨h1, h2, h3, h4, h5, h6, h7, h8, h9, h10, h11, h12, h13, h14⟩ := hc
  obtain ⟨g1, g2, g3, g4, g5, g6, g7, g8, g9, g10, g11, g12, g13, g14⟩ := hg
  cases role <;> simp [allowed] at h1 <;> ginv_case <;> (cases g <;> simp_all)

theorem cstep_ginv_tail {s s1 : St} {c : Nat} {g : Bool} {role : Role} {cl' : Closer} (hg : GInv s)
    (hc : COk s c ⟨g, role, .tail⟩) (h : cstepFn s c ⟨g, role, .tail⟩ = some (s1, cl')) : GInv s1 := by
  obtain ⟨h1, h2, h3, h4, h5, h6, h7, h8, h9, h10, h11, h12, h13, h14⟩ := hc
  obtain ⟨g1, g2, g3, g4, g5, g6, g7, g8, g9, g10, g11, g12, g13, g14⟩ := hg
  cases role <;> simp [allowed] at h1 <;> ginv_case <;> (cases g <;> simp_all)

theorem cstep_ginv_dG {s s1 : St} {c : Nat} {g : Bool} {role : Role} {cl' : Closer} (hg : GInv s)
    (hc : COk s c ⟨g, role, .dG⟩) (h : cstepFn s c ⟨g, role, .dG⟩ = some (s1, cl')) : GInv s1 := by
  obtain ⟨h1, h2, h3, h4, h5, h6, h7, h8, h9, h10, h11, h12, h13, h14⟩ := hc
  obtain ⟨g1, g2, g3, g4, g5, g6, g7, g8, g9, g10, g11, g12, g13, g14⟩ := hg
  cases role <;> simp [allowed] at h1 <;> ginv_case <;> (cases g <;> simp_all)

theorem cstep_ginv_dC {s s1 : St} {c : Nat} {g : Bool} {role : Role} {cl' : Closer} (hg : GInv s)
    (hc : COk s c ⟨g, role, .dC⟩) (h : cstepFn s c ⟨g, role, .dC⟩ = some (s1, cl')) : GInv s1 := by
  obtain ⟨h1, h2, h3, h4, h5, h6, h7, h8, h9, h10, h11, h12, h13, h14⟩ := hc
  obtain ⟨g1, g2, g3, g4, g5, g6, g7, g8, g9, g10, g11, g12, g13, g14⟩ := hg
  cases role <;> simp [allowed] at h1 <;> ginv_case <;> (cases g <;> simp_all)

theorem cstep_ginv_bJoin {s s1 : St} {c : Nat} {g : Bool} {role : Role} {cl' : Closer} (hg : GInv s)
    (hc : COk s c ⟨g, role, .bJoin⟩) (h : cstepFn s c ⟨g, role, .bJoin⟩ = some (s1, cl')) : GInv s1 := by
  obtain ⟨h1, h2, h3, h4, h5, h6, h7, h8, h9, h10, h11, h12, h13, h14⟩ := hc
  obtain ⟨g1, g2, g3, g4, g5, g6, g7, g8, g9, g10, g11, g12, g13, g14⟩ := hg
  cases role <;> simp [allowed] at h1 <;> ginv_case <;> (cases g <;> simp_all)

theorem cstep_ginv_tJoin {s s1 : St} {c : Nat} {g : Bool} {role : Role} {cl' : Closer} (hg : GInv s)
    (hc : COk s c ⟨g, role, .tJoin⟩) (h : cstepFn s c ⟨g, role, .tJoin⟩ = some (s1, cl')) : GInv s1 := by
  obtain ⟨h1, h2, h3, h4, h5, h6, h7, h8, h9, h10, h11, h12, h13, h14⟩ := hc
  obtain ⟨g1, g2, g3, g4, g5, g6, g7, g8, g9, g10, g11, g12, g13, g14⟩ := hg
  cases role <;> simp [allowed] at h1 <;> ginv_case <;> (cases g <;> simp_all)

theorem cstep_ginv_ucs {s s1 : St} {c : Nat} {g : Bool} {role : Role} {x : Pc} {cl' : Closer} (hg : GInv s)
    (hc : COk s c ⟨g, role, .ucs x⟩) (h : cstepFn s c ⟨g, role, .ucs x⟩ = some (s1, cl')) : GInv s1 := by
  obtain ⟨h1, h2, h3, h4, h5, h6, h7, h8, h9, h10, h11, h12, h13, h14⟩ := hc
  obtain ⟨g1, g2, g3, g4, g5, g6, g7, g8, g9, g10, g11, g12, g13, g14⟩ := hg
  cases role <;> simp [allowed] at h1 <;> ginv_case <;> (split <;> simp_all [closedFinal_snoc_closed])

theorem cstep_ginv_idle {s s1 : St} {c : Nat} {g : Bool} {role : Role} {cl' : Closer} (hg : GInv s)
    (h : cstepFn s c ⟨g, role, .idle⟩ = some (s1, cl')) : GInv s1 := by
  obtain ⟨g1, g2, g3, g4, g5, g6, g7, g8, g9, g10, g11, g12, g13, g14⟩ := hg
  simp only [cstepFn, Option.some.injEq, Prod.mk.injEq] at h
  obtain ⟨rfl, rfl⟩ := h
  cases hic : s.isClosed <;> cases hgr : s.graceful <;> cases g <;> constructor <;> simp_all

theorem cstep_ginv {s s1 : St} {c : Nat} {cl cl' : Closer} (hg : GInv s) (hc : COk s c cl)
    (h : cstepFn s c cl = some (s1, cl')) : GInv s1 := by
  by_cases hsil : cl.pc = .cs1 ∨ cl.pc = .gWait ∨ cl.pc = .gWoke ∨ cl.pc = .cWait ∨ cl.pc = .cWoke
  · rw [cstep_silent hsil h]; exact hg
  obtain ⟨g, role, pc⟩ := cl
  cases pc <;> simp at hsil
  case idle => exact cstep_ginv_idle hg h
  case bSig => exact cstep_ginv_bSig hg hc h
  case bMedia => exact cstep_ginv_bMedia hg hc h
  case bChannels => exact cstep_ginv_bChannels hg hc h
  case bSctp => exact cstep_ginv_bSctp hg hc h
  case bDtls => exact cstep_ginv_bDtls hg hc h
  case bIce => exact cstep_ginv_bIce hg hc h
  case bUpdate => exact cstep_ginv_bUpdate hg hc h
  case bGraceful => exact cstep_ginv_bGraceful hg hc h
  case bFinish => exact cstep_ginv_bFinish hg hc h
  case bJoin => exact cstep_ginv_bJoin hg hc h
  case tJoin => exact cstep_ginv_tJoin hg hc h
  case tail => exact cstep_ginv_tail hg hc h
  case dG => exact cstep_ginv_dG hg hc h
  case dC => exact cstep_ginv_dC hg hc h
  case ucs => exact cstep_ginv_ucs hg hc h
  case returned => simp [cstepFn] at h

end WebrtcVerif.Close
