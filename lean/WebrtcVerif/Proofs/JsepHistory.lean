import WebrtcVerif.Proofs.JsepLemmas
/-! World-level invariant of Model.Jsep histories (two peers + synthetic remote offers) and the induction
    that lifts the per-operation C06 lemmas to every description of every admissible history. -/
namespace WebrtcVerif.Jsep

/-! ### the invariant of a whole history -/

/-- remote descriptions held by a peer have pairwise distinct mids -/
structure RemOK (st : St) : Prop where
  cur : ∀ d, st.curRemote = some d → DescOK d
  pend : ∀ d, st.pendRemote = some d → DescOK d

/-- so have the descriptions it created (the other peer may be handed them) -/
structure CreatedOK (st : St) : Prop where
  last : ∀ n d, st.created = some (n, d) → DescOK d
  prev : ∀ n d, st.createdPrev = some (n, d) → DescOK d

structure PeerOK (st : St) : Prop where
  inv : PeerInv st
  rem : RemOK st
  created : CreatedOK st

theorem RemOK.remoteDesc {st : St} (h : RemOK st) : ∀ r, st.remoteDesc = some r → DescOK r := by
  intro r hr
  unfold St.remoteDesc at hr
  split at hr
  · rename_i d hd
    simp only [Option.some.injEq] at hr; subst hr
    exact h.pend _ hd
  · exact h.cur _ hr

theorem PeerOK.of_fields {st st' : St} (ok : PeerOK st) (inv : PeerInv st')
    (h1 : st'.curRemote = st.curRemote) (h2 : st'.pendRemote = st.pendRemote)
    (h3 : st'.created = st.created) (h4 : st'.createdPrev = st.createdPrev) : PeerOK st' :=
  ⟨inv, ⟨by rw [h1]; exact ok.rem.cur, by rw [h2]; exact ok.rem.pend⟩,
   ⟨by rw [h3]; exact ok.created.last, by rw [h4]; exact ok.created.prev⟩⟩

theorem PeerOK.register {st : St} {d : Desc} (ok : PeerOK st) (hd : DescOK d) : PeerOK (st.register d) := by
  obtain ⟨t, g, _, c, p, cr, cp⟩ := register_same st d
  refine ⟨ok.inv.of_trs (by rw [t]) g, ⟨by rw [c]; exact ok.rem.cur, by rw [p]; exact ok.rem.pend⟩, ⟨?_, ?_⟩⟩
  · intro n d' h
    rw [cr] at h
    simp only [Option.some.injEq, Prod.mk.injEq] at h
    rw [← h.2]; exact hd
  · rw [cp]; exact ok.created.last

theorem SpecC06.descOK {d : Desc} (h : SpecC06 d) : DescOK d := h.unique

/-- what a history may do so that C06 is a theorem: exactly the recorded findings (and Plan-B offers,
    which are only searched) are excluded -/
def Admissible (w : World) : Op → Prop
  | .createOffer p =>
    (w.get p).cfg.sem ≠ .planB ∧ NoWrap (w.get p) ∧
      ∀ r, (w.get p).remoteDesc = some r →
        ((w.get p).cfg.sem != .unified && possiblyPlanB r) = false ∧ NoGlare (w.get p).trs r
  | .setRemoteSyn _ d => DescOK d
  | _ => True

structure WorldInv (w : World) : Prop where
  a : PeerOK w.a
  b : PeerOK w.b

theorem WorldInv.get {w : World} (h : WorldInv w) (p : Peer) : PeerOK (w.get p) := by
  cases p
  · exact h.a
  · exact h.b

theorem WorldInv.set {w : World} (h : WorldInv w) (p : Peer) {st : St} (hs : PeerOK st) : WorldInv (w.set p st) := by
  cases p
  · exact ⟨hs, h.b⟩
  · exact ⟨h.a, hs⟩

theorem createOffer_spec {st : St} (ok : PeerOK st) (hsem : st.cfg.sem ≠ .planB) (hw : NoWrap st)
    (hg : ∀ r, st.remoteDesc = some r → (st.cfg.sem != .unified && possiblyPlanB r) = false ∧ NoGlare st.trs r) :
    PeerOK (createOffer st).1 ∧ ∀ d, (createOffer st).2 = .ok d → SpecC06 d := by
  have hspec : ∀ d, (createOffer st).2 = .ok d → SpecC06 d := by
    intro d hd
    cases hc : st.curRemote with
    | none => exact first_offer_spec st d hd hsem hc ok.inv hw
    | some c =>
      have : st.remoteDesc.isSome = true := by
        unfold St.remoteDesc; cases st.pendRemote <;> simp [hc]
      obtain ⟨r, hr⟩ := Option.isSome_iff_exists.1 this
      exact reoffer_spec st d r hd hsem (by simp [hc]) hr (hg r hr).1 (ok.rem.remoteDesc r hr) ok.inv hw (hg r hr).2
  refine ⟨?_, hspec⟩
  obtain ⟨inv', _, hcfg, hc, hrd⟩ := offerState_inv hsem ok.inv hw
  have okS : PeerOK (offerState st) := by
    rw [offerState_eq hsem]
    rw [offerState_eq hsem] at inv'
    exact ok.of_fields inv' rfl rfl rfl rfl
  cases hres : (createOffer st).2 with
  | error e =>
    have : (createOffer st).1 = offerState st := by
      unfold createOffer at hres ⊢
      split
      · rfl
      · split
        · rfl
        · rename_i d hd hch
          simp [hd, hch] at hres
    rw [this]; exact okS
  | ok d =>
    rw [(createOffer_ok hres).1]
    exact okS.register (hspec d hres).descOK

theorem PeerOK.answerState {st : St} (ok : PeerOK st) (r : Desc) : PeerOK (answerState st r) := by
  obtain ⟨t, g, _, c, p, cr, cp, _⟩ := answerState_same st r
  exact ok.of_fields (ok.inv.of_trs t g) c p cr cp

theorem createAnswer_spec {st : St} (ok : PeerOK st) :
    PeerOK (createAnswer st).1 ∧ ∀ d, (createAnswer st).2 = .ok d → SpecC06 d := by
  have hspec : ∀ d, (createAnswer st).2 = .ok d → SpecC06 d :=
    fun d hd => answer_spec st d hd ok.rem.remoteDesc
  refine ⟨?_, hspec⟩
  cases hres : (createAnswer st).2 with
  | error e =>
    have : (createAnswer st).1 = st ∨ ∃ r, (createAnswer st).1 = answerState st r := by
      unfold createAnswer
      split
      · exact Or.inl rfl
      · split
        · exact Or.inl rfl
        · split
          · exact Or.inr ⟨_, rfl⟩
          · rename_i d hd
            exfalso
            unfold createAnswer at hres
            simp [*] at hres
    rcases this with h | ⟨r, h⟩
    · rw [h]; exact ok
    · rw [h]; exact ok.answerState r
  | ok d =>
    obtain ⟨r, _, _, _, e⟩ := createAnswer_ok hres
    rw [e]
    exact (ok.answerState r).register (hspec d hres).descOK


theorem setDescRemote_ok {st st1 : St} {d : Desc} (h : setDescRemote st d = .ok st1) (ok : PeerOK st) (hd : DescOK d) :
    RemOK st1 ∧ CreatedOK st1 := by
  unfold setDescRemote at h
  split at h <;> split at h <;> cases h
  · refine ⟨⟨ok.rem.cur, ?_⟩, ⟨ok.created.last, ok.created.prev⟩⟩
    intro d' h'
    simp only [Option.some.injEq] at h'; subst h'; exact hd
  · refine ⟨⟨?_, ?_⟩, ⟨ok.created.last, ok.created.prev⟩⟩
    · intro d' h'
      simp only [Option.some.injEq] at h'; subst h'; exact hd
    · intro d' h'; cases h'

theorem setRemote_ok (st : St) (d : Desc) (ok : PeerOK st) (hd : DescOK d) : PeerOK (setRemote st d).1 := by
  have inv := setRemote_inv st d ok.inv hd
  rcases setRemote_shape st d with h | ⟨st1, h1, h2⟩
  · rw [h]; exact ok
  · obtain ⟨rem1, cr1⟩ := setDescRemote_ok h1 ok hd
    obtain ⟨_, _, _, e4, e5, e6, e7, _⟩ := engineUpdate_same d st1
    rcases h2 with h2 | ⟨_, h2⟩ <;>
    · rw [h2] at inv ⊢
      exact ⟨inv, ⟨by simp only [e4]; exact rem1.cur, by simp only [e5]; exact rem1.pend⟩,
        ⟨by simp only [e6]; exact cr1.last, by simp only [e7]; exact cr1.prev⟩⟩

theorem setDescLocal_ok {st st1 : St} {n : Nat} {d : Desc} (h : setDescLocal st n d = .ok st1) (ok : PeerOK st) :
    RemOK st1 ∧ CreatedOK st1 := by
  unfold setDescLocal at h
  split at h <;> split at h <;> (try split at h) <;> cases h
  · exact ⟨⟨ok.rem.cur, ok.rem.pend⟩, ⟨ok.created.last, ok.created.prev⟩⟩
  · refine ⟨⟨ok.rem.pend, ?_⟩, ⟨ok.created.last, ok.created.prev⟩⟩
    intro d' h'; cases h'

theorem setLocal_shape (st : St) (n : Nat) (d : Desc) :
    (setLocal st n d).1 = st ∨
      ∃ st1 trs, setDescLocal st n d = .ok st1 ∧ (setLocal st n d).1 = { st1 with trs := trs } := by
  unfold setLocal
  split
  · exact Or.inl rfl
  · rename_i st1 h1
    right
    split
    · exact ⟨st1, _, h1, rfl⟩
    · exact ⟨st1, st1.trs, h1, rfl⟩

theorem setLocal_ok (st : St) (n : Nat) (d : Desc) (ok : PeerOK st) : PeerOK (setLocal st n d).1 := by
  have inv := setLocal_inv st n d ok.inv
  rcases setLocal_shape st n d with h | ⟨st1, trs, h1, h2⟩
  · rw [h]; exact ok
  · obtain ⟨rem1, cr1⟩ := setDescLocal_ok h1 ok
    rw [h2] at inv ⊢
    exact ⟨inv, ⟨rem1.cur, rem1.pend⟩, ⟨cr1.last, cr1.prev⟩⟩

/-- one step of a history keeps the invariant, and a description it returns satisfies C06 -/
theorem step_spec (w : World) (op : Op) (hw : WorldInv w) (ha : Admissible w op) :
    WorldInv (step w op).1 ∧ ∀ d, (step w op).2 = .desc d → SpecC06 d := by
  cases op with
  | addTrack p k =>
    refine ⟨hw.set p ((hw.get p).of_fields (addTrack_inv _ k (hw.get p).inv) ?_ ?_ ?_ ?_), fun d h => by cases h⟩ <;>
      (unfold addTrack; split <;> rfl)
  | addTransceiver p k d =>
    refine ⟨hw.set p ((hw.get p).of_fields (addTransceiver_inv _ k d (hw.get p).inv) ?_ ?_ ?_ ?_), fun d' h => ?_⟩
    iterate 4 (unfold addTransceiver; split <;> (try split) <;> rfl)
    simp only [step] at h
    unfold resOfUnit at h
    split at h <;> cases h
  | createDC p =>
    exact ⟨hw.set p ((hw.get p).of_fields ⟨(hw.get p).inv.distinct, (hw.get p).inv.counter⟩ rfl rfl rfl rfl),
      fun d h => by cases h⟩
  | removeTrack p i =>
    simp only [step]
    split
    · exact ⟨hw, fun d h => by cases h⟩
    · rename_i r hr
      refine ⟨hw.set p ((hw.get p).of_fields (removeTrack_inv _ i (hw.get p).inv r hr) ?_ ?_ ?_ ?_), fun d h => ?_⟩
      iterate 4 (
        unfold removeTrack at hr
        split at hr
        · cases hr
        · split at hr
          · cases hr
          · simp only [Option.some.injEq] at hr; subst hr; rfl)
      unfold resOfUnit at h
      split at h <;> cases h
  | stop p i =>
    simp only [step]
    split
    · exact ⟨hw, fun d h => by cases h⟩
    · rename_i s hs
      refine ⟨hw.set p ((hw.get p).of_fields (stopTransceiver_inv _ i (hw.get p).inv s hs) ?_ ?_ ?_ ?_), fun d h => by cases h⟩
      iterate 4 (
        unfold stopTransceiver at hs
        split at hs
        · cases hs
        · simp only [Option.some.injEq] at hs; subst hs; rfl)
  | createOffer p =>
    obtain ⟨h1, h2, h3⟩ := ha
    obtain ⟨ok, spec⟩ := createOffer_spec (hw.get p) h1 h2 h3
    refine ⟨hw.set p ok, fun d h => ?_⟩
    simp only [step] at h
    unfold resOfDesc at h
    split at h
    · rename_i d' hd; simp only [Res.desc.injEq] at h; subst h; exact spec _ hd
    · cases h
  | createAnswer p =>
    obtain ⟨ok, spec⟩ := createAnswer_spec (hw.get p)
    refine ⟨hw.set p ok, fun d h => ?_⟩
    simp only [step] at h
    unfold resOfDesc at h
    split at h
    · rename_i d' hd; simp only [Res.desc.injEq] at h; subst h; exact spec _ hd
    · cases h
  | setLocal p old =>
    simp only [step]
    split
    · exact ⟨hw, fun d h => by cases h⟩
    · refine ⟨hw.set p (setLocal_ok _ _ _ (hw.get p)), fun d h => ?_⟩
      unfold resOfUnit at h
      split at h <;> cases h
  | setRemote p =>
    simp only [step]
    split
    · exact ⟨hw, fun d h => by cases h⟩
    · rename_i n d hd
      refine ⟨hw.set p (setRemote_ok _ _ (hw.get p) ((hw.get p.other).created.last n d hd)), fun d h => ?_⟩
      unfold resOfUnit at h
      split at h <;> cases h
  | setRemoteSyn p d =>
    refine ⟨hw.set p (setRemote_ok _ _ (hw.get p) ha), fun d h => ?_⟩
    simp only [step] at h
    unfold resOfUnit at h
    split at h <;> cases h

/-- every step of the history is admissible in the world it is taken in -/
def AdmissibleAll : World → List Op → Prop
  | _, [] => True
  | w, op :: ops => Admissible w op ∧ AdmissibleAll (step w op).1 ops

theorem history_spec : ∀ (ops : List Op) (w : World), WorldInv w → AdmissibleAll w ops →
    ∀ r ∈ runOps w ops, ∀ d, r.1 = .desc d → SpecC06 d := by
  intro ops
  induction ops with
  | nil => intro w _ _ r hr; simp [runOps] at hr
  | cons op ops ih =>
    intro w hw ha r hr d hd
    obtain ⟨ha1, ha2⟩ := ha
    obtain ⟨hw', spec⟩ := step_spec w op hw ha1
    simp only [runOps] at hr
    rcases List.mem_cons.1 hr with rfl | hr
    · exact spec d hd
    · exact ih _ hw' ha2 r hr d hd

theorem initial_inv (ca cb : Cfg) : WorldInv { a := { cfg := ca }, b := { cfg := cb } } := by
  have h : ∀ c : Cfg, PeerOK { cfg := c } := fun c =>
    { inv := { distinct := by simp [MidsDistinct], counter := by show (-1 : Int) ≤ -1; omega }
      rem := { cur := fun d h => (by cases h), pend := fun d h => (by cases h) }
      created := { last := fun n d h => (by cases h), prev := fun n d h => (by cases h) } }
  exact ⟨h ca, h cb⟩

end WebrtcVerif.Jsep
