import WebrtcVerif.Model.StaticRtp
/-! Helper lemmas for C29 (core Lean only). -/
namespace WebrtcVerif.StaticRtp

/-- What binding `b` must receive when the caller writes `p`: `p`'s header with the binding's SSRC and
    payload type, the padding length hoisted into the header, everything else — and the payload — as
    the caller gave it. -/
def expected (p : Packet) (b : Binding) : Delivery :=
  { writer := b.writer
    hdr := { p.hdr with ssrc := b.ssrc, pt := b.pt, paddingSize := p.effPadding }
    payload := p.payload }

/-- A packet with the fields `writeRTP` is allowed to touch blanked out. -/
def canon (q : Packet) : Packet :=
  { q with hdr := { q.hdr with ssrc := 0, pt := 0, paddingSize := q.effPadding } }

theorem set_perm_cons_eraseIdx {α} (l : List α) (i : Nat) (x : α) (h : i < l.length) :
    (l.set i x).Perm (x :: l.eraseIdx i) := by
  induction l generalizing i with
  | nil => simp at h
  | cons a t ih =>
    cases i with
    | zero => simp
    | succ i =>
      simp only [List.set_cons_succ, List.eraseIdx_cons_succ]
      have := ih i (by simpa using h)
      exact (List.Perm.cons a this).trans (List.Perm.swap x a _)

theorem swapDelete_perm (bs : List Binding) (i : Nat) (h : i < bs.length) :
    (swapDelete bs i).Perm (bs.eraseIdx i) := by
  have hne : bs ≠ [] := by intro e; simp [e] at h
  obtain ⟨pre, l, rfl⟩ : ∃ pre l, bs = pre ++ [l] :=
    ⟨bs.dropLast, bs.getLast hne, (List.dropLast_concat_getLast hne).symm⟩
  unfold swapDelete
  simp only [List.getLast?_append, List.getLast?_singleton, Option.some_or]
  by_cases hi : i < pre.length
  · rw [List.set_append_left _ _ hi, List.dropLast_concat, List.eraseIdx_append_of_lt_length hi]
    exact (set_perm_cons_eraseIdx pre i l hi).trans (List.perm_append_singleton _ _).symm
  · have hi' : i = pre.length := by simp at h; omega
    subst hi'
    simp [List.eraseIdx_append_of_length_le]

theorem findIdx?_some_spec {α} (p : α → Bool) (l : List α) (i : Nat) (h : l.findIdx? p = some i) :
    ∃ hi : i < l.length, p l[i] = true := by
  rw [List.findIdx?_eq_some_iff_getElem] at h
  obtain ⟨hi, hp, _⟩ := h
  exact ⟨hi, hp⟩

theorem findIdx?_none_spec {α} (p : α → Bool) (l : List α) (h : l.findIdx? p = none) :
    ∀ x ∈ l, p x = false := by
  intro x hx
  rw [List.findIdx?_eq_none_iff] at h
  simpa using h x hx


/-! ### the loop of `writeRTP` -/

theorem effPadding_hoist (q : Packet) :
    (if (q.paddingSize != 0 && q.hdr.paddingSize == 0) = true then q.paddingSize else q.hdr.paddingSize)
      = q.effPadding := by
  unfold Packet.effPadding
  by_cases h1 : q.hdr.paddingSize = 0 <;> by_cases h2 : q.paddingSize = 0 <;> simp [h1, h2] <;> omega

/-- One iteration on the pooled packet: if the pooled packet still is the caller's packet up to the
    fields the loop may touch, the writer receives exactly `expected p b`, the pooled packet keeps that
    relation, and the caller's packet is not written. -/
theorem writeOne_pooled (m : Mem) (p : Packet) (b : Binding) (h : canon m.pooled = canon p) :
    (writeOne .pooled m b).2 = expected p b ∧ canon (writeOne .pooled m b).1.pooled = canon p ∧
      (writeOne .pooled m b).1.caller = m.caller := by
  obtain ⟨c, q⟩ := m
  obtain ⟨⟨qv, qp, qe, qm, qpt, qs, qts, qss, qcs, qep, qex, qhp⟩, qpl, qpp⟩ := q
  obtain ⟨⟨pv, pp, pe, pm, ppt, ps, pts, pss, pcs, pep, pex, php⟩, ppl, ppp⟩ := p
  simp only [canon, Packet.effPadding, Packet.mk.injEq, Header.mk.injEq] at h
  obtain ⟨⟨rfl, rfl, rfl, rfl, -, rfl, rfl, -, rfl, rfl, rfl, hpad⟩, rfl, rfl⟩ := h
  simp only [writeOne, Mem.get, Mem.set, expected, canon, Packet.effPadding]
  rcases Nat.eq_zero_or_pos qhp with h1 | h1 <;> rcases Nat.eq_zero_or_pos qpp with h2 | h2 <;>
    rcases Nat.eq_zero_or_pos php with h3 | h3 <;>
    simp_all [Nat.ne_of_gt] <;> omega

theorem writeLoop_pooled (bs : List Binding) (m : Mem) (p : Packet) (h : canon m.pooled = canon p) :
    (writeLoop .pooled m bs).2 = bs.map (expected p) ∧ (writeLoop .pooled m bs).1.caller = m.caller := by
  induction bs generalizing m with
  | nil => simp [writeLoop]
  | cons b bs ih =>
    obtain ⟨h1, h2, h3⟩ := writeOne_pooled m p b h
    obtain ⟨i1, i2⟩ := ih (writeOne .pooled m b).1 h2
    simp only [writeLoop, List.map_cons]
    exact ⟨by rw [i1, h1], by rw [i2, h3]⟩

end WebrtcVerif.StaticRtp
