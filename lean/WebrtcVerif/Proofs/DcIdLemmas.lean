import WebrtcVerif.Model.DcId
/-! Helper lemmas for C18: uint16 loop of generateAndSetDataChannelID, list bookkeeping, and the
    invariant of the transition system (preserved by every atomic section). -/
namespace WebrtcVerif.DcId

theorem single_has (v w : UInt16) : (single v).has w = (w == v) := by
  unfold single Rng.has
  by_cases h : w = v
  · subst h; simp
  · have : ¬ (v ≤ w ∧ w ≤ v) := by
      intro ⟨h1, h2⟩
      apply h
      apply UInt16.toNat_inj.mp
      rw [UInt16.le_iff_toNat_le] at h1 h2
      omega
    have hbeq : (w == v) = false := by simp [h]
    rw [hbeq]
    by_cases h1 : v ≤ w
    · by_cases h2 : w ≤ v
      · exact absurd ⟨h1, h2⟩ this
      · simp [h2]
    · simp [h1]

theorem isUsed_insert (u : Used) (v w : UInt16) : isUsed (u.insert v) w = (w == v || isUsed u w) := by
  simp [isUsed, Used.insert, single_has]

theorem isUsed_insert_self (u : Used) (v : UInt16) : isUsed (u.insert v) v = true := by
  simp [isUsed_insert]

theorem isUsed_insert_mono (u : Used) (v w : UInt16) (h : isUsed u w = true) : isUsed (u.insert v) w = true := by
  simp [isUsed_insert, h]

theorem length_updAt (l : List Chan) (k : Nat) (f : Chan → Chan) : (updAt l k f).length = l.length := by
  induction l generalizing k with
  | nil => simp [updAt]
  | cons c t ih => cases k <;> simp [updAt, ih]

theorem getElem?_updAt (l : List Chan) (k i : Nat) (f : Chan → Chan) :
    (updAt l k f)[i]? = if i = k then l[i]?.map f else l[i]? := by
  induction l generalizing k i with
  | nil => simp [updAt]
  | cons c t ih =>
    cases k with
    | zero => cases i <;> simp [updAt]
    | succ k => cases i <;> simp [updAt, ih]

theorem getElem?_updAt_some {l : List Chan} {k i : Nat} {f : Chan → Chan} {x : Chan}
    (h : (updAt l k f)[i]? = some x) :
    (i = k ∧ ∃ c, l[i]? = some c ∧ x = f c) ∨ (i ≠ k ∧ l[i]? = some x) := by
  rw [getElem?_updAt] at h
  by_cases hik : i = k
  · simp only [hik, if_true] at h
    left
    refine ⟨hik, ?_⟩
    subst hik
    cases hl : l[i]? with
    | none => simp [hl] at h
    | some c => simp [hl] at h; exact ⟨c, rfl, h.symm⟩
  · simp only [hik, if_false] at h
    exact Or.inr ⟨hik, h⟩

theorem getElem?_snoc_some {l : List Chan} {c x : Chan} {i : Nat} (h : (l ++ [c])[i]? = some x) :
    l[i]? = some x ∨ (i = l.length ∧ x = c) := by
  by_cases hi : i < l.length
  · left; rw [List.getElem?_append_left hi] at h; exact h
  · right
    have hi' : l.length ≤ i := by omega
    rw [List.getElem?_append_right hi'] at h
    by_cases h0 : i - l.length = 0
    · simp [h0] at h; exact ⟨by omega, h.symm⟩
    · have : ([c] : List Chan)[i - l.length]? = none := by
        apply List.getElem?_eq_none; simp; omega
      rw [this] at h; cases h

theorem genLoop_spec (u : Used) (p : Nat) :
  ∀ (fuel : Nat) (id : UInt16), id.toNat % 2 = p → 65536 ≤ id.toNat + 2 * fuel →
    match genLoop u 65534 fuel id with
    | .found r => r.toNat % 2 = p ∧ id.toNat ≤ r.toNat ∧ r.toNat < 65534 ∧ isUsed u r = false ∧
                  (∀ j : UInt16, id.toNat ≤ j.toNat → j.toNat < r.toNat → j.toNat % 2 = p → isUsed u j = true)
    | .exhausted => ∀ j : UInt16, id.toNat ≤ j.toNat → j.toNat < 65534 → j.toNat % 2 = p → isUsed u j = true
    | .diverged => False := by
  intro fuel
  induction fuel with
  | zero =>
    intro id _ h
    have := id.toNat_lt
    omega
  | succ n ih =>
    intro id hp hf
    unfold genLoop
    by_cases hlt : id < 65534
    · have hlt' : id.toNat < 65534 := by simpa [UInt16.lt_iff_toNat_lt] using hlt
      simp only [hlt, if_true]
      by_cases hu : isUsed u id = true
      · simp only [hu, if_true]
        have hadd : (id + 2).toNat = id.toNat + 2 := by
          rw [UInt16.toNat_add]; simp; omega
        have := ih (id + 2) (by omega) (by omega)
        revert this
        cases genLoop u 65534 n (id + 2) with
        | found r =>
          simp only
          intro ⟨h1, h2, h3, h4, h5⟩
          refine ⟨h1, by omega, h3, h4, ?_⟩
          intro j hj1 hj2 hj3
          by_cases hj : j.toNat = id.toNat
          · have : j = id := UInt16.toNat_inj.mp hj
            rw [this]; exact hu
          · exact h5 j (by omega) hj2 hj3
        | exhausted =>
          simp only
          intro h5 j hj1 hj2 hj3
          by_cases hj : j.toNat = id.toNat
          · have : j = id := UInt16.toNat_inj.mp hj
            rw [this]; exact hu
          · exact h5 j (by omega) hj2 hj3
        | diverged => simp
      · simp only [hu]
        simp only [Bool.false_eq_true, if_false]
        refine ⟨hp, Nat.le_refl _, hlt', by simpa using hu, ?_⟩
        intro j h1 h2; omega
    · have hge : 65534 ≤ id.toNat := by
        have : ¬ id.toNat < 65534 := by simpa [UInt16.lt_iff_toNat_lt] using hlt
        omega
      simp only [hlt, if_false]
      intro j h1 h2; omega

/-- what the parity rule and the range rule say about one id under a role -/
def GoodId (role : Role) (g : UInt16) : Prop :=
  g.toNat < 65534 ∧ (g.toNat % 2 = 0 ↔ role = roleClient)

structure Inv (s : St) : Prop where
  heldUsed : ∀ (k : Nat) (c : Chan) (i : UInt16), s.chans[k]? = some c → c.held = some i → isUsed s.used i = true
  pcBusy : ∀ (k : Nat) (c : Chan), s.chans[k]? = some c → c.pc ≠ .idle → c.id = none ∧ c.tset = true
  idNone : ∀ (k : Nat) (c : Chan), s.chans[k]? = some c → c.id = none → c.origin = .auto
  distinct : ∀ (i j : Nat) (ci cj : Chan) (a b : UInt16), i ≠ j → s.chans[i]? = some ci → s.chans[j]? = some cj →
    ci.origin = .auto → cj.origin = .auto → ci.held = some a → cj.held = some b → a ≠ b
  good : ∀ (k : Nat) (c : Chan) (g : UInt16), s.chans[k]? = some c → c.origin = .auto → c.held = some g →
    s.started = true ∧ GoodId s.role g
  busyAssoc : ∀ (k : Nat) (c : Chan), s.chans[k]? = some c → c.tset = true → c.origin = .auto → s.started = true
  assocStarted : s.assoc = true → s.started = true

theorem generate_found {role : Role} {u : Used} {g : UInt16} (h : generate role u = .found g) :
    GoodId role g ∧ isUsed u g = false ∧
      ∀ j : UInt16, j.toNat < g.toNat → j.toNat % 2 = g.toNat % 2 → isUsed u j = true := by
  unfold generate generateWith at h
  have hb : sctpMaxChannels - 1 = 65534 := by decide
  rw [hb] at h
  by_cases hr : role = roleClient
  · have hs : startId role = 0 := by simp [startId, hr]
    rw [hs] at h
    have := genLoop_spec u 0 genFuel 0 (by decide) (by decide)
    rw [h] at this
    obtain ⟨h1, _, h3, h4, h5⟩ := this
    refine ⟨⟨h3, by simp [h1, hr]⟩, h4, ?_⟩
    intro j hj1 hj2
    exact h5 j (by simp) hj1 (by omega)
  · have hs : startId role = 1 := by simp [startId, hr]
    rw [hs] at h
    have := genLoop_spec u 1 genFuel 1 (by decide) (by decide)
    rw [h] at this
    obtain ⟨h1, h2, h3, h4, h5⟩ := this
    refine ⟨⟨h3, by simp [hr]; omega⟩, h4, ?_⟩
    intro j hj1 hj2
    have h21 : (1 : UInt16).toNat = 1 := by decide
    exact h5 j (by rw [h21]; omega) hj1 (by omega)

theorem held_create (eid : Option UInt16) :
    Chan.held { origin := if eid.isSome then .explicit else .auto, id := eid, tset := false } = eid := by
  cases eid <;> rfl

theorem inv_initWith (u : Used) : Inv (initWith u) := by
  constructor <;> intros <;> simp_all [initWith]

theorem inv_init : Inv init := inv_initWith []


/-- generic preservation for an update of channel `k` that keeps held ids or adds a fresh good one -/
theorem inv_upd (s : St) (h : Inv s) (k : Nat) (f : Chan → Chan) (u' : Used)
    (hmono : ∀ w, isUsed s.used w = true → isUsed u' w = true)
    (hf : ∀ c, s.chans[k]? = some c →
      (f c).origin = c.origin ∧
      ((f c).pc ≠ .idle → (f c).id = none ∧ (f c).tset = true) ∧
      ((f c).id = none → c.id = none) ∧
      ((f c).tset = true → c.origin = .auto → s.started = true) ∧
      (∀ g, (f c).held = some g → c.held = some g ∨
        (c.origin = .auto ∧ isUsed s.used g = false ∧ isUsed u' g = true ∧ s.started = true ∧ GoodId s.role g))) :
    Inv { s with chans := updAt s.chans k f, used := u' } := by
  constructor
  · -- heldUsed
    intro i c g hc hg
    rcases getElem?_updAt_some hc with ⟨hik, c0, hc0, rfl⟩ | ⟨_, hc0⟩
    · subst hik
      obtain ⟨_, _, _, _, h5⟩ := hf c0 hc0
      rcases h5 g hg with h5 | ⟨_, _, h5, _⟩
      · exact hmono _ (h.heldUsed _ _ _ hc0 h5)
      · exact h5
    · exact hmono _ (h.heldUsed _ _ _ hc0 hg)
  · -- pcBusy
    intro i c hc hpc
    rcases getElem?_updAt_some hc with ⟨hik, c0, hc0, rfl⟩ | ⟨_, hc0⟩
    · subst hik
      exact (hf c0 hc0).2.1 hpc
    · exact h.pcBusy _ _ hc0 hpc
  · -- idNone
    intro i c hc hid
    rcases getElem?_updAt_some hc with ⟨hik, c0, hc0, rfl⟩ | ⟨_, hc0⟩
    · subst hik
      obtain ⟨h1, _, h3, _, _⟩ := hf c0 hc0
      rw [h1]; exact h.idNone _ _ hc0 (h3 hid)
    · exact h.idNone _ _ hc0 hid
  · -- distinct
    intro i j ci cj a b hij hci hcj hoi hoj ha hb
    rcases getElem?_updAt_some hci with ⟨hik, c0, hc0, rfl⟩ | ⟨hik, hc0⟩
    · rcases getElem?_updAt_some hcj with ⟨hjk, _, _, _⟩ | ⟨_, hd0⟩
      · omega
      · subst hik
        obtain ⟨h1, _, _, _, h5⟩ := hf c0 hc0
        rcases h5 a ha with h5 | ⟨_, h5, _⟩
        · exact h.distinct _ _ _ _ _ _ hij hc0 hd0 (h1 ▸ hoi) hoj h5 hb
        · intro hab
          have := h.heldUsed _ _ _ hd0 hb
          rw [← hab, h5] at this; cases this
    · rcases getElem?_updAt_some hcj with ⟨hjk, d0, hd0, rfl⟩ | ⟨_, hd0⟩
      · subst hjk
        obtain ⟨h1, _, _, _, h5⟩ := hf d0 hd0
        rcases h5 b hb with h5 | ⟨_, h5, _⟩
        · exact h.distinct _ _ _ _ _ _ hij hc0 hd0 hoi (h1 ▸ hoj) ha h5
        · intro hab
          have := h.heldUsed _ _ _ hc0 ha
          rw [hab, h5] at this; cases this
      · exact h.distinct _ _ _ _ _ _ hij hc0 hd0 hoi hoj ha hb
  · -- good
    intro i c g hc ho hg
    rcases getElem?_updAt_some hc with ⟨hik, c0, hc0, rfl⟩ | ⟨_, hc0⟩
    · subst hik
      obtain ⟨h1, _, _, _, h5⟩ := hf c0 hc0
      rcases h5 g hg with h5 | ⟨_, _, _, h6, h7⟩
      · exact h.good _ _ _ hc0 (h1 ▸ ho) h5
      · exact ⟨h6, h7⟩
    · exact h.good _ _ _ hc0 ho hg
  · -- busyAssoc
    intro i c hc ht ho
    rcases getElem?_updAt_some hc with ⟨hik, c0, hc0, rfl⟩ | ⟨_, hc0⟩
    · subst hik
      obtain ⟨h1, _, _, h4, _⟩ := hf c0 hc0
      exact h4 ht (h1 ▸ ho)
    · exact h.busyAssoc _ _ hc0 ht ho
  · exact h.assocStarted

/-- generic preservation for appending a channel that is idle and holds `eid`, registered in `used` -/
theorem inv_snoc (s : St) (h : Inv s) (c0 : Chan) (u' : Used)
    (hmono : ∀ w, isUsed s.used w = true → isUsed u' w = true)
    (hpc : c0.pc = .idle)
    (hheld : ∀ g, c0.held = some g → isUsed u' g = true ∧ c0.origin ≠ .auto)
    (hnone : c0.id = none → c0.origin = .auto)
    (htset : c0.tset = true → c0.origin ≠ .auto) :
    Inv { s with chans := s.chans ++ [c0], used := u' } := by
  constructor
  · intro i c g hc hg
    rcases getElem?_snoc_some hc with hc0 | ⟨_, rfl⟩
    · exact hmono _ (h.heldUsed _ _ _ hc0 hg)
    · exact (hheld g hg).1
  · intro i c hc hp
    rcases getElem?_snoc_some hc with hc0 | ⟨_, rfl⟩
    · exact h.pcBusy _ _ hc0 hp
    · exact absurd hpc hp
  · intro i c hc hid
    rcases getElem?_snoc_some hc with hc0 | ⟨_, rfl⟩
    · exact h.idNone _ _ hc0 hid
    · exact hnone hid
  · intro i j ci cj a b hij hci hcj hoi hoj ha hb
    rcases getElem?_snoc_some hci with hc0 | ⟨_, rfl⟩
    · rcases getElem?_snoc_some hcj with hd0 | ⟨_, rfl⟩
      · exact h.distinct _ _ _ _ _ _ hij hc0 hd0 hoi hoj ha hb
      · exact absurd hoj (hheld b hb).2
    · exact absurd hoi (hheld a ha).2
  · intro i c g hc ho hg
    rcases getElem?_snoc_some hc with hc0 | ⟨_, rfl⟩
    · exact h.good _ _ _ hc0 ho hg
    · exact absurd ho (hheld g hg).2
  · intro i c hc ht ho
    rcases getElem?_snoc_some hc with hc0 | ⟨_, rfl⟩
    · exact h.busyAssoc _ _ hc0 ht ho
    · exact absurd ho (htset ht)
  · exact h.assocStarted


theorem held_of_idle {c : Chan} (h : c.pc = .idle) : c.held = c.id := by
  unfold Chan.held; cases hid : c.id <;> simp [h]

theorem held_beginChan (c : Chan) (h : c.pc ≠ .idle → c.tset = true) : (beginChan c).held = c.held := by
  unfold beginChan
  by_cases ht : c.tset = true
  · simp [ht]
  · have hpc : c.pc = .idle := by
      by_cases hp : c.pc = .idle
      · exact hp
      · exact absurd (h hp) ht
    simp only [ht]
    cases hid : c.id with
    | none => simp [Chan.held, hid, hpc]
    | some i => simp [Chan.held, hid]

theorem held_storeChan (c : Chan) (h : c.pc ≠ .idle → c.id = none) : (storeChan c).held = c.held := by
  unfold storeChan
  cases hp : c.pc with
  | idle => rfl
  | wantGen => rfl
  | got g =>
    have := h (by simp [hp])
    simp [Chan.held, this, hp]

theorem inv_step (s : St) (a : Action) (h : Inv s) : Inv (step s a) := by
  cases a with
  | create eid =>
    refine inv_snoc s h _ _ ?_ rfl ?_ ?_ ?_
    · intro w hw
      cases eid with
      | none => exact hw
      | some i => exact isUsed_insert_mono _ _ _ hw
    · intro g hg
      rw [held_create] at hg
      subst hg
      exact ⟨isUsed_insert_self _ _, by simp⟩
    · intro hid
      simp only at hid
      subst hid; rfl
    · intro ht; simp at ht
  | remote id =>
    refine inv_snoc s h _ _ (fun w hw => isUsed_insert_mono _ _ _ hw) rfl ?_ ?_ ?_
    · intro g hg
      have : g = id := by simpa [Chan.held] using hg.symm
      subst this
      exact ⟨isUsed_insert_self _ _, by simp⟩
    · intro hid; simp at hid
    · intro _; simp
  | start role =>
    unfold step
    by_cases hs : s.started = true
    · simp only [hs, if_true]; exact h
    · simp only [hs]
      have hns : s.started = false := by simpa using hs
      constructor
      · exact h.heldUsed
      · exact h.pcBusy
      · exact h.idNone
      · exact h.distinct
      · intro k c g hc ho hg
        have := (h.good k c g hc ho hg).1
        rw [hns] at this; cases this
      · intro _ _ _ _ _; rfl
      · intro _; rfl
  | openBegin k =>
    simp only [step]
    by_cases ha : s.assoc = true
    · rw [if_pos ha]
      refine inv_upd s h k beginChan s.used (fun _ hw => hw) ?_
      intro c hc
      have hb := h.pcBusy k c hc
      refine ⟨?_, ?_, ?_, ?_, ?_⟩
      · unfold beginChan; split <;> rfl
      · unfold beginChan
        by_cases ht : c.tset = true
        · rw [if_pos ht]; exact hb
        · rw [if_neg ht]
          cases hid : c.id <;> simp
      · unfold beginChan; split <;> exact fun x => x
      · intro _ _; exact h.assocStarted ha
      · intro g hg
        left
        rw [held_beginChan c (fun hp => (hb hp).2)] at hg
        exact hg
    · rw [if_neg ha]; exact h
  | openGen k =>
    simp only [step]
    cases hc : s.chans[k]? with
    | none => exact h
    | some c =>
      simp only
      by_cases hp : c.pc = .wantGen
      · simp only [hp, if_true]
        have hb := h.pcBusy k c hc (by simp [hp])
        have ho := h.idNone k c hc hb.1
        cases hg : generate s.role s.used with
        | found g =>
          simp only
          obtain ⟨hgood, hfresh, _⟩ := generate_found hg
          refine inv_upd s h k _ _ (fun w hw => isUsed_insert_mono _ _ _ hw) ?_
          intro c' hc'
          rw [hc] at hc'; cases hc'
          refine ⟨rfl, fun _ => hb, fun x => x, fun _ _ => h.busyAssoc k c hc hb.2 ho, ?_⟩
          intro g' hg'
          right
          have : g' = g := by simpa [Chan.held, hb.1] using hg'.symm
          subst this
          exact ⟨ho, hfresh, isUsed_insert_self _ _, h.busyAssoc k c hc hb.2 ho, hgood⟩
        | exhausted =>
          simp only
          refine inv_upd s h k _ s.used (fun _ hw => hw) ?_
          intro c' hc'
          rw [hc] at hc'; cases hc'
          refine ⟨rfl, fun hx => absurd rfl hx, fun x => x, fun _ _ => h.busyAssoc k c hc hb.2 ho, ?_⟩
          intro g' hg'
          simp [Chan.held, hb.1] at hg'
        | diverged =>
          simp only
          refine inv_upd s h k _ s.used (fun _ hw => hw) ?_
          intro c' hc'
          rw [hc] at hc'; cases hc'
          refine ⟨rfl, fun hx => absurd rfl hx, fun x => x, fun _ _ => h.busyAssoc k c hc hb.2 ho, ?_⟩
          intro g' hg'
          simp [Chan.held, hb.1] at hg'
      · simp only [hp]; exact h
  | openStore k =>
    refine inv_upd s h k storeChan s.used (fun _ hw => hw) ?_
    intro c hc
    have hb := h.pcBusy k c hc
    refine ⟨?_, ?_, ?_, ?_, ?_⟩
    · unfold storeChan; split <;> rfl
    · unfold storeChan
      cases hp : c.pc with
      | idle => simp [hp]
      | wantGen => simp only; intro _; exact hb (by simp [hp])
      | got g => simp
    · unfold storeChan
      cases hp : c.pc with
      | idle => exact fun x => x
      | wantGen => exact fun x => x
      | got g => simp
    · intro ht ho
      have : (storeChan c).tset = c.tset := by unfold storeChan; split <;> rfl
      rw [this] at ht
      exact h.busyAssoc k c hc ht ho
    · intro g hg
      left
      rw [held_storeChan c (fun hp => (hb hp).1)] at hg
      exact hg
  | close k =>
    refine inv_upd s h k _ s.used (fun _ hw => hw) ?_
    intro c hc
    refine ⟨rfl, h.pcBusy k c hc, fun x => x, fun ht ho => h.busyAssoc k c hc ht ho, fun g hg => Or.inl hg⟩

theorem inv_run (s : St) (as : List Action) (h : Inv s) : Inv (run s as) := by
  induction as generalizing s with
  | nil => exact h
  | cons a t ih => exact ih _ (inv_step s a h)


/-- how one atomic section can change one existing channel -/
inductive ChanStep (c : Chan) : Chan → Prop
  | same : ChanStep c c
  | begin : ChanStep c (beginChan c)
  | got (g : UInt16) : c.pc = .wantGen → ChanStep c { c with pc := .got g }
  | fail : c.pc = .wantGen → ChanStep c { c with pc := .idle }
  | store : ChanStep c (storeChan c)
  | close : ChanStep c { c with connecting := false }

theorem updAt_chanStep {l : List Chan} {k i : Nat} {f : Chan → Chan} {c : Chan}
    (hc : l[i]? = some c) (hf : i = k → ChanStep c (f c)) :
    ∃ c', (updAt l k f)[i]? = some c' ∧ ChanStep c c' := by
  rw [getElem?_updAt]
  by_cases hik : i = k
  · simp only [hik, if_true]
    subst hik
    rw [hc]; exact ⟨f c, rfl, hf rfl⟩
  · simp only [hik, if_false]
    exact ⟨c, hc, .same⟩

theorem snoc_chanStep {l : List Chan} {i : Nat} {c c0 : Chan} (hc : l[i]? = some c) :
    ∃ c', (l ++ [c0])[i]? = some c' ∧ ChanStep c c' := by
  have hi : i < l.length := by
    cases Nat.lt_or_ge i l.length with
    | inl h => exact h
    | inr h => rw [List.getElem?_eq_none h] at hc; cases hc
  rw [List.getElem?_append_left hi]
  exact ⟨c, hc, .same⟩

theorem step_chan (s : St) (a : Action) {k : Nat} {c : Chan} (hc : s.chans[k]? = some c) :
    ∃ c', (step s a).chans[k]? = some c' ∧ ChanStep c c' := by
  cases a with
  | create eid => exact snoc_chanStep hc
  | remote id => exact snoc_chanStep hc
  | start role =>
    simp only [step]
    split
    · exact ⟨c, hc, .same⟩
    · exact ⟨c, hc, .same⟩
  | openBegin j =>
    simp only [step]
    split
    · exact updAt_chanStep hc (fun _ => .begin)
    · exact ⟨c, hc, .same⟩
  | openGen j =>
    simp only [step]
    cases hj : s.chans[j]? with
    | none => exact ⟨c, hc, .same⟩
    | some cj =>
      simp only
      by_cases hp : cj.pc = .wantGen
      · rw [if_pos hp]
        have hcj : k = j → c.pc = .wantGen := by
          intro hkj; subst hkj; rw [hc] at hj; cases hj; exact hp
        cases generate s.role s.used with
        | found g => exact updAt_chanStep hc (fun hkj => .got g (hcj hkj))
        | exhausted => exact updAt_chanStep hc (fun hkj => .fail (hcj hkj))
        | diverged => exact updAt_chanStep hc (fun hkj => .fail (hcj hkj))
      · rw [if_neg hp]; exact ⟨c, hc, .same⟩
  | openStore j => exact updAt_chanStep hc (fun _ => .store)
  | close j => exact updAt_chanStep hc (fun _ => .close)

/-- what never changes, given the part of the invariant that concerns the channel -/
theorem ChanStep.keeps {c c' : Chan} (h : ChanStep c c') (hb : c.pc ≠ .idle → c.id = none ∧ c.tset = true) :
    c'.origin = c.origin ∧ (∀ i, c.id = some i → c'.id = some i) ∧ (∀ g, c.held = some g → c'.held = some g) := by
  cases h with
  | same => exact ⟨rfl, fun _ h => h, fun _ h => h⟩
  | begin =>
    refine ⟨by unfold beginChan; split <;> rfl, ?_, ?_⟩
    · intro i hi; unfold beginChan; split <;> exact hi
    · intro g hg; rw [held_beginChan c (fun hp => (hb hp).2)]; exact hg
  | got g hp =>
    have hid := (hb (by simp [hp])).1
    refine ⟨rfl, fun i hi => hi, ?_⟩
    intro g' hg'; simp [Chan.held, hid, hp] at hg'
  | fail hp =>
    have hid := (hb (by simp [hp])).1
    refine ⟨rfl, fun i hi => hi, ?_⟩
    intro g' hg'; simp [Chan.held, hid, hp] at hg'
  | store =>
    refine ⟨by unfold storeChan; split <;> rfl, ?_, ?_⟩
    · intro i hi
      unfold storeChan
      cases hp : c.pc with
      | idle => exact hi
      | wantGen => exact hi
      | got g => have := (hb (by simp [hp])).1; rw [this] at hi; cases hi
    · intro g hg; rw [held_storeChan c (fun hp => (hb hp).1)]; exact hg
  | close => exact ⟨rfl, fun _ h => h, fun _ h => h⟩

theorem step_keeps (s : St) (a : Action) (h : Inv s) {k : Nat} {c : Chan} (hc : s.chans[k]? = some c) :
    ∃ c', (step s a).chans[k]? = some c' ∧ c'.origin = c.origin ∧
      (∀ i, c.id = some i → c'.id = some i) ∧ (∀ g, c.held = some g → c'.held = some g) := by
  obtain ⟨c', h1, h2⟩ := step_chan s a hc
  exact ⟨c', h1, h2.keeps (h.pcBusy k c hc)⟩

theorem run_keeps (s : St) (as : List Action) (h : Inv s) {k : Nat} {c : Chan} (hc : s.chans[k]? = some c) :
    ∃ c', (run s as).chans[k]? = some c' ∧ c'.origin = c.origin ∧
      (∀ i, c.id = some i → c'.id = some i) ∧ (∀ g, c.held = some g → c'.held = some g) := by
  induction as generalizing s c with
  | nil => exact ⟨c, hc, rfl, fun _ h => h, fun _ h => h⟩
  | cons a t ih =>
    obtain ⟨c1, h1, h2, h3, h4⟩ := step_keeps s a h hc
    obtain ⟨c2, g1, g2, g3, g4⟩ := ih (step s a) (inv_step s a h) h1
    exact ⟨c2, g1, g2.trans h2, fun i hi => g3 i (h3 i hi), fun g hg => g4 g (h4 g hg)⟩

theorem used_mono_step (s : St) (a : Action) (w : UInt16) (h : isUsed s.used w = true) :
    isUsed (step s a).used w = true := by
  cases a with
  | create eid => cases eid with
    | none => exact h
    | some i => exact isUsed_insert_mono _ _ _ h
  | remote id => exact isUsed_insert_mono _ _ _ h
  | start role => simp only [step]; split <;> exact h
  | openBegin j => simp only [step]; split <;> exact h
  | openGen j =>
    simp only [step]
    split
    · split
      · split
        · exact isUsed_insert_mono _ _ _ h
        · exact h
      · exact h
    · exact h
  | openStore j => exact h
  | close j => exact h

theorem used_mono_run (s : St) (as : List Action) (w : UInt16) (h : isUsed s.used w = true) :
    isUsed (run s as).used w = true := by
  induction as generalizing s with
  | nil => exact h
  | cons a t ih => exact ih _ (used_mono_step s a w h)

theorem runOps_eq_run (s : St) (ops : List Op) : runOps s ops = run s (opsTrace s ops) := by
  induction ops generalizing s with
  | nil => rfl
  | cons op rest ih =>
    simp only [runOps, List.foldl_cons, opsTrace, run, List.foldl_append]
    exact ih (applyOp s op)


/-- numeric start of the loop -/
def startNat (role : Role) : Nat := if role = roleClient then 0 else 1

theorem startId_toNat (role : Role) : (startId role).toNat = startNat role := by
  unfold startId startNat
  by_cases h : role = roleClient
  · simp [h]
  · simp [h]

theorem generate_spec (role : Role) (u : Used) :
    match generate role u with
    | .found r => r.toNat % 2 = startNat role ∧ r.toNat < 65534 ∧ isUsed u r = false ∧
        (∀ j : UInt16, j.toNat < r.toNat → j.toNat % 2 = startNat role → isUsed u j = true)
    | .exhausted => ∀ j : UInt16, j.toNat < 65534 → j.toNat % 2 = startNat role → isUsed u j = true
    | .diverged => False := by
  unfold generate generateWith
  have hb : sctpMaxChannels - 1 = 65534 := by decide
  rw [hb]
  have hs := startId_toNat role
  have hlt : startNat role < 2 := by unfold startNat; split <;> omega
  have := genLoop_spec u (startNat role) genFuel (startId role)
    (by rw [hs]; omega) (by rw [hs]; unfold genFuel; omega)
  revert this
  cases genLoop u 65534 genFuel (startId role) with
  | found r =>
    simp only
    intro ⟨h1, h2, h3, h4, h5⟩
    refine ⟨h1, h3, h4, ?_⟩
    intro j hj1 hj2
    exact h5 j (by rw [hs]; omega) hj1 hj2
  | exhausted =>
    simp only
    intro h5 j hj1 hj2
    exact h5 j (by rw [hs]; omega) hj1 hj2
  | diverged => simp

/-- with the bound 65535 (what `maxVal-1` wraps to for maxVal = 0, or a missing `-1`) and every even id
    in use, the client loop never exits: `65534 + 2` wraps to `0`. -/
theorem genLoop_diverges (u : Used) (hu : ∀ j : UInt16, j.toNat % 2 = 0 → isUsed u j = true) :
    ∀ (fuel : Nat) (id : UInt16), id.toNat % 2 = 0 → genLoop u 65535 fuel id = .diverged := by
  intro fuel
  induction fuel with
  | zero => intro id _; rfl
  | succ n ih =>
    intro id hid
    unfold genLoop
    have h1 : id < 65535 := by
      rw [UInt16.lt_iff_toNat_lt]
      have := id.toNat_lt
      have h2 : (65535 : UInt16).toNat = 65535 := by decide
      rw [h2]; omega
    rw [if_pos h1, if_pos (hu id hid)]
    apply ih
    rw [UInt16.toNat_add]
    have h2 : (2 : UInt16).toNat = 2 := by decide
    rw [h2]
    have := id.toNat_lt
    omega


theorem updAt_snoc (l : List Chan) (c : Chan) (f : Chan → Chan) :
    updAt (l ++ [c]) l.length f = l ++ [f c] := by
  induction l with
  | nil => rfl
  | cons a t ih => simp [updAt, ih]

theorem getElem?_snoc_length (l : List Chan) (c : Chan) : (l ++ [c])[l.length]? = some c := by
  simp

/-- a channel whose `open` failed in the generator: `d.sctpTransport` is set, no id, nobody is inside open -/
def Chan.dead (c : Chan) : Prop := c.tset = true ∧ c.pc = .idle ∧ c.id = none

theorem ChanStep.dead {c c' : Chan} (h : ChanStep c c') (hd : c.dead) : c'.dead := by
  obtain ⟨h1, h2, h3⟩ := hd
  cases h with
  | same => exact ⟨h1, h2, h3⟩
  | begin => unfold beginChan; simp [h1]; exact ⟨h1, h2, h3⟩
  | got g hp => rw [h2] at hp; cases hp
  | fail hp => rw [h2] at hp; cases hp
  | store => unfold storeChan; simp [h2]; exact ⟨h1, h2, h3⟩
  | close => exact ⟨h1, h2, h3⟩

theorem run_dead (s : St) (as : List Action) {k : Nat} {c : Chan} (hc : s.chans[k]? = some c) (hd : c.dead) :
    ∃ c', (run s as).chans[k]? = some c' ∧ c'.dead := by
  induction as generalizing s c with
  | nil => exact ⟨c, hc, hd⟩
  | cons a t ih =>
    obtain ⟨c1, h1, h2⟩ := step_chan s a hc
    exact ih (step s a) h1 (h2.dead hd)

/-- CreateDataChannel without id on a connected transport, nothing else running: the three sections of
    `open` run back to back on the new channel -/
theorem applyOp_create_auto_connected (s : St) (ha : s.assoc = true) :
    applyOp s (.create none) =
      match generate s.role s.used with
      | .found g => { s with used := s.used.insert g,
                             chans := s.chans ++ [{ origin := .auto, id := some g, tset := true }] }
      | _ => { s with chans := s.chans ++ [{ origin := .auto, id := none, tset := true }] } := by
  simp only [applyOp, Op.actions, ha, if_true, openActions, run, List.foldl_cons, List.foldl_nil]
  simp only [step, ha, if_true, Option.isSome_none, Bool.false_eq_true, if_false]
  rw [updAt_snoc]
  simp only [beginChan, Bool.false_eq_true, if_false, Option.isNone_none, if_true]
  rw [getElem?_snoc_length]
  simp only [if_true]
  cases generate s.role s.used with
  | found g => simp only [updAt_snoc, storeChan]
  | exhausted => simp only [updAt_snoc, storeChan]
  | diverged => simp only [updAt_snoc, storeChan]


end WebrtcVerif.DcId
