import WebrtcVerif.Model.Codec
/-! Helper lemmas about `Model.Codec` (used by Props/C15). -/
namespace WebrtcVerif.Codec

/-! ### fuzzy search -/

theorem fuzzy_exact {n : CodecP} {hay : List CodecP} {c : CodecP}
    (h : fuzzySearch n hay = (c, .mExact)) : c ∈ hay ∧ exactPred n c = true := by
  unfold fuzzySearch at h
  split at h
  · rename_i c' hc
    simp only [Prod.mk.injEq, and_true] at h
    subst h
    exact ⟨List.mem_of_find?_eq_some hc, by simpa using List.find?_some hc⟩
  · split at h <;> simp at h

theorem fuzzy_partial {n : CodecP} {hay : List CodecP} {c : CodecP}
    (h : fuzzySearch n hay = (c, .mPartial)) :
    c ∈ hay ∧ partialPred n c = true ∧ ∀ x ∈ hay, exactPred n x = false := by
  unfold fuzzySearch at h
  split at h
  · simp at h
  · rename_i hnone
    split at h
    · rename_i c' hc
      simp only [Prod.mk.injEq, and_true] at h
      subst h
      refine ⟨List.mem_of_find?_eq_some hc, by simpa using List.find?_some hc, ?_⟩
      intro x hx
      have := List.find?_eq_none.mp hnone x hx
      simpa using this
    · simp at h

theorem fuzzy_none {n : CodecP} {hay : List CodecP} {c : CodecP}
    (h : fuzzySearch n hay = (c, .mNone)) :
    ∀ x ∈ hay, exactPred n x = false ∧ partialPred n x = false := by
  unfold fuzzySearch at h
  split at h
  · simp at h
  · rename_i hnone
    split at h
    · simp at h
    · rename_i hnone2
      intro x hx
      have h1 := List.find?_eq_none.mp hnone x hx
      have h2 := List.find?_eq_none.mp hnone2 x hx
      exact ⟨by simpa using h1, by simpa using h2⟩

/-- an exact candidate in the haystack forces an exact result -/
theorem fuzzy_exact_of_mem {n : CodecP} {hay : List CodecP} {l : CodecP}
    (hl : l ∈ hay) (he : exactPred n l = true) : ∃ c, fuzzySearch n hay = (c, .mExact) := by
  unfold fuzzySearch
  cases hf : hay.find? (exactPred n) with
  | some c => exact ⟨c, rfl⟩
  | none =>
    have := List.find?_eq_none.mp hf l hl
    simp [he] at this

/-- a partial candidate forces at least a partial result -/
theorem fuzzy_ne_none_of_mem {n : CodecP} {hay : List CodecP} {l : CodecP}
    (hl : l ∈ hay) (hp : partialPred n l = true) : (fuzzySearch n hay).2 ≠ .mNone := by
  unfold fuzzySearch
  cases hf : hay.find? (exactPred n) with
  | some c => simp
  | none =>
    cases hf2 : hay.find? (partialPred n) with
    | some c => simp
    | none =>
      have := List.find?_eq_none.mp hf2 l hl
      simp [hp] at this

/-- the result is the first element (in registration order) with the reported match quality -/
theorem fuzzy_exact_first {n : CodecP} {hay : List CodecP} {c : CodecP}
    (h : fuzzySearch n hay = (c, .mExact)) :
    ∃ pre post, hay = pre ++ c :: post ∧ ∀ x ∈ pre, exactPred n x = false := by
  unfold fuzzySearch at h
  split at h
  · rename_i c' hc
    simp only [Prod.mk.injEq, and_true] at h
    subst h
    obtain ⟨_, pre, post, hsplit, hpre⟩ := List.find?_eq_some_iff_append.mp hc
    exact ⟨pre, post, hsplit, fun x hx => by simpa using hpre x hx⟩
  · split at h <;> simp at h

/-! ### feedback intersection -/

theorem fbAny_iff (x : Feedback) (b : List Feedback) :
    b.any (fun y => x.typ == y.typ && x.param == y.param) = true ↔ x ∈ b := by
  simp only [List.any_eq_true, Bool.and_eq_true, beq_iff_eq]
  constructor
  · rintro ⟨y, hy, h1, h2⟩
    have : x = y := by cases x; cases y; simp_all
    exact this ▸ hy
  · intro h; exact ⟨x, h, rfl, rfl⟩

theorem mem_fbInter (f : Feedback) (a b : List Feedback) : f ∈ fbInter a b ↔ f ∈ a ∧ f ∈ b := by
  unfold fbInter
  rw [List.mem_filter, fbAny_iff]

theorem fbInter_sublist (a b : List Feedback) : (fbInter a b).Sublist a := List.filter_sublist

/-! ### matchRemoteCodec -/

/-- either quality of match the code knows -/
def Matches (r l : CodecP) : Prop := exactPred r l = true ∨ partialPred r l = true

/-- `r'` is `r` itself, or `r` with the first textual occurrence of `apt=<n>` in its fmtp line replaced
    by `apt=<payload type of a locally registered codec>` (what `matchRemoteCodec` searches with) -/
def AptVariant (locals : List CodecP) (r r' : CodecP) : Prop :=
  r' = r ∨ ∃ n, ∃ l2 ∈ locals,
    r' = { r with fmtp := replaceFirst ("apt=".toList ++ showNat n) ("apt=".toList ++ showNat l2.pt) r.fmtp }

/-- quality-indexed statement: exact ⇒ the fmtp-level match; partial ⇒ either kind of match -/
def MatchedAs (mt : MatchType) (r' l : CodecP) : Prop :=
  match mt with
  | .mExact => exactPred r' l = true
  | .mPartial => Matches r' l
  | .mNone => False

theorem MatchedAs.matches {mt : MatchType} {r' l : CodecP} (h : MatchedAs mt r' l) : Matches r' l := by
  cases mt with
  | mExact => exact Or.inl h
  | mPartial => exact h
  | mNone => exact h.elim

theorem fuzzy_matchedAs {n : CodecP} {hay : List CodecP} {c : CodecP} {mt : MatchType}
    (h : fuzzySearch n hay = (c, mt)) (hmt : mt ≠ .mNone) : c ∈ hay ∧ MatchedAs mt n c := by
  cases mt with
  | mExact => exact fuzzy_exact h
  | mPartial => exact ⟨(fuzzy_partial h).1, Or.inr (fuzzy_partial h).2.1⟩
  | mNone => exact absurd rfl hmt

theorem findApt_ne_none {ex pa : List CodecP} {pt : Nat} {c : CodecP} {m : MatchType}
    (h : findApt ex pa pt = some (c, m)) : m ≠ .mNone := by
  unfold findApt at h
  split at h
  · simp at h; rw [← h.2]; simp
  · split at h
    · simp at h; rw [← h.2]; simp
    · simp at h

theorem findApt_exact {ex pa : List CodecP} {pt : Nat} {c : CodecP}
    (h : findApt ex pa pt = some (c, .mExact)) : c ∈ ex ∧ c.pt = pt := by
  unfold findApt at h
  split at h
  · rename_i c' hc
    simp at h; subst h
    exact ⟨List.mem_of_find?_eq_some hc, by simpa using List.find?_some hc⟩
  · split at h <;> simp at h

theorem aptRewrite_variant (locals : List CodecP) (r : CodecP) (n : Nat) (aptCodec : CodecP)
    (aptMatch : MatchType) (hne : aptMatch ≠ .mNone) :
    AptVariant locals r (aptRewrite locals r n aptCodec aptMatch) := by
  unfold aptRewrite
  simp only
  split
  · rename_i hc
    have hmem : (fuzzySearch aptCodec locals).1 ∈ locals :=
      (fuzzy_matchedAs (c := (fuzzySearch aptCodec locals).1) (mt := (fuzzySearch aptCodec locals).2)
        rfl (hc ▸ hne)).1
    exact Or.inr ⟨n, _, hmem, rfl⟩
  · exact Or.inl rfl

theorem demote_matchedAs {aptMatch : MatchType} {res : CodecP × MatchType} {n : CodecP}
    (h : MatchedAs res.2 n res.1) : MatchedAs (demote aptMatch res).2 n (demote aptMatch res).1 := by
  unfold demote
  split
  · rename_i hd
    rw [hd.1] at h
    exact Or.inl h
  · exact h

theorem demote_fst (aptMatch : MatchType) (res : CodecP × MatchType) : (demote aptMatch res).1 = res.1 := by
  unfold demote; split <;> rfl

theorem demote_ne_none {aptMatch : MatchType} {res : CodecP × MatchType}
    (h : (demote aptMatch res).2 ≠ .mNone) : res.2 ≠ .mNone := by
  unfold demote at h
  split at h
  · rename_i hd; rw [hd.1]; simp
  · exact h

theorem demote_exact {aptMatch : MatchType} {res : CodecP × MatchType}
    (h : (demote aptMatch res).2 = .mExact) : res.2 = .mExact ∧ aptMatch ≠ .mPartial := by
  unfold demote at h
  split at h
  · simp at h
  · rename_i hd
    exact ⟨h, fun hp => hd ⟨h, hp⟩⟩

theorem matchRemote_sound {locals : List CodecP} {r : CodecP} {ex pa : List CodecP} {l : CodecP}
    {mt : MatchType} (h : matchRemoteCodec locals r ex pa = .ok (l, mt)) (hmt : mt ≠ .mNone) :
    l ∈ locals ∧ ∃ r', AptVariant locals r r' ∧ MatchedAs mt r' l := by
  unfold matchRemoteCodec at h
  split at h
  · split at h
    · simp at h
    · rename_i apt payloadType hparse
      split at h
      · simp at h; exact absurd h.2.symm hmt
      · rename_i aptCodec aptMatch hfound
        simp only [Except.ok.injEq] at h
        have hne := findApt_ne_none hfound
        have hvar := aptRewrite_variant locals r payloadType aptCodec aptMatch hne
        generalize aptRewrite locals r payloadType aptCodec aptMatch = toMatch at h hvar
        generalize hs : fuzzySearch toMatch locals = res at h
        obtain ⟨c, m⟩ := res
        have hmt' : (demote aptMatch (c, m)).2 ≠ .mNone := by rw [h]; exact hmt
        have hres := fuzzy_matchedAs hs (demote_ne_none hmt')
        have hd := demote_matchedAs (aptMatch := aptMatch) (res := (c, m)) hres.2
        rw [h] at hd
        have hl : l = c := by
          have := demote_fst aptMatch (c, m)
          rw [h] at this; exact this
        exact ⟨hl ▸ hres.1, toMatch, hvar, hd⟩
  · simp only [Except.ok.injEq] at h
    have := fuzzy_matchedAs h hmt
    exact ⟨this.1, r, Or.inl rfl, this.2⟩

/-- a codec with an apt parameter is an exact match only if the codec it points to is among the
    exact matches already -/
theorem matchRemote_apt_exact {locals : List CodecP} {r : CodecP} {ex pa : List CodecP} {l : CodecP}
    {apt : Str} (hapt : r.parse.params.get "apt".toList = some apt)
    (h : matchRemoteCodec locals r ex pa = .ok (l, .mExact)) :
    ∃ n, parseUint8 apt = some n ∧ ∃ p ∈ ex, p.pt = n := by
  unfold matchRemoteCodec at h
  rw [hapt] at h
  simp only at h
  split at h
  · simp at h
  · rename_i payloadType hparse
    split at h
    · simp at h
    · rename_i aptCodec aptMatch hfound
      simp only [Except.ok.injEq] at h
      have hd := demote_exact (aptMatch := aptMatch)
        (res := fuzzySearch (aptRewrite locals r payloadType aptCodec aptMatch) locals) (by rw [h])
      have hne := findApt_ne_none hfound
      have : aptMatch = .mExact := by
        cases aptMatch with
        | mExact => rfl
        | mPartial => exact absurd rfl hd.2
        | mNone => exact absurd rfl hne
      subst this
      exact ⟨payloadType, hparse, aptCodec, (findApt_exact hfound).1, (findApt_exact hfound).2⟩

/-- without an apt parameter `matchRemoteCodec` is the plain fuzzy search -/
theorem matchRemote_plain {locals : List CodecP} {r : CodecP} (ex pa : List CodecP)
    (hno : r.parse.params.get "apt".toList = none) :
    matchRemoteCodec locals r ex pa = .ok (fuzzySearch r locals) := by
  unfold matchRemoteCodec
  rw [hno]

/-! ### the two passes over a remote section -/

/-- `c` is a remote codec `r` of the section, with its feedback intersected against a locally registered
    codec `l` that matches `r` (or its apt variant) with quality `mt` -/
def Accepted (locals rs : List CodecP) (mt : MatchType) (c : CodecP) : Prop :=
  ∃ r ∈ rs, ∃ l ∈ locals, c = { r with fb := fbInter l.fb r.fb } ∧
    ∃ r', AptVariant locals r r' ∧ MatchedAs mt r' l

theorem mem_addIfNew {xs : List CodecP} {x c : CodecP} (h : c ∈ addIfNew xs x) : c ∈ xs ∨ c = x := by
  unfold addIfNew at h
  split at h
  · exact Or.inl h
  · simpa using h

theorem addIfNew_mono {xs : List CodecP} (x : CodecP) {c : CodecP} (h : c ∈ xs) : c ∈ addIfNew xs x := by
  unfold addIfNew
  split
  · exact h
  · simp [h]

theorem addIfNew_has_pt (xs : List CodecP) (x : CodecP) : ∃ c ∈ addIfNew xs x, c.pt = x.pt := by
  unfold addIfNew
  split
  · rename_i h
    simp only [List.any_eq_true, beq_iff_eq] at h
    exact h
  · exact ⟨x, by simp, rfl⟩

theorem addIfNew_ne_nil (xs : List CodecP) (x : CodecP) : addIfNew xs x ≠ [] := by
  obtain ⟨c, hc, _⟩ := addIfNew_has_pt xs x
  intro h; rw [h] at hc; simp at hc

theorem pass_inv {locals all : List CodecP} : ∀ (rs ex pa ex' pa' : List CodecP),
    (∀ r ∈ rs, r ∈ all) →
    (∀ c ∈ ex, Accepted locals all .mExact c) → (∀ c ∈ pa, Accepted locals all .mPartial c) →
    pass locals rs ex pa = .ok (ex', pa') →
    (∀ c ∈ ex', Accepted locals all .mExact c) ∧ (∀ c ∈ pa', Accepted locals all .mPartial c) := by
  intro rs
  induction rs with
  | nil =>
    intro ex pa ex' pa' _ hex hpa h
    simp only [pass, Except.ok.injEq, Prod.mk.injEq] at h
    obtain ⟨h1, h2⟩ := h
    subst h1; subst h2
    exact ⟨hex, hpa⟩
  | cons r rs ih =>
    intro ex pa ex' pa' hall hex hpa h
    have hr : r ∈ all := hall r (by simp)
    have hrs : ∀ x ∈ rs, x ∈ all := fun x hx => hall x (by simp [hx])
    unfold pass at h
    split at h
    · simp at h
    · rename_i l mt hm
      simp only at h
      cases mt with
      | mNone => exact ih ex pa ex' pa' hrs hex hpa h
      | mExact =>
        have hs := matchRemote_sound hm (by simp)
        refine ih _ pa ex' pa' hrs ?_ hpa h
        intro c hc
        rcases mem_addIfNew hc with hc | hc
        · exact hex c hc
        · exact ⟨r, hr, l, hs.1, hc, hs.2⟩
      | mPartial =>
        have hs := matchRemote_sound hm (by simp)
        refine ih ex _ ex' pa' hrs hex ?_ h
        intro c hc
        rcases mem_addIfNew hc with hc | hc
        · exact hpa c hc
        · exact ⟨r, hr, l, hs.1, hc, hs.2⟩

theorem pass_mono {locals : List CodecP} : ∀ (rs ex pa ex' pa' : List CodecP),
    pass locals rs ex pa = .ok (ex', pa') → (∀ c ∈ ex, c ∈ ex') ∧ (∀ c ∈ pa, c ∈ pa') := by
  intro rs
  induction rs with
  | nil =>
    intro ex pa ex' pa' h
    simp only [pass, Except.ok.injEq, Prod.mk.injEq] at h
    obtain ⟨h1, h2⟩ := h
    subst h1; subst h2
    exact ⟨fun _ h => h, fun _ h => h⟩
  | cons r rs ih =>
    intro ex pa ex' pa' h
    unfold pass at h
    split at h
    · simp at h
    · rename_i l mt hm
      simp only at h
      cases mt with
      | mNone => exact ih ex pa ex' pa' h
      | mExact =>
        have := ih _ pa ex' pa' h
        exact ⟨fun c hc => this.1 c (addIfNew_mono _ hc), this.2⟩
      | mPartial =>
        have := ih ex _ ex' pa' h
        exact ⟨this.1, fun c hc => this.2 c (addIfNew_mono _ hc)⟩

def noApt (r : CodecP) : Prop := r.parse.params.get "apt".toList = none

instance (r : CodecP) : Decidable (noApt r) := by unfold noApt; exact inferInstance

/-- every remote codec without apt that some local codec matches exactly ends up (by payload type) in
    the exact list -/
theorem pass_plain_exact {locals : List CodecP} : ∀ (rs ex pa ex' pa' : List CodecP),
    pass locals rs ex pa = .ok (ex', pa') → ∀ r ∈ rs, noApt r → (∃ l ∈ locals, exactPred r l = true) →
    ∃ c ∈ ex', c.pt = r.pt := by
  intro rs
  induction rs with
  | nil => intro _ _ _ _ _ r hr; simp at hr
  | cons r0 rs ih =>
    intro ex pa ex' pa' h r hr hno hex
    unfold pass at h
    split at h
    · simp at h
    · rename_i l mt hm
      simp only at h
      rcases List.mem_cons.mp hr with heq | hin
      · subst heq
        rw [matchRemote_plain ex pa hno] at hm
        obtain ⟨l0, hl0, he0⟩ := hex
        obtain ⟨c0, hc0⟩ := fuzzy_exact_of_mem hl0 he0
        rw [hc0] at hm
        simp only [Except.ok.injEq, Prod.mk.injEq] at hm
        obtain ⟨h1, h2⟩ := hm
        subst h1; subst h2
        simp only at h
        obtain ⟨c, hc, hpt⟩ := addIfNew_has_pt ex { r with fb := fbInter c0.fb r.fb }
        exact ⟨c, (pass_mono _ _ _ _ _ h).1 c hc, hpt⟩
      · cases mt with
        | mNone => exact ih ex pa ex' pa' h r hin hno hex
        | mExact => exact ih _ pa ex' pa' h r hin hno hex
        | mPartial => exact ih ex _ ex' pa' h r hin hno hex

/-- …and one that is matched only partially ends up in the partial list -/
theorem pass_plain_partial {locals : List CodecP} : ∀ (rs ex pa ex' pa' : List CodecP),
    pass locals rs ex pa = .ok (ex', pa') → ∀ r ∈ rs, noApt r →
    (∀ l ∈ locals, exactPred r l = false) → (∃ l ∈ locals, partialPred r l = true) →
    ∃ c ∈ pa', c.pt = r.pt := by
  intro rs
  induction rs with
  | nil => intro _ _ _ _ _ r hr; simp at hr
  | cons r0 rs ih =>
    intro ex pa ex' pa' h r hr hno hnex hpar
    unfold pass at h
    split at h
    · simp at h
    · rename_i l mt hm
      simp only at h
      rcases List.mem_cons.mp hr with heq | hin
      · subst heq
        rw [matchRemote_plain ex pa hno] at hm
        simp only [Except.ok.injEq] at hm
        obtain ⟨l0, hl0, hp0⟩ := hpar
        have hne := fuzzy_ne_none_of_mem hl0 hp0
        rw [hm] at hne
        cases mt with
        | mNone => exact absurd rfl hne
        | mExact =>
          have := fuzzy_exact hm
          rw [hnex l this.1] at this
          simp at this
        | mPartial =>
          simp only at h
          obtain ⟨c, hc, hpt⟩ := addIfNew_has_pt pa { r with fb := fbInter l.fb r.fb }
          exact ⟨c, (pass_mono _ _ _ _ _ h).2 c hc, hpt⟩
      · cases mt with
        | mNone => exact ih ex pa ex' pa' h r hin hno hnex hpar
        | mExact => exact ih _ pa ex' pa' h r hin hno hnex hpar
        | mPartial => exact ih ex _ ex' pa' h r hin hno hnex hpar

/-- the exact list stays empty unless some codec without apt is matched exactly -/
theorem pass_exact_empty {locals : List CodecP} : ∀ (rs pa ex' pa' : List CodecP),
    pass locals rs [] pa = .ok (ex', pa') →
    (∀ r ∈ rs, noApt r → ∀ l ∈ locals, exactPred r l = false) → ex' = [] := by
  intro rs
  induction rs with
  | nil =>
    intro pa ex' pa' h _
    simp only [pass, Except.ok.injEq, Prod.mk.injEq] at h
    exact h.1.symm
  | cons r rs ih =>
    intro pa ex' pa' h hno
    have hrs : ∀ x ∈ rs, noApt x → ∀ l ∈ locals, exactPred x l = false :=
      fun x hx => hno x (by simp [hx])
    unfold pass at h
    split at h
    · simp at h
    · rename_i l mt hm
      simp only at h
      cases mt with
      | mNone => exact ih pa ex' pa' h hrs
      | mPartial => exact ih _ ex' pa' h hrs
      | mExact =>
        exfalso
        cases hapt : r.parse.params.get "apt".toList with
        | none =>
          rw [matchRemote_plain [] pa hapt] at hm
          simp only [Except.ok.injEq] at hm
          have := fuzzy_exact hm
          rw [hno r (by simp) hapt l this.1] at this
          simp at this
        | some apt =>
          obtain ⟨n, _, p, hp, _⟩ := matchRemote_apt_exact hapt hm
          simp at hp

/-! ### both passes, choice, push -/

theorem matchSection_inv {locals rs ex pa : List CodecP} (h : matchSection locals rs = .ok (ex, pa)) :
    (∀ c ∈ ex, Accepted locals rs .mExact c) ∧ (∀ c ∈ pa, Accepted locals rs .mPartial c) := by
  unfold matchSection at h
  split at h
  · simp at h
  · rename_i ex1 pa1 h1
    have i1 := pass_inv (all := rs) rs [] [] ex1 pa1 (fun _ h => h) (by simp) (by simp) h1
    exact pass_inv (all := rs) rs ex1 pa1 ex pa (fun _ h => h) i1.1 i1.2 h

theorem matchSection_plain_exact {locals rs ex pa : List CodecP} (h : matchSection locals rs = .ok (ex, pa))
    {r : CodecP} (hr : r ∈ rs) (hno : noApt r) (hex : ∃ l ∈ locals, exactPred r l = true) :
    ∃ c ∈ ex, c.pt = r.pt := by
  unfold matchSection at h
  split at h
  · simp at h
  · exact pass_plain_exact rs _ _ ex pa h r hr hno hex

theorem matchSection_plain_partial {locals rs ex pa : List CodecP} (h : matchSection locals rs = .ok (ex, pa))
    {r : CodecP} (hr : r ∈ rs) (hno : noApt r) (hnex : ∀ l ∈ locals, exactPred r l = false)
    (hpar : ∃ l ∈ locals, partialPred r l = true) : ∃ c ∈ pa, c.pt = r.pt := by
  unfold matchSection at h
  split at h
  · simp at h
  · exact pass_plain_partial rs _ _ ex pa h r hr hno hnex hpar

theorem matchSection_exact_empty {locals rs ex pa : List CodecP} (h : matchSection locals rs = .ok (ex, pa))
    (hno : ∀ r ∈ rs, noApt r → ∀ l ∈ locals, exactPred r l = false) : ex = [] := by
  unfold matchSection at h
  split at h
  · simp at h
  · rename_i ex1 pa1 h1
    have := pass_exact_empty rs [] ex1 pa1 h1 hno
    subst this
    exact pass_exact_empty rs pa1 ex pa h hno

theorem mem_chosen {ex pa : List CodecP} {c : CodecP} (h : c ∈ chosen ex pa) :
    (c ∈ ex) ∨ (ex = [] ∧ c ∈ pa) := by
  unfold chosen at h
  split at h
  · rename_i he; exact Or.inr ⟨by simpa using he, h⟩
  · exact Or.inl h

theorem addCodec_mem {neg : List CodecP} {x c : CodecP} (h : c ∈ (addCodec neg x).1) : c ∈ neg ∨ c = x := by
  unfold addCodec at h
  split at h
  · split at h <;> exact Or.inl h
  · simpa using h

theorem addCodec_mono {neg : List CodecP} (x : CodecP) {c : CodecP} (h : c ∈ neg) : c ∈ (addCodec neg x).1 := by
  unfold addCodec
  split
  · split <;> exact h
  · simp [h]

/-- payload types stay pairwise distinct -/
theorem addCodec_nodup {neg : List CodecP} (x : CodecP) (h : (neg.map (·.pt)).Nodup) :
    ((addCodec neg x).1.map (·.pt)).Nodup := by
  unfold addCodec
  split
  · split <;> exact h
  · rename_i hnone
    simp only [List.map_append, List.map_cons, List.map_nil]
    rw [List.nodup_append]
    refine ⟨h, by simp, ?_⟩
    intro a ha b hb
    simp only [List.mem_singleton] at hb
    subst hb
    simp only [List.mem_map] at ha
    obtain ⟨y, hy, hpt⟩ := ha
    have := List.find?_eq_none.mp hnone y hy
    intro heq
    simp [hpt, heq] at this

theorem pushCodecs_mem : ∀ (cs neg : List CodecP) {c : CodecP}, c ∈ (pushCodecs neg cs).1 → c ∈ neg ∨ c ∈ cs := by
  intro cs
  induction cs with
  | nil => intro neg c h; exact Or.inl (by simpa [pushCodecs] using h)
  | cons x cs ih =>
    intro neg c h
    simp only [pushCodecs] at h
    rcases ih _ h with h | h
    · rcases addCodec_mem h with h | h
      · exact Or.inl h
      · exact Or.inr (by simp [h])
    · exact Or.inr (by simp [h])

theorem pushCodecs_mono : ∀ (cs neg : List CodecP) {c : CodecP}, c ∈ neg → c ∈ (pushCodecs neg cs).1 := by
  intro cs
  induction cs with
  | nil => intro neg c h; simpa [pushCodecs] using h
  | cons x cs ih =>
    intro neg c h
    simp only [pushCodecs]
    exact ih _ (addCodec_mono x h)

theorem pushCodecs_nodup : ∀ (cs neg : List CodecP), (neg.map (·.pt)).Nodup →
    ((pushCodecs neg cs).1.map (·.pt)).Nodup := by
  intro cs
  induction cs with
  | nil => intro neg h; simpa [pushCodecs] using h
  | cons x cs ih =>
    intro neg h
    simp only [pushCodecs]
    exact ih _ (addCodec_nodup x h)

@[simp] theorem setFlag_negCodecs (e : Engine) (k k' : Kind) : (e.setFlag k).negCodecs k' = e.negCodecs k' := by
  cases k <;> cases k' <;> rfl
@[simp] theorem setFlag_locals (e : Engine) (k k' : Kind) : (e.setFlag k).locals k' = e.locals k' := by
  cases k <;> cases k' <;> rfl
@[simp] theorem setFlag_multi (e : Engine) (k : Kind) : (e.setFlag k).multi = e.multi := by
  cases k <;> rfl
@[simp] theorem setFlag_audio (e : Engine) (k : Kind) : (e.setFlag k).audio = e.audio := by
  cases k <;> rfl
@[simp] theorem setFlag_video (e : Engine) (k : Kind) : (e.setFlag k).video = e.video := by
  cases k <;> rfl
@[simp] theorem setNeg_locals (e : Engine) (k k' : Kind) (l : List CodecP) : (e.setNeg k l).locals k' = e.locals k' := by
  cases k <;> cases k' <;> rfl
@[simp] theorem setNeg_multi (e : Engine) (k : Kind) (l : List CodecP) : (e.setNeg k l).multi = e.multi := by
  cases k <;> rfl
@[simp] theorem setNeg_audio (e : Engine) (k : Kind) (l : List CodecP) : (e.setNeg k l).audio = e.audio := by
  cases k <;> rfl
@[simp] theorem setNeg_video (e : Engine) (k : Kind) (l : List CodecP) : (e.setNeg k l).video = e.video := by
  cases k <;> rfl
@[simp] theorem setNeg_negFlag (e : Engine) (k k' : Kind) (l : List CodecP) : (e.setNeg k l).negFlag k' = e.negFlag k' := by
  cases k <;> cases k' <;> rfl
theorem setNeg_negCodecs_same (e : Engine) (k : Kind) (l : List CodecP) (hk : k ≠ .other) :
    (e.setNeg k l).negCodecs k = l := by
  cases k <;> first | rfl | exact absurd rfl hk
theorem setNeg_negCodecs_other (e : Engine) (k k' : Kind) (l : List CodecP) (hk : k ≠ k') :
    (e.setNeg k l).negCodecs k' = e.negCodecs k' := by
  cases k <;> cases k' <;> first | rfl | exact absurd rfl hk
theorem setFlag_negFlag_same (e : Engine) (k : Kind) (hk : k ≠ .other) : (e.setFlag k).negFlag k = true := by
  cases k <;> first | rfl | exact absurd rfl hk
theorem setFlag_negFlag_mono (e : Engine) (k k' : Kind) (h : e.negFlag k' = true) : (e.setFlag k).negFlag k' = true := by
  cases k <;> cases k' <;> first | exact h | rfl

/-- what one section can do to the engine -/
inductive SectionEffect (e : Engine) (s : Section) : Engine × Option Err → Prop
  | noPush (e1 : Engine) (er : Option Err)
      (he1 : e1 = e ∨ (e1 = e.setFlag (kindOf s.media) ∧ kindOf s.media ≠ .other)) :
      SectionEffect e s (e1, er)
  | pushed (e1 : Engine) (rs ex pa : List CodecP) (er : Option Err)
      (hk : kindOf s.media ≠ .other)
      (he1 : e1 = e ∨ e1 = e.setFlag (kindOf s.media))
      (hflag : e1.negFlag (kindOf s.media) = true)
      (hrs : s.codecs = some rs)
      (hm : matchSection (e.locals (kindOf s.media)) rs = .ok (ex, pa)) :
      SectionEffect e s
        (e1.setNeg (kindOf s.media) (pushCodecs (e1.negCodecs (kindOf s.media)) (chosen ex pa)).1, er)

theorem updateSection_effect (e : Engine) (s : Section) : SectionEffect e s (updateSection e s) := by
  unfold updateSection
  simp only
  split
  · exact .noPush e none (Or.inl rfl)
  · rename_i hgo
    by_cases hfirst : (kindOf s.media != Kind.other && !e.negFlag (kindOf s.media)) = true
    · have hk : kindOf s.media ≠ .other := by
        intro h; rw [h] at hfirst; simp at hfirst
      simp only [hfirst, if_true, setFlag_locals, setFlag_negCodecs]
      split
      · exact .noPush _ _ (Or.inr ⟨rfl, hk⟩)
      · rename_i rs heq
        split
        · exact .noPush _ _ (Or.inr ⟨rfl, hk⟩)
        · rename_i _ ex pa hm
          split
          · exact .noPush _ _ (Or.inr ⟨rfl, hk⟩)
          · have h1 := SectionEffect.pushed (e := e) (s := s) (e.setFlag (kindOf s.media)) rs ex pa (if (pushCodecs (e.negCodecs (kindOf s.media)) (chosen ex pa)).2 = true then some Err.dup else none) hk (Or.inr rfl) (setFlag_negFlag_same e _ hk) heq hm
            simpa using h1
    · have hnf : (kindOf s.media != Kind.other && !e.negFlag (kindOf s.media)) = false := by
        simpa using hfirst
      rw [hnf] at hgo
      simp only [Bool.not_false, Bool.true_and, Bool.or_eq_true, Bool.not_eq_true', beq_iff_eq, not_or,
        Bool.not_eq_false] at hgo
      have hk : kindOf s.media ≠ .other := hgo.2
      have hflag : e.negFlag (kindOf s.media) = true := by
        cases hf : e.negFlag (kindOf s.media) with
        | true => rfl
        | false =>
          rw [hf] at hnf
          simp at hnf
          exact absurd hnf hk
      simp only [hnf, Bool.false_eq_true, if_false]
      split
      · exact .noPush _ _ (Or.inl rfl)
      · rename_i rs heq
        split
        · exact .noPush _ _ (Or.inl rfl)
        · rename_i _ ex pa hm
          split
          · exact .noPush _ _ (Or.inl rfl)
          · exact SectionEffect.pushed (e := e) (s := s) e rs ex pa _ hk (Or.inl rfl) hflag heq hm


variable {e : Engine} {s : Section} {r : Engine × Option Err}

theorem effect_frame (h : SectionEffect e s r) :
    r.1.audio = e.audio ∧ r.1.video = e.video ∧ r.1.multi = e.multi := by
  cases h with
  | noPush e1 er he1 =>
    rcases he1 with h | ⟨h, _⟩ <;> subst h <;> simp
  | pushed e1 rs ex pa er hk he1 hflag hrs hm =>
    rcases he1 with h | h <;> subst h <;> simp

theorem effect_locals (h : SectionEffect e s r) (k : Kind) : r.1.locals k = e.locals k := by
  have := effect_frame h
  cases k <;> simp [Engine.locals, this.1, this.2.1]

theorem effect_neg (h : SectionEffect e s r) {k : Kind} {c : CodecP} (hc : c ∈ r.1.negCodecs k) :
    c ∈ e.negCodecs k ∨ (kindOf s.media = k ∧ ∃ rs ex pa, s.codecs = some rs ∧
      matchSection (e.locals k) rs = .ok (ex, pa) ∧ c ∈ chosen ex pa) := by
  cases h with
  | noPush e1 er he1 =>
    rcases he1 with h | ⟨h, _⟩
    · subst h; exact Or.inl hc
    · subst h; simp only [setFlag_negCodecs] at hc; exact Or.inl hc
  | pushed e1 rs ex pa er hk he1 hflag hrs hm =>
    have hneg : e1.negCodecs (kindOf s.media) = e.negCodecs (kindOf s.media) := by
      rcases he1 with h | h <;> subst h <;> simp
    by_cases hkk : kindOf s.media = k
    · subst hkk
      simp only [setNeg_negCodecs_same _ _ _ hk, hneg] at hc
      rcases pushCodecs_mem _ _ hc with h | h
      · exact Or.inl h
      · exact Or.inr ⟨rfl, rs, ex, pa, hrs, hm, h⟩
    · simp only [setNeg_negCodecs_other _ _ _ _ hkk] at hc
      rcases he1 with h | h
      · subst h; exact Or.inl hc
      · subst h; simp only [setFlag_negCodecs] at hc; exact Or.inl hc

theorem effect_neg_mono (h : SectionEffect e s r) {k : Kind} {c : CodecP} (hc : c ∈ e.negCodecs k) :
    c ∈ r.1.negCodecs k := by
  cases h with
  | noPush e1 er he1 =>
    rcases he1 with h | ⟨h, _⟩ <;> subst h <;> simpa using hc
  | pushed e1 rs ex pa er hk he1 hflag hrs hm =>
    have hneg : ∀ k', e1.negCodecs k' = e.negCodecs k' := by
      intro k'; rcases he1 with h | h <;> subst h <;> simp
    by_cases hkk : kindOf s.media = k
    · subst hkk
      simp only [setNeg_negCodecs_same _ _ _ hk, hneg]
      exact pushCodecs_mono _ _ hc
    · simp only [setNeg_negCodecs_other _ _ _ _ hkk, hneg]
      exact hc

theorem effect_nodup (h : SectionEffect e s r) (hn : ∀ k, ((e.negCodecs k).map (·.pt)).Nodup) :
    ∀ k, ((r.1.negCodecs k).map (·.pt)).Nodup := by
  intro k
  cases h with
  | noPush e1 er he1 =>
    rcases he1 with h | ⟨h, _⟩ <;> subst h <;> simpa using hn k
  | pushed e1 rs ex pa er hk he1 hflag hrs hm =>
    have hneg : ∀ k', e1.negCodecs k' = e.negCodecs k' := by
      intro k'; rcases he1 with h | h <;> subst h <;> simp
    by_cases hkk : kindOf s.media = k
    · subst hkk
      simp only [setNeg_negCodecs_same _ _ _ hk, hneg]
      exact pushCodecs_nodup _ _ (hn _)
    · simp only [setNeg_negCodecs_other _ _ _ _ hkk, hneg]
      exact hn k

/-- a kind whose negotiated list is non-empty is flagged as negotiated -/
def FlagInv (e : Engine) : Prop := ∀ k, e.negCodecs k ≠ [] → e.negFlag k = true

theorem effect_flagInv (h : SectionEffect e s r) (hi : FlagInv e) : FlagInv r.1 := by
  intro k hne
  cases h with
  | noPush e1 er he1 =>
    rcases he1 with h | ⟨h, _⟩
    · subst h; exact hi k hne
    · subst h
      simp only [setFlag_negCodecs] at hne
      exact setFlag_negFlag_mono _ _ _ (hi k hne)
  | pushed e1 rs ex pa er hk he1 hflag hrs hm =>
    simp only [setNeg_negFlag]
    by_cases hkk : kindOf s.media = k
    · subst hkk; exact hflag
    · simp only [setNeg_negCodecs_other _ _ _ _ hkk] at hne
      rcases he1 with h | h
      · subst h; exact hi k hne
      · subst h
        simp only [setFlag_negCodecs] at hne
        exact setFlag_negFlag_mono _ _ _ (hi k hne)

theorem effect_flag_mono (h : SectionEffect e s r) {k : Kind} (hf : e.negFlag k = true) :
    r.1.negFlag k = true := by
  cases h with
  | noPush e1 er he1 =>
    rcases he1 with h | ⟨h, _⟩
    · subst h; exact hf
    · subst h; exact setFlag_negFlag_mono _ _ _ hf
  | pushed e1 rs ex pa er hk he1 hflag hrs hm =>
    simp only [setNeg_negFlag]
    rcases he1 with h | h
    · subst h; exact hf
    · subst h; exact setFlag_negFlag_mono _ _ _ hf

/-! ### whole descriptions and histories of descriptions -/

theorem update_frame : ∀ (secs : List Section) (e : Engine),
    (update e secs).1.audio = e.audio ∧ (update e secs).1.video = e.video ∧
      (update e secs).1.multi = e.multi := by
  intro secs
  induction secs with
  | nil => intro e; simp [update]
  | cons s rest ih =>
    intro e
    have hf := effect_frame (updateSection_effect e s)
    unfold update
    split
    · rename_i e' er heq
      rw [heq] at hf; exact hf
    · rename_i e' heq
      rw [heq] at hf
      have := ih e'
      simp only at hf
      exact ⟨this.1.trans hf.1, this.2.1.trans hf.2.1, this.2.2.trans hf.2.2⟩

theorem update_locals (secs : List Section) (e : Engine) (k : Kind) :
    (update e secs).1.locals k = e.locals k := by
  have := update_frame secs e
  cases k <;> simp [Engine.locals, this.1, this.2.1]

/-- provenance of a negotiated codec after one description -/
theorem update_neg : ∀ (secs : List Section) (e : Engine) {k : Kind} {c : CodecP},
    c ∈ (update e secs).1.negCodecs k →
    c ∈ e.negCodecs k ∨ ∃ s ∈ secs, kindOf s.media = k ∧ ∃ rs ex pa, s.codecs = some rs ∧
      matchSection (e.locals k) rs = .ok (ex, pa) ∧ c ∈ chosen ex pa := by
  intro secs
  induction secs with
  | nil => intro e k c h; exact Or.inl (by simpa [update] using h)
  | cons s rest ih =>
    intro e k c h
    have heff := updateSection_effect e s
    unfold update at h
    split at h
    · rename_i e' er heq
      rw [heq] at heff
      rcases effect_neg heff h with h | ⟨hk, rs, ex, pa, h1, h2, h3⟩
      · exact Or.inl h
      · exact Or.inr ⟨s, by simp, hk, rs, ex, pa, h1, h2, h3⟩
    · rename_i e' heq
      rw [heq] at heff
      rcases ih e' h with h | ⟨s', hs', hk, rs, ex, pa, h1, h2, h3⟩
      · rcases effect_neg heff h with h | ⟨hk, rs, ex, pa, h1, h2, h3⟩
        · exact Or.inl h
        · exact Or.inr ⟨s, by simp, hk, rs, ex, pa, h1, h2, h3⟩
      · rw [effect_locals heff k] at h2
        exact Or.inr ⟨s', by simp [hs'], hk, rs, ex, pa, h1, h2, h3⟩

theorem update_inv {P : Engine → Prop}
    (step : ∀ e s, P e → P (updateSection e s).1) :
    ∀ (secs : List Section) (e : Engine), P e → P (update e secs).1 := by
  intro secs
  induction secs with
  | nil => intro e h; simpa [update] using h
  | cons s rest ih =>
    intro e h
    have hs := step e s h
    unfold update
    split
    · rename_i e' er heq; rw [heq] at hs; exact hs
    · rename_i e' heq; rw [heq] at hs; exact ih e' hs

theorem updateMany_inv {P : Engine → Prop}
    (step : ∀ e s, P e → P (updateSection e s).1) :
    ∀ (descs : List (List Section)) (e : Engine), P e → P (updateMany e descs).1 := by
  intro descs
  induction descs with
  | nil => intro e h; simpa [updateMany] using h
  | cons d ds ih =>
    intro e h
    simp only [updateMany]
    exact ih _ (update_inv step d e h)

theorem updateMany_locals (descs : List (List Section)) (e : Engine) (k : Kind) :
    (updateMany e descs).1.locals k = e.locals k :=
  updateMany_inv (P := fun e' => e'.locals k = e.locals k)
    (fun e' s h => (effect_locals (updateSection_effect e' s) k).trans h) descs e rfl

/-- provenance of a negotiated codec after a history of descriptions -/
theorem updateMany_neg : ∀ (descs : List (List Section)) (e : Engine) {k : Kind} {c : CodecP},
    c ∈ (updateMany e descs).1.negCodecs k →
    c ∈ e.negCodecs k ∨ ∃ d ∈ descs, ∃ s ∈ d, kindOf s.media = k ∧ ∃ rs ex pa, s.codecs = some rs ∧
      matchSection (e.locals k) rs = .ok (ex, pa) ∧ c ∈ chosen ex pa := by
  intro descs
  induction descs with
  | nil => intro e k c h; exact Or.inl (by simpa [updateMany] using h)
  | cons d ds ih =>
    intro e k c h
    simp only [updateMany] at h
    rcases ih _ h with h | ⟨d', hd', s, hs, hk, rs, ex, pa, h1, h2, h3⟩
    · rcases update_neg d e h with h | ⟨s, hs, hk, rs, ex, pa, h1, h2, h3⟩
      · exact Or.inl h
      · exact Or.inr ⟨d, by simp, s, hs, hk, rs, ex, pa, h1, h2, h3⟩
    · rw [update_locals d e k] at h2
      exact Or.inr ⟨d', by simp [hd'], s, hs, hk, rs, ex, pa, h1, h2, h3⟩

end WebrtcVerif.Codec
