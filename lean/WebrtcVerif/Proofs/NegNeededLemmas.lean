import WebrtcVerif.Model.NegNeeded
/-!
  Lemmas about `Model/NegNeeded.lean` used by `Props/C04.lean`.

  Part 1: what one step does to the negotiation-needed bookkeeping (`isNN`, `events`, `fired`): `Eff`.
  Part 2: `checkNegotiationNeeded` only reads (mid, direction, sender's track) of the transceivers, the number
          of data channels and the current descriptions; which operations keep its value.
  Part 3: the invariant `K` behind "needed ⇒ fired".
-/
namespace WebrtcVerif.NegNeeded

/-! ### Part 1 — effect of a step on the bookkeeping -/

/-- everything the negotiation-needed log consists of is unchanged, and so are `sig` and `closed` -/
structure Keep (pc pc' : PC) : Prop where
  isNN : pc'.isNN = pc.isNN
  events : pc'.events = pc.events
  fired : pc'.fired = pc.fired
  sig : pc'.sig = pc.sig
  closed : pc'.closed = pc.closed

theorem Keep.refl (pc : PC) : Keep pc pc := ⟨rfl, rfl, rfl, rfl, rfl⟩

theorem Keep.trans {a b c : PC} (h1 : Keep a b) (h2 : Keep b c) : Keep a c :=
  ⟨h2.isNN.trans h1.isNN, h2.events.trans h1.events, h2.fired.trans h1.fired, h2.sig.trans h1.sig,
   h2.closed.trans h1.closed⟩

theorem keep_onNN (pc : PC) : Keep pc (onNN pc) := ⟨rfl, rfl, rfl, rfl, rfl⟩
theorem keep_enqueue (pc : PC) (op : QOp) : Keep pc (enqueue pc op) := ⟨rfl, rfl, rfl, rfl, rfl⟩
theorem keep_startRTP (pc : PC) (app : Bool) : Keep pc (startRTP pc app) := ⟨rfl, rfl, rfl, rfl, rfl⟩
theorem keep_addTransceiverRaw (pc : PC) (t : Tr) : Keep pc (addTransceiverRaw pc t) := ⟨rfl, rfl, rfl, rfl, rfl⟩

theorem keep_afterST (pc : PC) (rtp : Option Bool) : Keep pc (afterST pc rtp) := by
  cases rtp <;> simp [afterST, Keep.refl, keep_startRTP]

theorem keep_applyRemoteOffer (n : Nat) (secs : List Sec) (used : List Nat) (pc : PC) :
    Keep pc (applyRemoteOffer n secs used pc) := by
  induction secs generalizing used pc with
  | nil => exact Keep.refl _
  | cons s rest ih =>
    unfold applyRemoteOffer
    split
    · exact ih _ _
    · simp only
      split
      · refine Keep.trans ?_ (ih _ _)
        exact ⟨rfl, rfl, rfl, rfl, rfl⟩
      · exact Keep.trans (keep_addTransceiverRaw _ _) (ih _ _)

/-- the four things a step can do to the bookkeeping -/
inductive Eff (pc pc' : PC) : Prop
  | keep : pc'.isNN = pc.isNN → pc'.events = pc.events → pc'.fired = pc.fired → Eff pc pc'
  | stable : pc'.isNN = false → pc'.events = pc.events ++ [.stable] → pc'.fired = pc.fired → Eff pc pc'
  | rolledBack : pc'.isNN = false → pc'.events = pc.events ++ [.rolledBack] → pc'.fired = pc.fired → Eff pc pc'
  | withdrawn : pc.isNN = true → pc'.isNN = false → pc'.events = pc.events ++ [.withdrawn] →
      pc'.fired = pc.fired → Eff pc pc'
  | fire : pc.isNN = false → pc'.isNN = true → pc'.events = pc.events ++ [.fire] →
      pc'.fired = pc.fired ++ [{ sig := .stable, closed := false, needed := true }] → Eff pc pc'

theorem Eff.ofKeep {pc pc' : PC} (h : Keep pc pc') : Eff pc pc' := .keep h.isNN h.events h.fired

/-- `commitDesc` touches the four description slots only -/
structure SameCtl (pc pc' : PC) : Prop extends Keep pc pc' where
  queue : pc'.queue = pc.queue
  updFlag : pc'.updFlag = pc.updFlag

theorem sameCtl_commitDesc (pc : PC) (isLocal : Bool) (ty : Ty) (d : Desc) :
    SameCtl pc (commitDesc pc isLocal ty d) := by
  unfold commitDesc
  split <;> exact ⟨⟨rfl, rfl, rfl, rfl, rfl⟩, rfl, rfl⟩

/-- only a (final) answer or a rollback leads to stable -/
theorem checkNext_stable {cur : Sig} {isLocal : Bool} {ty : Ty} (h : checkNext cur isLocal ty = some .stable) :
    ty = .answer ∨ ty = .rollback := by
  cases cur <;> cases isLocal <;> cases ty <;> simp [checkNext] at h <;> simp

theorem descTy_ne_rollback (d : Desc) (prov : Bool) : descTy d prov ≠ .rollback := by
  unfold descTy; split
  · simp
  · split <;> simp

/-- the end of `setDescription` either keeps the bookkeeping (next state not stable) or clears the flag, logs
    the completed exchange / the rollback and queues the check -/
theorem applyChecked_cases {pc pc1 : PC} {isLocal : Bool} {ty : Ty} {d : Desc}
    (h : applyChecked pc isLocal ty d = some pc1) :
    (pc1.isNN = pc.isNN ∧ pc1.events = pc.events ∧ pc1.fired = pc.fired ∧ pc1.closed = pc.closed ∧
        pc1.queue = pc.queue ∧ pc1.updFlag = pc.updFlag ∧ pc1.sig ≠ .stable)
    ∨ (pc1.sig = .stable ∧ pc1.isNN = false ∧
        pc1.events = pc.events ++ [if ty == .rollback then .rolledBack else .stable] ∧ pc1.fired = pc.fired
        ∧ pc1.closed = pc.closed ∧ (pc1.updFlag = true ∨ QOp.nn ∈ pc1.queue) ∧ (ty = .answer ∨ ty = .rollback)) := by
  unfold applyChecked at h
  split at h
  · simp at h
  rename_i next hnext
  have hc := sameCtl_commitDesc pc isLocal ty d
  simp only at h
  split at h
  · rename_i hst
    have hst' : next = Sig.stable := by simpa using hst
    injection h with h
    subst h
    right
    refine ⟨hst', rfl, ?_, ?_, ?_, ?_, ?_⟩
    · show (commitDesc pc isLocal ty d).events ++ _ = _
      rw [hc.events]
    · exact hc.fired
    · exact hc.closed
    · show (onNN _).updFlag = true ∨ QOp.nn ∈ (onNN _).queue
      simp only [onNN]
      by_cases hq : (commitDesc pc isLocal ty d).queue.isEmpty = true <;> simp [hq]
    · rw [hst'] at hnext
      exact checkNext_stable hnext
  · rename_i hst
    injection h with h
    subst h
    left
    exact ⟨hc.isNN, hc.events, hc.fired, hc.closed, hc.queue, hc.updFlag, by simpa using hst⟩

theorem setDescription_applyChecked {pc pc1 : PC} {isLocal : Bool} {d : Desc} {prov : Bool}
    (h : setDescription pc isLocal d prov = some pc1) :
    applyChecked pc isLocal (descTy d prov) d = some pc1 ∧ pc.closed = false := by
  unfold setDescription at h
  by_cases hcl : pc.closed = true
  · simp [hcl] at h
  rw [if_neg hcl] at h
  split at h
  · simp at h
  split at h
  · simp at h
  exact ⟨h, by simpa using hcl⟩

/-- `setDescription` either keeps the bookkeeping (next state not stable) or records a completed exchange -/
theorem setDescription_cases {pc pc1 : PC} {isLocal : Bool} {d : Desc} {prov : Bool}
    (h : setDescription pc isLocal d prov = some pc1) :
    (pc1.isNN = pc.isNN ∧ pc1.events = pc.events ∧ pc1.fired = pc.fired ∧ pc1.closed = pc.closed ∧
        pc1.queue = pc.queue ∧ pc1.updFlag = pc.updFlag ∧ pc1.sig ≠ .stable ∧ pc.closed = false)
    ∨ (pc1.sig = .stable ∧ pc1.isNN = false ∧ pc1.events = pc.events ++ [.stable] ∧ pc1.fired = pc.fired
        ∧ pc1.closed = false ∧ (pc1.updFlag = true ∨ QOp.nn ∈ pc1.queue) ∧ descTy d prov = .answer) := by
  obtain ⟨ha, hcl⟩ := setDescription_applyChecked h
  rcases applyChecked_cases ha with ⟨h1, h2, h3, h4, h5, h6, h7⟩ | ⟨h1, h2, h3, h4, h5, h6, h7⟩
  · exact Or.inl ⟨h1, h2, h3, h4, h5, h6, h7, hcl⟩
  · have hty : descTy d prov = .answer := by
      rcases h7 with h7 | h7
      · exact h7
      · exact absurd h7 (descTy_ne_rollback d prov)
    refine Or.inr ⟨h1, h2, ?_, h4, by rw [h5, hcl], h6, hty⟩
    rw [h3, hty]; rfl

theorem eff_of_setDescription {pc pc1 : PC} {isLocal : Bool} {d : Desc} {prov : Bool}
    (h : setDescription pc isLocal d prov = some pc1) : Eff pc pc1 := by
  rcases setDescription_cases h with ⟨h1, h2, h3, _⟩ | ⟨_, h2, h3, h4, _, _⟩
  · exact .keep h1 h2 h3
  · exact .stable h2 h3 h4

theorem eff_trans_keep {a b c : PC} (h1 : Eff a b) (h2 : Keep b c) : Eff a c := by
  cases h1 with
  | keep x y z => exact .keep (h2.isNN.trans x) (h2.events.trans y) (h2.fired.trans z)
  | stable x y z => exact .stable (h2.isNN.trans x) (h2.events.trans y) (h2.fired.trans z)
  | rolledBack x y z => exact .rolledBack (h2.isNN.trans x) (h2.events.trans y) (h2.fired.trans z)
  | withdrawn w x y z => exact .withdrawn w (h2.isNN.trans x) (h2.events.trans y) (h2.fired.trans z)
  | fire w x y z => exact .fire w (h2.isNN.trans x) (h2.events.trans y) (h2.fired.trans z)

theorem keep_addTrack (pc : PC) (k : Kind) (trk : Nat) : Keep pc (addTrack pc k trk).1 := by
  unfold addTrack
  split
  · exact Keep.refl _
  · simp only
    split <;> exact ⟨rfl, rfl, rfl, rfl, rfl⟩

theorem keep_removeTrack (pc : PC) (sid : Nat) : Keep pc (removeTrack pc sid).1 := by
  unfold removeTrack
  split
  · exact Keep.refl _
  · split <;> exact ⟨rfl, rfl, rfl, rfl, rfl⟩

theorem keep_addTransceiver (pc : PC) (k : Kind) (d : Dir) : Keep pc (addTransceiver pc k d).1 := by
  unfold addTransceiver
  split
  · exact Keep.refl _
  · split <;> exact ⟨rfl, rfl, rfl, rfl, rfl⟩

theorem keep_createDataChannel (pc : PC) (f : Bool) : Keep pc (createDataChannel pc f).1 := by
  unfold createDataChannel
  split
  · exact Keep.refl _
  · split <;> exact ⟨rfl, rfl, rfl, rfl, rfl⟩

theorem keep_createOffer (pc : PC) : Keep pc (createOffer pc).1 := by
  unfold createOffer
  split
  · exact Keep.refl _
  · simp only
    repeat (first | exact ⟨rfl, rfl, rfl, rfl, rfl⟩ | split)

theorem keep_createAnswer (pc : PC) : Keep pc (createAnswer pc).1 := by
  unfold createAnswer
  split
  · exact Keep.refl _
  · split
    · exact Keep.refl _
    · split
      · exact Keep.refl _
      · split <;> exact ⟨rfl, rfl, rfl, rfl, rfl⟩

theorem eff_setLocal (pc : PC) (d : Desc) (prov : Bool) : Eff pc (setLocal pc d prov).1 := by
  unfold setLocal
  split
  · exact .ofKeep (Keep.refl _)
  · split
    · exact .ofKeep (Keep.refl _)
    · rename_i pc1 h
      have := eff_of_setDescription h
      split
      · exact eff_trans_keep this ⟨rfl, rfl, rfl, rfl, rfl⟩
      · split <;> exact eff_trans_keep this ⟨rfl, rfl, rfl, rfl, rfl⟩

theorem eff_setRemote (pc : PC) (d : Desc) (prov : Bool) : Eff pc (setRemote pc d prov).1 := by
  unfold setRemote
  split
  · exact .ofKeep (Keep.refl _)
  · simp only
    split
    · exact .ofKeep (Keep.refl _)
    · split
      · exact .ofKeep (Keep.refl _)
      · rename_i pc1 h
        have := eff_of_setDescription h
        split
        · split
          · exact eff_trans_keep this (keep_applyRemoteOffer _ _ _ _)
          · refine eff_trans_keep this (Keep.trans (keep_applyRemoteOffer pc1.trs.length d.secs [] pc1) ?_)
            exact ⟨rfl, rfl, rfl, rfl, rfl⟩
        · exact eff_trans_keep this ⟨rfl, rfl, rfl, rfl, rfl⟩

theorem eff_rollback (pc : PC) (isLocal : Bool) : Eff pc (rollback pc isLocal).1 := by
  unfold rollback
  split
  · exact .ofKeep (Keep.refl _)
  · split
    · exact .ofKeep (Keep.refl _)
    · rename_i pc1 h
      rcases applyChecked_cases h with ⟨h1, h2, h3, _⟩ | ⟨_, h2, h3, h4, _⟩
      · exact .keep h1 h2 h3
      · exact .rolledBack h2 (by rw [h3]; rfl) h4

/-- Close keeps the log (it changes `sig` and `closed`) -/
theorem eff_close (pc : PC) : Eff pc (close pc).1 := by
  unfold close
  split
  · exact .ofKeep (Keep.refl _)
  · simp only
    split
    · rename_i rtp _
      have := keep_afterST { pc with closed := true, sig := Sig.closed, trs := pc.trs.map Tr.stop, running := none } rtp
      exact .keep this.isNN this.events this.fired
    · exact .keep rfl rfl rfl
    · exact .keep rfl rfl rfl

theorem eff_api (pc : PC) (op : Api) : Eff pc (api pc op).1 := by
  cases op with
  | addTrack k trk => exact .ofKeep (keep_addTrack pc k trk)
  | removeTrack sid => exact .ofKeep (keep_removeTrack pc sid)
  | addTransceiver k d => exact .ofKeep (keep_addTransceiver pc k d)
  | createDataChannel f => exact .ofKeep (keep_createDataChannel pc f)
  | createOffer => exact .ofKeep (keep_createOffer pc)
  | createAnswer => exact .ofKeep (keep_createAnswer pc)
  | setLocal d prov => exact eff_setLocal pc d prov
  | setRemote d prov => exact eff_setRemote pc d prov
  | rollback isLocal => exact eff_rollback pc isLocal
  | close => exact eff_close pc

theorem keep_runTail (pc : PC) (t : Tail) : Keep pc (runTail pc t).1 := by
  cases t with
  | localAnswer ans remote =>
    simp only [runTail]
    split <;> exact ⟨rfl, rfl, rfl, rfl, rfl⟩
  | remoteAnswer ans isReneg =>
    simp only [runTail]
    split
    · exact ⟨rfl, rfl, rfl, rfl, rfl⟩
    · split <;> exact ⟨rfl, rfl, rfl, rfl, rfl⟩

/-- negotiationNeededOp: the only place where the handler runs, and only behind its guards -/
theorem eff_nnOp (pc : PC) : Eff pc (nnOp pc) := by
  unfold nnOp
  split
  · exact .keep rfl rfl rfl
  rename_i hcl
  split
  · exact .keep rfl rfl rfl
  split
  · exact .keep rfl rfl rfl
  rename_i hsig
  have hsig' : pc.sig = .stable := by simpa using hsig
  have hcl' : pc.closed = false := by simpa using hcl
  split
  · by_cases hn : pc.isNN = true
    · exact .withdrawn hn rfl (by simp [hn]) rfl
    · have hn' : pc.isNN = false := by simpa using hn
      exact .keep (by simp [hn']) (by simp [hn']) rfl
  rename_i hchk
  have hchk' : check pc = true := by simpa using hchk
  split
  · exact .keep rfl rfl rfl
  · rename_i hn
    have hn' : pc.isNN = false := by simpa using hn
    exact .fire hn' rfl rfl (by simp [hsig', hcl', hchk'])

theorem eff_runOp (pc : PC) (op : QOp) : Eff pc (runOp pc op) := by
  cases op with
  | nn => exact eff_nnOp pc
  | st rtp =>
    simp only [runOp]
    split
    · exact .ofKeep (keep_afterST _ _)
    · exact .keep rfl rfl rfl
  | rtp app => exact .ofKeep (keep_startRTP _ _)

theorem eff_work {pc pc' : PC} {env : Option Bool} (h : work pc env = some pc') : Eff pc pc' := by
  unfold work at h
  split at h
  · cases env with
    | none => simp at h
    | some ok =>
      simp only [Option.some.injEq] at h
      subst h
      refine .ofKeep (Keep.trans ?_ (keep_afterST _ _))
      exact ⟨rfl, rfl, rfl, rfl, rfl⟩
  · cases env with
    | none => simp at h
    | some ok =>
      simp only [Option.some.injEq] at h
      subst h
      exact .keep rfl rfl rfl
  · split at h
    · injection h with h; subst h
      rename_i op rest _
      have := eff_runOp { pc with queue := rest } op
      cases this with
      | keep x y z => exact .keep x y z
      | stable x y z => exact .stable x y z
      | rolledBack x y z => exact .rolledBack x y z
      | withdrawn w x y z => exact .withdrawn w x y z
      | fire w x y z => exact .fire w x y z
    · split at h
      · injection h with h; subst h; exact .keep rfl rfl rfl
      · simp at h

theorem eff_step {pc pc' : PC} {a : Act} (h : pc.step a = some pc') : Eff pc pc' := by
  cases a with
  | call op =>
    simp only [PC.step] at h
    split at h
    · simp at h
    · injection h with h; subst h; exact eff_api pc op
  | tail =>
    simp only [PC.step] at h
    split at h
    · injection h with h; subst h; exact .ofKeep (keep_runTail _ _)
    · simp at h
  | work env => exact eff_work h


/-! ### Part 2 — what `checkNegotiationNeeded` reads -/

/-- what `trNeeds` reads of a transceiver -/
def Tr.view (t : Tr) : Option Nat × Dir × Option (Option Nat) := (t.mid, t.dir, t.sender.map (·.track))

theorem trNeeds_congr {l : Desc} {r : Option Desc} {t t' : Tr} (h : t'.view = t.view) :
    trNeeds l r t' = trNeeds l r t := by
  simp only [Tr.view, Prod.mk.injEq] at h
  obtain ⟨hm, hd, hs⟩ := h
  unfold trNeeds
  rw [hm, hd]
  cases hs1 : t.sender <;> cases hs2 : t'.sender <;> simp [hs1, hs2] at hs ⊢
  rw [hs]

theorem any_trNeeds_congr {l : Desc} {r : Option Desc} :
    ∀ {ts ts' : List Tr}, ts'.map Tr.view = ts.map Tr.view → ts'.any (trNeeds l r) = ts.any (trNeeds l r)
  | [], [], _ => rfl
  | [], _ :: _, h => by simp at h
  | _ :: _, [], h => by simp at h
  | t :: ts, t' :: ts', h => by
    simp only [List.map_cons, List.cons.injEq] at h
    simp only [List.any_cons, trNeeds_congr h.1, any_trNeeds_congr h.2]

theorem check_congr {pc pc' : PC} (hl : pc'.curLocal = pc.curLocal) (hr : pc'.curRemote = pc.curRemote)
    (hd : pc'.dcs = pc.dcs) (ht : pc'.trs.map Tr.view = pc.trs.map Tr.view) : check pc' = check pc := by
  unfold check
  rw [hl, hr, hd]
  cases pc.curLocal with
  | none => rfl
  | some l => simp only [any_trNeeds_congr ht]

theorem check_true_of_congr {pc pc' : PC} (hl : pc'.curLocal = pc.curLocal) (hr : pc'.curRemote = pc.curRemote)
    (hd : pc'.dcs = pc.dcs) (ht : pc'.trs.map Tr.view = pc.trs.map Tr.view) (h : check pc' = true) :
    check pc = true := by
  rw [← check_congr hl hr hd ht]; exact h

theorem check_true_of_media_eq {pc pc' : PC} (h1 : pc'.curLocal = pc.curLocal) (h2 : pc'.curRemote = pc.curRemote)
    (h3 : pc'.dcs = pc.dcs) (h4 : pc'.trs = pc.trs) (h : check pc' = true) : check pc = true :=
  check_true_of_congr h1 h2 h3 (by rw [h4]) h

theorem view_markNegotiated (t : Tr) : t.markNegotiated.view = t.view := by
  simp only [Tr.view, Tr.markNegotiated, Prod.mk.injEq, true_and]
  cases t.sender <;> rfl

theorem markDescribed_view (trs : List Tr) (secs : List Sec) :
    (markDescribed trs secs).map Tr.view = trs.map Tr.view := by
  unfold markDescribed
  rw [List.map_map]
  apply List.map_congr_left
  intro t _
  simp only [Function.comp]
  split
  · split
    · exact view_markNegotiated t
    · rfl
  · rfl

theorem modify_view (trs : List Tr) (i : Nat) (f : Tr → Tr) (hf : ∀ t, (f t).view = t.view) :
    (trs.modify i f).map Tr.view = trs.map Tr.view := by
  induction trs generalizing i with
  | nil => simp
  | cons t ts ih =>
    cases i with
    | zero => simp [List.modify_cons, hf]
    | succ i => simp [ih]

theorem setCurDirs_view (weOffer : Bool) (secs : List Sec) (used : List Nat) (trs : List Tr) :
    (setCurDirs weOffer secs used trs).map Tr.view = trs.map Tr.view := by
  induction secs generalizing used trs with
  | nil => rfl
  | cons s rest ih =>
    unfold setCurDirs
    split
    · exact ih _ _
    · split
      · rfl
      · simp only
        rw [ih]
        exact modify_view _ _ _ (fun t => rfl)

theorem setCurDirs_nil (weOffer : Bool) (secs : List Sec) (used : List Nat) :
    setCurDirs weOffer secs used [] = [] := by
  have := setCurDirs_view weOffer secs used []
  simpa using this

theorem startSenders_view {trs trs' : List Tr} (h : startSenders trs = some trs') :
    trs'.map Tr.view = trs.map Tr.view := by
  induction trs generalizing trs' with
  | nil => simp [startSenders] at h; subst h; rfl
  | cons t ts ih =>
    unfold startSenders at h
    split at h
    · rename_i s hs
      split at h
      · split at h
        · simp at h
        · rename_i trk htrk
          cases hr : startSenders ts with
          | none => simp [hr] at h
          | some r =>
            simp only [hr, Option.map_some, Option.some.injEq] at h
            subst h
            simp only [List.map_cons, ih hr, List.cons.injEq, and_true]
            simp [Tr.view, hs]
      · cases hr : startSenders ts with
        | none => simp [hr] at h
        | some r =>
          simp only [hr, Option.map_some, Option.some.injEq] at h
          subst h
          simp only [List.map_cons, ih hr]
    · cases hr : startSenders ts with
      | none => simp [hr] at h
      | some r =>
        simp only [hr, Option.map_some, Option.some.injEq] at h
        subst h
        simp only [List.map_cons, ih hr]

/-- a transceiver without mid needs negotiation whatever the description says (step 5.2) -/
theorem trNeeds_of_no_mid {l : Desc} {r : Option Desc} {t : Tr} (h : t.mid = none) : trNeeds l r t = true := by
  unfold trNeeds
  simp [h, getByMid]

/-- assigning mids in CreateOffer never makes negotiation needed: a transceiver that gets a mid had none -/
theorem any_assignMids {l : Desc} {r : Option Desc} (nm : Nat) (trs : List Tr)
    (h : (assignMids nm trs).2.any (trNeeds l r) = true) : trs.any (trNeeds l r) = true := by
  induction trs generalizing nm with
  | nil => simp [assignMids] at h
  | cons t ts ih =>
    unfold assignMids at h
    split at h
    · simp only [List.any_cons, Bool.or_eq_true] at h ⊢
      rcases h with h | h
      · exact Or.inl h
      · exact Or.inr (ih _ h)
    · rename_i hm
      simp only [List.any_cons, Bool.or_eq_true]
      exact Or.inl (trNeeds_of_no_mid hm)

theorem assignMids_nil (nm : Nat) : (assignMids nm []).2 = [] := rfl

/-- the errRTPTransceiverSetSendingInvalidState path of RemoveTrack detaches a sender from a transceiver that
    is not sending: step 5.3.1 does not look at it -/
theorem detach_err_any {l : Desc} {r : Option Desc} {sid : Nat} {trs trs' : List Tr}
    (h : detach sid trs = some (trs', false)) : trs'.any (trNeeds l r) = trs.any (trNeeds l r) := by
  induction trs generalizing trs' with
  | nil => simp [detach] at h
  | cons t ts ih =>
    unfold detach at h
    split at h
    · split at h
      · simp at h
      · simp at h
      · rename_i hsr hso
        simp only [Option.some.injEq, Prod.mk.injEq, and_true] at h
        subst h
        simp only [List.any_cons]
        congr 1
        unfold trNeeds
        have hns : t.dir.sending = false := by
          cases hd : t.dir <;> simp_all [Dir.sending]
        simp [hns]
    · cases hr : detach sid ts with
      | none => simp [hr] at h
      | some r' =>
        obtain ⟨r1, r2⟩ := r'
        simp only [hr, Option.map_some, Option.some.injEq, Prod.mk.injEq] at h
        obtain ⟨h1, h2⟩ := h
        subst h1
        subst h2
        simp only [List.any_cons, ih hr]

theorem detach_nil (sid : Nat) : detach sid [] = none := rfl

/-! ### Part 3 — the invariant behind "needed ⇒ fired" -/

/-- the flag agrees with the check whenever the check matters -/
def settled (pc : PC) : Prop := pc.sig = .stable → pc.closed = false → check pc = true → pc.isNN = true

/-- a negotiationNeededOp is still to come -/
def pending (pc : PC) : Prop := pc.updFlag = true ∨ QOp.nn ∈ pc.queue

def K (pc : PC) : Prop := pc.pristine = true ∨ settled pc ∨ pending pc ∨ pc.dcOpenFailed = true

theorem pending_onNN (pc : PC) : pending (onNN pc) := by
  unfold pending onNN
  by_cases hq : pc.queue.isEmpty = true <;> simp [hq]

theorem K_onNN (pc : PC) : K (onNN pc) := Or.inr (Or.inr (Or.inl (pending_onNN pc)))

theorem K_of_not_stable {pc : PC} (h : pc.sig ≠ .stable) : K pc := Or.inr (Or.inl (fun hs => absurd hs h))

theorem K_of_closed {pc : PC} (h : pc.closed = true) : K pc :=
  Or.inr (Or.inl (fun _ hc => by rw [h] at hc; cases hc))

/-- a step that keeps the control state, does not lose a pending evaluation and cannot make the check true -/
theorem K_of_same {pc pc' : PC} (hK : K pc) (hsig : pc'.sig = pc.sig) (hcl : pc'.closed = pc.closed)
    (hnn : pc'.isNN = pc.isNN) (hflag : pc.updFlag = true → pc'.updFlag = true)
    (hq : QOp.nn ∈ pc.queue → QOp.nn ∈ pc'.queue) (hdc : pc.dcOpenFailed = true → pc'.dcOpenFailed = true)
    (hpr : pc.pristine = true → pc'.pristine = true) (hchk : check pc' = true → check pc = true) : K pc' := by
  rcases hK with h | h | h | h
  · exact Or.inl (hpr h)
  · refine Or.inr (Or.inl ?_)
    intro h1 h2 h3
    rw [hnn]
    exact h (hsig ▸ h1) (hcl ▸ h2) (hchk h3)
  · refine Or.inr (Or.inr (Or.inl ?_))
    rcases h with h | h
    · exact Or.inl (hflag h)
    · exact Or.inr (hq h)
  · exact Or.inr (Or.inr (Or.inr (hdc h)))


theorem K_addTrack {pc : PC} (hK : K pc) (k : Kind) (trk : Nat) : K (addTrack pc k trk).1 := by
  unfold addTrack
  split
  · exact hK
  · simp only
    split
    · exact K_onNN _
    · exact K_onNN _

theorem K_removeTrack {pc : PC} (hK : K pc) (sid : Nat) : K (removeTrack pc sid).1 := by
  unfold removeTrack
  split
  · exact hK
  · split
    · exact hK
    · exact K_onNN _
    · rename_i trs hd
      refine K_of_same hK rfl rfl rfl id id id ?_ ?_
      · intro hp
        have : pc.trs = [] := by
          simp only [PC.pristine, Bool.and_eq_true, List.isEmpty_iff] at hp
          exact hp.1.1
        rw [this, detach_nil] at hd
        cases hd
      · intro hc
        unfold check at hc ⊢
        simp only at hc
        cases hl : pc.curLocal with
        | none => rfl
        | some l =>
          simp only [hl] at hc
          rw [detach_err_any hd] at hc
          exact hc

theorem K_addTransceiver {pc : PC} (hK : K pc) (k : Kind) (d : Dir) : K (addTransceiver pc k d).1 := by
  unfold addTransceiver
  split
  · exact hK
  · split
    · exact hK
    · exact K_onNN _
    · exact K_onNN _

theorem K_createDataChannel {pc : PC} (hK : K pc) (f : Bool) : K (createDataChannel pc f).1 := by
  unfold createDataChannel
  split
  · exact hK
  · split
    · exact Or.inr (Or.inr (Or.inr rfl))
    · exact K_onNN _

/-- CreateOffer / CreateAnswer change mids (from none), negotiated marks, `nextMid` and the remembered text -/
theorem K_of_redescribed {pc : PC} (hK : K pc) (nm : Nat) (trs' : List Tr) (lo la : Option Desc)
    (hany : ∀ l r, trs'.any (trNeeds l r) = true → pc.trs.any (trNeeds l r) = true)
    (hnil : pc.trs = [] → trs' = []) :
    K { pc with nextMid := nm, trs := trs', lastOffer := lo, lastAnswer := la } := by
  refine K_of_same hK rfl rfl rfl id id id ?_ ?_
  · intro hp
    simp only [PC.pristine, Bool.and_eq_true, List.isEmpty_iff] at hp ⊢
    exact ⟨⟨hnil hp.1.1, hp.1.2⟩, hp.2⟩
  · intro hc
    unfold check at hc ⊢
    simp only at hc
    cases hl : pc.curLocal with
    | none => rfl
    | some l =>
      simp only [hl, Bool.or_eq_true] at hc ⊢
      rcases hc with hc | hc
      · exact Or.inl hc
      · exact Or.inr (hany _ _ hc)

theorem any_markDescribed {l : Desc} {r : Option Desc} (trs : List Tr) (secs : List Sec) :
    (markDescribed trs secs).any (trNeeds l r) = trs.any (trNeeds l r) :=
  any_trNeeds_congr (markDescribed_view trs secs)

theorem markDescribed_nil (secs : List Sec) : markDescribed [] secs = [] := rfl

theorem K_createOffer {pc : PC} (hK : K pc) : K (createOffer pc).1 := by
  unfold createOffer
  split
  · exact hK
  · simp only
    repeat (first
      | exact K_of_redescribed hK _ _ pc.lastOffer pc.lastAnswer (fun l r h => any_assignMids _ _ h)
          (fun h => by rw [h]; rfl)
      | exact K_of_redescribed hK _ _ _ pc.lastAnswer
          (fun l r h => any_assignMids _ _ (by rwa [any_markDescribed] at h)) (fun h => by rw [h]; rfl)
      | split)

/-- CreateAnswer narrows directions, but only ever succeeds in have-remote-offer -/
theorem K_createAnswer {pc : PC} (hK : K pc) : K (createAnswer pc).1 := by
  unfold createAnswer
  split
  · exact hK
  · split
    · exact hK
    · split
      · exact hK
      · rename_i hsig
        have hs : pc.sig ≠ .stable := by
          intro h; rw [h] at hsig; simp at hsig
        split
        · exact hK
        · exact K_of_not_stable (by
            show pc.sig ≠ .stable
            exact hs)

theorem K_of_setDescription {pc pc1 : PC} {isLocal : Bool} {d : Desc} {prov : Bool}
    (h : setDescription pc isLocal d prov = some pc1) : pc1.sig ≠ .stable ∨ pending pc1 := by
  rcases setDescription_cases h with ⟨_, _, _, _, _, _, h7, _⟩ | ⟨_, _, _, _, _, h6, _⟩
  · exact Or.inl h7
  · exact Or.inr h6

theorem K_of_pending {pc : PC} (h : pending pc) : K pc := Or.inr (Or.inr (Or.inl h))

theorem K_of_either {pc : PC} (h : pc.sig ≠ .stable ∨ pending pc) : K pc := by
  rcases h with h | h
  · exact K_of_not_stable h
  · exact K_of_pending h

theorem K_setLocal {pc : PC} (hK : K pc) (d : Desc) (prov : Bool) : K (setLocal pc d prov).1 := by
  unfold setLocal
  split
  · exact hK
  · split
    · exact hK
    · rename_i pc1 h
      have h1 := K_of_setDescription h
      split
      · exact K_of_either h1
      · split <;> exact K_of_either h1

theorem sig_applyRemoteOffer (n : Nat) (secs : List Sec) (used : List Nat) (pc : PC) :
    (applyRemoteOffer n secs used pc).sig = pc.sig := (keep_applyRemoteOffer n secs used pc).sig

theorem K_setRemote {pc : PC} (hK : K pc) (d : Desc) (prov : Bool) : K (setRemote pc d prov).1 := by
  unfold setRemote
  split
  · exact hK
  · simp only
    split
    · exact hK
    split
    · exact hK
    · rename_i pc1 h
      split
      · -- an offer or a provisional answer: the next state is not stable whatever happens next
        rename_i hty
        have hs : pc1.sig ≠ .stable := by
          rcases setDescription_cases h with ⟨_, _, _, _, _, _, h7, _⟩ | ⟨_, _, _, _, _, _, h7⟩
          · exact h7
          · rw [h7] at hty; simp at hty
        split
        · exact K_of_not_stable (by rw [sig_applyRemoteOffer]; exact hs)
        · exact K_of_not_stable (by
            show (applyRemoteOffer _ _ _ pc1).sig ≠ .stable
            rw [sig_applyRemoteOffer]; exact hs)
      · have h1 := K_of_setDescription h
        exact K_of_either h1

/-- a rollback into stable queues the check like a completed exchange does -/
theorem K_rollback {pc : PC} (hK : K pc) (isLocal : Bool) : K (rollback pc isLocal).1 := by
  unfold rollback
  split
  · exact hK
  · split
    · exact hK
    · rename_i pc1 h
      rcases applyChecked_cases h with ⟨_, _, _, _, _, _, h7⟩ | ⟨_, _, _, _, _, h6, _⟩
      · exact K_of_not_stable h7
      · exact K_of_pending h6

theorem closed_afterST (pc : PC) (rtp : Option Bool) : (afterST pc rtp).closed = pc.closed :=
  (keep_afterST pc rtp).closed

theorem K_close (pc : PC) (hK : K pc) : K (close pc).1 := by
  unfold close
  split
  · exact hK
  · simp only
    split
    · exact K_of_closed (by rw [closed_afterST])
    · exact K_of_closed rfl
    · exact K_of_closed rfl

theorem K_api {pc : PC} (hK : K pc) (op : Api) : K (api pc op).1 := by
  cases op with
  | addTrack k trk => exact K_addTrack hK k trk
  | removeTrack sid => exact K_removeTrack hK sid
  | addTransceiver k d => exact K_addTransceiver hK k d
  | createDataChannel f => exact K_createDataChannel hK f
  | createOffer => exact K_createOffer hK
  | createAnswer => exact K_createAnswer hK
  | setLocal d prov => exact K_setLocal hK d prov
  | setRemote d prov => exact K_setRemote hK d prov
  | rollback isLocal => exact K_rollback hK isLocal
  | close => exact K_close pc hK

/-- the tail of SetLocal/SetRemoteDescription(answer) changes current directions and `sent` marks and
    enqueues: nothing checkNegotiationNeeded reads (so an early negotiationNeededOp saw the same values) -/
theorem K_runTail {pc : PC} (hK : K pc) (t : Tail) : K (runTail pc t).1 := by
  have key : ∀ (trs' : List Tr) (q : List QOp) (g : Bool) (sf : Option Bool),
      trs'.map Tr.view = pc.trs.map Tr.view → (QOp.nn ∈ pc.queue → QOp.nn ∈ q) →
      K { pc with tail := none, trs := trs', queue := q, gathered := g, stFromOffer := sf } := by
    intro trs' q g sf hv hq
    refine K_of_same hK rfl rfl rfl id hq id ?_ ?_
    · intro hp
      simp only [PC.pristine, Bool.and_eq_true, List.isEmpty_iff] at hp ⊢
      have : pc.trs = [] := hp.1.1
      rw [this] at hv
      exact ⟨⟨by simpa using hv, hp.1.2⟩, hp.2⟩
    · intro hc
      exact check_true_of_congr
        (pc' := { pc with tail := none, trs := trs', queue := q, gathered := g, stFromOffer := sf })
        rfl rfl rfl hv hc
  cases t with
  | localAnswer ans remote =>
    simp only [runTail]
    split
    · exact key _ pc.queue pc.gathered pc.stFromOffer (setCurDirs_view _ _ _ _) id
    · rename_i trs hs
      exact key _ _ true pc.stFromOffer ((startSenders_view hs).trans (setCurDirs_view _ _ _ _))
        (fun h => List.mem_append_left _ h)
  | remoteAnswer ans isReneg =>
    simp only [runTail]
    split
    · exact key _ pc.queue pc.gathered pc.stFromOffer (setCurDirs_view _ _ _ _) id
    · rename_i trs hs
      split
      · exact key _ _ pc.gathered pc.stFromOffer ((startSenders_view hs).trans (setCurDirs_view _ _ _ _))
          (fun h => List.mem_append_left _ h)
      · exact key _ _ pc.gathered _ ((startSenders_view hs).trans (setCurDirs_view _ _ _ _))
          (fun h => List.mem_append_left _ h)

theorem check_of_media_eq {pc pc' : PC} (h1 : pc'.curLocal = pc.curLocal) (h2 : pc'.curRemote = pc.curRemote)
    (h3 : pc'.dcs = pc.dcs) (h4 : pc'.trs = pc.trs) : check pc' = check pc :=
  check_congr h1 h2 h3 (by rw [h4])

/-- negotiationNeededOp leaves the state settled, or sets the flag because the queue is not empty -/
theorem K_nnOp (pc : PC) : K (nnOp pc) := by
  unfold nnOp
  split
  · rename_i h; exact K_of_closed h
  split
  · exact K_of_pending (Or.inl rfl)
  split
  · rename_i h; exact K_of_not_stable (by simpa using h)
  split
  · rename_i h
    refine Or.inr (Or.inl ?_)
    intro _ _ hc
    have : check { pc with isNN := false, events := if pc.isNN then pc.events ++ [.withdrawn] else pc.events }
        = check pc := check_of_media_eq rfl rfl rfl rfl
    rw [this] at hc
    simp [hc] at h
  split
  · rename_i h; exact Or.inr (Or.inl (fun _ _ _ => h))
  · exact Or.inr (Or.inl (fun _ _ _ => rfl))

theorem K_startRTP {pc : PC} (hK : K pc) (app : Bool) : K (startRTP pc app) :=
  K_of_same hK rfl rfl rfl id id id id (fun h => check_true_of_media_eq rfl rfl rfl rfl h)

theorem K_afterST {pc : PC} (hK : K pc) (rtp : Option Bool) : K (afterST pc rtp) := by
  cases rtp with
  | none => exact hK
  | some app => exact K_startRTP hK app

theorem K_work {pc pc' : PC} {env : Option Bool} (hK : K pc) (h : work pc env = some pc') : K pc' := by
  unfold work at h
  split at h
  · cases env with
    | none => simp at h
    | some ok =>
      simp only [Option.some.injEq] at h
      subst h
      refine K_afterST ?_ _
      exact K_of_same hK rfl rfl rfl id id id id
        (fun h => check_true_of_media_eq rfl rfl rfl rfl h)
  · cases env with
    | none => simp at h
    | some ok =>
      simp only [Option.some.injEq] at h
      subst h
      exact K_of_same hK rfl rfl rfl id id id id
        (fun h => check_true_of_media_eq rfl rfl rfl rfl h)
  · split at h
    · rename_i op rest hq
      injection h with h
      subst h
      cases op with
      | nn => exact K_nnOp _
      | st rtp =>
        have hK' : K { pc with queue := rest } :=
          K_of_same hK rfl rfl rfl id (fun h => by rw [hq] at h; simpa using h) id id
            (fun h => check_true_of_media_eq rfl rfl rfl rfl h)
        simp only [runOp]
        split
        · exact K_afterST hK' _
        · exact K_of_same hK' rfl rfl rfl id id id id
            (fun h => check_true_of_media_eq rfl rfl rfl rfl h)
      | rtp app =>
        have hK' : K { pc with queue := rest } :=
          K_of_same hK rfl rfl rfl id (fun h => by rw [hq] at h; simpa using h) id id
            (fun h => check_true_of_media_eq rfl rfl rfl rfl h)
        exact K_startRTP hK' app
    · split at h
      · injection h with h
        subst h
        exact K_onNN _
      · simp at h

theorem K_init : K {} := Or.inl rfl

theorem K_step {pc pc' : PC} {a : Act} (hK : K pc) (h : pc.step a = some pc') : K pc' := by
  cases a with
  | call op =>
    simp only [PC.step] at h
    split at h
    · simp at h
    · injection h with h; subst h; exact K_api hK op
  | tail =>
    simp only [PC.step] at h
    split at h
    · injection h with h; subst h; exact K_runTail hK _
    · simp at h
  | work env => exact K_work hK h

theorem K_reach {pc : PC} (h : Reach pc) : K pc := by
  induction h with
  | init => exact K_init
  | step a _ hs ih => exact K_step ih hs

end WebrtcVerif.NegNeeded
