import WebrtcVerif.Model.Fingerprint
/-! Helper lemmas for C14 (core Lean only). -/
namespace WebrtcVerif.Fingerprint

/-! ### characters of a hex rendering -/

/-- the 17 characters a fingerprint rendering consists of -/
def hexColon : List Char :=
  ['0','1','2','3','4','5','6','7','8','9','a','b','c','d','e','f',':']

def isHexColon (c : Char) : Bool := hexColon.contains c

theorem hexDigit_isHexColon : ∀ n, n < 16 → isHexColon (hexDigit n) = true := by decide

theorem renderByte_hex (b : UInt8) : ∀ c ∈ renderByte b, isHexColon c = true := by
  intro c hc
  have h1 : b.toNat / 16 < 16 := by have := b.toNat_lt; omega
  have h2 : b.toNat % 16 < 16 := by omega
  simp only [renderByte, List.mem_cons, List.not_mem_nil, or_false] at hc
  rcases hc with rfl | rfl
  · exact hexDigit_isHexColon _ h1
  · exact hexDigit_isHexColon _ h2

theorem render_hex : ∀ (d : List UInt8), ∀ c ∈ render d, isHexColon c = true
  | [], c, hc => by simp [render] at hc
  | [b], c, hc => by simp only [render] at hc; exact renderByte_hex b c hc
  | b :: b' :: rest, c, hc => by
    simp only [render, List.mem_append, List.mem_cons] at hc
    rcases hc with h | rfl | h
    · exact renderByte_hex b c h
    · decide
    · exact render_hex (b' :: rest) c h

theorem render_length : ∀ (l : List UInt8), (render l).length = 3 * l.length - 1
  | [] => rfl
  | [_] => rfl
  | b :: b' :: rest => by
    have := render_length (b' :: rest)
    simp only [render, renderByte, List.length_append, List.length_cons, List.length_nil] at this ⊢
    omega

theorem hash_sha256 : hashFromString Algo.sha256.name = some .sha256 := by decide

/-- On a target character of a hex rendering, fold-equality is ASCII-lower equality: neither U+212A nor
    U+017F (the only non-ASCII characters folding into ASCII) folds to a hex digit or a colon. -/
theorem foldKey_eq_hex (t c : Char) (ht : isHexColon t = true) :
    (foldKey t == foldKey c) = (asciiLower c == t) := by
  have hmem : t ∈ hexColon := by simpa [isHexColon] using ht
  have ht' : foldKey t = t := by
    simp only [hexColon, List.mem_cons, List.not_mem_nil, or_false] at hmem
    rcases hmem with rfl|rfl|rfl|rfl|rfl|rfl|rfl|rfl|rfl|rfl|rfl|rfl|rfl|rfl|rfl|rfl|rfl <;> decide
  rw [ht']
  unfold foldKey
  split
  · -- c = U+212A: foldKey = 'k', asciiLower c = c (non-ASCII)
    rename_i hc
    have hl : asciiLower c = c := by
      unfold asciiLower; rw [if_neg]; rw [hc]; decide
    rw [hl]
    have hck : c ≠ t := by
      intro e; subst e
      simp only [hexColon, List.mem_cons, List.not_mem_nil, or_false] at hmem
      rcases hmem with rfl|rfl|rfl|rfl|rfl|rfl|rfl|rfl|rfl|rfl|rfl|rfl|rfl|rfl|rfl|rfl|rfl <;> exact absurd hc (by decide)
    have htk : t ≠ 'k' := by
      intro e; subst e; exact absurd ht (by decide)
    rw [beq_eq_false_iff_ne.mpr htk, beq_eq_false_iff_ne.mpr hck]
  · split
    · rename_i _ hc
      have hl : asciiLower c = c := by
        unfold asciiLower; rw [if_neg]; rw [hc]; decide
      rw [hl]
      have hck : c ≠ t := by
        intro e; subst e
        simp only [hexColon, List.mem_cons, List.not_mem_nil, or_false] at hmem
        rcases hmem with rfl|rfl|rfl|rfl|rfl|rfl|rfl|rfl|rfl|rfl|rfl|rfl|rfl|rfl|rfl|rfl|rfl <;> exact absurd hc (by decide)
      have hts : t ≠ 's' := by
        intro e; subst e; exact absurd ht (by decide)
      rw [beq_eq_false_iff_ne.mpr hts, beq_eq_false_iff_ne.mpr hck]
    · by_cases e : asciiLower c = t
      · subst e; simp
      · have e' : t ≠ asciiLower c := fun x => e x.symm
        rw [beq_eq_false_iff_ne.mpr e, beq_eq_false_iff_ne.mpr e']

/-- `EqualFold(s, v)` for a hex rendering `s` is plain equality after ASCII lower-casing `v`. -/
theorem equalFold_hex : ∀ (s v : Str), (∀ c ∈ s, isHexColon c = true) →
    equalFold s v = (v.map asciiLower == s)
  | [], [], _ => by simp [equalFold]
  | [], _ :: _, _ => by simp [equalFold]
  | _ :: _, [], _ => by simp [equalFold]
  | a :: as, b :: bs, h => by
    have ha : isHexColon a = true := h a (by simp)
    have ih := equalFold_hex as bs (fun c hc => h c (by simp [hc]))
    simp only [equalFold, List.map_cons]
    rw [ih, foldKey_eq_hex a b ha]
    cases h1 : (asciiLower b == a) <;> cases h2 : (List.map asciiLower bs == as) <;>
      simp_all [List.cons_beq_cons]

theorem equalFold_render (d : List UInt8) (v : Str) :
    equalFold (render d) v = (v.map asciiLower == render d) :=
  equalFold_hex _ _ (render_hex d)

theorem lower_upper_hex (c : Char) (h : isHexColon c = true) : asciiLower (asciiUpper c) = c := by
  have hmem : c ∈ hexColon := by simpa [isHexColon] using h
  simp only [hexColon, List.mem_cons, List.not_mem_nil, or_false] at hmem
  rcases hmem with rfl|rfl|rfl|rfl|rfl|rfl|rfl|rfl|rfl|rfl|rfl|rfl|rfl|rfl|rfl|rfl|rfl <;> decide

theorem map_lower_toUpper_hex : ∀ (s : Str), (∀ c ∈ s, isHexColon c = true) →
    (toUpper s).map asciiLower = s
  | [], _ => rfl
  | a :: as, h => by
    have := map_lower_toUpper_hex as (fun c hc => h c (by simp [hc]))
    simp only [toUpper, List.map_cons, List.map_map] at this ⊢
    rw [lower_upper_hex a (h a (by simp))]
    simpa using this

theorem upper_hex_no_space (c : Char) (h : isHexColon c = true) : asciiUpper c ≠ ' ' := by
  have hmem : c ∈ hexColon := by simpa [isHexColon] using h
  simp only [hexColon, List.mem_cons, List.not_mem_nil, or_false] at hmem
  rcases hmem with rfl|rfl|rfl|rfl|rfl|rfl|rfl|rfl|rfl|rfl|rfl|rfl|rfl|rfl|rfl|rfl|rfl <;> decide

/-! ### `strings.Split(s, " ")` -/

theorem splitSpace_ne_nil : ∀ s, splitSpace s ≠ []
  | [] => by simp [splitSpace]
  | c :: cs => by
    unfold splitSpace
    split
    · simp
    · split <;> simp

/-- joining the pieces with single spaces gives the string back -/
def joinSpace : List Str → Str
  | [] => []
  | [a] => a
  | a :: b :: rest => a ++ ' ' :: joinSpace (b :: rest)

theorem joinSpace_splitSpace : ∀ s, joinSpace (splitSpace s) = s
  | [] => rfl
  | c :: cs => by
    have ih := joinSpace_splitSpace cs
    have hne := splitSpace_ne_nil cs
    unfold splitSpace
    split
    · rename_i hc
      cases hsp : splitSpace cs with
      | nil => exact absurd hsp hne
      | cons h t => rw [hsp] at ih; simp [joinSpace, ih, hc]
    · cases hsp : splitSpace cs with
      | nil => exact absurd hsp hne
      | cons h t =>
        rw [hsp] at ih
        cases t with
        | nil => simp only [joinSpace] at ih ⊢; rw [ih]
        | cons t1 t2 => simp only [joinSpace, List.cons_append] at ih ⊢; rw [ih]

theorem splitSpace_two {s h v : Str} (e : splitSpace s = [h, v]) : s = h ++ ' ' :: v := by
  have := joinSpace_splitSpace s
  rw [e] at this
  simpa [joinSpace] using this.symm

theorem splitSpace_no_space : ∀ s : Str, ' ' ∉ s → splitSpace s = [s]
  | [], _ => rfl
  | c :: cs, h => by
    have hc : c ≠ ' ' := fun e => h (by simp [e])
    have ih := splitSpace_no_space cs (fun m => h (by simp [m]))
    unfold splitSpace
    rw [if_neg hc, ih]

theorem splitSpace_pair : ∀ (a b : Str), ' ' ∉ a → ' ' ∉ b → splitSpace (a ++ ' ' :: b) = [a, b]
  | [], b, _, hb => by
    show splitSpace (' ' :: b) = _
    unfold splitSpace
    rw [if_pos rfl, splitSpace_no_space b hb]
  | c :: cs, b, ha, hb => by
    have hc : c ≠ ' ' := fun e => ha (by simp [e])
    have ih := splitSpace_pair cs b (fun m => ha (by simp [m])) hb
    show splitSpace (c :: (cs ++ ' ' :: b)) = _
    unfold splitSpace
    rw [if_neg hc, ih]

/-! ### attribute lookup and the scanning loops -/

theorem attrValue_mem {as : List Attr} {k v : Str} (h : attrValue as k = some v) :
    v ∈ (as.filter (·.key = k)).map (·.value) := by
  induction as with
  | nil => simp [attrValue] at h
  | cons a rest ih =>
    unfold attrValue at h
    by_cases hk : a.key = k
    · rw [if_pos hk] at h
      simp only [Option.some.injEq] at h
      simp [hk, h]
    · rw [if_neg hk] at h
      have := ih h
      simp only [List.filter_cons, hk, decide_false]
      simpa using this

theorem attrValue_none_filter {as : List Attr} {k : Str} (h : attrValue as k = none) :
    as.filter (·.key = k) = [] := by
  induction as with
  | nil => rfl
  | cons a rest ih =>
    unfold attrValue at h
    by_cases hk : a.key = k
    · rw [if_pos hk] at h; cases h
    · rw [if_neg hk] at h
      simp [hk, ih h]

theorem attrValue_append_none {as bs : List Attr} {k : Str} (h : attrValue as k = none) :
    attrValue (as ++ bs) k = attrValue bs k := by
  induction as with
  | nil => rfl
  | cons a rest ih =>
    unfold attrValue at h
    by_cases hk : a.key = k
    · rw [if_pos hk] at h; cases h
    · rw [if_neg hk] at h
      simp only [List.cons_append, attrValue, if_neg hk]
      exact ih h

/-- appending attributes with another key does not change the lookup -/
theorem attrValue_append_other {as bs : List Attr} {k : Str} (h : ∀ b ∈ bs, b.key ≠ k) :
    attrValue (as ++ bs) k = attrValue as k := by
  induction as with
  | nil =>
    simp only [List.nil_append]
    induction bs with
    | nil => rfl
    | cons b rest ih =>
      simp only [attrValue, if_neg (h b (by simp))]
      exact ih (fun x hx => h x (by simp [hx]))
  | cons a rest ih =>
    simp only [List.cons_append, attrValue]
    split
    · rfl
    · exact ih

/-- fingerprint values of the m-sections -/
def mediaFingerprintValues (ms : List (List Attr)) : List Str :=
  (ms.map (fun m => (m.filter (·.key = kFingerprint)).map (·.value))).flatten

theorem bundleScan_mem (b : Str) : ∀ (ms : List (List Attr)) (fp : Str),
    bundleScan b ms fp = fp ∨ bundleScan b ms fp ∈ mediaFingerprintValues ms
  | [], fp => Or.inl rfl
  | m :: ms, fp => by
    unfold bundleScan
    simp only
    have lift : ∀ x, x ∈ mediaFingerprintValues ms → x ∈ mediaFingerprintValues (m :: ms) := by
      intro x hx; simp only [mediaFingerprintValues, List.map_cons, List.flatten_cons, List.mem_append] at hx ⊢
      exact Or.inr hx
    split
    · rename_i mid hmid
      split
      · split
        · rename_i v hv
          rcases bundleScan_mem b ms v with h | h
          · right; rw [h]
            simp only [mediaFingerprintValues, List.map_cons, List.flatten_cons, List.mem_append]
            exact Or.inl (attrValue_mem hv)
          · exact Or.inr (lift _ h)
        · rcases bundleScan_mem b ms fp with h | h
          · exact Or.inl h
          · exact Or.inr (lift _ h)
      · rcases bundleScan_mem b ms fp with h | h
        · exact Or.inl h
        · exact Or.inr (lift _ h)
    · rcases bundleScan_mem b ms fp with h | h
      · exact Or.inl h
      · exact Or.inr (lift _ h)

theorem firstScan_mem : ∀ (ms : List (List Attr)) (fp : Str),
    firstScan ms fp = fp ∨ firstScan ms fp ∈ mediaFingerprintValues ms
  | [], fp => Or.inl rfl
  | m :: ms, fp => by
    unfold firstScan
    simp only
    have lift : ∀ x, x ∈ mediaFingerprintValues ms → x ∈ mediaFingerprintValues (m :: ms) := by
      intro x hx; simp only [mediaFingerprintValues, List.map_cons, List.flatten_cons, List.mem_append] at hx ⊢
      exact Or.inr hx
    split
    · rename_i v hv
      split
      · rcases firstScan_mem ms v with h | h
        · right; rw [h]
          simp only [mediaFingerprintValues, List.map_cons, List.flatten_cons, List.mem_append]
          exact Or.inl (attrValue_mem hv)
        · exact Or.inr (lift _ h)
      · rcases firstScan_mem ms fp with h | h
        · exact Or.inl h
        · exact Or.inr (lift _ h)
    · rcases firstScan_mem ms fp with h | h
      · exact Or.inl h
      · exact Or.inr (lift _ h)

/-- whatever non-empty value `extractFingerprint` settles on is the value of an `a=fingerprint` attribute of
    the description -/
theorem chosen_mem (d : Desc) (h : chosenFingerprint d ≠ []) :
    chosenFingerprint d ∈ allFingerprintValues d := by
  unfold chosenFingerprint at h ⊢
  simp only at h ⊢
  have hm : ∀ x, x ∈ mediaFingerprintValues d.media → x ∈ allFingerprintValues d := by
    intro x hx; unfold allFingerprintValues; exact List.mem_append.mpr (Or.inr hx)
  split
  · rename_i h0
    rw [if_pos h0] at h
    split
    · rename_i hb
      rw [if_pos hb] at h
      rcases bundleScan_mem (extractBundleID d) d.media [] with e | e
      · exact absurd e h
      · exact hm _ e
    · rename_i hb
      rw [if_neg hb] at h
      rcases firstScan_mem d.media [] with e | e
      · exact absurd e h
      · exact hm _ e
  · rename_i h0
    cases hs : attrValue d.attrs kFingerprint with
    | none => simp [hs] at h0
    | some v =>
      simp only [Option.getD_some]
      unfold allFingerprintValues
      exact List.mem_append.mpr (Or.inl (attrValue_mem hs))

/-! ### the loops as `find?` -/

theorem bundleScan_nonempty (b : Str) : ∀ (ms : List (List Attr)) (fp : Str), fp ≠ [] → bundleScan b ms fp = fp
  | [], _, _ => rfl
  | m :: ms, fp, h => by
    unfold bundleScan
    simp only
    split
    · rw [if_neg (fun hh => h hh.2)]; exact bundleScan_nonempty b ms fp h
    · exact bundleScan_nonempty b ms fp h

theorem firstScan_nonempty : ∀ (ms : List (List Attr)) (fp : Str), fp ≠ [] → firstScan ms fp = fp
  | [], _, _ => rfl
  | m :: ms, fp, h => by
    unfold firstScan
    simp only
    split
    · rw [if_neg h]; exact firstScan_nonempty ms fp h
    · exact firstScan_nonempty ms fp h

theorem bundleScan_spec (b : Str) : ∀ (ms : List (List Attr)),
    bundleScan b ms [] =
      match (ms.filter (fun m => attrValue m kMid = some b)).find? hasFp with
      | some m => (attrValue m kFingerprint).getD []
      | none => []
  | [] => rfl
  | m :: ms => by
    have ih := bundleScan_spec b ms
    unfold bundleScan
    simp only
    cases hmid : attrValue m kMid with
    | none => simp only [List.filter_cons, hmid]; simpa using ih
    | some mid =>
      by_cases hb : mid = b
      · subst hb
        simp only [List.filter_cons, hmid, decide_true, and_self, if_pos, List.find?_cons]
        cases hf : attrValue m kFingerprint with
        | none => simp only [hasFp, hf]; exact ih
        | some v =>
          cases v with
          | nil => simp only [hasFp, hf]; exact ih
          | cons c cs =>
            simp only [hasFp, hf, Option.getD_some]
            exact bundleScan_nonempty mid ms (c :: cs) (by simp)
      · have : ¬ (some mid = some b) := by simpa using hb
        simp only [List.filter_cons, hmid, hb, false_and, if_false, this, decide_false]
        simpa using ih

theorem firstScan_spec : ∀ (ms : List (List Attr)),
    firstScan ms [] =
      match ms.find? hasFp with
      | some m => (attrValue m kFingerprint).getD []
      | none => []
  | [] => rfl
  | m :: ms => by
    have ih := firstScan_spec ms
    unfold firstScan
    simp only [List.find?_cons]
    cases hf : attrValue m kFingerprint with
    | none => simp only [hasFp, hf]; exact ih
    | some v =>
      cases v with
      | nil => simp only [hasFp, hf, if_true]; exact ih
      | cons c cs =>
        simp only [hasFp, hf, if_true, Option.getD_some]
        exact firstScan_nonempty ms (c :: cs) (by simp)

/-! ### `validateFingerPrint` -/

theorem validate_singleton (D : Digest) (raw : Der) (fp : DtlsFp) :
    validateFingerPrint D raw [fp] =
      match hashFromString fp.algorithm with
      | none => .error .invalidHash
      | some a => if equalFold (render (D a raw)) fp.value then .ok () else .error .noMatch := by
  unfold validateFingerPrint
  split <;> simp_all [validateFingerPrint]

end WebrtcVerif.Fingerprint
