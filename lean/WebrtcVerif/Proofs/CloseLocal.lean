import WebrtcVerif.Model.Close
/-!
  Inductive invariant of the close() transition system (`Model/Close.lean`): its statement, and what one
  step of one close() caller does to that caller's part and to every other caller's part.
-/
namespace WebrtcVerif.Close
open WebrtcVerif.ConnState

/-- which program counters a caller with flag `g` and continuation `role` can be at -/
def allowed (g : Bool) : Role → CPc → Bool
  | .none, .idle => true
  | .early, .cs1 | .early, .returned => !g
  | .waiter, .cs1 | .waiter, .gWait | .waiter, .gWoke | .waiter, .returned => g
  | .tailer, .cs1 | .tailer, .cWait | .tailer, .cWoke | .tailer, .tail | .tailer, .tJoin | .tailer, .dG
  | .tailer, .returned => g
  | .main, .cs1 | .main, .bSig | .main, .bMedia | .main, .bChannels | .main, .bSctp | .main, .bDtls | .main, .bIce
  | .main, .bUpdate | .main, .ucs _ | .main, .bGraceful | .main, .bJoin | .main, .bFinish | .main, .dC
  | .main, .returned => true
  | .main, .dG => g
  | _, _ => false

/-- how many body steps the main caller has executed -/
def prog : CPc → Nat
  | .bMedia => 1 | .bChannels => 2 | .bSctp => 3 | .bDtls => 4 | .bIce => 5 | .bUpdate => 6 | .ucs _ => 7
  | .bGraceful => 8 | .bJoin => 9 | .bFinish => 10 | .dG => 11 | .dC => 11 | .returned => 11
  | _ => 0

/-- the caller that set the graceful flag -/
def isOwner (cl : Closer) : Bool := cl.g && (cl.role == .main || cl.role == .tailer)

/-- the owner has closed isGracefulCloseDone -/
def pastDG (cl : Closer) : Bool :=
  match cl.role, cl.pc with
  | .main, .dC | .main, .returned | .tailer, .returned => true
  | _, _ => false

/-- the owner has run the graceful operations -/
def gDone (cl : Closer) : Bool :=
  match cl.role, cl.pc with
  | .main, .bJoin | .main, .bFinish | .main, .dG | .main, .dC | .main, .returned
  | .tailer, .tJoin | .tailer, .dG | .tailer, .returned => true
  | _, _ => false

/-- the owner has received from every data channel's `readLoopActive` -/
def pastJoin (cl : Closer) : Bool :=
  match cl.role, cl.pc with
  | .main, .bFinish | .main, .dG | .main, .dC | .main, .returned | .tailer, .dG | .tailer, .returned => true
  | _, _ => false

/-- the caller is past its channel receive -/
def pastWait : CPc → Bool
  | .gWoke | .cWoke | .tail | .tJoin | .dG | .returned => true
  | _ => false

/-- what the invariant says about one caller, given the shared flags -/
structure COk (s : St) (c : Nat) (cl : Closer) : Prop where
  allowed : allowed cl.g cl.role cl.pc = true
  closed : cl.pc ≠ .idle → s.isClosed = true
  mainIs : cl.role = .main → s.mainIdx = some c
  ownerIs : isOwner cl = true → s.gOwner = some c
  waiterG : cl.role = .waiter → s.graceful = true
  mainCloseDone : cl.role = .main → s.closeDone = cl.pc.isReturned
  mainLog : cl.role = .main → s.bodyLog = BStep.canon.take (prog cl.pc)
  mainIcpt : cl.role = .main → s.interceptorCloses = (if prog cl.pc = 11 then 1 else 0)
  mainIce : cl.role = .main → s.iceStops = (if prog cl.pc ≥ 6 ∧ cl.g = false then 1 else 0)
  ownerGDone : isOwner cl = true → s.gracefulDone = pastDG cl
  ownerOps : isOwner cl = true → s.opsCloses = (if gDone cl then 1 else 0)
  waiterPast : cl.role = .waiter → pastWait cl.pc = true → s.gracefulDone = true
  tailerPast : cl.role = .tailer → pastWait cl.pc = true → s.closeDone = true
  ownerJoined : isOwner cl = true → pastJoin cl = true → allExited s.loops = true

/-- the part of the invariant that only mentions the shared flags -/
structure GInv (s : St) : Prop where
  retest : s.retest = true
  noPanic : s.panicked = false
  mainSome : s.mainIdx.isSome = s.isClosed
  ownerSome : s.gOwner.isSome = s.graceful
  gracefulClosed : s.graceful = true → s.isClosed = true
  noMain : s.mainIdx = none → s.closeDone = false ∧ s.bodyLog = [] ∧ s.interceptorCloses = 0 ∧ s.iceStops = 0
  noOwner : s.gOwner = none → s.gracefulDone = false ∧ s.opsCloses = 0
  iceG : s.iceGracefulStops = s.opsCloses
  sig : s.sigClosed = s.bodyLog.contains .sig
  media : s.mediaStopped = s.bodyLog.contains .media ∧ s.channelsClosed = s.bodyLog.contains .channels
    ∧ s.sctpStopped = s.bodyLog.contains .sctp ∧ s.dtlsStopped = s.bodyLog.contains .dtls
  stored : s.bodyLog.contains .store = true → s.conn = .closed
  logClosed : s.bodyLog ≠ [] → s.isClosed = true
  notifiedClosed : Pc.closed ∈ s.notified → s.isClosed = true ∧ s.conn = .closed
  notifiedFinal : closedFinal s.notified = true

structure CloseInv (s : St) : Prop where
  g : GInv s
  each : ∀ c cl, s.closers[c]? = some cl → COk s c cl
  mainAt : ∀ m, s.mainIdx = some m → ∃ cl, s.closers[m]? = some cl ∧ cl.role = .main
  ownerAt : ∀ o, s.gOwner = some o → ∃ cl, s.closers[o]? = some cl ∧ isOwner cl = true
  upd : ∀ u : Nat, s.updaters[u]? = some (UPc.computed .closed) → s.isClosed = true

/-! ### the per-caller step: what it does to the stepping caller and to everybody else -/

theorem getElem?_lt {α} {l : List α} {i : Nat} {x : α} (h : l[i]? = some x) : i < l.length := by
  rcases Nat.lt_or_ge i l.length with h1 | h1
  · exact h1
  · rw [List.getElem?_eq_none h1] at h; cases h


theorem COk.withClosers {s : St} {c : Nat} {cl : Closer} (h : COk s c cl) (X : List Closer) :
    COk { s with closers := X } c cl :=
  ⟨h.allowed, h.closed, h.mainIs, h.ownerIs, h.waiterG, h.mainCloseDone, h.mainLog, h.mainIcpt, h.mainIce,
   h.ownerGDone, h.ownerOps, h.waiterPast, h.tailerPast, h.ownerJoined⟩


/-- the first critical section: the stepping caller -/
theorem cstep_self_idle {s s1 : St} {c : Nat} {cl cl' : Closer}
    (hm : s.mainIdx.isSome = s.isClosed) (ho : s.gOwner.isSome = s.graceful)
    (hgc : s.graceful = true → s.isClosed = true)
    (hnm : s.mainIdx = none → s.closeDone = false ∧ s.bodyLog = [] ∧ s.interceptorCloses = 0 ∧ s.iceStops = 0)
    (hno : s.gOwner = none → s.gracefulDone = false ∧ s.opsCloses = 0)
    (hpc : cl.pc = .idle) (h : cstepFn s c cl = some (s1, cl')) : COk s1 c cl' := by
  obtain ⟨g, role, pc⟩ := cl
  subst hpc
  simp only [cstepFn, Option.some.injEq, Prod.mk.injEq] at h
  obtain ⟨rfl, rfl⟩ := h
  cases hic : s.isClosed <;> cases hgr : s.graceful <;> cases g <;>
    constructor <;> simp_all [allowed, isOwner, pastDG, gDone, prog, BStep.canon, CPc.isReturned, pastWait, pastJoin]

set_option hygiene false in
macro "self_run_case" : tactic => `(tactic|
  (simp [allowed] at h1 hpc <;>
    simp [cstepFn] at h <;>
    (first | (obtain ⟨rfl, rfl⟩ := h) | (obtain ⟨hcond, rfl, rfl⟩ := h)) <;>
    constructor <;>
    simp_all [allowed, isOwner, pastDG, gDone, prog, afterBody, gracefulOps, storeSection, BStep.canon,
      CPc.isReturned, pastWait, pastJoin] <;>
    (cases g <;> simp_all)))

/-- every later step: the stepping caller (main continuation) -/
theorem cstep_self_run_main {s s1 : St} {c : Nat} {g : Bool} {pc : CPc} {cl' : Closer}
    (hpc : pc ≠ .idle)
    (hc : COk s c ⟨g, .main, pc⟩) (h : cstepFn s c ⟨g, .main, pc⟩ = some (s1, cl')) : COk s1 c cl' := by
  obtain ⟨h1, h2, h3, h4, h5, h6, h7, h8, h9, h10, h11, h12, h13, h14⟩ := hc
  cases pc <;> self_run_case

theorem cstep_self_run_none {s s1 : St} {c : Nat} {g : Bool} {pc : CPc} {cl' : Closer}
    (hpc : pc ≠ .idle)
    (hc : COk s c ⟨g, .none, pc⟩) (h : cstepFn s c ⟨g, .none, pc⟩ = some (s1, cl')) : COk s1 c cl' := by
  obtain ⟨h1, h2, h3, h4, h5, h6, h7, h8, h9, h10, h11, h12, h13, h14⟩ := hc
  cases pc <;> self_run_case

theorem cstep_self_run_early {s s1 : St} {c : Nat} {g : Bool} {pc : CPc} {cl' : Closer}
    (hpc : pc ≠ .idle)
    (hc : COk s c ⟨g, .early, pc⟩) (h : cstepFn s c ⟨g, .early, pc⟩ = some (s1, cl')) : COk s1 c cl' := by
  obtain ⟨h1, h2, h3, h4, h5, h6, h7, h8, h9, h10, h11, h12, h13, h14⟩ := hc
  cases pc <;> self_run_case

theorem cstep_self_run_waiter {s s1 : St} {c : Nat} {g : Bool} {pc : CPc} {cl' : Closer}
    (hpc : pc ≠ .idle)
    (hc : COk s c ⟨g, .waiter, pc⟩) (h : cstepFn s c ⟨g, .waiter, pc⟩ = some (s1, cl')) : COk s1 c cl' := by
  obtain ⟨h1, h2, h3, h4, h5, h6, h7, h8, h9, h10, h11, h12, h13, h14⟩ := hc
  cases pc <;> self_run_case

theorem cstep_self_run_tailer {s s1 : St} {c : Nat} {g : Bool} {pc : CPc} {cl' : Closer}
    (hpc : pc ≠ .idle)
    (hc : COk s c ⟨g, .tailer, pc⟩) (h : cstepFn s c ⟨g, .tailer, pc⟩ = some (s1, cl')) : COk s1 c cl' := by
  obtain ⟨h1, h2, h3, h4, h5, h6, h7, h8, h9, h10, h11, h12, h13, h14⟩ := hc
  cases pc <;> self_run_case

/-- every later step: the stepping caller -/
theorem cstep_self_run {s s1 : St} {c : Nat} {cl cl' : Closer}
    (hpc : cl.pc ≠ .idle)
    (hc : COk s c cl) (h : cstepFn s c cl = some (s1, cl')) : COk s1 c cl' := by
  obtain ⟨g, role, pc⟩ := cl
  cases role
  · exact cstep_self_run_none hpc hc h
  · exact cstep_self_run_early hpc hc h
  · exact cstep_self_run_waiter hpc hc h
  · exact cstep_self_run_tailer hpc hc h
  · exact cstep_self_run_main hpc hc h

/-- the first critical section: every other caller -/
theorem cstep_other_idle {s s1 : St} {c c2 : Nat} {cl cl' cl2 : Closer}
    (hm : s.mainIdx.isSome = s.isClosed) (ho : s.gOwner.isSome = s.graceful)
    (hpc : cl.pc = .idle) (h : cstepFn s c cl = some (s1, cl'))
    (h2 : COk s c2 cl2) : COk s1 c2 cl2 := by
  obtain ⟨g, role, pc⟩ := cl
  subst hpc
  simp only [cstepFn, Option.some.injEq, Prod.mk.injEq] at h
  obtain ⟨rfl, rfl⟩ := h
  obtain ⟨k1, k2, k3, k4, k5, k6, k7, k8, k9, k10, k11, k12, k13, k14⟩ := h2
  refine ⟨k1, fun _ => rfl, ?_, ?_, ?_, k6, k7, k8, k9, k10, k11, k12, k13, k14⟩
  · intro hr
    have hk := k3 hr
    have : s.isClosed = true := by rw [← hm, hk]; rfl
    simp [this, hk]
  · intro hr
    have hk := k4 hr
    have : s.graceful = true := by rw [← ho, hk]; rfl
    simp [this, hk]
  · intro hr
    simp [k5 hr]

/-- what a step after the first critical section can change: only the stepping caller's "own" flags -/
theorem cstep_frame {s s1 : St} {c : Nat} {cl cl' : Closer}
    (hpc : cl.pc ≠ .idle) (hal : allowed cl.g cl.role cl.pc = true) (h : cstepFn s c cl = some (s1, cl')) :
    s1.isClosed = s.isClosed ∧ s1.graceful = s.graceful ∧ s1.mainIdx = s.mainIdx ∧ s1.gOwner = s.gOwner
    ∧ (cl.role ≠ .main → s1.closeDone = s.closeDone ∧ s1.bodyLog = s.bodyLog
        ∧ s1.interceptorCloses = s.interceptorCloses ∧ s1.iceStops = s.iceStops)
    ∧ (isOwner cl = false → s1.gracefulDone = s.gracefulDone ∧ s1.opsCloses = s.opsCloses)
    ∧ (s.closeDone = true → s1.closeDone = true) ∧ (s.gracefulDone = true → s1.gracefulDone = true)
    ∧ s1.loops = s.loops := by
  obtain ⟨g, role, pc⟩ := cl
  cases pc <;> cases role <;> simp [allowed] at hal hpc <;>
    simp [cstepFn] at h <;>
    (first | (obtain ⟨rfl, rfl⟩ := h) | (obtain ⟨hcond, rfl, rfl⟩ := h)) <;>
    simp_all [isOwner, gracefulOps, storeSection]

/-- every later step: every other caller (two callers cannot both be `main`, nor both own the graceful flag) -/
theorem cstep_other_run {s s1 : St} {c c2 : Nat} {cl cl' cl2 : Closer}
    (hpc : cl.pc ≠ .idle) (hc : COk s c cl) (h : cstepFn s c cl = some (s1, cl')) (hne : c2 ≠ c)
    (h2 : COk s c2 cl2) : COk s1 c2 cl2 := by
  obtain ⟨e1, e2, e3, e4, e5, e6, e7, e8, e9⟩ := cstep_frame hpc hc.allowed h
  have hmain : cl2.role = .main → cl.role ≠ .main := fun h2m hm => by
    have a := hc.mainIs hm
    have b := h2.mainIs h2m
    rw [a] at b
    exact hne (Option.some.inj b).symm
  have hown : isOwner cl2 = true → isOwner cl = false := fun h2o => by
    cases ho : isOwner cl with
    | false => rfl
    | true =>
      have a := hc.ownerIs ho
      have b := h2.ownerIs h2o
      rw [a] at b
      exact absurd (Option.some.inj b).symm hne
  refine ⟨h2.allowed, fun hp => e1 ▸ h2.closed hp, fun hm => e3 ▸ h2.mainIs hm, fun ho => e4 ▸ h2.ownerIs ho,
    fun hw => e2 ▸ h2.waiterG hw, ?_, ?_, ?_, ?_, ?_, ?_, fun hw hp => e8 (h2.waiterPast hw hp),
    fun ht hp => e7 (h2.tailerPast ht hp), fun ho hp => e9 ▸ h2.ownerJoined ho hp⟩
  · intro hm; rw [(e5 (hmain hm)).1]; exact h2.mainCloseDone hm
  · intro hm; rw [(e5 (hmain hm)).2.1]; exact h2.mainLog hm
  · intro hm; rw [(e5 (hmain hm)).2.2.1]; exact h2.mainIcpt hm
  · intro hm; rw [(e5 (hmain hm)).2.2.2]; exact h2.mainIce hm
  · intro ho; rw [(e6 (hown ho)).1]; exact h2.ownerGDone ho
  · intro ho; rw [(e6 (hown ho)).2]; exact h2.ownerOps ho

theorem cstepFn_closers {s s1 : St} {c : Nat} {cl cl' : Closer} (h : cstepFn s c cl = some (s1, cl')) :
    s1.closers = s.closers ∧ s1.updaters = s.updaters ∧ s1.retest = s.retest ∧ s1.apiLog = s.apiLog
      ∧ s1.negVersion = s.negVersion ∧ s1.loops = s.loops := by
  obtain ⟨g, role, pc⟩ := cl
  cases pc <;> simp [cstepFn] at h <;>
    first
    | (obtain ⟨rfl, rfl⟩ := h; simp [gracefulOps, storeSection])
    | (obtain ⟨_, rfl, rfl⟩ := h; simp)
    | (cases role <;> simp at h <;> obtain ⟨rfl, rfl⟩ := h <;> simp)

/-- who is `main` after a step of caller `c` -/
theorem cstep_mainIdx {s s1 : St} {c : Nat} {cl cl' : Closer} (hc : COk s c cl)
    (h : cstepFn s c cl = some (s1, cl')) :
    (s1.mainIdx = some c ∧ cl'.role = .main) ∨ (s1.mainIdx = s.mainIdx ∧ (cl.role = .main → cl'.role = .main)) := by
  obtain ⟨g, role, pc⟩ := cl
  have h1 := hc.allowed
  cases pc <;> cases role <;> simp [allowed] at h1 <;> simp [cstepFn] at h <;>
    (first | (obtain ⟨rfl, rfl⟩ := h) | (obtain ⟨hcond, rfl, rfl⟩ := h)) <;>
    simp [gracefulOps, storeSection]
  cases s.isClosed <;> simp

/-- who owns the graceful flag after a step of caller `c` -/
theorem cstep_gOwner {s s1 : St} {c : Nat} {cl cl' : Closer} (hc : COk s c cl)
    (h : cstepFn s c cl = some (s1, cl')) :
    (s1.gOwner = some c ∧ isOwner cl' = true) ∨ (s1.gOwner = s.gOwner ∧ (isOwner cl = true → isOwner cl' = true)) := by
  obtain ⟨g, role, pc⟩ := cl
  have h1 := hc.allowed
  cases pc <;> cases role <;> simp [allowed] at h1 <;> simp [cstepFn] at h <;>
    (first | (obtain ⟨rfl, rfl⟩ := h) | (obtain ⟨hcond, rfl, rfl⟩ := h)) <;>
    simp_all [gracefulOps, storeSection, isOwner]
  cases s.isClosed <;> cases s.graceful <;> cases g <;> simp


end WebrtcVerif.Close
