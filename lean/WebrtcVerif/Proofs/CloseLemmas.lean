import WebrtcVerif.Proofs.CloseLocal
/-!
  Preservation of the invariant of the close() transition system by every action, and the lemmas the
  C21 theorems are corollaries of.
-/
namespace WebrtcVerif.Close
open WebrtcVerif.ConnState

/-! ### the notification log -/

theorem closedFinal_all_closed {l : List Pc} (h : l.all (· == .closed) = true) : closedFinal l = true := by
  induction l with
  | nil => rfl
  | cons x t ih =>
    simp only [List.all_cons, Bool.and_eq_true] at h
    simp only [closedFinal]
    split
    · exact h.2
    · exact ih h.2

theorem closedFinal_snoc_closed {l : List Pc} (h : closedFinal l = true) : closedFinal (l ++ [.closed]) = true := by
  induction l with
  | nil => simp [closedFinal]
  | cons x t ih =>
    simp only [closedFinal, List.cons_append] at h ⊢
    split
    · rename_i hx
      simp only [hx, if_true] at h
      simp [h]
    · rename_i hx
      simp only [hx, if_false] at h
      exact ih h

theorem closedFinal_snoc_of_not_mem {l : List Pc} (x : Pc) (h : Pc.closed ∉ l) : closedFinal (l ++ [x]) = true := by
  induction l with
  | nil => simp [closedFinal]
  | cons y t ih =>
    simp only [List.mem_cons, not_or] at h
    simp only [closedFinal, List.cons_append]
    split
    · rename_i hy; exact absurd hy.symm h.1
    · exact ih h.2

theorem aggregate_open_ne_closed (i : Ice) (d : Dtls) : aggregate false i d ≠ .closed := by
  cases i <;> cases d <;> decide

theorem aggregate_eq_closed {b : Bool} {i : Ice} {d : Dtls} (h : aggregate b i d = .closed) : b = true := by
  cases b
  · exact absurd h (aggregate_open_ne_closed i d)
  · rfl

/-- the critical section of updateConnectionState keeps the notification facts -/
theorem store_ok {s : St} (c : Pc) (hr : s.retest = true) (hc : c = .closed → s.isClosed = true)
    (hnc : Pc.closed ∈ s.notified → s.isClosed = true ∧ s.conn = .closed)
    (hf : closedFinal s.notified = true) :
    (Pc.closed ∈ (storeSection s c).notified → s.isClosed = true ∧ (storeSection s c).conn = .closed)
    ∧ closedFinal (storeSection s c).notified = true
    ∧ (s.isClosed = true → (storeSection s c).conn = .closed) := by
  simp only [storeSection, storeTarget, hr, Bool.true_and]
  cases hic : s.isClosed
  · have hnot : Pc.closed ∉ s.notified := fun hm => by have := (hnc hm).1; simp [hic] at this
    simp only [Bool.false_eq_true, if_false]
    refine ⟨?_, ?_, by simp⟩
    · split
      · intro hm; exact absurd hm hnot
      · intro hm
        simp only [List.mem_append, List.mem_singleton] at hm
        rcases hm with hm | hm
        · exact absurd hm hnot
        · have := hc hm.symm; simp [hic] at this
    · split
      · exact hf
      · exact closedFinal_snoc_of_not_mem _ hnot
  · simp only [if_true]
    refine ⟨by simp, ?_, by simp⟩
    split
    · exact hf
    · exact closedFinal_snoc_closed hf

end WebrtcVerif.Close
