import WebrtcVerif.Proofs.AnswerLemmas
import WebrtcVerif.Proofs.PcLemmas
/-! Lemmas tying the negotiated codec lists and the transceivers of the PeerConnection model to the remote
    offer being answered (C16). -/
namespace WebrtcVerif.PcSections
open WebrtcVerif.Codec WebrtcVerif.AnswerCodecs WebrtcVerif.SectionSdp

/-! ### the negotiated list stems from the offer -/

/-- after one description, a negotiated list that was empty before consists of codecs of the sections of its
    kind; when those sections all list the same codecs `rs`, it stems from `rs` -/
theorem update_fromOffer (e0 : Engine) (secs : List Section) (k : Kind) (rs : List CodecP)
    (h0 : e0.negCodecs k = []) (hsame : ∀ s ∈ secs, kindOf s.media = k → s.codecs = some rs) :
    FromOffer rs ((update e0 secs).1.negCodecs k) := by
  intro c hc
  rcases update_neg secs e0 hc with h | ⟨s, hs, hk, rs', ex, pa, hrs', hm, hch⟩
  · rw [h0] at h; cases h
  · have : rs' = rs := by
      have := hsame s hs hk
      rw [hrs'] at this; exact Option.some.inj this
    subst this
    have hinv := matchSection_inv hm
    have hacc : ∃ mt, Accepted (e0.locals k) rs' mt c := by
      rcases mem_chosen hch with h | ⟨_, h⟩
      · exact ⟨_, hinv.1 c h⟩
      · exact ⟨_, hinv.2 c h⟩
    rcases hacc with ⟨mt, r, hr, l, _, hceq, _⟩
    exact ⟨r, hr, by rw [hceq], by rw [hceq]; exact ⟨rfl, rfl, rfl, rfl⟩⟩

theorem updateSection_flag (e : Engine) (s : Section) (hk : kindOf s.media ≠ .other) :
    (updateSection e s).1.negFlag (kindOf s.media) = true := by
  have heff := updateSection_effect e s
  by_cases hf : e.negFlag (kindOf s.media) = true
  · exact effect_flag_mono heff hf
  · have hf' : e.negFlag (kindOf s.media) = false := by simpa using hf
    unfold updateSection
    have hfirst : (kindOf s.media != Kind.other && !e.negFlag (kindOf s.media)) = true := by
      simp [hk, hf']
    simp only [hfirst, Bool.not_true, Bool.false_and, Bool.false_eq_true, if_false, if_true]
    have hflag := setFlag_negFlag_same e (kindOf s.media) hk
    repeat' split
    all_goals simp only [setNeg_negFlag, hflag]

/-- a description that was applied without error and contains a section of kind `k` leaves `k` flagged -/
theorem update_flag : ∀ (secs : List Section) (e : Engine) (s : Section), s ∈ secs → kindOf s.media ≠ .other →
    (update e secs).2 = none → (update e secs).1.negFlag (kindOf s.media) = true := by
  intro secs
  induction secs with
  | nil => intro e s hs; cases hs
  | cons s' rest ih =>
    intro e s hs hk hok
    unfold update at hok ⊢
    split at hok
    · cases hok
    · rename_i e' heq
      rcases List.mem_cons.mp hs with h | h
      · subst h
        have h1 : e'.negFlag (kindOf s.media) = true := by
          have := updateSection_flag e s hk; rw [heq] at this; exact this
        exact update_inv (P := fun e'' => e''.negFlag (kindOf s.media) = true)
          (fun e'' s'' h => effect_flag_mono (updateSection_effect e'' s'') h) rest e' h1
      · exact ih e' s h hk hok

theorem updateX_eng : ∀ (secs : List RSection) (e : Engine) (x : ExtEngine),
    ((updateX e x secs).1.1, (updateX e x secs).2) = update e (secs.map RSection.toSection) := by
  intro secs
  induction secs with
  | nil => intro e x; rfl
  | cons s rest ih =>
    intro e x
    have h := updateSectionX_eng e x s
    unfold updateX update
    simp only [List.map_cons]
    generalize hu : updateSectionX e x s = r at h
    rcases r with ⟨⟨e', x'⟩, er⟩
    simp only at h
    rw [← h]
    cases er with
    | some er => rfl
    | none => exact ih e' x'

/-! ### transceivers created by SetRemoteDescription on a PeerConnection without transceivers -/

/-- the transceiver stems from section `s`: its mid, its kind, and preferences computed from its codecs against
    the codec list `codecs k` of its kind -/
def TrFrom (codecs : Kind → List CodecP) (s : RSection) (t : Tr) : Prop :=
  t.mid = s.mid ∧ t.kind = kindOf s.media ∧ kindOf s.media ≠ .other ∧
    t.prefs = setCodecPreferencesFromRemote (codecs (kindOf s.media)) [] s.codecs

theorem findByMid_nil (trs : List Tr) (mid : Str) : findByMid trs mid [] = (none, []) := rfl

theorem satisfy_nil (trs : List Tr) (kind : Kind) (dir : TDir) :
    satisfyTypeAndDirection trs kind dir [] = (none, []) := by
  cases dir <;> rfl

theorem applyRemoteSection_nil {pc pc' : Pc} {w : List Nat} {s : RSection}
    (h : applyRemoteSection pc [] s = some (pc', w)) :
    w = [] ∧ pc'.eng = pc.eng ∧ pc'.xe = pc.xe ∧ pc'.remote = pc.remote ∧
      (pc'.trs = pc.trs ∨ ∃ t, pc'.trs = pc.trs ++ [t] ∧ TrFrom pc.eng.codecsByKind s t) := by
  unfold applyRemoteSection at h
  split at h
  · cases h
  · split at h
    · cases h; exact ⟨rfl, rfl, rfl, rfl, Or.inl rfl⟩
    · dsimp only at h
      split at h
      · cases h; exact ⟨rfl, rfl, rfl, rfl, Or.inl rfl⟩
      · rename_i hkind
        simp only [findByMid_nil, satisfy_nil] at h
        cases h
        refine ⟨rfl, rfl, rfl, rfl, Or.inr ⟨_, rfl, rfl, rfl, ?_, rfl⟩⟩
        simpa using hkind

theorem applyRemoteSections_nil : ∀ (secs : List RSection) (pc pc' : Pc),
    applyRemoteSections pc [] secs = some pc' →
    pc'.eng = pc.eng ∧ pc'.xe = pc.xe ∧ pc'.remote = pc.remote ∧
      ∀ t ∈ pc'.trs, t ∈ pc.trs ∨ ∃ s ∈ secs, TrFrom pc.eng.codecsByKind s t := by
  intro secs
  induction secs with
  | nil => intro pc pc' h; simp [applyRemoteSections] at h; subst h; exact ⟨rfl, rfl, rfl, fun t ht => Or.inl ht⟩
  | cons s rest ih =>
    intro pc pc' h
    unfold applyRemoteSections at h
    split at h
    · cases h
    · rename_i pc1 w1 h1
      obtain ⟨hw, heng, hxe, hrem, htrs⟩ := applyRemoteSection_nil h1
      subst hw
      obtain ⟨heng', hxe', hrem', hall⟩ := ih pc1 pc' h
      refine ⟨heng'.trans heng, hxe'.trans hxe, hrem'.trans hrem, ?_⟩
      intro t ht
      rcases hall t ht with h | ⟨s', hs', hfrom⟩
      · rcases htrs with htrs | ⟨t1, htrs, hfrom⟩
        · rw [htrs] at h; exact Or.inl h
        · rw [htrs] at h
          rcases List.mem_append.mp h with h | h
          · exact Or.inl h
          · simp at h; subst h
            exact Or.inr ⟨s, List.mem_cons_self, hfrom⟩
      · rw [heng] at hfrom
        exact Or.inr ⟨s', List.mem_cons_of_mem _ hs', hfrom⟩

/-! ### pairing answer sections with offer sections -/

theorem findByMid_spec (trs : List Tr) (mid : Str) : ∀ (work : List Nat) (i : Nat) (w : List Nat),
    findByMid trs mid work = (some i, w) → ∃ t, trs[i]? = some t ∧ t.mid = mid := by
  intro work
  induction work with
  | nil => intro i w h; simp [findByMid] at h
  | cons j js ih =>
    intro i w h
    unfold findByMid at h
    split at h
    · rename_i hj
      simp only [Prod.mk.injEq, Option.some.injEq] at h
      obtain ⟨rfl, _⟩ := h
      cases ht : trs[j]? with
      | none => simp [ht] at hj
      | some t => exact ⟨t, rfl, by simpa [ht] using hj⟩
    · generalize hr : findByMid trs mid js = r at h
      rcases r with ⟨ri, rw'⟩
      simp only [Prod.mk.injEq] at h
      obtain ⟨h1, _⟩ := h
      subst h1
      exact ih i rw' hr

theorem matchSections_spec (trs : List Tr) : ∀ (secs : List RSection) (work : List Nat)
    (pairs : List (RSection × Nat)) (w : List Nat) (err : Bool),
    matchSections trs work secs = (pairs, w, err) →
    ∀ p ∈ pairs, p.1 ∈ secs ∧ ∃ t, trs[p.2]? = some t ∧ t.mid = p.1.mid := by
  intro secs
  induction secs with
  | nil => intro work pairs w err h; simp [matchSections] at h; intro p hp; rw [h.1] at hp; cases hp
  | cons s rest ih =>
    intro work pairs w err h
    unfold matchSections at h
    split at h
    · simp only [Prod.mk.injEq] at h; intro p hp; rw [← h.1] at hp; cases hp
    · split at h
      · intro p hp; obtain ⟨h1, h2⟩ := ih work pairs w err h p hp; exact ⟨List.mem_cons_of_mem _ h1, h2⟩
      · split at h
        · intro p hp; obtain ⟨h1, h2⟩ := ih work pairs w err h p hp; exact ⟨List.mem_cons_of_mem _ h1, h2⟩
        · split at h
          · simp only [Prod.mk.injEq] at h; intro p hp; rw [← h.1] at hp; cases hp
          · rename_i i work' hfind
            generalize hr : matchSections trs work' rest = r at h
            rcases r with ⟨ps, w', err'⟩
            simp only [Prod.mk.injEq] at h
            obtain ⟨h1, _, _⟩ := h
            subst h1
            intro p hp
            rcases List.mem_cons.mp hp with hp | hp
            · subst hp
              exact ⟨List.mem_cons_self, findByMid_spec trs s.mid work i work' hfind⟩
            · obtain ⟨h1, h2⟩ := ih work' ps w' err' hr p hp
              exact ⟨List.mem_cons_of_mem _ h1, h2⟩

/-- every section of an answer is what addTransceiverSDP writes for a transceiver that carries the mid of the
    offer section it is paired with -/
theorem answerSections_paired {pc : Pc} {d : RDesc} {secs : List OutSection} (hr : pc.remote = some d)
    (h : answerSections pc = some secs) :
    ∀ o ∈ secs, ∃ s ∈ d.secs, ∃ t ∈ pc.trs, t.mid = s.mid ∧ ∃ me, sectionFor pc.eng pc.xe t me = some o.sec ∧
      o.mid = s.mid := by
  unfold answerSections at h
  rw [hr] at h
  simp only at h
  unfold answerPlan at h
  rw [hr] at h
  simp only at h
  generalize hm : matchSections pc.trs (List.range pc.trs.length) d.secs = r at h
  rcases r with ⟨pairs, w, err⟩
  simp only at h
  split at h
  · cases h
  · have hspec := matchSections_spec pc.trs d.secs _ pairs w err hm
    unfold matchedSections at h
    simp only [mapM'] at h
    split at h
    · rename_i a b ha hb
      cases hb
      cases h
      intro o ho
      simp only [List.append_nil] at ho
      rcases mapM'_mem _ _ _ ha o ho with ⟨p, hp, hpo⟩
      obtain ⟨hps, t, ht, htm⟩ := hspec p hp
      rw [ht] at hpo
      simp only at hpo
      rcases Option.map_eq_some_iff.mp hpo with ⟨sec, hsec, rfl⟩
      exact ⟨p.1, hps, t, List.mem_of_getElem? ht, htm, _, hsec, rfl⟩
    · cases h

theorem mem_flagFrom : ∀ (trs : List Tr) (i : Nat) (idxs : List Nat) (t' : Tr), t' ∈ flagFrom i trs idxs →
    ∃ t ∈ trs, t'.mid = t.mid ∧ t'.kind = t.kind ∧ t'.prefs = t.prefs := by
  intro trs
  induction trs with
  | nil => intro i idxs t' h; cases h
  | cons t ts ih =>
    intro i idxs t' h
    unfold flagFrom at h
    rcases List.mem_cons.mp h with h | h
    · refine ⟨t, List.mem_cons_self, ?_⟩
      subst h
      split <;> exact ⟨rfl, rfl, rfl⟩
    · rcases ih (i + 1) idxs t' h with ⟨t0, ht0, h1⟩
      exact ⟨t0, List.mem_cons_of_mem _ ht0, h1⟩

theorem mem_setAt {α} : ∀ (l : List α) (i : Nat) (v a : α), a ∈ setAt l i v → a = v ∨ a ∈ l := by
  intro l
  induction l with
  | nil => intro i v a h; cases h
  | cons x xs ih =>
    intro i v a h
    cases i with
    | zero =>
      simp only [setAt, List.mem_cons] at h
      rcases h with h | h
      · exact Or.inl h
      · exact Or.inr (List.mem_cons_of_mem _ h)
    | succ i =>
      simp only [setAt, List.mem_cons] at h
      rcases h with h | h
      · exact Or.inr (by simp [h])
      · rcases ih i v a h with h | h
        · exact Or.inl h
        · exact Or.inr (List.mem_cons_of_mem _ h)

/-- preparing the answer touches only directions and negotiated flags -/
theorem mem_prepareAnswer : ∀ (pairs : List (RSection × Nat)) (trs : List Tr) (t' : Tr), t' ∈ prepareAnswer trs pairs →
    ∃ t ∈ trs, t'.mid = t.mid ∧ t'.kind = t.kind ∧ t'.prefs = t.prefs := by
  intro pairs
  induction pairs with
  | nil => intro trs t' h; exact ⟨t', h, rfl, rfl, rfl⟩
  | cons p rest ih =>
    intro trs t' h
    rcases p with ⟨s, i⟩
    unfold prepareAnswer at h
    split at h
    · exact ih trs t' h
    · rename_i t0 ht0
      rcases ih _ t' h with ⟨t1, ht1, h1, h2, h3⟩
      rcases mem_setAt _ _ _ _ ht1 with hh | hh
      · subst hh
        exact ⟨t0, List.mem_of_getElem? ht0, h1, h2, h3⟩
      · exact ⟨t1, hh, h1, h2, h3⟩

/-- SetRemoteDescription(offer) succeeding on a fresh PeerConnection: the engine is the updated one, the offer is
    pending, and every transceiver was created for one of its sections -/
theorem setRemoteOffer_fresh_ok {multi : Bool} {codecs : List (Kind × CodecP)} {exts : List (Str × Kind × List XDir)}
    {d : RDesc} {pc1 : Pc} (h : setRemoteOffer (freshPc multi codecs exts) d = (pc1, .ok)) :
    updateX (freshPc multi codecs exts).eng (freshPc multi codecs exts).xe d.secs = ((pc1.eng, pc1.xe), none) ∧
      pc1.remote = some d ∧ ∀ t ∈ pc1.trs, ∃ s ∈ d.secs, TrFrom pc1.eng.codecsByKind s t := by
  have hfresh_remote : (freshPc multi codecs exts).remote = none := rfl
  have hfresh_trs : (freshPc multi codecs exts).trs = [] := rfl
  unfold setRemoteOffer at h
  simp only [hfresh_remote, Option.isSome_none, Bool.false_eq_true, if_false] at h
  split at h
  · simp at h
  · generalize hup : updateX (freshPc multi codecs exts).eng (freshPc multi codecs exts).xe d.secs = up at h
    rcases up with ⟨⟨e, x⟩, er⟩
    cases er with
    | some er => simp at h
    | none =>
      simp only [hfresh_trs, List.length_nil, List.range_zero] at h
      split at h
      · simp at h
      · rename_i pc' happly
        simp only [Prod.mk.injEq, and_true] at h
        subst h
        obtain ⟨heng, hxe, hrem, htrs⟩ := applyRemoteSections_nil _ _ _ happly
        simp only at heng hxe hrem htrs
        refine ⟨by rw [heng, hxe], hrem, ?_⟩
        intro t ht
        rcases htrs t ht with hnil | ⟨s, hs, hfrom⟩
        · cases hnil
        · exact ⟨s, hs, by rw [heng]; exact hfrom⟩

theorem codecsByKind_of_flag {e : Engine} {k : Kind} (hf : e.negFlag k = true) : e.codecsByKind k = e.negCodecs k := by
  cases k with
  | other => rfl
  | audio => simp only [Engine.negFlag] at hf; simp [Engine.codecsByKind, Engine.negCodecs, hf]
  | video => simp only [Engine.negFlag] at hf; simp [Engine.codecsByKind, Engine.negCodecs, hf]

theorem freshPc_neg (multi : Bool) (codecs : List (Kind × CodecP)) (exts : List (Str × Kind × List XDir)) (k : Kind) :
    (freshPc multi codecs exts).eng.negCodecs k = [] := by
  unfold freshPc
  simp only
  apply foldl_inv (P := fun (e : Engine) => e.negCodecs k = []) _ _ _
  · cases k <;> rfl
  · intro e kc _ he
    rcases kc with ⟨k0, c⟩
    cases k0 <;> cases k <;> simp [Engine.register, Engine.negCodecs] at he ⊢ <;> exact he

theorem eq_of_pairwise_mid {secs : List RSection} (h : secs.Pairwise (fun a b => a.mid ≠ b.mid)) {a b : RSection}
    (ha : a ∈ secs) (hb : b ∈ secs) (hm : a.mid = b.mid) : a = b := by
  induction secs with
  | nil => cases ha
  | cons s rest ih =>
    rw [List.pairwise_cons] at h
    rcases List.mem_cons.mp ha with ha | ha <;> rcases List.mem_cons.mp hb with hb | hb
    · rw [ha, hb]
    · exact absurd (ha ▸ hm) (h.1 b hb)
    · exact absurd (hb ▸ hm.symm) (h.1 a ha)
    · exact ih h.2 ha hb

end WebrtcVerif.PcSections
