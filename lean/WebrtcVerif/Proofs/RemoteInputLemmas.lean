import WebrtcVerif.Model.RemoteInput
/-! Helper lemmas for C30 (panic-freedom of the remote-input helpers). -/
namespace WebrtcVerif.RemoteInput

theorem idx_ok_of_pos {α : Type} (l : List α) (h : 0 < l.length) : (idx l 0).ok = true := idx_ok l 0 h

theorem idx_eq_val {α : Type} (l : List α) (i : Nat) (h : i < l.length) : idx l i = .val l[i] := by
  unfold idx; rw [List.getElem?_eq_getElem h]

theorem sliceFrom_ok {α : Type} (s : List α) (i : Nat) (h : i ≤ s.length) : sliceFrom s i = .val (s.drop i) := by
  simp [sliceFrom, h]

theorem sliceTo_ok {α : Type} (s : List α) (i : Nat) (h : i ≤ s.length) : sliceTo s i = .val (s.take i) := by
  simp [sliceTo, h]

theorem hasPrefix_length (s p : Str) (h : hasPrefix s p = true) : p.length ≤ s.length := by
  induction p generalizing s with
  | nil => simp
  | cons q qs ih =>
    cases s with
    | nil => simp [hasPrefix] at h
    | cons x xs =>
      simp only [hasPrefix, Bool.and_eq_true] at h
      have := ih xs h.2
      simp; omega

/-! ### getRids -/

theorem collectRids_ok (attrs : List Attr) (rids : List Rid) (sim : Str) : (collectRids attrs rids sim).ok = true := by
  induction attrs generalizing rids sim with
  | nil => simp [collectRids]
  | cons a rest ih =>
    unfold collectRids
    split
    · rw [idx_eq_val _ 0 (split_pos _ _)]
      simp only [Res.bind_val]
      exact ih _ _
    · split
      · exact ih _ _
      · exact ih _ _

theorem applyRidState_ok (rids : List Rid) (st : Str) : (applyRidState rids st).ok = true := by
  unfold applyRidState
  split
  · rename_i h
    rw [sliceTo_ok _ 1 (by omega)]
    simp only [Res.bind_val]
    split
    · rw [sliceFrom_ok _ 1 (by omega)]; simp
    · simp
  · simp

theorem applyRidStates_ok (sts : List Str) (rids : List Rid) : (applyRidStates sts rids).ok = true := by
  induction sts generalizing rids with
  | nil => simp [applyRidStates]
  | cons st rest ih =>
    unfold applyRidStates
    apply Res.ok_bind _ _ (applyRidState_ok rids st)
    intro a _; exact ih a

theorem getRids_ok (m : Media) : (getRids m).ok = true := by
  unfold getRids
  apply Res.ok_bind _ _ (collectRids_ok _ _ _)
  intro ⟨rids, sim⟩ _
  simp only
  split
  · apply Res.ok_bind
    · cases h : indexByte cSpace sim with
      | none => simp
      | some space =>
        simp only
        split
        · have := indexByte_lt _ _ _ h
          rw [sliceFrom_ok _ _ (by omega)]; simp
        · simp
    · intro a _; exact applyRidStates_ok _ _
  · simp

/-! ### trackDetailsFromSDP -/

def TracksInv (ts : List TrackDetails) : Prop := ∀ t ∈ ts, t.ssrcs ≠ []

theorem tracksInv_nil : TracksInv [] := by intro t h; simp at h

theorem tracksInv_filter (ts : List TrackDetails) (ssrc : Nat) (h : TracksInv ts) :
    TracksInv (filterTrackWithSSRC ts ssrc) := by
  intro t ht
  exact h t (List.mem_filter.mp ht).1

theorem markRepair_spec (isRtx : Bool) (base rep : Nat) (ts : List TrackDetails) (h : TracksInv ts) :
    ∃ ts', markRepair isRtx base rep ts = .val ts' ∧ TracksInv ts' := by
  induction ts with
  | nil => exact ⟨[], rfl, tracksInv_nil⟩
  | cons t rest ih =>
    have ht : t.ssrcs ≠ [] := h t (by simp)
    have hrest : TracksInv rest := fun x hx => h x (by simp [hx])
    obtain ⟨ts', e, inv⟩ := ih hrest
    cases hs : t.ssrcs with
    | nil => exact absurd hs ht
    | cons s0 more =>
      unfold markRepair
      rw [hs, idx_zero_cons]
      simp only [Res.bind_val, e, Res.pure_eq]
      refine ⟨_, rfl, ?_⟩
      intro x hx
      rcases List.mem_cons.mp hx with hx | hx
      · subst hx
        split
        · split <;> simp
        · exact ht
      · exact inv x hx

def StInv (st : TDState) : Prop := TracksInv st.tracks

theorem stepSsrcGroup_spec (st : TDState) (value : Str) (h : StInv st) :
    ∃ st', stepSsrcGroup st value = .val st' ∧ StInv st' := by
  unfold stepSsrcGroup
  simp only
  rw [idx_eq_val _ 0 (split_pos _ _)]
  simp only [Res.bind_val]
  split
  · split
    · rename_i h3
      have h3' : (split value cSpace).length = 3 := by simpa using h3
      rw [idx_eq_val _ 1 (by omega), idx_eq_val _ 2 (by omega)]
      simp only [Res.bind_val]
      split
      · rename_i base rep _ _
        obtain ⟨ts', e, inv⟩ := markRepair_spec true base rep _ (tracksInv_filter st.tracks rep h)
        simp only [e, Res.bind_val, Res.pure_eq]
        exact ⟨_, rfl, inv⟩
      · exact ⟨st, rfl, h⟩
    · exact ⟨st, rfl, h⟩
  · split
    · split
      · rename_i h3
        have h3' : (split value cSpace).length = 3 := by simpa using h3
        rw [idx_eq_val _ 1 (by omega), idx_eq_val _ 2 (by omega)]
        simp only [Res.bind_val]
        split
        · rename_i base rep _ _
          obtain ⟨ts', e, inv⟩ := markRepair_spec false base rep _ (tracksInv_filter st.tracks rep h)
          simp only [e, Res.bind_val, Res.pure_eq]
          exact ⟨_, rfl, inv⟩
        · exact ⟨st, rfl, h⟩
      · exact ⟨st, rfl, h⟩
    · exact ⟨st, rfl, h⟩

theorem stepMsid_spec (st : TDState) (value : Str) (h : StInv st) :
    ∃ st', stepMsid st value = .val st' ∧ StInv st' := by
  unfold stepMsid
  simp only
  split
  · rename_i h2
    have h2' : (split value cSpace).length = 2 := by simpa using h2
    rw [idx_eq_val _ 0 (by omega), idx_eq_val _ 1 (by omega)]
    exact ⟨_, rfl, h⟩
  · exact ⟨st, rfl, h⟩

theorem tracksInv_set (ts : List TrackDetails) (i : Nat) (u : TrackDetails) (h : TracksInv ts) (hu : u.ssrcs ≠ []) :
    TracksInv (ts.set i u) := by
  intro t ht
  rcases List.mem_or_eq_of_mem_set ht with ht | ht
  · exact h t ht
  · subst ht; exact hu

theorem tracksInv_append (ts : List TrackDetails) (u : TrackDetails) (h : TracksInv ts) (hu : u.ssrcs ≠ []) :
    TracksInv (ts ++ [u]) := by
  intro t ht
  rcases List.mem_append.mp ht with ht | ht
  · exact h t ht
  · simp at ht; subst ht; exact hu

theorem stepSsrc_spec (mid : Str) (kind : Nat) (st : TDState) (value : Str) (h : StInv st) :
    ∃ st', stepSsrc mid kind st value = .val st' ∧ StInv st' := by
  unfold stepSsrc
  simp only
  rw [idx_eq_val _ 0 (split_pos _ _)]
  simp only [Res.bind_val]
  split
  · exact ⟨st, rfl, h⟩
  · rename_i ssrc _
    split
    · exact ⟨st, rfl, h⟩
    · split
      · exact ⟨st, rfl, h⟩
      · -- the msid part yields some st1 with the same tracks
        have hst1 : ∃ st1, (if (split value cSpace).length == 3 then do
              let s1 ← idx (split value cSpace) 1
              if hasPrefix s1 kMsidColon then do
                let sid ← sliceFrom s1 kMsidColon.length
                let tid ← idx (split value cSpace) 2
                pure { st with streamID := sid, trackID := tid }
              else pure st
            else pure st : Res TDState) = .val st1 ∧ st1.tracks = st.tracks := by
          split
          · rename_i h3
            have h3' : (split value cSpace).length = 3 := by simpa using h3
            rw [idx_eq_val _ 1 (by omega)]
            simp only [Res.bind_val]
            split
            · rename_i hp
              rw [sliceFrom_ok _ _ (hasPrefix_length _ _ hp), idx_eq_val _ 2 (by omega)]
              exact ⟨_, rfl, rfl⟩
            · exact ⟨st, rfl, rfl⟩
          · exact ⟨st, rfl, rfl⟩
        obtain ⟨st1, e1, ht1⟩ := hst1
        rw [e1]
        simp only [Res.bind_val]
        have inv1 : TracksInv st1.tracks := by rw [ht1]; exact h
        split
        · exact ⟨_, rfl, tracksInv_set _ _ _ inv1 (by simp)⟩
        · exact ⟨_, rfl, tracksInv_append _ _ inv1 (by simp)⟩

theorem tdStep_spec (mid : Str) (kind : Nat) (st : TDState) (a : Attr) (h : StInv st) :
    ∃ st', tdStep mid kind st a = .val st' ∧ StInv st' := by
  unfold tdStep
  split
  · exact stepSsrcGroup_spec st _ h
  · split
    · exact stepMsid_spec st _ h
    · split
      · exact stepSsrc_spec mid kind st _ h
      · exact ⟨st, rfl, h⟩

theorem tdLoop_spec (mid : Str) (kind : Nat) (attrs : List Attr) (st : TDState) (h : StInv st) :
    ∃ st', tdLoop mid kind attrs st = .val st' ∧ StInv st' := by
  induction attrs generalizing st with
  | nil => exact ⟨st, rfl, h⟩
  | cons a rest ih =>
    obtain ⟨st1, e1, inv1⟩ := tdStep_spec mid kind st a h
    unfold tdLoop
    rw [e1]
    simp only [Res.bind_val]
    exact ih st1 inv1

/-- What a track produced by `trackDetailsFromSDP` looks like: it has an SSRC, or it is the rid-based
    (simulcast) entry, which has none. -/
def TrackShape (t : TrackDetails) : Prop := t.ssrcs ≠ [] ∨ (t.ssrcs = [] ∧ t.rids ≠ [])

theorem tdMedia_spec (m : Media) : ∃ ts, tdMedia m = .val ts ∧ ∀ t ∈ ts, TrackShape t := by
  unfold tdMedia
  split
  · exact ⟨[], rfl, by simp⟩
  · split
    · exact ⟨[], rfl, by simp⟩
    · simp only
      split
      · exact ⟨[], rfl, by simp⟩
      · split
        · exact ⟨[], rfl, by simp⟩
        · obtain ⟨st, e, inv⟩ := tdLoop_spec (getMidValue m) (codecType m.media) m.attrs
            { tracks := [], rtxFlows := [], fecFlows := [], streamID := [], trackID := [] } tracksInv_nil
          rw [e]
          simp only [Res.bind_val]
          have hr := getRids_ok m
          cases hg : getRids m with
          | panic => rw [hg] at hr; simp at hr
          | val rids =>
            simp only [Res.bind_val]
            split
            · rename_i hc
              refine ⟨_, rfl, ?_⟩
              intro t ht
              simp at ht; subst ht
              right
              refine ⟨rfl, ?_⟩
              simp only [Bool.and_eq_true, bne_iff_ne, ne_eq] at hc
              intro hnil
              have : rids = [] := by simpa using hnil
              exact hc.1.1 (by simp [this])
            · exact ⟨_, rfl, fun t ht => Or.inl (inv t ht)⟩

theorem tdMedias_spec (ms : List Media) : ∃ ts, tdMedias ms = .val ts ∧ ∀ t ∈ ts, TrackShape t := by
  induction ms with
  | nil => exact ⟨[], rfl, by simp⟩
  | cons m rest ih =>
    obtain ⟨a, ea, ha⟩ := tdMedia_spec m
    obtain ⟨b, eb, hb⟩ := ih
    unfold tdMedias
    rw [ea, eb]
    refine ⟨a ++ b, rfl, ?_⟩
    intro t ht
    rcases List.mem_append.mp ht with ht | ht
    · exact ha t ht
    · exact hb t ht

/-! ### receiveEncodings -/
theorem receiveEncodings_ok (t : TrackDetails) : (receiveEncodings t).ok = true := by
  unfold receiveEncodings
  simp only
  generalize List.range (max t.rids.length t.ssrcs.length) = l
  induction l with
  | nil => simp
  | cons i rest ih =>
    simp only [List.foldr_cons]
    apply Res.ok_bind
    · split
      · rename_i h; exact idx_ok _ _ h
      · simp
    · intro rid _
      apply Res.ok_bind
      · split
        · rename_i h; exact idx_ok _ _ h
        · simp
      · intro ssrc _
        apply Res.ok_bind
        · cases t.rtx <;> simp [deref]
        · intro rtx _
          apply Res.ok_bind
          · cases t.fec <;> simp [deref]
          · intro fec _
            apply Res.ok_bind _ _ ih
            intro r _; simp

/-! ### feedback / codecs -/
theorem feedbackOf_ok (l : List Str) : (feedbackOf l).ok = true := by
  induction l with
  | nil => simp [feedbackOf]
  | cons raw rest ih =>
    unfold feedbackOf
    simp only
    rw [idx_eq_val _ 0 (split_pos _ _)]
    simp only [Res.bind_val]
    apply Res.ok_bind
    · split
      · rename_i h2
        have : (split raw cSpace).length = 2 := by simpa using h2
        exact idx_ok _ _ (by omega)
      · simp
    · intro p _
      apply Res.ok_bind _ _ ih
      intro tl _; simp

theorem codecsLoop_ok (oracle : CodecOracle) (media : Str) (fs : List Str) : (codecsLoop oracle media fs).ok = true := by
  induction fs with
  | nil => simp [codecsLoop]
  | cons f rest ih =>
    unfold codecsLoop
    split
    · simp
    · split
      · split
        · exact ih
        · simp
      · simp only
        apply Res.ok_bind _ _ (feedbackOf_ok _)
        intro fb _
        apply Res.ok_bind _ _ ih
        intro tl _; simp

/-! ### Plan-B loop -/
theorem planBLoop_ok (addFails : TrackDetails → Bool) (ts : List TrackDetails) :
    (planBLoop warnNew addFails ts).ok = true := by
  induction ts with
  | nil => simp [planBLoop]
  | cons t rest ih =>
    unfold planBLoop
    split
    · apply Res.ok_bind
      · simp [warnNew, planBWarnArgs]
      · intro _ _; exact ih
    · apply Res.ok_bind _ _ (receiveEncodings_ok t)
      intro _ _
      apply Res.ok_bind _ _ ih
      intro _ _; simp

theorem undeclaredScan_ok (attrs : List Attr) (sid id : Str) (r s : Bool) : (undeclaredScan attrs sid id r s).ok = true := by
  induction attrs generalizing sid id r s with
  | nil => simp [undeclaredScan]
  | cons a rest ih =>
    unfold undeclaredScan
    split
    · simp only
      split
      · rename_i h2
        have : (split a.value cSpace).length = 2 := by simpa using h2
        rw [idx_eq_val _ 0 (by omega), idx_eq_val _ 1 (by omega)]
        simp only [Res.bind_val]
        exact ih _ _ _ _
      · exact ih _ _ _ _
    · split
      · exact ih _ _ _ _
      · split
        · exact ih _ _ _ _
        · exact ih _ _ _ _

/-! ### exportExtensions -/
theorem exportExtLoop_ok (e : Str) (addFails : Str → Str → Bool) (fuel i start : Nat) (key value : Str)
    (acc : List (Str × Str)) (h : start ≤ i) : (exportExtLoop e addFails fuel i start key value acc).ok = true := by
  induction fuel generalizing i start key value acc with
  | zero => simp [exportExtLoop]
  | succ n ih =>
    unfold exportExtLoop
    split
    · rename_i hi
      rw [idx_eq_val _ _ hi]
      simp only [Res.bind_val]
      split
      · apply Res.ok_bind
        · split
          · have : start ≤ i ∧ i ≤ e.length := ⟨h, by omega⟩
            simp [sliceRange, this]
          · rw [sliceFrom_ok _ _ (by omega)]; rfl
        · intro field _
          (repeat' split) <;> first | rfl | (apply ih; omega) | (apply ih; split <;> omega)
      · apply ih; omega
    · rfl

theorem exportExtensions_ok (e : Str) (addFails : Str → Str → Bool) : (exportExtensions e addFails).ok = true :=
  exportExtLoop_ok e addFails _ 0 0 [] [] [] (Nat.le_refl 0)


/-! ### handleIncomingSSRC -/
theorem handleUndeclaredSSRC_ok (m : Media) : (handleUndeclaredSSRC m).ok = true := by
  unfold handleUndeclaredSSRC
  apply Res.ok_bind _ _ (undeclaredScan_ok _ _ _ _ _)
  intro ⟨sid, id, r, s⟩ _
  simp only
  split <;> (try split) <;> rfl

theorem undeclaredCall_ok (addOK : Nat → Bool) (m : Media) : (undeclaredCall addOK m).ok = true := by
  unfold undeclaredCall
  apply Res.ok_bind _ _ (handleUndeclaredSSRC_ok m)
  intro r _
  cases r <;> simp only <;> (try split) <;> rfl

theorem handleIncomingSSRCHead_ok (s : Session) (isAnswer withoutAnswer midOK ridOK : Bool) (known addOK : Nat → Bool)
    (ssrc : Nat) (pkt : Option (List Nat)) :
    (handleIncomingSSRCHead s isAnswer withoutAnswer midOK ridOK known addOK ssrc pkt).ok = true := by
  unfold handleIncomingSSRCHead
  obtain ⟨ts, e, _⟩ := tdMedias_spec s.medias
  have e' : trackDetailsFromSDP s = .val ts := e
  rw [e']
  simp only [Res.bind_val]
  split
  · rfl
  · apply Res.ok_bind
    · split
      · rename_i h
        simp only [Bool.and_eq_true, beq_iff_eq] at h
        rw [idx_eq_val _ 0 (by omega)]
        simp only [Res.bind_val]
        exact undeclaredCall_ok _ _
      · rfl
    · intro sc _
      split
      · rfl
      · split
        · rfl
        · split
          · rfl
          · rename_i b hb
            rw [idx_eq_val _ 1 (by omega)]
            simp only [Res.bind_val]
            cases hk : known (b[1] % 128)
            · simp [rtpParametersByPayloadType, hk]
            · simp only [rtpParametersByPayloadType, hk, if_true]
              split
              · split
                · rfl
                · split
                  · apply Res.ok_bind _ _ (undeclaredCall_ok _ _)
                    intro r _; cases r <;> rfl
                  · rfl
              · split
                · rfl
                · rfl

/-! ### probing loop -/
theorem probeTransceivers_ok (mid rid rsid : Str) (trs : List ProbeTr) (i : Nat) :
    (probeTransceivers mid rid rsid trs i).ok = true := by
  induction trs generalizing i with
  | nil => rfl
  | cons t ts ih =>
    unfold probeTransceivers
    split
    · exact ih _
    · rename_i h
      cases hr : t.receiver with
      | none => simp [hr] at h
      | some r => simp only [deref, Res.bind_val]; split <;> rfl

theorem probeLoop_ok (trs : List ProbeTr) (fuel n : Nat) (st : PktIds) (q : List PktIds) :
    (probeLoop trs fuel n st q).ok = true := by
  induction fuel generalizing n st q with
  | zero => rfl
  | succ f ih =>
    unfold probeLoop
    split
    · rfl
    · split
      · split
        · rfl
        · exact ih _ _ _
      · apply Res.ok_bind _ _ (probeTransceivers_ok _ _ _ _ _)
        intro r _
        split
        · rfl
        · exact ih _ _ _

theorem probe_ok (trs : List ProbeTr) (first : PktIds) (rest : List PktIds) : (probe trs first rest).ok = true :=
  probeLoop_ok _ _ _ _ _

end WebrtcVerif.RemoteInput
