import WebrtcVerif.Proofs.OggMulti
/-!
  Phases of the multi-track `Writer` (nothing written / started / closed) and what each call does to them.
-/
namespace WebrtcVerif.Ogg
open WebrtcVerif.Bytes WebrtcVerif.OggSpec

def hdrOf (t : Track) : Bs := buildIDHeader t.sampleRate t.preSkip t.mapping
def tagsOf (t : Track) : Bs := buildCommentHeader t.tags

theorem hdrOf_cfg {t t' : Track} (h : SameCfg t t') : hdrOf t' = hdrOf t := by
  simp [hdrOf, h.sampleRate, h.preSkip, h.mapping]
theorem tagsOf_cfg {t t' : Track} (h : SameCfg t t') : tagsOf t' = tagsOf t := by
  simp [tagsOf, h.tags]

/-- the accepted packets of track `i` in a history of (track, payload) pairs -/
def accFor (written : List (Nat × Bs)) (i : Nat) : List Pkt :=
  (written.filter (fun x => x.1 == i)).map (fun x => pktOf x.2)

/-- nothing written yet -/
structure W0 (sk : Bool) (w : Writer) : Prop where
  isOpen : w.streamOpen = true
  notStarted : w.started = false
  skEq : w.seekable = sk
  out : w.out = []
  distinct : Distinct w.tracks
  fresh : ∀ (i : Nat) (m : MTrack), w.tracks[i]? = some m →
    m.t.pageIndex = 0 ∧ m.t.previousGranulePosition = 0 ∧ m.t.lastPageWritten = false ∧ m.t.serial < two32

/-- headers written, open -/
structure W1 (sk : Bool) (w : Writer) (written : List (Nat × Bs)) : Prop where
  isOpen : w.streamOpen = true
  started : w.started = true
  skEq : w.seekable = sk
  inv : ∃ log items, MInv sk w.out w.tracks log items ∧
    ∀ (i : Nat) (m : MTrack), w.tracks[i]? = some m →
      items[i]? = some (trackItems (hdrOf m.t) (tagsOf m.t) (accFor written i))

theorem MInv.init (sk : Bool) (tracks : List MTrack) (hd : Distinct tracks)
    (hf : ∀ (i : Nat) (m : MTrack), tracks[i]? = some m →
      m.t.pageIndex = 0 ∧ m.t.previousGranulePosition = 0 ∧ m.t.lastPageWritten = false ∧ m.t.serial < two32) :
    MInv sk [] tracks [] (List.replicate tracks.length []) := by
  refine ⟨rfl, by simp, hd, by simp, ?_⟩
  intro i m its hm hi
  rw [List.getElem?_replicate] at hi
  split at hi
  · cases hi
    obtain ⟨f1, f2, f3, f4⟩ := hf i m hm
    refine ⟨by simp [streamOf, itemsPages], by simp [itemsIdx, f1], by simp [lastG, f2], ?_, ?_⟩
    · simp [PtrOk, f3]
    · rw [f1, f2]; exact ⟨by decide, by decide, f4⟩
  · cases hi

theorem writeTrackIDHeader_eq (o : Bs) (sk : Bool) (t : Track) (h : t.previousGranulePosition = 0) :
    writeTrackIDHeader o sk t = writePage o sk (withG t 0) (hdrOf t) 2 0 := by
  rw [withG_self t 0 h]; rfl

theorem writeTrackCommentHeader_eq (o : Bs) (sk : Bool) (t : Track) (h : t.previousGranulePosition = 0) :
    writeTrackCommentHeader o sk t = writePage o sk (withG t 0) (tagsOf t) 0 0 := by
  rw [withG_self t 0 h]; rfl

/-- `startLocked` on a writer that has written nothing -/
theorem W0.start {sk : Bool} {w : Writer} (h : W0 sk w) : W1 sk w.startLocked [] := by
  have hinit := MInv.init sk w.tracks h.distinct h.fresh
  obtain ⟨log1, items1, a1, a2, _, a4, a5⟩ := hdrLoop sk writeTrackIDHeader hdrOf 2 (Or.inr rfl)
    (fun o t ht => writeTrackIDHeader_eq o sk t ht) w.tracks [] [] [] _ (by simpa using hinit) (by
      intro i its _ hi
      rw [List.getElem?_replicate] at hi
      split at hi
      · cases hi; rfl
      · cases hi)
  simp only [List.nil_append, List.length_nil, Nat.zero_add] at a1 a4 a5
  obtain ⟨log2, items2, b1, b2, _, b4, b5⟩ := hdrLoop sk writeTrackCommentHeader tagsOf 0 (Or.inl rfl)
    (fun o t ht => writeTrackCommentHeader_eq o sk t ht) (writeHeadersLoop writeTrackIDHeader sk [] w.tracks).2 []
    (writeHeadersLoop writeTrackIDHeader sk [] w.tracks).1 log1 items1 (by simpa using a1) (by
      intro i its _ hi
      -- every track has exactly its OpusHead item
      have hlen : i < items1.length := (List.getElem?_eq_some_iff.mp hi).1
      rw [a1.len, a2] at hlen
      obtain ⟨m, hm⟩ : ∃ m, w.tracks[i]? = some m := ⟨w.tracks[i], by simp [hlen]⟩
      have := a4 i m [] hm (by rw [List.getElem?_replicate, if_pos hlen])
      rw [this] at hi; cases hi; rfl)
  simp only [List.nil_append, List.length_nil, Nat.zero_add] at b1 b4 b5
  have hw : w.startLocked = { w with
      out := (writeHeadersLoop writeTrackCommentHeader sk (writeHeadersLoop writeTrackIDHeader sk [] w.tracks).1
        (writeHeadersLoop writeTrackIDHeader sk [] w.tracks).2).1
      tracks := (writeHeadersLoop writeTrackCommentHeader sk (writeHeadersLoop writeTrackIDHeader sk [] w.tracks).1
        (writeHeadersLoop writeTrackIDHeader sk [] w.tracks).2).2
      started := true } := by
    simp [Writer.startLocked, h.notStarted, h.skEq, h.out]
  rw [hw]
  refine ⟨h.isOpen, rfl, h.skEq, log2, items2, b1, ?_⟩
  intro i m2 hm2
  simp only at hm2
  have hlen : i < w.tracks.length := by
    have := (List.getElem?_eq_some_iff.mp hm2).1
    rw [b2, a2] at this; exact this
  obtain ⟨m, hm⟩ : ∃ m, w.tracks[i]? = some m := ⟨w.tracks[i], by simp [hlen]⟩
  obtain ⟨m1, hm1, c1, _⟩ := a5 i m hm
  obtain ⟨m2', hm2', c2, _⟩ := b5 i m1 hm1
  rw [hm2] at hm2'; cases hm2'
  have i1 := a4 i m [] hm (by rw [List.getElem?_replicate, if_pos hlen])
  have i2 := b4 i m1 _ hm1 i1
  rw [i2]
  simp only [accFor, List.filter_nil, List.map_nil, trackItems, dataItems, List.nil_append, List.cons_append,
    hdrOf_cfg (c1.trans c2), tagsOf_cfg c2, pageHeaderTypeBeginningOfStream]

theorem W1.start {sk : Bool} {w : Writer} {written : List (Nat × Bs)} (h : W1 sk w written) : w.startLocked = w := by
  simp [Writer.startLocked, h.started]


/-! ### an accepted packet -/

theorem dataItems_snoc (g : Nat) (hg : g < two64) (acc : List Pkt) (q : Pkt) :
    dataItems g (acc ++ [q]) = dataItems g acc ++ [(q.1, 0, ((g + samplesSum acc) % two64 + q.2) % two64)] := by
  induction acc generalizing g with
  | nil => simp [dataItems, samplesSum, Nat.mod_eq_of_lt hg]
  | cons a rest ih =>
    simp only [List.cons_append, dataItems, ih _ (Nat.mod_lt _ (by decide : 0 < two64)), List.cons.injEq, true_and]
    have e : ((g + a.2) % two64 + samplesSum rest) % two64 = (g + samplesSum (a :: rest)) % two64 := by
      simp only [samplesSum, List.map_cons, List.sum_cons, two64]; omega
    rw [e]

theorem trackItems_snoc (head tags : Bs) (acc : List Pkt) (q : Pkt) :
    trackItems head tags (acc ++ [q]) =
      trackItems head tags acc ++ [(q.1, 0, (lastG (trackItems head tags acc) + q.2) % two64)] := by
  rw [lastG_track]
  simp only [trackItems, dataItems_snoc 0 (by decide), Nat.zero_add, List.cons_append]

theorem accFor_snoc (written : List (Nat × Bs)) (i : Nat) (p : Bs) (j : Nat) :
    accFor (written ++ [(i, p)]) j = accFor written j ++ (if i = j then [pktOf p] else []) := by
  by_cases h : i = j <;> simp [accFor, List.filter_append, h]

/-- an accepted packet on track `i` of a started writer -/
theorem W1.wrote {sk : Bool} {w : Writer} {written : List (Nat × Bs)} (h : W1 sk w written)
    (i : Nat) (m : MTrack) (hm : w.tracks[i]? = some m) (p : Bs) (n : Nat) (hn : packetSamples p = some n) :
    W1 sk { w with
        out := (writePage w.out sk (withG m.t ((m.t.previousGranulePosition + n) % two64)) p 0
          ((m.t.previousGranulePosition + n) % two64)).1
        tracks := w.tracks.set i { m with t := (writePage w.out sk (withG m.t ((m.t.previousGranulePosition + n) % two64)) p 0
          ((m.t.previousGranulePosition + n) % two64)).2 } }
      (written ++ [(i, p)]) := by
  obtain ⟨log, items, hinv, hitems⟩ := h.inv
  have hi := hitems i m hm
  have hstep := hinv.write_at i m _ hm hi p 0 ((m.t.previousGranulePosition + n) % two64) (Or.inl rfl)
    (Nat.mod_lt _ (by decide))
  obtain ⟨c1, _, _⟩ := writePage_cfg w.out sk (withG m.t ((m.t.previousGranulePosition + n) % two64)) p 0
    ((m.t.previousGranulePosition + n) % two64)
  have hil : i < w.tracks.length := (List.getElem?_eq_some_iff.mp hm).1
  refine ⟨h.isOpen, h.started, h.skEq, _, _, hstep, ?_⟩
  intro j m' hm'
  simp only at hm'
  rw [List.getElem?_set] at hm' ⊢
  by_cases hj : i = j
  · subst hj
    rw [if_pos rfl, if_pos hil] at hm'
    cases hm'
    rw [if_pos rfl, if_pos (by rw [hinv.len]; exact hil)]
    have hc : SameCfg m.t (writePage w.out sk (withG m.t ((m.t.previousGranulePosition + n) % two64)) p 0
        ((m.t.previousGranulePosition + n) % two64)).2 :=
      ⟨c1.sampleRate, c1.mapping, c1.preSkip, c1.serial, c1.tags⟩
    simp only [hdrOf_cfg hc, tagsOf_cfg hc, accFor_snoc, if_true]
    rw [trackItems_snoc, (hinv.tinv i m _ hm hi).gran]
    simp [pktOf, hn]
  · rw [if_neg hj] at hm' ⊢
    rw [accFor_snoc, if_neg hj, List.append_nil]
    exact hitems j m' hm'


/-- the part of `(*Track).WriteRTP` after `startLocked` -/
def writeCore (w1 : Writer) (i : Nat) (payload : Bs) : Writer × Status :=
  match w1.tracks[i]? with
  | none => (w1, .failed .outputNotOpened)
  | some m =>
    match writeOpusPayload w1.out w1.seekable m.t payload with
    | .error e => (w1, .failed e)
    | .ok (o, t) => ({ w1 with out := o, tracks := w1.tracks.set i { m with t := t } }, .written)

theorem writeRTP_open (w : Writer) (i : Nat) (pkt : Option Bs) (ok : Bool) (h : w.streamOpen = true) :
    w.writeRTP i pkt ok =
      match pkt with
      | none => (w, .failed .nilPacket)
      | some payload =>
        if !ok then (w, .failed .ssrcMismatch)
        else if payload.isEmpty then (w, .skipped)
        else writeCore w.startLocked i payload := by
  simp only [Writer.writeRTP, h, Bool.not_true, Bool.false_eq_true, if_false, writeCore]
  cases pkt with
  | none => rfl
  | some payload =>
    simp only
    split
    · rfl
    · split
      · rfl
      · cases w.startLocked.tracks[i]? with
        | none => rfl
        | some m =>
          simp only
          cases writeOpusPayload w.startLocked.out w.startLocked.seekable m.t payload with
          | error e => rfl
          | ok r => rfl

theorem W1.core {sk : Bool} {w : Writer} {written : List (Nat × Bs)} (h : W1 sk w written) (i : Nat) (payload : Bs) :
    ((writeCore w i payload).1 = w ∧ (writeCore w i payload).2 ≠ .written) ∨
    ((writeCore w i payload).2 = .written ∧ W1 sk (writeCore w i payload).1 (written ++ [(i, payload)]) ∧
      (packetSamples payload).isSome) := by
  unfold writeCore
  cases hm : w.tracks[i]? with
  | none => left; simp
  | some m =>
    simp only
    have hs := sampleCount_spec payload
    cases hps : packetSamples payload with
    | none =>
      rw [hps] at hs
      left; simp [writeOpusPayload, hs]
    | some n =>
      rw [hps] at hs
      right
      have hw : writeOpusPayload w.out w.seekable m.t payload = .ok
          (writePage w.out sk (withG m.t ((m.t.previousGranulePosition + n) % two64)) payload 0
            ((m.t.previousGranulePosition + n) % two64)) := by
        simp only [writeOpusPayload, hs, h.skEq]; rfl
      rw [hw]
      exact ⟨rfl, h.wrote i m hm payload n hps, rfl⟩


/-! ### Close -/

/-- closed: every track's pages form its finished stream -/
structure W2 (sk : Bool) (w : Writer) (written : List (Nat × Bs)) : Prop where
  isClosed : w.streamOpen = false
  fin : ∃ log, w.out = flat log ∧ (∀ p ∈ log, p.wf) ∧
    ∀ (i : Nat) (m : MTrack), w.tracks[i]? = some m → m.t.serial < two32 ∧
      (bodyPages m.t.serial (hdrOf m.t) (tagsOf m.t) (accFor written i)).length ≤ (streamOf m.t.serial log).length ∧
      ((bodyPages m.t.serial (hdrOf m.t) (tagsOf m.t) (accFor written i)).length < two32 →
        streamOf m.t.serial log = finalStream sk m.t.serial (hdrOf m.t) (tagsOf m.t) (accFor written i))

theorem nilEosAll_tracks (out : Bs) (tracks : List MTrack) (j : Nat) (m : MTrack) (hm : tracks[j]? = some m) :
    ∃ m' : MTrack, (nilEosAll out tracks).2[j]? = some m' ∧ SameCfg m.t m'.t := by
  induction tracks generalizing out j with
  | nil => simp at hm
  | cons a rest ih =>
    cases j with
    | zero =>
      simp only [List.getElem?_cons_zero, Option.some.injEq] at hm
      subst hm
      refine ⟨{ a with t := (writeNilEndOfStreamPage out a.t).2 }, by simp [nilEosAll], ?_⟩
      unfold writeNilEndOfStreamPage
      split
      · exact SameCfg.refl _
      · exact ⟨rfl, rfl, rfl, rfl, rfl⟩
    | succ j =>
      simp only [List.getElem?_cons_succ] at hm
      obtain ⟨m', h1, h2⟩ := ih (writeNilEndOfStreamPage out a.t).1 j hm
      exact ⟨m', by simpa [nilEosAll] using h1, h2⟩

theorem eosPage_wf (serial : Nat) (c : Cur) (hs : serial < two32) (hi : c.idx < two32) (hg : c.g < two64) :
    (eosPage serial c).wf := ⟨by simp [eosPage], by simp [eosPage, lacingSum], hg, hs, hi⟩

theorem eosList_wf (tracks : List MTrack)
    (h : ∀ (j : Nat) (m : MTrack), tracks[j]? = some m →
      m.t.pageIndex < two32 ∧ m.t.previousGranulePosition < two64 ∧ m.t.serial < two32) :
    ∀ p ∈ eosList tracks, p.wf := by
  induction tracks with
  | nil => simp [eosList]
  | cons a rest ih =>
    intro p hp
    simp only [eosList, List.mem_append] at hp
    rcases hp with hp | hp
    · split at hp
      · simp at hp
      · simp only [List.mem_singleton] at hp; subst hp
        obtain ⟨b1, b2, b3⟩ := h 0 a (by simp)
        exact eosPage_wf _ _ b3 b1 b2
    · exact ih (fun j m hj => h (j + 1) m (by simpa using hj)) p hp

theorem markLast_length (S : List Page) : (markLast S).length = S.length := by
  induction S with
  | nil => rfl
  | cons a rest ih =>
    cases rest with
    | nil => rfl
    | cons q r => simp only [markLast, List.length_cons] at ih ⊢; omega

/-- the writer after `Close` appended nil EOS pages -/
def closedNil (w : Writer) : Writer :=
  { w with
    out := (nilEosAll w.out w.tracks).1
    tracks := (nilEosAll w.out w.tracks).2
    seekable := false
    streamOpen := false }

/-- the writer after `Close` marked the last pages -/
def closedMark (w : Writer) : Writer :=
  { w with
    out := markAll w.out w.tracks
    seekable := false
    streamOpen := false }

/-- `Close` on a started writer -/
theorem W1.close {sk : Bool} {w : Writer} {written : List (Nat × Bs)} (h : W1 sk w written) :
    W2 sk w.close written := by
  obtain ⟨log, items, hinv, hitems⟩ := h.inv
  have hstart := h.start
  -- what the invariant says about every track
  have htrack : ∀ (i : Nat) (m : MTrack), w.tracks[i]? = some m →
      streamOf m.t.serial log = bodyPages m.t.serial (hdrOf m.t) (tagsOf m.t) (accFor written i) ∧
      m.t.pageIndex = (endCur m.t.serial (hdrOf m.t) (tagsOf m.t) (accFor written i)).idx ∧
      m.t.previousGranulePosition = (endCur m.t.serial (hdrOf m.t) (tagsOf m.t) (accFor written i)).g ∧
      PtrOk sk log m.t true ∧
      (m.t.pageIndex < two32 ∧ m.t.previousGranulePosition < two64 ∧ m.t.serial < two32) := by
    intro i m hm
    have ht := hinv.tinv i m _ hm (hitems i m hm)
    obtain ⟨p1, p2⟩ := itemsPages_track m.t.serial (hdrOf m.t) (tagsOf m.t) (accFor written i)
    refine ⟨by rw [ht.stream, p1], by rw [ht.idx, p2], ?_, ?_, ht.bounds⟩
    · rw [ht.gran, lastG_track, endCur_g]
    · have := ht.ptr; simpa [trackItems] using this
  cases hsk : sk with
  | false =>
    have hcl : w.close = closedNil w := by
      simp [Writer.close, h.isOpen, hstart, h.skEq, hsk, closedNil]
    rw [hcl]
    unfold closedNil
    refine ⟨rfl, log ++ eosList w.tracks, ?_, ?_, ?_⟩
    · simp only [nilEosAll_out, hinv.out, flat_append]
    · intro p hp
      rcases List.mem_append.mp hp with hp | hp
      · exact hinv.wf p hp
      · exact eosList_wf w.tracks (fun j m hj => (htrack j m hj).2.2.2.2) p hp
    · intro i m' hm'
      simp only at hm'
      have hil : i < w.tracks.length := by
        have := (List.getElem?_eq_some_iff.mp hm').1; rw [nilEosAll_len] at this; exact this
      obtain ⟨m, hm⟩ : ∃ m, w.tracks[i]? = some m := ⟨w.tracks[i], by simp [hil]⟩
      obtain ⟨m'', hm'', hc⟩ := nilEosAll_tracks w.out w.tracks i m hm
      rw [hm'] at hm''; cases hm''
      obtain ⟨t1, t2, t3, _, t5⟩ := htrack i m hm
      rw [hdrOf_cfg hc, tagsOf_cfg hc, hc.serial]
      have hstream : streamOf m.t.serial (log ++ eosList w.tracks) =
          bodyPages m.t.serial (hdrOf m.t) (tagsOf m.t) (accFor written i) ++
            (if m.t.pageIndex = 0 then []
             else [eosPage m.t.serial { idx := m.t.pageIndex, g := m.t.previousGranulePosition }]) := by
        rw [streamOf_append, t1, streamOf_eosList w.tracks hinv.distinct i m hm]
      refine ⟨t5.2.2, by rw [hstream]; simp, ?_⟩
      intro hlen
      have hidx := endCur_idx m.t.serial (hdrOf m.t) (tagsOf m.t) (accFor written i)
      rw [Nat.mod_eq_of_lt hlen] at hidx
      have hpos := bodyPages_length_pos (serial := m.t.serial) (head := hdrOf m.t) (tags := tagsOf m.t)
        (acc := accFor written i)
      have hne : ¬ m.t.pageIndex = 0 := by rw [t2, hidx]; omega
      rw [hstream, if_neg hne]
      have hcur : ({ idx := m.t.pageIndex, g := m.t.previousGranulePosition } : Cur) =
          endCur m.t.serial (hdrOf m.t) (tagsOf m.t) (accFor written i) := by rw [t2, t3]
      rw [hcur]; simp [finalStream]
  | true =>
    have hcl : w.close = closedMark w := by
      simp [Writer.close, h.isOpen, hstart, h.skEq, hsk, closedMark]
    rw [hcl]
    unfold closedMark
    obtain ⟨log', m1, m2, m3, m4, m5⟩ := markAll_spec w.tracks w.out log hinv.out
      (by
        intro j m hj
        have := (htrack j m hj).2.2.2.1
        simpa [PtrOk, hsk] using this)
      hinv.distinct
    refine ⟨rfl, log', m1, ?_, ?_⟩
    · intro q hq
      obtain ⟨q0, hq0, hq1⟩ := m3 q hq
      rcases hq1 with rfl | rfl
      · exact hinv.wf _ hq0
      · exact markEos_wf _ (hinv.wf _ hq0)
    · intro i m hm
      simp only at hm
      obtain ⟨t1, _, _, _, t5⟩ := htrack i m hm
      have hs := m4 m.t.serial ⟨i, m, hm, rfl⟩
      rw [hs, t1]
      refine ⟨t5.2.2, ?_, fun _ => by simp [finalStream]⟩
      rw [markLast_length]
      exact Nat.le_refl _


/-! ### NewTrack, and the three phases together -/

theorem startLocked_fields (w : Writer) :
    w.startLocked.streamOpen = w.streamOpen ∧ w.startLocked.seekable = w.seekable ∧ w.startLocked.started = true ∧
    w.startLocked.startLocked = w.startLocked := by
  by_cases h : w.started = true
  · simp [Writer.startLocked, h]
  · simp [Writer.startLocked, h]

theorem close_start (w : Writer) (h : w.streamOpen = true) : w.close = w.startLocked.close := by
  obtain ⟨h1, h2, _, h4⟩ := startLocked_fields w
  simp only [Writer.close, h1, h4, h, Bool.not_true, Bool.false_eq_true, if_false]

theorem W0.newTrack {sk : Bool} {w : Writer} (h : W0 sk w) (ssrc : Nat) (opts : List Opt) (drawn : Nat) :
    W0 sk (w.newTrack ssrc opts drawn).1 := by
  unfold Writer.newTrack
  simp only [h.isOpen, h.notStarted, Bool.not_true, Bool.false_eq_true, if_false]
  split
  · exact h
  · split
    · exact h
    · rename_i c hc
      split
      · exact h
      · split
        · exact h
        · rename_i hnot
          have hs : (c.serial.getD (drawn % two32)) < two32 := by
            -- a serial set through an option was reduced when the option was applied
            have hopt : ∀ (os : List Opt) (c0 c1 : Config), (∀ s, c0.serial = some s → s < two32) →
                applyOpts c0 os = .ok c1 → ∀ s, c1.serial = some s → s < two32 := by
              intro os
              induction os with
              | nil => intro c0 c1 h0 he; simp [applyOpts] at he; subst he; exact h0
              | cons o os ih =>
                intro c0 c1 h0 he
                simp only [applyOpts] at he
                cases ho : applyOpt c0 o with
                | error e => rw [ho] at he; cases he
                | ok c' =>
                  rw [ho] at he
                  refine ih c' c1 ?_ he
                  intro s hs
                  cases o <;> simp only [applyOpt] at ho
                  case sampleRate n => cases ho; exact h0 s hs
                  case channelCount n =>
                    split at ho
                    · cases ho
                    · cases ho; exact h0 s hs
                  case channelMapping f sc cc mm =>
                    split at ho
                    · cases ho
                    · cases ho; exact h0 s hs
                  case vendor v =>
                    split at ho
                    · cases ho; exact h0 s hs
                    · cases ho
                  case userComments cs =>
                    split at ho
                    · cases ho; exact h0 s hs
                    · cases ho
                  case serial n =>
                    cases ho
                    simp only [Option.some.injEq] at hs
                    subst hs
                    exact Nat.mod_lt _ (by decide)
            cases hcs : c.serial with
            | none => simp only [Option.getD_none]; exact Nat.mod_lt _ (by decide)
            | some s0 =>
              simp only [Option.getD_some]
              exact hopt opts _ c (by intro s hs; cases hs) hc s0 hcs
          refine ⟨rfl, rfl, h.skEq, h.out, ?_, ?_⟩
          · intro i j a c' ha hc' hac
            simp only at ha hc'
            rw [List.getElem?_append] at ha hc'
            have hany : ∀ (k : Nat) (x : MTrack), w.tracks[k]? = some x → x.t.serial ≠ c.serial.getD (drawn % two32) := by
              intro k x hk e
              apply hnot
              simp only [List.any_eq_true, beq_iff_eq]
              exact ⟨x, List.mem_of_getElem? hk, e⟩
            split at ha <;> split at hc'
            · exact h.distinct i j a c' ha hc' hac
            · rename_i hi hj
              have hj' : j - w.tracks.length = 0 := by
                cases hx : j - w.tracks.length with
                | zero => rfl
                | succ n => rw [hx] at hc'; simp at hc'
              rw [hj'] at hc'; simp at hc'; subst hc'
              exact absurd hac (hany i a ha)
            · rename_i hi hj
              have hi' : i - w.tracks.length = 0 := by
                cases hx : i - w.tracks.length with
                | zero => rfl
                | succ n => rw [hx] at ha; simp at ha
              rw [hi'] at ha; simp at ha; subst ha
              exact absurd hac.symm (hany j c' hc')
            · rename_i hi hj
              have hi' : i - w.tracks.length = 0 := by
                cases hx : i - w.tracks.length with
                | zero => rfl
                | succ n => rw [hx] at ha; simp at ha
              have hj' : j - w.tracks.length = 0 := by
                cases hx : j - w.tracks.length with
                | zero => rfl
                | succ n => rw [hx] at hc'; simp at hc'
              omega
          · intro i m hm
            simp only at hm
            rw [List.getElem?_append] at hm
            split at hm
            · exact h.fresh i m hm
            · cases hx : i - w.tracks.length with
              | zero =>
                rw [hx] at hm; simp at hm; subst hm
                exact ⟨rfl, rfl, rfl, hs⟩
              | succ n => rw [hx] at hm; simp at hm


theorem close_closed (w : Writer) (h : w.streamOpen = true) : w.close.streamOpen = false := by
  unfold Writer.close
  simp only [h, Bool.not_true, Bool.false_eq_true, if_false]
  split <;> rfl

/-- the writer is in one of its three phases -/
def MState (sk : Bool) (w : Writer) (written : List (Nat × Bs)) : Prop :=
  (W0 sk w ∧ written = []) ∨ W1 sk w written ∨ W2 sk w written

theorem W2.inert {sk : Bool} {w : Writer} {written : List (Nat × Bs)} (h : W2 sk w written) :
    w.close = w ∧ (∀ ssrc opts drawn, (w.newTrack ssrc opts drawn).1 = w) ∧
    (∀ i pkt ok, (w.writeRTP i pkt ok).1 = w ∧ (w.writeRTP i pkt ok).2 ≠ .written) := by
  refine ⟨by simp [Writer.close, h.isClosed], fun _ _ _ => by simp [Writer.newTrack, h.isClosed],
    fun _ _ _ => by simp [Writer.writeRTP, h.isClosed]⟩

theorem W1.newTrack {sk : Bool} {w : Writer} {written : List (Nat × Bs)} (h : W1 sk w written)
    (ssrc : Nat) (opts : List Opt) (drawn : Nat) : (w.newTrack ssrc opts drawn).1 = w := by
  simp [Writer.newTrack, h.isOpen, h.started]

theorem MState.close {sk : Bool} {w : Writer} {written : List (Nat × Bs)} (h : MState sk w written) :
    MState sk w.close written := by
  rcases h with ⟨h0, rfl⟩ | h1 | h2
  · rw [close_start w h0.isOpen]; exact Or.inr (Or.inr h0.start.close)
  · exact Or.inr (Or.inr h1.close)
  · rw [h2.inert.1]; exact Or.inr (Or.inr h2)

theorem MState.newTrack {sk : Bool} {w : Writer} {written : List (Nat × Bs)} (h : MState sk w written)
    (ssrc : Nat) (opts : List Opt) (drawn : Nat) : MState sk (w.newTrack ssrc opts drawn).1 written := by
  rcases h with ⟨h0, rfl⟩ | h1 | h2
  · exact Or.inl ⟨h0.newTrack ssrc opts drawn, rfl⟩
  · rw [h1.newTrack]; exact Or.inr (Or.inl h1)
  · rw [h2.inert.2.1]; exact Or.inr (Or.inr h2)

/-- one `WriteRTP` call on an open writer, given what `startLocked` makes of it -/
theorem writeRTP_result {sk : Bool} {w : Writer} {written : List (Nat × Bs)} (hopen : w.streamOpen = true)
    (hidle : MState sk w written) (hw1 : W1 sk w.startLocked written) (i : Nat) (pkt : Option Bs) (ok : Bool) :
    match (w.writeRTP i pkt ok).2, pkt with
    | .written, some p => MState sk (w.writeRTP i pkt ok).1 (written ++ [(i, p)]) ∧ (packetSamples p).isSome
    | _, _ => MState sk (w.writeRTP i pkt ok).1 written := by
  rw [writeRTP_open w i pkt ok hopen]
  cases pkt with
  | none => exact hidle
  | some payload =>
    cases ok with
    | false => exact hidle
    | true =>
      simp only [Bool.not_true, Bool.false_eq_true, if_false]
      by_cases hemp : payload.isEmpty = true
      · rw [if_pos hemp]; exact hidle
      · rw [if_neg hemp]
        rcases hw1.core i payload with ⟨e1, e2⟩ | ⟨e1, e2, e3⟩
        · cases hst : (writeCore w.startLocked i payload).2 with
          | written => exact absurd hst e2
          | skipped => simp only; rw [e1]; exact Or.inr (Or.inl hw1)
          | failed e => simp only; rw [e1]; exact Or.inr (Or.inl hw1)
        · rw [e1]; exact ⟨Or.inr (Or.inl e2), e3⟩

/-- one `WriteRTP` call -/
theorem MState.writeRTP {sk : Bool} {w : Writer} {written : List (Nat × Bs)} (h : MState sk w written)
    (i : Nat) (pkt : Option Bs) (ok : Bool) :
    match (w.writeRTP i pkt ok).2, pkt with
    | .written, some p => MState sk (w.writeRTP i pkt ok).1 (written ++ [(i, p)]) ∧ (packetSamples p).isSome
    | _, _ => MState sk (w.writeRTP i pkt ok).1 written := by
  rcases h with ⟨h0, rfl⟩ | h1 | h2
  · exact writeRTP_result h0.isOpen (Or.inl ⟨h0, rfl⟩) h0.start i pkt ok
  · exact writeRTP_result h1.isOpen (Or.inr (Or.inl h1)) (by rw [h1.start]; exact h1) i pkt ok
  · obtain ⟨e1, e2⟩ := h2.inert.2.2 i pkt ok
    rw [e1]
    cases hst : (w.writeRTP i pkt ok).2 with
    | written => exact absurd hst e2
    | skipped => exact Or.inr (Or.inr h2)
    | failed e => exact Or.inr (Or.inr h2)

theorem MState.session {sk : Bool} (ops : List MOp) : ∀ (w : Writer) (written : List (Nat × Bs)),
    MState sk w written →
    MState sk (w.session ops).1 (written ++ (w.session ops).2) ∧ ∀ x ∈ (w.session ops).2, (packetSamples x.2).isSome := by
  induction ops with
  | nil => intro w written h; simpa [Writer.session] using h
  | cons op ops ih =>
    intro w written h
    cases op with
    | close => simpa [Writer.session] using ih w.close written h.close
    | newTrack ssrc opts => simpa [Writer.session] using ih _ written (h.newTrack ssrc opts 0)
    | write i pkt ok =>
      simp only [Writer.session]
      have hw := h.writeRTP i pkt ok
      cases hst : (w.writeRTP i pkt ok).2 with
      | written =>
        cases pkt with
        | none =>
          rw [hst] at hw
          simpa using ih _ written hw
        | some p =>
          rw [hst] at hw
          simp only at hw
          obtain ⟨i1, i2⟩ := ih _ _ hw.1
          refine ⟨by simpa [List.append_assoc] using i1, ?_⟩
          intro x hx
          simp only [List.mem_cons] at hx
          rcases hx with rfl | hx
          · exact hw.2
          · exact i2 x hx
      | skipped =>
        rw [hst] at hw
        simpa using ih _ written hw
      | failed e =>
        rw [hst] at hw
        simpa using ih _ written hw

/-- `NewWriter` returns a writer that has written nothing -/
theorem Writer.new_W0 (sk : Bool) (opts : List Opt) (w : Writer) (h : Writer.new sk opts = .ok w) : W0 sk w := by
  unfold Writer.new at h
  split at h
  · cases h
  · split at h
    · cases h
    · split at h
      · cases h
      · cases h
        exact ⟨rfl, rfl, rfl, rfl, by intro i j a c ha; simp at ha, by intro i m hm; simp at hm⟩

end WebrtcVerif.Ogg
