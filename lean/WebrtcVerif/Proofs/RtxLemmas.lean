import WebrtcVerif.Model.Rtp
import WebrtcVerif.Model.Rtx
/-
  Lemmas for C26: bit-level facts about bytes (checked on all 256 values), `Rtx.unwrap` on serialized
  packets, and its closed form on arbitrary buffers.
-/
set_option maxRecDepth 8000
namespace WebrtcVerif.Rtx
open WebrtcVerif.Bytes WebrtcVerif.Rtp

theorem forall_u8 (p : UInt8 → Prop) (h : ∀ i : Fin 256, p (UInt8.ofNat i.val)) : ∀ x, p x := by
  intro x
  have := h ⟨x.toNat, x.toNat_lt⟩
  simpa using this

theorem and15_toNat (x : Byte) : (x &&& 15).toNat = x.toNat % 16 := by
  revert x; apply forall_u8; decide
theorem and16_pos (x : Byte) : (x &&& 16) > 0 ↔ x.toNat / 16 % 2 = 1 := by
  revert x; apply forall_u8; decide
theorem and32_pos (x : Byte) : (x &&& 32) > 0 ↔ x.toNat / 32 % 2 = 1 := by
  revert x; apply forall_u8; decide
theorem and7f_toNat (x : Byte) : (x &&& 0x7F).toNat = x.toNat % 128 := by
  revert x; apply forall_u8; decide
theorem and80_cases (x : Byte) : (x &&& 0x80) = if x.toNat / 128 = 1 then 128 else 0 := by
  revert x; apply forall_u8; decide
theorem or80_toNat (y : Byte) : y.toNat < 128 → ((128 : Byte) ||| y).toNat = 128 + y.toNat := by
  revert y; apply forall_u8; decide
theorem marker_pt (x y : Byte) (hy : y.toNat < 128) :
    ((x &&& 0x80) ||| y).toNat = x.toNat / 128 * 128 + y.toNat := by
  rw [and80_cases]
  have := x.toNat_lt
  split
  · rw [or80_toNat y hy]; omega
  · have : x.toNat / 128 = 0 := by omega
    simp [this]

theorem rewrite_spec (f0 f1 q0 q1 t0 t1 t2 t3 c0 c1 c2 c3 o0 o1 : Byte) (mid rest tail : Bs) (pt : Byte) (ssrc : Nat) :
    rewrite (f0 :: f1 :: q0 :: q1 :: t0 :: t1 :: t2 :: t3 :: c0 :: c1 :: c2 :: c3 :: (mid ++ o0 :: o1 :: (rest ++ tail)))
      (12 + mid.length + 2 + rest.length) (12 + mid.length) pt ssrc
    = some (f0 :: ((f1 &&& 0x80) ||| pt) :: o0 :: o1 :: t0 :: t1 :: t2 :: t3
        :: b (ssrc / 16777216) :: b (ssrc / 65536) :: b (ssrc / 256) :: b ssrc :: (mid ++ rest)) := by
  have e1 : 12 + mid.length = mid.length + 12 := by omega
  simp [rewrite, e1]
  omega

theorem byte0_toNat (p : Packet) (hv : p.version < 4) (hcc : p.csrcs.length ≤ 15) : (byte0 p).toNat
    = p.version * 64 + (if p.pad.isSome then 32 else 0) + (if p.ext.isSome then 16 else 0) + p.csrcs.length := by
  simp only [byte0, b_toNat]; split <;> split <;> omega

theorem byte1_toNat (p : Packet) (hpt : p.pt < 128) : (byte1 p).toNat = (if p.marker then 128 else 0) + p.pt := by
  simp only [byte1, b_toNat]; split <;> omega

theorem headerLength_serialize (p : Packet) (h : p.WF) (tail : Bs) :
    headerLength (serialize p ++ tail) = some p.headerLen := by
  obtain ⟨hv, hpt, hseq, hts, hssrc, hcc, hcs, hext, hpad⟩ := h
  have hb0 := byte0_toNat p hv hcc
  have h15 : (byte0 p &&& 15).toNat = p.csrcs.length := by
    rw [and15_toNat, hb0]; split <;> split <;> omega
  cases he : p.ext with
  | none =>
    have hx : ¬ (byte0 p &&& 16) > 0 := by
      rw [and16_pos, hb0, he]; cases p.pad <;> simp <;> omega
    simp [headerLength, serialize, h15, hx, Packet.headerLen, he]
  | some e =>
    obtain ⟨h1, h2, h3⟩ := hext e he
    have hx : (byte0 p &&& 16) > 0 := by
      rw [and16_pos, hb0, he]; cases p.pad <;> simp <;> omega
    have e2 : 12 + 4 * p.csrcs.length + 2 = 4 * p.csrcs.length + 2 + 12 := by omega
    have e3 : 12 + 4 * p.csrcs.length + 3 = 4 * p.csrcs.length + 3 + 12 := by omega
    simp [headerLength, serialize, h15, hx, Packet.headerLen, he, e2, e3, extBytes, be16]
    rw [rd16be_be16, Nat.mod_eq_of_lt h3]; omega

theorem serialize_getLast_pad (p : Packet) (f : Bs) (hf : p.pad = some f) :
    (serialize p).getLast? = some (b (f.length + 1)) := by
  simp only [serialize, hf, padBytes]
  generalize csrcBytes p.csrcs = A
  generalize extBytes p.ext = B
  generalize b (f.length + 1) = c
  rw [show ∀ x0 x1 x2 x3 x4 x5 x6 x7 x8 x9 x10 x11 : Byte,
        x0 :: x1 :: x2 :: x3 :: x4 :: x5 :: x6 :: x7 :: x8 :: x9 :: x10 :: x11 :: (A ++ (B ++ (p.payload ++ (f ++ [c]))))
        = (x0 :: x1 :: x2 :: x3 :: x4 :: x5 :: x6 :: x7 :: x8 :: x9 :: x10 :: x11 :: (A ++ (B ++ (p.payload ++ f)))) ++ [c]
      from by intros; simp]
  exact List.getLast?_concat ..

theorem paddingLength_serialize (p : Packet) (h : p.WF) (tail : Bs) :
    paddingLength (serialize p ++ tail) (serialize p).length = some (padBytes p.pad).length := by
  obtain ⟨hv, hpt, hseq, hts, hssrc, hcc, hcs, hext, hpad⟩ := h
  have hb0 := byte0_toNat p hv hcc
  have h0 : (serialize p ++ tail)[0]? = some (byte0 p) := by simp [serialize]
  cases hf : p.pad with
  | none =>
    have hx : ¬ (byte0 p &&& 32) > 0 := by
      rw [and32_pos, hb0, hf]; cases p.ext <;> simp <;> omega
    simp [paddingLength, h0, hx, padBytes]
  | some f =>
    have hx : (byte0 p &&& 32) > 0 := by
      rw [and32_pos, hb0, hf]; cases p.ext <;> simp <;> omega
    have hlen : 0 < (serialize p).length := by simp [serialize]
    have hl : (serialize p ++ tail)[(serialize p).length - 1]? = some (b (f.length + 1)) := by
      rw [List.getElem?_append_left (by omega), ← List.getLast?_eq_getElem?, serialize_getLast_pad p f hf]
    have hfl := hpad f hf
    simp only [paddingLength, h0, hx, if_true, hl, padBytes, b_toNat]
    simp; omega

theorem attrsOf_serialize (p : Packet) (h : p.WF) (tail : Bs) :
    attrsOf (serialize p ++ tail) = some { rtxPT := p.pt, rtxSeq := p.seq, rtxSsrc := p.ssrc } := by
  obtain ⟨hv, hpt, hseq, hts, hssrc, hcc, hcs, hext, hpad⟩ := h
  have h1 : (byte1 p &&& 0x7F).toNat = p.pt := by
    rw [and7f_toNat, byte1_toNat p hpt]; split <;> omega
  simp [attrsOf, serialize, h1, rd16be_be16, rd32be_be32, Nat.mod_eq_of_lt hseq, Nat.mod_eq_of_lt hssrc]

theorem b_rd16be_hi (x y : Byte) : b (rd16be x y / 256) = x := by
  apply UInt8.toNat_inj.mp; have := x.toNat_lt; have := y.toNat_lt; simp [rd16be]; omega
theorem b_rd16be_lo (x y : Byte) : b (rd16be x y) = y := by
  apply UInt8.toNat_inj.mp; have := x.toNat_lt; have := y.toNat_lt; simp [rd16be]

theorem byte1_original (p : Packet) (hp : p.pt < 128) (o0 o1 : Byte) (body : Bs) (pt ssrc : Nat) (hpt : pt < 128) :
    (byte1 p &&& 0x80) ||| b pt = byte1 (original p o0 o1 body pt ssrc) := by
  apply UInt8.toNat_inj.mp
  have hb : (b pt).toNat < 128 := by simp; omega
  rw [marker_pt _ _ hb, byte1_toNat p hp, byte1_toNat _ (by simpa [original] using hpt)]
  simp only [original, b_toNat]
  by_cases hm : p.marker = true <;> simp [hm] <;> omega

theorem rewrite_serialize (p : Packet) (h : p.WF) (o0 o1 : Byte) (body tail : Bs)
    (hpl : p.payload = o0 :: o1 :: body) (pt ssrc : Nat) (hpt : pt < 128) :
    rewrite (serialize p ++ tail) (serialize p).length p.headerLen (b pt) ssrc
      = some (serialize (original p o0 o1 body pt ssrc)) := by
  have hshape : serialize p ++ tail
      = byte0 p :: byte1 p :: b (p.seq / 256) :: b p.seq
        :: b (p.ts / 16777216) :: b (p.ts / 65536) :: b (p.ts / 256) :: b p.ts
        :: b (p.ssrc / 16777216) :: b (p.ssrc / 65536) :: b (p.ssrc / 256) :: b p.ssrc
        :: ((csrcBytes p.csrcs ++ extBytes p.ext) ++ o0 :: o1 :: ((body ++ padBytes p.pad) ++ tail)) := by
    simp [serialize, hpl]
  have hn : (serialize p).length
      = 12 + (csrcBytes p.csrcs ++ extBytes p.ext).length + 2 + (body ++ padBytes p.pad).length := by
    rw [serialize_length, hpl]; simp [Packet.headerLen, extBytes_length]; omega
  have hh : p.headerLen = 12 + (csrcBytes p.csrcs ++ extBytes p.ext).length := by
    simp [Packet.headerLen, extBytes_length]; omega
  rw [hshape, hn, hh, rewrite_spec, byte1_original p h.pt o0 o1 body pt ssrc hpt]
  simp only [serialize, original, b_rd16be_hi, b_rd16be_lo, List.append_assoc]
  rfl

theorem unwrap_serialize (p : Packet) (h : p.WF) (o0 o1 : Byte) (body tail : Bs)
    (hpl : p.payload = o0 :: o1 :: body) (pt ssrc : Nat) (hpt : pt < 128) :
    unwrap (serialize p ++ tail) (serialize p).length (b pt) ssrc
      = .delivered (serialize (original p o0 o1 body pt ssrc)) { rtxPT := p.pt, rtxSeq := p.seq, rtxSsrc := p.ssrc } := by
  have hlen := serialize_length p
  have h12 : ¬ (serialize p).length < 12 := by rw [hlen]; simp [Packet.headerLen]; omega
  have hfit : ¬ (serialize p).length < p.headerLen + (padBytes p.pad).length + 2 := by
    rw [hlen, hpl]; simp; omega
  simp only [unwrap, h12, if_false, headerLength_serialize p h, paddingLength_serialize p h, hfit,
    attrsOf_serialize p h, rewrite_serialize p h o0 o1 body tail hpl pt ssrc hpt]

theorem and15_le (x : Byte) : (x &&& 15).toNat ≤ 15 := by
  rw [and15_toNat]; omega

theorem get_some (l : Bs) (i : Nat) (h : i < l.length) : ∃ v, l[i]? = some v :=
  ⟨l[i], List.getElem?_eq_getElem h⟩

theorem headerLength_some (bf : Bs) (h : 76 ≤ bf.length) :
    ∃ hl, headerLength bf = some hl ∧ 12 ≤ hl := by
  obtain ⟨b0, h0⟩ := get_some bf 0 (by omega)
  have := and15_le b0
  obtain ⟨x, hx⟩ := get_some bf (12 + 4 * (b0 &&& 15).toNat + 2) (by omega)
  obtain ⟨y, hy⟩ := get_some bf (12 + 4 * (b0 &&& 15).toNat + 3) (by omega)
  unfold headerLength
  simp only [h0, hx, hy]
  split
  · exact ⟨_, rfl, by omega⟩
  · exact ⟨_, rfl, by omega⟩

theorem paddingLength_some (bf : Bs) (n : Nat) (h1 : 1 ≤ n) (h2 : n ≤ bf.length) :
    ∃ pad, paddingLength bf n = some pad := by
  obtain ⟨b0, h0⟩ := get_some bf 0 (by omega)
  obtain ⟨c, hc⟩ := get_some bf (n - 1) (by omega)
  unfold paddingLength
  simp only [h0, hc]
  split <;> exact ⟨_, rfl⟩

theorem attrsOf_some (bf : Bs) (h : 12 ≤ bf.length) : ∃ a, attrsOf bf = some a := by
  obtain ⟨v1, h1⟩ := get_some bf 1 (by omega)
  obtain ⟨v2, h2⟩ := get_some bf 2 (by omega)
  obtain ⟨v3, h3⟩ := get_some bf 3 (by omega)
  obtain ⟨v8, h8⟩ := get_some bf 8 (by omega)
  obtain ⟨v9, h9⟩ := get_some bf 9 (by omega)
  obtain ⟨v10, h10⟩ := get_some bf 10 (by omega)
  obtain ⟨v11, h11⟩ := get_some bf 11 (by omega)
  refine ⟨{ rtxPT := (v1 &&& 0x7F).toNat, rtxSeq := rd16be v2 v3, rtxSsrc := rd32be v8 v9 v10 v11 }, ?_⟩
  simp only [attrsOf, h1, h2, h3, h8, h9, h10, h11]

theorem rewrite_some (bf : Bs) (n hl : Nat) (pt : Byte) (ssrc : Nat) (h12 : 12 ≤ bf.length) (hn : n ≤ bf.length)
    (hhl : hl + 2 ≤ n) : ∃ pkt, rewrite bf n hl pt ssrc = some pkt ∧ pkt.length = n - 2 := by
  obtain ⟨v1, h1⟩ := get_some bf 1 (by omega)
  obtain ⟨o0, ho0⟩ := get_some (bf.set 1 ((v1 &&& 0x80) ||| pt)) hl (by simp; omega)
  obtain ⟨o1, ho1⟩ := get_some ((bf.set 1 ((v1 &&& 0x80) ||| pt)).set 2 o0) (hl + 1) (by simp; omega)
  unfold rewrite
  simp only [h1, ho0, ho1]
  simp only [List.length_set]
  rw [if_neg (by omega), if_pos ⟨hn, hhl⟩]
  refine ⟨_, rfl, ?_⟩
  simp [List.length_take, List.length_drop]
  omega

/-- closed form of `unwrap` on any buffer of at least 76 bytes -/
theorem unwrap_closed (bf : Bs) (n : Nat) (pt : Byte) (ssrc : Nat) (hb : 76 ≤ bf.length) (hn : n ≤ bf.length)
    (h12 : 12 ≤ n) :
    ∃ hl pad, headerLength bf = some hl ∧ paddingLength bf n = some pad ∧ 12 ≤ hl ∧
      ((n < hl + pad + 2 ∧ unwrap bf n pt ssrc = .dropped) ∨
       (hl + pad + 2 ≤ n ∧ ∃ pkt a, unwrap bf n pt ssrc = .delivered pkt a ∧ pkt.length = n - 2 ∧
          attrsOf bf = some a ∧ rewrite bf n hl pt ssrc = some pkt)) := by
  obtain ⟨hl, hhl, hl12⟩ := headerLength_some bf hb
  obtain ⟨pad, hpad⟩ := paddingLength_some bf n (by omega) hn
  refine ⟨hl, pad, hhl, hpad, hl12, ?_⟩
  have hn12 : ¬ n < 12 := by omega
  by_cases hs : n < hl + pad + 2
  · left; exact ⟨hs, by simp [unwrap, hn12, hhl, hpad, hs]⟩
  · right
    obtain ⟨a, ha⟩ := attrsOf_some bf (by omega)
    obtain ⟨pkt, hp, hlen⟩ := rewrite_some bf n hl pt ssrc (by omega) hn (by omega)
    exact ⟨by omega, pkt, a, by simp [unwrap, hn12, hhl, hpad, hs, ha, hp], hlen, ha, hp⟩

theorem unwrap_no_panic (bf : Bs) (n : Nat) (pt : Byte) (ssrc : Nat) (hb : 76 ≤ bf.length) (hn : n ≤ bf.length) :
    unwrap bf n pt ssrc ≠ .panic := by
  by_cases h12 : n < 12
  · simp [unwrap, h12]
  · obtain ⟨hl, pad, _, _, _, h⟩ := unwrap_closed bf n pt ssrc hb hn (by omega)
    rcases h with ⟨_, h⟩ | ⟨_, pkt, a, h, _⟩ <;> simp [h]

theorem tooShort_dropped (bf : Bs) (n : Nat) (pt : Byte) (ssrc : Nat) (hb : 76 ≤ bf.length) (hn : n ≤ bf.length)
    (hs : tooShortForOSN (bf.take n) = true) : unwrap bf n pt ssrc = .dropped := by
  by_cases h12 : n < 12
  · simp [unwrap, h12]
  · obtain ⟨hl, pad, hhl, hpad, _, h⟩ := unwrap_closed bf n pt ssrc hb hn (by omega)
    rcases h with ⟨_, h⟩ | ⟨hfit, _⟩
    · exact h
    · exfalso
      have hlen : (bf.take n).length = n := by simp [List.length_take]; omega
      obtain ⟨b0, h0⟩ := get_some bf 0 (by omega)
      have ht0 : (bf.take n)[0]? = some b0 := by rw [List.getElem?_take, if_pos (by omega), h0]
      have hlast : (bf.take n).getLast? = bf[n - 1]? := by
        rw [List.getLast?_eq_getElem?, hlen, List.getElem?_take, if_pos (by omega)]
      obtain ⟨c, hc⟩ := get_some bf (n - 1) (by omega)
      have hn12 : ¬ n < 12 := h12
      simp only [tooShortForOSN, hlen, hn12, if_false, ht0, hlast, hc] at hs
      simp only [headerLength, h0, and16_pos, and15_toNat] at hhl
      simp only [paddingLength, h0, and32_pos, hc] at hpad
      have hpad' : (if b0.toNat / 32 % 2 = 1 then c.toNat else 0) = pad := by
        by_cases hp : b0.toNat / 32 % 2 = 1
        · simp only [hp, if_true, Option.some.injEq] at hpad ⊢; exact hpad
        · simp only [hp, if_false, Option.some.injEq] at hpad ⊢; exact hpad
      rw [hpad'] at hs
      by_cases hx : b0.toNat / 16 % 2 = 1
      · simp only [hx, if_true] at hs hhl
        by_cases hin : 12 + 4 * (b0.toNat % 16) + 3 < n
        · obtain ⟨x, hx2⟩ := get_some bf (12 + 4 * (b0.toNat % 16) + 2) (by omega)
          obtain ⟨y, hy3⟩ := get_some bf (12 + 4 * (b0.toNat % 16) + 3) (by omega)
          rw [List.getElem?_take, if_pos (by omega), List.getElem?_take, if_pos (by omega), hx2, hy3] at hs
          simp only [hx2, hy3, Option.some.injEq] at hhl
          simp only [decide_eq_true_eq] at hs
          omega
        · have : 12 + 4 * (b0.toNat % 16) + 4 ≤ hl := by
            split at hhl
            · simp only [Option.some.injEq] at hhl; omega
            · cases hhl
          omega
      · simp only [hx, if_false, Option.some.injEq, decide_eq_true_eq] at hs hhl
        omega

/-- the drop decision is exactly "too short to carry an OSN" -/
theorem dropped_tooShort (bf : Bs) (n : Nat) (pt : Byte) (ssrc : Nat) (hb : 76 ≤ bf.length) (hn : n ≤ bf.length)
    (hd : unwrap bf n pt ssrc = .dropped) : tooShortForOSN (bf.take n) = true := by
  have hlen : (bf.take n).length = n := by simp [List.length_take]; omega
  by_cases h12 : n < 12
  · simp [tooShortForOSN, hlen, h12]
  · obtain ⟨hl, pad, hhl, hpad, _, h⟩ := unwrap_closed bf n pt ssrc hb hn (by omega)
    rcases h with ⟨hshort, _⟩ | ⟨_, pkt, a, h, _⟩
    · obtain ⟨b0, h0⟩ := get_some bf 0 (by omega)
      have ht0 : (bf.take n)[0]? = some b0 := by rw [List.getElem?_take, if_pos (by omega), h0]
      have hlast : (bf.take n).getLast? = bf[n - 1]? := by
        rw [List.getLast?_eq_getElem?, hlen, List.getElem?_take, if_pos (by omega)]
      obtain ⟨c, hc⟩ := get_some bf (n - 1) (by omega)
      have hn12 : ¬ n < 12 := h12
      simp only [tooShortForOSN, hlen, hn12, if_false, ht0, hlast, hc]
      simp only [headerLength, h0, and16_pos, and15_toNat] at hhl
      simp only [paddingLength, h0, and32_pos, hc] at hpad
      have hpad' : (if b0.toNat / 32 % 2 = 1 then c.toNat else 0) = pad := by
        by_cases hp : b0.toNat / 32 % 2 = 1
        · simp only [hp, if_true, Option.some.injEq] at hpad ⊢; exact hpad
        · simp only [hp, if_false, Option.some.injEq] at hpad ⊢; exact hpad
      rw [hpad']
      by_cases hx : b0.toNat / 16 % 2 = 1
      · simp only [hx, if_true] at hhl ⊢
        by_cases hin : 12 + 4 * (b0.toNat % 16) + 3 < n
        · obtain ⟨x, hx2⟩ := get_some bf (12 + 4 * (b0.toNat % 16) + 2) (by omega)
          obtain ⟨y, hy3⟩ := get_some bf (12 + 4 * (b0.toNat % 16) + 3) (by omega)
          rw [List.getElem?_take, if_pos (by omega), List.getElem?_take, if_pos (by omega), hx2, hy3]
          simp only [hx2, hy3, Option.some.injEq] at hhl
          simp only [decide_eq_true_eq]
          omega
        · rw [List.getElem?_take (j := 12 + 4 * (b0.toNat % 16) + 3), if_neg (by omega)]
          split <;> simp_all
      · simp only [hx, if_false, Option.some.injEq, decide_eq_true_eq] at hhl ⊢
        omega
    · rw [h] at hd; cases hd

/-! ### channel and histories -/

theorem offer_eq (q : List Item) (it : Item) (hq : q.length ≤ chanCap) :
    offer q it = (q ++ [it]).take chanCap := by
  unfold offer
  split
  · rw [List.take_of_length_le (by simp; omega)]
  · have : q.length = chanCap := by omega
    rw [List.take_append_of_le_length (by omega), List.take_of_length_le (by omega)]

theorem take_take_append {α : Type} (X C : List α) (c : Nat) : (X.take c ++ C).take c = (X ++ C).take c := by
  by_cases h : X.length ≤ c
  · rw [List.take_of_length_le h]
  · have hl : (X.take c).length = c := by simp [List.length_take]; omega
    rw [List.take_append_of_le_length (by omega), List.take_append_of_le_length (by omega), List.take_take]
    simp

theorem feedAll_eq (pt : Byte) (ssrc : Nat) (ins : List Input) :
    ∀ q : List Item, q.length ≤ chanCap → (∀ i ∈ ins, unwrap i.buf i.n pt ssrc ≠ .panic) →
      feedAll pt ssrc q ins = some ((q ++ ins.filterMap (itemOf pt ssrc)).take chanCap) := by
  induction ins with
  | nil => intro q hq _; simp [feedAll, List.take_of_length_le hq]
  | cons i rest ih =>
    intro q hq hnp
    have hi := hnp i (by simp)
    have hrest : ∀ j ∈ rest, unwrap j.buf j.n pt ssrc ≠ .panic := fun j hj => hnp j (by simp [hj])
    simp only [feedAll, feed, List.filterMap_cons, itemOf]
    cases hu : unwrap i.buf i.n pt ssrc with
    | panic => exact absurd hu hi
    | dropped => simp only []; exact ih q hq hrest
    | delivered pkt a =>
      simp only []
      rw [ih _ (by rw [offer_eq _ _ hq]; simp [List.length_take]; omega) hrest, offer_eq _ _ hq]
      rw [take_take_append]
      simp

theorem readAll_big (L : Nat) : ∀ (k : Nat) (q : List Item), (∀ it ∈ q, it.pkt.length ≤ L) →
    readAll q (List.replicate k L) = (q.take k).map some ++ List.replicate (k - q.length) none := by
  intro k
  induction k with
  | zero => intro q _; simp [readAll]
  | succ k ih =>
    intro q hq
    cases q with
    | nil => simp [readAll, trackRead, List.replicate_succ, ih [] (by simp)]
    | cons it rest =>
      have h1 : it.pkt.take L = it.pkt := List.take_of_length_le (hq it (by simp))
      simp only [List.replicate_succ, readAll, trackRead, h1, List.take_succ_cons, List.map_cons, List.cons_append,
        List.length_cons, Nat.add_sub_add_right]
      rw [ih rest (fun x hx => hq x (by simp [hx]))]

/-- layout of the rewritten packet for ANY buffer contents (lying lengths included): byte 0, the marker
    bit, the timestamp, everything between the fixed header and `hl` are kept; the two bytes at `hl`
    become the sequence number; what follows them moves up by two. -/
theorem rewrite_layout (f0 f1 q0 q1 t0 t1 t2 t3 c0 c1 c2 c3 o0 o1 : Byte) (rest : Bs) (k n : Nat) (pt : Byte)
    (ssrc : Nat) (ho0 : rest[k]? = some o0) (ho1 : rest[k + 1]? = some o1) (hn : 12 + k + 2 ≤ n)
    (hlen : n ≤ 12 + rest.length) :
    rewrite (f0 :: f1 :: q0 :: q1 :: t0 :: t1 :: t2 :: t3 :: c0 :: c1 :: c2 :: c3 :: rest) n (12 + k) pt ssrc
    = some (f0 :: ((f1 &&& 0x80) ||| pt) :: o0 :: o1 :: t0 :: t1 :: t2 :: t3
        :: b (ssrc / 16777216) :: b (ssrc / 65536) :: b (ssrc / 256) :: b ssrc
        :: (rest.take k ++ (rest.drop (k + 2)).take (n - (12 + k + 2)))) := by
  have e1 : 12 + k = k + 12 := by omega
  have e2 : k + 12 + 1 = k + 1 + 12 := by omega
  have e3 : n - (k + 12 + 2) = n - (12 + k + 2) := by omega
  simp [rewrite, e1, e2, ho0, ho1, e3]
  omega

/-! ### the receiver as a whole: track state current at unwrap time -/

theorem or_and7f (y : Byte) : y.toNat < 128 → ((0 : Byte) ||| y) &&& 0x7F = y ∧ ((128 : Byte) ||| y) &&& 0x7F = y := by
  revert y; apply forall_u8; decide

theorem marker_pt_and7f (x y : Byte) (hy : y.toNat < 128) : ((x &&& 0x80) ||| y) &&& 0x7F = y := by
  rw [and80_cases]
  split
  · exact (or_and7f y hy).2
  · exact (or_and7f y hy).1

theorem headerLength_ge (bf : Bs) (hl : Nat) (h : headerLength bf = some hl) : 12 ≤ hl := by
  unfold headerLength at h
  split at h
  · cases h
  · dsimp only at h
    split at h
    · split at h
      · simp only [Option.some.injEq] at h; omega
      · cases h
    · simp only [Option.some.injEq] at h; omega

theorem take_append_get (l X : Bs) (hl i : Nat) (h1 : i < hl) (h2 : i < l.length) :
    (l.take hl ++ X)[i]? = l[i]? := by
  rw [List.getElem?_append_left (by simp [List.length_take]; omega), List.getElem?_take, if_pos h1]

theorem rewrite_stamp (bf : Bs) (n hl : Nat) (pt : Byte) (ssrc : Nat) (pkt : Bs) (h12 : 12 ≤ hl)
    (h : rewrite bf n hl pt ssrc = some pkt) :
    (∃ b1 : Byte, pkt[1]? = some ((b1 &&& 0x80) ||| pt)) ∧
    pkt[8]? = some (b (ssrc / 16777216)) ∧ pkt[9]? = some (b (ssrc / 65536)) ∧
    pkt[10]? = some (b (ssrc / 256)) ∧ pkt[11]? = some (b ssrc) := by
  unfold rewrite at h
  split at h
  · cases h
  · rename_i b1 hb1
    simp only at h
    split at h
    · cases h
    · rename_i o0 ho0
      split at h
      · cases h
      · rename_i o1 ho1
        split at h
        · cases h
        · rename_i hlen
          simp only [List.length_set] at hlen
          split at h
          · rename_i hn
            simp only [Option.some.injEq] at h
            subst h
            have hlen' : 12 ≤ bf.length := by omega
            refine ⟨⟨b1, ?_⟩, ?_, ?_, ?_, ?_⟩
            all_goals rw [take_append_get _ _ _ _ (by omega) (by simp only [List.length_set]; omega)]
            all_goals simp [List.getElem?_set]
            all_goals omega
          · cases h

theorem unwrap_stamp (bf : Bs) (n : Nat) (pt : Byte) (ssrc : Nat) (pkt : Bs) (a : Attrs)
    (h : unwrap bf n pt ssrc = .delivered pkt a) :
    (∃ b1 : Byte, pkt[1]? = some ((b1 &&& 0x80) ||| pt)) ∧
    pkt[8]? = some (b (ssrc / 16777216)) ∧ pkt[9]? = some (b (ssrc / 65536)) ∧
    pkt[10]? = some (b (ssrc / 256)) ∧ pkt[11]? = some (b ssrc) := by
  unfold unwrap at h
  split at h
  · cases h
  · split at h
    · rename_i hl pad hhl hpad
      split at h
      · cases h
      · split at h
        · rename_i a' pkt' ha hr
          simp only [Outcome.delivered.injEq] at h
          obtain ⟨rfl, rfl⟩ := h
          exact rewrite_stamp bf n hl pt ssrc _ (headerLength_ge bf hl hhl) hr
        · cases h
    · cases h

theorem rtxItems_append (a c : List Obs) : rtxItems (a ++ c) = rtxItems a ++ rtxItems c := by
  induction a with
  | nil => rfl
  | cons o rest ih => cases o <;> simp [rtxItems, ih]

/-- what one event does to the track state, the channel and the ghost log -/
theorem step_spec (known : Byte → Bool) (s s' : Recv) (e : Ev) (o : List Obs) (l : List Stamp)
    (h : step known s e = some (s', o, l)) :
    (∀ st ∈ l, st.pt = s.pt ∧ st.ssrc = s.ssrc ∧ st.carries) ∧
    s.q ++ l.map (·.item) = rtxItems o ++ s'.q := by
  cases e with
  | feed i =>
    simp only [step] at h
    cases hu : unwrap i.buf i.n s.pt s.ssrc with
    | panic => simp [hu] at h
    | dropped =>
      simp only [hu, Option.some.injEq, Prod.mk.injEq] at h
      obtain ⟨rfl, rfl, rfl⟩ := h
      simp [rtxItems]
    | delivered pkt a =>
      simp only [hu] at h
      split at h
      · simp only [Option.some.injEq, Prod.mk.injEq] at h
        obtain ⟨rfl, rfl, rfl⟩ := h
        refine ⟨?_, by simp [rtxItems]⟩
        intro st hst
        simp only [List.mem_singleton] at hst
        subst hst
        exact ⟨rfl, rfl, unwrap_stamp i.buf i.n s.pt s.ssrc pkt a hu⟩
      · simp only [Option.some.injEq, Prod.mk.injEq] at h
        obtain ⟨rfl, rfl, rfl⟩ := h
        simp [rtxItems]
  | read len =>
    simp only [step] at h
    split at h
    · simp only [Option.some.injEq, Prod.mk.injEq] at h
      obtain ⟨rfl, rfl, rfl⟩ := h
      simp [rtxItems]
    · split at h
      · rename_i it rest hq
        simp only [Option.some.injEq, Prod.mk.injEq] at h
        obtain ⟨rfl, rfl, rfl⟩ := h
        simp [rtxItems, hq]
      · rename_i hq
        split at h
        · simp only [Option.some.injEq, Prod.mk.injEq] at h
          obtain ⟨rfl, rfl, rfl⟩ := h
          simp [rtxItems]
        · split at h <;>
          · simp only [Option.some.injEq, Prod.mk.injEq] at h
            obtain ⟨rfl, rfl, rfl⟩ := h
            simp [rtxItems, hq]
  | primary pkt =>
    simp only [step, Option.some.injEq, Prod.mk.injEq] at h
    obtain ⟨rfl, rfl, rfl⟩ := h
    simp [rtxItems]
  | rebind ssrc =>
    simp only [step] at h
    split at h <;>
    · simp only [Option.some.injEq, Prod.mk.injEq] at h
      obtain ⟨rfl, rfl, rfl⟩ := h
      simp [rtxItems]
  | stop =>
    simp only [step, Option.some.injEq, Prod.mk.injEq] at h
    obtain ⟨rfl, rfl, rfl⟩ := h
    simp [rtxItems]

theorem run_spec (known : Byte → Bool) (evs : List Ev) : ∀ (s s' : Recv) (o : List Obs) (l : List Stamp),
    run known s evs = some (s', o, l) →
    (∀ st ∈ l, st.carries) ∧ s.q ++ l.map (·.item) = rtxItems o ++ s'.q := by
  induction evs with
  | nil =>
    intro s s' o l h
    simp only [run, Option.some.injEq, Prod.mk.injEq] at h
    obtain ⟨rfl, rfl, rfl⟩ := h
    simp [rtxItems]
  | cons e es ih =>
    intro s s' o l h
    simp only [run] at h
    cases h1 : step known s e with
    | none => simp [h1] at h
    | some r1 =>
      obtain ⟨s1, o1, l1⟩ := r1
      simp only [h1] at h
      cases h2 : run known s1 es with
      | none => simp [h2] at h
      | some r2 =>
        obtain ⟨s2, o2, l2⟩ := r2
        simp only [h2, Option.some.injEq, Prod.mk.injEq] at h
        obtain ⟨rfl, rfl, rfl⟩ := h
        obtain ⟨a1, f1⟩ := step_spec known s s1 e o1 l1 h1
        obtain ⟨a2, f2⟩ := ih s1 s2 o2 l2 h2
        refine ⟨?_, ?_⟩
        · intro st hst
          rcases List.mem_append.mp hst with h | h
          · exact (a1 st h).2.2
          · exact a2 st h
        · rw [List.map_append, ← List.append_assoc, f1, List.append_assoc, f2, rtxItems_append, List.append_assoc]

theorem run_append (known : Byte → Bool) (a : List Ev) : ∀ (s : Recv) (c : List Ev),
    run known s (a ++ c) =
      match run known s a with
      | none => none
      | some (s1, o1, l1) =>
        match run known s1 c with
        | none => none
        | some (s2, o2, l2) => some (s2, o1 ++ o2, l1 ++ l2) := by
  induction a with
  | nil =>
    intro s c
    simp only [List.nil_append, run]
    cases run known s c with
    | none => rfl
    | some r => obtain ⟨s2, o2, l2⟩ := r; simp
  | cons e es ih =>
    intro s c
    simp only [List.cons_append, run]
    cases step known s e with
    | none => rfl
    | some r1 =>
      obtain ⟨s1, o1, l1⟩ := r1
      simp only [ih s1 c]
      cases run known s1 es with
      | none => rfl
      | some r2 =>
        obtain ⟨s2, o2, l2⟩ := r2
        simp only []
        cases run known s2 c with
        | none => rfl
        | some r3 => obtain ⟨s3, o3, l3⟩ := r3; simp [List.append_assoc]

/-- wherever a repair read sits in a history: the packet it queues carries the payload type and SSRC
    the track has after everything that happened before it -/
theorem run_feed_current (known : Byte → Bool) (pre post : List Ev) (i : Input) (s s' : Recv) (o : List Obs)
    (l : List Stamp) (h : run known s (pre ++ .feed i :: post) = some (s', o, l)) :
    ∃ s1 o1 l1 s2 l2, run known s pre = some (s1, o1, l1) ∧ step known s1 (.feed i) = some (s2, [], l2) ∧
      (∀ st ∈ l2, st.pt = s1.pt ∧ st.ssrc = s1.ssrc ∧ st.carries ∧ st ∈ l) := by
  rw [run_append] at h
  cases h1 : run known s pre with
  | none => simp [h1] at h
  | some r1 =>
    obtain ⟨s1, o1, l1⟩ := r1
    simp only [h1, run] at h
    cases h2 : step known s1 (.feed i) with
    | none => simp [h2] at h
    | some r2 =>
      obtain ⟨s2, o2, l2⟩ := r2
      simp only [h2] at h
      cases h3 : run known s2 post with
      | none => simp [h3] at h
      | some r3 =>
        obtain ⟨s3, o3, l3⟩ := r3
        simp only [h3, Option.some.injEq, Prod.mk.injEq] at h
        obtain ⟨rfl, rfl, rfl⟩ := h
        have ho2 : o2 = [] := by
          simp only [step] at h2
          split at h2
          · cases h2
          · simp only [Option.some.injEq, Prod.mk.injEq] at h2; exact h2.2.1.symm
          · split at h2 <;> (simp only [Option.some.injEq, Prod.mk.injEq] at h2; exact h2.2.1.symm)
        subst ho2
        refine ⟨s1, o1, l1, s2, l2, rfl, h2, ?_⟩
        intro st hst
        obtain ⟨a1, a2, a3⟩ := (step_spec known s1 s2 (.feed i) [] l2 h2).1 st hst
        exact ⟨a1, a2, a3, by simp [hst]⟩

theorem step_some (known : Byte → Bool) (s : Recv) (e : Ev)
    (h : ∀ i, e = .feed i → 76 ≤ i.buf.length ∧ i.n ≤ i.buf.length) : ∃ r, step known s e = some r := by
  cases e with
  | feed i =>
    obtain ⟨h1, h2⟩ := h i rfl
    have hnp := unwrap_no_panic i.buf i.n s.pt s.ssrc h1 h2
    simp only [step]
    cases hu : unwrap i.buf i.n s.pt s.ssrc with
    | panic => exact absurd hu hnp
    | dropped => exact ⟨_, rfl⟩
    | delivered pkt a => simp only []; split <;> exact ⟨_, rfl⟩
  | read len =>
    simp only [step]
    split
    · exact ⟨_, rfl⟩
    · split
      · exact ⟨_, rfl⟩
      · split
        · exact ⟨_, rfl⟩
        · split <;> exact ⟨_, rfl⟩
  | primary pkt => exact ⟨_, rfl⟩
  | rebind ssrc => simp only [step]; split <;> exact ⟨_, rfl⟩
  | stop => exact ⟨_, rfl⟩

theorem run_some (known : Byte → Bool) (evs : List Ev) : ∀ (s : Recv),
    (∀ i, Ev.feed i ∈ evs → 76 ≤ i.buf.length ∧ i.n ≤ i.buf.length) → ∃ r, run known s evs = some r := by
  induction evs with
  | nil => intro s _; exact ⟨_, rfl⟩
  | cons e es ih =>
    intro s h
    obtain ⟨⟨s1, o1, l1⟩, h1⟩ := step_some known s e (fun i hi => h i (by simp [hi]))
    obtain ⟨⟨s2, o2, l2⟩, h2⟩ := ih s1 (fun i hi => h i (by simp [hi]))
    exact ⟨(s2, o1 ++ o2, l1 ++ l2), by simp only [run, h1, h2]⟩

end WebrtcVerif.Rtx
