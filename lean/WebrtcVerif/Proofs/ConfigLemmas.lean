import WebrtcVerif.Model.Config
/-! Helper lemmas for C39: the blocks of `SetConfiguration` one by one, the normal form of the whole
    function, server validation, and the heap lemmas of the slice model (`Config.Alias`). -/
namespace WebrtcVerif.Config

theorem equals_eq {a b : Cert} (h : a.equals b = true) : a = b := by
  cases a <;> cases b <;> simp_all [Cert.equals]

theorem certsAllEqual_eq : ∀ (cur arg : List Cert), arg.length = cur.length →
    certsAllEqual cur arg = true → arg = cur
  | [], [], _, _ => rfl
  | [], _ :: _, h, _ => by simp at h
  | _ :: _, [], h, _ => by simp at h
  | c :: cs, a :: as, h, he => by
    simp only [certsAllEqual, Bool.and_eq_true] at he
    have h1 := equals_eq he.1
    have h2 := certsAllEqual_eq cs as (by simpa using h) he.2
    rw [h1, h2]

/-- what makes the certificate block return an error -/
def CertsOffend (c a : Cfg) : Prop :=
  a.certs.length > 0 ∧ (a.certs.length ≠ c.certs.length ∨ certsAllEqual c.certs a.certs = false)

instance (c a : Cfg) : Decidable (CertsOffend c a) := by unfold CertsOffend; infer_instance

theorem certsOffend_of_changed (c a : Cfg) (h : a.certs ≠ [] ∧ a.certs ≠ c.certs) : CertsOffend c a := by
  refine ⟨List.length_pos_iff.mpr h.1, ?_⟩
  by_cases hl : a.certs.length = c.certs.length
  · right
    cases he : certsAllEqual c.certs a.certs with
    | false => rfl
    | true => exact absurd (certsAllEqual_eq _ _ hl he) h.2
  · exact Or.inl hl

theorem stepPeerIdentity_eq (a c : Cfg) : stepPeerIdentity a c =
    (c, if a.peerIdentity ≠ "" ∧ a.peerIdentity ≠ c.peerIdentity then some .modPeerIdentity else none) := by
  unfold stepPeerIdentity
  by_cases h1 : a.peerIdentity = "" <;> by_cases h2 : a.peerIdentity = c.peerIdentity <;> simp [h1, h2]

theorem stepCertificates_eq (a c : Cfg) : stepCertificates a c =
    (c, if CertsOffend c a then some .modCertificates else none) := by
  unfold stepCertificates
  by_cases h0 : a.certs.length > 0
  · by_cases h1 : a.certs.length = c.certs.length
    · by_cases he : certsAllEqual c.certs a.certs = true
      · have hac := certsAllEqual_eq _ _ h1 he
        have hc : ({ c with certs := a.certs } : Cfg) = c := by rw [hac]
        rw [if_pos h0, if_neg (by simp [h1]), if_neg (by simp [he]), hc,
          if_neg (fun h : CertsOffend c a => by rcases h.2 with h | h <;> simp_all)]
      · rw [if_pos h0, if_neg (by simp [h1]), if_pos (by simpa using he),
          if_pos (show CertsOffend c a from ⟨h0, Or.inr (by simpa using he)⟩)]
    · rw [if_pos h0, if_pos h1, if_pos (show CertsOffend c a from ⟨h0, Or.inl h1⟩)]
  · rw [if_neg h0, if_neg (fun h : CertsOffend c a => h0 h.1)]

theorem stepBundlePolicy_eq (a c : Cfg) : stepBundlePolicy a c =
    (c, if a.bundlePolicy ≠ 0 ∧ a.bundlePolicy ≠ c.bundlePolicy then some .modBundlePolicy else none) := by
  unfold stepBundlePolicy
  by_cases h1 : a.bundlePolicy = 0 <;> by_cases h2 : a.bundlePolicy = c.bundlePolicy <;> simp [h1, h2]

theorem stepRtcpMuxPolicy_eq (a c : Cfg) : stepRtcpMuxPolicy a c =
    (c, if a.rtcpMuxPolicy ≠ 0 ∧ a.rtcpMuxPolicy ≠ c.rtcpMuxPolicy then some .modRtcpMuxPolicy else none) := by
  unfold stepRtcpMuxPolicy
  by_cases h1 : a.rtcpMuxPolicy = 0 <;> by_cases h2 : a.rtcpMuxPolicy = c.rtcpMuxPolicy <;> simp [h1, h2]

theorem stepPoolSize_eq (hl : Bool) (a c : Cfg) : stepPoolSize hl a c =
    (c, if a.poolSize ≠ 0 ∧ c.poolSize ≠ a.poolSize ∧ hl = true then some .modPoolSize else none) := by
  unfold stepPoolSize
  by_cases h1 : a.poolSize = 0 <;> by_cases h2 : c.poolSize = a.poolSize <;> cases hl <;> simp [h1, h2]

/-- The five blocks that precede the server validation, as one cascade: they leave the configuration
    untouched (every assignment they make stores a value equal to the stored one) and report the first
    offence in source order. -/
def firstOffence (hl : Bool) (c a : Cfg) : Option Err :=
  if a.peerIdentity ≠ "" ∧ a.peerIdentity ≠ c.peerIdentity then some .modPeerIdentity
  else if CertsOffend c a then some .modCertificates
  else if a.bundlePolicy ≠ 0 ∧ a.bundlePolicy ≠ c.bundlePolicy then some .modBundlePolicy
  else if a.rtcpMuxPolicy ≠ 0 ∧ a.rtcpMuxPolicy ≠ c.rtcpMuxPolicy then some .modRtcpMuxPolicy
  else if a.poolSize ≠ 0 ∧ c.poolSize ≠ a.poolSize ∧ hl = true then some .modPoolSize
  else none

theorem andThen_pair (c : Cfg) (e1 e2 : Option Err) (f : Cfg → R) (hf : f c = (c, e2)) :
    andThen (c, e1) f = (c, e1.or e2) := by
  cases e1 <;> simp [andThen, hf]

theorem setConfigurationCfg_eq (p : String → Option Scheme) (hl : Bool) (c a : Cfg) :
    setConfigurationCfg p hl c a =
      match firstOffence hl c a with
      | some e => (c, some e)
      | none => stepServers p a c := by
  unfold setConfigurationCfg
  rw [stepPeerIdentity_eq, andThen_pair _ _ _ _ (stepCertificates_eq a c),
    andThen_pair _ _ _ _ (stepBundlePolicy_eq a c), andThen_pair _ _ _ _ (stepRtcpMuxPolicy_eq a c),
    andThen_pair _ _ _ _ (stepPoolSize_eq hl a c)]
  have : (((((if a.peerIdentity ≠ "" ∧ a.peerIdentity ≠ c.peerIdentity then some Err.modPeerIdentity else none).or
      (if CertsOffend c a then some .modCertificates else none)).or
      (if a.bundlePolicy ≠ 0 ∧ a.bundlePolicy ≠ c.bundlePolicy then some .modBundlePolicy else none)).or
      (if a.rtcpMuxPolicy ≠ 0 ∧ a.rtcpMuxPolicy ≠ c.rtcpMuxPolicy then some .modRtcpMuxPolicy else none)).or
      (if a.poolSize ≠ 0 ∧ c.poolSize ≠ a.poolSize ∧ hl = true then some .modPoolSize else none))
      = firstOffence hl c a := by
    unfold firstOffence
    by_cases h1 : a.peerIdentity ≠ "" ∧ a.peerIdentity ≠ c.peerIdentity
    · simp only [if_pos h1, Option.some_or]
    by_cases h2 : CertsOffend c a
    · simp only [if_neg h1, if_pos h2, Option.none_or, Option.some_or]
    by_cases h3 : a.bundlePolicy ≠ 0 ∧ a.bundlePolicy ≠ c.bundlePolicy
    · simp only [if_neg h1, if_neg h2, if_pos h3, Option.none_or, Option.some_or]
    by_cases h4 : a.rtcpMuxPolicy ≠ 0 ∧ a.rtcpMuxPolicy ≠ c.rtcpMuxPolicy
    · simp only [if_neg h1, if_neg h2, if_neg h3, if_pos h4, Option.none_or, Option.some_or]
    simp only [if_neg h1, if_neg h2, if_neg h3, if_neg h4, Option.none_or]
  rw [this]
  cases firstOffence hl c a <;> rfl

theorem firstOffence_isMod (hl : Bool) (c a : Cfg) (e : Err) (h : firstOffence hl c a = some e) :
    e.isInvalidModification = true := by
  unfold firstOffence at h
  repeat' split at h
  all_goals first | (cases h; rfl) | cases h

/-! ### ICE server validation -/

theorem checkUrl_isAccess (p : String → Option Scheme) (sv : IceServer) (u : String) (e : Err)
    (h : sv.checkUrl p u = some e) : e.isInvalidAccess = true := by
  unfold IceServer.checkUrl at h
  repeat' split at h
  all_goals first | (cases h; rfl) | cases h

theorem findSome?_ne_none_iff {α β} (f : α → Option β) (l : List α) :
    l.findSome? f ≠ none ↔ ∃ x ∈ l, f x ≠ none := by
  induction l with
  | nil => simp
  | cons x xs ih =>
    simp only [List.findSome?_cons]
    cases hx : f x with
    | none => simp [ih, hx]
    | some y => simp [hx]

theorem findSome?_some_mem {α β} (f : α → Option β) (l : List α) (y : β) (h : l.findSome? f = some y) :
    ∃ x ∈ l, f x = some y := by
  induction l with
  | nil => simp at h
  | cons x xs ih =>
    simp only [List.findSome?_cons] at h
    cases hx : f x with
    | none => rw [hx] at h; obtain ⟨z, hz, hf⟩ := ih h; exact ⟨z, List.mem_cons_of_mem _ hz, hf⟩
    | some w => rw [hx] at h; cases h; exact ⟨x, List.mem_cons_self, hx⟩

theorem validateAll_isAccess (p : String → Option Scheme) (ss : List IceServer) (e : Err)
    (h : validateAll p ss = some e) : e.isInvalidAccess = true := by
  obtain ⟨sv, _, hv⟩ := findSome?_some_mem _ _ _ h
  obtain ⟨u, _, hu⟩ := findSome?_some_mem _ _ _ hv
  exact checkUrl_isAccess p sv u e hu

/-! ## Normal form of `SetConfiguration` -/

/-- what an accepted call stores -/
def applied (c a : Cfg) : Cfg :=
  { c with transportPolicy := a.transportPolicy,
           alwaysNegotiate := c.alwaysNegotiate || a.alwaysNegotiate,
           servers := a.servers }

/-- The model of `SetConfiguration` (block by block, with every assignment) equals this cascade: closed →
    first offending immutable setting → first invalid server → apply the three mutable settings. -/
theorem setConfiguration_eq (p : String → Option Scheme) (s : St) (a : Cfg) :
    setConfiguration p s a =
      if s.closed = true then (s, some .invalidState)
      else match firstOffence s.hasLocal s.cfg a with
        | some e => (s, some e)
        | none =>
          match validateAll p a.servers with
          | some e => (s, some e)
          | none => ({ s with cfg := applied s.cfg a }, none) := by
  unfold setConfiguration
  by_cases hc : s.closed = true
  · rw [if_pos hc, if_pos hc]
  · rw [if_neg hc, if_neg hc, setConfigurationCfg_eq]
    cases firstOffence s.hasLocal s.cfg a with
    | some e => rfl
    | none =>
      simp only
      unfold stepServers
      cases validateAll p a.servers with
      | some e => rfl
      | none =>
        simp only [applied]
        cases ha : a.alwaysNegotiate <;> simp

/-- pairwise `Equals` of a list with itself can only fail on a zero certificate -/
theorem certsAllEqual_self : ∀ l : List Cert, Cert.zero ∉ l → certsAllEqual l l = true := by
  intro l
  induction l with
  | nil => intro _; rfl
  | cons x xs ih =>
    intro hx
    simp only [List.mem_cons, not_or] at hx
    simp only [certsAllEqual, Bool.and_eq_true]
    refine ⟨?_, ih hx.2⟩
    cases x <;> simp_all [Cert.equals]

/-! ### heap lemmas for `Config.Alias` -/
namespace Alias

theorem hget_append_lt : ∀ (h t : Heap) (n : Nat), n < h.length → hget (h ++ t) n = hget h n
  | [], _, _, hn => by simp at hn
  | _ :: _, _, 0, _ => rfl
  | _ :: xs, t, n + 1, hn => by
    simp only [List.cons_append, hget]
    exact hget_append_lt xs t n (by simpa using hn)

theorem hget_append_length : ∀ (h : Heap) (x : List Cert), hget (h ++ [x]) h.length = x
  | [], _ => rfl
  | _ :: xs, x => by simp only [List.cons_append, List.length_cons, hget]; exact hget_append_length xs x

theorem hmod_length : ∀ (h : Heap) (a : Nat) (f : List Cert → List Cert), (hmod h a f).length = h.length
  | [], _, _ => rfl
  | _ :: _, 0, _ => by simp [hmod]
  | _ :: xs, a + 1, f => by simp [hmod, hmod_length xs a f]

theorem hget_hmod_ne : ∀ (h : Heap) (a b : Nat) (f : List Cert → List Cert), a ≠ b →
    hget (hmod h a f) b = hget h b
  | [], _, _, _, _ => rfl
  | _ :: _, 0, 0, _, hab => absurd rfl hab
  | _ :: _, 0, _ + 1, _, _ => rfl
  | _ :: _, _ + 1, 0, _, _ => rfl
  | _ :: xs, a + 1, b + 1, f, hab => by
    simp only [hmod, hget]
    exact hget_hmod_ne xs a b f (fun e => hab (by rw [e]))

end Alias

end WebrtcVerif.Config
