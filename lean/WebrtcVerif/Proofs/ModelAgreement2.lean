import WebrtcVerif.Model.Signaling
import WebrtcVerif.Model.Jsep
import WebrtcVerif.Model.NegNeeded
import WebrtcVerif.Model.Directions
import WebrtcVerif.Model.PcSections
import WebrtcVerif.Model.OfferSdp
import WebrtcVerif.Model.RemoteInput
import WebrtcVerif.Model.Roles
import WebrtcVerif.Proofs.JsepLemmas
import WebrtcVerif.Proofs.ModelAgreement
/-!
# Agreement between the JSEP-side models (second part of "one model, several views")

The JSEP-side models were written independently and each carries its own copy of pieces of
peerconnection.go / rtptransceiver.go / signalingstate.go / sdp.go.  This file proves that the copies agree,
so that the build breaks when one copy is updated (e.g. after a `fix:` commit) and another is not.

Hubs (every other copy is embedded into these):
* signaling states / ops / types: `Model/Signaling.lean` (C01), the only complete transcription of
  `checkNextSignalingState`; `sigStep` is "one `setDescription`", `commitSlots` its four slot assignments;
* directions, kinds, transceivers, m-sections, mids: `Model/Jsep.lean` (C06/C07/C09), the richest record types
  (Go `int` arithmetic, `Itoa`/`Atoi`).

Contents
1. signaling: `negneeded_checkNext`, `jsep_setDescRemote_sig/_setDescLocal_sig`, `directions_*_sig`,
   `remoteinput_checkNext`, `pcsections_*_sig`; slots: `*_slots`, `*_remoteDesc`.
2. directions: switch level (`*_adjust*`, `*_narrow/answerDirection`, `*_preferred*`, `directions_newDir`),
   transceiver level (`*_stop`, `*_attach*`, `*_isSendAllowed`, `*_addTrack`, `*_addTransceiver`, `negneeded_detach`),
   loop level, in general (all section lists, all transceiver lists):
     Directions ↔ Jsep:  `directions_srdSection/_srdLoop/_remoteTrs`, `directions_curDirLoop`, `directions_narrowLoop`;
     NegNeeded ↔ Jsep:   `negneeded_remoteSecStep/_applyRemoteOffer/_remoteTrs`, `negneeded_setCurDirs`,
                          `negneeded_genMatched_narrow`;
     PcSections:         probes of `applyRemoteSection` on the smallest inputs reaching each branch (`pc_probe_*`).
3. mids: `negneeded_dataMid`, `offersdp_dataMid` (= Jsep's `firstFree`), numbering loops (`*_assignMids`,
   `assignMidsOnly_alloc`, `numberMidsOnly_alloc`), scans (`jsep_scanAll`, `negneeded_bumpAll`,
   `scanNat_scanMidsOnly`, `offersdp_raiseAll`, `scanNat_absorb`).
4. misc: `jsep_kindOf` (String vs List Char), `jsep_offer_role/_answer_role` (vs Roles), `negneeded_getByMid`,
   `negneeded_localChanged`.

Differences found are listed where they are proved: the stale rollback rows of `RemoteInput.checkNext` (repaired
in the model, see there), the error path of `NegNeeded.createAnswer` (witness at the end of §2c).
-/
namespace WebrtcVerif.Agreement2

/-! ## 1. the signaling state machine -/

section Sig
open Signaling (Sig Op Ty)

/-- the `next` state `setDescription` proposes to `checkNextSignalingState` (peerconnection.go, the two
    `switch sd.Type` blocks) -/
def proposed : Op → Ty → Option Sig
  | .setLocal, .offer => some .haveLocalOffer
  | .setLocal, .answer => some .stable
  | .setLocal, .rollback => some .stable
  | .setLocal, .pranswer => some .haveLocalPranswer
  | .setRemote, .offer => some .haveRemoteOffer
  | .setRemote, .answer => some .stable
  | .setRemote, .rollback => some .stable
  | .setRemote, .pranswer => some .haveRemotePranswer
  | _, _ => none

/-- `checkNextSignalingState` as a partial function: `none` = it returned an error -/
def check (cur next : Sig) (op : Op) (ty : Ty) : Option Sig :=
  if (Signaling.checkNext cur next op ty).2.isNone then some (Signaling.checkNext cur next op ty).1 else none

/-- one step of the signaling machine as `setDescription` runs it; `none` = error, state unchanged -/
def sigStep (cur : Sig) (op : Op) (ty : Ty) : Option Sig :=
  match proposed op ty with
  | none => none
  | some nx => check cur nx op ty

theorem commit_ok (s' s : Signaling.Neg) (chk : Sig × Option Signaling.TErr)
    (h : (Signaling.commit s' s chk).err = none) :
    chk.2 = none ∧ (Signaling.commit s' s chk).st.sig = chk.1 := by
  unfold Signaling.commit at h ⊢
  cases hc : chk.2 with
  | some e => rw [hc] at h; simp [Signaling.fail] at h
  | none => simp

/-- `proposed`/`sigStep` are what C01's own `setDescription` does: whenever it succeeds, the new signaling
    state is `sigStep` of the old one -/
theorem signaling_setDescription_sig (s : Signaling.Neg) (d : Signaling.Desc) (op : Op)
    (h : (Signaling.setDescription s d op).err = none) :
    sigStep s.sig op d.ty = some (Signaling.setDescription s d op).st.sig := by
  unfold Signaling.setDescription at h ⊢
  unfold sigStep check
  by_cases hc : s.isClosed = true
  · simp [hc, Signaling.fail] at h
  · by_cases hu : d.ty = .unknown
    · simp [hc, hu, Signaling.fail] at h
    · simp only [hc, hu, Bool.false_eq_true, if_false] at h ⊢
      cases op <;> cases hty : d.ty <;> simp only [hty, proposed] at h hu ⊢
      all_goals (try split at h)
      all_goals first
        | (simp [Signaling.fail] at h; done)
        | (rename_i he
           simp only [he, if_false]
           obtain ⟨h1, h2⟩ := commit_ok _ _ _ h
           simp only [h1, h2, Option.isNone_none, if_true]
           done)
        | (obtain ⟨h1, h2⟩ := commit_ok _ _ _ h
           simp only [h1, h2, Option.isNone_none, if_true])

end Sig

section SigCopies
open Signaling (Sig Op Ty)

/-! ### NegNeeded (C04): all six states, offers / provisional answers / answers / rollbacks -/

def sigN : NegNeeded.Sig → Sig
  | .stable => .stable | .haveLocalOffer => .haveLocalOffer | .haveRemoteOffer => .haveRemoteOffer
  | .haveLocalPranswer => .haveLocalPranswer | .haveRemotePranswer => .haveRemotePranswer
  | .closed => .closed

def opOfLocal (isLocal : Bool) : Op := if isLocal then .setLocal else .setRemote
def tyOfOffer (isOffer : Bool) : Ty := if isOffer then .offer else .answer

def tyN : NegNeeded.Ty → Ty
  | .offer => .offer | .pranswer => .pranswer | .answer => .answer | .rollback => .rollback

/-- `NegNeeded.checkNext` = `checkNextSignalingState` on its fragment (all states, both ops, offer / pranswer /
    answer / rollback) -/
theorem negneeded_checkNext (cur : NegNeeded.Sig) (isLocal : Bool) (ty : NegNeeded.Ty) :
    (NegNeeded.checkNext cur isLocal ty).map sigN = sigStep (sigN cur) (opOfLocal isLocal) (tyN ty) := by
  cases cur <;> cases isLocal <;> cases ty <;> decide

/-- the end of `NegNeeded.setDescription` (shared with `NegNeeded.rollback`): a successful call moves the state
    as `sigStep` says -/
theorem negneeded_applyChecked_sig (pc pc' : NegNeeded.PC) (isLocal : Bool) (ty : NegNeeded.Ty) (d : NegNeeded.Desc)
    (h : NegNeeded.applyChecked pc isLocal ty d = some pc') :
    sigStep (sigN pc.sig) (opOfLocal isLocal) (tyN ty) = some (sigN pc'.sig) := by
  rw [← negneeded_checkNext]
  unfold NegNeeded.applyChecked at h
  split at h
  · cases h
  · rename_i next hn
    rw [hn]
    split at h <;> (cases h; rfl)

/-- … and through `NegNeeded.setDescription`: a successful call moves the state as `sigStep` says -/
theorem negneeded_setDescription_sig (pc pc' : NegNeeded.PC) (isLocal : Bool) (d : NegNeeded.Desc) (prov : Bool)
    (h : NegNeeded.setDescription pc isLocal d prov = some pc') :
    sigStep (sigN pc.sig) (opOfLocal isLocal) (tyN (NegNeeded.descTy d prov)) = some (sigN pc'.sig) := by
  unfold NegNeeded.setDescription at h
  split at h
  · cases h
  · split at h
    · cases h
    · split at h
      · cases h
      · exact negneeded_applyChecked_sig _ _ _ _ _ h

/-- … and through `NegNeeded.rollback` (SetLocal/SetRemoteDescription with type rollback) -/
theorem negneeded_rollback_sig (pc : NegNeeded.PC) (isLocal : Bool)
    (h : (NegNeeded.rollback pc isLocal).2 = .ok) :
    sigStep (sigN pc.sig) (opOfLocal isLocal) .rollback = some (sigN (NegNeeded.rollback pc isLocal).1.sig) := by
  unfold NegNeeded.rollback at h ⊢
  split
  · simp_all
  · split
    · simp_all
    · rename_i pc1 ha
      exact negneeded_applyChecked_sig _ _ _ .rollback _ ha

/-- the fragment is closed: from a NegNeeded state, a step never leaves its states -/
theorem negneeded_fragment_closed (cur : NegNeeded.Sig) (isLocal : Bool) (ty : NegNeeded.Ty) (n : Sig)
    (h : sigStep (sigN cur) (opOfLocal isLocal) (tyN ty) = some n) : ∃ n', n = sigN n' := by
  rw [← negneeded_checkNext] at h
  cases hc : NegNeeded.checkNext cur isLocal ty with
  | none => rw [hc] at h; cases h
  | some n' => rw [hc] at h; exact ⟨n', by cases h; rfl⟩

/-! ### Jsep (C06/C07/C09): three states, offers and answers only -/

def sigJ : Jsep.Sig → Sig
  | .stable => .stable | .haveLocalOffer => .haveLocalOffer | .haveRemoteOffer => .haveRemoteOffer

def tyJ : Jsep.SdpType → Ty
  | .offer => .offer | .answer => .answer

def okSig (r : Except Jsep.Err Jsep.St) : Option Sig :=
  match r with
  | .ok st => some (sigJ st.sig)
  | .error _ => none

/-- `Jsep.setDescRemote` = `sigStep` on the fragment (all three states, both types) -/
theorem jsep_setDescRemote_sig (st : Jsep.St) (d : Jsep.Desc) :
    okSig (Jsep.setDescRemote st d) = sigStep (sigJ st.sig) .setRemote (tyJ d.typ) := by
  unfold Jsep.setDescRemote
  cases ht : d.typ <;> cases hs : st.sig <;> simp [okSig, tyJ, sigJ] <;> decide

/-- `Jsep.setDescLocal` = `sigStep` once the text test (`sd.SDP != pc.lastOffer/lastAnswer`) has passed -/
theorem jsep_setDescLocal_sig (st : Jsep.St) (serial : Nat) (d : Jsep.Desc)
    (hm : (match d.typ with | .offer => st.lastOffer | .answer => st.lastAnswer) = some serial) :
    okSig (Jsep.setDescLocal st serial d) = sigStep (sigJ st.sig) .setLocal (tyJ d.typ) := by
  unfold Jsep.setDescLocal
  cases ht : d.typ <;> rw [ht] at hm <;> simp only at hm <;>
    cases hs : st.sig <;> simp [okSig, hm, tyJ, sigJ] <;> decide

/-! ### Directions (C08): three states; the four description-applying operations -/

def sigD : Directions.Sig → Sig
  | .stable => .stable | .haveLocalOffer => .haveLocalOffer | .haveRemoteOffer => .haveRemoteOffer

/-- the state after a Directions operation is `sigStep` of the state before when that is defined and the
    operation's own preconditions (non-empty description, an answer to set) hold; otherwise unchanged -/
theorem directions_remoteOffer_sig (adj nar : Directions.Dir → Directions.Dir → Directions.Dir)
    (s : Directions.Pc) (secs : List Directions.Sec) (hne : secs ≠ []) :
    sigD (Directions.stepWith adj nar s (.remoteOffer secs)).1.sig =
      (sigStep (sigD s.sig) .setRemote .offer).getD (sigD s.sig) := by
  have he : secs.isEmpty = false := by cases secs <;> simp_all
  simp only [Directions.stepWith, he, Bool.false_eq_true, if_false]
  cases hs : s.sig <;> simp [hs] <;> decide

theorem directions_remoteAnswer_sig (adj nar : Directions.Dir → Directions.Dir → Directions.Dir)
    (s : Directions.Pc) (secs : List Directions.Sec) (hne : secs ≠ []) :
    sigD (Directions.stepWith adj nar s (.remoteAnswer secs)).1.sig =
      (sigStep (sigD s.sig) .setRemote .answer).getD (sigD s.sig) := by
  have he : secs.isEmpty = false := by cases secs <;> simp_all
  simp only [Directions.stepWith, he, Bool.false_eq_true, if_false]
  cases hs : s.sig <;> simp [hs] <;> decide

theorem directions_setLocalAnswer_sig (adj nar : Directions.Dir → Directions.Dir → Directions.Dir)
    (s : Directions.Pc) (ans : List Directions.Sec) (ha : s.lastAnswer = some ans) :
    sigD (Directions.stepWith adj nar s .setLocalAnswer).1.sig =
      (sigStep (sigD s.sig) .setLocal .answer).getD (sigD s.sig) := by
  simp only [Directions.stepWith, ha]
  cases hs : s.sig <;> simp [hs] <;> decide

/-- `localOffer` = CreateOffer + SetLocalDescription(offer), only issued in stable: when the offer exists the
    state moves as `sigStep` says -/
theorem directions_localOffer_sig (adj nar : Directions.Dir → Directions.Dir → Directions.Dir)
    (s : Directions.Pc) (secs : List Directions.Sec)
    (h : (Directions.stepWith adj nar s .localOffer).2 = .desc secs) :
    sigStep (sigD s.sig) .setLocal .offer = some (sigD (Directions.stepWith adj nar s .localOffer).1.sig) := by
  simp only [Directions.stepWith] at h ⊢
  cases hs : s.sig <;> simp only [hs] at h ⊢ <;> simp at h ⊢
  split at h
  · cases h
  · show sigStep (sigD .stable) .setLocal .offer = some (sigD .haveLocalOffer)
    decide

/-- a failed operation leaves the signaling state alone -/
theorem directions_err_sig (adj nar : Directions.Dir → Directions.Dir → Directions.Dir)
    (s : Directions.Pc) (o : Directions.Op) (h : (Directions.stepWith adj nar s o).2 = .err) :
    (Directions.stepWith adj nar s o).1.sig = s.sig := by
  cases o <;> simp only [Directions.stepWith] at h ⊢
  all_goals (repeat' split) <;> simp_all

/-! ### RemoteInput (C30): all six states, all four types -/

def sigR : RemoteInput.Sig → Sig
  | .stable => .stable | .haveLocalOffer => .haveLocalOffer | .haveRemoteOffer => .haveRemoteOffer
  | .haveLocalPranswer => .haveLocalPranswer | .haveRemotePranswer => .haveRemotePranswer | .closed => .closed

def tyR : RemoteInput.SdpType → Ty
  | .offer => .offer | .pranswer => .pranswer | .answer => .answer

def opOfRemote (remote : Bool) : Op := if remote then .setRemote else .setLocal

/-- **`RemoteInput.checkNext` = `checkNextSignalingState`** for every current state, every proposed next state,
    both operations and every description type in its scope (a rollback never reaches it, see the model) -/
theorem remoteinput_checkNext (cur next : RemoteInput.Sig) (remote : Bool) (t : RemoteInput.SdpType) :
    (RemoteInput.checkNext cur next remote t).map sigR = check (sigR cur) (sigR next) (opOfRemote remote) (tyR t) := by
  cases cur <;> cases next <;> cases remote <;> cases t <;> decide

/-- what the stale copy said before the repair (kept as a regression test of the hub): a remote rollback in
    have-remote-offer IS accepted by `checkNextSignalingState` since `fix: rollback returns to stable` -/
example : check .haveRemoteOffer .stable .setRemote .rollback = some .stable ∧
    check .haveLocalOffer .stable .setLocal .rollback = some .stable ∧
    check .stable .stable .setRemote .rollback = none := by decide

/-! ### the four description slots assigned by `setDescription` -/

/-- pending/current × local/remote -/
structure Slots (δ : Type) where
  pendL : Option δ
  pendR : Option δ
  curL : Option δ
  curR : Option δ
  deriving DecidableEq, Repr

/-- the assignments `setDescription` makes under `pc.mu` when `checkNextSignalingState` succeeded -/
def commitSlots {δ : Type} (op : Op) (ty : Ty) (d : δ) (s : Slots δ) : Slots δ :=
  match op, ty with
  | .setLocal, .offer => { s with pendL := some d }
  | .setLocal, .pranswer => { s with pendL := some d }
  | .setLocal, .answer => { pendL := none, pendR := none, curL := some d, curR := s.pendR }
  | .setRemote, .offer => { s with pendR := some d }
  | .setRemote, .pranswer => { s with pendR := some d }
  | .setRemote, .answer => { pendL := none, pendR := none, curR := some d, curL := s.pendL }
  | _, .rollback => { s with pendL := none, pendR := none }
  | _, _ => s

/-- `RemoteDescription()` / `LocalDescription()`: pending if present, else current -/
def pendElseCur {δ : Type} (pend cur : Option δ) : Option δ :=
  match pend with
  | some d => some d
  | none => cur

def slotsS (s : Signaling.Neg) : Slots Signaling.Desc := ⟨s.pendL, s.pendR, s.curL, s.curR⟩

theorem commit_ok_st (s' s : Signaling.Neg) (chk : Sig × Option Signaling.TErr)
    (h : (Signaling.commit s' s chk).err = none) : (Signaling.commit s' s chk).st = { s' with sig := chk.1 } := by
  unfold Signaling.commit at h ⊢
  cases hc : chk.2 with
  | some e => rw [hc] at h; simp [Signaling.fail] at h
  | none => rfl

/-- `commitSlots` is what C01's `setDescription` does to its four slots -/
theorem signaling_setDescription_slots (s : Signaling.Neg) (d : Signaling.Desc) (op : Op)
    (h : (Signaling.setDescription s d op).err = none) :
    slotsS (Signaling.setDescription s d op).st = commitSlots op d.ty d (slotsS s) := by
  unfold Signaling.setDescription at h ⊢
  by_cases hc : s.isClosed = true
  · simp [hc, Signaling.fail] at h
  · by_cases hu : d.ty = .unknown
    · simp [hc, hu, Signaling.fail] at h
    · simp only [hc, hu, Bool.false_eq_true, if_false] at h ⊢
      cases op <;> cases hty : d.ty <;> simp only [hty] at h hu ⊢
      all_goals (try split at h)
      all_goals first
        | (simp [Signaling.fail] at h; done)
        | (rename_i he
           simp only [he, if_false]
           rw [commit_ok_st _ _ _ h]
           rfl)
        | (rw [commit_ok_st _ _ _ h]
           rfl)

theorem signaling_remoteDescription (s : Signaling.Neg) : s.remoteDescription = pendElseCur s.pendR s.curR := by
  unfold Signaling.Neg.remoteDescription pendElseCur; cases s.pendR <;> rfl
theorem signaling_localDescription (s : Signaling.Neg) : s.localDescription = pendElseCur s.pendL s.curL := by
  unfold Signaling.Neg.localDescription pendElseCur; cases s.pendL <;> rfl

def slotsN (pc : NegNeeded.PC) : Slots NegNeeded.Desc := ⟨pc.pendLocal, pc.pendRemote, pc.curLocal, pc.curRemote⟩

/-- `NegNeeded.commitDesc` = `commitSlots` -/
theorem negneeded_commitDesc (pc : NegNeeded.PC) (isLocal : Bool) (ty : NegNeeded.Ty) (d : NegNeeded.Desc) :
    slotsN (NegNeeded.commitDesc pc isLocal ty d) = commitSlots (opOfLocal isLocal) (tyN ty) d (slotsN pc) := by
  unfold NegNeeded.commitDesc
  cases isLocal <;> cases ty <;> rfl

theorem negneeded_applyChecked_slots (pc pc' : NegNeeded.PC) (isLocal : Bool) (ty : NegNeeded.Ty) (d : NegNeeded.Desc)
    (h : NegNeeded.applyChecked pc isLocal ty d = some pc') :
    slotsN pc' = commitSlots (opOfLocal isLocal) (tyN ty) d (slotsN pc) := by
  rw [← negneeded_commitDesc]
  unfold NegNeeded.applyChecked at h
  split at h
  · cases h
  · split at h <;> (cases h; rfl)

theorem negneeded_setDescription_slots (pc pc' : NegNeeded.PC) (isLocal : Bool) (d : NegNeeded.Desc) (prov : Bool)
    (h : NegNeeded.setDescription pc isLocal d prov = some pc') :
    slotsN pc' = commitSlots (opOfLocal isLocal) (tyN (NegNeeded.descTy d prov)) d (slotsN pc) := by
  unfold NegNeeded.setDescription at h
  split at h
  · cases h
  · split at h
    · cases h
    · split at h
      · cases h
      · exact negneeded_applyChecked_slots _ _ _ _ _ h

/-- a rollback clears both pending slots and nothing else -/
theorem negneeded_rollback_slots (pc : NegNeeded.PC) (isLocal : Bool)
    (h : (NegNeeded.rollback pc isLocal).2 = .ok) :
    slotsN (NegNeeded.rollback pc isLocal).1 =
      commitSlots (opOfLocal isLocal) .rollback ({ offer := false, secs := [] } : NegNeeded.Desc) (slotsN pc) := by
  unfold NegNeeded.rollback at h ⊢
  split
  · simp_all
  · split
    · simp_all
    · rename_i pc1 ha
      exact negneeded_applyChecked_slots _ _ _ .rollback _ ha

theorem negneeded_remoteDesc (pc : NegNeeded.PC) : NegNeeded.remoteDesc pc = pendElseCur pc.pendRemote pc.curRemote := by
  unfold NegNeeded.remoteDesc pendElseCur; cases pc.pendRemote <;> rfl

def slotsJ (st : Jsep.St) : Slots Jsep.Desc := ⟨st.pendLocal, st.pendRemote, st.curLocal, st.curRemote⟩

/-- `Jsep.setDescRemote` / `setDescLocal` assign the slots as `commitSlots` says -/
theorem jsep_setDescRemote_slots (st st' : Jsep.St) (d : Jsep.Desc) (h : Jsep.setDescRemote st d = .ok st') :
    slotsJ st' = commitSlots .setRemote (tyJ d.typ) d (slotsJ st) := by
  unfold Jsep.setDescRemote at h
  cases ht : d.typ <;> simp only [ht] at h <;> split at h <;> first | (cases h; rfl) | cases h

theorem jsep_setDescLocal_slots (st st' : Jsep.St) (serial : Nat) (d : Jsep.Desc)
    (h : Jsep.setDescLocal st serial d = .ok st') :
    slotsJ st' = commitSlots .setLocal (tyJ d.typ) d (slotsJ st) := by
  unfold Jsep.setDescLocal at h
  cases ht : d.typ <;> simp only [ht] at h <;> split at h <;> first
    | cases h
    | (split at h <;> first | (cases h; rfl) | cases h)

theorem jsep_remoteDesc (st : Jsep.St) : st.remoteDesc = pendElseCur st.pendRemote st.curRemote := by
  unfold Jsep.St.remoteDesc pendElseCur; cases st.pendRemote <;> rfl

def slotsR {δ : Type} (st : RemoteInput.Descs δ) : Slots δ :=
  ⟨st.pendingLocal, st.pendingRemote, st.currentLocal, st.currentRemote⟩

/-- `RemoteInput.setRemote`: state and slots as `sigStep` / `commitSlots` say -/
theorem remoteinput_setRemote {δ : Type} (st : RemoteInput.Descs δ) (sd : δ) (t : RemoteInput.SdpType) :
    (RemoteInput.setRemote st sd t).map (fun st' => (sigR st'.state, slotsR st')) =
      (sigStep (sigR st.state) .setRemote (tyR t)).map (fun n => (n, commitSlots .setRemote (tyR t) sd (slotsR st))) := by
  have hc := fun nx => remoteinput_checkNext st.state nx true t
  unfold RemoteInput.setRemote sigStep
  cases t <;> simp only [tyR, proposed]
  · have : Option.map sigR (RemoteInput.checkNext st.state .haveRemoteOffer true .offer) =
        check (sigR st.state) .haveRemoteOffer .setRemote .offer := hc .haveRemoteOffer
    rw [← this]
    cases RemoteInput.checkNext st.state .haveRemoteOffer true .offer <;> rfl
  · have : Option.map sigR (RemoteInput.checkNext st.state .haveRemotePranswer true .pranswer) =
        check (sigR st.state) .haveRemotePranswer .setRemote .pranswer := hc .haveRemotePranswer
    rw [← this]
    cases RemoteInput.checkNext st.state .haveRemotePranswer true .pranswer <;> rfl
  · have : Option.map sigR (RemoteInput.checkNext st.state .stable true .answer) =
        check (sigR st.state) .stable .setRemote .answer := hc .stable
    rw [← this]
    cases RemoteInput.checkNext st.state .stable true .answer <;> rfl

theorem remoteinput_remoteDescription {δ : Type} (st : RemoteInput.Descs δ) :
    RemoteInput.remoteDescription st = pendElseCur st.pendingRemote st.currentRemote := by
  unfold RemoteInput.remoteDescription pendElseCur; cases st.pendingRemote <;> rfl

theorem directions_remoteDesc (s : Directions.Pc) : s.remoteDesc = pendElseCur s.pendRemote s.curRemote := by
  unfold Directions.Pc.remoteDesc pendElseCur; cases s.pendRemote <;> rfl

/-- Directions keeps the two remote slots only: they move as `commitSlots` says -/
theorem directions_remote_slots (adj nar : Directions.Dir → Directions.Dir → Directions.Dir)
    (s : Directions.Pc) (secs : List Directions.Sec) :
    ((Directions.stepWith adj nar s (.remoteOffer secs)).2 = .ok →
      let s' := (Directions.stepWith adj nar s (.remoteOffer secs)).1
      (s'.pendRemote, s'.curRemote) =
        ((commitSlots .setRemote .offer secs ⟨none, s.pendRemote, none, s.curRemote⟩).pendR,
         (commitSlots .setRemote .offer secs ⟨none, s.pendRemote, none, s.curRemote⟩).curR)) ∧
    ((Directions.stepWith adj nar s .setLocalAnswer).2 = .ok →
      let s' := (Directions.stepWith adj nar s .setLocalAnswer).1
      (s'.pendRemote, s'.curRemote) =
        ((commitSlots .setLocal .answer secs ⟨none, s.pendRemote, none, s.curRemote⟩).pendR,
         (commitSlots .setLocal .answer secs ⟨none, s.pendRemote, none, s.curRemote⟩).curR)) := by
  constructor
  · simp only [Directions.stepWith]
    split
    · intro h; cases h
    · split
      · intro _; rfl
      · intro h; cases h
  · simp only [Directions.stepWith]
    split
    · intro h; cases h
    · split
      · intro _; rfl
      · intro h; cases h

end SigCopies

/-! ## 2. direction logic (rtptransceiver.go, the switches of SetRemoteDescription / CreateAnswer)

  Hub: `Model/Jsep.lean`.  `dirD/dirN/dirP/dirO` embed the other models' direction enums. -/

section Dirs
open Jsep (Dir Kind)

def dirD : Directions.Dir → Dir
  | .sendrecv => .sendrecv | .sendonly => .sendonly | .recvonly => .recvonly | .inactive => .inactive
def dirN : NegNeeded.Dir → Dir
  | .sendrecv => .sendrecv | .sendonly => .sendonly | .recvonly => .recvonly | .inactive => .inactive
def dirP : PcSections.TDir → Dir
  | .sendrecv => .sendrecv | .sendonly => .sendonly | .recvonly => .recvonly | .inactive => .inactive
def dirO : OfferSdp.Dir → Dir
  | .sendrecv => .sendrecv | .sendonly => .sendonly | .recvonly => .recvonly | .inactive => .inactive

def kindD : Directions.Kind → Kind
  | .audio => .audio | .video => .video
def kindN : NegNeeded.Kind → Kind
  | .audio => .audio | .video => .video

theorem dirD_inj {a b : Directions.Dir} (h : dirD a = dirD b) : a = b := by cases a <;> cases b <;> first | rfl | cases h
theorem dirN_inj {a b : NegNeeded.Dir} (h : dirN a = dirN b) : a = b := by cases a <;> cases b <;> first | rfl | cases h
theorem dirP_inj {a b : PcSections.TDir} (h : dirP a = dirP b) : a = b := by cases a <;> cases b <;> first | rfl | cases h
theorem dirO_inj {a b : OfferSdp.Dir} (h : dirO a = dirO b) : a = b := by cases a <;> cases b <;> first | rfl | cases h
theorem kindD_inj {a b : Directions.Kind} (h : kindD a = kindD b) : a = b := by cases a <;> cases b <;> first | rfl | cases h
theorem kindN_inj {a b : NegNeeded.Kind} (h : kindN a = kindN b) : a = b := by cases a <;> cases b <;> first | rfl | cases h

/-! ### the direction adjustment switch of SetRemoteDescription (four copies) -/

theorem directions_adjust (r l : Directions.Dir) : dirD (Directions.adjust r l) = Jsep.adjustDir (dirD r) (dirD l) := by
  cases r <;> cases l <;> rfl
theorem negneeded_adjustDir (r l : NegNeeded.Dir) : dirN (NegNeeded.adjustDir r l) = Jsep.adjustDir (dirN r) (dirN l) := by
  cases r <;> cases l <;> rfl
theorem pcsections_adjustDirection (r l : PcSections.TDir) :
    dirP (PcSections.adjustDirection r l) = Jsep.adjustDir (dirP r) (dirP l) := by
  cases r <;> cases l <;> rfl

/-- the pre-fix switch kept in `Directions` really is a different function (so the theorems above are not
    vacuous about the `sendonly` rows) -/
example : ∃ r l, dirD (Directions.adjustOld r l) ≠ Jsep.adjustDir (dirD r) (dirD l) :=
  ⟨.sendonly, .sendrecv, by decide⟩

/-! ### `answerDirection` (four copies) -/

theorem directions_narrow (o l : Directions.Dir) : dirD (Directions.narrow o l) = Jsep.answerDirection (dirD o) (dirD l) := by
  cases o <;> cases l <;> rfl
theorem negneeded_answerDirection (o l : NegNeeded.Dir) :
    dirN (NegNeeded.answerDirection o l) = Jsep.answerDirection (dirN o) (dirN l) := by
  cases o <;> cases l <;> rfl
theorem pcsections_answerDirection (o l : PcSections.TDir) :
    dirP (PcSections.answerDirection o l) = Jsep.answerDirection (dirP o) (dirP l) := by
  cases o <;> cases l <;> rfl

/-- … and all of them produce a legal RFC 3264 answer, by C08's own specification -/
theorem answerDirection_legal (o l : Directions.Dir) : Directions.Spec.legal o (Directions.narrow o l) = true := by
  cases o <;> cases l <;> rfl

/-! ### preference lists of `satisfyTypeAndDirection` (four copies; NegNeeded's is inline, see §2b) -/

theorem directions_preferred (d : Directions.Dir) : (Directions.preferred d).map dirD = Jsep.prefDirs (dirD d) := by
  cases d <;> rfl
theorem pcsections_preferredDirections (d : PcSections.TDir) :
    (PcSections.preferredDirections d).map dirP = Jsep.prefDirs (dirP d) := by
  cases d <;> rfl

/-! ### direction of a transceiver created for an unmatched remote section
    (named in Directions only; inline in Jsep / NegNeeded / PcSections, see §2b) -/

theorem directions_newDir (d : Directions.Dir) (k : Jsep.Kind) (m : Jsep.Mid) (p : Bool × Bool) :
    (Jsep.newFromRemote k m (dirD d) p).dir = dirD (Directions.newDir d) := by
  cases d <;> rfl

/-! ### the value `setRTPTransceiverCurrentDirection` stores (named in Directions only) -/

/-- `RTPTransceiverDirection.Revers` of NegNeeded is the `weOffer` switch of `curDirOf` -/
theorem negneeded_revers (d : NegNeeded.Dir) (hs : Bool) :
    ∀ d', dirD d' = dirN d → dirD (Directions.curDirOf true d' hs) = dirN d.revers := by
  intro d' h; cases d <;> cases d' <;> first | rfl | cases h

/-! ### `setSendingTrack` direction switches -/

theorem offersdp_dirAfterAttach (d : OfferSdp.Dir) (t : Jsep.Tr) :
    ({ t with dir := dirO d }.attachTrack).dir = dirO (OfferSdp.dirAfterAttach d) := by
  cases d <;> rfl

end Dirs

/-! ## 2a. transceivers: `Directions.Tr` and `NegNeeded.Tr` as views of `Jsep.Tr` -/

section Trs
open Jsep (Dir Kind)

/-- a C08 transceiver seen as a C06 one (the ghost flag `stopped` is dropped; no codec preferences) -/
def trD (t : Directions.Tr) : Jsep.Tr :=
  { kind := kindD t.kind, mid := t.mid.map .num, dir := dirD t.dir, curDir := t.cur.map dirD,
    curRemoteDir := t.curRemote.map dirD, hasSender := t.sender }

/-- a C04 transceiver seen as a C06 one (the sender's identity, track and flags are dropped) -/
def trN (t : NegNeeded.Tr) : Jsep.Tr :=
  { kind := kindN t.kind, mid := t.mid.map .num, dir := dirN t.dir, curDir := t.curDir.map dirN,
    curRemoteDir := t.curRemoteDir.map dirN, hasSender := t.sender.isSome }

/-! ### Stop -/
theorem directions_stop (t : Directions.Tr) : trD t.stop = (trD t).stop := rfl
theorem negneeded_stop (t : NegNeeded.Tr) : trN t.stop = (trN t).stop := by
  simp [trN, NegNeeded.Tr.stop, Jsep.Tr.stop, dirN]

/-! ### setSendingTrack -/
theorem directions_attachTrack (t : Directions.Tr) : trD t.attachTrack = (trD t).attachTrack := by
  cases t with | mk k d c cr s st m => cases d <;> rfl
theorem negneeded_attach (t : NegNeeded.Tr) (s : NegNeeded.Sender) : trN (t.attach s) = (trN t).attachTrack := by
  cases t with | mk k m d c cr sd => cases d <;> rfl
theorem directions_detachTrack (t : Directions.Tr) :
    (trD t.detachTrack.1, t.detachTrack.2) = (trD t).detachTrack := by
  cases t with | mk k d c cr s st m => cases d <;> rfl

/-! ### isSendAllowed -/
theorem directions_isSendAllowed (t : Directions.Tr) (k : Directions.Kind) :
    t.isSendAllowed k = (trD t).isSendAllowed (kindD k) := by
  cases t with | mk tk d c cr s st m =>
  cases tk <;> cases k <;> cases s <;>
    rcases c with _ | (_ | _ | _ | _) <;> rcases cr with _ | (_ | _ | _ | _) <;> rfl

theorem negneeded_isSendAllowed (t : NegNeeded.Tr) (k : NegNeeded.Kind) :
    NegNeeded.isSendAllowed t k = (trN t).isSendAllowed (kindN k) := by
  cases t with | mk tk m d c cr s =>
  cases tk <;> cases k <;> rcases s with _ | s <;>
    rcases c with _ | (_ | _ | _ | _) <;> rcases cr with _ | (_ | _ | _ | _) <;> rfl

/-- C12 never has current directions (no answer is ever applied), so its `findReusable` test is the reduced
    `isSendAllowed` -/
theorem offersdp_findReusable_test (t : Jsep.Tr) (k : Kind) (h1 : t.curDir = none) (h2 : t.curRemoteDir = none) :
    t.isSendAllowed k = (decide (t.kind = k) && !t.hasSender) := by
  simp [Jsep.Tr.isSendAllowed, h1, h2]

/-! ### AddTrack -/
theorem directions_addTrack (st : Jsep.St) (k : Directions.Kind) (ts : List Directions.Tr) :
    (Jsep.addTrack { st with trs := ts.map trD } (kindD k)).trs = (Directions.addTrackTo k ts).map trD := by
  have key : ∀ ts : List Directions.Tr,
      Jsep.updWhere (·.isSendAllowed (kindD k)) Jsep.Tr.attachTrack (ts.map trD) =
        if ts.any (·.isSendAllowed k) then some ((Directions.addTrackTo k ts).map trD) else none := by
    intro ts
    induction ts with
    | nil => rfl
    | cons t rest ih =>
      simp only [List.map_cons, Jsep.updWhere, Directions.addTrackTo, List.any_cons, ← directions_isSendAllowed]
      by_cases h : t.isSendAllowed k = true
      · simp [h, directions_attachTrack]
      · have h' : t.isSendAllowed k = false := by simpa using h
        simp only [h', Bool.false_eq_true, if_false, Bool.false_or, ih]
        cases rest.any (·.isSendAllowed k) <;> simp
  have tail : ∀ ts : List Directions.Tr, ts.any (·.isSendAllowed k) = false →
      Directions.addTrackTo k ts = ts ++ [{ kind := k, dir := .sendrecv, sender := true }] := by
    intro ts
    induction ts with
    | nil => intro _; rfl
    | cons t rest ih =>
      intro h
      simp only [List.any_cons, Bool.or_eq_false_iff] at h
      simp [Directions.addTrackTo, h.1, ih h.2]
  unfold Jsep.addTrack
  simp only [key]
  cases h : ts.any (·.isSendAllowed k)
  · simp only [Bool.false_eq_true, if_false, tail ts h, List.map_append, List.map_cons, List.map_nil]
    cases k <;> rfl
  · simp

theorem negneeded_attachFirst (k : NegNeeded.Kind) (s : NegNeeded.Sender) (ts : List NegNeeded.Tr) :
    Jsep.updWhere (·.isSendAllowed (kindN k)) Jsep.Tr.attachTrack (ts.map trN) =
      (NegNeeded.attachFirst k s ts).map (·.map trN) := by
  induction ts with
  | nil => rfl
  | cons t rest ih =>
    simp only [List.map_cons, Jsep.updWhere, NegNeeded.attachFirst, ← negneeded_isSendAllowed]
    by_cases h : NegNeeded.isSendAllowed t k = true
    · simp [h, negneeded_attach]
    · simp only [h, ih]
      cases NegNeeded.attachFirst k s rest <;> simp

/-- `AddTrack`: the transceiver list after C04's copy is the one after C06's copy -/
theorem negneeded_addTrack (st : Jsep.St) (pc : NegNeeded.PC) (k : NegNeeded.Kind) (trk : Nat) (hc : pc.closed = false) :
    (Jsep.addTrack { st with trs := pc.trs.map trN } (kindN k)).trs = (NegNeeded.addTrack pc k trk).1.trs.map trN := by
  unfold Jsep.addTrack NegNeeded.addTrack
  simp only [hc, Bool.false_eq_true, if_false]
  rw [negneeded_attachFirst k { id := pc.nextId, track := some trk }]
  cases NegNeeded.attachFirst k { id := pc.nextId, track := some trk } pc.trs with
  | some trs => simp [NegNeeded.onNN]
  | none =>
    simp only [Option.map_none, NegNeeded.addTransceiverRaw, NegNeeded.onNN, List.map_append, List.map_cons, List.map_nil]
    cases k <;> rfl

/-! ### AddTransceiverFromKind -/
theorem directions_addTransceiver (adj nar : Directions.Dir → Directions.Dir → Directions.Dir)
    (st : Jsep.St) (s : Directions.Pc) (k : Directions.Kind) (d : Directions.Dir)
    (hcodecs : st.hasCodecs (kindD k) = true) :
    (Jsep.addTransceiver { st with trs := s.trs.map trD } (kindD k) (dirD d)).1.trs =
      (Directions.stepWith adj nar s (.addTransceiver k d)).1.trs.map trD := by
  have hc : ({ st with trs := s.trs.map trD } : Jsep.St).hasCodecs (kindD k) = true := by
    cases k <;> exact hcodecs
  cases d <;> simp [Jsep.addTransceiver, Directions.stepWith, dirD, hc, trD]

theorem negneeded_addTransceiver (st : Jsep.St) (pc : NegNeeded.PC) (k : NegNeeded.Kind) (d : NegNeeded.Dir)
    (hcl : pc.closed = false) (hcodecs : st.hasCodecs (kindN k) = true) :
    (Jsep.addTransceiver { st with trs := pc.trs.map trN } (kindN k) (dirN d)).1.trs =
      (NegNeeded.addTransceiver pc k d).1.trs.map trN := by
  have hc : ({ st with trs := pc.trs.map trN } : Jsep.St).hasCodecs (kindN k) = true := by
    cases k <;> exact hcodecs
  cases d <;>
    simp [Jsep.addTransceiver, NegNeeded.addTransceiver, NegNeeded.addTransceiverRaw, NegNeeded.onNN, dirN, hc, hcl, trN]

/-! ### RemoveTrack -/
theorem negneeded_detach (sid : Nat) (ts : List NegNeeded.Tr) (ts' : List NegNeeded.Tr) (ok : Bool)
    (h : NegNeeded.detach sid ts = some (ts', ok)) :
    ∃ i t, ts[i]? = some t ∧ (t.sender.map (·.id)) = some sid ∧
      ts'.map trN = Jsep.modifyNth (fun x => x.detachTrack.1) i (ts.map trN) ∧ ok = (trN t).detachTrack.2 := by
  induction ts generalizing ts' ok with
  | nil => cases h
  | cons t rest ih =>
    unfold NegNeeded.detach at h
    split at h
    · rename_i hs
      refine ⟨0, t, rfl, by simpa using hs, ?_⟩
      cases t with | mk k m d c cr sd =>
      cases d <;> simp only at h <;> cases h <;> exact ⟨rfl, rfl⟩
    · cases hd : NegNeeded.detach sid rest with
      | none => rw [hd] at h; cases h
      | some r =>
        rw [hd] at h
        obtain ⟨r1, r2⟩ := r
        simp only [Option.map_some, Option.some.injEq, Prod.mk.injEq] at h
        obtain ⟨rfl, rfl⟩ := h
        obtain ⟨i, t', h1, h2, h3, h4⟩ := ih r1 r2 hd
        exact ⟨i + 1, t', by simpa using h1, h2, by simp [Jsep.modifyNth, h3], h4⟩

end Trs

/-! ## 2b. the m-section loops: `Directions` (C08) against `Jsep` (C06/C07/C09), in general

  Both keep the transceivers of one pass in a flagged list; Directions flags "still in localTransceivers",
  Jsep flags "already plucked". -/

section Loops
open Jsep (Dir Kind)

def workD (w : Directions.Work) : List (Jsep.Tr × Bool) := w.map (fun p => (trD p.1, !p.2))

/-- a C08 m-section as a C06 one: audio/video, numeric mid, ICE/DTLS attributes present, no codec the engine
    cares about (so a transceiver created for it has no codec preferences — C08 has no codecs) -/
def secD (s : Directions.Sec) : Jsep.Sec :=
  { media := (kindD s.kind).name, mid := some (.num s.mid), port0 := false, dirs := (s.dir.map dirD).toList,
    ufrag := true, pwd := true, setup := some .actpass, fp := true, codecOK := false, pcmu := false }

theorem secD_media (s : Directions.Sec) :
    ((secD s).media = Jsep.mediaApplication) = False ∧ Jsep.kindOf (secD s).media = some (kindD s.kind) := by
  cases s with | mk m k d =>
  cases k
  · show (("audio" : String) = Jsep.mediaApplication) = False ∧ Jsep.kindOf "audio" = some .audio
    exact ⟨eq_false (by decide), by decide +kernel⟩
  · show (("video" : String) = Jsep.mediaApplication) = False ∧ Jsep.kindOf "video" = some .video
    exact ⟨eq_false (by decide), by decide +kernel⟩

theorem secD_peerDir (s : Directions.Sec) : (secD s).peerDir = s.dir.map dirD := by
  cases s with | mk m k d => cases d <;> rfl

theorem secD_offeredDir (s : Directions.Sec) : (secD s).offeredDir = dirD (Directions.effDir s.dir) := by
  cases s with | mk m k d => cases d <;> rfl

/-- plucking from the flagged list: the two representations correspond -/
theorem pluck_updFirst (p : Jsep.Tr → Bool) (f : Jsep.Tr → Jsep.Tr) (p' : Directions.Tr → Bool)
    (f' : Directions.Tr → Directions.Tr) (hp : ∀ t, p (trD t) = p' t) (hf : ∀ t, p' t = true → f (trD t) = trD (f' t)) :
    ∀ w : Directions.Work, Jsep.updFirst p f (workD w) = (Directions.pluck p' f' w).map (fun r => workD r.2) := by
  intro w
  induction w with
  | nil => rfl
  | cons x rest ih =>
    obtain ⟨t, av⟩ := x
    simp only [workD, List.map_cons, Jsep.updFirst, Directions.pluck, Bool.not_not, hp]
    by_cases h : (av && p' t) = true
    · simp only [h, if_true, Option.map_some]
      simp only [Bool.and_eq_true] at h
      simp [hf t h.2]
    · simp only [h]
      have ih' := ih
      simp only [workD] at ih'
      rw [ih']
      cases Directions.pluck p' f' rest <;> rfl

theorem updByMid_eq (m : Jsep.Mid) (f : Jsep.Tr → Jsep.Tr) (w : List (Jsep.Tr × Bool)) :
    Jsep.updByMid m f w = Jsep.updFirst (fun t => t.mid = some m) f w := by
  induction w with
  | nil => rfl
  | cons x rest ih =>
    obtain ⟨t, u⟩ := x
    simp only [Jsep.updByMid, Jsep.updFirst, ih]

theorem hasMid_trD (m : Nat) (t : Directions.Tr) :
    decide ((trD t).mid = some (Jsep.Mid.num m)) = Directions.hasMid m t := by
  cases t with | mk k d c cr s st mid =>
  cases mid with
  | none => simp [trD, Directions.hasMid]
  | some n =>
    simp only [trD, Directions.hasMid, Option.map_some, Option.some.injEq, Jsep.Mid.num.injEq]
    cases h : (n == m) <;> simp_all

theorem applyByMid_trD (m : Nat) (d : Directions.Dir) (t : Directions.Tr) (h : Directions.hasMid m t = true) :
    Jsep.onFoundByMid (.num m) (dirD d) (trD t) = trD (Directions.applyByMid Directions.adjust d t) := by
  cases t with | mk k td c cr s st mid =>
  cases mid with
  | none => simp [Directions.hasMid] at h
  | some n => cases d <;> cases td <;> rfl

theorem applySatisfied_trD (m : Nat) (d : Directions.Dir) (t : Directions.Tr) (h : t.mid = none) :
    Jsep.onSatisfied (.num m) (dirD d) (trD t) = trD (Directions.applySatisfied Directions.adjust m d t) := by
  cases t with | mk k td c cr s st mid =>
  simp only at h; subst h
  cases d <;> cases td <;> rfl

theorem satisfy_pred_trD (k : Directions.Kind) (pd : Directions.Dir) (t : Directions.Tr) :
    (decide ((trD t).mid = none) && decide ((trD t).kind = kindD k) && decide ((trD t).dir = dirD pd)) =
      (t.mid.isNone && t.kind == k && t.dir == pd) := by
  cases t with | mk tk td c cr s st mid =>
  cases mid <;> cases tk <;> cases k <;> cases td <;> cases pd <;> rfl

theorem satisfy_workD (k : Directions.Kind) (m : Nat) (d : Directions.Dir) (w : Directions.Work) :
    ∀ pds : List Directions.Dir,
      Jsep.firstSome (fun pd => Jsep.updFirst (fun t => t.mid = none && t.kind = kindD k && t.dir = pd)
          (Jsep.onSatisfied (.num m) (dirD d)) (workD w)) (pds.map dirD) =
        (Directions.satisfy Directions.adjust k m d pds w).map workD := by
  intro pds
  induction pds with
  | nil => rfl
  | cons pd rest ih =>
    simp only [List.map_cons, Jsep.firstSome, Directions.satisfy]
    rw [pluck_updFirst _ _ (fun t => t.mid.isNone && t.kind == k && t.dir == pd)
      (Directions.applySatisfied Directions.adjust m d) (fun t => satisfy_pred_trD k pd t)
      (fun t ht => applySatisfied_trD m d t (by
        simp only [Bool.and_eq_true] at ht
        cases hm : t.mid with
        | none => rfl
        | some n => rw [hm] at ht; simp at ht))]
    cases Directions.pluck _ _ w with
    | none => simpa using ih
    | some r => rfl

theorem newFromRemote_trD (m : Nat) (k : Directions.Kind) (d : Directions.Dir) :
    Jsep.newFromRemote (kindD k) (.num m) (dirD d) (false, false) = trD (Directions.newFromRemote m k d) := by
  cases d <;> rfl

/-- **one iteration of the m-section loop of SetRemoteDescription(offer)**: C06's copy on the embedded
    section and working list = C08's copy, for every section and every working list -/
theorem directions_srdSection (st : Jsep.St) (w : Directions.Work) (s : Directions.Sec) :
    Jsep.remoteSecStep st (secD s) (workD w) = .ok (workD (Directions.srdSection Directions.adjust w s)) := by
  obtain ⟨hm1, hm2⟩ := secD_media s
  unfold Jsep.remoteSecStep Directions.srdSection
  have hmid : (secD s).mid = some (Jsep.Mid.num s.mid) := rfl
  simp only [hmid, hm1, hm2, if_false, secD_offeredDir]
  rw [pluck_updFirst _ _ (Directions.hasMid s.mid) (Directions.applyByMid Directions.adjust (Directions.effDir s.dir))
    (fun t => hasMid_trD s.mid t) (fun t ht => applyByMid_trD s.mid _ t ht)]
  cases Directions.pluck (Directions.hasMid s.mid) _ w with
  | some r => rfl
  | none =>
    simp only [Option.map_none]
    unfold Jsep.satisfyUpd
    rw [← directions_preferred, satisfy_workD]
    cases Directions.satisfy Directions.adjust s.kind s.mid (Directions.effDir s.dir) _ w with
    | some w' => rfl
    | none =>
      simp only [Option.map_none]
      have : (secD s).codecOK = false := rfl
      have hp : (secD s).pcmu = false := rfl
      simp only [this, hp, Bool.false_and, newFromRemote_trD]
      simp [workD]

/-- **the whole loop** -/
theorem directions_srdLoop (st : Jsep.St) (secs : List Directions.Sec) : ∀ w : Directions.Work,
    Jsep.remoteLoop st (secs.map secD) (workD w) = (workD (Directions.srdLoop Directions.adjust w secs), true) := by
  induction secs with
  | nil => intro w; rfl
  | cons s rest ih =>
    intro w
    simp only [List.map_cons, Jsep.remoteLoop, directions_srdSection, Directions.srdLoop, List.foldl_cons]
    exact ih _

theorem workD_ofList (ts : List Directions.Tr) : workD (Directions.Work.ofList ts) = (ts.map trD).map (fun t => (t, false)) := by
  simp [workD, Directions.Work.ofList, List.map_map, Function.comp_def]

theorem workD_toList (w : Directions.Work) : (workD w).map (·.1) = w.toList.map trD := by
  simp [workD, Directions.Work.toList, List.map_map, Function.comp_def]

/-- the transceivers after SetRemoteDescription(offer), as `Jsep.remoteTrs` computes them for a Unified-Plan
    connection, are those of `Directions`' `remoteOffer` step -/
theorem directions_remoteTrs (st : Jsep.St) (ts : List Directions.Tr) (secs : List Directions.Sec)
    (bundle : Option (List Jsep.Mid)) (fp : Bool) (hsem : st.cfg.sem = .unified) :
    Jsep.remoteTrs { st with trs := ts.map trD } { typ := .offer, bundle := bundle, sessFp := fp, secs := secs.map secD } =
      ((Directions.srdLoop Directions.adjust (Directions.Work.ofList ts) secs).toList.map trD, true) := by
  have := directions_srdLoop { st with trs := ts.map trD } secs (Directions.Work.ofList ts)
  rw [workD_ofList] at this
  unfold Jsep.remoteTrs
  have hc : ((Jsep.SdpType.offer != Jsep.SdpType.answer) &&
      !(st.cfg.sem != Jsep.Sem.unified && Jsep.possiblyPlanB
        { typ := .offer, bundle := bundle, sessFp := fp, secs := secs.map secD })) = true := by
    rw [hsem]; rfl
  simp only [hc, if_true]
  rw [this, workD_toList]

/-! ### setRTPTransceiverCurrentDirection -/

theorem setCur_trD (weOffer : Bool) (s : Directions.Sec) (t : Directions.Tr) :
    (match (secD s).peerDir with
      | none => trD t
      | some d =>
        let d := if weOffer then (match d with | .sendonly => Dir.recvonly | .recvonly => Dir.sendonly | x => x) else d
        let d := if !weOffer && d = .sendonly && !(trD t).hasSender then Dir.inactive else d
        { trD t with curDir := some d }) = trD (Directions.setCur weOffer s.dir t) := by
  rw [secD_peerDir]
  cases t with | mk k td c cr sd st mid =>
  cases s with | mk m sk d =>
  cases d with
  | none => rfl
  | some d => cases weOffer <;> cases d <;> cases sd <;> rfl

/-- **`setRTPTransceiverCurrentDirection`**: C06's loop = C08's loop (both stop at the first section without a
    transceiver; a section without direction attribute consumes its transceiver and changes nothing) -/
theorem directions_curDirLoop (weOffer : Bool) (secs : List Directions.Sec) : ∀ w : Directions.Work,
    Jsep.curDirLoop weOffer (secs.map secD) (workD w) = workD (Directions.curDirLoop weOffer w secs) := by
  induction secs with
  | nil => intro w; rfl
  | cons s rest ih =>
    intro w
    obtain ⟨hm1, _⟩ := secD_media s
    have hmid : (secD s).mid = some (Jsep.Mid.num s.mid) := rfl
    simp only [List.map_cons, Jsep.curDirLoop, Directions.curDirLoop, hmid, hm1, if_false, updByMid_eq]
    rw [pluck_updFirst _ _ (Directions.hasMid s.mid) (Directions.setCur weOffer s.dir)
      (fun t => hasMid_trD s.mid t) (fun t _ => setCur_trD weOffer s t)]
    cases Directions.pluck (Directions.hasMid s.mid) _ w with
    | none => rfl
    | some r => exact ih _

theorem directions_setCurrentDirections (weOffer : Bool) (ts : List Directions.Tr) (secs : List Directions.Sec)
    (bundle : Option (List Jsep.Mid)) (fp : Bool) (ty : Jsep.SdpType) :
    Jsep.setCurrentDirections { typ := ty, bundle := bundle, sessFp := fp, secs := secs.map secD } weOffer (ts.map trD) =
      (Directions.curDirLoop weOffer (Directions.Work.ofList ts) secs).toList.map trD := by
  have := directions_curDirLoop weOffer secs (Directions.Work.ofList ts)
  rw [workD_ofList] at this
  unfold Jsep.setCurrentDirections
  simp only []
  rw [this, workD_toList]

/-! ### CreateAnswer: the narrowing of the matched transceivers -/

theorem narrowTr_trD (o : Directions.Dir) (t : Directions.Tr) :
    Jsep.Tr.narrow true (dirD o) (trD t) = trD (Directions.narrowTr (some Directions.narrow) o t) := by
  cases t with | mk k td c cr sd st mid => cases o <;> cases td <;> rfl

/-- **the state change CreateAnswer makes**: C06's `narrowLoop` = the working list C08's `matchedLoop` leaves -/
theorem directions_narrowLoop (secs : List Directions.Sec) : ∀ w : Directions.Work,
    Jsep.narrowLoop (secs.map secD) (workD w) =
      workD (Directions.matchedLoop (some Directions.narrow) w secs).2 := by
  induction secs with
  | nil => intro w; rfl
  | cons s rest ih =>
    intro w
    obtain ⟨hm1, hm2⟩ := secD_media s
    have hmid : (secD s).mid = some (Jsep.Mid.num s.mid) := rfl
    simp only [List.map_cons, Jsep.narrowLoop, Directions.matchedLoop, hmid, hm1, hm2, if_false, secD_offeredDir]
    rw [pluck_updFirst _ _ (Directions.hasMid s.mid)
      (Directions.narrowTr (some Directions.narrow) (Directions.effDir s.dir))
      (fun t => hasMid_trD s.mid t) (fun t _ => narrowTr_trD _ t)]
    cases Directions.pluck (Directions.hasMid s.mid) _ w with
    | none => rfl
    | some r => exact ih _

end Loops

/-! ## 3. mid allocation

  Hub: `Jsep` (Go `int` arithmetic with wrap-around, `strconv.Itoa`/`Atoi`).  The other models count in `Nat`
  (Directions, NegNeeded: `next` = greaterMid + 1) or unbounded `Int` (OfferSdp); they agree with the hub as
  long as `greaterMid++` does not wrap, i.e. below 2^63 — stated as an explicit hypothesis. -/

section Mids
open Jsep (Mid)

/-! ### `dataMediaSectionMid` (three copies) -/

/-- a search that ended on a free number does not depend on the fuel left -/
theorem firstFree_mono (ids : List Mid) : ∀ (f f' n : Nat), f ≤ f' →
    Mid.num (Jsep.firstFree ids f n) ∉ ids → Jsep.firstFree ids f' n = Jsep.firstFree ids f n := by
  intro f
  induction f with
  | zero =>
    intro f' n _ h
    simp only [Jsep.firstFree] at h ⊢
    cases f' with
    | zero => rfl
    | succ f'' =>
      have hc : ¬ (ids.contains (Mid.num n) = true) := by simpa using h
      unfold Jsep.firstFree
      rw [if_neg hc]
  | succ f ih =>
    intro f' n hle h
    cases f' with
    | zero => omega
    | succ f'' =>
      unfold Jsep.firstFree at h ⊢
      by_cases hc : ids.contains (Mid.num n) = true
      · rw [if_pos hc] at h
        rw [if_pos hc, if_pos hc]
        exact ih f'' (n + 1) (by omega) h
      · rw [if_neg hc, if_neg hc]

/-- with at least `len(ids)` fuel the bounded search is the unbounded Go loop -/
theorem firstFree_enough (ids : List Mid) (f n : Nat) (h : ids.length ≤ f) :
    Jsep.firstFree ids f n = Jsep.firstFree ids ids.length n :=
  firstFree_mono ids ids.length f n h (Jsep.firstFree_fresh ids n)

theorem firstFree_range (ids : List Mid) : ∀ (f n : Nat),
    Jsep.firstFree ids f n = ((List.range' n f).find? (fun c => !ids.contains (Mid.num c))).getD (n + f) := by
  intro f
  induction f with
  | zero => intro n; rfl
  | succ f ih =>
    intro n
    unfold Jsep.firstFree
    rw [List.range'_succ]
    by_cases hc : ids.contains (Mid.num n) = true
    · rw [if_pos hc, List.find?_cons_of_neg (by simp only [hc, Bool.not_true]; exact Bool.false_ne_true), ih (n + 1)]
      congr 1; omega
    · have hc' : ids.contains (Mid.num n) = false := by
        cases h : ids.contains (Mid.num n)
        · rfl
        · exact absurd h hc
      rw [if_neg hc, List.find?_cons_of_pos (by simp only [hc', Bool.not_false])]
      rfl

def midsOfN (secs : List NegNeeded.Sec) : List Mid := secs.map (fun s => Mid.num s.mid)

theorem midsOfN_contains (c : Nat) (secs : List NegNeeded.Sec) :
    secs.any (fun s => s.mid == c) = (midsOfN secs).contains (Mid.num c) := by
  simp only [midsOfN]
  induction secs with
  | nil => rfl
  | cons s rest ih =>
    simp only [List.any_cons, List.map_cons, List.contains_cons]
    rw [ih]
    congr 1
    apply Bool.eq_iff_iff.2
    simp only [beq_iff_eq, Mid.num.injEq]
    exact eq_comm

/-- **`NegNeeded.dataMid` = `Jsep`'s `dataMediaSectionMid`** on the same section ids, for every section list -/
theorem negneeded_dataMid (secs : List NegNeeded.Sec) :
    NegNeeded.dataMid secs = Jsep.firstFree (midsOfN secs) secs.length secs.length := by
  have hl : (midsOfN secs).length = secs.length := by simp [midsOfN]
  have h := firstFree_enough (midsOfN secs) (secs.length + 1) secs.length (by omega)
  rw [hl] at h
  rw [← h, firstFree_range]
  unfold NegNeeded.dataMid
  have hr : (List.range (secs.length + 1)).map (· + secs.length) = List.range' secs.length (secs.length + 1) := by
    rw [List.range'_eq_map_range]
    apply List.map_congr_left
    intro a _; omega
  rw [hr]
  have hp : (fun c => !secs.any (fun s => s.mid == c)) = (fun c => !(midsOfN secs).contains (Mid.num c)) := by
    funext c
    rw [midsOfN_contains]
  rw [hp]
  congr 1; omega

/-- C12's ids: a transceiver without mid shows up as the id "" (`Mid.other ""`), numbers through `Itoa` -/
def midO : Option Int → Mid
  | none => .other ""
  | some i => Jsep.itoa i

theorem midO_num (ids : List (Option Int)) (c : Nat) :
    ids.contains (some (c : Int)) = (ids.map midO).contains (Mid.num c) := by
  induction ids with
  | nil => rfl
  | cons x rest ih =>
    simp only [List.contains_cons, List.map_cons, ih]
    congr 1
    cases x with
    | none => simp [midO]
    | some i =>
      simp only [midO, Jsep.itoa]
      by_cases hi : 0 ≤ i
      · simp only [hi, if_true]
        apply Bool.eq_iff_iff.2
        simp only [beq_iff_eq, Option.some.injEq, Mid.num.injEq]
        omega
      · simp only [hi, if_false]
        apply Bool.eq_iff_iff.2
        simp only [beq_iff_eq, Option.some.injEq]
        constructor
        · intro h; omega
        · intro h; cases h

theorem offersdp_dataMidFrom (ids : List (Option Int)) : ∀ (f n : Nat),
    OfferSdp.dataMidFrom f (n : Int) ids = (Jsep.firstFree (ids.map midO) f n : Int) := by
  intro f
  induction f with
  | zero => intro n; rfl
  | succ f ih =>
    intro n
    unfold OfferSdp.dataMidFrom Jsep.firstFree
    rw [midO_num]
    by_cases hc : (ids.map midO).contains (Mid.num n) = true
    · simp only [hc, if_true]
      have := ih (n + 1)
      simpa using this
    · simp only [hc]
      rfl

/-- **`OfferSdp.dataMid` = `Jsep`'s `dataMediaSectionMid`** on the same ids, for every id list -/
theorem offersdp_dataMid (ids : List (Option Int)) :
    OfferSdp.dataMid ids = (Jsep.firstFree (ids.map midO) ids.length ids.length : Int) := by
  unfold OfferSdp.dataMid
  rw [offersdp_dataMidFrom]
  have := firstFree_enough (ids.map midO) (ids.length + 1) ids.length (by simp)
  simp only [List.length_map] at this
  rw [this]

/-- the ids `Jsep.generateUnmatched` numbers against are the ids C12 uses (`Mid.other ""` for "no mid") -/
theorem jsep_unmatched_ids (trs : List Jsep.Tr) :
    (trs.map fun t => Jsep.MSec.tr (t.mid.getD (.other "")) t).map Jsep.MSec.id = trs.map (fun t => t.mid.getD (.other "")) := by
  simp [List.map_map, Function.comp_def, Jsep.MSec.id]

/-! ### the numbering loop of CreateOffer (four copies) -/

/-- the loop on the mids alone -/
def allocMidsOnly (g : Int) : List (Option Mid) → Int × List (Option Mid)
  | [] => (g, [])
  | some m :: rest => ((allocMidsOnly g rest).1, some m :: (allocMidsOnly g rest).2)
  | none :: rest =>
    ((allocMidsOnly (Jsep.wrapInc g) rest).1, some (Jsep.itoa (Jsep.wrapInc g)) :: (allocMidsOnly (Jsep.wrapInc g) rest).2)

/-- `Jsep.allocMids` touches nothing but the mids, and on the mids it is `allocMidsOnly` -/
theorem jsep_allocMids (g : Int) (ts : List Jsep.Tr) :
    (Jsep.allocMids g ts).1 = (allocMidsOnly g (ts.map (·.mid))).1 ∧
    (Jsep.allocMids g ts).2.map (·.mid) = (allocMidsOnly g (ts.map (·.mid))).2 ∧
    (Jsep.allocMids g ts).2.map (fun t => { t with mid := none }) = ts.map (fun t => { t with mid := none }) := by
  induction ts generalizing g with
  | nil => exact ⟨rfl, rfl, rfl⟩
  | cons t rest ih =>
    cases hm : t.mid with
    | some m =>
      obtain ⟨h1, h2, h3⟩ := ih g
      simp only [Jsep.allocMids, hm, List.map_cons, allocMidsOnly]
      exact ⟨h1, by rw [h2], by rw [h3]⟩
    | none =>
      obtain ⟨h1, h2, h3⟩ := ih (Jsep.wrapInc g)
      simp only [Jsep.allocMids, hm, List.map_cons, allocMidsOnly]
      refine ⟨h1, by rw [h2], ?_⟩
      rw [h3]

/-- the loop in `Nat` (`next` = greaterMid + 1), as Directions and NegNeeded have it -/
def assignMidsOnly (next : Nat) : List (Option Nat) → Nat × List (Option Nat)
  | [] => (next, [])
  | some m :: rest => ((assignMidsOnly next rest).1, some m :: (assignMidsOnly next rest).2)
  | none :: rest => ((assignMidsOnly (next + 1) rest).1, some next :: (assignMidsOnly (next + 1) rest).2)

theorem directions_assignMids (next : Nat) (ts : List Directions.Tr) :
    (Directions.assignMids next ts).1 = (assignMidsOnly next (ts.map (·.mid))).1 ∧
    (Directions.assignMids next ts).2.map (·.mid) = (assignMidsOnly next (ts.map (·.mid))).2 ∧
    (Directions.assignMids next ts).2.map (fun t => { t with mid := none }) = ts.map (fun t => { t with mid := none }) := by
  induction ts generalizing next with
  | nil => exact ⟨rfl, rfl, rfl⟩
  | cons t rest ih =>
    cases hm : t.mid with
    | some m =>
      obtain ⟨h1, h2, h3⟩ := ih next
      simp only [Directions.assignMids, hm, List.map_cons, assignMidsOnly]
      exact ⟨h1, by rw [h2], by rw [h3]⟩
    | none =>
      obtain ⟨h1, h2, h3⟩ := ih (next + 1)
      simp only [Directions.assignMids, hm, List.map_cons, assignMidsOnly]
      refine ⟨h1, by rw [h2], ?_⟩
      rw [h3]

theorem negneeded_assignMids (next : Nat) (ts : List NegNeeded.Tr) :
    (NegNeeded.assignMids next ts).1 = (assignMidsOnly next (ts.map (·.mid))).1 ∧
    (NegNeeded.assignMids next ts).2.map (·.mid) = (assignMidsOnly next (ts.map (·.mid))).2 ∧
    (NegNeeded.assignMids next ts).2.map (fun t => { t with mid := none }) = ts.map (fun t => { t with mid := none }) := by
  induction ts generalizing next with
  | nil => exact ⟨rfl, rfl, rfl⟩
  | cons t rest ih =>
    cases hm : t.mid with
    | some m =>
      obtain ⟨h1, h2, h3⟩ := ih next
      simp only [NegNeeded.assignMids, hm, List.map_cons, assignMidsOnly]
      exact ⟨h1, by rw [h2], by rw [h3]⟩
    | none =>
      obtain ⟨h1, h2, h3⟩ := ih (next + 1)
      simp only [NegNeeded.assignMids, hm, List.map_cons, assignMidsOnly]
      refine ⟨h1, by rw [h2], ?_⟩
      rw [h3]

/-- **Directions' and NegNeeded's numbering loops are the same function** of (next, mids) -/
theorem directions_negneeded_assignMids (next : Nat) (td : List Directions.Tr) (tn : List NegNeeded.Tr)
    (h : td.map (·.mid) = tn.map (·.mid)) :
    (Directions.assignMids next td).1 = (NegNeeded.assignMids next tn).1 ∧
    (Directions.assignMids next td).2.map (·.mid) = (NegNeeded.assignMids next tn).2.map (·.mid) := by
  obtain ⟨a1, a2, _⟩ := directions_assignMids next td
  obtain ⟨b1, b2, _⟩ := negneeded_assignMids next tn
  rw [a1, a2, b1, b2, h]
  exact ⟨rfl, rfl⟩

/-- number of transceivers still to be numbered -/
def unnumbered : List (Option Nat) → Nat
  | [] => 0
  | none :: rest => unnumbered rest + 1
  | some _ :: rest => unnumbered rest

/-- **the `Nat` loop is the Go `int` loop** as long as the counter stays below 2^63 -/
theorem assignMidsOnly_alloc (next : Nat) (ms : List (Option Nat))
    (h : (next : Int) + unnumbered ms ≤ Jsep.maxInt64 + 1) :
    allocMidsOnly ((next : Int) - 1) (ms.map (·.map Mid.num)) =
      (((assignMidsOnly next ms).1 : Int) - 1, (assignMidsOnly next ms).2.map (·.map Mid.num)) := by
  induction ms generalizing next with
  | nil => rfl
  | cons m rest ih =>
    cases m with
    | some m =>
      have := ih next (by simpa [unnumbered] using h)
      simp only [List.map_cons, Option.map_some, allocMidsOnly, assignMidsOnly, this]
    | none =>
      simp only [unnumbered] at h
      have hw : Jsep.wrapInc ((next : Int) - 1) = (next : Int) := by
        unfold Jsep.wrapInc
        have : ¬ ((next : Int) - 1 = Jsep.maxInt64) := by
          have := Int.natCast_nonneg (unnumbered rest)
          omega
        simp only [this, if_false]; omega
      have := ih (next + 1) (by push_cast; omega)
      have e : ((next + 1 : Nat) : Int) - 1 = (next : Int) := by push_cast; omega
      rw [e] at this
      simp only [List.map_cons, Option.map_none, allocMidsOnly, assignMidsOnly, hw, this]
      have hi : Jsep.itoa (next : Int) = Mid.num next := by
        simp [Jsep.itoa]
      rw [hi]
      rfl

/-- C12's loop (`Int`, no wrap) on its own mid view -/
def numberMidsOnly (g : Int) : List (Option Int) → Int × List (Option Int)
  | [] => (g, [])
  | some m :: rest => ((numberMidsOnly g rest).1, some m :: (numberMidsOnly g rest).2)
  | none :: rest => ((numberMidsOnly (g + 1) rest).1, some (g + 1) :: (numberMidsOnly (g + 1) rest).2)

theorem offersdp_numberMids (g : Int) (ts : List OfferSdp.Transceiver) :
    (OfferSdp.numberMids ts g).2 = (numberMidsOnly g (ts.map (·.mid))).1 ∧
    (OfferSdp.numberMids ts g).1.map (·.mid) = (numberMidsOnly g (ts.map (·.mid))).2 := by
  induction ts generalizing g with
  | nil => exact ⟨rfl, rfl⟩
  | cons t rest ih =>
    cases hm : t.mid with
    | some m =>
      obtain ⟨h1, h2⟩ := ih g
      simp only [OfferSdp.numberMids, hm, List.map_cons, numberMidsOnly]
      exact ⟨h1, by rw [h2]⟩
    | none =>
      obtain ⟨h1, h2⟩ := ih (g + 1)
      simp only [OfferSdp.numberMids, hm, List.map_cons, numberMidsOnly]
      exact ⟨h1, by rw [h2]⟩

def unnumberedI : List (Option Int) → Nat
  | [] => 0
  | none :: rest => unnumberedI rest + 1
  | some _ :: rest => unnumberedI rest

/-- **C12's loop is the Go `int` loop** (mids through `Itoa`) as long as the counter stays below 2^63 -/
theorem numberMidsOnly_alloc (g : Int) (ms : List (Option Int))
    (h : g + unnumberedI ms ≤ Jsep.maxInt64) :
    allocMidsOnly g (ms.map (·.map Jsep.itoa)) =
      ((numberMidsOnly g ms).1, (numberMidsOnly g ms).2.map (·.map Jsep.itoa)) := by
  induction ms generalizing g with
  | nil => rfl
  | cons m rest ih =>
    cases m with
    | some m =>
      have := ih g (by simpa [unnumberedI] using h)
      simp only [List.map_cons, Option.map_some, allocMidsOnly, numberMidsOnly, this]
    | none =>
      simp only [unnumberedI] at h
      have hw : Jsep.wrapInc g = g + 1 := by
        unfold Jsep.wrapInc
        have : ¬ (g = Jsep.maxInt64) := by
          have := Int.natCast_nonneg (unnumberedI rest)
          push_cast at h; omega
        simp only [this, if_false]
      have := ih (g + 1) (by push_cast at h ⊢; omega)
      simp only [List.map_cons, Option.map_none, allocMidsOnly, numberMidsOnly, hw, this]
      rfl

end Mids

/-! ### `updateGreaterMid` scans (five copies) -/

section Scans
open Jsep (Mid)

/-- `updateGreaterMid` over a list of mids ("" = `none` is skipped) -/
def scanMidsOnly (g : Int) (ms : List (Option Mid)) : Int :=
  ms.foldl (fun g m => match m with | some m => Jsep.bump g m | none => g) g

theorem jsep_scanSecs (g : Int) (secs : List Jsep.Sec) : Jsep.scanSecs g secs = scanMidsOnly g (secs.map (·.mid)) := by
  induction secs generalizing g with
  | nil => rfl
  | cons s rest ih =>
    cases hm : s.mid <;> simp only [Jsep.scanSecs, hm, scanMidsOnly, List.map_cons, List.foldl_cons] <;> exact ih _

theorem jsep_scanTrs (g : Int) (ts : List Jsep.Tr) : Jsep.scanTrs g ts = scanMidsOnly g (ts.map (·.mid)) := by
  induction ts generalizing g with
  | nil => rfl
  | cons t rest ih =>
    cases hm : t.mid <;> simp only [Jsep.scanTrs, hm, scanMidsOnly, List.map_cons, List.foldl_cons] <;> exact ih _

theorem scanMidsOnly_append (g : Int) (a b : List (Option Mid)) :
    scanMidsOnly g (a ++ b) = scanMidsOnly (scanMidsOnly g a) b := by
  simp [scanMidsOnly, List.foldl_append]

def descMidsJ : Option Jsep.Desc → List (Option Mid)
  | some d => d.secs.map (·.mid)
  | none => []

/-- `Jsep.scanAll`: one scan over the mids of the four descriptions, then of the transceivers -/
theorem jsep_scanAll (st : Jsep.St) :
    Jsep.scanAll st = scanMidsOnly st.greaterMid
      (descMidsJ st.curRemote ++ descMidsJ st.pendRemote ++ descMidsJ st.curLocal ++ descMidsJ st.pendLocal ++
        st.trs.map (·.mid)) := by
  have hd : ∀ g d, Jsep.scanDesc g d = scanMidsOnly g (descMidsJ d) := by
    intro g d; cases d with
    | none => rfl
    | some d => exact jsep_scanSecs g d.secs
  simp only [Jsep.scanAll, hd, jsep_scanTrs, scanMidsOnly_append]

/-- the scan in `Nat` (`next` = greaterMid + 1) -/
def scanNat (next : Nat) (ms : List (Option Nat)) : Nat :=
  ms.foldl (fun n m => match m with | some m => max n (m + 1) | none => n) next

theorem scanNat_append (n : Nat) (a b : List (Option Nat)) : scanNat n (a ++ b) = scanNat (scanNat n a) b := by
  simp [scanNat, List.foldl_append]

theorem directions_scanMids (next : Nat) (secs : List Directions.Sec) :
    Directions.scanMids next secs = scanNat next (secs.map (fun s => some s.mid)) := by
  simp [Directions.scanMids, scanNat, List.foldl_map]

theorem directions_scanTrMids (next : Nat) (ts : List Directions.Tr) :
    Directions.scanTrMids next ts = scanNat next (ts.map (·.mid)) := by
  induction ts generalizing next with
  | nil => rfl
  | cons t rest ih =>
    cases hm : t.mid <;>
      simp only [Directions.scanTrMids, scanNat, List.map_cons, List.foldl_cons, hm] <;> exact ih _

theorem negneeded_bumpMids (next : Nat) (secs : List NegNeeded.Sec) :
    NegNeeded.bumpMids next secs = scanNat next (secs.map (fun s => some s.mid)) := by
  simp [NegNeeded.bumpMids, scanNat, List.foldl_map]

def descMidsN : Option NegNeeded.Desc → List (Option Nat)
  | some d => d.secs.map (fun s => some s.mid)
  | none => []

/-- `NegNeeded.bumpAll`: the same scan order as `Jsep.scanAll` -/
theorem negneeded_bumpAll (pc : NegNeeded.PC) :
    NegNeeded.bumpAll pc = scanNat pc.nextMid
      (descMidsN pc.curRemote ++ descMidsN pc.pendRemote ++ descMidsN pc.curLocal ++ descMidsN pc.pendLocal ++
        pc.trs.map (·.mid)) := by
  have ht : ∀ (f : Nat → NegNeeded.Tr → Nat),
      (∀ n t, f n t = (match t.mid with | some m => max n (m + 1) | none => n)) →
      ∀ (n : Nat) (ts : List NegNeeded.Tr), ts.foldl f n = scanNat n (ts.map (·.mid)) := by
    intro f hf n ts
    induction ts generalizing n with
    | nil => rfl
    | cons t rest ih =>
      simp only [List.foldl_cons, List.map_cons, scanNat, hf]
      cases hm : t.mid <;> exact ih _
  unfold NegNeeded.bumpAll
  simp only [List.foldl_cons, List.foldl_nil]
  cases pc.curRemote <;> cases pc.pendRemote <;> cases pc.curLocal <;> cases pc.pendLocal <;>
    simp only [negneeded_bumpMids, descMidsN, scanNat_append, List.nil_append, List.append_nil] <;>
    exact ht _ (fun n t => by cases t.mid <;> rfl) _ _

/-- the mids C08's `localOffer` scans: the two remote descriptions and the transceivers (the local
    descriptions are absorbed, see `scanNat_absorb`) -/
theorem directions_localOffer_scan (s : Directions.Pc) :
    Directions.scanTrMids (Directions.scanMids (Directions.scanMids s.nextMid (s.curRemote.getD [])) (s.pendRemote.getD [])) s.trs =
      scanNat s.nextMid (((s.curRemote.getD []).map (fun x => some x.mid)) ++ ((s.pendRemote.getD []).map (fun x => some x.mid)) ++
        s.trs.map (·.mid)) := by
  simp only [directions_scanMids, directions_scanTrMids, scanNat_append]

theorem scanNat_ge (n : Nat) (ms : List (Option Nat)) : n ≤ scanNat n ms := by
  induction ms generalizing n with
  | nil => exact Nat.le_refl _
  | cons m rest ih =>
    cases m with
    | none => exact ih n
    | some m => exact Nat.le_trans (Nat.le_max_left _ _) (ih _)

theorem scanNat_mem (n : Nat) (ms : List (Option Nat)) (m : Nat) (h : some m ∈ ms) : m + 1 ≤ scanNat n ms := by
  induction ms generalizing n with
  | nil => cases h
  | cons x rest ih =>
    rcases List.mem_cons.mp h with rfl | h'
    · exact Nat.le_trans (Nat.le_max_right _ _) (scanNat_ge _ rest)
    · cases x with
      | none => exact ih n h'
      | some x => exact ih _ h'

/-- scanning mids that are all below the counter already changes nothing — why C08 may leave out the local
    descriptions (their mids are mids of transceivers) where C04/C06 scan them -/
theorem scanNat_absorb (n : Nat) (ms : List (Option Nat)) (h : ∀ m, some m ∈ ms → m + 1 ≤ n) : scanNat n ms = n := by
  induction ms with
  | nil => rfl
  | cons x rest ih =>
    cases x with
    | none => exact ih (fun m hm => h m (by simp [hm]))
    | some x =>
      have hx := h x (by simp)
      have : max n (x + 1) = n := by omega
      simp only [scanNat, List.foldl_cons, this]
      exact ih (fun m hm => h m (by simp [hm]))

/-- **the `Nat` scan is the Go `int` scan** for mids below 2^63 -/
theorem scanNat_scanMidsOnly (next : Nat) (ms : List (Option Nat))
    (h : ∀ m, some m ∈ ms → (m : Int) ≤ Jsep.maxInt64) :
    scanMidsOnly ((next : Int) - 1) (ms.map (·.map Mid.num)) = ((scanNat next ms : Nat) : Int) - 1 := by
  induction ms generalizing next with
  | nil => rfl
  | cons x rest ih =>
    cases x with
    | none => exact ih next (fun m hm => h m (by simp [hm]))
    | some x =>
      have hx := h x (by simp)
      have hb : Jsep.bump ((next : Int) - 1) (Mid.num x) = ((max next (x + 1) : Nat) : Int) - 1 := by
        simp only [Jsep.bump, Jsep.Mid.atoi, hx, if_true]
        by_cases hgt : (x : Int) > (next : Int) - 1
        · simp only [hgt, if_true]
          have : max next (x + 1) = x + 1 := by omega
          rw [this]; push_cast; omega
        · simp only [hgt, if_false]
          have : max next (x + 1) = next := by omega
          rw [this]
      simp only [List.map_cons, Option.map_some, scanMidsOnly, List.foldl_cons, hb, scanNat]
      exact ih _ (fun m hm => h m (by simp [hm]))

/-- C12's `raiseAll` (every mid numeric and non-negative in its scope) -/
theorem offersdp_raiseAll (g : Int) (ms : List (Option Int))
    (h : ∀ m, some m ∈ ms → 0 ≤ m ∧ m ≤ Jsep.maxInt64) :
    OfferSdp.raiseAll g ms = scanMidsOnly g (ms.map (·.map Jsep.itoa)) := by
  induction ms generalizing g with
  | nil => rfl
  | cons x rest ih =>
    cases x with
    | none => exact ih g (fun m hm => h m (by simp [hm]))
    | some x =>
      obtain ⟨h0, h1⟩ := h x (by simp)
      have hb : Jsep.bump g (Jsep.itoa x) = OfferSdp.raiseMid g (some x) := by
        have hx : ((x.toNat : Nat) : Int) = x := Int.toNat_of_nonneg h0
        simp only [Jsep.itoa, h0, if_true, Jsep.bump, Jsep.Mid.atoi, hx, h1, OfferSdp.raiseMid]
      simp only [OfferSdp.raiseAll, List.map_cons, Option.map_some, scanMidsOnly, List.foldl_cons, hb]
      exact ih _ (fun m hm => h m (by simp [hm]))

end Scans

/-! ## 4. further shared pieces -/

section Misc
open Jsep (Dir Kind Mid)

/-! ### media name → kind (`NewRTPCodecType` / the switch of updateFromRemoteDescription): Jsep vs Codec/PcSections -/

def kindC : Codec.Kind → Option Kind
  | .audio => some .audio | .video => some .video | .other => none

theorem lower_toList (s : String) : s.toLower.toList = Codec.lower s.toList := by
  unfold String.toLower Codec.lower
  rw [String.toList_map]
  exact List.map_congr_left (fun c _ => Agreement.static_lowerChar c)

/-- **`Jsep.kindOf` (on `String`) = `Codec.kindOf` (on `List Char`, used by PcSections)** for every media name -/
theorem jsep_kindOf (s : String) : Jsep.kindOf s = kindC (Codec.kindOf s.toList) := by
  unfold Jsep.kindOf Codec.kindOf Codec.equalFold
  have ha : Codec.lower "audio".toList = "audio".toList := by decide
  have hv : Codec.lower "video".toList = "video".toList := by decide
  have e1 : (s.toLower = "audio") ↔ (Codec.lower s.toList == Codec.lower "audio".toList) = true := by
    rw [ha, ← lower_toList, beq_iff_eq, String.toList_inj]
  have e2 : (s.toLower = "video") ↔ (Codec.lower s.toList == Codec.lower "video".toList) = true := by
    rw [hv, ← lower_toList, beq_iff_eq, String.toList_inj]
  by_cases h1 : s.toLower = "audio"
  · simp only [h1, if_true, e1.mp h1]; rfl
  · have h1' : ¬ (Codec.lower s.toList == Codec.lower "audio".toList) = true := fun h => h1 (e1.mpr h)
    by_cases h2 : s.toLower = "video"
    · simp only [h1', h2, if_true, e2.mp h2]; rfl
    · have h2' : ¬ (Codec.lower s.toList == Codec.lower "video".toList) = true := fun h => h2 (e2.mpr h)
      simp only [h1, h1', h2, h2', if_false]; rfl

/-! ### DTLS role written into generated descriptions: Jsep's constants vs Roles (C13) -/

def setupOfConn : Roles.ConnRole → Option Jsep.Setup
  | .active => some .active | .passive => some .passive | .actpass => some .actpass
  | .holdconn => some .other | .zero => none

/-- `Jsep.offerDesc` passes `actpass`: that is `connectionRoleFromDtlsRole(defaultDtlsRoleOffer)` -/
theorem jsep_offer_role : setupOfConn Roles.offerConnectionRole = some Jsep.Setup.actpass := rfl

/-- `Jsep.createAnswer` passes `active`: that is what `CreateAnswer` computes in Jsep's scope (every media
    section of the offer says `actpass` or nothing, no answering role configured, no ICE-lite) -/
theorem jsep_answer_role (offer : Roles.Sections)
    (h : ∀ sec ∈ offer, ∀ v ∈ sec, v = Roles.SetupVal.actpass) :
    setupOfConn (Roles.answerConnectionRole .unknown (some offer) false false) = some Jsep.Setup.active := by
  have : Roles.dtlsRoleFromSections offer = .auto := by
    induction offer with
    | nil => rfl
    | cons sec rest ih =>
      cases sec with
      | nil => exact ih (fun s hs => h s (by simp [hs]))
      | cons v vs =>
        have := h (v :: vs) (by simp) v (by simp)
        subst this; rfl
  simp only [Roles.answerConnectionRole, Roles.dtlsRoleFromSDP, this]
  rfl

/-- … and with a configured answering role or an explicit role in the offer Jsep's constant would be wrong:
    those inputs are outside its scope (witnesses) -/
example : setupOfConn (Roles.answerConnectionRole .server (some [[.actpass]]) false false) = some .passive ∧
    setupOfConn (Roles.answerConnectionRole .unknown (some [[.active]]) false false) = some .passive ∧
    setupOfConn (Roles.answerConnectionRole .unknown (some [[.actpass]]) true false) = some .passive := by decide

/-! ### `getByMid` / `hasLocalDescriptionChanged`: NegNeeded vs Jsep -/

/-- a C04 m-section as a C06 one (application sections carry `a=sendrecv`, as `dataSec` says) -/
def secN (s : NegNeeded.Sec) : Jsep.Sec :=
  { media := if s.app then Jsep.mediaApplication else (kindN s.kind).name,
    mid := some (.num s.mid), port0 := false, dirs := [dirN s.dir],
    ufrag := true, pwd := true, setup := some .actpass, fp := true, codecOK := false, pcmu := false }

def descN (d : NegNeeded.Desc) : Jsep.Desc :=
  { typ := if d.offer then .offer else .answer, bundle := none, sessFp := true, secs := d.secs.map secN }

theorem negneeded_getByMid (m : Option Nat) (d : NegNeeded.Desc) :
    Jsep.getByMid (m.map Mid.num) (descN d) = (NegNeeded.getByMid m d).map secN := by
  cases m with
  | none => rfl
  | some m =>
    simp only [Option.map_some, Jsep.getByMid, NegNeeded.getByMid, descN, List.find?_map]
    congr 1
    apply Agreement.find?_congr_mem
    intro s _
    simp only [Function.comp, secN, Option.some.injEq, Mid.num.injEq]
    apply Bool.eq_iff_iff.2
    simp

/-- **`hasLocalDescriptionChanged`: C04's copy = C06's copy** -/
theorem negneeded_localChanged (trs : List NegNeeded.Tr) (d : NegNeeded.Desc) :
    NegNeeded.localChanged trs d = Jsep.hasLocalDescriptionChanged (trs.map trN) (descN d) := by
  unfold NegNeeded.localChanged Jsep.hasLocalDescriptionChanged
  rw [List.any_map]
  apply List.any_congr rfl
  intro t
  have hg := negneeded_getByMid t.mid d
  have hm : (trN t).mid = t.mid.map Mid.num := rfl
  simp only [Function.comp, hm, hg]
  cases NegNeeded.getByMid t.mid d with
  | none => rfl
  | some s =>
    simp only [Option.map_some, Jsep.Sec.peerDir, secN, List.head?_cons, trN]
    cases hs : s.dir <;> cases ht : t.dir <;> rfl

end Misc

/-! ## 2c. the m-section loop of SetRemoteDescription(offer): `NegNeeded` (C04) against `Jsep`, in general

  NegNeeded keeps the transceiver list itself and a list `used` of consumed positions (only the first `n`
  positions — the transceivers that existed when the loop started — can be matched); Jsep keeps a flagged
  list.  `flagsFrom` translates. -/

section LoopsN
open Jsep (Dir Kind Mid)

def flagsFrom (n : Nat) (used : List Nat) : Nat → List NegNeeded.Tr → List (Jsep.Tr × Bool)
  | _, [] => []
  | i, t :: ts => (trN t, used.contains i || decide (n ≤ i)) :: flagsFrom n used (i + 1) ts

/-- position of the first matchable transceiver satisfying `P`, counting from `i` -/
def searchFrom (n : Nat) (used : List Nat) (P : NegNeeded.Tr → Bool) : Nat → List NegNeeded.Tr → Option Nat
  | _, [] => none
  | i, t :: ts => if !(used.contains i || decide (n ≤ i)) && P t then some i else searchFrom n used P (i + 1) ts

theorem searchFrom_ge (n : Nat) (used : List Nat) (P : NegNeeded.Tr → Bool) :
    ∀ (ts : List NegNeeded.Tr) (i j : Nat), searchFrom n used P i ts = some j → i ≤ j := by
  intro ts
  induction ts with
  | nil => intro i j h; cases h
  | cons t rest ih =>
    intro i j h
    unfold searchFrom at h
    split at h
    · cases h; exact Nat.le_refl _
    · have := ih (i + 1) j h; omega

theorem flagsFrom_cons_used (n j : Nat) (used : List Nat) :
    ∀ (ts : List NegNeeded.Tr) (i : Nat), j < i → flagsFrom n (j :: used) i ts = flagsFrom n used i ts := by
  intro ts
  induction ts with
  | nil => intro i _; rfl
  | cons t rest ih =>
    intro i hji
    have hne : (i == j) = false := by simp; omega
    simp only [flagsFrom, List.contains_cons, hne, Bool.false_or]
    rw [ih (i + 1) (by omega)]

theorem flagsFrom_append (n : Nat) (used : List Nat) (t : NegNeeded.Tr) :
    ∀ (ts : List NegNeeded.Tr) (i : Nat),
      flagsFrom n used i (ts ++ [t]) =
        flagsFrom n used i ts ++ [(trN t, used.contains (i + ts.length) || decide (n ≤ i + ts.length))] := by
  intro ts
  induction ts with
  | nil => intro i; simp [flagsFrom]
  | cons x rest ih =>
    intro i
    simp only [List.cons_append, flagsFrom, ih, List.length_cons]
    have : i + 1 + rest.length = i + (rest.length + 1) := by omega
    rw [this]

/-- plucking: Jsep's flagged list against NegNeeded's position search -/
theorem updFirst_searchFrom (n : Nat) (used : List Nat) (p : Jsep.Tr → Bool) (f : Jsep.Tr → Jsep.Tr)
    (P : NegNeeded.Tr → Bool) (f' : NegNeeded.Tr → NegNeeded.Tr)
    (hp : ∀ t, p (trN t) = P t) (hf : ∀ t, f (trN t) = trN (f' t)) :
    ∀ (ts : List NegNeeded.Tr) (i : Nat),
      Jsep.updFirst p f (flagsFrom n used i ts) =
        (searchFrom n used P i ts).map (fun j => flagsFrom n (j :: used) i (ts.modify (j - i) f')) := by
  intro ts
  induction ts with
  | nil => intro i; rfl
  | cons t rest ih =>
    intro i
    simp only [flagsFrom, Jsep.updFirst, searchFrom, hp]
    by_cases hc : (!(used.contains i || decide (n ≤ i)) && P t) = true
    · simp only [hc, if_true, Option.map_some, Nat.sub_self, List.modify_zero_cons, flagsFrom,
        List.contains_cons, beq_self_eq_true, Bool.true_or, hf]
      rw [flagsFrom_cons_used n i used rest (i + 1) (by omega)]
    · have hc' : (!(used.contains i || decide (n ≤ i)) && P t) = false := by
        cases h : (!(used.contains i || decide (n ≤ i)) && P t)
        · rfl
        · exact absurd h hc
      simp only [hc', Bool.false_eq_true, if_false]
      rw [ih (i + 1)]
      cases hs : searchFrom n used P (i + 1) rest with
      | none => rfl
      | some j =>
        have hj := searchFrom_ge n used P rest (i + 1) j hs
        have hji : j - i = (j - (i + 1)) + 1 := by omega
        have hne : (i == j) = false := by simp; omega
        simp only [Option.map_some, hji, List.modify_succ_cons, flagsFrom, List.contains_cons, hne, Bool.false_or]

/-- NegNeeded's `(List.range n).find?` over positions is `searchFrom` -/
theorem range_find_searchFrom (n : Nat) (used : List Nat) (P : NegNeeded.Tr → Bool) (trs : List NegNeeded.Tr)
    (Q : Nat → Bool) (hQ : ∀ i t, i < n → trs[i]? = some t → Q i = P t) :
    ∀ (ts : List NegNeeded.Tr) (i : Nat), trs.drop i = ts → n ≤ trs.length →
      (List.range' i (n - i)).find? (fun j => !used.contains j && Q j) = searchFrom n used P i ts := by
  intro ts
  induction ts with
  | nil =>
    intro i hd hn
    have : trs.length ≤ i := by
      have := congrArg List.length hd
      simp at this; omega
    have : n - i = 0 := by omega
    rw [this]; rfl
  | cons t rest ih =>
    intro i hd hn
    have hi : trs[i]? = some t := by
      have : (trs.drop i)[0]? = some t := by rw [hd]; rfl
      simpa using this
    have hd' : trs.drop (i + 1) = rest := by
      have := congrArg List.tail hd
      simpa using this
    unfold searchFrom
    by_cases hin : i < n
    · have hn' : n - i = (n - (i + 1)) + 1 := by omega
      rw [hn', List.range'_succ, List.find?_cons, hQ i t hin hi]
      have hdec : decide (n ≤ i) = false := by simp; omega
      simp only [hdec, Bool.or_false]
      cases hc : (!used.contains i && P t)
      · simp only [Bool.false_eq_true, if_false]
        exact ih (i + 1) hd' hn
      · simp
    · have h0 : n - i = 0 := by omega
      have hdec : decide (n ≤ i) = true := by simp; omega
      rw [h0]
      simp only [hdec, Bool.or_true, Bool.not_true, Bool.false_and, Bool.false_eq_true, if_false]
      have := ih (i + 1) hd' hn
      have h1 : n - (i + 1) = 0 := by omega
      rw [h1] at this
      exact this

theorem range_find_searchFrom0 (n : Nat) (used : List Nat) (P : NegNeeded.Tr → Bool) (trs : List NegNeeded.Tr)
    (Q : Nat → Bool) (hQ : ∀ i t, i < n → trs[i]? = some t → Q i = P t) (hn : n ≤ trs.length) :
    (List.range n).find? (fun j => !used.contains j && Q j) = searchFrom n used P 0 trs := by
  have := range_find_searchFrom n used P trs Q hQ trs 0 rfl hn
  rw [List.range_eq_range']
  simpa using this

theorem findSome_map {α β γ : Type} (g : α → Option β) (h : β → γ) (l : List α) :
    l.findSome? (fun a => (g a).map h) = (l.findSome? g).map h := by
  induction l with
  | nil => rfl
  | cons a rest ih =>
    simp only [List.findSome?_cons]
    cases g a <;> simp [ih]

theorem firstSome_eq_findSome {α β : Type} (f : α → Option β) (l : List α) : Jsep.firstSome f l = l.findSome? f := by
  induction l with
  | nil => rfl
  | cons a rest ih =>
    simp only [Jsep.firstSome, List.findSome?_cons, ih]
    cases f a <;> rfl

/-- what happens to a transceiver found by mid / by kind and direction: C04's inline code = C06's functions -/
def foundN (viaMid : Bool) (s : NegNeeded.Sec) (t : NegNeeded.Tr) : NegNeeded.Tr :=
  let t := if viaMid && s.dir == .inactive then t.stop else t
  let t := { t with curRemoteDir := some s.dir, dir := NegNeeded.adjustDir s.dir t.dir }
  if t.mid.isNone then { t with mid := some s.mid } else t

theorem foundN_byMid (s : NegNeeded.Sec) (t : NegNeeded.Tr) :
    Jsep.onFoundByMid (.num s.mid) (dirN s.dir) (trN t) = trN (foundN true s t) := by
  cases t with | mk k m d c cr sd =>
  cases s with | mk sm app sk sdir msid =>
  cases sdir <;> cases d <;> cases m <;> cases sd <;> rfl

theorem foundN_satisfied (s : NegNeeded.Sec) (t : NegNeeded.Tr) :
    Jsep.onSatisfied (.num s.mid) (dirN s.dir) (trN t) = trN (foundN false s t) := by
  cases t with | mk k m d c cr sd =>
  cases s with | mk sm app sk sdir msid =>
  cases sdir <;> cases d <;> cases m <;> rfl

/-- the transceiver C04 creates for a remote section nobody matches -/
def newTrN (s : NegNeeded.Sec) : NegNeeded.Tr :=
  { kind := s.kind, mid := some s.mid,
    dir := (match s.dir with | .recvonly => .sendonly | .inactive => .inactive | _ => .recvonly),
    curRemoteDir := some s.dir }

theorem newTrN_trN (s : NegNeeded.Sec) :
    trN (newTrN s) = Jsep.newFromRemote (kindN s.kind) (.num s.mid) (dirN s.dir) (false, false) := by
  cases s with | mk m app k d msid => cases d <;> rfl

/-- the body of one iteration of `NegNeeded.applyRemoteOffer`, as a function -/
def stepN (n : Nat) (s : NegNeeded.Sec) (used : List Nat) (pc : NegNeeded.PC) : List Nat × NegNeeded.PC :=
  if s.app then (used, pc)
  else
    match searchFrom n used (fun t => t.mid == some s.mid) 0 pc.trs with
    | some i => (i :: used, { pc with trs := pc.trs.modify i (foundN true s) })
    | none =>
      match (Jsep.prefDirs (dirN s.dir)).findSome? (fun pd =>
          searchFrom n used (fun t => t.mid.isNone && t.kind == s.kind && decide (dirN t.dir = pd)) 0 pc.trs) with
      | some i => (i :: used, { pc with trs := pc.trs.modify i (foundN false s) })
      | none =>
        (used, NegNeeded.addTransceiverRaw pc (newTrN s))

theorem negneeded_satisfy (n : Nat) (used : List Nat) (trs : List NegNeeded.Tr) (k : NegNeeded.Kind)
    (d : NegNeeded.Dir) (hn : n ≤ trs.length) :
    NegNeeded.satisfy (trs.take n) used k d =
      (Jsep.prefDirs (dirN d)).findSome? (fun pd =>
        searchFrom n used (fun t => t.mid.isNone && t.kind == k && decide (dirN t.dir = pd)) 0 trs) := by
  have hlen : (trs.take n).length = n := by simp; omega
  have key : ∀ (Q : Nat → Bool) (p : NegNeeded.Dir),
      (∀ i t, i < n → trs[i]? = some t → Q i = (t.mid.isNone && t.kind == k && decide (dirN t.dir = dirN p))) →
      (List.range n).find? (fun j => !used.contains j && Q j) =
        searchFrom n used (fun t => t.mid.isNone && t.kind == k && decide (dirN t.dir = dirN p)) 0 trs :=
    fun Q p h => range_find_searchFrom0 n used _ trs Q h hn
  have side : ∀ (p : NegNeeded.Dir) (i : Nat) (t : NegNeeded.Tr), i < n → trs[i]? = some t →
      (trs.take n)[i]? = some t ∧ (t.dir == p) = decide (dirN t.dir = dirN p) := by
    intro p i t hi ht
    refine ⟨by rw [List.getElem?_take]; simp [hi, ht], ?_⟩
    cases t.dir <;> cases p <;> rfl
  unfold NegNeeded.satisfy
  simp only [hlen]
  cases d <;> simp only [List.findSome?_cons, List.findSome?_nil]
  · rw [key _ .recvonly (fun i t hi ht => by simp only [(side .recvonly i t hi ht).1, (side .recvonly i t hi ht).2]),
        key _ .sendrecv (fun i t hi ht => by simp only [(side .sendrecv i t hi ht).1, (side .sendrecv i t hi ht).2]),
        key _ .sendonly (fun i t hi ht => by simp only [(side .sendonly i t hi ht).1, (side .sendonly i t hi ht).2])]
    rfl
  · rw [key _ .recvonly (fun i t hi ht => by simp only [(side .recvonly i t hi ht).1, (side .recvonly i t hi ht).2])]
    rfl
  · rw [key _ .sendonly (fun i t hi ht => by simp only [(side .sendonly i t hi ht).1, (side .sendonly i t hi ht).2]),
        key _ .sendrecv (fun i t hi ht => by simp only [(side .sendrecv i t hi ht).1, (side .sendrecv i t hi ht).2])]
    rfl
  · rfl

/-- `applyRemoteOffer` is the iteration of `stepN` -/
theorem applyRemoteOffer_cons (n : Nat) (s : NegNeeded.Sec) (rest : List NegNeeded.Sec) (used : List Nat)
    (pc : NegNeeded.PC) (hn : n ≤ pc.trs.length) :
    NegNeeded.applyRemoteOffer n (s :: rest) used pc =
      NegNeeded.applyRemoteOffer n rest (stepN n s used pc).1 (stepN n s used pc).2 := by
  unfold stepN
  rw [NegNeeded.applyRemoteOffer]
  by_cases ha : s.app = true
  · simp [ha]
  · simp only [ha, Bool.false_eq_true, if_false]
    have hbm : (List.range n).find? (fun i => !used.contains i && (pc.trs[i]?.map (·.mid)) == some (some s.mid)) =
        searchFrom n used (fun t => t.mid == some s.mid) 0 pc.trs := by
      apply range_find_searchFrom0 n used _ pc.trs _ _ hn
      intro i t _ ht
      simp [ht]
    rw [hbm, negneeded_satisfy n used pc.trs s.kind s.dir hn]
    cases searchFrom n used (fun t => t.mid == some s.mid) 0 pc.trs with
    | some i => rfl
    | none =>
      simp only
      cases (Jsep.prefDirs (dirN s.dir)).findSome? _ with
      | some i => rfl
      | none => rfl

theorem stepN_length (n : Nat) (s : NegNeeded.Sec) (used : List Nat) (pc : NegNeeded.PC) (hn : n ≤ pc.trs.length) :
    n ≤ (stepN n s used pc).2.trs.length := by
  unfold stepN
  split
  · exact hn
  · split
    · simp [List.length_modify]; exact hn
    · split
      · simp [List.length_modify]; exact hn
      · simp [NegNeeded.addTransceiverRaw, NegNeeded.onNN]; omega

/-- **one iteration**: C06's `remoteSecStep` on the translated section and working list = C04's body -/
theorem negneeded_remoteSecStep (st : Jsep.St) (n : Nat) (s : NegNeeded.Sec) (used : List Nat) (pc : NegNeeded.PC)
    (hn : n ≤ pc.trs.length) :
    Jsep.remoteSecStep st (secN s) (flagsFrom n used 0 pc.trs) =
      .ok (flagsFrom n (stepN n s used pc).1 0 (stepN n s used pc).2.trs) := by
  unfold Jsep.remoteSecStep stepN
  have hmid : (secN s).mid = some (Mid.num s.mid) := rfl
  by_cases ha : s.app = true
  · have hm : (secN s).media = Jsep.mediaApplication := by simp [secN, ha]
    simp [hmid, hm, ha]
  · have ha' : s.app = false := by simpa using ha
    have hm1 : ((secN s).media = Jsep.mediaApplication) = False := by
      simp only [secN, ha', Bool.false_eq_true, if_false]
      cases s.kind <;> exact eq_false (by decide)
    have hm2 : Jsep.kindOf (secN s).media = some (kindN s.kind) := by
      simp only [secN, ha', Bool.false_eq_true, if_false]
      cases s.kind <;> decide +kernel
    have hod : (secN s).offeredDir = dirN s.dir := rfl
    simp only [hmid, hm1, hm2, ha', if_false, Bool.false_eq_true, hod]
    rw [updFirst_searchFrom n used _ _ (fun t => t.mid == some s.mid) (foundN true s)
      (fun t => by
        cases t with | mk k m d c cr sd =>
        cases m with
        | none => simp [trN]
        | some m => simp only [trN, Option.map_some, Option.some.injEq, Mid.num.injEq]
                    cases h : (m == s.mid) <;> simp_all)
      (fun t => foundN_byMid s t)]
    cases hs1 : searchFrom n used (fun t => t.mid == some s.mid) 0 pc.trs with
    | some i => simp
    | none =>
      simp only [Option.map_none]
      unfold Jsep.satisfyUpd
      rw [firstSome_eq_findSome]
      have hpd : ∀ pd : Dir,
          Jsep.updFirst (fun t => t.mid = none && t.kind = kindN s.kind && t.dir = pd)
              (Jsep.onSatisfied (.num s.mid) (dirN s.dir)) (flagsFrom n used 0 pc.trs) =
            (searchFrom n used (fun t => t.mid.isNone && t.kind == s.kind && decide (dirN t.dir = pd)) 0 pc.trs).map
              (fun j => flagsFrom n (j :: used) 0 (pc.trs.modify (j - 0) (foundN false s))) := by
        intro pd
        apply updFirst_searchFrom n used _ _ _ (foundN false s) _ (fun t => foundN_satisfied s t)
        intro t
        cases t with | mk k m d c cr sd =>
        cases m <;> cases k <;> cases hk : s.kind <;> simp [trN, kindN] <;> exact decide_eq_decide.mpr Iff.rfl
      simp only [hpd]
      cases hs2 : (Jsep.prefDirs (dirN s.dir)).findSome? (fun pd =>
          searchFrom n used (fun t => t.mid.isNone && t.kind == s.kind && decide (dirN t.dir = pd)) 0 pc.trs) with
      | some i =>
        rw [findSome_map, hs2]
        simp
      | none =>
        rw [findSome_map, hs2]
        simp only [Option.map_none, secN, Bool.false_and]
        have hl : flagsFrom n used 0 (pc.trs ++ [newTrN s]) =
            flagsFrom n used 0 pc.trs ++ [(Jsep.newFromRemote (kindN s.kind) (.num s.mid) (dirN s.dir) (false, false), true)] := by
          rw [flagsFrom_append, newTrN_trN]
          have hd : decide (n ≤ 0 + pc.trs.length) = true := by simp; omega
          simp only [hd, Bool.or_true]
        simp only [NegNeeded.addTransceiverRaw, NegNeeded.onNN, hl]


/-- **the whole loop**: for every section list, every set of consumed positions and every PeerConnection state,
    C06's `remoteLoop` on the translated input ends in the translation of what C04's `applyRemoteOffer` leaves -/
theorem negneeded_applyRemoteOffer (st : Jsep.St) (n : Nat) : ∀ (secs : List NegNeeded.Sec) (used : List Nat)
    (pc : NegNeeded.PC), n ≤ pc.trs.length →
    ∃ used', Jsep.remoteLoop st (secs.map secN) (flagsFrom n used 0 pc.trs) =
      (flagsFrom n used' 0 (NegNeeded.applyRemoteOffer n secs used pc).trs, true) := by
  intro secs
  induction secs with
  | nil => intro used pc _; exact ⟨used, rfl⟩
  | cons s rest ih =>
    intro used pc hn
    rw [applyRemoteOffer_cons n s rest used pc hn]
    simp only [List.map_cons, Jsep.remoteLoop, negneeded_remoteSecStep st n s used pc hn]
    exact ih _ _ (stepN_length n s used pc hn)

theorem flagsFrom_map_fst (n : Nat) (used : List Nat) : ∀ (ts : List NegNeeded.Tr) (i : Nat),
    (flagsFrom n used i ts).map (·.1) = ts.map trN := by
  intro ts
  induction ts with
  | nil => intro i; rfl
  | cons t rest ih => intro i; simp only [flagsFrom, List.map_cons, ih]

theorem flagsFrom_fresh : ∀ (ts : List NegNeeded.Tr) (i n : Nat), i + ts.length ≤ n →
    flagsFrom n [] i ts = (ts.map trN).map (fun t => (t, false)) := by
  intro ts
  induction ts with
  | nil => intro i n _; rfl
  | cons t rest ih =>
    intro i n h
    simp only [List.length_cons] at h
    have hd : decide (n ≤ i) = false := by simp; omega
    simp only [flagsFrom, List.contains_nil, hd, Bool.or_false, List.map_cons]
    rw [ih (i + 1) n (by omega)]

/-- **SetRemoteDescription(offer): the transceivers C04 ends with are those C06 ends with** (Unified Plan; C04's
    descriptions always carry a direction and a numeric mid, which is its scope) -/
theorem negneeded_remoteTrs (st : Jsep.St) (pc : NegNeeded.PC) (d : NegNeeded.Desc)
    (hsem : st.cfg.sem = .unified) (ho : d.offer = true) :
    Jsep.remoteTrs { st with trs := pc.trs.map trN } (descN d) =
      ((NegNeeded.applyRemoteOffer pc.trs.length d.secs [] pc).trs.map trN, true) := by
  obtain ⟨used', h⟩ := negneeded_applyRemoteOffer { st with trs := pc.trs.map trN } pc.trs.length d.secs [] pc
    (Nat.le_refl _)
  rw [flagsFrom_fresh pc.trs 0 pc.trs.length (by omega)] at h
  unfold Jsep.remoteTrs
  have hc : (((descN d).typ != Jsep.SdpType.answer) &&
      !(st.cfg.sem != Jsep.Sem.unified && Jsep.possiblyPlanB (descN d))) = true := by
    rw [hsem]; simp [descN, ho]
  simp only [hc, if_true]
  have hsecs : (descN d).secs = d.secs.map secN := rfl
  rw [hsecs, h, flagsFrom_map_fst]

end LoopsN

section LoopsN2
open Jsep (Dir Kind Mid)

/-! ### setRTPTransceiverCurrentDirection: NegNeeded vs Jsep -/

/-- the update C04 applies to the transceiver found for an answer section -/
def curN (weOffer : Bool) (s : NegNeeded.Sec) (t : NegNeeded.Tr) : NegNeeded.Tr :=
  let d0 := if weOffer then s.dir.revers else s.dir
  let d := if !weOffer && d0 == .sendonly && t.sender.isNone then NegNeeded.Dir.inactive else d0
  { t with curDir := some d }

theorem curN_trN (weOffer : Bool) (s : NegNeeded.Sec) (t : NegNeeded.Tr) :
    (match (secN s).peerDir with
      | none => trN t
      | some d =>
        let d := if weOffer then (match d with | .sendonly => Dir.recvonly | .recvonly => Dir.sendonly | x => x) else d
        let d := if !weOffer && d = .sendonly && !(trN t).hasSender then Dir.inactive else d
        { trN t with curDir := some d }) = trN (curN weOffer s t) := by
  cases t with | mk k m d c cr sd =>
  cases s with | mk sm app sk sdir msid =>
  cases weOffer <;> cases sdir <;> cases sd <;> rfl

theorem mid_pred_trN (m : Nat) (t : NegNeeded.Tr) : decide ((trN t).mid = some (Mid.num m)) = (t.mid == some m) := by
  cases t with | mk k tm d c cr sd =>
  cases tm with
  | none => simp [trN]
  | some x =>
    simp only [trN, Option.map_some, Option.some.injEq, Mid.num.injEq]
    cases h : (x == m) <;> simp_all

theorem secN_app (s : NegNeeded.Sec) :
    ((secN s).media = Jsep.mediaApplication) = (s.app = true) := by
  cases s with | mk sm app sk sdir msid =>
  cases app
  · cases sk <;> simp [secN, kindN, Jsep.Kind.name, Jsep.mediaApplication]
  · simp [secN]

theorem secN_kind (s : NegNeeded.Sec) (h : s.app = false) : Jsep.kindOf (secN s).media = some (kindN s.kind) := by
  simp only [secN, h, Bool.false_eq_true, if_false]
  cases s.kind <;> decide +kernel

/-- **`setRTPTransceiverCurrentDirection`: C04's copy = C06's copy**, for every answer, every set of consumed
    positions and every transceiver list -/
theorem negneeded_setCurDirs (weOffer : Bool) : ∀ (secs : List NegNeeded.Sec) (used : List Nat) (trs : List NegNeeded.Tr),
    ∃ used', Jsep.curDirLoop weOffer (secs.map secN) (flagsFrom trs.length used 0 trs) =
      flagsFrom trs.length used' 0 (NegNeeded.setCurDirs weOffer secs used trs) ∧
      (NegNeeded.setCurDirs weOffer secs used trs).length = trs.length := by
  intro secs
  induction secs with
  | nil => intro used trs; exact ⟨used, rfl, rfl⟩
  | cons s rest ih =>
    intro used trs
    have hmid : (secN s).mid = some (Mid.num s.mid) := rfl
    simp only [List.map_cons, Jsep.curDirLoop, NegNeeded.setCurDirs, hmid, secN_app, updByMid_eq]
    by_cases ha : s.app = true
    · simp only [ha, if_true]
      exact ih used trs
    · simp only [ha, if_false, Bool.false_eq_true]
      have hbm : (List.range trs.length).find? (fun i => !used.contains i && (trs[i]?.map (·.mid)) == some (some s.mid)) =
          searchFrom trs.length used (fun t => t.mid == some s.mid) 0 trs := by
        apply range_find_searchFrom0 trs.length used _ trs _ _ (Nat.le_refl _)
        intro i t _ ht
        simp [ht]
      rw [hbm]
      rw [updFirst_searchFrom trs.length used _ _ (fun t => t.mid == some s.mid) (curN weOffer s)
        (fun t => mid_pred_trN s.mid t) (fun t => curN_trN weOffer s t)]
      cases searchFrom trs.length used (fun t => t.mid == some s.mid) 0 trs with
      | none => exact ⟨used, rfl, rfl⟩
      | some i =>
        simp only [Option.map_some, Nat.sub_zero]
        have hl : (trs.modify i (curN weOffer s)).length = trs.length := List.length_modify ..
        obtain ⟨used', h1, h2⟩ := ih (i :: used) (trs.modify i (curN weOffer s))
        rw [hl] at h1 h2
        exact ⟨used', h1, h2⟩

theorem negneeded_setCurrentDirections (weOffer : Bool) (ans : NegNeeded.Desc) (trs : List NegNeeded.Tr) :
    Jsep.setCurrentDirections (descN ans) weOffer (trs.map trN) =
      (NegNeeded.setCurDirs weOffer ans.secs [] trs).map trN := by
  obtain ⟨used', h, _⟩ := negneeded_setCurDirs weOffer ans.secs [] trs
  rw [flagsFrom_fresh trs 0 trs.length (by omega)] at h
  unfold Jsep.setCurrentDirections
  have hsecs : (descN ans).secs = ans.secs.map secN := rfl
  rw [hsecs, h, flagsFrom_map_fst]

/-! ### CreateAnswer: the narrowing generateMatchedSDP performs -/

def narrowN (s : NegNeeded.Sec) (t : NegNeeded.Tr) : NegNeeded.Tr :=
  { t with dir := NegNeeded.answerDirection s.dir t.dir }

theorem narrowN_trN (s : NegNeeded.Sec) (t : NegNeeded.Tr) :
    Jsep.Tr.narrow true (secN s).offeredDir (trN t) = trN (narrowN s t) := by
  cases t with | mk k m d c cr sd =>
  cases s with | mk sm app sk sdir msid =>
  cases sdir <;> cases d <;> rfl

theorem set_eq_modify {α : Type} (f : α → α) : ∀ (l : List α) (i : Nat) (t : α), l[i]? = some t →
    l.set i (f t) = l.modify i f := by
  intro l
  induction l with
  | nil => intro i t h; cases h
  | cons x rest ih =>
    intro i t h
    cases i with
    | zero => simp at h; subst h; rfl
    | succ i => simp at h; simp [ih i t h]

theorem searchFrom_some (n : Nat) (used : List Nat) (P : NegNeeded.Tr → Bool) :
    ∀ (ts : List NegNeeded.Tr) (i j : Nat), searchFrom n used P i ts = some j → ∃ t, ts[j - i]? = some t := by
  intro ts
  induction ts with
  | nil => intro i j h; cases h
  | cons t rest ih =>
    intro i j h
    unfold searchFrom at h
    split at h
    · cases h; exact ⟨t, by simp⟩
    · have hge := searchFrom_ge n used P rest (i + 1) j h
      obtain ⟨t', ht'⟩ := ih (i + 1) j h
      have : j - i = (j - (i + 1)) + 1 := by omega
      exact ⟨t', by rw [this]; simpa using ht'⟩

/-- **when CreateAnswer succeeds, the narrowed transceivers C04 returns are those C06's `narrowLoop` leaves**
    (for every offer, every set of consumed positions, every transceiver list) -/
theorem negneeded_genMatched_narrow : ∀ (secs : List NegNeeded.Sec) (used : List Nat) (trs : List NegNeeded.Tr)
    (out : List NegNeeded.Sec) (used' : List Nat) (trs' : List NegNeeded.Tr),
    NegNeeded.genMatched true trs secs used = some (out, used', trs') →
    Jsep.narrowLoop (secs.map secN) (flagsFrom trs.length used 0 trs) = flagsFrom trs.length used' 0 trs' ∧
      trs'.length = trs.length := by
  intro secs
  induction secs with
  | nil =>
    intro used trs out used' trs' h
    simp only [NegNeeded.genMatched, Option.some.injEq, Prod.mk.injEq] at h
    obtain ⟨_, rfl, rfl⟩ := h
    exact ⟨rfl, rfl⟩
  | cons s rest ih =>
    intro used trs out used' trs' h
    have hmid : (secN s).mid = some (Mid.num s.mid) := rfl
    simp only [List.map_cons, Jsep.narrowLoop, hmid, secN_app]
    unfold NegNeeded.genMatched at h
    by_cases ha : s.app = true
    · simp only [ha, if_true] at h ⊢
      cases hr : NegNeeded.genMatched true trs rest used with
      | none => rw [hr] at h; cases h
      | some r =>
        obtain ⟨o, u, t⟩ := r
        rw [hr] at h
        simp only [Option.map_some, Option.some.injEq, Prod.mk.injEq] at h
        obtain ⟨_, rfl, rfl⟩ := h
        exact ih used trs o u t hr
    · have ha' : s.app = false := by simpa using ha
      simp only [ha', Bool.false_eq_true, if_false, secN_kind s ha'] at h ⊢
      have hbm : (List.range trs.length).find? (fun i => !used.contains i && (trs[i]?.map (·.mid)) == some (some s.mid)) =
          searchFrom trs.length used (fun t => t.mid == some s.mid) 0 trs := by
        apply range_find_searchFrom0 trs.length used _ trs _ _ (Nat.le_refl _)
        intro i t _ ht
        simp [ht]
      rw [hbm] at h
      rw [updFirst_searchFrom trs.length used _ _ (fun t => t.mid == some s.mid) (narrowN s)
        (fun t => mid_pred_trN s.mid t) (fun t => narrowN_trN s t)]
      cases hs : searchFrom trs.length used (fun t => t.mid == some s.mid) 0 trs with
      | none => rw [hs] at h; cases h
      | some i =>
        rw [hs] at h
        obtain ⟨t, ht⟩ := searchFrom_some _ _ _ trs 0 i hs
        simp only [Nat.sub_zero] at ht
        simp only [ht, if_true] at h
        have hset : trs.set i { t with dir := NegNeeded.answerDirection s.dir t.dir } = trs.modify i (narrowN s) :=
          set_eq_modify (narrowN s) trs i t ht
        rw [hset] at h
        simp only [Option.map_some, Nat.sub_zero]
        cases hr : NegNeeded.genMatched true (trs.modify i (narrowN s)) rest (i :: used) with
        | none => rw [hr] at h; cases h
        | some r =>
          obtain ⟨o, u, t2⟩ := r
          rw [hr] at h
          simp only [Option.map_some, Option.some.injEq, Prod.mk.injEq] at h
          obtain ⟨_, rfl, rfl⟩ := h
          have hl : (trs.modify i (narrowN s)).length = trs.length := List.length_modify ..
          have := ih (i :: used) (trs.modify i (narrowN s)) o u t2 hr
          rw [hl] at this
          exact this

/-- on the error path the copies differ: Go (and C06, C08) leave the transceivers matched before the failing
    section narrowed — `setDirection` is applied in the loop — while C04's `createAnswer` returns the
    PeerConnection untouched.  The path needs a remote m-section without a transceiver carrying its mid, which
    no history reaches in C04's world (SetRemoteDescription(offer) gives every section one, and mids are never
    cleared), so C04's theorems do not depend on it.  Witness: -/
example :
    let t : NegNeeded.Tr := { kind := .audio, mid := some 0, dir := .sendrecv }
    let offer : NegNeeded.Desc := { offer := true, secs := [⟨0, false, .audio, .recvonly, none⟩, ⟨1, false, .audio, .sendrecv, none⟩] }
    let pc : NegNeeded.PC := { sig := .haveRemoteOffer, pendRemote := some offer, trs := [t] }
    (NegNeeded.createAnswer pc).1.trs.map (·.dir) = [.sendrecv] ∧
    (Jsep.narrowLoop (offer.secs.map secN) [(trN t, false)]).map (·.1.dir) = [.sendonly] := by
  decide +kernel

end LoopsN2

/-! ## 2d. `PcSections` (C10/C16): its inline copies, observed through `applyRemoteSection`

  PcSections keeps mids as text and a shrinking list of positions; its named switches are covered in §2
  (`pcsections_adjustDirection`, `pcsections_answerDirection`, `pcsections_preferredDirections`).  What is
  inline in `applyRemoteSection` — the direction of a new transceiver, Stop on an inactive section, the use of
  the adjustment switch and of the preference list — is pinned down here by running the function on the
  smallest PeerConnections that reach each branch, for every direction / kind involved. -/

section Pc
open PcSections

theorem pc_probe_new (pc : Pc) (s : RSection) (k : Codec.Kind)
    (hmid : (s.mid == []) = false) (happ : (s.media == "application".toList) = false)
    (hk : Codec.kindOf s.media = k) (hko : (k == Codec.Kind.other) = false) (htrs : pc.trs = []) :
    ((applyRemoteSection pc [] s).map (fun r => r.1.trs.map (fun t => (t.kind, dirP t.dir, t.mid)))) =
      some [(k, (Jsep.newFromRemote .audio (.num 0) (dirP s.direction) (false, false)).dir, s.mid)] := by
  unfold applyRemoteSection
  simp only [hmid, happ, hk, hko, Bool.false_eq_true, if_false, findByMid, htrs]
  cases hd : s.direction <;>
    simp [satisfyTypeAndDirection, preferredDirections, pluck, Jsep.newFromRemote, dirP]

/-- found by mid: Stop when the section is inactive, then the adjustment switch; the mid stays -/
theorem pc_probe_byMid (pc : Pc) (s : RSection) (t : Tr) (k : Codec.Kind)
    (hmid : (s.mid == []) = false) (happ : (s.media == "application".toList) = false)
    (hk : Codec.kindOf s.media = k) (hko : (k == Codec.Kind.other) = false)
    (htrs : pc.trs = [t]) (htm : t.mid = s.mid) :
    ((applyRemoteSection pc [0] s).map (fun r => (r.1.trs.map (fun t => (dirP t.dir, t.mid)), r.2))) =
      some ([((Jsep.onFoundByMid (.num 0) (dirP s.direction)
                { kind := .audio, mid := some (.num 0), dir := dirP t.dir, hasSender := false }).dir, s.mid)], []) := by
  unfold applyRemoteSection
  have hm : (some t.mid == some s.mid) = true := by rw [htm]; simp
  simp only [hmid, happ, hk, hko, Bool.false_eq_true, if_false, findByMid, htrs, List.getElem?_cons_zero,
    Option.map_some, hm, if_true]
  cases hd : s.direction <;> cases htd : t.dir <;>
    simp [SectionSdp.setAt, adjustDirection, Jsep.onFoundByMid, Jsep.adjustDir, Jsep.Tr.stop, Jsep.Tr.setMidIfUnset, dirP, htd, htm]

/-- found by kind and direction (for every offered direction and every local direction on its preference
    list): the adjustment switch, then the mid is set -/
theorem pc_probe_satisfied (pc : Pc) (s : RSection) (t : Tr) (k : Codec.Kind)
    (hmid : (s.mid == []) = false) (happ : (s.media == "application".toList) = false)
    (hk : Codec.kindOf s.media = k) (hko : (k == Codec.Kind.other) = false)
    (htrs : pc.trs = [t]) (htm : t.mid = []) (htk : t.kind = k)
    (hpref : t.dir ∈ preferredDirections s.direction) :
    ((applyRemoteSection pc [0] s).map (fun r => (r.1.trs.map (fun t => (dirP t.dir, t.mid)), r.2))) =
      some ([((Jsep.onSatisfied (.num 0) (dirP s.direction)
                { kind := .audio, mid := none, dir := dirP t.dir, hasSender := false }).dir, s.mid)], []) := by
  unfold applyRemoteSection
  have hm : (some t.mid == some s.mid) = false := by
    rw [htm]
    cases h : s.mid with
    | nil => rw [h] at hmid; simp at hmid
    | cons a b => simp
  have hkk : (t.kind == k) = true := by rw [htk]; cases k <;> rfl
  simp only [hmid, happ, hk, hko, Bool.false_eq_true, if_false, findByMid, htrs, List.getElem?_cons_zero,
    Option.map_some, hm]
  cases hd : s.direction <;> cases htd : t.dir <;> rw [hd, htd] at hpref <;>
    first
    | (simp [preferredDirections] at hpref; done)
    | simp [satisfyTypeAndDirection, preferredDirections, pluck, SectionSdp.setAt, adjustDirection, Jsep.onSatisfied,
        Jsep.adjustDir, Jsep.Tr.setMidIfUnset, dirP, htd, htm, hkk]

/-- not found although a transceiver of the kind without mid exists: its direction is not on the preference
    list of the offered direction (so the list PcSections uses is exactly Jsep's, in both directions) -/
theorem pc_probe_not_preferred (pc : Pc) (s : RSection) (t : Tr) (k : Codec.Kind)
    (hmid : (s.mid == []) = false) (happ : (s.media == "application".toList) = false)
    (hk : Codec.kindOf s.media = k) (hko : (k == Codec.Kind.other) = false)
    (htrs : pc.trs = [t]) (htm : t.mid = [])
    (hpref : dirP t.dir ∉ Jsep.prefDirs (dirP s.direction)) :
    ((applyRemoteSection pc [0] s).map (fun r => r.1.trs.length)) = some 2 := by
  unfold applyRemoteSection
  have hm : (some t.mid == some s.mid) = false := by
    rw [htm]
    cases h : s.mid with
    | nil => rw [h] at hmid; simp at hmid
    | cons a b => simp
  simp only [hmid, happ, hk, hko, Bool.false_eq_true, if_false, findByMid, htrs, List.getElem?_cons_zero,
    Option.map_some, hm]
  cases hd : s.direction <;> cases htd : t.dir <;> rw [hd, htd] at hpref <;>
    first
    | (simp [Jsep.prefDirs, dirP] at hpref; done)
    | simp [satisfyTypeAndDirection, preferredDirections, pluck, htd]

/-! ### PcSections' implicit signaling state: `remote = some _` is have-remote-offer -/

open Signaling (Sig) in
def sigP (pc : Pc) : Sig := if pc.remote.isSome then .haveRemoteOffer else .stable

theorem applyRemoteSection_remote (pc pc' : Pc) (w w' : List Nat) (s : RSection)
    (h : applyRemoteSection pc w s = some (pc', w')) : pc'.remote = pc.remote := by
  unfold applyRemoteSection at h
  split at h
  · cases h
  · split at h
    · cases h; rfl
    · simp only [] at h
      split at h
      · cases h; rfl
      · generalize findByMid pc.trs s.mid w = fb at h
        obtain ⟨found, wk⟩ := fb
        simp only [] at h
        cases found with
        | some i =>
          simp only [] at h
          cases hi : pc.trs[i]? with
          | none => rw [hi] at h; cases h; rfl
          | some t => rw [hi] at h; simp only [Option.some.injEq, Prod.mk.injEq] at h; obtain ⟨rfl, _⟩ := h; rfl
        | none =>
          simp only [] at h
          generalize satisfyTypeAndDirection pc.trs (Codec.kindOf s.media) s.direction wk = sat at h
          obtain ⟨r, w2⟩ := sat
          simp only [] at h
          cases r with
          | none => simp only [Option.some.injEq, Prod.mk.injEq] at h; obtain ⟨rfl, _⟩ := h; rfl
          | some i =>
            simp only [] at h
            cases hi : pc.trs[i]? with
            | none => rw [hi] at h; cases h; rfl
            | some t => rw [hi] at h; simp only [Option.some.injEq, Prod.mk.injEq] at h; obtain ⟨rfl, _⟩ := h; rfl

theorem applyRemoteSections_remote : ∀ (secs : List RSection) (pc pc' : Pc) (w : List Nat),
    applyRemoteSections pc w secs = some pc' → pc'.remote = pc.remote := by
  intro secs
  induction secs with
  | nil => intro pc pc' w h; simp only [applyRemoteSections, Option.some.injEq] at h; rw [h]
  | cons s rest ih =>
    intro pc pc' w h
    unfold applyRemoteSections at h
    split at h
    · cases h
    · rename_i pc1 w1 h1
      rw [ih pc1 pc' w1 h, applyRemoteSection_remote pc pc1 w w1 s h1]

/-- in have-remote-offer a remote offer is refused and nothing changes — as `sigStep` says -/
theorem pcsections_setRemoteOffer_refused (pc : Pc) (d : RDesc) (h : pc.remote.isSome = true) :
    (setRemoteOffer pc d).1.remote = pc.remote ∧ sigStep (sigP pc) .setRemote .offer = none := by
  refine ⟨by simp [setRemoteOffer, h], ?_⟩
  simp only [sigP, h, if_true]; decide

/-- in stable a remote offer that passes the mid validation is applied (whatever the media engine and the
    m-section loop answer afterwards, as in Go): the state becomes have-remote-offer — as `sigStep` says -/
theorem pcsections_setRemoteOffer_applied (pc : Pc) (d : RDesc) (h : pc.remote = none)
    (hm : d.secs.any (fun s => s.mid == []) = false) :
    sigStep (sigP pc) .setRemote .offer = some (sigP (setRemoteOffer pc d).1) := by
  have hs : sigP pc = .stable := by simp [sigP, h]
  have hr : (setRemoteOffer pc d).1.remote = some d := by
    unfold setRemoteOffer
    simp only [h, Option.isSome_none, Bool.false_eq_true, if_false, hm]
    split
    · rfl
    · split
      · rfl
      · rename_i pc' hp
        rw [applyRemoteSections_remote _ _ _ _ hp]
  rw [hs]
  simp only [sigP, hr, Option.isSome_some, if_true]
  decide

/-- a description with an m-section without mid is rejected before anything is applied -/
theorem pcsections_setRemoteOffer_nomid (pc : Pc) (d : RDesc) (h : pc.remote = none)
    (hm : d.secs.any (fun s => s.mid == []) = true) : (setRemoteOffer pc d).1.remote = pc.remote := by
  simp only [setRemoteOffer, h, hm, Option.isSome_none, Bool.false_eq_true, if_false, if_true]

/-- SetLocalDescription(answer): have-remote-offer → stable — as `sigStep` says -/
theorem pcsections_setLocalAnswer_sig (pc : Pc) :
    (match (setLocalAnswer pc).2 with
      | .ok => sigStep (sigP pc) .setLocal .answer = some (sigP (setLocalAnswer pc).1)
      | _ => sigP (setLocalAnswer pc).1 = sigP pc) := by
  unfold setLocalAnswer
  cases hr : pc.remote with
  | none => rfl
  | some d =>
    simp only
    cases hh : pc.haveAnswer with
    | false => rfl
    | true =>
      simp only [Bool.not_true, Bool.false_eq_true, if_false]
      cases hs : startSenders pc.eng pc.trs with
      | none => rfl
      | some trs =>
        simp only [sigP, hr, Option.isSome_some, if_true, Option.isSome_none, Bool.false_eq_true, if_false]
        decide

end Pc

end WebrtcVerif.Agreement2
