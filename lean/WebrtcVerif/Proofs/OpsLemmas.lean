import WebrtcVerif.Model.Ops
/-!
  Inductive invariant of the operations-queue transition system (`Model/Ops.lean`) and the lemmas the
  C05 theorems are corollaries of.
-/
namespace WebrtcVerif.Ops

/-! ### list-level versions of `liveWorkers` / `held` -/

def liveL (l : List WPc) : Nat := (l.filter WPc.live).length
def heldL (l : List WPc) : List Item := (l.map heldOf).flatten

theorem liveWorkers_eq (s : St) : liveWorkers s = liveL s.workers := rfl
theorem held_eq (s : St) : held s = heldL s.workers := rfl

@[simp] theorem liveL_nil : liveL [] = 0 := rfl
@[simp] theorem heldL_nil : heldL [] = [] := rfl

theorem liveL_cons (p : WPc) (l : List WPc) :
    liveL (p :: l) = (if p.live = true then 1 else 0) + liveL l := by
  unfold liveL
  rw [List.filter_cons]
  split <;> simp <;> omega

theorem heldL_cons (p : WPc) (l : List WPc) : heldL (p :: l) = heldOf p ++ heldL l := by
  simp [heldL]

theorem liveL_append (l₁ l₂ : List WPc) : liveL (l₁ ++ l₂) = liveL l₁ + liveL l₂ := by
  simp [liveL]

theorem heldL_append (l₁ l₂ : List WPc) : heldL (l₁ ++ l₂) = heldL l₁ ++ heldL l₂ := by
  simp [heldL]

@[simp] theorem liveL_snoc_start (l : List WPc) : liveL (l ++ [.start]) = liveL l + 1 := by
  rw [liveL_append]; rfl

@[simp] theorem heldL_snoc_start (l : List WPc) : heldL (l ++ [.start]) = heldL l := by
  rw [heldL_append]; simp [heldL, heldOf]

theorem heldOf_of_not_live {p : WPc} (h : p.live = false) : heldOf p = [] := by
  cases p <;> simp_all [WPc.live, heldOf]

theorem heldL_of_liveL_zero {l : List WPc} (h : liveL l = 0) : heldL l = [] := by
  induction l with
  | nil => rfl
  | cons p l ih =>
    rw [liveL_cons] at h
    rw [heldL_cons]
    by_cases hp : p.live = true
    · simp [hp] at h
    · have hp' : p.live = false := by simpa using hp
      simp [hp] at h
      rw [heldOf_of_not_live hp', ih h]; rfl

theorem liveL_pos_of_getElem? {l : List WPc} {w : Nat} {pc : WPc}
    (hw : l[w]? = some pc) (hl : pc.live = true) : 1 ≤ liveL l := by
  induction l generalizing w with
  | nil => simp at hw
  | cons p l ih =>
    rw [liveL_cons]
    cases w with
    | zero =>
      simp at hw
      subst hw
      simp [hl]
    | succ w =>
      simp at hw
      have := ih hw
      omega

/-- with at most one live worker, `held` is what that worker holds -/
theorem heldL_unique {l : List WPc} {w : Nat} {pc : WPc}
    (hw : l[w]? = some pc) (hl : pc.live = true) (h1 : liveL l ≤ 1) : heldL l = heldOf pc := by
  induction l generalizing w with
  | nil => simp at hw
  | cons p l ih =>
    rw [liveL_cons] at h1
    rw [heldL_cons]
    cases w with
    | zero =>
      simp at hw
      subst hw
      simp [hl] at h1
      rw [heldL_of_liveL_zero (by omega)]; simp
    | succ w =>
      simp at hw
      have hpos := liveL_pos_of_getElem? hw hl
      have hp : p.live = false := by
        cases hpl : p.live with
        | false => rfl
        | true => simp [hpl] at h1; omega
      simp [hp] at h1
      rw [heldOf_of_not_live hp, ih hw h1]; rfl

theorem liveL_set {l : List WPc} {w : Nat} {pc : WPc} (pc' : WPc) (hw : l[w]? = some pc) :
    liveL (l.set w pc') + (if pc.live = true then 1 else 0)
      = liveL l + (if pc'.live = true then 1 else 0) := by
  induction l generalizing w with
  | nil => simp at hw
  | cons p l ih =>
    cases w with
    | zero =>
      simp at hw
      subst hw
      simp only [List.set_cons_zero, liveL_cons]
      omega
    | succ w =>
      simp at hw
      have := ih hw
      simp only [List.set_cons_succ, liveL_cons]
      omega

theorem getElem?_set_self' {α} {l : List α} {w : Nat} {x : α} (y : α) (hw : l[w]? = some x) :
    (l.set w y)[w]? = some y := by
  have hlt : w < l.length := by
    rcases Nat.lt_or_ge w l.length with h | h
    · exact h
    · rw [List.getElem?_eq_none h] at hw; cases hw
  simp [hlt]

theorem getElem?_set_cases {α} {l : List α} {w j : Nat} {y z : α}
    (h : (l.set w y)[j]? = some z) : z = y ∨ l[j]? = some z := by
  rw [List.getElem?_set] at h
  split at h
  · split at h
    · left; cases h; rfl
    · cases h
  · right; exact h

/-! ### the `Done` callers' part of the invariant (depends only on four components of the state) -/

structure DoneInv (ds : List DPc) (sn : List (List Item)) (acc ex : List Item) : Prop where
  snapLen : sn.length = ds.length
  snapAcc : ∀ (d : Nat) (snap : List Item), sn[d]? = some snap → ∀ x ∈ snap, x ∈ acc
  donerWait : ∀ d : Nat, ds[d]? = some DPc.waiting →
    ∃ snap post, sn[d]? = some snap ∧ acc = snap ++ [Item.waiter d] ++ post
  donerRet : ∀ (d : Nat) (snap : List Item), ds[d]? = some DPc.returned → sn[d]? = some snap →
    ∀ x ∈ snap, x ∈ ex

theorem DoneInv.mono_ex {ds sn acc ex} (h : DoneInv ds sn acc ex) (ex' : List Item)
    (hex : ∀ x, x ∈ ex → x ∈ ex') : DoneInv ds sn acc ex' :=
  { snapLen := h.snapLen, snapAcc := h.snapAcc, donerWait := h.donerWait,
    donerRet := fun d snap hd hs x hx => hex _ (h.donerRet d snap hd hs x hx) }

/-- `doneBegin`: caller `d` gets pc `pc` and snapshot `snap0`, `t` is appended to `accepted` -/
theorem DoneInv.begin {ds sn acc ex} (h : DoneInv ds sn acc ex) {d : Nat} (hd : d < ds.length)
    (pc : DPc) (snap0 t : List Item)
    (hsnap : ∀ x ∈ snap0, x ∈ acc ++ t)
    (hw : pc = DPc.waiting → ∃ post, acc ++ t = snap0 ++ [Item.waiter d] ++ post)
    (hr : pc = DPc.returned → ∀ x ∈ snap0, x ∈ ex) :
    DoneInv (ds.set d pc) (sn.set d snap0) (acc ++ t) ex := by
  have hd' : d < sn.length := by rw [h.snapLen]; exact hd
  refine ⟨by simp [h.snapLen], ?_, ?_, ?_⟩
  · intro d' snap hs x hx
    rcases getElem?_set_cases hs with h1 | h1
    · subst h1; exact hsnap x hx
    · exact List.mem_append_left _ (h.snapAcc d' snap h1 x hx)
  · intro d' hdw
    by_cases hdd : d = d'
    · subst hdd
      simp [hd] at hdw
      obtain ⟨post, hp⟩ := hw hdw
      exact ⟨snap0, post, by simp [hd'], hp⟩
    · rw [List.getElem?_set_ne hdd] at hdw
      obtain ⟨snap, post, h1, h2⟩ := h.donerWait d' hdw
      refine ⟨snap, post ++ t, by rw [List.getElem?_set_ne hdd]; exact h1, ?_⟩
      rw [h2]; simp
  · intro d' snap hdr hs
    by_cases hdd : d = d'
    · subst hdd
      simp [hd] at hdr
      simp [hd'] at hs
      subst hs
      exact hr hdr
    · rw [List.getElem?_set_ne hdd] at hdr hs
      exact h.donerRet d' snap hdr hs

theorem DoneInv.snoc_acc {ds sn acc ex} (h : DoneInv ds sn acc ex) (t : List Item) :
    DoneInv ds sn (acc ++ t) ex := by
  refine ⟨h.snapLen, ?_, ?_, h.donerRet⟩
  · intro d snap hs x hx
    exact List.mem_append_left _ (h.snapAcc d snap hs x hx)
  · intro d hd
    obtain ⟨snap, post, h1, h2⟩ := h.donerWait d hd
    exact ⟨snap, post ++ t, h1, by rw [h2]; simp⟩

/-- a `Done` caller moves on without touching its snapshot -/
theorem DoneInv.set_pc {ds sn acc ex} (h : DoneInv ds sn acc ex) (d : Nat) (pc : DPc)
    (hw : pc ≠ DPc.waiting)
    (hr : pc = DPc.returned → ∀ snap, sn[d]? = some snap → ∀ x ∈ snap, x ∈ ex) :
    DoneInv (ds.set d pc) sn acc ex := by
  refine ⟨by simp [h.snapLen], h.snapAcc, ?_, ?_⟩
  · intro d' hdw
    rcases getElem?_set_cases hdw with h1 | h1
    · exact absurd h1.symm hw
    · exact h.donerWait d' h1
  · intro d' snap hdr hs
    by_cases hdd : d = d'
    · subst hdd
      rcases getElem?_set_cases hdr with h1 | h1
      · exact hr h1.symm snap hs
      · exact h.donerRet d snap h1 hs
    · rw [List.getElem?_set_ne hdd] at hdr
      exact h.donerRet d' snap hdr hs

/-- the list fact behind "Done returns after its predecessors" -/
theorem mem_of_prefix_before {acc ex r pre post : List Item} {w : Item} (hn : acc.Nodup)
    (hf : acc = ex ++ r) (hacc : acc = pre ++ [w] ++ post) (hex : w ∈ ex) :
    ∀ x ∈ pre, x ∈ ex := by
  rw [List.append_assoc] at hacc
  rw [hf] at hacc hn
  rcases List.append_eq_append_iff.mp hacc with ⟨a', h1, h2⟩ | ⟨c', h1, h2⟩
  · exfalso
    have hmem : w ∈ r := by rw [h2]; simp
    exact (List.nodup_append.mp hn).2.2 _ hex _ hmem rfl
  · intro x hx
    rw [h1]; simp [hx]

/-! ### the invariant -/

structure OpsInv (s : St) : Prop where
  fifo : s.accepted = s.executed ++ heldL s.workers ++ s.queue
  live : liveL s.workers = (if s.busy.isSome then 1 else 0)
  idleQ : s.busy = none → s.queue = []
  nodup : s.accepted.Nodup
  closed : ∀ (c : Nat) (pc : CPc), s.closers[c]? = some pc → pc ≠ CPc.idle → s.isClosed = true
  closerRet : ∀ c : Nat, s.closers[c]? = some CPc.returned → s.busy = none
  done : DoneInv s.doners s.doneSnap s.accepted s.executed
  fresh : ∀ k : Nat, Item.check k ∈ s.accepted → k < s.checks
  noSw : WPc.cbDone ∉ s.workers

theorem OpsInv.live_le {s : St} (h : OpsInv s) : liveL s.workers ≤ 1 := by
  rw [h.live]; split <;> omega

theorem getElem?_replicate_eq {α} {n i : Nat} {a b : α} (h : (List.replicate n a)[i]? = some b) :
    b = a := by
  rw [List.getElem?_replicate] at h
  split at h
  · cases h; rfl
  · cases h

theorem opsInv_init (nc nd nn : Nat) : OpsInv (init nc nd nn) where
  fresh := by simp [init]
  noSw := by simp [init]
  fifo := by simp [init]
  live := by simp [init]
  idleQ := by simp [init]
  nodup := by simp [init]
  closed := by
    intro c pc h hne
    exact absurd (getElem?_replicate_eq h) hne
  closerRet := by
    intro c h
    have := getElem?_replicate_eq h
    cases this
  done := by
    refine ⟨by simp [init], ?_, ?_, ?_⟩
    · intro d snap h x hx
      have := getElem?_replicate_eq h
      subst this
      cases hx
    · intro d h
      have := getElem?_replicate_eq h
      cases this
    · intro d snap h
      have := getElem?_replicate_eq h
      cases this

/-! ### frame lemmas: changing only `doners` / `closers` / `flag` / `negCalls` -/

theorem OpsInv.with_done {s : St} (h : OpsInv s) (ds : List DPc) (sn : List (List Item))
    (hd : DoneInv ds sn s.accepted s.executed) :
    OpsInv { s with doners := ds, doneSnap := sn } :=
  { fifo := h.fifo, live := h.live, idleQ := h.idleQ, nodup := h.nodup, closed := h.closed,
    closerRet := h.closerRet, done := hd, fresh := h.fresh, noSw := h.noSw }

theorem OpsInv.with_doners {s : St} (h : OpsInv s) (ds : List DPc)
    (hd : DoneInv ds s.doneSnap s.accepted s.executed) :
    OpsInv { s with doners := ds } :=
  h.with_done ds s.doneSnap hd

theorem OpsInv.executed_eq_of_idle {s : St} (h : OpsInv s) (hb : s.busy = none) :
    s.executed = s.accepted := by
  have hl := h.live
  rw [hb] at hl
  rw [h.fifo, heldL_of_liveL_zero hl, h.idleQ hb]
  simp

theorem OpsInv.with_closers {s : St} (h : OpsInv s) (cs : List CPc)
    (h1 : ∀ (c : Nat) (pc : CPc), cs[c]? = some pc → pc ≠ CPc.idle → s.isClosed = true)
    (h2 : ∀ c : Nat, cs[c]? = some CPc.returned → s.busy = none) :
    OpsInv { s with closers := cs } :=
  { fifo := h.fifo, live := h.live, idleQ := h.idleQ, nodup := h.nodup, closed := h1,
    closerRet := h2, done := h.done, fresh := h.fresh, noSw := h.noSw }

theorem OpsInv.with_closed {s : St} (h : OpsInv s) :
    OpsInv { s with isClosed := true } :=
  { fifo := h.fifo, live := h.live, idleQ := h.idleQ, nodup := h.nodup,
    closed := fun _ _ _ _ => rfl,
    closerRet := h.closerRet, done := h.done, fresh := h.fresh, noSw := h.noSw }

/-- the invariant does not mention the flag, the callback counter, the API callers or the ghost log -/
theorem OpsInv.with_aux {s : St} (h : OpsInv s) (b : Bool) (n : Nat) (cs : List NPc) (lg : List NegEv)
    (u : Bool := s.unseen) :
    OpsInv { s with flag := b, negCalls := n, callers := cs, negLog := lg, unseen := u } :=
  { fifo := h.fifo, live := h.live, idleQ := h.idleQ, nodup := h.nodup, closed := h.closed,
    closerRet := h.closerRet, done := h.done, fresh := h.fresh, noSw := h.noSw }

theorem OpsInv.with_checks {s : St} (h : OpsInv s) :
    OpsInv { s with checks := s.checks + 1 } :=
  { fifo := h.fifo, live := h.live, idleQ := h.idleQ, nodup := h.nodup, closed := h.closed,
    closerRet := h.closerRet, done := h.done, noSw := h.noSw,
    fresh := fun k hk => Nat.lt_succ_of_lt (h.fresh k hk) }

/-! ### `tryEnqueue` -/

theorem tryEnqueue_closed {s : St} (it : Item) (hc : s.isClosed = true) :
    tryEnqueue s it = (s, false) := by
  simp [tryEnqueue, hc]

theorem tryEnqueue_open {s : St} (it : Item) (hc : s.isClosed = false) :
    (tryEnqueue s it).2 = true ∧ (tryEnqueue s it).1.accepted = s.accepted ++ [it] := by
  unfold tryEnqueue
  rw [if_neg (by simp [hc])]
  dsimp only
  split <;> simp

theorem tryEnqueue_frame (s : St) (it : Item) :
    (tryEnqueue s it).1.doners = s.doners ∧ (tryEnqueue s it).1.doneSnap = s.doneSnap
      ∧ (tryEnqueue s it).1.executed = s.executed := by
  unfold tryEnqueue
  split
  · simp
  · dsimp only
    split <;> simp

theorem opsInv_tryEnqueue {s : St} (h : OpsInv s) (it : Item) (hn : it ∉ s.accepted)
    (hc : ∀ k, it = Item.check k → k < s.checks) :
    OpsInv (tryEnqueue s it).1 := by
  unfold tryEnqueue
  split
  · exact h
  · rename_i hcl
    have hcl' : s.isClosed = false := by simpa using hcl
    dsimp only
    have hnd : (s.accepted ++ [it]).Nodup := by
      rw [List.nodup_append]
      refine ⟨h.nodup, by simp, ?_⟩
      intro a ha b hb
      simp at hb
      subst hb
      intro hab
      subst hab
      exact hn ha
    have hcl1 : ∀ (c : Nat) (pc : CPc), s.closers[c]? = some pc → pc ≠ CPc.idle → False := by
      intro c pc hc hne
      have := h.closed c pc hc hne
      rw [hcl'] at this
      cases this
    have hfresh : ∀ k : Nat, Item.check k ∈ s.accepted ++ [it] → k < s.checks := by
      intro k hk
      rcases List.mem_append.mp hk with h1 | h1
      · exact h.fresh k h1
      · simp at h1
        exact hc k h1.symm
    split
    · rename_i g hb
      exact
        { fifo := by
            show s.accepted ++ [it] = s.executed ++ heldL s.workers ++ (s.queue ++ [it])
            rw [h.fifo]; simp
          live := h.live
          idleQ := by
            intro hb'
            dsimp only at hb'
            rw [hb] at hb'; cases hb'
          nodup := hnd
          closed := fun c pc hc hne => (hcl1 c pc hc hne).elim
          closerRet := fun c hc => (hcl1 c _ hc (by simp)).elim
          done := h.done.snoc_acc [it]
          fresh := hfresh
          noSw := h.noSw }
    · rename_i hb
      have hl := h.live
      rw [hb] at hl
      simp at hl
      have hq := h.idleQ hb
      exact
        { fifo := by
            show s.accepted ++ [it] = s.executed ++ heldL (s.workers ++ [.start]) ++ (s.queue ++ [it])
            rw [h.fifo]; simp
          live := by
            show liveL (s.workers ++ [.start]) = _
            simp [hl]
          idleQ := by
            intro hb'
            cases hb'
          nodup := hnd
          closed := fun c pc hc hne => (hcl1 c pc hc hne).elim
          closerRet := fun c hc => (hcl1 c _ hc (by simp)).elim
          done := h.done.snoc_acc [it]
          fresh := hfresh
          noSw := by
            show WPc.cbDone ∉ s.workers ++ [.start]
            simp [h.noSw] }

theorem tryEnqueue_workers_get {s : St} (it : Item) {w : Nat} {pc : WPc} (hw : s.workers[w]? = some pc) :
    (tryEnqueue s it).1.workers[w]? = some pc := by
  have hlt : w < s.workers.length := by
    rcases Nat.lt_or_ge w s.workers.length with h | h
    · exact h
    · rw [List.getElem?_eq_none h] at hw; cases hw
  unfold tryEnqueue
  split
  · exact hw
  · dsimp only
    split
    · exact hw
    · show (s.workers ++ [.start])[w]? = some pc
      rw [List.getElem?_append_left hlt]; exact hw

theorem opsInv_enqCheck {s : St} (h : OpsInv s) : OpsInv (enqCheck s) := by
  unfold enqCheck
  refine opsInv_tryEnqueue h.with_checks _ ?_ ?_
  · intro hm
    exact Nat.lt_irrefl _ (h.fresh _ hm)
  · intro k hk
    cases hk
    exact Nat.lt_succ_self _

theorem enqCheck_workers_get {s : St} {w : Nat} {pc : WPc} (hw : s.workers[w]? = some pc) :
    (enqCheck s).workers[w]? = some pc := by
  unfold enqCheck
  exact tryEnqueue_workers_get _ hw

theorem opsInv_negApply {s : St} (h : OpsInv s) (e : Bool) : OpsInv (negApply s e) := by
  unfold negApply
  split
  · exact opsInv_enqCheck h
  · exact h.with_aux true s.negCalls s.callers s.negLog true

theorem negApply_workers_get {s : St} (e : Bool) {w : Nat} {pc : WPc} (hw : s.workers[w]? = some pc) :
    (negApply s e).workers[w]? = some pc := by
  unfold negApply
  split
  · exact enqCheck_workers_get hw
  · exact hw

/-! ### worker steps -/

/-- a live worker changes its pc to another live pc; `executed`/`queue` move consistently -/
theorem OpsInv.worker_step {s : St} (h : OpsInv s) {w : Nat} {pc pc' : WPc}
    (hw : s.workers[w]? = some pc) (hl : pc.live = true) (hl' : pc'.live = true)
    (hsw : pc' ≠ WPc.cbDone)
    (ex : List Item) (q : List Item)
    (hfifo : s.executed ++ heldOf pc ++ s.queue = ex ++ heldOf pc' ++ q)
    (hex : ∀ x, x ∈ s.executed → x ∈ ex) :
    OpsInv { s with workers := s.workers.set w pc', executed := ex, queue := q } := by
  have hlive : liveL (s.workers.set w pc') = liveL s.workers := by
    have := liveL_set pc' hw
    simp [hl, hl'] at this
    exact this
  have hpos := liveL_pos_of_getElem? hw hl
  have hbusy : s.busy.isSome = true := by
    have := h.live
    cases hb : s.busy with
    | none => rw [hb] at this; simp at this; omega
    | some g => rfl
  exact
    { fifo := by
        show s.accepted = ex ++ heldL (s.workers.set w pc') ++ q
        rw [heldL_unique (getElem?_set_self' pc' hw) hl' (by rw [hlive]; exact h.live_le),
          ← hfifo, ← heldL_unique hw hl h.live_le]
        exact h.fifo
      live := by
        show liveL (s.workers.set w pc') = _
        rw [hlive]; exact h.live
      idleQ := by
        intro hb
        have hb' : s.busy = none := hb
        rw [hb'] at hbusy; cases hbusy
      nodup := h.nodup
      closed := h.closed
      closerRet := h.closerRet
      done := h.done.mono_ex ex hex
      fresh := h.fresh
      noSw := by
        intro hm
        rcases List.mem_or_eq_of_mem_set hm with h1 | h1
        · exact h.noSw h1
        · exact hsw h1.symm }

theorem step_preserves {m : NegMode} {s s' : St} {a : Action} (h : OpsInv s) (hs : step m s a = some s') :
    OpsInv s' := by
  cases a with
  | enqueue it =>
    simp only [step] at hs
    split at hs
    · cases hs
    · rename_i hn
      cases hs
      have hn' : ¬ (it.isCheck = true) ∧ it ∉ s.accepted := by simpa [not_or] using hn
      refine opsInv_tryEnqueue h it hn'.2 ?_
      intro k hk
      subst hk
      exact absurd rfl hn'.1
  | doneBegin d =>
    simp only [step] at hs
    split at hs
    · rename_i hd
      have hdlt : d < s.doners.length := by
        rcases Nat.lt_or_ge d s.doners.length with h1 | h1
        · exact h1
        · rw [List.getElem?_eq_none h1] at hd; cases hd
      split at hs
      · cases hs
      · rename_i hn
        cases hs
        have hinv := opsInv_tryEnqueue h (.waiter d) hn (fun k hk => by cases hk)
        obtain ⟨hdo, hsn, hex⟩ := tryEnqueue_frame s (.waiter d)
        refine hinv.with_done _ _ ?_
        rw [hdo, hsn, hex]
        cases hcl : s.isClosed with
        | false =>
          obtain ⟨hok, hacc⟩ := tryEnqueue_open (.waiter d) hcl
          rw [hok, hacc]
          exact h.done.begin hdlt _ _ _ (fun x hx => List.mem_append_left _ hx)
            (fun _ => ⟨[], by simp⟩) (fun hr => by simp at hr)
        | true =>
          rw [tryEnqueue_closed (.waiter d) hcl]
          cases hb : s.busy with
          | none =>
            have := h.done.begin hdlt DPc.returned s.accepted []
              (fun x hx => by simpa using hx) (fun hw => by cases hw)
              (fun _ => by rw [h.executed_eq_of_idle hb]; exact fun x hx => hx)
            simpa [setAt, hb] using this
          | some g =>
            have := h.done.begin hdlt (DPc.drainWaiting g) s.accepted []
              (fun x hx => by simpa using hx) (fun hw => by cases hw) (fun hr => by cases hr)
            simpa [setAt, hb] using this
    · cases hs
  | doneWake d =>
    simp only [step] at hs
    split at hs
    · split at hs
      · rename_i hd hex
        cases hs
        refine h.with_doners _ (h.done.set_pc d _ (by simp) ?_)
        intro _ snap hsn
        obtain ⟨snap', post, h1, h2⟩ := h.done.donerWait d hd
        rw [h1] at hsn
        cases hsn
        have hf := h.fifo
        rw [List.append_assoc] at hf
        exact mem_of_prefix_before h.nodup hf h2 hex
      · cases hs
    · cases hs
  | doneDrainWake d =>
    simp only [step] at hs
    split at hs
    · split at hs
      · cases hs
        exact h.with_doners _ (h.done.set_pc d _ (by simp) (fun hr => by cases hr))
      · cases hs
    · cases hs
  | doneRecheck d =>
    simp only [step] at hs
    split at hs
    · split at hs
      · rename_i hb
        cases hs
        refine h.with_doners _ (h.done.set_pc d _ (by simp) ?_)
        intro _ snap hsn x hx
        rw [h.executed_eq_of_idle hb]
        exact h.done.snapAcc d snap hsn x hx
      · cases hs
        exact h.with_doners _ (h.done.set_pc d _ (by simp) (fun hr => by cases hr))
    · cases hs
  | gcBegin c =>
    simp only [step] at hs
    split at hs
    · rename_i hc
      split at hs
      · rename_i hcl
        cases hs
        refine h.with_closers _ ?_ ?_
        · intro _ _ _ _; exact hcl
        · intro c' hc'
          rcases getElem?_set_cases hc' with h1 | h1
          · cases h1
          · exact h.closerRet c' h1
      · split at hs
        · rename_i hb
          cases hs
          refine h.with_closed.with_closers _ ?_ ?_
          · intro _ _ _ _; rfl
          · intro _ _; exact hb
        · rename_i g hb
          cases hs
          refine h.with_closed.with_closers _ ?_ ?_
          · intro _ _ _ _; rfl
          · intro c' hc'
            rcases getElem?_set_cases hc' with h1 | h1
            · cases h1
            · exact h.closerRet c' h1
    · cases hs
  | gcWake c =>
    simp only [step] at hs
    split at hs
    · rename_i g hc
      split at hs
      · cases hs
        refine h.with_closers _ ?_ ?_
        · intro _ _ _ _; exact h.closed c _ hc (by simp)
        · intro c' hc'
          rcases getElem?_set_cases hc' with h1 | h1
          · cases h1
          · exact h.closerRet c' h1
      · cases hs
    · cases hs
  | gcRecheck c =>
    simp only [step] at hs
    split at hs
    · rename_i hc
      have hcl := h.closed c _ hc (by simp)
      split at hs
      · rename_i hb
        cases hs
        refine h.with_closers _ ?_ ?_
        · intro _ _ _ _; exact hcl
        · intro _ _; exact hb
      · rename_i g hb
        cases hs
        refine h.with_closers _ ?_ ?_
        · intro _ _ _ _; exact hcl
        · intro c' hc'
          rcases getElem?_set_cases hc' with h1 | h1
          · cases h1
          · exact h.closerRet c' h1
    · cases hs
  | pop w =>
    have key : ∀ pc, s.workers[w]? = some pc → pc.live = true → heldOf pc = [] →
        OpsInv { (popQueue s).1 with
          workers := setAt (popQueue s).1.workers w (.popped (popQueue s).2) } := by
      intro pc hw hl hh
      unfold popQueue
      split
      · rename_i hq
        exact h.worker_step hw hl (pc' := .popped none) rfl (by simp) s.executed s.queue
          (by rw [hh]; simp [heldOf]) (fun _ hx => hx)
      · rename_i it rest hq
        exact h.worker_step hw hl (pc' := .popped (some it)) rfl (by simp) s.executed rest
          (by rw [hh]; simp [heldOf, hq]) (fun _ hx => hx)
    simp only [step] at hs
    split at hs
    · rename_i hw
      cases hs
      exact key _ hw rfl rfl
    · rename_i it hw
      cases hs
      exact key _ hw rfl rfl
    · cases hs
  | exec w =>
    simp only [step] at hs
    split at hs
    · rename_i it hw
      cases hs
      exact (h.worker_step hw rfl (pc' := .running it) rfl (by simp) (s.executed ++ [it]) s.queue
        (by simp [heldOf]) (fun _ hx => by simp [hx])).with_aux s.flag s.negCalls s.callers _
    · cases hs
  | afterLoop w =>
    simp only [step] at hs
    split at hs
    · rename_i hw
      cases hs
      exact (h.worker_step hw rfl (pc' := if s.flag = true then .loaded else .defer_)
        (by split <;> rfl) (by split <;> simp) s.executed s.queue
        (by split <;> simp [heldOf]) (fun _ hx => hx)).with_aux s.flag s.negCalls s.callers s.negLog false
    · cases hs
  | clearFlag w =>
    simp only [step] at hs
    split at hs
    · rename_i hw
      cases hs
      exact (h.worker_step hw rfl (pc' := .cleared) rfl (by simp) s.executed s.queue
        (by simp [heldOf]) (fun _ hx => hx)).with_aux false s.negCalls s.callers s.negLog
    · cases hs
  | cbBegin w =>
    simp only [step] at hs
    split at hs
    · rename_i hw
      cases m with
      | none =>
        cases hs
        exact (h.worker_step hw rfl (pc' := .defer_) rfl (by simp) s.executed s.queue
          (by simp [heldOf]) (fun _ hx => hx)).with_aux s.flag (s.negCalls + 1) s.callers s.negLog
      | enqueue =>
        cases hs
        have h1 : OpsInv { s with negCalls := s.negCalls + 1 } :=
          h.with_aux s.flag (s.negCalls + 1) s.callers s.negLog
        have h2 := opsInv_enqCheck h1
        have hw2 : (enqCheck { s with negCalls := s.negCalls + 1 }).workers[w]? = some WPc.cleared :=
          enqCheck_workers_get (s := { s with negCalls := s.negCalls + 1 }) hw
        exact h2.worker_step hw2 rfl (pc' := .defer_) rfl (by simp) _ _
          (by simp [heldOf]) (fun _ hx => hx)
      | rearm =>
        cases hs
        exact (h.worker_step hw rfl (pc' := .cb s.queue.isEmpty) rfl (by simp) s.executed s.queue
          (by simp [heldOf]) (fun _ hx => hx)).with_aux s.flag (s.negCalls + 1) s.callers _
    · cases hs
  | cbAct w =>
    simp only [step] at hs
    split at hs
    · rename_i e hw
      cases hs
      have h2 := opsInv_negApply h e
      have hw2 := negApply_workers_get e hw
      exact h2.worker_step hw2 rfl (pc' := .defer_) rfl (by simp) _ _
        (by simp [heldOf]) (fun _ hx => hx)
    · cases hs
  | negTest n =>
    simp only [step] at hs
    split at hs
    · cases hs
      exact h.with_aux s.flag s.negCalls _ _
    · cases hs
  | negAct n =>
    simp only [step] at hs
    split at hs
    · rename_i e hn
      cases hs
      have h2 := opsInv_negApply h e
      exact h2.with_aux _ _ _ _
    · cases hs
  | deferred w =>
    simp only [step] at hs
    split at hs
    · rename_i hw
      split at hs
      · cases hs
      · rename_i g hb
        have hl := h.live
        rw [hb] at hl
        simp at hl
        have hset := liveL_set .fin hw
        simp [WPc.live] at hset
        have hl0 : liveL (s.workers.set w .fin) = 0 := by omega
        have hh0 := heldL_of_liveL_zero hl0
        have hheld : heldL s.workers = [] := by
          rw [heldL_unique hw rfl h.live_le]; rfl
        have hf := h.fifo
        rw [hheld] at hf
        split at hs
        · rename_i hq
          cases hs
          have hq' : s.queue = [] := by simpa using hq
          exact
            { fifo := by
                show s.accepted = s.executed ++ heldL (s.workers.set w .fin) ++ s.queue
                rw [hh0]; exact hf
              live := by
                show liveL (s.workers.set w .fin) = _
                rw [hl0]; rfl
              idleQ := fun _ => hq'
              nodup := h.nodup
              closed := h.closed
              closerRet := fun _ _ => rfl
              done := h.done
              fresh := h.fresh
              noSw := by
                intro hm
                rcases List.mem_or_eq_of_mem_set hm with h1 | h1
                · exact h.noSw h1
                · cases h1 }
        · rename_i hq
          cases hs
          exact
            { fifo := by
                show s.accepted = s.executed ++ heldL (s.workers.set w .fin ++ [.start]) ++ s.queue
                rw [heldL_snoc_start, hh0]; exact hf
              live := by
                show liveL (s.workers.set w .fin ++ [.start]) = _
                rw [liveL_snoc_start, hl0]; rfl
              idleQ := by
                intro hb'
                cases hb'
              nodup := h.nodup
              closed := h.closed
              closerRet := by
                intro c hc
                have := h.closerRet c hc
                rw [hb] at this; cases this
              done := h.done
              fresh := h.fresh
              noSw := by
                show WPc.cbDone ∉ s.workers.set w .fin ++ [.start]
                intro hm
                rcases List.mem_append.mp hm with h0 | h0
                · rcases List.mem_or_eq_of_mem_set h0 with h1 | h1
                  · exact h.noSw h1
                  · cases h1
                · simp at h0 }
    · cases hs
  | setFlag =>
    simp only [step] at hs
    cases hs
    exact h.with_aux true s.negCalls s.callers _ true

theorem opsInv_of_reachable {m : NegMode} {nc nd nn : Nat} {s : St} (h : Reachable m nc nd nn s) :
    OpsInv s := by
  induction h with
  | init => exact opsInv_init nc nd nn
  | step a _ hs ih => exact step_preserves ih hs

/-! ### corollaries used by the C05 theorems -/

theorem exists_live_of_liveL_pos {l : List WPc} (h : 1 ≤ liveL l) :
    ∃ (w : Nat) (pc : WPc), l[w]? = some pc ∧ pc.live = true := by
  induction l with
  | nil => simp at h
  | cons p l ih =>
    rw [liveL_cons] at h
    by_cases hp : p.live = true
    · exact ⟨0, p, by simp, hp⟩
    · simp [hp] at h
      obtain ⟨w, pc, hw, hl⟩ := ih h
      exact ⟨w + 1, pc, by simpa using hw, hl⟩

theorem OpsInv.executed_eq_of_quiescent {s : St} (h : OpsInv s) (hq : quiescent s) :
    s.executed = s.accepted := by
  have hq' : liveL s.workers = 0 := hq
  have hb : s.busy = none := by
    have := h.live
    cases hb : s.busy with
    | none => rfl
    | some g => rw [hb, hq'] at this; simp at this
  rw [h.fifo, heldL_of_liveL_zero hq', h.idleQ hb]
  simp

/-- a live worker always has an enabled action -/
theorem OpsInv.live_worker_enabled {s : St} (h : OpsInv s) (m : NegMode) {w : Nat} {pc : WPc}
    (hw : s.workers[w]? = some pc) (hl : pc.live = true) :
    ∃ a ∈ workerActions w, (step m s a).isSome = true := by
  cases pc with
  | start => exact ⟨.pop w, by simp [workerActions], by simp [step, hw]⟩
  | popped fn =>
    cases fn with
    | none => exact ⟨.afterLoop w, by simp [workerActions], by simp [step, hw]⟩
    | some it => exact ⟨.exec w, by simp [workerActions], by simp [step, hw]⟩
  | running it => exact ⟨.pop w, by simp [workerActions], by simp [step, hw]⟩
  | loaded => exact ⟨.clearFlag w, by simp [workerActions], by simp [step, hw]⟩
  | cleared =>
    refine ⟨.cbBegin w, by simp [workerActions], ?_⟩
    cases m <;> simp [step, hw]
  | cb e => exact ⟨.cbAct w, by simp [workerActions], by simp [step, hw]⟩
  | cbDone => exact absurd (List.mem_of_getElem? hw) h.noSw
  | defer_ =>
    refine ⟨.deferred w, by simp [workerActions], ?_⟩
    have hl := h.live
    have hpos := liveL_pos_of_getElem? hw rfl
    cases hb : s.busy with
    | none => rw [hb] at hl; simp at hl; omega
    | some g =>
      simp only [step, hw, hb]
      split <;> rfl
  | fin => cases hl

theorem OpsInv.worker_enabled {s : St} (h : OpsInv s) (m : NegMode) (hne : s.executed ≠ s.accepted) :
    ∃ w, ∃ a ∈ workerActions w, (step m s a).isSome = true := by
  have hpos : 1 ≤ liveL s.workers := by
    rcases Nat.eq_zero_or_pos (liveL s.workers) with h0 | h0
    · exact absurd (h.executed_eq_of_quiescent h0) hne
    · exact h0
  obtain ⟨w, pc, hw, hl⟩ := exists_live_of_liveL_pos hpos
  exact ⟨w, h.live_worker_enabled m hw hl⟩

theorem OpsInv.snap_length {s : St} (h : OpsInv s) : s.doneSnap.length = s.doners.length :=
  h.done.snapLen

end WebrtcVerif.Ops
