import WebrtcVerif.Proofs.CloseInv
/-!
  Finality of the closed state and the shape of the notification log (lemmas for Props/C21.lean).
-/
namespace WebrtcVerif.Close
open WebrtcVerif.ConnState

/-- what a close()-caller step does to the connection state and the notification log -/
theorem cstepFn_conn {s s1 : St} {c : Nat} {cl cl' : Closer} (h : cstepFn s c cl = some (s1, cl')) :
    (s1.conn = s.conn ∧ s1.notified = s.notified)
    ∨ ∃ x, s1.conn = (storeSection s x).conn ∧ s1.notified = (storeSection s x).notified := by
  obtain ⟨g, role, pc⟩ := cl
  cases pc <;> simp [cstepFn] at h <;>
    first
    | (obtain ⟨rfl, rfl⟩ := h; simp [gracefulOps]; done)
    | (obtain ⟨_, rfl, rfl⟩ := h; simp; done)
    | (cases role <;> simp at h <;> obtain ⟨rfl, rfl⟩ := h <;> simp; done)
    | (obtain ⟨rfl, rfl⟩ := h; exact Or.inr ⟨_, rfl, rfl⟩)

/-- flags that never go back -/
theorem cstepFn_mono {s s1 : St} {c : Nat} {cl cl' : Closer} (h : cstepFn s c cl = some (s1, cl')) :
    (s.sigClosed = true → s1.sigClosed = true) ∧ (s.closeDone = true → s1.closeDone = true)
    ∧ (s.gracefulDone = true → s1.gracefulDone = true) := by
  obtain ⟨g, role, pc⟩ := cl
  cases pc <;> simp [cstepFn] at h <;>
    first
    | (obtain ⟨rfl, rfl⟩ := h; simp [gracefulOps, storeSection]; done)
    | (obtain ⟨_, rfl, rfl⟩ := h; simp; done)
    | (cases role <;> simp at h <;> obtain ⟨rfl, rfl⟩ := h <;> simp; done)

theorem storeSection_final {s : St} (x : Pc) (hr : s.retest = true) (hc : s.isClosed = true)
    (hconn : s.conn = .closed) :
    (storeSection s x).conn = .closed ∧ (storeSection s x).notified = s.notified := by
  simp [storeSection, storeTarget, hr, hc, hconn]

/-- once closed, final: no action changes the observable state -/
theorem final_step {s s' : St} {a : Action} (hi : CloseInv s) (hf : Final s) (h : step s a = some s') :
    Final s' ∧ s'.notified = s.notified ∧ s'.negVersion = s.negVersion := by
  obtain ⟨hc, hsig, hconn⟩ := hf
  cases a with
  | cstep c =>
    simp only [step] at h
    cases hcl : s.closers[c]? with
    | none => simp [hcl] at h
    | some cl =>
      cases hfn : cstepFn s c cl with
      | none => simp [hcl, hfn] at h
      | some r =>
        obtain ⟨s1, cl'⟩ := r
        simp only [hcl, hfn, Option.some.injEq] at h
        subst h
        have h1 := cstepFn_isClosed hfn hc
        have h2 := (cstepFn_mono hfn).1 hsig
        have h4 := (cstepFn_closers hfn).2.2.2.2.1
        rcases cstepFn_conn hfn with ⟨e1, e2⟩ | ⟨x, e1, e2⟩
        · exact ⟨⟨h1, h2, by simp only; rw [e1, hconn]⟩, e2, h4⟩
        · have := storeSection_final x hi.g.retest hc hconn
          exact ⟨⟨h1, h2, by simp only; rw [e1, this.1]⟩, by simp only; rw [e2, this.2], h4⟩
  | uCompute u ice dtls =>
    simp only [step] at h
    split at h
    · cases h; exact ⟨⟨hc, hsig, hconn⟩, rfl, rfl⟩
    · cases h
  | uStore u =>
    simp only [step] at h
    split at h
    · rename_i x hu
      cases h
      have := storeSection_final x hi.g.retest hc hconn
      exact ⟨⟨hc, hsig, this.1⟩, this.2, rfl⟩
    · cases h
  | api a env =>
    simp only [step, Option.some.injEq] at h
    subst h
    refine ⟨⟨hc, hsig, hconn⟩, rfl, ?_⟩
    simp only [hc]
    cases a <;> simp [apiOutcome] <;> (repeat' split) <;> simp_all
  | env ice dtls =>
    simp only [step, Option.some.injEq] at h
    subst h
    exact ⟨⟨hc, hsig, hconn⟩, rfl, rfl⟩
  | lDeliver l =>
    simp only [step] at h
    split at h <;> (try split at h) <;> cases h
    exact ⟨⟨hc, hsig, hconn⟩, rfl, rfl⟩
  | lReturn l =>
    simp only [step] at h
    split at h <;> cases h
    exact ⟨⟨hc, hsig, hconn⟩, rfl, rfl⟩
  | lExit l =>
    simp only [step] at h
    split at h <;> cases h
    exact ⟨⟨hc, hsig, hconn⟩, rfl, rfl⟩

/-! ### the notification log: `closed` at most once; the last report is the stored state -/

def NInv (c0 : Pc) (s : St) : Prop :=
  s.notified.count .closed ≤ 1 ∧ ((s.notified = [] ∧ s.conn = c0) ∨ s.notified.getLast? = some s.conn)

theorem storeSection_ninv {c0 : Pc} {s : St} (x : Pc) (hn : NInv c0 s)
    (hnc : Pc.closed ∈ s.notified → s.conn = .closed) :
    (storeSection s x).notified.count .closed ≤ 1
    ∧ (((storeSection s x).notified = [] ∧ (storeSection s x).conn = c0)
        ∨ (storeSection s x).notified.getLast? = some (storeSection s x).conn) := by
  simp only [storeSection]
  split
  · rename_i heq
    rw [← heq]; exact hn
  · rename_i hne
    refine ⟨?_, Or.inr (by simp)⟩
    rw [List.count_append]
    by_cases hx : storeTarget s x = .closed
    · have : Pc.closed ∉ s.notified := fun hm => hne (by rw [hx]; exact hnc hm)
      rw [List.count_eq_zero_of_not_mem this, hx]; simp
    · have : List.count Pc.closed [storeTarget s x] = 0 := by
        simp [List.count_singleton]; exact fun e => hx e
      rw [this]; exact hn.1

theorem ninv_step {c0 : Pc} {s s' : St} {a : Action} (hi : CloseInv s) (hn : NInv c0 s) (h : step s a = some s') :
    NInv c0 s' := by
  have hnc : Pc.closed ∈ s.notified → s.conn = .closed := fun hm => (hi.g.notifiedClosed hm).2
  cases a with
  | cstep c =>
    simp only [step] at h
    cases hcl : s.closers[c]? with
    | none => simp [hcl] at h
    | some cl =>
      cases hfn : cstepFn s c cl with
      | none => simp [hcl, hfn] at h
      | some r =>
        obtain ⟨s1, cl'⟩ := r
        simp only [hcl, hfn, Option.some.injEq] at h
        subst h
        rcases cstepFn_conn hfn with ⟨e1, e2⟩ | ⟨x, e1, e2⟩
        · simp only [NInv, e1, e2]; exact hn
        · simp only [NInv, e1, e2]; exact storeSection_ninv x hn hnc
  | uCompute u ice dtls =>
    simp only [step] at h
    split at h
    · cases h; exact hn
    · cases h
  | uStore u =>
    simp only [step] at h
    split at h
    · rename_i x hu
      cases h
      exact storeSection_ninv x hn hnc
    · cases h
  | api a env => simp only [step, Option.some.injEq] at h; subst h; exact hn
  | env ice dtls => simp only [step, Option.some.injEq] at h; subst h; exact hn
  | lDeliver l => simp only [step] at h; split at h <;> (try split at h) <;> cases h; exact hn
  | lReturn l => simp only [step] at h; split at h <;> cases h; exact hn
  | lExit l => simp only [step] at h; split at h <;> cases h; exact hn

theorem ninv_of_reachable {gs : List Bool} {nu : Nat} {c0 : Pc} {s : St} (h : Reachable gs nu c0 s) : NInv c0 s := by
  induction h with
  | init ls => exact ⟨by simp [init], Or.inl ⟨rfl, rfl⟩⟩
  | step a hr hs ih => exact ninv_step (closeInv_of_reachable hr) ih hs

/-! ### consequences of the invariant used by several theorems -/

theorem canon_take_11 : BStep.canon.take 11 = BStep.canon := rfl

/-- the main caller has finished the body (it is at a deferred close or has returned) -/
theorem body_complete_of_main {s : St} {m : Nat} {clm : Closer} (hok : COk s m clm) (hr : clm.role = .main)
    (hp : prog clm.pc = 11) : s.bodyLog = BStep.canon := by
  rw [hok.mainLog hr, hp]; rfl

/-- isCloseDone closed ⇒ the body is complete -/
theorem body_complete_of_closeDone {s : St} (hi : CloseInv s) (hcd : s.closeDone = true) :
    s.bodyLog = BStep.canon := by
  cases hm : s.mainIdx with
  | none => have := (hi.g.noMain hm).1; rw [hcd] at this; cases this
  | some m =>
    obtain ⟨clm, hclm, hrm⟩ := hi.mainAt m hm
    have hok := hi.each m clm hclm
    have := hok.mainCloseDone hrm
    rw [hcd] at this
    apply body_complete_of_main hok hrm
    cases hpc : clm.pc <;> simp [hpc, CPc.isReturned] at this
    simp [prog]

/-- isGracefulCloseDone closed ⇒ the body is complete and the graceful operations have run once -/
theorem body_complete_of_gracefulDone {s : St} (hi : CloseInv s) (hgd : s.gracefulDone = true) :
    s.bodyLog = BStep.canon ∧ s.opsCloses = 1 := by
  cases ho : s.gOwner with
  | none => have := (hi.g.noOwner ho).1; rw [hgd] at this; cases this
  | some o =>
    obtain ⟨clo, hclo, hown⟩ := hi.ownerAt o ho
    have hok := hi.each o clo hclo
    have hp := hok.ownerGDone hown
    rw [hgd] at hp
    have hops := hok.ownerOps hown
    obtain ⟨g, role, pc⟩ := clo
    have hal := hok.allowed
    cases role <;> simp [isOwner] at hown
    · -- tailer
      cases pc <;> simp [pastDG, allowed] at hp hal
      refine ⟨body_complete_of_closeDone hi (hok.tailerPast rfl (by simp [pastWait])), ?_⟩
      simpa [gDone] using hops
    · -- main
      cases pc <;> simp [pastDG] at hp
      · exact ⟨body_complete_of_main hok rfl (by simp [prog]), by simpa [gDone] using hops⟩
      · exact ⟨body_complete_of_main hok rfl (by simp [prog]), by simpa [gDone] using hops⟩

/-- body complete ⇒ the final state -/
theorem final_of_body_complete {s : St} (hi : CloseInv s) (hb : s.bodyLog = BStep.canon) : Final s := by
  refine ⟨hi.g.logClosed (by rw [hb]; simp [BStep.canon]), ?_, hi.g.stored (by rw [hb]; decide)⟩
  rw [hi.g.sig, hb]; decide

/-- isGracefulCloseDone closed ⇒ every data-channel read loop goroutine has ended -/
theorem joined_of_gracefulDone {s : St} (hi : CloseInv s) (hgd : s.gracefulDone = true) :
    allExited s.loops = true := by
  cases ho : s.gOwner with
  | none => have := (hi.g.noOwner ho).1; rw [hgd] at this; cases this
  | some o =>
    obtain ⟨clo, hclo, hown⟩ := hi.ownerAt o ho
    have hok := hi.each o clo hclo
    have hp := hok.ownerGDone hown
    rw [hgd] at hp
    apply hok.ownerJoined hown
    obtain ⟨g, role, pc⟩ := clo
    cases role <;> cases pc <;> simp [pastDG] at hp <;> simp [pastJoin]

/-- a read loop goroutine that has ended stays ended -/
theorem allExited_step {s s' : St} {a : Action} (h : step s a = some s') (he : allExited s.loops = true) :
    allExited s'.loops = true := by
  cases a with
  | cstep c =>
    simp only [step] at h
    cases hcl : s.closers[c]? with
    | none => simp [hcl] at h
    | some cl =>
      cases hfn : cstepFn s c cl with
      | none => simp [hcl, hfn] at h
      | some r =>
        obtain ⟨s1, cl'⟩ := r
        simp only [hcl, hfn, Option.some.injEq] at h
        subst h
        have := (cstepFn_closers hfn).2.2.2.2.2
        simp only; rw [this]; exact he
  | uCompute u ice dtls => simp only [step] at h; split at h <;> cases h; exact he
  | uStore u => simp only [step] at h; split at h <;> cases h; exact he
  | api a env => simp only [step, Option.some.injEq] at h; subst h; exact he
  | env ice dtls => simp only [step, Option.some.injEq] at h; subst h; exact he
  | lDeliver l =>
    simp only [step] at h
    split at h
    · rename_i hl; have := allExited_getElem he hl; cases this
    · cases h
  | lReturn l =>
    simp only [step] at h
    split at h
    · rename_i hl; have := allExited_getElem he hl; cases this
    · cases h
  | lExit l =>
    simp only [step] at h
    split at h
    · rename_i hl; have := allExited_getElem he hl; cases this
    · cases h

end WebrtcVerif.Close
