import WebrtcVerif.Proofs.SampleBuilderHistory
/-!
  "No packet contributes to two samples", by packet identity, over whole histories — under the window
  hypothesis that the filled range never spans half the ring (ghost monitor `wide`).
-/
namespace WebrtcVerif.SampleBuilder

/-! ### a forced purge also releases what lags behind the consumed range -/

theorem compare_before_of_lag (c : Loc) (x : UInt16) (hc : c.head ≠ c.tail) (h0 : 0 < dist x c.head)
    (h : 2 * dist x c.head + dist c.head c.tail ≤ 65536) : c.compare x = .before := by
  have h1 := c.head.toNat_lt; have h2 := c.tail.toNat_lt; have h3 := x.toNat_lt
  have hne : c.head.toNat ≠ c.tail.toNat := fun e => hc (UInt16.toNat_inj.mp e)
  have hw : ¬ c.within x = true := by
    rw [within_iff c x hc]
    unfold dist at *
    simp only [UInt16.toNat_sub] at *
    omega
  have hb : c.head - x ≤ x - c.tail := by
    unfold dist at *
    simp only [UInt16.le_iff_toNat_le, UInt16.toNat_sub] at *
    omega
  unfold Loc.compare
  rw [if_neg hc, if_neg hw, if_pos hb]

theorem purgeLoc_lag : ∀ (lag n : Nat) (s : State) (c : Loc), c.head ≠ c.tail →
    dist s.filled.head c.head = lag →
    lag + dist c.head c.tail ≤ dist s.filled.head s.filled.tail →
    2 * lag + dist c.head c.tail ≤ 65536 → lag + dist c.head c.tail < n →
      purgeLoc n s c true = releaseN (lag + dist c.head c.tail) s := by
  intro lag
  induction lag with
  | zero =>
    intro n s c hc hlag hle _ hn
    have : s.filled.head = c.head := dist_eq_zero hlag
    rw [Nat.zero_add] at hle hn ⊢
    exact purgeLoc_force _ n s c hle hc (by rw [this, dist_self, Nat.zero_add]) hn
  | succ lag ih =>
    intro n s c hc hlag hle h2 hn
    cases n with
    | zero => omega
    | succ n =>
      have hf : s.filled.head ≠ s.filled.tail := by
        intro e; rw [e, dist_self] at hle; omega
      have hne : s.filled.head ≠ c.head := by
        intro e; rw [e, dist_self] at hlag; omega
      have hd := dist_succ s.filled.head s.filled.tail hf
      have hd' := dist_succ s.filled.head c.head hne
      have hcmp := compare_before_of_lag c s.filled.head hc (by omega) (by omega)
      unfold purgeLoc
      rw [if_neg hf, hcmp]
      simp only
      rw [ih n (releaseHead s) c hc (by simp only [releaseHead_head]; omega)
        (by simp only [releaseHead_head, releaseHead_tail]; omega) (by omega) (by omega)]
      have : lag + 1 + dist c.head c.tail = (lag + dist c.head c.tail) + 1 := by omega
      rw [this]
      rfl

/-- In a state with no stray packet whose filled range spans less than half the ring, a built sample's
    slots are all nil afterwards — wherever `filled.head` stood. -/
theorem buildSample_clears {d : Depack} {s s' : State} {p : Bool} {sm : Sample}
    (h : buildSample d s p = (s', some sm)) (hs : NonStray s)
    (hw : dist s.filled.head s.filled.tail < 32768) :
    ∀ j, j < sm.pkts.length → s'.buffer.get (adv (readHead s) j) = none := by
  obtain ⟨k, hk0, hk1, hlen, hget, _, _, _, hemit, _⟩ := buildSample_run h
  obtain ⟨_, _, _, _, _, _, _, _, _, _, hs'⟩ := emit_some hemit
  rw [hlen]
  -- every consumed slot lies inside `filled`
  have hin : ∀ j, j < k → dist s.filled.head (adv (readHead s) j) < dist s.filled.head s.filled.tail := by
    intro j hj
    exact hs _ _ (hget j (by omega))
  have hdj : ∀ j, dist s.filled.head (adv (readHead s) j) = (dist s.filled.head (readHead s) + j) % 65536 := by
    intro j
    have h1 := s.filled.head.toNat_lt; have h2 := (readHead s).toNat_lt
    unfold dist
    simp only [UInt16.toNat_sub, toNat_adv]
    omega
  have hlag0 := hin 0 hk0
  rw [adv_zero] at hlag0
  have hfit : dist s.filled.head (readHead s) + k ≤ dist s.filled.head s.filled.tail := by
    apply Classical.byContradiction
    intro hcon
    have hj : dist s.filled.head s.filled.tail - dist s.filled.head (readHead s) < k := by omega
    have := hin _ hj
    rw [hdj] at this
    omega
  have hne : readHead s ≠ adv (readHead s) k := adv_ne_self _ k hk0 hk1
  have hrh : (extend (reseed s)).active.head = readHead s := extend_head _
  have hdk : dist (readHead s) (adv (readHead s) k) = k := dist_adv _ k hk1
  rw [hrh] at hs'
  have hA : (afterEmit (extend (reseed s)) (adv (readHead s) k) sm).filled = s.filled := by
    simp [afterEmit]
  have hlagEq : purgeLoc (ringFuel + 1) (afterEmit (extend (reseed s)) (adv (readHead s) k) sm)
      { head := readHead s, tail := adv (readHead s) k } true
      = releaseN (dist s.filled.head (readHead s) + k) (afterEmit (extend (reseed s)) (adv (readHead s) k) sm) := by
    have := purgeLoc_lag (dist s.filled.head (readHead s)) (ringFuel + 1)
      (afterEmit (extend (reseed s)) (adv (readHead s) k) sm)
      { head := readHead s, tail := adv (readHead s) k } hne
      (by rw [hA])
      (by rw [hA]; simp only; rw [hdk]; exact hfit)
      (by simp only; rw [hdk]; omega)
      (by simp only; rw [hdk]; unfold ringFuel; omega)
    simp only at this
    rw [hdk] at this
    exact this
  intro j hj
  rw [hs']
  unfold finishPurge
  rw [hlagEq]
  obtain ⟨k2, hk2⟩ := purgeConsumed_progress (releaseN (dist s.filled.head (readHead s) + k)
    (afterEmit (extend (reseed s)) (adv (readHead s) k) sm))
  rw [hk2.buf]
  split
  · rfl
  · rw [releaseN_get, hA]
    have := hdj j
    rw [if_pos (by rw [this]; omega)]

/-! ### the invariant: emitted ids are pairwise distinct and gone from the buffer -/

/-- ids of the packets of every sample built so far -/
def emittedIds (s : State) : List Nat := (s.built.flatMap (·.pkts)).map (·.id)

structure Once (n : Nat) (d : Depack) (s : State) : Prop where
  inv : Inv (fun p => p.id < n) d s
  narrow : dist s.filled.head s.filled.tail < 32768
  nodup : (emittedIds s).Nodup
  fresh : ∀ i p, s.buffer.get i = some p → p.id ∉ emittedIds s
  bound : ∀ x ∈ emittedIds s, x < n
  inj : ∀ i j p q, s.buffer.get i = some p → s.buffer.get j = some q → p.id = q.id → i = j

theorem Progress.sub {s r : State} {k : Nat} (h : Progress s r k) {i : UInt16} {p : Packet}
    (hg : r.buffer.get i = some p) : s.buffer.get i = some p := by
  rw [h.buf i] at hg
  split at hg
  · cases hg
  · exact hg

/-- steps that only release packets and do not build a sample -/
theorem Progress.once {n : Nat} {d : Depack} {s r : State} {k : Nat} (h : Progress s r k)
    (hb : r.built = s.built) (hi : Inv (fun p => p.id < n) d r) (ho : Once n d s) : Once n d r := by
  have he : emittedIds r = emittedIds s := by unfold emittedIds; rw [hb]
  refine ⟨hi, by rw [h.dist_eq]; have := ho.narrow; omega, by rw [he]; exact ho.nodup, ?_, by rw [he]; exact ho.bound, ?_⟩
  · intro i p hg; rw [he]; exact ho.fresh i p (h.sub hg)
  · intro i j p q hp hq; exact ho.inj i j p q (h.sub hp) (h.sub hq)

theorem buildSample_built (d : Depack) (s : State) (p : Bool) :
    (buildSample d s p).1.built =
      match (buildSample d s p).2 with
      | some sm => sm :: s.built
      | none => s.built := by
  cases hb : buildSample d s p with
  | mk s' r =>
    cases r with
    | some sm =>
      obtain ⟨_, _, _, _, _, _, _, _, hemit, _⟩ := buildSample_run hb
      obtain ⟨_, _, _, _, _, _, _, _, _, _, hs'⟩ := emit_some hemit
      simp only
      rw [hs', (finishPurge_same _ _).built]
      simp [afterEmit, reseed, extend]
      split <;> (try split) <;> rfl
    | none =>
      simp only
      unfold buildSample at hb
      simp only at hb
      have hre : (reseed s).built = s.built := by unfold reseed; split <;> rfl
      have hex : (extend (reseed s)).built = s.built := by unfold extend; split <;> exact hre
      split at hb
      · cases hb; exact hre
      · split at hb
        · cases hb; exact hex
        · split at hb
          · cases hb; exact hex
          · split at hb
            · cases hb; exact hex
            · unfold emit at hb
              simp only at hb
              split at hb
              · cases hb; exact hex
              · cases hb; exact hex
              · split at hb
                · simp only [Prod.mk.injEq] at hb
                  rw [← hb.1, (finishPurge_same _ _).built]
                  exact hex
                · split at hb
                  · cases hb; exact hex
                  · simp at hb

theorem buildSample_once {n : Nat} {d : Depack} (s : State) (p : Bool) (ho : Once n d s) :
    Once n d (buildSample d s p).1 := by
  obtain ⟨k, hk, _⟩ := buildSample_progress d s p
  have hinv := (buildSample_inv s p ho.inv).1
  have hbuilt := buildSample_built d s p
  cases hr : (buildSample d s p).2 with
  | none =>
    rw [hr] at hbuilt
    exact hk.once hbuilt hinv ho
  | some sm =>
    rw [hr] at hbuilt
    have hb : buildSample d s p = ((buildSample d s p).1, some sm) := by rw [← hr]
    obtain ⟨kk, hk0, hk1, hlen, hget, _⟩ := buildSample_run hb
    have hclear := buildSample_clears hb ho.inv.stray ho.narrow
    have hids : emittedIds (buildSample d s p).1 = sm.pkts.map (·.id) ++ emittedIds s := by
      unfold emittedIds; rw [hbuilt]; simp
    -- the sample's own ids: distinct, new, below the bound
    have hmem : ∀ x ∈ sm.pkts.map (·.id), ∃ j, ∃ (hj : j < sm.pkts.length), sm.pkts[j].id = x := by
      intro x hx
      obtain ⟨q, hq, rfl⟩ := List.mem_map.mp hx
      obtain ⟨j, hj, rfl⟩ := List.getElem_of_mem hq
      exact ⟨j, hj, rfl⟩
    have hsmNodup : (sm.pkts.map (·.id)).Nodup := by
      rw [List.nodup_iff_pairwise_ne, List.pairwise_iff_getElem]
      intro a b ha hb' hab heq
      simp only [List.length_map] at ha hb'
      simp only [List.getElem_map] at heq
      have := ho.inj _ _ _ _ (hget a ha) (hget b hb') heq
      exact adv_ne (readHead s) a b hab (by omega) this
    refine ⟨hinv, by rw [hk.dist_eq]; have := ho.narrow; omega, ?_, ?_, ?_, ?_⟩
    · rw [hids, List.nodup_append]
      refine ⟨hsmNodup, ho.nodup, ?_⟩
      intro a ha b hb' hab
      obtain ⟨j, hj, rfl⟩ := hmem a ha
      exact ho.fresh _ _ (hget j hj) (hab ▸ hb')
    · intro i q hg
      rw [hids, List.mem_append]
      intro hor
      rcases hor with hor | hor
      · obtain ⟨j, hj, hid⟩ := hmem _ hor
        have hi := ho.inj _ _ _ _ (hk.sub hg) (hget j hj) hid.symm
        rw [hi, hclear j hj] at hg
        cases hg
      · exact ho.fresh i q (hk.sub hg) hor
    · intro x hx
      rw [hids, List.mem_append] at hx
      rcases hx with hx | hx
      · obtain ⟨j, hj, rfl⟩ := hmem x hx
        exact (ho.inv.slot _ _ (hget j hj)).2
      · exact ho.bound x hx
    · intro i j q r hq hr'
      exact ho.inj i j q r (hk.sub hq) (hk.sub hr')

/-! ### the invariant through the purge loop, Push, Pop, Flush -/

theorem releaseHead_once {n : Nat} {d : Depack} (s : State) (ho : Once n d s)
    (hf : s.filled.head ≠ s.filled.tail) : Once n d (releaseHead s) := by
  have := dist_succ s.filled.head s.filled.tail hf
  exact (releaseN_progress 1 s (by omega)).once rfl (releaseHead_inv s ho.inv hf) ho

theorem reseed_once {n : Nat} {d : Depack} (s : State) (ho : Once n d s) : Once n d (reseed s) :=
  (reseed_progress s).once (by unfold reseed; split <;> rfl)
    ((reseed_progress s).inv_of_prep ho.inv (reseed_preparedSamples s)) ho

theorem purgeStep_once {n : Nat} {d : Depack} (s : State) (ho : Once n d s)
    (hf : s.filled.head ≠ s.filled.tail) : Once n d (purgeStep d s).1 := by
  have hr := reseed_once s ho
  have hrf : (reseed s).filled = s.filled := reseed_filled s
  unfold purgeStep
  simp only
  split
  · have hb := buildSample_once (reseed s) true hr
    split
    · rename_i s2 sm heq
      rw [heq] at hb; exact hb
    · rename_i s2 heq
      rw [heq] at hb
      split
      · exact hb
      · rename_i hdata
        have hf2 : s2.filled.head ≠ s2.filled.tail := by simpa [Loc.hasData] using hdata
        have hp0 : Progress s2 (dropOne s2) 0 := Progress.of_eq rfl rfl rfl rfl rfl rfl rfl rfl
        have hdrop : Once n d (dropOne s2) := hp0.once rfl (hp0.inv_of_prep hb.inv rfl) hb
        exact releaseHead_once (dropOne s2) hdrop hf2
  · exact releaseHead_once (reseed s) hr (by rw [hrf]; exact hf)

theorem purgeLoop_once {n : Nat} {d : Depack} (flush : Bool) : ∀ (m : Nat) (s : State),
    Once n d s → Once n d (purgeLoop d flush m s) := by
  intro m
  induction m with
  | zero =>
    intro s ho
    exact ⟨⟨ho.inv.slot, ho.inv.stray, ho.inv.prep⟩, ho.narrow, ho.nodup, ho.fresh, ho.bound, ho.inj⟩
  | succ m ih =>
    intro s ho
    unfold purgeLoop
    split
    · rename_i hcond
      have hstep := purgeStep_once s ho (purgeCond_hasData hcond)
      split
      · rename_i s2 heq; rw [heq] at hstep; exact ih s2 hstep
      · rename_i s2 heq; rw [heq] at hstep; exact hstep
    · exact ho

theorem purgeBuffers_once {n : Nat} {d : Depack} (s : State) (flush : Bool) (ho : Once n d s) :
    Once n d (purgeBuffers d s flush) := by
  obtain ⟨_, hk⟩ := purgeConsumed_progress s
  have h1 : Once n d (purgeConsumed s) :=
    hk.once (purgeLoc_same _ s _ false (ringFuel_gt s)).built (purgeConsumed_inv s ho.inv) ho
  exact purgeLoop_once flush _ _ h1

theorem Inv.mono {P P' : Packet → Prop} {d : Depack} {s : State} (h : Inv P d s) (hm : ∀ p, P p → P' p) :
    Inv P' d s :=
  ⟨fun i p hg => ⟨(h.slot i p hg).1, hm p (h.slot i p hg).2⟩, h.stray,
   fun i sm hg => ⟨(h.prep i sm hg).consecutive, fun q hq => hm q ((h.prep i sm hg).pushed q hq),
     (h.prep i sm hg).sameTs, (h.prep i sm hg).head, (h.prep i sm hg).data⟩⟩

theorem insert_fields (s : State) (p : Packet) :
    (insert s p).built = s.built ∧
    (insert s p).buffer = s.buffer.set p.seq (some p) ∧
    ((insert s p).wide = false → dist (insert s p).filled.head (insert s p).filled.tail < 32768) := by
  unfold insert
  simp only
  cases s.filled.compare p.seq <;> simp only <;> refine ⟨trivial, trivial, ?_⟩ <;> intro h <;>
    simp only [Bool.or_eq_false_iff, decide_eq_false_iff_not] at h <;> unfold dist <;> omega

theorem insert_once {n : Nat} {d : Depack} (s : State) (p : Packet) (ho : Once n d s) (hid : p.id = n)
    (hring : (insert s p).ringFull = false) (hwide : (insert s p).wide = false) :
    Once (n + 1) d (insert s p) := by
  obtain ⟨hbuilt, hbuf, hnarrow⟩ := insert_fields s p
  have hinv : Inv (fun q => q.id < n + 1) d (insert s p) :=
    insert_inv s p (ho.inv.mono (fun q (hq : q.id < n) => Nat.lt_succ_of_lt hq)) (by simp [hid]) hring
  have he : emittedIds (insert s p) = emittedIds s := by unfold emittedIds; rw [hbuilt]
  have hget : ∀ i q, (insert s p).buffer.get i = some q → (i = p.seq ∧ q = p) ∨ s.buffer.get i = some q := by
    intro i q hq
    rw [hbuf, Buf.get_set] at hq
    split at hq
    · rename_i e; cases hq; exact Or.inl ⟨e, rfl⟩
    · exact Or.inr hq
  refine ⟨hinv, hnarrow hwide, by rw [he]; exact ho.nodup, ?_, ?_, ?_⟩
  · intro i q hq
    rw [he]
    rcases hget i q hq with ⟨_, rfl⟩ | hold
    · intro hmem; have := ho.bound _ hmem; omega
    · exact ho.fresh i q hold
  · intro x hx; rw [he] at hx; have := ho.bound x hx; omega
  · intro i j q r hq hr hqr
    rcases hget i q hq with ⟨ei, rfl⟩ | hoi
    · rcases hget j r hr with ⟨ej, _⟩ | hoj
      · rw [ei, ej]
      · have hlt : r.id < n := (ho.inv.slot j r hoj).2
        omega
    · rcases hget j r hr with ⟨_, rfl⟩ | hoj
      · have hlt : q.id < n := (ho.inv.slot i q hoi).2
        omega
      · exact ho.inj i j q r hoi hoj hqr

theorem push_once {n : Nat} {d : Depack} (s : State) (p : Packet) (ho : Once n d s) (hid : p.id = n)
    (hring : (push d s p).ringFull = false) (hwide : (push d s p).wide = false) :
    Once (n + 1) d (push d s p) := by
  unfold push at hring hwide ⊢
  obtain ⟨_, hp⟩ := purgeBuffers_progress d (insert s p) false
  rw [hp.ringFull] at hring
  rw [hp.wide] at hwide
  exact purgeBuffers_once _ false (insert_once s p ho hid hring hwide)

theorem flush_once {n : Nat} {d : Depack} (s : State) (ho : Once n d s) : Once n d (flush d s) :=
  purgeBuffers_once s true ho

theorem pop_once {n : Nat} {d : Depack} (s : State) (ho : Once n d s) : Once n d (pop d s).1 := by
  have hb := buildSample_once s false ho
  have hinv := (pop_inv s ho.inv).1
  unfold pop at hinv ⊢
  simp only at hinv ⊢
  split
  · exact hb
  · rename_i hne
    rw [if_neg hne] at hinv
    exact ⟨hinv, hb.narrow, hb.nodup, hb.fresh, hb.bound, hb.inj⟩

/-- the Push ids of a history are `n, n+1, …` in order (the index of the Push call) -/
def IdsFrom : Nat → List Op → Prop
  | _, [] => True
  | n, .push p :: rest => p.id = n ∧ IdsFrom (n + 1) rest
  | n, .pop :: rest => IdsFrom n rest
  | n, .flush :: rest => IdsFrom n rest

theorem insert_wide_mono (s : State) (p : Packet) (h : s.wide = true) : (insert s p).wide = true := by
  unfold insert
  simp only
  cases s.filled.compare p.seq <;> simp [h]

theorem step_wide_mono (d : Depack) (s : State) (op : Op) (h : s.wide = true) :
    (step d s op).1.wide = true := by
  cases op with
  | push p =>
    simp only [step, push]
    obtain ⟨_, hp⟩ := purgeBuffers_progress d (insert s p) false
    rw [hp.wide]; exact insert_wide_mono s p h
  | flush =>
    simp only [step, flush]
    obtain ⟨_, hp⟩ := purgeBuffers_progress d s true
    rw [hp.wide]; exact h
  | pop =>
    simp only [step]
    obtain ⟨_, hb, _⟩ := buildSample_progress d s false
    unfold pop
    simp only
    split
    · rw [hb.wide]; exact h
    · simp only; rw [hb.wide]; exact h

theorem run_wide_mono (d : Depack) : ∀ (ops : List Op) (s : State), s.wide = true →
    (run d s ops).1.wide = true
  | [], _, h => h
  | op :: rest, s, h => by
    simp only [run]
    exact run_wide_mono d rest _ (step_wide_mono d s op h)

theorem run_once (d : Depack) : ∀ (ops : List Op) (s : State) (n : Nat), Once n d s → IdsFrom n ops →
    (run d s ops).1.ringFull = false → (run d s ops).1.wide = false →
    ∃ m, Once m d (run d s ops).1
  | [], s, n, ho, _, _, _ => ⟨n, ho⟩
  | op :: rest, s, n, ho, hids, hring, hwide => by
    simp only [run] at hring hwide ⊢
    have hr1 : (step d s op).1.ringFull = false := by
      cases hx : (step d s op).1.ringFull with
      | false => rfl
      | true => rw [run_ringFull_mono d rest _ hx] at hring; cases hring
    have hw1 : (step d s op).1.wide = false := by
      cases hx : (step d s op).1.wide with
      | false => rfl
      | true => rw [run_wide_mono d rest _ hx] at hwide; cases hwide
    cases op with
    | push p =>
      exact run_once d rest _ (n + 1) (push_once s p ho hids.1 hr1 hw1) hids.2 hring hwide
    | flush => exact run_once d rest _ n (flush_once s ho) hids hring hwide
    | pop => exact run_once d rest _ n (pop_once s ho) hids hring hwide

theorem new_once (d : Depack) (ml : UInt16) (mlt : UInt32) : Once 0 d (State.new ml mlt) :=
  ⟨new_inv _ d ml mlt, by simp [State.new, dist_self], by simp [emittedIds, State.new],
   by intro i p h; simp [State.new] at h, by intro x h; simp [emittedIds, State.new] at h,
   by intro i j p q h; simp [State.new] at h⟩

/-! ### every returned sample was created by `buildSample` -/

/-- `built` only grows -/
def BuiltMono (s r : State) : Prop := ∃ l, r.built = l ++ s.built

theorem BuiltMono.refl (s : State) : BuiltMono s s := ⟨[], rfl⟩
theorem BuiltMono.of_eq {s r : State} (h : r.built = s.built) : BuiltMono s r := ⟨[], by simp [h]⟩
theorem BuiltMono.trans {a b c : State} (h1 : BuiltMono a b) (h2 : BuiltMono b c) : BuiltMono a c := by
  obtain ⟨l1, e1⟩ := h1; obtain ⟨l2, e2⟩ := h2
  exact ⟨l2 ++ l1, by rw [e2, e1, List.append_assoc]⟩
theorem BuiltMono.mem {s r : State} (h : BuiltMono s r) {x : Sample} (hx : x ∈ s.built) : x ∈ r.built := by
  obtain ⟨l, e⟩ := h; rw [e]; exact List.mem_append_right l hx

/-- prepared samples were built -/
def PrepBuilt (s : State) : Prop := ∀ i sm, s.preparedSamples.get i = some sm → sm ∈ s.built

theorem buildSample_builtMono (d : Depack) (s : State) (p : Bool) : BuiltMono s (buildSample d s p).1 := by
  have := buildSample_built d s p
  cases hr : (buildSample d s p).2 with
  | none => rw [hr] at this; exact BuiltMono.of_eq this
  | some sm => rw [hr] at this; exact ⟨[sm], by simpa using this⟩

theorem buildSample_prepBuilt (d : Depack) (s : State) (p : Bool) (h : PrepBuilt s) :
    PrepBuilt (buildSample d s p).1 := by
  intro i sm' hg
  have hb := buildSample_built d s p
  rcases buildSample_prepared d s p with ⟨hn, he⟩ | ⟨sm, hsm, he⟩
  · rw [he] at hg; rw [hn] at hb; rw [hb]; exact h i sm' hg
  · rw [hsm] at hb
    rw [he, Buf.get_set] at hg
    rw [hb]
    split at hg
    · rw [← Option.some.inj hg]; exact List.mem_cons_self
    · exact List.mem_cons_of_mem _ (h i sm' hg)

/-- steps that leave `built` and `preparedSamples` alone -/
theorem PrepBuilt.of_eq {s r : State} (h : PrepBuilt s) (hb : r.built = s.built)
    (hp : r.preparedSamples = s.preparedSamples) : PrepBuilt r := by
  intro i sm hg; rw [hp] at hg; rw [hb]; exact h i sm hg

theorem purgeStep_built (d : Depack) (s : State) (h : PrepBuilt s) :
    PrepBuilt (purgeStep d s).1 ∧ BuiltMono s (purgeStep d s).1 := by
  have hrb : (reseed s).built = s.built := by unfold reseed; split <;> rfl
  have hr : PrepBuilt (reseed s) := h.of_eq hrb (reseed_preparedSamples s)
  have hrm : BuiltMono s (reseed s) := BuiltMono.of_eq hrb
  unfold purgeStep
  simp only
  split
  · have hb := buildSample_prepBuilt d (reseed s) true hr
    have hm := hrm.trans (buildSample_builtMono d (reseed s) true)
    split
    · rename_i s2 sm heq; rw [heq] at hb hm; exact ⟨hb, hm⟩
    · rename_i s2 heq
      rw [heq] at hb hm
      split
      · exact ⟨hb, hm⟩
      · exact ⟨hb.of_eq rfl rfl, hm.trans (BuiltMono.of_eq rfl)⟩
  · exact ⟨hr.of_eq rfl rfl, hrm.trans (BuiltMono.of_eq rfl)⟩

theorem purgeLoop_built (d : Depack) (flush : Bool) : ∀ (m : Nat) (s : State), PrepBuilt s →
    PrepBuilt (purgeLoop d flush m s) ∧ BuiltMono s (purgeLoop d flush m s) := by
  intro m
  induction m with
  | zero => intro s h; exact ⟨h.of_eq rfl rfl, BuiltMono.of_eq rfl⟩
  | succ m ih =>
    intro s h
    unfold purgeLoop
    split
    · have hstep := purgeStep_built d s h
      split
      · rename_i s2 heq
        rw [heq] at hstep
        obtain ⟨h2, m2⟩ := ih s2 hstep.1
        exact ⟨h2, hstep.2.trans m2⟩
      · rename_i s2 heq; rw [heq] at hstep; exact hstep
    · exact ⟨h, BuiltMono.refl s⟩

theorem purgeBuffers_built (d : Depack) (s : State) (flush : Bool) (h : PrepBuilt s) :
    PrepBuilt (purgeBuffers d s flush) ∧ BuiltMono s (purgeBuffers d s flush) := by
  have hs := purgeLoc_same (ringFuel + 1) s s.active false (ringFuel_gt s)
  have h1 : PrepBuilt (purgeConsumed s) := h.of_eq hs.built hs.preparedSamples
  obtain ⟨h2, m2⟩ := purgeLoop_built d flush purgeFuel (purgeConsumed s) h1
  exact ⟨h2, (BuiltMono.of_eq hs.built).trans m2⟩

theorem insert_prepared (s : State) (p : Packet) : (insert s p).preparedSamples = s.preparedSamples := by
  unfold insert
  simp only
  cases s.filled.compare p.seq <;> rfl

theorem step_built (d : Depack) (s : State) (op : Op) (h : PrepBuilt s) :
    PrepBuilt (step d s op).1 ∧ BuiltMono s (step d s op).1 ∧
    ∀ sm, (step d s op).2 = some sm → sm ∈ (step d s op).1.built := by
  cases op with
  | push p =>
    simp only [step, push]
    have hi : PrepBuilt (insert s p) := h.of_eq (insert_fields s p).1 (insert_prepared s p)
    obtain ⟨h2, m2⟩ := purgeBuffers_built d (insert s p) false hi
    exact ⟨h2, (BuiltMono.of_eq (insert_fields s p).1).trans m2, by intro sm hsm; cases hsm⟩
  | flush =>
    simp only [step, flush]
    obtain ⟨h2, m2⟩ := purgeBuffers_built d s true h
    exact ⟨h2, m2, by intro sm hsm; cases hsm⟩
  | pop =>
    simp only [step]
    have hb := buildSample_prepBuilt d s false h
    have hm := buildSample_builtMono d s false
    unfold pop
    simp only
    split
    · exact ⟨hb, hm, by intro sm hsm; cases hsm⟩
    · refine ⟨?_, hm.trans (BuiltMono.of_eq rfl), ?_⟩
      · intro i sm hg
        simp only [Buf.get_set] at hg
        split at hg
        · cases hg
        · exact hb i sm hg
      · intro sm hsm
        exact hb _ sm hsm

theorem run_built (d : Depack) : ∀ (ops : List Op) (s : State), PrepBuilt s →
    BuiltMono s (run d s ops).1 ∧ ∀ sm ∈ (run d s ops).2, sm ∈ (run d s ops).1.built
  | [], s, _ => ⟨BuiltMono.refl s, by intro sm h; simp [run] at h⟩
  | op :: rest, s, h => by
    simp only [run]
    obtain ⟨h1, m1, hret⟩ := step_built d s op h
    obtain ⟨m2, hout⟩ := run_built d rest (step d s op).1 h1
    refine ⟨m1.trans m2, ?_⟩
    intro sm hsm
    cases hr : (step d s op).2 with
    | none => rw [hr] at hsm; exact hout sm hsm
    | some sm0 =>
      rw [hr] at hsm
      simp only [List.mem_cons] at hsm
      rcases hsm with e | e
      · rw [e]; exact m2.mem (hret sm0 hr)
      · exact hout sm e

end WebrtcVerif.SampleBuilder
