import WebrtcVerif.Model.Ogg
import WebrtcVerif.Model.OggSpec
import WebrtcVerif.Proofs.OggCrc
/-!
  Helper lemmas about the Ogg model (`Model/Ogg.lean`, `Model/OggSpec.lean`) used by `Props/C33.lean`.
-/
namespace WebrtcVerif.Ogg
open WebrtcVerif.Bytes WebrtcVerif.OggSpec

/-! ### reading primitives -/

theorem readN_eq_readFull (n : Nat) (s : Bs) : readN n s = readFull n s := by
  unfold readN readFull
  by_cases h : n ≤ s.length
  · simp [h, List.length_take, Nat.min_eq_left h]
  · have h2 : ¬ (s.take n).length = n := by simp [List.length_take]; omega
    rw [if_neg h2, if_neg h]
    cases s <;> simp

theorem readN_append (p rest : Bs) : readN p.length (p ++ rest) = .ok p rest := by
  rw [readN_eq_readFull, readFull_append]

theorem sumSegs_eq (segs : List UInt8) : sumSegs segs = lacingSum segs := by
  unfold sumSegs lacingSum
  suffices h : ∀ a, segs.foldl (fun a s => a + s.toNat) a = a + (segs.map UInt8.toNat).sum by simpa using h 0
  induction segs with
  | nil => simp
  | cons x xs ih => intro a; simp [ih]; omega

theorem readN_27 (x0 x1 x2 x3 x4 x5 x6 x7 x8 x9 x10 x11 x12 x13 x14 x15 x16 x17 x18 x19 x20 x21 x22 x23 x24 x25 x26 : Byte)
    (tail : Bs) :
    readN 27 (x0 :: x1 :: x2 :: x3 :: x4 :: x5 :: x6 :: x7 :: x8 :: x9 :: x10 :: x11 :: x12 :: x13 :: x14 :: x15 ::
      x16 :: x17 :: x18 :: x19 :: x20 :: x21 :: x22 :: x23 :: x24 :: x25 :: x26 :: tail) =
    .ok [x0, x1, x2, x3, x4, x5, x6, x7, x8, x9, x10, x11, x12, x13, x14, x15, x16, x17, x18, x19, x20, x21, x22,
      x23, x24, x25, x26] tail := rfl

theorem rd64le_le64 (g : Nat) :
    rd64le (b g) (b (g / 256)) (b (g / 65536)) (b (g / 16777216)) (b (g / 4294967296)) (b (g / 4294967296 / 256))
      (b (g / 4294967296 / 65536)) (b (g / 4294967296 / 16777216)) = g % two64 := by
  unfold rd64le
  rw [rd32le_le32, rd32le_le32]; simp only [two32, two64]; omega

/-! ### one page: what the writer builds, the reader (model of `ParseNextPage`) accepts -/

theorem createPage_eq (payload : Bs) (segs : List UInt8) (ht : UInt8) (g s i : Nat) :
    createPage payload segs ht g s i =
      pagePrefix ht g s i ++ le32 (crc (pagePrefix ht g s i ++ [0, 0, 0, 0] ++ b segs.length :: (segs ++ payload))).toNat
        ++ b segs.length :: (segs ++ payload) := rfl

theorem createPage_length (payload segs : Bs) (ht g s i) :
    (createPage payload segs ht g s i).length = 27 + segs.length + payload.length := by
  simp [createPage, pagePrefix, oggS]; omega

theorem parseNextPage_raw (ck : Bool)
    (x0 x1 x2 x3 x4 x5 x6 x7 x8 x9 x10 x11 x12 x13 x14 x15 x16 x17 x18 x19 x20 x21 c0 c1 c2 c3 : Byte)
    (segs payload rest : Bs) (hseg : segs.length ≤ 255) (hpay : payload.length = sumSegs segs)
    (hcrc : rd32le c0 c1 c2 c3 = (crc ([x0, x1, x2, x3, x4, x5, x6, x7, x8, x9, x10, x11, x12, x13, x14, x15,
      x16, x17, x18, x19, x20, x21] ++ [0, 0, 0, 0] ++ b segs.length :: (segs ++ payload))).toNat) :
    parseNextPage ck (x0 :: x1 :: x2 :: x3 :: x4 :: x5 :: x6 :: x7 :: x8 :: x9 :: x10 :: x11 :: x12 :: x13 :: x14 ::
      x15 :: x16 :: x17 :: x18 :: x19 :: x20 :: x21 :: c0 :: c1 :: c2 :: c3 :: b segs.length :: (segs ++ (payload ++ rest))) =
    .ok payload { granulePosition := rd64le x6 x7 x8 x9 x10 x11 x12 x13, sig := [x0, x1, x2, x3], version := x4,
                  headerType := x5, serial := rd32le x14 x15 x16 x17, index := rd32le x18 x19 x20 x21,
                  segmentsCount := b segs.length } rest := by
  unfold parseNextPage
  rw [readN_27]
  simp only
  have hb : (b segs.length).toNat = segs.length := by simp; omega
  rw [hb, readN_append segs]
  simp only
  rw [← hpay, readN_append payload]
  simp only
  have : (readerChecksum [x0, x1, x2, x3, x4, x5, x6, x7, x8, x9, x10, x11, x12, x13, x14, x15, x16, x17, x18, x19,
      x20, x21, c0, c1, c2, c3, b segs.length] segs payload).toNat = rd32le c0 c1 c2 c3 := by
    rw [hcrc]; unfold readerChecksum
    simp [List.take, List.drop]
  rw [this]
  simp

/-- The reader's checksum routine accepts every page built by `createPageForSerialWithSegments`, and the
    reader returns exactly the payload and header fields that went in. -/
theorem parseNextPage_createPage (ck : Bool) (payload : Bs) (segs : List UInt8) (ht : UInt8) (g s i : Nat) (rest : Bs)
    (hseg : segs.length ≤ 255) (hpay : payload.length = sumSegs segs) :
    parseNextPage ck (createPage payload segs ht g s i ++ rest) =
      .ok payload { granulePosition := g % two64, sig := oggS, version := 0, headerType := ht,
                    serial := s % two32, index := i % two32, segmentsCount := b segs.length } rest := by
  rw [createPage_eq]
  generalize hc : crc (pagePrefix ht g s i ++ [0, 0, 0, 0] ++ b segs.length :: (segs ++ payload)) = c
  simp only [pagePrefix, oggS, le64, le32, List.cons_append, List.nil_append, List.append_assoc] at hc ⊢
  rw [parseNextPage_raw ck _ _ _ _ _ _ _ _ _ _ _ _ _ _ _ _ _ _ _ _ _ _ _ _ _ _ segs payload rest hseg hpay]
  · simp only [rd64le_le64, rd32le_le32, two32]
  · rw [rd32le_le32, Nat.mod_eq_of_lt c.toNat_lt]
    simp only [List.cons_append, List.nil_append]
    rw [hc]

/-! ### one page: the specification parser (bitwise CRC) reads it back -/

theorem take_22 (x0 x1 x2 x3 x4 x5 x6 x7 x8 x9 x10 x11 x12 x13 x14 x15 x16 x17 x18 x19 x20 x21 : Byte) (tail : Bs) :
    List.take 22 (x0 :: x1 :: x2 :: x3 :: x4 :: x5 :: x6 :: x7 :: x8 :: x9 :: x10 :: x11 :: x12 :: x13 :: x14 :: x15 ::
      x16 :: x17 :: x18 :: x19 :: x20 :: x21 :: tail) =
    [x0, x1, x2, x3, x4, x5, x6, x7, x8, x9, x10, x11, x12, x13, x14, x15, x16, x17, x18, x19, x20, x21] := rfl

theorem drop_26 (x0 x1 x2 x3 x4 x5 x6 x7 x8 x9 x10 x11 x12 x13 x14 x15 x16 x17 x18 x19 x20 x21 x22 x23 x24 x25 : Byte)
    (tail : Bs) :
    List.drop 26 (x0 :: x1 :: x2 :: x3 :: x4 :: x5 :: x6 :: x7 :: x8 :: x9 :: x10 :: x11 :: x12 :: x13 :: x14 :: x15 ::
      x16 :: x17 :: x18 :: x19 :: x20 :: x21 :: x22 :: x23 :: x24 :: x25 :: tail) = tail := rfl

theorem splitPage_createPage (payload : Bs) (segs : List UInt8) (ht : UInt8) (g s i : Nat) (rest : Bs)
    (hseg : segs.length ≤ 255) (hpay : payload.length = lacingSum segs) :
    splitPage (createPage payload segs ht g s i ++ rest) =
      some ({ headerType := ht, granule := g % two64, serial := s % two32, index := i % two32, segs, payload },
            true, rest) := by
  rw [createPage_eq]
  generalize hc : crc (pagePrefix ht g s i ++ [0, 0, 0, 0] ++ b segs.length :: (segs ++ payload)) = c
  simp only [pagePrefix, oggS, le64, le32, List.cons_append, List.nil_append, List.append_assoc] at hc ⊢
  unfold splitPage
  simp only [splitHeader]
  have hb : (b segs.length).toNat = segs.length := by simp; omega
  simp only [hb, List.take_left', List.drop_left', ← hpay, Nat.lt_irrefl, if_false]
  have htk : List.take (1 + segs.length + payload.length) (b segs.length :: (segs ++ (payload ++ rest))) =
      b segs.length :: (segs ++ payload) := by
    have : b segs.length :: (segs ++ (payload ++ rest)) = (b segs.length :: (segs ++ payload)) ++ rest := by simp
    rw [this, List.take_left']; simp; omega
  rw [take_22, drop_26, htk, ← crc_eq_crc32]
  simp only [List.cons_append, List.nil_append]
  rw [hc, rd32le_le32, rd32le_le32, rd32le_le32, rd32le_le32, rd32le_le32, Nat.mod_eq_of_lt c.toNat_lt]
  simp only [two32, two64, beq_self_eq_true]
  congr 4
  omega


/-! ### lacing -/

theorem packetLens_cons255 (acc : Nat) (ss : List UInt8) : packetLens acc (255 :: ss) = packetLens (acc + 255) ss := by
  simp [packetLens]

theorem b_toNat_small (r : Nat) (h : r < 256) : (b r).toNat = r := by simp; omega

/-- everything the rest of the development needs to know about the inner lacing loop -/
theorem laceLoop_spec (k r : Nat) :
    (laceLoop k r).segs.length ≤ k ∧
    lacingSum (laceLoop k r).segs = (laceLoop k r).size ∧
    (laceLoop k r).size + (laceLoop k r).remaining = r ∧
    ((laceLoop k r).complete = true → (laceLoop k r).remaining = 0) ∧
    ((laceLoop k r).complete = false → (laceLoop k r).size = 255 * k) ∧
    (∀ acc rest, packetLens acc ((laceLoop k r).segs ++ rest) =
      if (laceLoop k r).complete then (acc + (laceLoop k r).size) :: packetLens 0 rest
      else packetLens (acc + (laceLoop k r).size) rest) ∧
    (((laceLoop k r).segs.filter (fun s => s.toNat < 255)).length = if (laceLoop k r).complete then 1 else 0) ∧
    (0 < k → ∃ x, (laceLoop k r).segs.getLast? = some x ∧ (x == 255) = !(laceLoop k r).complete) := by
  induction k generalizing r with
  | zero => simp [laceLoop, lacingSum]
  | succ k ih =>
    unfold laceLoop
    by_cases h : 255 ≤ r
    · simp only [h, if_true]
      obtain ⟨h1, h2, h3, h4, h5, h6, h7, h8⟩ := ih (r - 255)
      refine ⟨by simp; omega, ?_, by omega, h4, ?_, ?_, ?_, ?_⟩
      · simp only [lacingSum, List.map_cons, List.sum_cons] at h2 ⊢; rw [h2]; rfl
      · intro hc; rw [h5 hc]; omega
      · intro acc rest
        rw [List.cons_append, packetLens_cons255, h6]
        split <;> simp only [Nat.add_assoc]
      · rw [List.filter_cons]; simp; exact h7
      · intro _
        cases k with
        | zero => simp [laceLoop]
        | succ k' =>
          obtain ⟨x, hx, hx2⟩ := h8 (by omega)
          refine ⟨x, ?_, hx2⟩
          rw [List.getLast?_cons]
          simp [hx]
    · simp only [h, if_false]
      have hr : r < 256 := by omega
      have hlt : (b r).toNat < 255 := by rw [b_toNat_small r hr]; omega
      refine ⟨by simp, by simp [lacingSum, b_toNat_small r hr], by omega, by simp, by simp, ?_, ?_, ?_⟩
      · intro acc rest
        have hr2 : r < 255 := by omega
        simp only [List.cons_append, List.nil_append, packetLens, b_toNat_small r hr, hr2, if_true]
      · rw [List.filter_cons_of_pos (by simpa using hlt)]; simp
      · intro _
        refine ⟨b r, by simp, ?_⟩
        simp
        intro e
        have := congrArg UInt8.toNat e
        rw [b_toNat_small r hr] at this
        simp at this; omega


/-! ### `createPagesForSerial` -/

/-- a page the parsers read back unchanged -/
def Page.wf (p : Page) : Prop :=
  p.segs.length ≤ 255 ∧ p.payload.length = lacingSum p.segs ∧ p.granule < two64 ∧ p.serial < two32 ∧ p.index < two32

/-- the page built in one iteration of the outer loop -/
def loopPage (payload : Bs) (ht : UInt8) (g serial idx : Nat) (first : Bool) : Page :=
  let l := laceLoop maxOggPageSegments payload.length
  { headerType := packetPageHeaderType ht first l.complete
    granule := if l.complete then g else noGranulePosition
    serial := serial, index := idx, segs := l.segs, payload := payload.take l.size }

theorem createPagesLoop_succ (fuel : Nat) (payload : Bs) (ht : UInt8) (g serial idx : Nat) (first : Bool) :
    createPagesLoop (fuel + 1) payload ht g serial idx first =
      if (laceLoop maxOggPageSegments payload.length).complete then [loopPage payload ht g serial idx first]
      else loopPage payload ht g serial idx first ::
        createPagesLoop fuel (payload.drop (laceLoop maxOggPageSegments payload.length).size) ht g serial
          ((idx + 1) % two32) false := rfl

theorem loopPage_wf (payload : Bs) (ht : UInt8) (g serial idx : Nat) (first : Bool)
    (hg : g < two64) (hs : serial < two32) (hi : idx < two32) : (loopPage payload ht g serial idx first).wf := by
  obtain ⟨h1, h2, h3, _⟩ := laceLoop_spec maxOggPageSegments payload.length
  refine ⟨h1, ?_, ?_, hs, hi⟩
  · simp only [loopPage, List.length_take]; rw [h2]; omega
  · simp only [loopPage]; split
    · exact hg
    · simp [noGranulePosition, two64]

/-- an incomplete page takes 255 × 255 bytes -/
theorem lace_incomplete (n : Nat) (h : (laceLoop maxOggPageSegments n).complete = false) :
    (laceLoop maxOggPageSegments n).size = 65025 ∧ 65025 ≤ n := by
  obtain ⟨_, _, h3, _, h5, _⟩ := laceLoop_spec maxOggPageSegments n
  have h6 := h5 h
  have h7 : maxOggPageSegments = 255 := rfl
  rw [h7] at h3 h6 ⊢
  omega

/-- induction principle in disguise: the loop with enough fuel either stops or recurses on a shorter payload -/
theorem createPagesLoop_ind {P : Nat → Bs → Nat → Bool → Prop}
    (stop : ∀ fuel payload idx first, (laceLoop maxOggPageSegments payload.length).complete = true →
      P (fuel + 1) payload idx first)
    (step : ∀ fuel payload idx first, (laceLoop maxOggPageSegments payload.length).complete = false →
      P fuel (payload.drop 65025) ((idx + 1) % two32) false → P (fuel + 1) payload idx first)
    (fuel : Nat) (payload : Bs) (idx : Nat) (first : Bool) (hf : payload.length < fuel * 65025) :
    P fuel payload idx first := by
  induction fuel generalizing payload idx first with
  | zero => omega
  | succ fuel ih =>
    cases hc : (laceLoop maxOggPageSegments payload.length).complete with
    | true => exact stop fuel payload idx first hc
    | false =>
      obtain ⟨_, h2⟩ := lace_incomplete _ hc
      exact step fuel payload idx first hc (ih _ _ _ (by simp only [List.length_drop]; omega))


theorem loopPage_flags (payload : Bs) (ht : UInt8) (g serial idx : Nat) (first : Bool) (hht : ht = 0 ∨ ht = 2) :
    isEOS (loopPage payload ht g serial idx first) = false ∧
    OggSpec.isBOS (loopPage payload ht g serial idx first) = (first && ht == 2) ∧
    OggSpec.isCont (loopPage payload ht g serial idx first) = !first := by
  simp only [loopPage, isEOS, isBOS, OggSpec.isCont]
  generalize (laceLoop maxOggPageSegments payload.length).complete = c
  rcases hht with rfl | rfl <;> cases first <;> cases c <;> decide

theorem loopPage_completions (payload : Bs) (ht : UInt8) (g serial idx : Nat) (first : Bool) :
    completions (loopPage payload ht g serial idx first) =
      if (laceLoop maxOggPageSegments payload.length).complete then 1 else 0 := by
  obtain ⟨_, _, _, _, _, _, h7, _⟩ := laceLoop_spec maxOggPageSegments payload.length
  simpa [completions, loopPage] using h7

theorem loopPage_lastSeg (payload : Bs) (ht : UInt8) (g serial idx : Nat) (first o : Bool) :
    endsOpen o (loopPage payload ht g serial idx first) =
      !(laceLoop maxOggPageSegments payload.length).complete := by
  obtain ⟨_, _, _, _, _, _, _, h8⟩ := laceLoop_spec maxOggPageSegments payload.length
  obtain ⟨x, hx, hx2⟩ := h8 (by decide)
  simp only [endsOpen, loopPage, hx, hx2]

/-- facts about every page of one packet -/
theorem createPagesLoop_all (ht : UInt8) (g serial : Nat) (hht : ht = 0 ∨ ht = 2) (hg : g < two64) (hs : serial < two32)
    (fuel : Nat) (payload : Bs) (idx : Nat) (first : Bool) (hf : payload.length < fuel * 65025) (hi : idx < two32) :
    ∀ p ∈ createPagesLoop fuel payload ht g serial idx first,
      p.wf ∧ p.serial = serial ∧ isEOS p = false ∧ (first = false → isBOS p = false) := by
  revert hi
  refine createPagesLoop_ind (P := fun fuel payload idx first => idx < two32 →
    ∀ p ∈ createPagesLoop fuel payload ht g serial idx first,
      p.wf ∧ p.serial = serial ∧ isEOS p = false ∧ (first = false → isBOS p = false)) ?_ ?_ fuel payload idx first hf
  · intro fuel payload idx first hc hi p hp
    rw [createPagesLoop_succ, hc] at hp
    simp only [if_true, List.mem_singleton] at hp
    subst hp
    obtain ⟨f1, f2, _⟩ := loopPage_flags payload ht g serial idx first hht
    exact ⟨loopPage_wf _ _ _ _ _ _ hg hs hi, rfl, f1, fun h => by rw [f2, h]; rfl⟩
  · intro fuel payload idx first hc ih hi p hp
    rw [createPagesLoop_succ, hc] at hp
    simp only [Bool.false_eq_true, if_false, List.mem_cons] at hp
    rcases hp with rfl | hp
    · obtain ⟨f1, f2, _⟩ := loopPage_flags payload ht g serial idx first hht
      exact ⟨loopPage_wf _ _ _ _ _ _ hg hs hi, rfl, f1, fun h => by rw [f2, h]; rfl⟩
    · rw [(lace_incomplete _ hc).1] at hp
      obtain ⟨a1, a2, a3, a4⟩ := ih (Nat.mod_lt _ (by decide)) p hp
      exact ⟨a1, a2, a3, fun _ => a4 rfl⟩

theorem createPagesLoop_seq (ht : UInt8) (g serial : Nat)
    (fuel : Nat) (payload : Bs) (idx : Nat) (first : Bool) (hf : payload.length < fuel * 65025) :
    ∀ k R, idx = k % two32 →
      seqFrom k (createPagesLoop fuel payload ht g serial idx first ++ R) =
        seqFrom (k + (createPagesLoop fuel payload ht g serial idx first).length) R := by
  refine createPagesLoop_ind (P := fun fuel payload idx first => ∀ k R, idx = k % two32 →
      seqFrom k (createPagesLoop fuel payload ht g serial idx first ++ R) =
        seqFrom (k + (createPagesLoop fuel payload ht g serial idx first).length) R) ?_ ?_ fuel payload idx first hf
  · intro fuel payload idx first hc k R hk
    rw [createPagesLoop_succ, hc]
    simp [seqFrom, loopPage, hk, two32]
  · intro fuel payload idx first hc ih k R hk
    rw [createPagesLoop_succ, hc, (lace_incomplete _ hc).1]
    simp only [Bool.false_eq_true, if_false, List.cons_append, seqFrom, List.length_cons]
    rw [ih (k + 1) R (by subst hk; simp only [two32]; omega)]
    simp [loopPage, hk, two32]
    congr 1; omega

theorem createPagesLoop_cont (ht : UInt8) (g serial : Nat) (hht : ht = 0 ∨ ht = 2)
    (fuel : Nat) (payload : Bs) (idx : Nat) (first : Bool) (hf : payload.length < fuel * 65025) :
    ∀ R, contFrom (!first) (createPagesLoop fuel payload ht g serial idx first ++ R) = contFrom false R := by
  refine createPagesLoop_ind (P := fun fuel payload idx first =>
    ∀ R, contFrom (!first) (createPagesLoop fuel payload ht g serial idx first ++ R) = contFrom false R)
    ?_ ?_ fuel payload idx first hf
  · intro fuel payload idx first hc R
    rw [createPagesLoop_succ, hc]
    simp only [if_true, List.cons_append, List.nil_append, contFrom]
    rw [loopPage_lastSeg, (loopPage_flags payload ht g serial idx first hht).2.2, hc]
    simp
  · intro fuel payload idx first hc ih R
    rw [createPagesLoop_succ, hc, (lace_incomplete _ hc).1]
    simp only [Bool.false_eq_true, if_false, List.cons_append, contFrom]
    rw [loopPage_lastSeg, (loopPage_flags payload ht g serial idx first hht).2.2, hc]
    simpa using ih R


theorem noGranule_eq : noGranulePosition = noGranule := rfl

theorem createPagesLoop_gran (cum : Nat → Nat) (ht : UInt8) (g serial : Nat)
    (fuel : Nat) (payload : Bs) (idx : Nat) (first : Bool) (hf : payload.length < fuel * 65025) :
    ∀ k R, granulesFrom cum k (createPagesLoop fuel payload ht g serial idx first ++ R) =
      (g == cum (k + 1) % 18446744073709551616 && granulesFrom cum (k + 1) R) := by
  refine createPagesLoop_ind (P := fun fuel payload idx first =>
    ∀ k R, granulesFrom cum k (createPagesLoop fuel payload ht g serial idx first ++ R) =
      (g == cum (k + 1) % 18446744073709551616 && granulesFrom cum (k + 1) R)) ?_ ?_ fuel payload idx first hf
  · intro fuel payload idx first hc k R
    rw [createPagesLoop_succ, hc]
    simp only [if_true, List.cons_append, List.nil_append, granulesFrom, loopPage_completions, hc]
    simp [loopPage, hc]
  · intro fuel payload idx first hc ih k R
    rw [createPagesLoop_succ, hc, (lace_incomplete _ hc).1]
    simp only [Bool.false_eq_true, if_false, List.cons_append, granulesFrom, loopPage_completions, hc]
    rw [Nat.add_zero, ih k R]
    simp [loopPage, hc, noGranule_eq]

theorem createPagesLoop_mono (ht : UInt8) (g serial : Nat) (hg : g ≠ noGranule)
    (fuel : Nat) (payload : Bs) (idx : Nat) (first : Bool) (hf : payload.length < fuel * 65025) :
    ∀ g0 R, granuleMonotoneFrom g0 (createPagesLoop fuel payload ht g serial idx first ++ R) =
      (decide (g0 ≤ g) && granuleMonotoneFrom g R) := by
  refine createPagesLoop_ind (P := fun fuel payload idx first =>
    ∀ g0 R, granuleMonotoneFrom g0 (createPagesLoop fuel payload ht g serial idx first ++ R) =
      (decide (g0 ≤ g) && granuleMonotoneFrom g R)) ?_ ?_ fuel payload idx first hf
  · intro fuel payload idx first hc g0 R
    rw [createPagesLoop_succ, hc]
    simp only [if_true, List.cons_append, List.nil_append, granuleMonotoneFrom]
    simp [loopPage, hc, hg]
  · intro fuel payload idx first hc ih g0 R
    rw [createPagesLoop_succ, hc, (lace_incomplete _ hc).1]
    simp only [Bool.false_eq_true, if_false, List.cons_append, granuleMonotoneFrom]
    simp [loopPage, hc, noGranule_eq, ih g0 R]

theorem createPagesLoop_packets (ht : UInt8) (g serial : Nat)
    (fuel : Nat) (payload : Bs) (idx : Nat) (first : Bool) (hf : payload.length < fuel * 65025) :
    (createPagesLoop fuel payload ht g serial idx first).flatMap (·.payload) = payload ∧
    ∀ acc rest, packetLens acc ((createPagesLoop fuel payload ht g serial idx first).flatMap (·.segs) ++ rest) =
      (acc + payload.length) :: packetLens 0 rest := by
  refine createPagesLoop_ind (P := fun fuel payload idx first =>
    (createPagesLoop fuel payload ht g serial idx first).flatMap (·.payload) = payload ∧
    ∀ acc rest, packetLens acc ((createPagesLoop fuel payload ht g serial idx first).flatMap (·.segs) ++ rest) =
      (acc + payload.length) :: packetLens 0 rest) ?_ ?_ fuel payload idx first hf
  · intro fuel payload idx first hc
    obtain ⟨_, _, h3, h4, _, h6, _⟩ := laceLoop_spec maxOggPageSegments payload.length
    have hsz : (laceLoop maxOggPageSegments payload.length).size = payload.length := by have := h4 hc; omega
    rw [createPagesLoop_succ, hc]
    refine ⟨?_, ?_⟩
    · simp [loopPage, hsz]
    · intro acc rest
      simp only [if_true, List.flatMap_cons, List.flatMap_nil, List.append_nil, loopPage]
      rw [h6, hc, hsz]; rfl
  · intro fuel payload idx first hc ih
    obtain ⟨_, _, _, _, _, h6, _⟩ := laceLoop_spec maxOggPageSegments payload.length
    obtain ⟨hsz, hle⟩ := lace_incomplete _ hc
    rw [createPagesLoop_succ, hc, hsz]
    refine ⟨?_, ?_⟩
    · simp only [Bool.false_eq_true, if_false, List.flatMap_cons, ih.1, loopPage, hsz]
      exact List.take_append_drop _ _
    · intro acc rest
      simp only [Bool.false_eq_true, if_false, List.flatMap_cons, List.append_assoc, loopPage]
      rw [h6, hc, hsz]
      simp only [Bool.false_eq_true, if_false]
      rw [ih.2]
      simp only [List.length_drop]
      have e : acc + 65025 + (payload.length - 65025) = acc + payload.length := by omega
      rw [e]


theorem fuel_ok (n : Nat) : n < (n / 65025 + 1) * 65025 := by omega

/-- everything about the pages of one packet that the stream-level arguments use (`ht` without EOS bit) -/
theorem createPages_facts (payload : Bs) (ht : UInt8) (g serial idx : Nat) (hht : ht = 0 ∨ ht = 2) :
    (∀ k R, idx = k % two32 → seqFrom k (createPages payload ht g serial idx ++ R) =
        seqFrom (k + (createPages payload ht g serial idx).length) R) ∧
    (∀ R, contFrom false (createPages payload ht g serial idx ++ R) = contFrom false R) ∧
    (∀ cum k R, granulesFrom cum k (createPages payload ht g serial idx ++ R) =
        (g == cum (k + 1) % 18446744073709551616 && granulesFrom cum (k + 1) R)) ∧
    (g ≠ noGranule → ∀ g0 R, granuleMonotoneFrom g0 (createPages payload ht g serial idx ++ R) =
        (decide (g0 ≤ g) && granuleMonotoneFrom g R)) ∧
    (createPages payload ht g serial idx).flatMap (·.payload) = payload ∧
    (∀ acc rest, packetLens acc ((createPages payload ht g serial idx).flatMap (·.segs) ++ rest) =
        (acc + payload.length) :: packetLens 0 rest) := by
  unfold createPages
  refine ⟨createPagesLoop_seq ht g serial _ payload idx true (fuel_ok _),
    createPagesLoop_cont ht g serial hht _ payload idx true (fuel_ok _),
    fun cum => createPagesLoop_gran cum ht g serial _ payload idx true (fuel_ok _),
    fun hg => createPagesLoop_mono ht g serial hg _ payload idx true (fuel_ok _),
    (createPagesLoop_packets ht g serial _ payload idx true (fuel_ok _)).1,
    (createPagesLoop_packets ht g serial _ payload idx true (fuel_ok _)).2⟩

theorem createPages_all (payload : Bs) (ht : UInt8) (g serial idx : Nat) (hht : ht = 0 ∨ ht = 2)
    (hg : g < two64) (hs : serial < two32) (hi : idx < two32) :
    ∀ p ∈ createPages payload ht g serial idx, p.wf ∧ p.serial = serial ∧ isEOS p = false := by
  intro p hp
  obtain ⟨a, b', c, _⟩ := createPagesLoop_all ht g serial hht hg hs _ payload idx true (fuel_ok _) hi p hp
  exact ⟨a, b', c⟩

/-- the first page carries BOS exactly when asked for (`ht = 2`), no later page of the packet does -/
theorem createPages_bos (payload : Bs) (ht : UInt8) (g serial idx : Nat) (hht : ht = 0 ∨ ht = 2) :
    ∃ p0 rest, createPages payload ht g serial idx = p0 :: rest ∧ isBOS p0 = (ht == 2) ∧
      ∀ p ∈ rest, isBOS p = false := by
  unfold createPages
  rw [createPagesLoop_succ]
  obtain ⟨_, f2, _⟩ := loopPage_flags payload ht g serial idx true hht
  cases hc : (laceLoop maxOggPageSegments payload.length).complete with
  | true => exact ⟨loopPage payload ht g serial idx true, [], by simp, by simpa using f2, by simp⟩
  | false =>
    refine ⟨loopPage payload ht g serial idx true, _, by simp; rfl, by simpa using f2, ?_⟩
    intro p hp
    obtain ⟨hsz, hle⟩ := lace_incomplete _ hc
    have hf : (payload.drop (laceLoop maxOggPageSegments payload.length).size).length < (payload.length / 65025) * 65025 := by
      rw [hsz, List.length_drop]; omega
    -- flags only: well-formedness side conditions are irrelevant here, use g, serial, idx reduced
    have := createPagesLoop_ind (P := fun fuel payload idx first => first = false →
      ∀ p ∈ createPagesLoop fuel payload ht g serial idx first, isBOS p = false) ?_ ?_ _ _ ((idx + 1) % two32) false hf rfl p hp
    · exact this
    · intro fuel payload idx first hc hfirst p hp
      rw [createPagesLoop_succ, hc] at hp
      simp only [if_true, List.mem_singleton] at hp
      subst hp
      rw [(loopPage_flags payload ht g serial idx first hht).2.1, hfirst]; rfl
    · intro fuel payload idx first hc ih hfirst p hp
      rw [createPagesLoop_succ, hc] at hp
      simp only [Bool.false_eq_true, if_false, List.mem_cons] at hp
      rcases hp with rfl | hp
      · rw [(loopPage_flags payload ht g serial idx first hht).2.1, hfirst]; rfl
      · rw [(lace_incomplete _ hc).1] at hp
        exact ih rfl p hp

/-- a payload that fits one page (what `markTrackEndOfStream` re-encodes) gives exactly one page, with the
    header type as given -/
theorem createPages_single (payload : Bs) (ht : UInt8) (g serial idx : Nat)
    (hc : (laceLoop maxOggPageSegments payload.length).complete = true) :
    createPages payload ht g serial idx =
      [{ headerType := ht, granule := g, serial := serial, index := idx,
         segs := (laceLoop maxOggPageSegments payload.length).segs, payload := payload }] := by
  obtain ⟨_, _, h3, h4, _⟩ := laceLoop_spec maxOggPageSegments payload.length
  have hsz : (laceLoop maxOggPageSegments payload.length).size = payload.length := by have := h4 hc; omega
  unfold createPages
  rw [createPagesLoop_succ, hc]
  simp [loopPage, hc, hsz, packetPageHeaderType]

theorem createPages_ne_nil (payload : Bs) (ht : UInt8) (g serial idx : Nat) :
    createPages payload ht g serial idx ≠ [] := by
  unfold createPages
  rw [createPagesLoop_succ]
  split <;> simp

end WebrtcVerif.Ogg
