import WebrtcVerif.Model.Ivf
/-!
  Helper lemmas about the IVF model (`Model/Ivf.lean`) used by `Props/C32.lean` (and C37).
-/
namespace WebrtcVerif.Ivf
open WebrtcVerif.Bytes

/-! ### reader: file header -/

/-- the header with an arbitrary frame-count field (`header c = headerN c 900`) -/
def headerN (c : Config) (n : Nat) : Bs :=
  signature ++ le16 0 ++ le16 32 ++ fourCC c.codec ++ le16 c.width ++ le16 c.height
    ++ le32 c.den ++ le32 c.num ++ le32 n ++ le32 0

theorem header_eq (c : Config) : header c = headerN c 900 := rfl

theorem fourCC_length (k : Codec) : (fourCC k).length = 4 := by cases k <;> rfl

@[simp] theorem headerN_length (c : Config) (n : Nat) : (headerN c n).length = 32 := by
  simp [headerN, signature, fourCC_length]

@[simp] theorem header_length (c : Config) : (header c).length = 32 := by
  rw [header_eq]; simp

/-- what the reader must report for a file written with configuration `c` and count field `n` -/
def expectedHeader (c : Config) (n : Nat) : FileHeader :=
  { signature := signature, version := 0, headerSize := 32, fourCC := fourCC c.codec,
    width := c.width, height := c.height, den := c.den, num := c.num, numFrames := n % two32, unused := 0 }

theorem decode_headerN (c : Config) (n : Nat) (hw : c.width < 65536) (hh : c.height < 65536)
    (hd : c.den < two32) (hn : c.num < two32) :
    decodeFileHeader (headerN c n) = some (expectedHeader c n) := by
  obtain ⟨codec, width, height, num, den, direct⟩ := c
  simp only at hw hh hd hn
  have e16 : ∀ m, m < 65536 → rd16le (b m) (b (m / 256)) = m := fun m h => by rw [rd16le_le16]; omega
  have e32 : ∀ m, rd32le (b m) (b (m / 256)) (b (m / 65536)) (b (m / 16777216)) = m % two32 := fun m => by
    rw [rd32le_le32]; rfl
  have hd' : den % two32 = den := Nat.mod_eq_of_lt hd
  have hn' : num % two32 = num := Nat.mod_eq_of_lt hn
  cases codec <;>
    simp [headerN, decodeFileHeader, expectedHeader, signature, fourCC, le16, le32, slice, u16, u32,
      e16 _ hw, e16 _ hh, e32, hd', hn'] <;>
    simp [rd16le, b]

theorem parseFileHeader_headerN (c : Config) (n : Nat) (rest : Bs) (hw : c.width < 65536)
    (hh : c.height < 65536) (hd : c.den < two32) (hn : c.num < two32) :
    parseFileHeader (headerN c n ++ rest) = .ok (expectedHeader c n, rest) := by
  unfold parseFileHeader
  have : readFull 32 (headerN c n ++ rest) = .ok (headerN c n) rest := by
    have := readFull_append (headerN c n) rest
    rwa [headerN_length] at this
  rw [this]
  simp only [decode_headerN c n hw hh hd hn]
  simp [expectedHeader]

theorem newReader_headerN (c : Config) (n : Nat) (rest : Bs) (hw : c.width < 65536)
    (hh : c.height < 65536) (hd : c.den < two32) (hn : c.num < two32) (hd0 : c.den ≠ 0) (hn0 : c.num ≠ 0) :
    newReader (headerN c n ++ rest) = .ok ({ den := c.den, num := c.num }, expectedHeader c n, rest) := by
  unfold newReader
  rw [parseFileHeader_headerN c n rest hw hh hd hn]
  simp [expectedHeader, hd0, hn0]

/-! ### reader: frames -/

theorem le64_decode (pts : Nat) (h : pts < two64) :
    rd32le (b pts) (b (pts / 256)) (b (pts / 65536)) (b (pts / 16777216))
      + rd32le (b (pts / 4294967296)) (b (pts / 4294967296 / 256)) (b (pts / 4294967296 / 65536))
          (b (pts / 4294967296 / 16777216)) * two32 = pts := by
  rw [rd32le_le32, rd32le_le32]
  simp only [two32, two64] at *
  omega

theorem readFull12_cons (a0 a1 a2 a3 a4 a5 a6 a7 a8 a9 a10 a11 : Byte) (rest : Bs) :
    readFull 12 (a0 :: a1 :: a2 :: a3 :: a4 :: a5 :: a6 :: a7 :: a8 :: a9 :: a10 :: a11 :: rest)
      = .ok [a0, a1, a2, a3, a4, a5, a6, a7, a8, a9, a10, a11] rest := by
  simp [readFull]

theorem slice12_pts (a0 a1 a2 a3 a4 a5 a6 a7 a8 a9 a10 a11 : Byte) :
    slice [a0, a1, a2, a3, a4, a5, a6, a7, a8, a9, a10, a11] 4 12 = some [a4, a5, a6, a7, a8, a9, a10, a11] := by
  simp [slice]

theorem slice12_size (a0 a1 a2 a3 a4 a5 a6 a7 a8 a9 a10 a11 : Byte) :
    slice [a0, a1, a2, a3, a4, a5, a6, a7, a8, a9, a10, a11] 0 4 = some [a0, a1, a2, a3] := by
  simp [slice]

/-- `ParseNextFrame` on a stream that has at least the 12 header bytes -/
theorem parseNextFrame_cons (r : Reader) (a0 a1 a2 a3 a4 a5 a6 a7 a8 a9 a10 a11 : Byte) (rest : Bs) :
    parseNextFrame r (a0 :: a1 :: a2 :: a3 :: a4 :: a5 :: a6 :: a7 :: a8 :: a9 :: a10 :: a11 :: rest) =
      match ptsToTimestamp r (rd32le a4 a5 a6 a7 + rd32le a8 a9 a10 a11 * two32) with
      | none => .panic
      | some timestamp =>
        match readFull (rd32le a0 a1 a2 a3) rest with
        | .short => .err .incompleteFrameData
        | .eof => .err .eof
        | .ok payload rest' => .ok (payload, { frameSize := rd32le a0 a1 a2 a3, timestamp }, rest') := by
  unfold parseNextFrame
  rw [readFull12_cons]
  simp only [slice12_pts, slice12_size, Option.bind_some, u64, u32]
  rfl

theorem parseNextFrame_record (r : Reader) (frame : Bs) (pts : Nat) (rest : Bs)
    (hlen : frame.length < two32) (hpts : pts < two64) (hnum : r.num ≠ 0) :
    parseNextFrame r (frameRecord frame pts ++ rest) =
      .ok (frame, { frameSize := frame.length, timestamp := (pts * r.den % two64) / r.num }, rest) := by
  have hsz : rd32le (b frame.length) (b (frame.length / 256)) (b (frame.length / 65536))
      (b (frame.length / 16777216)) = frame.length := by
    rw [rd32le_le32]; simp only [two32] at hlen; omega
  have h64 := le64_decode pts hpts
  simp only [frameRecord, le32, le64, List.cons_append, List.nil_append]
  rw [parseNextFrame_cons, hsz, h64, readFull_append]
  simp [ptsToTimestamp, hnum]

theorem readFrames_eq (r : Reader) (s : Bs) : readFrames r s = match parseNextFrame r s with
    | .err e => ([], .err e)
    | .panic => ([], .panic)
    | .ok (payload, fh, rest) => ((payload, fh) :: (readFrames r rest).1, (readFrames r rest).2) := by
  rw [readFrames]
  split <;> simp [*]

theorem readFrames_nil (r : Reader) : readFrames r [] = ([], .err .eof) := by
  rw [readFrames_eq]; simp [parseNextFrame, readFull]

/-- the record of a logged frame -/
def recOf (e : Written) : Bs := frameRecord e.frame e.pts

/-- what the reader returns for a logged frame -/
def readBack (c : Config) (e : Written) : Bs × FrameHeader :=
  (e.frame, { frameSize := e.frame.length, timestamp := (e.pts * c.den % two64) / c.num })

theorem readFrames_records (c : Config) (log : List Written) (hn0 : c.num ≠ 0)
    (hlen : ∀ e ∈ log, e.frame.length < two32) (hpts : ∀ e ∈ log, e.pts < two64) :
    readFrames { den := c.den, num := c.num } (log.map recOf).flatten = (log.map (readBack c), .err .eof) := by
  induction log with
  | nil => simpa using readFrames_nil _
  | cons e log ih =>
    have h1 := hlen e (by simp)
    have h2 := hpts e (by simp)
    have ih' := ih (fun x hx => hlen x (by simp [hx])) (fun x hx => hpts x (by simp [hx]))
    rw [readFrames_eq]
    simp only [List.map_cons, List.flatten_cons, recOf]
    rw [parseNextFrame_record _ e.frame e.pts _ h1 h2 hn0]
    simp [ih', readBack]

/-! ### writer: what one call can do to the output -/

theorem two64_pos : 0 < two64 := by decide

theorem rtpTimestamp_lt (c : Config) (ts first : Nat) : rtpTimestamp c ts first < two32 := by
  unfold rtpTimestamp
  have : (ts + two32 - first % two32) % two32 < two32 := Nat.mod_lt _ (by decide)
  split
  · exact this
  · simp only [clockRate, two32] at *; omega

theorem ptsOfTimestamp_lt (c : Config) (t : Nat) (ht : t < two32) : ptsOfTimestamp c t < two64 := by
  unfold ptsOfTimestamp
  split
  · simp only [two32, two64] at *; omega
  · unfold timestampToPts
    have : t * c.num % two64 < two64 := Nat.mod_lt _ two64_pos
    exact Nat.lt_of_le_of_lt (Nat.div_le_self _ _) this

/-- the effect of one (non-panicking) codec step on the sink-visible part of the state -/
def Effect (c : Config) (s s' : W) (p : Pkt) (t : Nat) : Prop :=
  s'.first = s.first ∧
  ((s'.out = s.out ∧ s'.log = s.log ∧ s'.count = s.count) ∨
   ∃ frame, s'.out = s.out ++ frameRecord frame (ptsOfTimestamp c t) ∧
     s'.log = s.log ++ [{ frame, rtpTs := p.ts, pts := ptsOfTimestamp c t }] ∧ s'.count = s.count + 1)

/-! The three codec functions are instances of one gating machine. -/

/-- how a codec reads a packet descriptor -/
structure Sem where
  keyish : Bool → Bool → Bs → Bool       -- may open the file (first packet of a key frame)
  startish : Bool → Bool → Bs → Bool     -- may open a frame
  strict : Bool                          -- VP8/VP9: frames must open with a start packet and be non-empty
  pre : Bs                               -- AV1: temporal delimiter put in front of every frame

def vp8Sem : Sem :=
  { keyish := fun _ _ pl => vp8KeyFrameBit pl, startish := fun a _ _ => a, strict := true, pre := [] }
def vp9Sem : Sem :=
  { keyish := fun a _ _ => !a, startish := fun _ b' _ => b', strict := true, pre := [] }
def av1Sem : Sem :=
  { keyish := fun a _ pl => a || startsWithSequenceHeader pl, startish := fun _ _ _ => true, strict := false,
    pre := av1Delimiter }

def semOf : Codec → Sem
  | .vp8 => vp8Sem | .vp9 => vp9Sem | .av1 => av1Sem

def gstep (σ : Sem) (c : Config) (s : W) (p : Pkt) (t : Nat) : Res :=
  match p.desc with
  | .err => .err s
  | .ok a b' pl =>
    if !s.seenKey && !σ.keyish a b' pl then .ok s
    else if σ.strict && s.cur.isEmpty && !σ.startish a b' pl then .ok s
    else if !p.marker then .ok { s with seenKey := true, cur := s.cur ++ pl }
    else if σ.strict && (s.cur ++ pl).isEmpty then .ok { s with seenKey := true, cur := s.cur ++ pl }
    else .ok { writeFrame c { s with seenKey := true, cur := s.cur ++ pl } (σ.pre ++ (s.cur ++ pl)) t p.ts with cur := [] }

theorem writeVP8_eq (c : Config) (s : W) (p : Pkt) (t : Nat) : writeVP8 c s p t = gstep vp8Sem c s p t := by
  unfold writeVP8 gstep
  cases p.desc with
  | err => rfl
  | ok a b' pl =>
    simp only [vp8Sem, Bool.true_and, List.nil_append]
    repeat' split
    all_goals first | rfl | simp

theorem writeVP9_eq (c : Config) (s : W) (p : Pkt) (t : Nat) : writeVP9 c s p t = gstep vp9Sem c s p t := by
  unfold writeVP9 gstep
  cases p.desc with
  | err => rfl
  | ok a b' pl =>
    simp only [vp9Sem, Bool.false_and, Bool.false_eq_true, if_false, Bool.true_and, List.nil_append, Bool.not_not]
    repeat' split
    all_goals first | rfl | simp

theorem writeAV1_eq (c : Config) (s : W) (p : Pkt) (t : Nat) : writeAV1 c s p t = gstep av1Sem c s p t := by
  unfold writeAV1 gstep
  cases p.desc with
  | err => rfl
  | ok a b' pl =>
    simp only [av1Sem, Bool.false_and, Bool.false_eq_true, if_false]
    repeat' split
    all_goals first | rfl | simp

theorem gstep_effect (σ : Sem) (c : Config) (s : W) (p : Pkt) (t : Nat) (s' : W)
    (h : gstep σ c s p t = .ok s' ∨ gstep σ c s p t = .err s') : Effect c s s' p t := by
  unfold gstep at h
  unfold Effect
  rcases h with h | h <;>
  · repeat' split at h
    all_goals first
      | (injection h with h; subst h; simp [writeFrame])
      | cases h

/-- the state `WriteRTP` works on after its `count == 0` test -/
def withFirst (s : W) (p : Pkt) : W := if s.count == 0 then { s with first := p.ts } else s

/-- `WriteRTP` in terms of the gating machine -/
theorem writeRTP_eq (c : Config) (s : W) (p : Pkt) :
    writeRTP c s p = if p.empty then .ok s
      else gstep (semOf c.codec) c (withFirst s p) p (rtpTimestamp c p.ts (withFirst s p).first) := by
  unfold writeRTP
  split
  · rfl
  · cases hc : c.codec <;> simp only [semOf, withFirst, writeVP8_eq, writeVP9_eq, writeAV1_eq]

theorem writeRTP_effect (c : Config) (s : W) (p : Pkt) (s' : W)
    (h : writeRTP c s p = .ok s' ∨ writeRTP c s p = .err s') :
    s' = s ∨ Effect c (withFirst s p) s' p (rtpTimestamp c p.ts (withFirst s p).first) := by
  rw [writeRTP_eq] at h
  split at h
  · rcases h with h | h
    · injection h with h; exact Or.inl h.symm
    · cases h
  · exact Or.inr (gstep_effect _ c _ p _ s' h)

/-! ### writer: the invariant tying the sink to the log -/

structure Inv (c : Config) (s : W) : Prop where
  out : s.out = header c ++ (s.log.map recOf).flatten
  count : s.count = s.log.length
  first : ∀ e0 ∈ s.log.head?, s.first = e0.rtpTs
  pts : ∀ e ∈ s.log, e.pts = ptsOfTimestamp c (rtpTimestamp c e.rtpTs s.first)

theorem inv_init (c : Config) : Inv c (newWith c).1 := by
  constructor <;> simp [newWith]

theorem inv_step (c : Config) (s : W) (p : Pkt) (s' : W) (hi : Inv c s)
    (h : writeRTP c s p = .ok s' ∨ writeRTP c s p = .err s') : Inv c s' := by
  rcases writeRTP_effect c s p s' h with rfl | ⟨hf, he⟩
  · exact hi
  · obtain ⟨ho, hc, hfirst, hpts⟩ := hi
    by_cases h0 : s.count = 0
    · -- nothing written yet: `first` follows the packet
      have hlog : s.log = [] := by
        have : s.log.length = 0 := by omega
        exact List.eq_nil_of_length_eq_zero this
      have hw : (withFirst s p).first = p.ts := by simp [withFirst, h0]
      have hw2 : (withFirst s p).out = s.out ∧ (withFirst s p).log = s.log ∧ (withFirst s p).count = s.count := by
        simp [withFirst, h0]
      rw [hw] at hf he
      rw [hw2.1, hw2.2.1, hw2.2.2] at he
      rcases he with ⟨e1, e2, e3⟩ | ⟨frame, e1, e2, e3⟩
      · constructor
        · rw [e1, e2]; exact ho
        · rw [e3, e2]; exact hc
        · rw [e2, hlog]; simp
        · rw [e2, hlog]; simp
      · constructor
        · rw [e1, e2, ho, hlog]; simp [recOf]
        · rw [e3, e2, hc]; simp
        · rw [e2, hlog, hf]; simp
        · rw [e2, hlog, hf]; simp
    · have hw : withFirst s p = s := by simp [withFirst, h0]
      rw [hw] at hf he
      rcases he with ⟨e1, e2, e3⟩ | ⟨frame, e1, e2, e3⟩
      · constructor
        · rw [e1, e2]; exact ho
        · rw [e3, e2]; exact hc
        · rw [e2, hf]; exact hfirst
        · rw [e2, hf]; exact hpts
      · have hne : s.log ≠ [] := by
          intro hnil; rw [hnil] at hc; simp at hc; exact h0 hc
        constructor
        · rw [e1, e2, ho]; simp [recOf]
        · rw [e3, e2, hc]; simp
        · rw [e2, hf]
          cases hl : s.log with
          | nil => exact absurd hl hne
          | cons e0 tl => simpa [hl] using hfirst
        · rw [e2, hf]
          intro e he'
          rcases List.mem_append.mp he' with he' | he'
          · exact hpts e he'
          · simp at he'; subst he'; rfl

theorem inv_runFrom (c : Config) (ps : List Pkt) (s : W) (i errs : Nat) (hi : Inv c s) :
    Inv c (runFrom c s ps i errs).st := by
  induction ps generalizing s i errs with
  | nil => exact hi
  | cons p ps ih =>
    unfold runFrom
    split
    · rename_i s' h; exact ih s' _ _ (inv_step c s p s' hi (Or.inl h))
    · rename_i s' h; exact ih s' _ _ (inv_step c s p s' hi (Or.inr h))
    · exact hi

theorem inv_run (c : Config) (ps : List Pkt) : Inv c (run c ps).st :=
  inv_runFrom c ps _ 0 0 (inv_init c)

theorem inv_pts_lt (c : Config) (s : W) (hi : Inv c s) : ∀ e ∈ s.log, e.pts < two64 := by
  intro e he
  rw [hi.pts e he]
  exact ptsOfTimestamp_lt c _ (rtpTimestamp_lt ..)

/-! ### `Close` -/

theorem close_eq (c : Config) (s : W) (hi : Inv c s) (seekable : Bool) :
    close seekable s = headerN c (if seekable then s.count else 900) ++ (s.log.map recOf).flatten := by
  unfold close
  rw [hi.out]
  cases seekable
  · simp [header_eq]
  · have h24 : (header c ++ (s.log.map recOf).flatten).take 24
        = signature ++ le16 0 ++ le16 32 ++ fourCC c.codec ++ le16 c.width ++ le16 c.height ++ le32 c.den ++ le32 c.num := by
      cases hc : c.codec <;> simp [header, signature, fourCC, le16, le32, hc]
    have h28 : (header c ++ (s.log.map recOf).flatten).drop 28 = le32 0 ++ (s.log.map recOf).flatten := by
      cases hc : c.codec <;> simp [header, signature, fourCC, le16, le32, hc]
    rw [h24, h28]
    simp [headerN]

/-! ### gating: which packets end up in which frame -/

/-- log entries as (frame bytes, RTP timestamp of the completing packet) -/
def proj (l : List Written) : List (Bs × Nat) := l.map (fun e => (e.frame, e.rtpTs))

@[simp] theorem withFirst_seenKey (s : W) (p : Pkt) : (withFirst s p).seenKey = s.seenKey := by
  unfold withFirst; split <;> rfl
@[simp] theorem withFirst_cur (s : W) (p : Pkt) : (withFirst s p).cur = s.cur := by
  unfold withFirst; split <;> rfl
@[simp] theorem withFirst_log (s : W) (p : Pkt) : (withFirst s p).log = s.log := by
  unfold withFirst; split <;> rfl
@[simp] theorem withFirst_out (s : W) (p : Pkt) : (withFirst s p).out = s.out := by
  unfold withFirst; split <;> rfl

/-- feed packets, insisting that every call returns nil -/
def feedOk (c : Config) : W → List Pkt → Option W
  | s, [] => some s
  | s, p :: ps => match writeRTP c s p with
    | .ok s' => feedOk c s' ps
    | _ => none

theorem feedOk_append (c : Config) (ps qs : List Pkt) (s : W) :
    feedOk c s (ps ++ qs) = (feedOk c s ps).bind (fun s1 => feedOk c s1 qs) := by
  induction ps generalizing s with
  | nil => rfl
  | cons p ps ih =>
    simp only [List.cons_append, feedOk]
    split
    · exact ih _
    · rfl

theorem runFrom_of_feedOk (c : Config) (ps : List Pkt) (s s' : W) (h : feedOk c s ps = some s') (i errs : Nat) :
    runFrom c s ps i errs = { st := s', errs, panicAt := none } := by
  induction ps generalizing s i errs with
  | nil => simp [feedOk] at h; simp [runFrom, h]
  | cons p ps ih =>
    unfold feedOk at h
    unfold runFrom
    split at h
    · rename_i s1 hw
      rw [hw]
      exact ih s1 h _ _
    · cases h

/-- a packet the depacketizer accepted, as the writer sees it -/
def mkPkt (ts : Nat) (marker : Bool) (d : Bool × Bool × Bs) : Pkt :=
  { ts, marker, empty := false, desc := .ok d.1 d.2.1 d.2.2 }

/-- the packets of one frame: same timestamp, marker on the last one -/
def pktsOf (ts : Nat) : List (Bool × Bool × Bs) → List Pkt
  | [] => []
  | [d] => [mkPkt ts true d]
  | d :: d' :: ds => mkPkt ts false d :: pktsOf ts (d' :: ds)

variable (c : Config)

theorem gstep_accept (σ : Sem) (s : W) (p : Pkt) (t : Nat) (a b' : Bool) (pl : Bs) (hd : p.desc = .ok a b' pl)
    (h1 : ¬ (!s.seenKey && !σ.keyish a b' pl) = true)
    (h2 : ¬ (σ.strict && s.cur.isEmpty && !σ.startish a b' pl) = true)
    (hm : p.marker = false) :
    gstep σ c s p t = .ok { s with seenKey := true, cur := s.cur ++ pl } := by
  unfold gstep
  rw [hd]
  simp only []
  rw [if_neg h1, if_neg h2, if_pos (by simp [hm])]

theorem gstep_flush (σ : Sem) (s : W) (p : Pkt) (t : Nat) (a b' : Bool) (pl : Bs) (hd : p.desc = .ok a b' pl)
    (h1 : ¬ (!s.seenKey && !σ.keyish a b' pl) = true)
    (h2 : ¬ (σ.strict && s.cur.isEmpty && !σ.startish a b' pl) = true)
    (hm : p.marker = true)
    (h3 : ¬ (σ.strict && (s.cur ++ pl).isEmpty) = true) :
    gstep σ c s p t = .ok { writeFrame c { s with seenKey := true, cur := s.cur ++ pl }
      (σ.pre ++ (s.cur ++ pl)) t p.ts with cur := [] } := by
  unfold gstep
  rw [hd]
  simp only []
  rw [if_neg h1, if_neg h2, if_neg (by simp [hm]), if_neg h3]

theorem gstep_drop (σ : Sem) (s : W) (p : Pkt) (t : Nat) (a b' : Bool) (pl : Bs) (hd : p.desc = .ok a b' pl)
    (h12 : (!s.seenKey && !σ.keyish a b' pl) = true ∨ (σ.strict && s.cur.isEmpty && !σ.startish a b' pl) = true) :
    gstep σ c s p t = .ok s := by
  unfold gstep
  rw [hd]
  simp only []
  by_cases h1 : (!s.seenKey && !σ.keyish a b' pl) = true
  · rw [if_pos h1]
  · rw [if_neg h1]
    rcases h12 with h | h
    · exact absurd h h1
    · rw [if_pos h]

theorem not_drop1 (σ : Sem) (seen : Bool) (a b' : Bool) (pl : Bs)
    (hk : seen = true ∨ σ.keyish a b' pl = true) : ¬ (!seen && !σ.keyish a b' pl) = true := by
  intro h
  simp only [Bool.and_eq_true, Bool.not_eq_true'] at h
  rcases hk with hk | hk
  · rw [hk] at h; exact absurd h.1 (by simp)
  · rw [hk] at h; exact absurd h.2 (by simp)

theorem not_drop2 (σ : Sem) (cur : Bs) (a b' : Bool) (pl : Bs)
    (hs : σ.strict = true → cur = [] → σ.startish a b' pl = true) :
    ¬ (σ.strict && cur.isEmpty && !σ.startish a b' pl) = true := by
  intro h
  simp only [Bool.and_eq_true, Bool.not_eq_true', List.isEmpty_iff] at h
  have := hs h.1.1 h.1.2
  rw [this] at h; exact absurd h.2 (by simp)

/-- an accepted packet that does not end the frame -/
theorem step_accept (s : W) (ts : Nat) (d : Bool × Bool × Bs)
    (hk : s.seenKey = true ∨ (semOf c.codec).keyish d.1 d.2.1 d.2.2 = true)
    (hs : (semOf c.codec).strict = true → s.cur = [] → (semOf c.codec).startish d.1 d.2.1 d.2.2 = true) :
    ∃ s', writeRTP c s (mkPkt ts false d) = .ok s' ∧ s'.seenKey = true ∧ s'.cur = s.cur ++ d.2.2 ∧ s'.log = s.log := by
  rw [writeRTP_eq]
  rw [if_neg (by simp [mkPkt])]
  rw [gstep_accept c _ _ _ _ d.1 d.2.1 d.2.2 rfl
    (not_drop1 _ _ _ _ _ (by simpa using hk)) (not_drop2 _ _ _ _ _ (by simpa using hs)) rfl]
  exact ⟨_, rfl, rfl, by simp, by simp⟩

/-- an accepted packet that ends the frame -/
theorem step_flush (s : W) (ts : Nat) (d : Bool × Bool × Bs)
    (hk : s.seenKey = true ∨ (semOf c.codec).keyish d.1 d.2.1 d.2.2 = true)
    (hs : (semOf c.codec).strict = true → s.cur = [] → (semOf c.codec).startish d.1 d.2.1 d.2.2 = true)
    (hne : (semOf c.codec).strict = true → s.cur ++ d.2.2 ≠ []) :
    ∃ s', writeRTP c s (mkPkt ts true d) = .ok s' ∧ s'.seenKey = true ∧ s'.cur = [] ∧
      proj s'.log = proj s.log ++ [((semOf c.codec).pre ++ (s.cur ++ d.2.2), ts)] := by
  rw [writeRTP_eq]
  rw [if_neg (by simp [mkPkt])]
  rw [gstep_flush c _ _ _ _ d.1 d.2.1 d.2.2 rfl
    (not_drop1 _ _ _ _ _ (by simpa using hk)) (not_drop2 _ _ _ _ _ (by simpa using hs)) rfl
    (by
      intro h
      simp only [Bool.and_eq_true, withFirst_cur, List.isEmpty_iff] at h
      exact hne h.1 h.2)]
  exact ⟨_, rfl, rfl, rfl, by simp [writeFrame, proj, mkPkt]⟩

/-- a packet that cannot open the file, before any key frame -/
theorem step_drop (s : W) (ts : Nat) (m : Bool) (d : Bool × Bool × Bs)
    (hk : s.seenKey = false) (hcur : s.cur = [])
    (hno : ((semOf c.codec).keyish d.1 d.2.1 d.2.2 &&
            (!(semOf c.codec).strict || (semOf c.codec).startish d.1 d.2.1 d.2.2)) = false) :
    ∃ s', writeRTP c s (mkPkt ts m d) = .ok s' ∧ s'.seenKey = false ∧ s'.cur = [] ∧ s'.log = s.log ∧ s'.out = s.out := by
  rw [writeRTP_eq]
  rw [if_neg (by simp [mkPkt])]
  rw [gstep_drop c _ _ _ _ d.1 d.2.1 d.2.2 rfl]
  · exact ⟨_, rfl, by simp [hk], by simp [hcur], by simp, by simp⟩
  · simp only [withFirst_seenKey, hk, withFirst_cur, hcur]
    cases h1 : (semOf c.codec).keyish d.1 d.2.1 d.2.2
    · simp
    · rw [h1] at hno
      simp only [Bool.true_and, Bool.or_eq_false_iff, Bool.not_eq_false'] at hno
      simp [hno.1, hno.2]

/-- the packets of a frame that the writer accepts are appended and flushed at the marker -/
theorem feed_accept (ts : Nat) (ds : List (Bool × Bool × Bs)) (hne : ds ≠ []) (s : W)
    (hkey : s.seenKey = true ∨ ∃ d rest, ds = d :: rest ∧ (semOf c.codec).keyish d.1 d.2.1 d.2.2 = true)
    (hopen : (semOf c.codec).strict = true → s.cur = [] →
      ∃ d rest, ds = d :: rest ∧ (semOf c.codec).startish d.1 d.2.1 d.2.2 = true ∧ d.2.2 ≠ []) :
    ∃ s', feedOk c s (pktsOf ts ds) = some s' ∧ s'.seenKey = true ∧ s'.cur = [] ∧
      proj s'.log = proj s.log ++ [((semOf c.codec).pre ++ (s.cur ++ (ds.map (·.2.2)).flatten), ts)] := by
  induction ds generalizing s with
  | nil => exact absurd rfl hne
  | cons d rest ih =>
    have hk : s.seenKey = true ∨ (semOf c.codec).keyish d.1 d.2.1 d.2.2 = true := by
      rcases hkey with h | ⟨d', r', he, h⟩
      · exact Or.inl h
      · injection he with h1 h2; subst h1; exact Or.inr h
    have hs : (semOf c.codec).strict = true → s.cur = [] → (semOf c.codec).startish d.1 d.2.1 d.2.2 = true := by
      intro h1 h2
      obtain ⟨d', r', he, h, _⟩ := hopen h1 h2
      injection he with h1 h2; subst h1; exact h
    have hgrow : (semOf c.codec).strict = true → s.cur ++ d.2.2 ≠ [] := by
      intro h1 h2
      have hc : s.cur = [] := (List.append_eq_nil_iff.mp h2).1
      obtain ⟨d', r', he, _, h⟩ := hopen h1 hc
      injection he with h3 h4; subst h3
      exact h (List.append_eq_nil_iff.mp h2).2
    cases rest with
    | nil =>
      obtain ⟨s', hw, h1, h2, h3⟩ := step_flush c s ts d hk hs hgrow
      refine ⟨s', ?_, h1, h2, ?_⟩
      · simp [pktsOf, feedOk, hw]
      · simpa using h3
    | cons d' rest' =>
      obtain ⟨s1, hw, h1, h2, h3⟩ := step_accept c s ts d hk hs
      obtain ⟨s', hf, g1, g2, g3⟩ := ih (by simp) s1 (Or.inl h1)
        (fun hstrict hnil => by rw [h2] at hnil; exact absurd hnil (hgrow hstrict))
      refine ⟨s', ?_, g1, g2, ?_⟩
      · simp only [pktsOf, feedOk, hw]; exact hf
      · rw [g3, h2]; simp [proj, h3]

/-- the packets of a frame that cannot open the file are all dropped -/
theorem feed_drop (ts : Nat) (ds : List (Bool × Bool × Bs)) (s : W)
    (hk : s.seenKey = false) (hcur : s.cur = [])
    (hno : ∀ d ∈ ds, ((semOf c.codec).keyish d.1 d.2.1 d.2.2 &&
            (!(semOf c.codec).strict || (semOf c.codec).startish d.1 d.2.1 d.2.2)) = false) :
    ∃ s', feedOk c s (pktsOf ts ds) = some s' ∧ s'.seenKey = false ∧ s'.cur = [] ∧ s'.log = s.log := by
  induction ds generalizing s with
  | nil => exact ⟨s, rfl, hk, hcur, rfl⟩
  | cons d rest ih =>
    cases rest with
    | nil =>
      obtain ⟨s', hw, h1, h2, h3, _⟩ := step_drop c s ts true d hk hcur (hno d (by simp))
      exact ⟨s', by simp [pktsOf, feedOk, hw], h1, h2, h3⟩
    | cons d' rest' =>
      obtain ⟨s1, hw, h1, h2, h3, _⟩ := step_drop c s ts false d hk hcur (hno d (by simp))
      obtain ⟨s', hf, g1, g2, g3⟩ := ih s1 h1 h2 (fun x hx => hno x (by simp [hx]))
      exact ⟨s', by simp only [pktsOf, feedOk, hw]; exact hf, g1, g2, by rw [g3, h3]⟩

/-- a frame as sent: the descriptors of its packets in order -/
structure Frame where
  ts : Nat
  pkts : List (Bool × Bool × Bs)

def Frame.key (σ : Sem) (f : Frame) : Bool :=
  match f.pkts with
  | d :: _ => σ.keyish d.1 d.2.1 d.2.2
  | [] => false

/-- the bytes the writer should assemble for the frame -/
def Frame.bytes (σ : Sem) (f : Frame) : Bs := σ.pre ++ (f.pkts.map (·.2.2)).flatten

/-- well-formed for the codec: what pion's payloaders emit for one frame -/
structure Frame.WF (σ : Sem) (f : Frame) : Prop where
  nonempty : f.pkts ≠ []
  opens : σ.strict = true → ∃ d rest, f.pkts = d :: rest ∧ σ.startish d.1 d.2.1 d.2.2 = true ∧ d.2.2 ≠ []
  noLateKey : f.key σ = false →
    ∀ d ∈ f.pkts, (σ.keyish d.1 d.2.1 d.2.2 && (!σ.strict || σ.startish d.1 d.2.1 d.2.2)) = false

def streamPkts (fs : List Frame) : List Pkt := fs.flatMap (fun f => pktsOf f.ts f.pkts)

/-- the frames that reach the file: everything from the first key frame on -/
def kept (σ : Sem) (seenKey : Bool) (fs : List Frame) : List Frame :=
  if seenKey then fs else fs.dropWhile (fun f => !f.key σ)

theorem feed_stream (fs : List Frame) (hwf : ∀ f ∈ fs, Frame.WF (semOf c.codec) f) (s : W) (hcur : s.cur = []) :
    ∃ s', feedOk c s (streamPkts fs) = some s' ∧ s'.cur = [] ∧
      proj s'.log = proj s.log ++ (kept (semOf c.codec) s.seenKey fs).map (fun f => (f.bytes (semOf c.codec), f.ts)) := by
  induction fs generalizing s with
  | nil => exact ⟨s, rfl, hcur, by simp [kept]⟩
  | cons f fs ih =>
    have wf := hwf f (by simp)
    have hrest : ∀ g ∈ fs, Frame.WF (semOf c.codec) g := fun g hg => hwf g (by simp [hg])
    simp only [streamPkts, List.flatMap_cons]
    rw [feedOk_append]
    by_cases hacc : s.seenKey = true ∨ f.key (semOf c.codec) = true
    · -- the frame is written
      have hkey : s.seenKey = true ∨ ∃ d rest, f.pkts = d :: rest ∧ (semOf c.codec).keyish d.1 d.2.1 d.2.2 = true := by
        rcases hacc with h | h
        · exact Or.inl h
        · right
          unfold Frame.key at h
          cases hp : f.pkts with
          | nil => rw [hp] at h; cases h
          | cons d rest => rw [hp] at h; exact ⟨d, rest, rfl, h⟩
      obtain ⟨s1, hf, h1, h2, h3⟩ := feed_accept c f.ts f.pkts wf.nonempty s hkey (fun h _ => wf.opens h)
      obtain ⟨s', hf', g1, g2⟩ := ih hrest s1 h2
      refine ⟨s', ?_, g1, ?_⟩
      · simp only [hf, Option.bind_some]; exact hf'
      · have : kept (semOf c.codec) s.seenKey (f :: fs) = f :: fs := by
          unfold kept
          rcases hacc with h | h
          · simp [h]
          · split
            · rfl
            · simp [List.dropWhile, h]
        rw [g2, h3, h1, hcur, this]
        simp [kept, Frame.bytes]
    · -- before the first key frame: dropped
      have hk : s.seenKey = false := by
        cases h : s.seenKey with
        | false => rfl
        | true => exact absurd (Or.inl h) hacc
      have hnk : f.key (semOf c.codec) = false := by
        cases h : f.key (semOf c.codec) with
        | false => rfl
        | true => exact absurd (Or.inr h) hacc
      obtain ⟨s1, hf, h1, h2, h3⟩ := feed_drop c f.ts f.pkts s hk hcur (wf.noLateKey hnk)
      obtain ⟨s', hf', g1, g2⟩ := ih hrest s1 h2
      refine ⟨s', ?_, g1, ?_⟩
      · simp only [hf, Option.bind_some]; exact hf'
      · rw [g2, h3, h1, hk]
        simp [kept, List.dropWhile, hnk]

/-- a packet that cannot open the file: empty, undepacketizable, or neither key nor start -/
def Pkt.cannotOpen (σ : Sem) (p : Pkt) : Prop :=
  p.empty = true ∨ match p.desc with
    | .err => True
    | .ok a b' pl => (σ.keyish a b' pl && (!σ.strict || σ.startish a b' pl)) = false

/-- nothing reaches the sink before a packet that can open the file -/
theorem no_key_no_output (ps : List Pkt) (s : W) (hk : s.seenKey = false) (hcur : s.cur = [])
    (hno : ∀ p ∈ ps, p.cannotOpen (semOf c.codec)) (i errs : Nat) :
    (runFrom c s ps i errs).st.log = s.log ∧ (runFrom c s ps i errs).st.out = s.out := by
  induction ps generalizing s i errs with
  | nil => exact ⟨rfl, rfl⟩
  | cons p ps ih =>
    have hrest : ∀ q ∈ ps, q.cannotOpen (semOf c.codec) := fun q hq => hno q (by simp [hq])
    have hp := hno p (by simp)
    have hw := fun i errs => ih (withFirst s p) (by simp [hk]) (by simp [hcur]) hrest i errs
    simp only [withFirst_log, withFirst_out] at hw
    unfold runFrom
    rw [writeRTP_eq]
    by_cases he : p.empty = true
    · rw [if_pos he]
      exact ih s hk hcur hrest _ _
    · rw [if_neg he]
      cases hdesc : p.desc with
      | err =>
        have : gstep (semOf c.codec) c (withFirst s p) p (rtpTimestamp c p.ts (withFirst s p).first)
            = .err (withFirst s p) := by unfold gstep; rw [hdesc]
        rw [this]
        exact hw _ _
      | ok a b' pl =>
        have hd : ((semOf c.codec).keyish a b' pl &&
            (!(semOf c.codec).strict || (semOf c.codec).startish a b' pl)) = false := by
          rcases hp with h | h
          · exact absurd h he
          · rw [hdesc] at h; exact h
        rw [gstep_drop c _ _ _ _ a b' pl hdesc]
        · exact hw _ _
        · simp only [withFirst_seenKey, hk, withFirst_cur, hcur]
          cases h1 : (semOf c.codec).keyish a b' pl
          · simp
          · rw [h1] at hd
            simp only [Bool.true_and, Bool.or_eq_false_iff, Bool.not_eq_false'] at hd
            simp [hd.1, hd.2]

/-! ### the writer never panics -/

theorem gstep_no_panic (σ : Sem) (s : W) (p : Pkt) (t : Nat) : gstep σ c s p t ≠ .panic := by
  unfold gstep
  repeat' split
  all_goals simp

/-- `WriteRTP` never indexes out of range, whatever the codec, the state and the packet -/
theorem writeRTP_no_panic (s : W) (p : Pkt) : writeRTP c s p ≠ .panic := by
  rw [writeRTP_eq]
  split
  · simp
  · exact gstep_no_panic c _ _ _ _

theorem runFrom_no_panic (ps : List Pkt) (s : W) (i errs : Nat) : (runFrom c s ps i errs).panicAt = none := by
  induction ps generalizing s i errs with
  | nil => rfl
  | cons p ps ih =>
    unfold runFrom
    split
    · exact ih _ _ _
    · exact ih _ _ _
    · rename_i h; exact absurd h (writeRTP_no_panic c s p)

/-! ### the reader never panics and always makes progress (for C37) -/

theorem slice_some (buf : Bs) (lo hi : Nat) (h1 : lo ≤ hi) (h2 : hi ≤ buf.length) :
    ∃ l, slice buf lo hi = some l ∧ l.length = hi - lo := by
  refine ⟨(buf.drop lo).take (hi - lo), by simp [slice, h1, h2], ?_⟩
  simp [List.length_take, List.length_drop]; omega

theorem u16_some (l : Bs) (h : 2 ≤ l.length) : ∃ n, u16 l = some n := by
  match l, h with
  | a :: b' :: _, _ => exact ⟨_, rfl⟩

theorem u32_some (l : Bs) (h : 4 ≤ l.length) : ∃ n, u32 l = some n ∧ n < two32 := by
  match l, h with
  | a :: b' :: c :: d :: _, _ => exact ⟨_, rfl, rd32le_lt a b' c d⟩

theorem u64_some (l : Bs) (h : 8 ≤ l.length) : ∃ n, u64 l = some n := by
  match l, h with
  | a :: b' :: c :: d :: e :: f :: g :: h' :: _, _ => exact ⟨_, rfl⟩

theorem decodeFileHeader_some (buf : Bs) (h : buf.length = 32) : ∃ fh, decodeFileHeader buf = some fh := by
  unfold decodeFileHeader
  obtain ⟨s0, e0, _⟩ := slice_some buf 0 4 (by omega) (by omega)
  obtain ⟨s1, e1, l1⟩ := slice_some buf 4 6 (by omega) (by omega)
  obtain ⟨s2, e2, l2⟩ := slice_some buf 6 8 (by omega) (by omega)
  obtain ⟨s3, e3, _⟩ := slice_some buf 8 12 (by omega) (by omega)
  obtain ⟨s4, e4, l4⟩ := slice_some buf 12 14 (by omega) (by omega)
  obtain ⟨s5, e5, l5⟩ := slice_some buf 14 16 (by omega) (by omega)
  obtain ⟨s6, e6, l6⟩ := slice_some buf 16 20 (by omega) (by omega)
  obtain ⟨s7, e7, l7⟩ := slice_some buf 20 24 (by omega) (by omega)
  obtain ⟨s8, e8, l8⟩ := slice_some buf 24 28 (by omega) (by omega)
  obtain ⟨s9, e9, l9⟩ := slice_some buf 28 32 (by omega) (by omega)
  obtain ⟨n1, f1⟩ := u16_some s1 (by omega)
  obtain ⟨n2, f2⟩ := u16_some s2 (by omega)
  obtain ⟨n4, f4⟩ := u16_some s4 (by omega)
  obtain ⟨n5, f5⟩ := u16_some s5 (by omega)
  obtain ⟨n6, f6, _⟩ := u32_some s6 (by omega)
  obtain ⟨n7, f7, _⟩ := u32_some s7 (by omega)
  obtain ⟨n8, f8, _⟩ := u32_some s8 (by omega)
  obtain ⟨n9, f9, _⟩ := u32_some s9 (by omega)
  simp [e0, e1, e2, e3, e4, e5, e6, e7, e8, e9, f1, f2, f4, f5, f6, f7, f8, f9]

/-- `parseFileHeader` never indexes out of range, whatever the bytes -/
theorem parseFileHeader_no_panic (s : Bs) : parseFileHeader s ≠ .panic := by
  unfold parseFileHeader
  split
  · simp
  · simp
  · rename_i buf rest hr
    obtain ⟨fh, hfh⟩ := decodeFileHeader_some buf (readFull_ok_len _ _ _ _ hr).1
    rw [hfh]
    simp only []
    split
    · simp
    · split <;> simp

/-- `ivfreader.NewWith` never panics, and the reader it returns has a non-zero timebase -/
theorem newReader_no_panic (s : Bs) : newReader s ≠ .panic := by
  unfold newReader
  have := parseFileHeader_no_panic s
  split
  · simp
  · contradiction
  · split <;> simp

theorem newReader_num_ne_zero (s : Bs) (r : Reader) (h : FileHeader) (rest : Bs)
    (hr : newReader s = .ok (r, h, rest)) : r.num ≠ 0 ∧ r.den ≠ 0 ∧ rest.length + 32 = s.length := by
  unfold newReader at hr
  split at hr
  · cases hr
  · cases hr
  · rename_i h' rest' hp
    split at hr
    · cases hr
    · rename_i hz
      injection hr with hr
      injection hr with h1 hr
      injection hr with h2 h3
      subst h1; subst h3
      refine ⟨by simp only []; omega, by simp only []; omega, ?_⟩
      unfold parseFileHeader at hp
      split at hp
      · cases hp
      · cases hp
      · rename_i buf rest0 hrf
        have := (readFull_ok_len _ _ _ _ hrf).2
        split at hp
        · cases hp
        · split at hp
          · cases hp
          · split at hp
            · cases hp
            · injection hp with hp; injection hp with _ hp; subst hp; exact this

/-- `ParseNextFrame` on a reader obtained from `NewWith` never panics -/
theorem parseNextFrame_no_panic (r : Reader) (hnum : r.num ≠ 0) (s : Bs) : parseNextFrame r s ≠ .panic := by
  unfold parseNextFrame
  split
  · simp
  · simp
  · rename_i buf rest hr
    have hl := (readFull_ok_len _ _ _ _ hr).1
    obtain ⟨s0, e0, l0⟩ := slice_some buf 4 12 (by omega) (by omega)
    obtain ⟨s1, e1, l1⟩ := slice_some buf 0 4 (by omega) (by omega)
    obtain ⟨n0, f0⟩ := u64_some s0 (by omega)
    obtain ⟨n1, f1, _⟩ := u32_some s1 (by omega)
    simp only [e0, e1, Option.bind_some, f0, f1, ptsToTimestamp, hnum, if_false]
    split <;> simp

/-- the read loop never panics: it ends with end-of-file or one of the two "incomplete" errors -/
theorem readFrames_end (r : Reader) (hnum : r.num ≠ 0) (s : Bs) :
    (readFrames r s).2 = .err .eof ∨ (readFrames r s).2 = .err .incompleteFrameHeader ∨
      (readFrames r s).2 = .err .incompleteFrameData := by
  induction hn : s.length using Nat.strongRecOn generalizing s with
  | _ n ih =>
    rw [readFrames_eq]
    have hnp := parseNextFrame_no_panic r hnum s
    cases hp : parseNextFrame r s with
    | panic => exact absurd hp hnp
    | err e =>
      simp only []
      unfold parseNextFrame at hp
      split at hp
      · injection hp with hp; subst hp; simp
      · injection hp with hp; subst hp; simp
      · split at hp
        · split at hp
          · cases hp
          · split at hp
            · injection hp with hp; subst hp; simp
            · injection hp with hp; subst hp; simp
            · cases hp
        · cases hp
    | ok x =>
      obtain ⟨payload, fh, rest⟩ := x
      simp only []
      have hlt := parseNextFrame_progress r s (payload, fh) rest hp
      exact ih rest.length (by omega) rest rfl

/-- every frame returned consumed at least its 12-byte header -/
theorem parseNextFrame_consumes (r : Reader) (s : Bs) (payload : Bs) (fh : FrameHeader) (rest : Bs)
    (h : parseNextFrame r s = .ok (payload, fh, rest)) :
    rest.length + 12 + payload.length = s.length ∧ fh.frameSize = payload.length := by
  unfold parseNextFrame at h
  split at h
  · cases h
  · cases h
  · rename_i buf rest0 hr
    have h0 := (readFull_ok_len _ _ _ _ hr).2
    split at h
    · split at h
      · cases h
      · split at h
        · cases h
        · cases h
        · rename_i pl rest' hr2
          have h1 := readFull_ok_len _ _ _ _ hr2
          injection h with h
          injection h with e1 h
          injection h with e2 e3
          subst e1; subst e3; subst e2
          exact ⟨by omega, by simp only []; omega⟩
    · cases h

theorem readFull_ok_split (n : Nat) (s a r : Bs) (h : readFull n s = .ok a r) : s = a ++ r ∧ a.length = n := by
  unfold readFull at h
  split at h
  · injection h with h1 h2
    subst h1; subst h2
    simp; omega
  · split at h <;> cases h

/-- a returned frame is exactly the `FrameSize` bytes that follow its 12-byte header in the stream -/
theorem parseNextFrame_exact (r : Reader) (s : Bs) (payload : Bs) (fh : FrameHeader) (rest : Bs)
    (h : parseNextFrame r s = .ok (payload, fh, rest)) :
    ∃ hdr : Bs, hdr.length = 12 ∧ s = hdr ++ payload ++ rest ∧ fh.frameSize = payload.length ∧
      (slice hdr 0 4).bind u32 = some payload.length := by
  unfold parseNextFrame at h
  split at h
  · cases h
  · cases h
  · rename_i buf rest0 hr
    obtain ⟨hs, hl⟩ := readFull_ok_split _ _ _ _ hr
    split at h
    · rename_i pts size hpts hsize
      split at h
      · cases h
      · split at h
        · cases h
        · cases h
        · rename_i pl rest' hr2
          obtain ⟨hs2, hl2⟩ := readFull_ok_split _ _ _ _ hr2
          injection h with h
          injection h with e1 h
          injection h with e2 e3
          subst e1; subst e3; subst e2
          refine ⟨buf, hl, by rw [hs, hs2]; simp, by simp only []; omega, ?_⟩
          rw [hsize, hl2]
    · cases h

end WebrtcVerif.Ivf
