import WebrtcVerif.Proofs.OggHeaders
import WebrtcVerif.Proofs.OggMultiW
/-!
  Every track a writer holds has a configuration whose header packets read back as configured:
  the channel mapping comes from `defaultChannelMapping` / `validateChannelMapping`, the tags passed
  `validateOpusTags`, the sample rate is a uint32, and no call changes a track's configuration.
-/
namespace WebrtcVerif.Ogg
open WebrtcVerif.Bytes

def MappingOk (m : ChannelMapping) : Prop :=
  m.family = 0 ∨ ((m.family = 1 ∨ m.family = 2 ∨ m.family = 255) ∧ m.mapping.length = m.channelCount.toNat)

/-- configuration of a track: (sample rate, mapping, pre-skip, tags) -/
def cfgOf (t : Track) : Nat × ChannelMapping × Nat × Tags := (t.sampleRate, t.mapping, t.preSkip, t.tags)

def CfgOk (c : Nat × ChannelMapping × Nat × Tags) : Prop :=
  c.1 < two32 ∧ MappingOk c.2.1 ∧ c.2.2.1 = defaultPreSkip ∧ validOpusTags c.2.2.2 = true

/-- the OpusHead fields a reader must report for a track -/
def expectedHead (t : Track) : OggHeader :=
  if t.mapping.family = 0 then
    { channelMap := 0, channels := t.mapping.channelCount, outputGain := 0, preSkip := t.preSkip,
      sampleRate := t.sampleRate, version := 1 }
  else
    { channelMap := t.mapping.family, channels := t.mapping.channelCount, outputGain := 0, preSkip := t.preSkip,
      sampleRate := t.sampleRate, version := 1, streamCount := t.mapping.streamCount,
      coupledCount := t.mapping.coupledCount, channelMapping := t.mapping.mapping }

theorem head_roundtrip (t : Track) (h : CfgOk (cfgOf t)) : parseOpusHead (hdrOf t) = .ok (expectedHead t) := by
  obtain ⟨h1, h2, h3, _⟩ := h
  simp only [cfgOf] at h1 h2 h3
  have hp : t.preSkip < 65536 := by rw [h3]; decide
  unfold hdrOf expectedHead
  rcases h2 with h0 | ⟨hN, hl⟩
  · rw [if_pos h0]; exact head_family0 _ _ _ h0 h1 hp
  · have hne : ¬ t.mapping.family = 0 := by
      rcases hN with h | h | h <;> rw [h] <;> decide
    rw [if_neg hne]; exact head_familyN _ _ _ hN hl h1 hp

theorem tags_roundtrip' (t : Track) (h : CfgOk (cfgOf t)) : parseOpusTags (tagsOf t) = .ok t.tags :=
  tags_roundtrip t.tags h.2.2.2

theorem defaultChannelMapping_ok (n : Nat) (m : ChannelMapping) (h : defaultChannelMapping n = .ok m) : MappingOk m := by
  unfold defaultChannelMapping at h
  split at h
  · cases h; exact Or.inl rfl
  · split at h
    · cases h; exact Or.inl rfl
    · cases h

theorem validateChannelMapping_ok (f sc cc : UInt8) (mp : Bs) (m : ChannelMapping)
    (h : validateChannelMapping f sc cc mp = .ok m) : MappingOk m := by
  unfold validateChannelMapping at h
  split at h
  · cases h
  · rename_i hf
    split at h
    · cases h
    · rename_i hl
      split at h
      · cases h
      · split at h
        · cases h
        · split at h
          · cases h
          · split at h
            · cases h
            · split at h
              · cases h
              · cases h
                right
                simp only [Bool.not_eq_true', Bool.not_eq_false, Bool.or_eq_true, beq_iff_eq] at hf
                refine ⟨?_, ?_⟩
                · rcases hf with (h | h) | h
                  · exact Or.inl h
                  · exact Or.inr (Or.inl h)
                  · exact Or.inr (Or.inr h)
                · have : mp.length < 256 := by omega
                  simp [b_toNat]; omega


/-! ### no call changes a track's configuration -/

def cfgs (w : Writer) : List (Nat × ChannelMapping × Nat × Tags) := w.tracks.map (fun m => cfgOf m.t)

theorem cfgOf_same {t t' : Track} (h : SameCfg t t') : cfgOf t' = cfgOf t := by
  simp [cfgOf, h.sampleRate, h.mapping, h.preSkip, h.tags]

theorem writePage_cfgOf (o : Bs) (rw : Bool) (t : Track) (payload : Bs) (ht : UInt8) (g : Nat) :
    cfgOf (writePage o rw t payload ht g).2 = cfgOf t := cfgOf_same (writePage_cfg o rw t payload ht g).1

theorem writeHeadersLoop_cfgs (f : Bs → Bool → Track → Bs × Track) (hf : ∀ o rw t, cfgOf (f o rw t).2 = cfgOf t)
    (rw : Bool) (out : Bs) (ms : List MTrack) :
    (writeHeadersLoop f rw out ms).2.map (fun m => cfgOf m.t) = ms.map (fun m => cfgOf m.t) := by
  induction ms generalizing out with
  | nil => rfl
  | cons m rest ih => simp [writeHeadersLoop, hf, ih]

theorem startLocked_cfgs (w : Writer) : cfgs w.startLocked = cfgs w ∧
    w.startLocked.sampleRate = w.sampleRate ∧ w.startLocked.mapping = w.mapping := by
  unfold Writer.startLocked
  split
  · exact ⟨rfl, rfl, rfl⟩
  · refine ⟨?_, rfl, rfl⟩
    simp only [cfgs]
    rw [writeHeadersLoop_cfgs writeTrackCommentHeader (fun o rw t => writePage_cfgOf o rw t _ _ _),
      writeHeadersLoop_cfgs writeTrackIDHeader (fun o rw t => writePage_cfgOf o rw t _ _ _)]

theorem nilEosAll_cfgs (out : Bs) (ms : List MTrack) :
    (nilEosAll out ms).2.map (fun m => cfgOf m.t) = ms.map (fun m => cfgOf m.t) := by
  induction ms generalizing out with
  | nil => rfl
  | cons m rest ih =>
    simp only [nilEosAll, List.map_cons, ih, List.cons.injEq, and_true]
    unfold writeNilEndOfStreamPage
    split <;> rfl

theorem close_cfgs (w : Writer) : cfgs w.close = cfgs w ∧ w.close.sampleRate = w.sampleRate ∧ w.close.mapping = w.mapping := by
  obtain ⟨s1, s2, s3⟩ := startLocked_cfgs w
  unfold Writer.close
  split
  · exact ⟨rfl, rfl, rfl⟩
  · simp only
    split
    · exact ⟨s1, s2, s3⟩
    · refine ⟨?_, s2, s3⟩
      simp only [cfgs]
      rw [nilEosAll_cfgs]; exact s1

theorem set_cfgs (tracks : List MTrack) (i : Nat) (m : MTrack) (t : Track) (hm : tracks[i]? = some m)
    (ht : cfgOf t = cfgOf m.t) :
    (tracks.set i { m with t := t }).map (fun m => cfgOf m.t) = tracks.map (fun m => cfgOf m.t) := by
  apply List.ext_getElem?
  intro j
  simp only [List.getElem?_map, List.getElem?_set]
  by_cases hj : i = j
  · subst hj
    obtain ⟨hil, hx⟩ := List.getElem?_eq_some_iff.mp hm
    simp [hil, ht, hx]
  · simp [hj]

theorem writeRTP_cfgs (w : Writer) (i : Nat) (pkt : Option Bs) (ok : Bool) :
    cfgs (w.writeRTP i pkt ok).1 = cfgs w ∧ (w.writeRTP i pkt ok).1.sampleRate = w.sampleRate ∧
    (w.writeRTP i pkt ok).1.mapping = w.mapping := by
  obtain ⟨s1, s2, s3⟩ := startLocked_cfgs w
  unfold Writer.writeRTP
  split
  · exact ⟨rfl, rfl, rfl⟩
  · cases pkt with
    | none => exact ⟨rfl, rfl, rfl⟩
    | some payload =>
      simp only
      split
      · exact ⟨rfl, rfl, rfl⟩
      · split
        · exact ⟨rfl, rfl, rfl⟩
        · cases hm : w.startLocked.tracks[i]? with
          | none => exact ⟨s1, s2, s3⟩
          | some m =>
            simp only
            cases hw : writeOpusPayload w.startLocked.out w.startLocked.seekable m.t payload with
            | error e => exact ⟨s1, s2, s3⟩
            | ok r =>
              refine ⟨?_, s2, s3⟩
              simp only [cfgs]
              rw [set_cfgs _ i m r.2 hm ?_]
              · exact s1
              · unfold writeOpusPayload at hw
                split at hw
                · cases hw
                · cases hw
                  rw [writePage_cfgOf]; rfl


/-! ### configurations are valid when a track is created -/

def ConfOk (c : Config) : Prop := c.sampleRate < two32 ∧ MappingOk c.mapping

theorem applyOpt_ok (c c' : Config) (o : Opt) (h : ConfOk c) (he : applyOpt c o = .ok c') : ConfOk c' := by
  cases o <;> simp only [applyOpt] at he
  case sampleRate n => cases he; exact ⟨Nat.mod_lt _ (by decide), h.2⟩
  case channelCount n =>
    split at he
    · cases he
    · rename_i m hm; cases he; exact ⟨h.1, defaultChannelMapping_ok _ _ hm⟩
  case channelMapping f sc cc mm =>
    split at he
    · cases he
    · rename_i m hm; cases he; exact ⟨h.1, validateChannelMapping_ok _ _ _ _ _ hm⟩
  case vendor v =>
    split at he
    · cases he; exact h
    · cases he
  case userComments cs =>
    split at he
    · cases he; exact h
    · cases he
  case serial n => cases he; exact h

theorem applyOpts_ok (os : List Opt) : ∀ (c c' : Config), ConfOk c → applyOpts c os = .ok c' → ConfOk c' := by
  induction os with
  | nil => intro c c' h he; simp [applyOpts] at he; subst he; exact h
  | cons o os ih =>
    intro c c' h he
    simp only [applyOpts] at he
    cases ho : applyOpt c o with
    | error e => rw [ho] at he; cases he
    | ok c1 => rw [ho] at he; exact ih c1 c' (applyOpt_ok c c1 o h ho) he

/-- the writer's defaults and every track's configuration are valid -/
def WOk (w : Writer) : Prop := w.sampleRate < two32 ∧ MappingOk w.mapping ∧ ∀ c ∈ cfgs w, CfgOk c

theorem Writer.new_ok (sk : Bool) (opts : List Opt) (w : Writer) (h : Writer.new sk opts = .ok w) : WOk w := by
  unfold Writer.new at h
  split at h
  · cases h
  · rename_i m hm
    split at h
    · cases h
    · rename_i c hc
      split at h
      · cases h
      · cases h
        have := applyOpts_ok opts _ c ⟨by show 48000 < two32; decide, defaultChannelMapping_ok _ _ hm⟩ hc
        exact ⟨this.1, this.2, by simp [cfgs]⟩

theorem newTrack_ok (w : Writer) (h : WOk w) (ssrc : Nat) (opts : List Opt) (drawn : Nat) :
    WOk (w.newTrack ssrc opts drawn).1 := by
  unfold Writer.newTrack
  split
  · exact h
  · split
    · exact h
    · split
      · exact h
      · split
        · exact h
        · rename_i c hc
          split
          · exact h
          · rename_i hv
            simp only
            split
            · exact h
            · have hconf := applyOpts_ok opts _ c ⟨h.1, h.2.1⟩ hc
              refine ⟨h.1, h.2.1, ?_⟩
              intro x hx
              simp only [cfgs, List.map_append, List.map_cons, List.map_nil, List.mem_append, List.mem_singleton] at hx
              rcases hx with hx | rfl
              · exact h.2.2 x hx
              · have hv' : validOpusTags c.tags = true := by simpa using hv
                exact ⟨hconf.1, hconf.2, rfl, hv'⟩

theorem WOk.session (ops : List MOp) : ∀ (w : Writer), WOk w → WOk (w.session ops).1 := by
  induction ops with
  | nil => intro w h; exact h
  | cons op ops ih =>
    intro w h
    cases op with
    | close =>
      obtain ⟨c1, c2, c3⟩ := close_cfgs w
      exact ih w.close ⟨by rw [c2]; exact h.1, by rw [c3]; exact h.2.1, by rw [c1]; exact h.2.2⟩
    | newTrack ssrc opts => exact ih _ (newTrack_ok w h ssrc opts 0)
    | write i pkt ok =>
      obtain ⟨c1, c2, c3⟩ := writeRTP_cfgs w i pkt ok
      exact ih _ ⟨by rw [c2]; exact h.1, by rw [c3]; exact h.2.1, by rw [c1]; exact h.2.2⟩

theorem WOk.close {w : Writer} (h : WOk w) : WOk w.close := by
  obtain ⟨c1, c2, c3⟩ := close_cfgs w
  exact ⟨by rw [c2]; exact h.1, by rw [c3]; exact h.2.1, by rw [c1]; exact h.2.2⟩

theorem WOk.track {w : Writer} (h : WOk w) (i : Nat) (m : MTrack) (hm : w.tracks[i]? = some m) : CfgOk (cfgOf m.t) :=
  h.2.2 _ (by simp only [cfgs, List.mem_map]; exact ⟨m, List.mem_of_getElem? hm, rfl⟩)

end WebrtcVerif.Ogg
