import WebrtcVerif.Model.SampleBuilder
/-!
  Helper lemmas for C31 (SampleBuilder): `UInt16` ring arithmetic, the run-detection loop, the slot
  reader, inversion of `buildSample`, the release loops and their fuel.
-/
namespace WebrtcVerif.SampleBuilder

/-! ### `UInt16` arithmetic -/

/-- `i + k` on the sequence-number ring -/
def adv (i : UInt16) (k : Nat) : UInt16 := i + UInt16.ofNat k

theorem adv_zero (i : UInt16) : adv i 0 = i := by
  simp [adv]

theorem adv_succ (i : UInt16) (k : Nat) : adv (i + 1) k = adv i (k + 1) := by
  apply UInt16.toNat_inj.mp
  simp [adv, UInt16.toNat_add, UInt16.toNat_ofNat']
  omega

theorem adv_succ' (i : UInt16) (k : Nat) : adv i (k + 1) = adv i k + 1 := by
  apply UInt16.toNat_inj.mp
  simp [adv, UInt16.toNat_add, UInt16.toNat_ofNat']
  omega

theorem toNat_adv (i : UInt16) (k : Nat) : (adv i k).toNat = (i.toNat + k) % 65536 := by
  simp [adv, UInt16.toNat_add, UInt16.toNat_ofNat']

theorem adv_ne (i : UInt16) (j k : Nat) (hjk : j < k) (hk : k < 65536) : adv i j ≠ adv i k := by
  intro h
  have := congrArg UInt16.toNat h
  rw [toNat_adv, toNat_adv] at this
  have := i.toNat_lt
  omega

theorem adv_ne_self (i : UInt16) (k : Nat) (h0 : 0 < k) (hk : k < 65536) : i ≠ adv i k := by
  have := adv_ne i 0 k h0 hk
  rwa [adv_zero] at this

theorem sub_adv (i : UInt16) (k : Nat) (hk : k < 65536) : (adv i k - i).toNat = k := by
  have := i.toNat_lt
  simp [adv, UInt16.toNat_sub, UInt16.toNat_add, UInt16.toNat_ofNat']
  omega

/-- distance walking up from `h` to `t` -/
def dist (h t : UInt16) : Nat := (t - h).toNat

theorem dist_lt (h t : UInt16) : dist h t < 65536 := by
  have := (t - h).toNat_lt; unfold dist; omega

theorem dist_self (h : UInt16) : dist h h = 0 := by simp [dist]

theorem dist_eq_zero {h t : UInt16} (e : dist h t = 0) : h = t := by
  apply UInt16.toNat_inj.mp
  have h1 := h.toNat_lt; have h2 := t.toNat_lt
  simp [dist, UInt16.toNat_sub] at e
  omega

theorem dist_succ (h t : UInt16) (hne : h ≠ t) : dist (h + 1) t = dist h t - 1 ∧ 0 < dist h t := by
  have h1 := h.toNat_lt; have h2 := t.toNat_lt
  have : h.toNat ≠ t.toNat := fun e => hne (UInt16.toNat_inj.mp e)
  simp [dist, UInt16.toNat_sub, UInt16.toNat_add]
  omega

theorem adv_dist (h t : UInt16) : adv h (dist h t) = t := by
  apply UInt16.toNat_inj.mp
  have h1 := h.toNat_lt; have h2 := t.toNat_lt
  simp [adv, dist, UInt16.toNat_sub, UInt16.toNat_add, UInt16.toNat_ofNat']
  omega

theorem dist_adv (h : UInt16) (k : Nat) (hk : k < 65536) : dist h (adv h k) = k := sub_adv h k hk

/-! ### `sampleSequenceLocation.compare` -/

/-- inside `[head, tail)` means: the distance from head is below the length -/
theorem within_iff (l : Loc) (pos : UInt16) (e : l.head ≠ l.tail) :
    l.within pos = true ↔ dist l.head pos < dist l.head l.tail := by
  have h1 := l.head.toNat_lt; have h2 := l.tail.toNat_lt; have h3 := pos.toNat_lt
  have hn : l.head.toNat ≠ l.tail.toNat := fun e' => e (UInt16.toNat_inj.mp e')
  unfold Loc.within dist
  split
  · rename_i hlt
    have hlt' := UInt16.lt_iff_toNat_lt.mp hlt
    simp only [Bool.and_eq_true, decide_eq_true_eq, UInt16.le_iff_toNat_le, UInt16.lt_iff_toNat_lt, UInt16.toNat_sub]
    omega
  · rename_i hlt
    have hlt' : ¬ l.head.toNat < l.tail.toNat := fun x => hlt (UInt16.lt_iff_toNat_lt.mpr x)
    simp only [Bool.or_eq_true, decide_eq_true_eq, UInt16.le_iff_toNat_le, UInt16.lt_iff_toNat_lt, UInt16.toNat_sub]
    omega

theorem compare_inside_iff (l : Loc) (pos : UInt16) :
    l.compare pos = .inside ↔ dist l.head pos < dist l.head l.tail := by
  unfold Loc.compare
  by_cases e : l.head = l.tail
  · rw [if_pos e, e]; simp [dist_self]
  · rw [if_neg e, ← within_iff l pos e]
    by_cases w : l.within pos = true
    · simp [w]
    · rw [if_neg w]; constructor
      · intro h; split at h <;> cases h
      · intro h; exact absurd h w

theorem compare_void_iff (l : Loc) (pos : UInt16) : l.compare pos = .void ↔ l.head = l.tail := by
  unfold Loc.compare
  constructor
  · intro h; by_cases e : l.head = l.tail
    · exact e
    · rw [if_neg e] at h; split at h
      · cases h
      · split at h <;> cases h
  · intro e; rw [if_pos e]

theorem compare_tail_after (l : Loc) (h : l.head ≠ l.tail) : l.compare l.tail = .after := by
  have hw : ¬ l.within l.tail = true := by
    rw [within_iff l _ h]; omega
  have : ¬ (l.head - l.tail ≤ l.tail - l.tail) := by
    have h1 := l.head.toNat_lt; have h2 := l.tail.toNat_lt
    have hn : l.head.toNat ≠ l.tail.toNat := fun e => h (UInt16.toNat_inj.mp e)
    simp [UInt16.le_iff_toNat_le, UInt16.toNat_sub]
    omega
  unfold Loc.compare
  rw [if_neg h, if_neg hw, if_neg this]

theorem compare_head_inside (l : Loc) (h : l.head ≠ l.tail) : l.compare l.head = .inside := by
  rw [compare_inside_iff, dist_self]
  have := dist_succ l.head l.tail h
  omega

/-! ### the run-detection loop -/

/-- what a successful run detection establishes: `t = i + k`, the `k` slots before `t` are filled and carry
    the head timestamp -/
theorem scan_spec (d : Depack) (s : State) (hts : Option UInt32) :
    ∀ (n : Nat) (i t : UInt16), scan d s hts n i = some t →
      ∃ k, k ≤ n ∧ t = adv i k ∧
        ∀ j, j < k → ∃ p, s.buffer.get (adv i j) = some p ∧ ∀ h, hts = some h → p.ts = h := by
  intro n
  induction n with
  | zero => intro i t h; simp [scan] at h
  | succ n ih =>
    intro i t h
    unfold scan at h
    split at h
    · cases h
    · rename_i p hp
      split at h
      · cases h
      · split at h
        · cases h
          exact ⟨0, Nat.zero_le _, (adv_zero i).symm, fun j hj => absurd hj (Nat.not_lt_zero j)⟩
        · rename_i hany
          have hts' : ∀ h', hts = some h' → p.ts = h' := by
            intro h' e; subst e
            simp at hany
            exact hany.symm
          split at h
          · cases h
            refine ⟨1, by omega, ?_, ?_⟩
            · rw [adv_succ', adv_zero]
            · intro j hj
              have : j = 0 := by omega
              subst this
              exact ⟨p, by rw [adv_zero]; exact hp, hts'⟩
          · obtain ⟨k, hk, ht, hall⟩ := ih (i + 1) t h
            refine ⟨k + 1, by omega, by rw [ht, adv_succ], ?_⟩
            intro j hj
            cases j with
            | zero => exact ⟨p, by rw [adv_zero]; exact hp, hts'⟩
            | succ j =>
              rw [← adv_succ]
              exact hall j (by omega)

/-! ### reading the slots of a range -/

/-- the `k` slots starting at `i` -/
def window (b : Buf Packet) : UInt16 → Nat → List (Option Packet)
  | _, 0 => []
  | i, k + 1 => b.get i :: window b (i + 1) k

theorem slots_eq_window (b : Buf Packet) : ∀ (k n : Nat) (i : UInt16), k < 65536 → k ≤ n →
    slots b n i (adv i k) = window b i k := by
  intro k
  induction k with
  | zero =>
    intro n i _ _
    rw [adv_zero]
    cases n <;> simp [slots, window]
  | succ k ih =>
    intro n i hk hn
    cases n with
    | zero => omega
    | succ n =>
      unfold slots
      rw [if_neg (adv_ne_self i (k + 1) (by omega) hk), ← adv_succ, ih n (i + 1) (by omega) (by omega)]
      rfl

theorem allSome_window (b : Buf Packet) : ∀ (k : Nat) (i : UInt16) (ps : List Packet),
    allSome (window b i k) = some ps →
      ps.length = k ∧ ∀ j (h : j < ps.length), b.get (adv i j) = some ps[j] := by
  intro k
  induction k with
  | zero =>
    intro i ps h
    simp [window, allSome] at h
    subst h
    exact ⟨rfl, fun j h => absurd h (Nat.not_lt_zero j)⟩
  | succ k ih =>
    intro i ps h
    unfold window at h
    cases hb : b.get i with
    | none => rw [hb] at h; simp [allSome] at h
    | some p =>
      rw [hb] at h
      simp only [allSome, Option.map_eq_some_iff] at h
      obtain ⟨rest, hrest, rfl⟩ := h
      obtain ⟨hl, hall⟩ := ih (i + 1) rest hrest
      refine ⟨by simp [hl], ?_⟩
      intro j hj
      cases j with
      | zero => simp [adv_zero, hb]
      | succ j =>
        rw [← adv_succ]
        simpa using hall j (by simpa using hj)

theorem allSome_window_of_filled (b : Buf Packet) : ∀ (k : Nat) (i : UInt16),
    (∀ j, j < k → ∃ p, b.get (adv i j) = some p) → ∃ ps, allSome (window b i k) = some ps := by
  intro k
  induction k with
  | zero => intro i _; exact ⟨[], rfl⟩
  | succ k ih =>
    intro i h
    obtain ⟨p, hp⟩ := h 0 (by omega)
    rw [adv_zero] at hp
    obtain ⟨ps, hps⟩ := ih (i + 1) (fun j hj => by rw [adv_succ]; exact h (j + 1) (by omega))
    exact ⟨p :: ps, by simp [window, hp, allSome, hps]⟩

/-! ### inversion of `buildSample` -/

@[simp] theorem reseed_buffer (s : State) : (reseed s).buffer = s.buffer := by
  unfold reseed; split <;> rfl
@[simp] theorem extend_buffer (s : State) : (extend s).buffer = s.buffer := by
  unfold extend; split <;> rfl
@[simp] theorem extend_head (s : State) : (extend s).active.head = s.active.head := by
  unfold extend; split <;> rfl

/-- the state `emit` runs its two purges on when a sample is produced -/
def afterEmit (s : State) (t : UInt16) (sm : Sample) : State :=
  { s with active := { s.active with head := t }, dropped := 0, padding := 0, lastSampleTs := some sm.ts,
           preparedSamples := s.preparedSamples.set s.prepared.tail (some sm),
           prepared := { s.prepared with tail := s.prepared.tail + 1 }, built := sm :: s.built }

theorem emit_some {d : Depack} {s s' : State} {t : UInt16} {sm : Sample} (h : emit d s t = (s', some sm)) :
    ∃ hp tl parts,
      allSome (slots s.buffer ringFuel s.active.head t) = some (hp :: tl) ∧
      d.isHead hp.payload = true ∧
      unmarshalAll d (hp :: tl) = some parts ∧
      sm.pkts = hp :: tl ∧ sm.data = parts.flatten ∧ sm.ts = (fetchTs s s.active).getD 0 ∧
      sm.dropped = s.dropped ∧
      s' = finishPurge (afterEmit s t sm) { head := s.active.head, tail := t } := by
  unfold emit at h
  simp only at h
  split at h
  · cases h
  · cases h
  · rename_i hp tl hall
    split at h
    · cases h
    · rename_i hhead
      split at h
      · cases h
      · rename_i parts hparts
        simp only [Prod.mk.injEq, Option.some.injEq] at h
        obtain ⟨hs, hsm⟩ := h
        subst hsm
        refine ⟨hp, tl, parts, hall, by simpa using hhead, hparts, rfl, rfl, rfl, rfl, ?_⟩
        rw [← hs]
        rfl

theorem buildSample_some {d : Depack} {s s' : State} {purging : Bool} {sm : Sample}
    (h : buildSample d s purging = (s', some sm)) :
    ∃ t, (reseed s).active.head ≠ (reseed s).active.tail ∧
      consumeTail d (extend (reseed s)) = some t ∧ (reseed s).active.head ≠ t ∧
      (purging = true ∨ ∃ q, s.buffer.get t = some q) ∧
      emit d (extend (reseed s)) t = (s', some sm) := by
  unfold buildSample at h
  simp only at h
  split at h
  · cases h
  · rename_i hne
    split at h
    · cases h
    · rename_i t ht
      split at h
      · cases h
      · rename_i hne2
        split at h
        · cases h
        · rename_i hwait
          refine ⟨t, hne, ht, by simpa using hne2, ?_, h⟩
          cases purging with
          | true => exact Or.inl rfl
          | false =>
            right
            simp at hwait
            cases hq : s.buffer.get t with
            | none => simp [hq] at hwait
            | some q => exact ⟨q, rfl⟩

/-! ### releasing packets -/

/-- `k` times `releasePacket(filled.head); filled.head++` -/
def releaseN : Nat → State → State
  | 0, s => s
  | k + 1, s => releaseN k (releaseHead s)

theorem dist_succ_right (a b : UInt16) (h : dist a b + 1 < 65536) : dist a (b + 1) = dist a b + 1 := by
  have h1 := a.toNat_lt; have h2 := b.toNat_lt
  simp [dist, UInt16.toNat_sub, UInt16.toNat_add] at h ⊢
  omega

/-- everything `releaseN` leaves alone -/
structure SameExceptBuffer (s s' : State) : Prop where
  maxLate : s'.maxLate = s.maxLate
  maxLateTs : s'.maxLateTs = s.maxLateTs
  preparedSamples : s'.preparedSamples = s.preparedSamples
  active : s'.active = s.active
  prepared : s'.prepared = s.prepared
  lastSampleTs : s'.lastSampleTs = s.lastSampleTs
  dropped : s'.dropped = s.dropped
  padding : s'.padding = s.padding
  nilDeref : s'.nilDeref = s.nilDeref
  outOfFuel : s'.outOfFuel = s.outOfFuel
  ringFull : s'.ringFull = s.ringFull
  wide : s'.wide = s.wide
  built : s'.built = s.built
  tail : s'.filled.tail = s.filled.tail

theorem SameExceptBuffer.refl (s : State) : SameExceptBuffer s s :=
  ⟨rfl, rfl, rfl, rfl, rfl, rfl, rfl, rfl, rfl, rfl, rfl, rfl, rfl, rfl⟩

theorem SameExceptBuffer.trans {a b c : State} (h1 : SameExceptBuffer a b) (h2 : SameExceptBuffer b c) :
    SameExceptBuffer a c :=
  ⟨h2.1.trans h1.1, h2.2.trans h1.2, h2.3.trans h1.3, h2.4.trans h1.4, h2.5.trans h1.5, h2.6.trans h1.6,
   h2.7.trans h1.7, h2.8.trans h1.8, h2.9.trans h1.9, h2.10.trans h1.10, h2.11.trans h1.11, h2.12.trans h1.12, h2.13.trans h1.13, h2.14.trans h1.14⟩

theorem releaseHead_same (s : State) : SameExceptBuffer s (releaseHead s) :=
  ⟨rfl, rfl, rfl, rfl, rfl, rfl, rfl, rfl, rfl, rfl, rfl, rfl, rfl, rfl⟩

theorem releaseN_same : ∀ (k : Nat) (s : State), SameExceptBuffer s (releaseN k s)
  | 0, s => SameExceptBuffer.refl s
  | k + 1, s => (releaseHead_same s).trans (releaseN_same k (releaseHead s))

@[simp] theorem releaseHead_head (s : State) : (releaseHead s).filled.head = s.filled.head + 1 := rfl
@[simp] theorem releaseHead_tail (s : State) : (releaseHead s).filled.tail = s.filled.tail := rfl

theorem releaseHead_get (s : State) (i : UInt16) :
    (releaseHead s).buffer.get i = if i = s.filled.head then none else s.buffer.get i := by
  simp [releaseHead, release, Buf.get_set]

theorem releaseN_head : ∀ (k : Nat) (s : State), (releaseN k s).filled.head = adv s.filled.head k
  | 0, s => (adv_zero _).symm
  | k + 1, s => by rw [releaseN, releaseN_head k, releaseHead_head, adv_succ]

/-- released slots are nil afterwards, the others are untouched (`k` below one lap of the ring) -/
theorem releaseN_get : ∀ (k : Nat) (s : State) (i : UInt16),
    (releaseN k s).buffer.get i = if dist s.filled.head i < k then none else s.buffer.get i
  | 0, s, i => by simp [releaseN]
  | k + 1, s, i => by
    rw [releaseN, releaseN_get k, releaseHead_head, releaseHead_get]
    by_cases e : i = s.filled.head
    · subst e
      simp [dist_self]
    · have := dist_succ s.filled.head i (fun x => e x.symm)
      by_cases c : dist (s.filled.head + 1) i < k
      · have : dist s.filled.head i < k + 1 := by omega
        simp [c, this]
      · have : ¬ dist s.filled.head i < k + 1 := by omega
        simp [c, this, e]

/-- ids handed to the release handler by `k` releases starting at slot `i`, newest first -/
def relIds (b : Buf Packet) : UInt16 → Nat → List Nat
  | _, 0 => []
  | i, k + 1 => relIds b (i + 1) k ++ (match b.get i with | some p => [p.id] | none => [])

theorem releaseN_released : ∀ (k : Nat) (s : State), k ≤ 65536 →
    (releaseN k s).released = relIds s.buffer s.filled.head k ++ s.released
  | 0, s, _ => by simp [releaseN, relIds]
  | k + 1, s, hk => by
    rw [releaseN, releaseN_released k _ (by omega), releaseHead_head]
    have hbuf : relIds (releaseHead s).buffer (s.filled.head + 1) k = relIds s.buffer (s.filled.head + 1) k := by
      -- the slot just cleared is not read again within one lap
      have : ∀ (m : Nat) (j : UInt16), dist (s.filled.head + 1) j + m ≤ 65535 → 
          relIds (releaseHead s).buffer j m = relIds s.buffer j m := by
        intro m
        induction m with
        | zero => intro j _; rfl
        | succ m ih =>
          intro j hj
          have hne : j ≠ s.filled.head := by
            intro e; subst e
            have h1 := s.filled.head.toNat_lt
            simp [dist, UInt16.toNat_sub, UInt16.toNat_add] at hj
            omega
          have hd : dist (s.filled.head + 1) (j + 1) = dist (s.filled.head + 1) j + 1 :=
            dist_succ_right _ _ (by omega)
          simp only [relIds]
          rw [ih (j + 1) (by omega), releaseHead_get, if_neg hne]
      exact this k (s.filled.head + 1) (by rw [dist_self]; omega)
    rw [hbuf]
    simp only [relIds, releaseHead, release]
    cases s.buffer.get s.filled.head <;> simp

/-! ### `purgeConsumedLocation` -/

/-- with fuel above the length of `filled`, the loop is some number of head releases (never out of fuel) -/
theorem purgeLoc_eq_releaseN : ∀ (n : Nat) (s : State) (c : Loc) (f : Bool),
    dist s.filled.head s.filled.tail < n →
      ∃ k, k ≤ dist s.filled.head s.filled.tail ∧ purgeLoc n s c f = releaseN k s := by
  intro n
  induction n with
  | zero => intro s c f h; omega
  | succ n ih =>
    intro s c f hn
    unfold purgeLoc
    by_cases e : s.filled.head = s.filled.tail
    · rw [if_pos e]; exact ⟨0, Nat.zero_le _, rfl⟩
    · rw [if_neg e]
      have hd := dist_succ s.filled.head s.filled.tail e
      have step : ∃ k, k ≤ dist s.filled.head s.filled.tail ∧ purgeLoc n (releaseHead s) c f = releaseN k s := by
        obtain ⟨k, hk, he⟩ := ih (releaseHead s) c f (by simp only [releaseHead_head, releaseHead_tail]; omega)
        simp only [releaseHead_head, releaseHead_tail] at hk
        exact ⟨k + 1, by omega, by rw [he]; rfl⟩
      split
      · split
        · exact step
        · exact ⟨0, Nat.zero_le _, rfl⟩
      · exact step
      · exact ⟨0, Nat.zero_le _, rfl⟩

/-- forced purge of a range that starts inside it: exactly the rest of the range is released -/
theorem purgeLoc_force : ∀ (m n : Nat) (s : State) (c : Loc),
    m ≤ dist s.filled.head s.filled.tail → c.head ≠ c.tail →
    dist c.head s.filled.head + m = dist c.head c.tail → m < n →
      purgeLoc n s c true = releaseN m s := by
  intro m
  induction m with
  | zero =>
    intro n s c _ hc hm hn
    cases n with
    | zero => omega
    | succ n =>
      unfold purgeLoc
      by_cases e : s.filled.head = s.filled.tail
      · rw [if_pos e]; rfl
      · rw [if_neg e]
        have : s.filled.head = c.tail := by
          have h1 := adv_dist c.head s.filled.head
          have h2 := adv_dist c.head c.tail
          rw [Nat.add_zero] at hm
          rw [hm] at h1
          exact h1.symm.trans h2
        rw [this, compare_tail_after c hc]
        rfl
  | succ m ih =>
    intro n s c hm hc hmc hn
    cases n with
    | zero => omega
    | succ n =>
      have e : s.filled.head ≠ s.filled.tail := by
        intro e; rw [e, dist_self] at hm; omega
      have hd := dist_succ s.filled.head s.filled.tail e
      have hin : c.compare s.filled.head = .inside := by rw [compare_inside_iff]; omega
      unfold purgeLoc
      rw [if_neg e, hin]
      simp only [if_true]
      have hlt := dist_lt c.head c.tail
      rw [ih n (releaseHead s) c (by simp only [releaseHead_head, releaseHead_tail]; omega) hc
        (by simp only [releaseHead_head]; rw [dist_succ_right _ _ (by omega)]; omega) (by omega)]
      rfl

/-- a purge whose location does not claim `filled.head` does nothing -/
theorem purgeLoc_noop (n : Nat) (s : State) (c : Loc) (h : c.compare s.filled.head ≠ .before)
    (h' : c.compare s.filled.head ≠ .inside) : purgeLoc (n + 1) s c false = s := by
  unfold purgeLoc
  split
  · rfl
  · split
    · rename_i hc; exact absurd hc h'
    · rename_i hc; exact absurd hc h
    · rfl

theorem purgeLoc_noop_inside (n : Nat) (s : State) (c : Loc) (h : c.compare s.filled.head = .inside) :
    purgeLoc (n + 1) s c false = s := by
  unfold purgeLoc
  split
  · rfl
  · rw [h]; rfl

/-! ### what a built sample consists of -/

theorem adv_full (i : UInt16) : adv i 65536 = i := by
  apply UInt16.toNat_inj.mp
  have := i.toNat_lt
  rw [toNat_adv]; omega

/-- where `buildSample` starts reading: `active.head` after the re-seed -/
def readHead (s : State) : UInt16 := (reseed s).active.head

/-- the active range is still non-empty once its tail has been moved up to `filled.tail` -/
def ActiveOk (s : State) : Prop := (extend (reseed s)).active.head ≠ (extend (reseed s)).active.tail

instance (s : State) : Decidable (ActiveOk s) := by unfold ActiveOk; exact inferInstance

/-- The sample's packets are exactly the slots `readHead, readHead+1, …` (so: a contiguous run), there is at
    least one and fewer than a ring of them, the first is a partition head, the data is the concatenation of
    the depacketized payloads, and `active.head` is where the run ended.  With `ActiveOk` they also share
    the sample's timestamp. -/
theorem buildSample_run {d : Depack} {s s' : State} {purging : Bool} {sm : Sample}
    (h : buildSample d s purging = (s', some sm)) :
    ∃ k, 0 < k ∧ k < 65536 ∧ sm.pkts.length = k ∧
      (∀ j (hj : j < sm.pkts.length), s.buffer.get (adv (readHead s) j) = some sm.pkts[j]) ∧
      (∃ hp tl, sm.pkts = hp :: tl ∧ d.isHead hp.payload = true) ∧
      (∃ parts, unmarshalAll d sm.pkts = some parts ∧ sm.data = parts.flatten) ∧
      (ActiveOk s → ∀ p ∈ sm.pkts, p.ts = sm.ts) ∧
      emit d (extend (reseed s)) (adv (readHead s) k) = (s', some sm) ∧
      (purging = true ∨ ∃ q, s.buffer.get (adv (readHead s) k) = some q) := by
  obtain ⟨t, _, hct, hnt, hwait, hemit⟩ := buildSample_some h
  unfold consumeTail at hct
  obtain ⟨k, hk, ht, hall⟩ := scan_spec d _ _ _ _ _ hct
  rw [extend_head] at ht hall
  simp only [extend_buffer, reseed_buffer] at hall
  have hk0 : 0 < k := by
    cases k with
    | zero => rw [adv_zero] at ht; exact absurd ht.symm hnt
    | succ k => omega
  have hk1 : k < 65536 := by
    have : k ≠ 65536 := by
      intro e; rw [e, adv_full] at ht; exact absurd ht.symm hnt
    unfold ringFuel at hk; omega
  obtain ⟨hp, tl, parts, hslots, hhead, hparts, hpk, hdata, hts, _, _⟩ := emit_some hemit
  rw [extend_head, ht, slots_eq_window _ k ringFuel _ hk1 hk] at hslots
  simp only [extend_buffer, reseed_buffer] at hslots
  obtain ⟨hlen, hget⟩ := allSome_window _ _ _ _ hslots
  refine ⟨k, hk0, hk1, by rw [hpk]; exact hlen, ?_, ⟨hp, tl, hpk, hhead⟩, ⟨parts, by rw [hpk]; exact hparts, hdata⟩,
    ?_, by unfold readHead; rw [← ht]; exact hemit, by unfold readHead; rw [← ht]; exact hwait⟩
  · intro j hj
    simp only [hpk] at hj ⊢
    exact hget j hj
  · intro hA p hp'
    rw [hpk] at hp'
    obtain ⟨j, hj, rfl⟩ := List.getElem_of_mem hp'
    -- the head timestamp is that of slot `readHead`
    obtain ⟨p0, hp0, _⟩ := hall 0 hk0
    rw [adv_zero] at hp0
    have hfetch : fetchTs (extend (reseed s)) (extend (reseed s)).active = some p0.ts := by
      unfold fetchTs
      rw [if_neg hA, extend_head, extend_buffer, reseed_buffer, hp0]; rfl
    rw [hts, hfetch]
    obtain ⟨q, hq, hqts⟩ := hall j (by omega)
    have : q = (hp :: tl)[j] := by
      have := hget j hj
      unfold readHead at this
      rw [hq] at this
      exact Option.some.inj this
    rw [← this]
    exact hqts _ hfetch

/-! ### consumed packets are released -/

@[simp] theorem reseed_filled (s : State) : (reseed s).filled = s.filled := by
  unfold reseed; split <;> rfl
@[simp] theorem extend_filled (s : State) : (extend s).filled = s.filled := by
  unfold extend; split <;> rfl
@[simp] theorem reseed_released (s : State) : (reseed s).released = s.released := by
  unfold reseed; split <;> rfl
@[simp] theorem extend_released (s : State) : (extend s).released = s.released := by
  unfold extend; split <;> rfl

theorem relIds_window (b : Buf Packet) : ∀ (k : Nat) (i : UInt16) (ps : List Packet),
    allSome (window b i k) = some ps → relIds b i k = (ps.map (·.id)).reverse := by
  intro k
  induction k with
  | zero => intro i ps h; simp [window, allSome] at h; subst h; rfl
  | succ k ih =>
    intro i ps h
    unfold window at h
    cases hb : b.get i with
    | none => rw [hb] at h; simp [allSome] at h
    | some p =>
      rw [hb] at h
      simp only [allSome, Option.map_eq_some_iff] at h
      obtain ⟨rest, hrest, rfl⟩ := h
      simp [relIds, hb, ih (i + 1) rest hrest]

/-- `buildSample` returned a sample while `filled.head` stood at the read position and the run lies inside
    `filled`: the resulting state is the sample bookkeeping followed by exactly `k` head releases. -/
theorem buildSample_released {d : Depack} {s s' : State} {purging : Bool} {sm : Sample}
    (h : buildSample d s purging = (s', some sm))
    (hal : s.filled.head = readHead s) (hin : sm.pkts.length ≤ dist s.filled.head s.filled.tail) :
    s' = releaseN sm.pkts.length (afterEmit (extend (reseed s)) (adv (readHead s) sm.pkts.length) sm) ∧
    s'.released = (sm.pkts.map (·.id)).reverse ++ s.released := by
  obtain ⟨k, hk0, hk1, hlen, hget, _, _, _, hemit, _⟩ := buildSample_run h
  obtain ⟨hp, tl, parts, hslots, _, _, hpk, _, _, _, hs'⟩ := emit_some hemit
  rw [hlen] at hin ⊢
  have hne : readHead s ≠ adv (readHead s) k := adv_ne_self _ k hk0 hk1
  have hforce := purgeLoc_force k (ringFuel + 1) (afterEmit (extend (reseed s)) (adv (readHead s) k) sm)
    { head := (extend (reseed s)).active.head, tail := adv (readHead s) k }
    (by simpa [afterEmit] using hin)
    (by simpa [readHead] using hne)
    (by simp only [afterEmit, extend_filled, reseed_filled, extend_head, hal]
        unfold readHead
        rw [dist_self, dist_adv _ k hk1]; omega)
    (by unfold ringFuel; omega)
  unfold finishPurge at hs'
  rw [hforce] at hs'
  have hB : purgeConsumed (releaseN k (afterEmit (extend (reseed s)) (adv (readHead s) k) sm))
      = releaseN k (afterEmit (extend (reseed s)) (adv (readHead s) k) sm) := by
    unfold purgeConsumed
    have hact := (releaseN_same k (afterEmit (extend (reseed s)) (adv (readHead s) k) sm)).active
    have hhead := releaseN_head k (afterEmit (extend (reseed s)) (adv (readHead s) k) sm)
    rw [hact]
    simp only [afterEmit, extend_filled, reseed_filled, hal] at hhead ⊢
    by_cases e : adv (readHead s) k = (extend (reseed s)).active.tail
    · apply purgeLoc_noop
      · rw [hhead]; intro c
        have := (compare_void_iff { head := adv (readHead s) k, tail := (extend (reseed s)).active.tail }
          (adv (readHead s) k)).mpr e
        rw [this] at c; cases c
      · rw [hhead]; intro c
        have := (compare_void_iff { head := adv (readHead s) k, tail := (extend (reseed s)).active.tail }
          (adv (readHead s) k)).mpr e
        rw [this] at c; cases c
    · apply purgeLoc_noop_inside
      rw [hhead]
      exact compare_head_inside { head := adv (readHead s) k, tail := (extend (reseed s)).active.tail } e
  rw [hB] at hs'
  refine ⟨hs', ?_⟩
  rw [hs', releaseN_released k _ (by omega)]
  simp only [afterEmit, extend_filled, reseed_filled, extend_buffer, reseed_buffer, extend_released,
    reseed_released, hal]
  have hw : allSome (window s.buffer (readHead s) k) = some sm.pkts := by
    have hslots' : allSome (slots s.buffer ringFuel (readHead s) (adv (readHead s) k)) = some (hp :: tl) := by
      simpa [readHead] using hslots
    rw [slots_eq_window _ k ringFuel _ hk1 (by unfold ringFuel; omega)] at hslots'
    rw [hpk]; exact hslots'
  rw [relIds_window _ _ _ _ hw]

/-! ### what every step preserves; fuel -/

theorem adv_adv (i : UInt16) (a b : Nat) : adv (adv i a) b = adv i (a + b) := by
  apply UInt16.toNat_inj.mp
  simp only [toNat_adv]
  omega

theorem dist_adv_left (h t : UInt16) (k : Nat) (hk : k ≤ dist h t) : dist (adv h k) t = dist h t - k := by
  have h1 := h.toNat_lt; have h2 := t.toNat_lt
  have := dist_lt h t
  unfold dist at *
  simp only [UInt16.toNat_sub, toNat_adv] at *
  omega

/-- `r` is `s` after releasing `k` packets at `filled.head` (and bookkeeping that is not the buffer):
    configuration and the two error flags are unchanged, `filled.tail` stays, `filled.head` moved up by
    `k ≤ |filled|`, and exactly the `k` slots it moved over were cleared. -/
structure Progress (s r : State) (k : Nat) : Prop where
  maxLate : r.maxLate = s.maxLate
  maxLateTs : r.maxLateTs = s.maxLateTs
  nilDeref : r.nilDeref = s.nilDeref
  outOfFuel : r.outOfFuel = s.outOfFuel
  ringFull : r.ringFull = s.ringFull
  wide : r.wide = s.wide
  tail : r.filled.tail = s.filled.tail
  le : k ≤ dist s.filled.head s.filled.tail
  head : r.filled.head = adv s.filled.head k
  buf : ∀ i, r.buffer.get i = if dist s.filled.head i < k then none else s.buffer.get i

theorem Progress.of_eq {s r : State} (h1 : r.maxLate = s.maxLate) (h2 : r.maxLateTs = s.maxLateTs)
    (h3 : r.nilDeref = s.nilDeref) (h4 : r.outOfFuel = s.outOfFuel) (h5 : r.filled = s.filled)
    (h6 : r.buffer = s.buffer) (h7 : r.ringFull = s.ringFull) (h8 : r.wide = s.wide) : Progress s r 0 :=
  ⟨h1, h2, h3, h4, h7, h8, by rw [h5], Nat.zero_le _, by rw [h5, adv_zero], fun i => by simp [h6]⟩

theorem Progress.refl (s : State) : Progress s s 0 := Progress.of_eq rfl rfl rfl rfl rfl rfl rfl rfl

theorem Progress.dist_eq {s r : State} {k : Nat} (h : Progress s r k) :
    dist r.filled.head r.filled.tail = dist s.filled.head s.filled.tail - k := by
  rw [h.head, h.tail, dist_adv_left _ _ _ h.le]

theorem Progress.trans {a b c : State} {k1 k2 : Nat} (h1 : Progress a b k1) (h2 : Progress b c k2) :
    Progress a c (k1 + k2) := by
  have hd := h1.dist_eq
  have := h2.le
  refine ⟨h2.maxLate.trans h1.maxLate, h2.maxLateTs.trans h1.maxLateTs, h2.nilDeref.trans h1.nilDeref,
    h2.outOfFuel.trans h1.outOfFuel, h2.ringFull.trans h1.ringFull, h2.wide.trans h1.wide,
    h2.tail.trans h1.tail, by have := h1.le; omega,
    by rw [h2.head, h1.head, adv_adv], ?_⟩
  intro i
  rw [h2.buf i, h1.buf i, h1.head]
  have hlt := dist_lt a.filled.head a.filled.tail
  have hle := h1.le
  have hdi : dist (adv a.filled.head k1) i = (dist a.filled.head i + 65536 - k1) % 65536 := by
    have h1' := a.filled.head.toNat_lt; have h2' := i.toNat_lt
    unfold dist
    simp only [UInt16.toNat_sub, toNat_adv]
    omega
  have hdlt := dist_lt a.filled.head i
  by_cases c1 : dist a.filled.head i < k1
  · have : dist a.filled.head i < k1 + k2 := by omega
    simp [c1, this]
  · by_cases c2 : dist (adv a.filled.head k1) i < k2
    · have : dist a.filled.head i < k1 + k2 := by omega
      simp [c2, this]
    · have : ¬ dist a.filled.head i < k1 + k2 := by omega
      simp [c1, c2, this]

/-- bookkeeping (anything but buffer, filled, configuration and flags) in front of a progress step -/
theorem Progress.pre {a b c : State} {k : Nat} (h2 : Progress b c k) (h1 : b.maxLate = a.maxLate)
    (h2' : b.maxLateTs = a.maxLateTs) (h3 : b.nilDeref = a.nilDeref) (h4 : b.outOfFuel = a.outOfFuel)
    (h5 : b.filled = a.filled) (h6 : b.buffer = a.buffer) (h7 : b.ringFull = a.ringFull)
    (h8 : b.wide = a.wide) : Progress a c k := by
  have := (Progress.of_eq h1 h2' h3 h4 h5 h6 h7 h8).trans h2
  rwa [Nat.zero_add] at this

theorem releaseN_progress (k : Nat) (s : State) (hk : k ≤ dist s.filled.head s.filled.tail) :
    Progress s (releaseN k s) k := by
  have hs := releaseN_same k s
  refine ⟨hs.maxLate, hs.maxLateTs, hs.nilDeref, hs.outOfFuel, hs.ringFull, hs.wide, hs.tail, hk,
    releaseN_head k s, ?_⟩
  intro i
  rw [releaseN_get]

theorem purgeLoc_progress (n : Nat) (s : State) (c : Loc) (f : Bool)
    (hn : dist s.filled.head s.filled.tail < n) : ∃ k, Progress s (purgeLoc n s c f) k := by
  obtain ⟨k, hk, he⟩ := purgeLoc_eq_releaseN n s c f hn
  exact ⟨k, by rw [he]; exact releaseN_progress k s hk⟩

theorem purgeConsumed_progress (s : State) : ∃ k, Progress s (purgeConsumed s) k :=
  purgeLoc_progress _ s _ _ (by have := dist_lt s.filled.head s.filled.tail; unfold ringFuel; omega)

/-- a forced purge whose range starts at a non-empty `filled.head` releases at least one packet -/
theorem purgeLoc_progress_pos (n : Nat) (s : State) (c : Loc)
    (hn : dist s.filled.head s.filled.tail < n) (hc : c.head ≠ c.tail) (hh : c.head = s.filled.head)
    (hf : s.filled.head ≠ s.filled.tail) : ∃ k, 0 < k ∧ Progress s (purgeLoc n s c true) k := by
  cases n with
  | zero => omega
  | succ n =>
    have hd := dist_succ s.filled.head s.filled.tail hf
    have hin : c.compare s.filled.head = .inside := by rw [← hh]; exact compare_head_inside c hc
    unfold purgeLoc
    rw [if_neg hf, hin]
    simp only [if_true]
    obtain ⟨k, hk⟩ := purgeLoc_progress n (releaseHead s) c true
      (by simp only [releaseHead_head, releaseHead_tail]; omega)
    have h1 : Progress s (releaseHead s) 1 := releaseN_progress 1 s (by omega)
    exact ⟨1 + k, by omega, h1.trans hk⟩

theorem reseed_progress (s : State) : Progress s (reseed s) 0 := by
  unfold reseed; split
  · exact Progress.of_eq rfl rfl rfl rfl rfl rfl rfl rfl
  · exact Progress.refl s

theorem extend_progress (s : State) : Progress s (extend s) 0 := by
  unfold extend; split
  · exact Progress.of_eq rfl rfl rfl rfl rfl rfl rfl rfl
  · exact Progress.refl s

theorem ringFuel_gt (s : State) : dist s.filled.head s.filled.tail < ringFuel + 1 := by
  have := dist_lt s.filled.head s.filled.tail; unfold ringFuel; omega

theorem finishPurge_progress (s : State) (c : Loc) : ∃ k, Progress s (finishPurge s c) k := by
  obtain ⟨k1, h1⟩ := purgeLoc_progress (ringFuel + 1) s c true (ringFuel_gt s)
  obtain ⟨k2, h2⟩ := purgeConsumed_progress (purgeLoc (ringFuel + 1) s c true)
  exact ⟨k1 + k2, h1.trans h2⟩

theorem finishPurge_progress_pos (s : State) (c : Loc) (hc : c.head ≠ c.tail) (hh : c.head = s.filled.head)
    (hf : s.filled.head ≠ s.filled.tail) : ∃ k, 0 < k ∧ Progress s (finishPurge s c) k := by
  obtain ⟨k1, hpos, h1⟩ := purgeLoc_progress_pos (ringFuel + 1) s c (ringFuel_gt s) hc hh hf
  obtain ⟨k2, h2⟩ := purgeConsumed_progress (purgeLoc (ringFuel + 1) s c true)
  exact ⟨k1 + k2, by omega, h1.trans h2⟩

/-- `emit` on a range whose slots are all filled (which is what the run detection hands it) -/
theorem emit_progress (d : Depack) (s : State) (t : UInt16)
    (hfill : ∃ hp tl, allSome (slots s.buffer ringFuel s.active.head t) = some (hp :: tl)) :
    ∃ k, Progress s (emit d s t).1 k ∧
      ((emit d s t).2.isSome → s.active.head = s.filled.head → s.active.head ≠ t →
        s.filled.head ≠ s.filled.tail → 0 < k) := by
  obtain ⟨hp, tl, hps⟩ := hfill
  unfold emit
  simp only
  rw [hps]
  simp only
  split
  · -- the run does not start at a partition head: dropped
    obtain ⟨k, hk⟩ := finishPurge_progress
      { s with active := { s.active with head := t },
               dropped := s.dropped + Loc.count { head := s.active.head, tail := t },
               padding := if (hp :: tl).any (fun p => s.lastSampleTs == some p.ts && p.payload.isEmpty) = true
                 then s.padding + Loc.count { head := s.active.head, tail := t } else s.padding }
      { head := s.active.head, tail := t }
    exact ⟨k, hk.pre rfl rfl rfl rfl rfl rfl rfl rfl, by intro h; simp at h⟩
  · split
    · exact ⟨0, Progress.of_eq rfl rfl rfl rfl rfl rfl rfl rfl, by intro h; simp at h⟩
    · rename_i parts _
      by_cases hpos : s.active.head = s.filled.head ∧ s.active.head ≠ t ∧ s.filled.head ≠ s.filled.tail
      · obtain ⟨k, hk0, hk⟩ := finishPurge_progress_pos
          (afterEmit s t { data := parts.flatten, ts := (fetchTs s s.active).getD 0, dropped := s.dropped,
                           ticks := afterScan s ringFuel t ((fetchTs s s.active).getD 0) - (fetchTs s s.active).getD 0,
                           pkts := hp :: tl })
          { head := s.active.head, tail := t } hpos.2.1 hpos.1 hpos.2.2
        exact ⟨k, hk.pre rfl rfl rfl rfl rfl rfl rfl rfl, fun _ _ _ _ => hk0⟩
      · obtain ⟨k, hk⟩ := finishPurge_progress
          (afterEmit s t { data := parts.flatten, ts := (fetchTs s s.active).getD 0, dropped := s.dropped,
                           ticks := afterScan s ringFuel t ((fetchTs s s.active).getD 0) - (fetchTs s s.active).getD 0,
                           pkts := hp :: tl })
          { head := s.active.head, tail := t }
        exact ⟨k, hk.pre rfl rfl rfl rfl rfl rfl rfl rfl, fun _ a b c => absurd ⟨a, b, c⟩ hpos⟩

/-- a detected run has all its slots filled: `emit` never meets a nil slot -/
theorem consumeTail_fill {d : Depack} {s : State} {t : UInt16} (h : consumeTail d s = some t)
    (hne : s.active.head ≠ t) :
    ∃ hp tl, allSome (slots s.buffer ringFuel s.active.head t) = some (hp :: tl) := by
  unfold consumeTail at h
  obtain ⟨k, hk, ht, hall⟩ := scan_spec d _ _ _ _ _ h
  have hk0 : 0 < k := by
    cases k with
    | zero => rw [adv_zero] at ht; exact absurd ht.symm hne
    | succ k => omega
  have hk1 : k < 65536 := by
    have : k ≠ 65536 := by
      intro e; rw [e, adv_full] at ht; exact absurd ht.symm hne
    unfold ringFuel at hk; omega
  obtain ⟨ps, hps⟩ := allSome_window_of_filled s.buffer k s.active.head
    (fun j hj => by obtain ⟨p, hp, _⟩ := hall j hj; exact ⟨p, hp⟩)
  rw [ht, slots_eq_window _ k ringFuel _ hk1 hk, hps]
  obtain ⟨hl, _⟩ := allSome_window _ _ _ _ hps
  cases ps with
  | nil => simp at hl; omega
  | cons hp tl => exact ⟨hp, tl, rfl⟩

theorem buildSample_progress (d : Depack) (s : State) (p : Bool) :
    ∃ k, Progress s (buildSample d s p).1 k ∧
      ((buildSample d s p).2.isSome → s.active.head = s.filled.head → s.active.head ≠ s.active.tail →
        s.filled.head ≠ s.filled.tail → 0 < k) := by
  have h01 : Progress s (extend (reseed s)) 0 := (reseed_progress s).trans (extend_progress (reseed s))
  unfold buildSample
  simp only
  split
  · exact ⟨0, reseed_progress s, by intro h; simp at h⟩
  · split
    · exact ⟨0, h01, by intro h; simp at h⟩
    · rename_i t ht
      split
      · exact ⟨0, h01, by intro h; simp at h⟩
      · rename_i hne
        split
        · exact ⟨0, h01, by intro h; simp at h⟩
        · obtain ⟨k, hk, hpos⟩ := emit_progress d (extend (reseed s)) t (consumeTail_fill ht hne)
          refine ⟨k, by have := h01.trans hk; rwa [Nat.zero_add] at this, ?_⟩
          intro hsome hal hact hf
          apply hpos hsome
          · rw [extend_head, extend_filled, reseed_filled]
            unfold reseed; rw [if_neg hact]; exact hal
          · exact hne
          · rw [extend_filled, reseed_filled]; exact hf

/-! ### the purge loop -/

/-- one iteration under the loop condition: progress, and strictly so unless it breaks -/
theorem purgeStep_progress (d : Depack) (s : State) (hf : s.filled.head ≠ s.filled.tail) :
    ∃ k, Progress s (purgeStep d s).1 k ∧ ((purgeStep d s).2 = true → 0 < k) := by
  have hd := dist_succ s.filled.head s.filled.tail hf
  have hr := reseed_progress s
  have hrf : (reseed s).filled = s.filled := reseed_filled s
  have hract : (reseed s).active.head ≠ (reseed s).active.tail := by
    unfold reseed; split
    · exact hf
    · assumption
  unfold purgeStep
  simp only
  split
  · rename_i hbranch
    have hal : (reseed s).active.head = (reseed s).filled.head := by
      simp at hbranch; rw [hrf]; exact hbranch.2
    obtain ⟨kb, hb, hbpos⟩ := buildSample_progress d (reseed s) true
    split
    · rename_i s2 sm heq
      rw [heq] at hb hbpos
      have hkb : 0 < kb := hbpos (by simp) hal hract (by rw [hrf]; exact hf)
      exact ⟨kb, by have := hr.trans hb; rwa [Nat.zero_add] at this, fun _ => hkb⟩
    · rename_i s2 heq
      rw [heq] at hb
      have h02 : Progress s s2 kb := by have := hr.trans hb; rwa [Nat.zero_add] at this
      split
      · exact ⟨kb, h02, by intro h; simp at h⟩
      · rename_i hdata
        have hf2 : s2.filled.head ≠ s2.filled.tail := by simpa [Loc.hasData] using hdata
        have hd3 := dist_succ s2.filled.head s2.filled.tail hf2
        have h1 : Progress s2 (releaseHead (dropOne s2)) 1 :=
          (releaseN_progress 1 (dropOne s2) (by simp only [dropOne]; omega)).pre rfl rfl rfl rfl rfl rfl rfl rfl
        exact ⟨kb + 1, h02.trans h1, fun _ => by omega⟩
  · have h1 : Progress (reseed s) (releaseHead (reseed s)) 1 :=
      releaseN_progress 1 (reseed s) (by rw [hrf]; omega)
    exact ⟨1, by have := hr.trans h1; rwa [Nat.zero_add] at this, fun _ => by omega⟩

theorem purgeCond_hasData {flush : Bool} {s : State} (h : purgeCond flush s = true) :
    s.filled.head ≠ s.filled.tail := by
  simp [purgeCond, Loc.hasData] at h; exact h.1

theorem purgeLoop_progress (d : Depack) (flush : Bool) : ∀ (n : Nat) (s : State),
    dist s.filled.head s.filled.tail < n → ∃ k, Progress s (purgeLoop d flush n s) k := by
  intro n
  induction n with
  | zero => intro s h; omega
  | succ n ih =>
    intro s hn
    unfold purgeLoop
    split
    · rename_i hcond
      obtain ⟨k, hk, hpos⟩ := purgeStep_progress d s (purgeCond_hasData hcond)
      split
      · rename_i s2 heq
        rw [heq] at hk hpos
        have hd : dist s2.filled.head s2.filled.tail = dist s.filled.head s.filled.tail - k := hk.dist_eq
        have := hpos rfl
        have := hk.le
        obtain ⟨k2, hk2⟩ := ih s2 (by omega)
        exact ⟨k + k2, hk.trans hk2⟩
      · rename_i s2 heq
        rw [heq] at hk
        exact ⟨k, hk⟩
    · exact ⟨0, Progress.refl s⟩

/-! ### Push / Pop / Flush never exhaust the fuel and never meet a nil slot -/

theorem purgeFuel_gt (s : State) : dist s.filled.head s.filled.tail < purgeFuel := by
  have := dist_lt s.filled.head s.filled.tail; unfold purgeFuel; omega

theorem purgeBuffers_progress (d : Depack) (s : State) (flush : Bool) :
    ∃ k, Progress s (purgeBuffers d s flush) k := by
  obtain ⟨k1, h1⟩ := purgeConsumed_progress s
  obtain ⟨k2, h2⟩ := purgeLoop_progress d flush purgeFuel (purgeConsumed s) (purgeFuel_gt _)
  exact ⟨k1 + k2, h1.trans h2⟩

/-- configuration and the two error flags -/
structure SameFlags (s r : State) : Prop where
  maxLate : r.maxLate = s.maxLate
  maxLateTs : r.maxLateTs = s.maxLateTs
  nilDeref : r.nilDeref = s.nilDeref
  outOfFuel : r.outOfFuel = s.outOfFuel

theorem Progress.flags {s r : State} {k : Nat} (h : Progress s r k) : SameFlags s r :=
  ⟨h.maxLate, h.maxLateTs, h.nilDeref, h.outOfFuel⟩

theorem flush_flags (d : Depack) (s : State) : SameFlags s (flush d s) := by
  obtain ⟨_, h⟩ := purgeBuffers_progress d s true
  exact h.flags

theorem insert_flags (s : State) (p : Packet) :
    (insert s p).maxLate = s.maxLate ∧ (insert s p).maxLateTs = s.maxLateTs ∧
    (insert s p).nilDeref = s.nilDeref ∧ (insert s p).outOfFuel = s.outOfFuel := by
  unfold insert
  simp only
  split <;> exact ⟨rfl, rfl, rfl, rfl⟩

theorem push_flags (d : Depack) (s : State) (p : Packet) : SameFlags s (push d s p) := by
  unfold push
  obtain ⟨_, h⟩ := purgeBuffers_progress d (insert s p) false
  obtain ⟨h1, h2, h3, h4⟩ := insert_flags s p
  exact ⟨h.maxLate.trans h1, h.maxLateTs.trans h2, h.nilDeref.trans h3, h.outOfFuel.trans h4⟩

theorem pop_flags (d : Depack) (s : State) : SameFlags s (pop d s).1 := by
  obtain ⟨_, h, _⟩ := buildSample_progress d s false
  unfold pop
  simp only
  split
  · exact h.flags
  · exact ⟨h.maxLate, h.maxLateTs, h.nilDeref, h.outOfFuel⟩

/-! ### the read-only loops: their result does not depend on the fuel once it exceeds the distance to walk -/

theorem findUp_fuel (b : Buf Packet) : ∀ (n m : Nat) (i stop : UInt16),
    dist i stop < n → dist i stop < m → findUp n b i stop = findUp m b i stop := by
  intro n
  induction n with
  | zero => intro m i stop h; omega
  | succ n ih =>
    intro m i stop hn hm
    cases m with
    | zero => omega
    | succ m =>
      unfold findUp
      by_cases e : i = stop
      · simp [e]
      · have hd := dist_succ i stop e
        simp only [if_neg e]
        cases b.get i with
        | some p => rfl
        | none => exact ih m (i + 1) stop (by omega) (by omega)

theorem dist_pred (stop i : UInt16) (hne : i ≠ stop) : dist stop (i - 1) = dist stop i - 1 ∧ 0 < dist stop i := by
  have h1 := i.toNat_lt; have h2 := stop.toNat_lt
  have : i.toNat ≠ stop.toNat := fun e => hne (UInt16.toNat_inj.mp e)
  simp [dist, UInt16.toNat_sub]
  omega

theorem findDown_fuel (b : Buf Packet) : ∀ (n m : Nat) (i stop : UInt16),
    dist stop i < n → dist stop i < m → findDown n b i stop = findDown m b i stop := by
  intro n
  induction n with
  | zero => intro m i stop h; omega
  | succ n ih =>
    intro m i stop hn hm
    cases m with
    | zero => omega
    | succ m =>
      unfold findDown
      by_cases e : i = stop
      · simp [e]
      · have hd := dist_pred stop i e
        simp only [if_neg e]
        cases b.get i with
        | some p => rfl
        | none => exact ih m (i - 1) stop (by omega) (by omega)

theorem slots_fuel (b : Buf Packet) : ∀ (n m : Nat) (i stop : UInt16),
    dist i stop < n → dist i stop < m → slots b n i stop = slots b m i stop := by
  intro n
  induction n with
  | zero => intro m i stop h; omega
  | succ n ih =>
    intro m i stop hn hm
    cases m with
    | zero => omega
    | succ m =>
      unfold slots
      by_cases e : i = stop
      · simp [e]
      · have hd := dist_succ i stop e
        simp only [if_neg e]
        rw [ih m (i + 1) stop (by omega) (by omega)]

theorem afterScan_fuel (s : State) (dflt : UInt32) : ∀ (n m : Nat) (i : UInt16),
    s.active.tail.toNat - i.toNat < n → s.active.tail.toNat - i.toNat < m →
      afterScan s n i dflt = afterScan s m i dflt := by
  intro n
  induction n with
  | zero => intro m i h; omega
  | succ n ih =>
    intro m i hn hm
    cases m with
    | zero => omega
    | succ m =>
      unfold afterScan
      by_cases e : i < s.active.tail
      · have e' := UInt16.lt_iff_toNat_lt.mp e
        have h1 := s.active.tail.toNat_lt
        have hi : (i + 1).toNat = i.toNat + 1 := by simp [UInt16.toNat_add]; omega
        simp only [if_pos e]
        cases s.buffer.get i with
        | some p => rfl
        | none => exact ih m (i + 1) (by omega) (by omega)
      · simp [e]

/-- the run detection on a non-empty active range stops at `active.tail` at the latest -/
theorem scan_fuel (d : Depack) (s : State) (hts : Option UInt32) (hact : s.active.head ≠ s.active.tail) :
    ∀ (n m : Nat) (i : UInt16), dist i s.active.tail < n → dist i s.active.tail < m →
      scan d s hts n i = scan d s hts m i := by
  intro n
  induction n with
  | zero => intro m i h; omega
  | succ n ih =>
    intro m i hn hm
    cases m with
    | zero => omega
    | succ m =>
      unfold scan
      cases s.buffer.get i with
      | none => rfl
      | some p =>
        simp only
        by_cases e : i = s.active.tail
        · rw [e, compare_tail_after _ hact]; rfl
        · have hd := dist_succ i s.active.tail e
          rw [ih m (i + 1) (by omega) (by omega)]

end WebrtcVerif.SampleBuilder
