import WebrtcVerif.Model.Ogg
import WebrtcVerif.Model.OggSpec
/-!
  The table-driven checksum of oggwriter/oggreader (`Ogg.crcStep`, table generated as in the Go code) equals
  the bitwise MSB-first CRC-32 with polynomial 0x04c11db7 of RFC 3533 (`OggSpec.crcByte`), for every register
  value and byte: by GF(2)-linearity of the shift step, not by enumeration.
-/
namespace WebrtcVerif.Ogg
open WebrtcVerif.Bytes

/-- one CRC shift step on bit vectors -/
def stepBV (r : BitVec 32) : BitVec 32 :=
  if r.msb then (r <<< 1) ^^^ 0x04c11db7#32 else r <<< 1

theorem and_msb_ne_zero (a : BitVec 32) : (a &&& 0x80000000#32 != 0#32) = a.msb := by
  have h : (0x80000000#32) = BitVec.twoPow 32 31 := by decide
  rw [h, BitVec.and_twoPow, BitVec.msb_eq_getLsbD_last]
  cases a.getLsbD (32 - 1) <;> simp <;> decide

theorem bne_toBitVec (x y : UInt32) : (x != y) = (x.toBitVec != y.toBitVec) := by
  simp only [bne, BEq.beq]
  congr 1
  by_cases h : x = y
  · subst h; simp
  · have : ¬ x.toBitVec = y.toBitVec := fun e => h (UInt32.toBitVec_inj.mp e)
    simp [h, this]

theorem tableStep_toBitVec (r : UInt32) : (tableStep r).toBitVec = stepBV r.toBitVec := by
  unfold tableStep stepBV
  have : (r &&& 0x80000000 != 0) = r.toBitVec.msb := by
    rw [← and_msb_ne_zero, bne_toBitVec]
    rfl
  rw [this]
  cases r.toBitVec.msb
  · simp
  · simp [poly]

theorem stepBV_xor (a c : BitVec 32) : stepBV (a ^^^ c) = stepBV a ^^^ stepBV c := by
  unfold stepBV
  rw [BitVec.msb_xor, BitVec.shiftLeft_xor_distrib]
  generalize a <<< 1 = x
  generalize c <<< 1 = y
  generalize (0x04c11db7#32) = p
  cases a.msb <;> cases c.msb <;> simp
  · ac_rfl
  · ac_rfl
  · calc x ^^^ y = x ^^^ y ^^^ (p ^^^ p) := by simp
      _ = _ := by ac_rfl


def step8 (x : BitVec 32) : BitVec 32 :=
  stepBV (stepBV (stepBV (stepBV (stepBV (stepBV (stepBV (stepBV x)))))))

theorem step8_xor (a c : BitVec 32) : step8 (a ^^^ c) = step8 a ^^^ step8 c := by
  simp only [step8, stepBV_xor]

theorem stepBV_small (x : BitVec 32) (h : x.toNat < 2147483648) :
    stepBV x = x <<< 1 ∧ (x <<< 1).toNat = 2 * x.toNat := by
  have hm : x.msb = false := by
    rw [BitVec.msb_eq_false_iff_two_mul_lt]; omega
  refine ⟨by simp [stepBV, hm], ?_⟩
  rw [BitVec.toNat_shiftLeft, Nat.shiftLeft_eq]
  omega

theorem step8_small (x : BitVec 32) (h : x.toNat < 16777216) : step8 x = x <<< 8 := by
  unfold step8
  obtain ⟨e1, n1⟩ := stepBV_small x (by omega)
  obtain ⟨e2, n2⟩ := stepBV_small (x <<< 1) (by omega)
  obtain ⟨e3, n3⟩ := stepBV_small (x <<< 1 <<< 1) (by omega)
  obtain ⟨e4, n4⟩ := stepBV_small (x <<< 1 <<< 1 <<< 1) (by omega)
  obtain ⟨e5, n5⟩ := stepBV_small (x <<< 1 <<< 1 <<< 1 <<< 1) (by omega)
  obtain ⟨e6, n6⟩ := stepBV_small (x <<< 1 <<< 1 <<< 1 <<< 1 <<< 1) (by omega)
  obtain ⟨e7, n7⟩ := stepBV_small (x <<< 1 <<< 1 <<< 1 <<< 1 <<< 1 <<< 1) (by omega)
  obtain ⟨e8, n8⟩ := stepBV_small (x <<< 1 <<< 1 <<< 1 <<< 1 <<< 1 <<< 1 <<< 1) (by omega)
  rw [e1, e2, e3, e4, e5, e6, e7, e8]
  simp only [← BitVec.shiftLeft_add]

/-- splitting the register into its top byte and the rest -/
theorem split_top (c : BitVec 32) (v : BitVec 8) :
    c ^^^ (v.setWidth 32 <<< 24) =
      ((c <<< 8) >>> 8) ^^^ ((((c >>> 24).setWidth 8 ^^^ v).setWidth 32) <<< 24) := by
  apply BitVec.eq_of_getLsbD_eq
  intro i hi
  simp only [BitVec.getLsbD_xor, BitVec.getLsbD_shiftLeft, BitVec.getLsbD_ushiftRight, BitVec.getLsbD_setWidth]
  by_cases h : i < 24
  · have h1 : 8 + i < 32 := by omega
    have h2 : ¬ (8 + i < 8) := by omega
    have h3 : 8 + i - 8 = i := by omega
    simp [h, h1, h2, h3, hi]
  · have h1 : ¬ (8 + i < 32) := by omega
    have h2 : i - 24 < 8 := by omega
    have h3 : 24 + (i - 24) = i := by omega
    have h4 : i - 24 < 32 := by omega
    simp [h, h1, h2, h3, h4, hi]

theorem low_shift (c : BitVec 32) : ((c <<< 8) >>> 8) <<< 8 = c <<< 8 := by
  apply BitVec.eq_of_getLsbD_eq
  intro i hi
  simp only [BitVec.getLsbD_shiftLeft, BitVec.getLsbD_ushiftRight]
  by_cases h : i < 8
  · simp [h]
  · have h1 : 8 + (i - 8) = i := by omega
    simp [h, h1, hi]

theorem low_small (c : BitVec 32) : ((c <<< 8) >>> 8).toNat < 16777216 := by
  rw [BitVec.toNat_ushiftRight, Nat.shiftRight_eq_div_pow]
  have := (c <<< 8).isLt
  omega

theorem table_getD (k : Nat) (hk : k < 256) : checksumTable.getD k 0 = tableEntry k := by
  simp [checksumTable, Array.getD_eq_getD_getElem?, hk]

theorem tableEntry_toBitVec (x : UInt8) :
    (tableEntry x.toNat).toBitVec = step8 (x.toBitVec.setWidth 32 <<< 24) := by
  have h : (UInt32.ofNat x.toNat <<< 24).toBitVec = x.toBitVec.setWidth 32 <<< 24 := by
    rw [UInt32.toBitVec_shiftLeft]; simp
  unfold tableEntry step8
  simp only [tableStep_toBitVec, h]

theorem crcBit_eq_tableStep : OggSpec.crcBit = tableStep := rfl

theorem crcByte_toBitVec (c : UInt32) (v : UInt8) :
    (OggSpec.crcByte c v).toBitVec = step8 (c.toBitVec ^^^ (v.toBitVec.setWidth 32 <<< 24)) := by
  have h : (c ^^^ (v.toUInt32 <<< 24)).toBitVec = c.toBitVec ^^^ (v.toBitVec.setWidth 32 <<< 24) := by simp
  unfold OggSpec.crcByte step8
  simp only [crcBit_eq_tableStep, tableStep_toBitVec, h]

/-- the table-driven update of writer and reader is the bitwise CRC of RFC 3533 -/
theorem crcStep_eq_crcByte (c : UInt32) (v : UInt8) : crcStep c v = OggSpec.crcByte c v := by
  apply UInt32.toBitVec_inj.mp
  rw [crcByte_toBitVec, split_top, step8_xor, step8_small _ (low_small _), low_shift]
  unfold crcStep
  rw [table_getD _ (UInt8.toNat_lt _), UInt32.toBitVec_xor, tableEntry_toBitVec]
  have h1 : (c <<< 8).toBitVec = c.toBitVec <<< 8 := by simp
  have h2 : ((c >>> 24).toUInt8 ^^^ v).toBitVec = (c.toBitVec >>> 24).setWidth 8 ^^^ v.toBitVec := by simp
  rw [h1, h2]

theorem crc_eq_crc32 (bs : Bs) : crc bs = OggSpec.crc32 bs := by
  unfold crc OggSpec.crc32
  congr 1
  funext c v
  exact crcStep_eq_crcByte c v

end WebrtcVerif.Ogg

