import WebrtcVerif.Model.Directions
/-!
  Lemmas about the direction model (property C08): the RFC 3264 table, `pluck` (findByMid /
  satisfyTypeAndDirection over the local slice), the m-section loop of SetRemoteDescription, the section
  matching of CreateAnswer, and the local operations inside the answer window.
-/
namespace WebrtcVerif.Directions
open Spec

/-! ### the table -/

theorem legal_inactive (d : Dir) : legal d .inactive = true := by cases d <;> rfl

theorem legal_sendrecv (a : Dir) : legal .sendrecv a = true := rfl

/-- What the proofs need from the adjustment switch: for a remote section that is not inactive its result is
    a legal answer whatever the local direction was; for an inactive section (where `Stop()` has already made
    the local direction inactive) it leaves inactive alone. -/
def AdjOK (adj : Dir → Dir → Dir) : Prop :=
  (∀ d l, d ≠ .inactive → legal d (adj d l) = true) ∧ legal .inactive (adj .inactive .inactive) = true

theorem adjust_ok : AdjOK adjust :=
  ⟨by intro d l h; cases d <;> cases l <;> first | rfl | exact absurd rfl h, rfl⟩

theorem newDir_legal (d : Dir) : legal d (newDir d) = true := by cases d <;> rfl

/-- `answerDirection` always yields a legal answer … -/
theorem narrow_legal (d l : Dir) : legal d (narrow d l) = true := by cases d <;> cases l <;> rfl

/-- … and leaves a direction alone exactly when it already is one -/
theorem narrow_eq_self_iff (d l : Dir) : narrow d l = l ↔ legal d l = true := by
  cases d <;> cases l <;> decide

/-! ### pluck -/

theorem pluck_some {p : Tr → Bool} {f : Tr → Tr} {w : Work} {t : Tr} {w' : Work}
    (h : pluck p f w = some (t, w')) :
    ∃ pre post, w = pre ++ (t, true) :: post ∧ w' = pre ++ (f t, false) :: post ∧ p t = true ∧
      ∀ x ∈ pre, (x.2 && p x.1) = false := by
  induction w generalizing w' with
  | nil => simp [pluck] at h
  | cons x rest ih =>
    obtain ⟨t0, av⟩ := x
    unfold pluck at h
    by_cases hc : (av && p t0) = true
    · rw [if_pos hc] at h
      simp only [Option.some.injEq, Prod.mk.injEq] at h
      obtain ⟨rfl, rfl⟩ := h
      simp only [Bool.and_eq_true] at hc
      obtain ⟨rfl, hp⟩ := hc
      exact ⟨[], rest, rfl, rfl, hp, by simp⟩
    · rw [if_neg hc] at h
      cases hr : pluck p f rest with
      | none => simp [hr] at h
      | some r =>
        obtain ⟨x, rest'⟩ := r
        simp only [hr, Option.some.injEq, Prod.mk.injEq] at h
        obtain ⟨rfl, rfl⟩ := h
        obtain ⟨pre, post, h1, h2, h3, h4⟩ := ih hr
        refine ⟨(t0, av) :: pre, post, by simp [h1], by simp [h2], h3, ?_⟩
        intro y hy
        rcases List.mem_cons.mp hy with rfl | hy
        · simpa using hc
        · exact h4 y hy

theorem pluck_none {p : Tr → Bool} {f : Tr → Tr} {w : Work} (h : pluck p f w = none) :
    ∀ x ∈ w, (x.2 && p x.1) = false := by
  induction w with
  | nil => simp
  | cons x rest ih =>
    obtain ⟨t0, av⟩ := x
    unfold pluck at h
    by_cases hc : (av && p t0) = true
    · rw [if_pos hc] at h; simp at h
    · rw [if_neg hc] at h
      cases hr : pluck p f rest with
      | some r => simp [hr] at h
      | none =>
        intro y hy
        rcases List.mem_cons.mp hy with rfl | hy
        · simpa using hc
        · exact ih hr y hy

/-- conversely: an available element satisfying `p` makes `pluck` succeed -/
theorem pluck_isSome {p : Tr → Bool} {f : Tr → Tr} {w : Work} {x : Tr × Bool}
    (hx : x ∈ w) (hav : x.2 = true) (hp : p x.1 = true) : (pluck p f w).isSome = true := by
  cases h : pluck p f w with
  | some _ => rfl
  | none =>
    have := pluck_none h x hx
    simp [hav, hp] at this

/-! ### first transceiver carrying a mid -/

theorem toList_append (a b : Work) : Work.toList (a ++ b) = Work.toList a ++ Work.toList b := by
  simp [Work.toList]

theorem toList_cons (x : Tr × Bool) (b : Work) : Work.toList (x :: b) = x.1 :: Work.toList b := by
  simp [Work.toList]

theorem toList_ofList (ts : List Tr) : Work.toList (Work.ofList ts) = ts := by
  simp [Work.toList, Work.ofList, Function.comp_def]

theorem find_none_of_forall {m : Nat} {l : List Tr} (h : ∀ t ∈ l, hasMid m t = false) :
    l.find? (hasMid m) = none := by
  simpa using h

/-- replacing one element that does not carry `m` (before and after) does not move the first carrier of `m` -/
theorem find_replace_other {m : Nat} (pre post : List Tr) (t t' : Tr)
    (h : hasMid m t = false) (h' : hasMid m t' = false) :
    (pre ++ t' :: post).find? (hasMid m) = (pre ++ t :: post).find? (hasMid m) := by
  simp [List.find?_append, h, h']

/-- the replaced element is the first carrier of `m` when nothing before it carries `m` -/
theorem find_replace_hit {m : Nat} (pre post : List Tr) (t' : Tr)
    (hpre : ∀ x ∈ pre, hasMid m x = false) (h' : hasMid m t' = true) :
    (pre ++ t' :: post).find? (hasMid m) = some t' := by
  simp [List.find?_append, find_none_of_forall hpre, h']

theorem find_append_miss {m : Nat} (l : List Tr) (x : Tr) (h : hasMid m x = false) :
    (l ++ [x]).find? (hasMid m) = l.find? (hasMid m) := by
  simp [List.find?_append, h]

theorem find_append_hit {m : Nat} (l : List Tr) (x : Tr) (hl : ∀ t ∈ l, hasMid m t = false)
    (h : hasMid m x = true) : (l ++ [x]).find? (hasMid m) = some x := by
  simp [List.find?_append, find_none_of_forall hl, h]

/-! ### the invariant of the answer window -/

/-- Every offered section has its transceiver — the first one with its mid, which is the one CreateAnswer will
    pick — holding the section's direction (sendrecv when it has no direction attribute) as
    currentRemoteDirection and a direction that is a legal answer to it. -/
def Ready (off : List Sec) (ts : List Tr) : Prop :=
  ∀ sec ∈ off,
    ∃ t, ts.find? (hasMid sec.mid) = some t ∧ t.curRemote = some (effDir sec.dir) ∧
      legal (effDir sec.dir) t.dir = true

/-- transceivers already taken out of the local slice do not carry a mid that is still to be processed -/
def NoTakenMid (w : Work) (rest : List Sec) : Prop :=
  ∀ x ∈ w, x.2 = false → ∀ sec ∈ rest, hasMid sec.mid x.1 = false

def Distinct (secs : List Sec) : Prop := (secs.map (·.mid)).Nodup

instance (secs : List Sec) : Decidable (Distinct secs) := by unfold Distinct; infer_instance

theorem hasMid_of_mid {m : Nat} {t : Tr} (h : t.mid = some m) : hasMid m t = true := by
  simp [hasMid, h]

theorem hasMid_ne {m m' : Nat} {t : Tr} (h : t.mid = some m') (hne : m ≠ m') : hasMid m t = false := by
  simp [hasMid, h]; exact fun e => hne e.symm

theorem hasMid_none {m : Nat} {t : Tr} (h : t.mid = none) : hasMid m t = false := by
  simp [hasMid, h]

/-- nothing in `pre` carries `m`: the available ones by the `pluck` scan, the taken ones by `NoTakenMid` -/
theorem pre_no_mid {m : Nat} {pre : Work} {w : Work} {rest : List Sec} {s : Sec}
    (hsub : ∀ x ∈ pre, x ∈ w) (hs : s.mid = m)
    (hscan : ∀ x ∈ pre, (x.2 && hasMid m x.1) = false) (hnt : NoTakenMid w (s :: rest)) :
    ∀ t ∈ Work.toList pre, hasMid m t = false := by
  intro t ht
  simp only [Work.toList, List.mem_map] at ht
  obtain ⟨x, hx, rfl⟩ := ht
  cases hav : x.2 with
  | true => have := hscan x hx; simpa [hav] using this
  | false => have := hnt x (hsub x hx) hav s (by simp); simpa [hs] using this

/-- the `satisfyTypeAndDirection` result: one available transceiver without mid is updated in place -/
theorem satisfy_some {adj : Dir → Dir → Dir} {k : Kind} {m : Nat} {d : Dir} {pds : List Dir} {w w' : Work}
    (h : satisfy adj k m d pds w = some w') :
    ∃ pre t post, w = pre ++ (t, true) :: post ∧ w' = pre ++ (applySatisfied adj m d t, false) :: post ∧
      t.mid = none := by
  induction pds with
  | nil => simp [satisfy] at h
  | cons pd pds ih =>
    unfold satisfy at h
    cases hp : pluck (fun t => t.mid.isNone && t.kind == k && t.dir == pd) (applySatisfied adj m d) w with
    | none => rw [hp] at h; exact ih h
    | some r =>
      obtain ⟨t, w1⟩ := r
      rw [hp] at h
      simp only [Option.some.injEq] at h
      subst h
      obtain ⟨pre, post, h1, h2, h3, _⟩ := pluck_some hp
      refine ⟨pre, t, post, h1, h2, ?_⟩
      simp only [Bool.and_eq_true, Option.isNone_iff_eq_none] at h3
      exact h3.1.1

/-- One iteration of the SetRemoteDescription loop keeps the sections done so far ready, makes the section just
    processed ready, and keeps taken transceivers off the remaining mids. -/
theorem srdSection_step {adj : Dir → Dir → Dir} (hadj : AdjOK adj)
    (done rest : List Sec) (s : Sec) (w : Work)
    (hd : Distinct (done ++ s :: rest)) (hnt : NoTakenMid w (s :: rest)) (hr : Ready done (Work.toList w)) :
    Ready (done ++ [s]) (Work.toList (srdSection adj w s)) ∧ NoTakenMid (srdSection adj w s) rest := by
  have hdm : ∀ sec ∈ done, sec.mid ≠ s.mid := by
    intro sec hsec e
    unfold Distinct at hd
    rw [List.map_append, List.map_cons] at hd
    have := (List.nodup_append.mp hd).2.2 sec.mid (List.mem_map_of_mem hsec) s.mid (by simp)
    exact this e
  have hrm : ∀ sec ∈ rest, sec.mid ≠ s.mid := by
    intro sec hsec e
    unfold Distinct at hd
    rw [List.map_append, List.map_cons] at hd
    have h2 := (List.nodup_append.mp hd).2.1
    rw [List.nodup_cons] at h2
    exact h2.1 (e ▸ List.mem_map_of_mem hsec)
  have hnt' : NoTakenMid w rest := fun x hx hav sec hsec => hnt x hx hav sec (List.mem_cons_of_mem _ hsec)
  unfold srdSection
  simp only
  generalize hdir : effDir s.dir = d
  -- a generic closing argument: `w' = pre ++ (t', false) :: post`, `w = pre ++ (t, true) :: post`,
  -- `t'` carries `s.mid` with the right state, nothing in `pre` carries it, `t` carried it or nothing
  have close : ∀ (pre post : Work) (t t' : Tr), w = pre ++ (t, true) :: post →
      (∀ x ∈ Work.toList pre, hasMid s.mid x = false) →
      (t.mid = some s.mid ∨ t.mid = none) → t'.mid = some s.mid → t'.curRemote = some d →
      legal d t'.dir = true →
      Ready (done ++ [s]) (Work.toList (pre ++ (t', false) :: post)) ∧
        NoTakenMid (pre ++ (t', false) :: post) rest := by
    intro pre post t t' hw hpre htm ht'm ht'c ht'l
    constructor
    · intro sec hsec
      rcases List.mem_append.mp hsec with h | h
      · obtain ⟨u, hu1, hu2, hu3⟩ := hr sec h
        refine ⟨u, ?_, hu2, hu3⟩
        rw [← hu1, hw, toList_append, toList_cons, toList_append, toList_cons]
        apply find_replace_other
        · rcases htm with h1 | h1
          · exact hasMid_ne h1 (hdm sec h)
          · exact hasMid_none h1
        · exact hasMid_ne ht'm (hdm sec h)
      · simp only [List.mem_singleton] at h; subst h
        rw [hdir]
        refine ⟨t', ?_, ht'c, ht'l⟩
        rw [toList_append, toList_cons]
        exact find_replace_hit _ _ _ hpre (hasMid_of_mid ht'm)
    · intro x hx hav sec hsec
      rcases List.mem_append.mp hx with h | h
      · exact hnt' x (by rw [hw]; exact List.mem_append_left _ h) hav sec hsec
      · rcases List.mem_cons.mp h with h | h
        · subst h; exact hasMid_ne ht'm (hrm sec hsec)
        · exact hnt' x (by rw [hw]; exact List.mem_append_right _ (List.mem_cons_of_mem _ h)) hav sec hsec
  cases hp : pluck (hasMid s.mid) (applyByMid adj d) w with
  | some r =>
    obtain ⟨t, w1⟩ := r
    simp only
    obtain ⟨pre, post, h1, h2, h3, h4⟩ := pluck_some hp
    subst h2
    have htmid : t.mid = some s.mid := by simpa [hasMid] using h3
    refine close pre post t (applyByMid adj d t) h1 ?_ (Or.inl htmid) ?_ ?_ ?_
    · exact pre_no_mid (w := w) (fun x hx => by rw [h1]; exact List.mem_append_left _ hx) rfl h4 hnt
    · unfold applyByMid; by_cases hi : d = .inactive <;> simp [hi, Tr.stop, htmid]
    · unfold applyByMid; simp
    · unfold applyByMid
      by_cases hi : d = .inactive
      · subst hi; simpa [Tr.stop] using hadj.2
      · simpa [hi] using hadj.1 d t.dir hi
  | none =>
    simp only
    have hno : ∀ t ∈ Work.toList w, hasMid s.mid t = false :=
      pre_no_mid (w := w) (fun x hx => hx) rfl (pluck_none hp) hnt
    cases hs : satisfy adj s.kind s.mid d (preferred d) w with
    | some w1 =>
      simp only
      obtain ⟨pre, t, post, h1, h2, h3⟩ := satisfy_some hs
      subst h2
      refine close pre post t (applySatisfied adj s.mid d t) h1 ?_ (Or.inr h3) ?_ ?_ ?_
      · intro x hx; apply hno; rw [h1, toList_append]; exact List.mem_append_left _ hx
      · simp [applySatisfied]
      · simp [applySatisfied]
      · have hi : d ≠ .inactive := by
          intro e; subst e; simp [preferred, satisfy] at hs
        simpa [applySatisfied] using hadj.1 d t.dir hi
    | none =>
      simp only
      constructor
      · intro sec hsec
        rcases List.mem_append.mp hsec with h | h
        · obtain ⟨u, hu1, hu2, hu3⟩ := hr sec h
          refine ⟨u, ?_, hu2, hu3⟩
          rw [← hu1, toList_append]
          show (Work.toList w ++ [newFromRemote s.mid s.kind d]).find? _ = _
          apply find_append_miss
          exact hasMid_ne (by simp [newFromRemote]) (hdm sec h)
        · simp only [List.mem_singleton] at h; subst h
          rw [hdir]
          refine ⟨newFromRemote sec.mid sec.kind d, ?_, by simp [newFromRemote], by simp [newFromRemote, newDir_legal]⟩
          rw [toList_append]
          show (Work.toList w ++ [newFromRemote sec.mid sec.kind d]).find? _ = _
          exact find_append_hit _ _ hno (by simp [hasMid, newFromRemote])
      · intro x hx hav sec hsec
        rcases List.mem_append.mp hx with h | h
        · exact hnt' x h hav sec hsec
        · simp only [List.mem_singleton] at h; subst h
          exact hasMid_ne (by simp [newFromRemote]) (hrm sec hsec)

/-- The whole loop: every section of the offer ends up ready. -/
theorem srdLoop_ready {adj : Dir → Dir → Dir} (hadj : AdjOK adj) :
    ∀ (rest done : List Sec) (w : Work), Distinct (done ++ rest) → NoTakenMid w rest →
      Ready done (Work.toList w) → Ready (done ++ rest) (Work.toList (srdLoop adj w rest)) := by
  intro rest
  induction rest with
  | nil => intro done w _ _ hr; simpa [srdLoop] using hr
  | cons s rest ih =>
    intro done w hd hnt hr
    obtain ⟨h1, h2⟩ := srdSection_step hadj done rest s w hd hnt hr
    have := ih (done ++ [s]) (srdSection adj w s) (by simpa using hd) h2 h1
    simpa [srdLoop] using this

theorem srd_ready {adj : Dir → Dir → Dir} (hadj : AdjOK adj)
    (ts : List Tr) (off : List Sec) (hd : Distinct off) :
    Ready off (Work.toList (srdLoop adj (Work.ofList ts) off)) := by
  have := srdLoop_ready hadj off [] (Work.ofList ts) (by simpa using hd)
    (by intro x hx hav; simp [Work.ofList] at hx; obtain ⟨_, _, rfl⟩ := hx; cases hav)
    (by intro sec hsec; cases hsec)
  simpa using this

/-! ### generateMatchedSDP: the section loop shared by CreateAnswer and CreateOffer -/

theorem noTakenMid_ofList (ts : List Tr) (secs : List Sec) : NoTakenMid (Work.ofList ts) secs := by
  intro x hx hav
  simp [Work.ofList] at hx
  obtain ⟨_, _, rfl⟩ := hx
  cases hav

theorem narrowTr_mid (nar : Option (Dir → Dir → Dir)) (d : Dir) (t : Tr) : (narrowTr nar d t).mid = t.mid := by
  cases nar <;> rfl

theorem hasMid_narrowTr (m : Nat) (nar : Option (Dir → Dir → Dir)) (d : Dir) (t : Tr) :
    hasMid m (narrowTr nar d t) = hasMid m t := by
  simp [hasMid, narrowTr_mid]

/-- `ans` answers `off` one-for-one, in order: every section is answered by a section with its mid whose
    direction is `f offered local` for some local `l` (`offered` = sendrecv when the attribute is absent). -/
inductive AnswersBy (f : Dir → Dir → Dir) : List Sec → List Sec → Prop
  | nil : AnswersBy f [] []
  | cons {s a : Sec} {off ans : List Sec} (l : Dir) : a.mid = s.mid →
      a.dir = some (f (effDir s.dir) l) → AnswersBy f off ans → AnswersBy f (s :: off) (a :: ans)

theorem matchedLoop_answersBy (f : Dir → Dir → Dir) : ∀ (off : List Sec) (w : Work) (ans : List Sec),
    (matchedLoop (some f) w off).1 = some ans → AnswersBy f off ans := by
  intro off
  induction off with
  | nil => intro w ans h; simp [matchedLoop] at h; subst h; exact .nil
  | cons s rest ih =>
    intro w ans h
    unfold matchedLoop at h
    cases hp : pluck (hasMid s.mid) (narrowTr (some f) (effDir s.dir)) w with
    | none => rw [hp] at h; simp at h
    | some r =>
      obtain ⟨t, w1⟩ := r
      rw [hp] at h; simp only at h
      cases hm : (matchedLoop (some f) w1 rest).1 with
      | none => rw [hm] at h; simp at h
      | some out =>
        rw [hm] at h
        simp only [Option.map_some, Option.some.injEq] at h
        subst h
        exact .cons t.dir rfl rfl (ih w1 out hm)

theorem AnswersBy.mem {f : Dir → Dir → Dir} {off ans : List Sec} (h : AnswersBy f off ans) :
    ∀ a ∈ ans, ∃ sec ∈ off, sec.mid = a.mid ∧ ∃ l, a.dir = some (f (effDir sec.dir) l) := by
  induction h with
  | nil => intro a ha; cases ha
  | @cons s a0 off ans l hm hdir _ ih =>
    intro a ha
    rcases List.mem_cons.mp ha with rfl | ha
    · exact ⟨s, by simp, hm.symm, l, hdir⟩
    · obtain ⟨sec, h1, h2⟩ := ih a ha
      exact ⟨sec, List.mem_cons_of_mem _ h1, h2⟩

theorem AnswersBy.covers {f : Dir → Dir → Dir} {off ans : List Sec} (h : AnswersBy f off ans) :
    ∀ sec ∈ off, ∃ a ∈ ans, a.mid = sec.mid := by
  induction h with
  | nil => intro sec hs; cases hs
  | @cons s a0 off ans l hm hdir _ ih =>
    intro sec hs
    rcases List.mem_cons.mp hs with rfl | hs
    · exact ⟨a0, by simp, hm⟩
    · obtain ⟨a, h1, h2⟩ := ih sec hs
      exact ⟨a, List.mem_cons_of_mem _ h1, h2⟩

/-- the answer has exactly the mids of the offer, in order -/
theorem AnswersBy.mids {f : Dir → Dir → Dir} {off ans : List Sec} (h : AnswersBy f off ans) :
    ans.map (·.mid) = off.map (·.mid) := by
  induction h with
  | nil => rfl
  | @cons s a0 off ans l hm hdir _ ih => simp [hm, ih]

/-- the loop never moves the first carrier of a mid that none of its sections uses -/
theorem matchedLoop_find_other (nar : Option (Dir → Dir → Dir)) : ∀ (off : List Sec) (w : Work) (m : Nat),
    (∀ sec ∈ off, sec.mid ≠ m) →
    (Work.toList (matchedLoop nar w off).2).find? (hasMid m) = (Work.toList w).find? (hasMid m) := by
  intro off
  induction off with
  | nil => intro w m _; rfl
  | cons s rest ih =>
    intro w m hne
    have hne' : ∀ sec ∈ rest, sec.mid ≠ m := fun sec h => hne sec (List.mem_cons_of_mem _ h)
    unfold matchedLoop
    cases hp : pluck (hasMid s.mid) (narrowTr nar (effDir s.dir)) w with
    | none => rfl
    | some r =>
      obtain ⟨t, w1⟩ := r
      simp only
      rw [ih w1 m hne']
      obtain ⟨pre, post, g1, g2, g3, _⟩ := pluck_some hp
      have htmid : t.mid = some s.mid := by simpa [hasMid] using g3
      have hm : m ≠ s.mid := fun e => hne s (by simp) e.symm
      rw [g1, g2, toList_append, toList_cons, toList_append, toList_cons]
      apply find_replace_other
      · exact hasMid_ne htmid hm
      · rw [hasMid_narrowTr]; exact hasMid_ne htmid hm

/-- the loop changes no mid -/
theorem matchedLoop_mids (nar : Option (Dir → Dir → Dir)) : ∀ (off : List Sec) (w : Work),
    (Work.toList (matchedLoop nar w off).2).map (·.mid) = (Work.toList w).map (·.mid) := by
  intro off
  induction off with
  | nil => intro w; rfl
  | cons s rest ih =>
    intro w
    unfold matchedLoop
    cases hp : pluck (hasMid s.mid) (narrowTr nar (effDir s.dir)) w with
    | none => rfl
    | some r =>
      obtain ⟨t, w1⟩ := r
      simp only
      rw [ih w1]
      obtain ⟨pre, post, g1, g2, _, _⟩ := pluck_some hp
      rw [g1, g2]
      simp [toList_append, toList_cons, narrowTr_mid]

private theorem distinct_tail {s : Sec} {rest : List Sec} (hd : Distinct (s :: rest)) :
    Distinct rest ∧ ∀ sec ∈ rest, sec.mid ≠ s.mid := by
  unfold Distinct at hd ⊢
  simp only [List.map_cons, List.nodup_cons] at hd
  exact ⟨hd.2, fun sec hsec e => hd.1 (e ▸ List.mem_map_of_mem hsec)⟩

private theorem noTaken_after_pluck {w : Work} {pre post : Work} {t t' : Tr} {s : Sec} {rest : List Sec}
    (g1 : w = pre ++ (t, true) :: post) (hnt : NoTakenMid w (s :: rest)) (ht' : t'.mid = some s.mid)
    (hrm : ∀ sec ∈ rest, sec.mid ≠ s.mid) : NoTakenMid (pre ++ (t', false) :: post) rest := by
  intro x hx hav sec hsec
  rcases List.mem_append.mp hx with hx | hx
  · exact hnt x (by rw [g1]; exact List.mem_append_left _ hx) hav sec (List.mem_cons_of_mem _ hsec)
  · rcases List.mem_cons.mp hx with hx | hx
    · subst hx; exact hasMid_ne ht' (hrm sec hsec)
    · exact hnt x (by rw [g1]; exact List.mem_append_right _ (List.mem_cons_of_mem _ hx)) hav sec
        (List.mem_cons_of_mem _ hsec)

/-- Each produced section reports the direction of the first carrier of its mid in the resulting list
    (distinct mids): what CreateAnswer writes is what `Direction()` returns afterwards. -/
theorem matchedLoop_result (nar : Option (Dir → Dir → Dir)) : ∀ (off : List Sec) (w : Work) (ans : List Sec),
    Distinct off → NoTakenMid w off → (matchedLoop nar w off).1 = some ans →
    ∀ a ∈ ans, ∃ t, (Work.toList (matchedLoop nar w off).2).find? (hasMid a.mid) = some t ∧
      a.dir = some t.dir := by
  intro off
  induction off with
  | nil => intro w ans _ _ h; simp [matchedLoop] at h; subst h; simp
  | cons s rest ih =>
    intro w ans hd hnt h
    obtain ⟨hd', hrm⟩ := distinct_tail hd
    unfold matchedLoop at h ⊢
    cases hp : pluck (hasMid s.mid) (narrowTr nar (effDir s.dir)) w with
    | none => rw [hp] at h; simp at h
    | some r =>
      obtain ⟨t, w1⟩ := r
      rw [hp] at h; simp only at h ⊢
      cases hm : (matchedLoop nar w1 rest).1 with
      | none => rw [hm] at h; simp at h
      | some out =>
        rw [hm] at h
        simp only [Option.map_some, Option.some.injEq] at h
        subst h
        obtain ⟨pre, post, g1, g2, g3, g4⟩ := pluck_some hp
        have htmid : t.mid = some s.mid := by simpa [hasMid] using g3
        have hpre := pre_no_mid (w := w) (fun x hx => by rw [g1]; exact List.mem_append_left _ hx) rfl g4 hnt
        have hnt1 : NoTakenMid w1 rest := by
          rw [g2]; exact noTaken_after_pluck g1 hnt (by rw [narrowTr_mid]; exact htmid) hrm
        intro a ha
        rcases List.mem_cons.mp ha with rfl | ha
        · refine ⟨narrowTr nar (effDir s.dir) t, ?_, rfl⟩
          show (Work.toList (matchedLoop nar w1 rest).2).find? (hasMid s.mid) = _
          rw [matchedLoop_find_other nar rest w1 s.mid hrm, g2, toList_append, toList_cons]
          exact find_replace_hit _ _ _ hpre (by rw [hasMid_narrowTr]; exact g3)
        · exact ih w1 out hd' hnt1 hm a ha

/-- The loop cannot fail when every section has a carrier of its mid. -/
theorem matchedLoop_isSome (nar : Option (Dir → Dir → Dir)) : ∀ (off : List Sec) (w : Work),
    Distinct off → NoTakenMid w off →
    (∀ sec ∈ off, ((Work.toList w).find? (hasMid sec.mid)).isSome = true) →
    (matchedLoop nar w off).1.isSome = true := by
  intro off
  induction off with
  | nil => intro w _ _ _; rfl
  | cons s rest ih =>
    intro w hd hnt hc
    obtain ⟨hd', hrm⟩ := distinct_tail hd
    have hc' : ∀ sec ∈ rest, ((Work.toList w).find? (hasMid sec.mid)).isSome = true :=
      fun sec hsec => hc sec (List.mem_cons_of_mem _ hsec)
    unfold matchedLoop
    cases hp : pluck (hasMid s.mid) (narrowTr nar (effDir s.dir)) w with
    | none =>
      exfalso
      have hno : ∀ t ∈ Work.toList w, hasMid s.mid t = false :=
        pre_no_mid (w := w) (fun x hx => hx) rfl (pluck_none hp) hnt
      have := hc s (by simp)
      rw [find_none_of_forall hno] at this
      cases this
    | some r =>
      obtain ⟨t, w1⟩ := r
      simp only
      obtain ⟨pre, post, g1, g2, g3, _⟩ := pluck_some hp
      have htmid : t.mid = some s.mid := by simpa [hasMid] using g3
      have hnt1 : NoTakenMid w1 rest := by
        rw [g2]; exact noTaken_after_pluck g1 hnt (by rw [narrowTr_mid]; exact htmid) hrm
      have hc1 : ∀ sec ∈ rest, ((Work.toList w1).find? (hasMid sec.mid)).isSome = true := by
        intro sec hsec
        have : (Work.toList w1).find? (hasMid sec.mid) = (Work.toList w).find? (hasMid sec.mid) := by
          rw [g1, g2, toList_append, toList_cons, toList_append, toList_cons]
          apply find_replace_other
          · exact hasMid_ne htmid (hrm sec hsec)
          · rw [hasMid_narrowTr]; exact hasMid_ne htmid (hrm sec hsec)
        rw [this]; exact hc' sec hsec
      have := ih w1 hd' hnt1 hc1
      cases hm : (matchedLoop nar w1 rest).1 with
      | none => rw [hm] at this; cases this
      | some _ => rfl

/-! ### CreateAnswer on a `Ready` window changes nothing -/

/-- When every offered section's transceiver already holds a legal direction, the narrowing of CreateAnswer is
    the identity on the whole transceiver list. -/
theorem matchedLoop_keeps (f : Dir → Dir → Dir) (hf : ∀ d l, legal d l = true → f d l = l) :
    ∀ (off : List Sec) (w : Work), Distinct off → NoTakenMid w off → Ready off (Work.toList w) →
      Work.toList (matchedLoop (some f) w off).2 = Work.toList w := by
  intro off
  induction off with
  | nil => intro w _ _ _; rfl
  | cons s rest ih =>
    intro w hd hnt hr
    obtain ⟨hd', hrm⟩ := distinct_tail hd
    have hr' : Ready rest (Work.toList w) := fun sec hsec => hr sec (List.mem_cons_of_mem _ hsec)
    unfold matchedLoop
    cases hp : pluck (hasMid s.mid) (narrowTr (some f) (effDir s.dir)) w with
    | none => rfl
    | some r =>
      obtain ⟨t, w1⟩ := r
      simp only
      obtain ⟨pre, post, g1, g2, g3, g4⟩ := pluck_some hp
      have htmid : t.mid = some s.mid := by simpa [hasMid] using g3
      have hpre := pre_no_mid (w := w) (fun x hx => by rw [g1]; exact List.mem_append_left _ hx) rfl g4 hnt
      have hfirst : (Work.toList w).find? (hasMid s.mid) = some t := by
        rw [g1, toList_append, toList_cons]; exact find_replace_hit _ _ _ hpre g3
      obtain ⟨t', e1, _, e3⟩ := hr s (by simp)
      rw [hfirst] at e1; cases e1
      have hid : narrowTr (some f) (effDir s.dir) t = t := by
        simp only [narrowTr, hf _ t.dir e3]
      have htl : Work.toList w1 = Work.toList w := by
        rw [g1, g2, hid]; simp [toList_append, toList_cons]
      have hnt1 : NoTakenMid w1 rest := by
        rw [g2]; exact noTaken_after_pluck g1 hnt (by rw [narrowTr_mid]; exact htmid) hrm
      rw [ih w1 hd' hnt1 (by rw [htl]; exact hr'), htl]

/-! ### carriers: the weaker window invariant that survives a direct SetSender -/

/-- every offered section has a transceiver carrying its mid -/
def Carrier (off : List Sec) (ts : List Tr) : Prop :=
  ∀ sec ∈ off, (ts.find? (hasMid sec.mid)).isSome = true

theorem Ready.carrier {off : List Sec} {ts : List Tr} (h : Ready off ts) : Carrier off ts := by
  intro sec hsec
  obtain ⟨t, ht, _⟩ := h sec hsec; rw [ht]; rfl

theorem find_isSome_iff_mem {m : Nat} {ts : List Tr} :
    (ts.find? (hasMid m)).isSome = true ↔ some m ∈ ts.map (·.mid) := by
  rw [List.find?_isSome, List.mem_map]
  constructor
  · rintro ⟨x, hx, hp⟩; exact ⟨x, hx, by simpa [hasMid] using hp⟩
  · rintro ⟨x, hx, hp⟩; exact ⟨x, hx, by simpa [hasMid] using hp⟩

theorem Carrier.mono {off : List Sec} {ts ts' : List Tr}
    (h : ∀ x, x ∈ ts.map (·.mid) → x ∈ ts'.map (·.mid)) (hc : Carrier off ts) : Carrier off ts' :=
  fun sec hsec => find_isSome_iff_mem.mpr (h _ (find_isSome_iff_mem.mp (hc sec hsec)))

theorem mids_modifyAt (f : Tr → Tr) : ∀ (ts : List Tr) (i : Nat),
    (∀ t, ts[i]? = some t → (f t).mid = t.mid) → (modifyAt f ts i).map (·.mid) = ts.map (·.mid)
  | [], _, _ => rfl
  | t :: rest, 0, h => by simp [modifyAt, h t (by simp)]
  | t :: rest, i + 1, h => by
    simp [modifyAt, mids_modifyAt f rest i (fun u hu => h u (by simpa using hu))]

theorem detachTrack_mid (t : Tr) : t.detachTrack.1.mid = t.mid := by
  unfold Tr.detachTrack; cases t.dir <;> rfl

theorem mids_addTrackTo (k : Kind) : ∀ (ts : List Tr),
    ∃ extra, (addTrackTo k ts).map (·.mid) = ts.map (·.mid) ++ extra
  | [] => ⟨[none], by simp [addTrackTo]⟩
  | t :: rest => by
    unfold addTrackTo
    by_cases h : t.isSendAllowed k = true
    · rw [if_pos h]; exact ⟨[], by simp [Tr.attachTrack]⟩
    · rw [if_neg h]
      obtain ⟨extra, he⟩ := mids_addTrackTo k rest
      exact ⟨extra, by simp [he]⟩

/-! ### setRTPTransceiverCurrentDirection -/

theorem setCur_mid (b : Bool) (d : Option Dir) (t : Tr) : (setCur b d t).mid = t.mid := by
  cases d <;> rfl

theorem hasMid_setCur (m : Nat) (b : Bool) (d : Option Dir) (t : Tr) : hasMid m (setCur b d t) = hasMid m t := by
  simp [hasMid, setCur_mid]

/-- the loop invariant: sections done have their (initial) first carrier updated; carriers of the sections
    still to come are untouched; taken transceivers carry no mid still to come -/
private def CurInv (b : Bool) (ts : List Tr) (done rest : List Sec) (w : Work) : Prop :=
  (∀ sec ∈ done, ∃ t0, ts.find? (hasMid sec.mid) = some t0 ∧
      (Work.toList w).find? (hasMid sec.mid) = some (setCur b sec.dir t0)) ∧
  (∀ sec ∈ rest, (Work.toList w).find? (hasMid sec.mid) = ts.find? (hasMid sec.mid)) ∧
  NoTakenMid w rest

private theorem curDirLoop_inv (b : Bool) (ts : List Tr) :
    ∀ (rest done : List Sec) (w : Work), Distinct (done ++ rest) →
      (∀ sec ∈ rest, (ts.find? (hasMid sec.mid)).isSome = true) →
      CurInv b ts done rest w → CurInv b ts (done ++ rest) [] (curDirLoop b w rest) := by
  intro rest
  induction rest with
  | nil => intro done w _ _ h; simpa [curDirLoop] using h
  | cons s rest ih =>
    intro done w hd hc ⟨h1, h2, h3⟩
    have hdm : ∀ sec ∈ done, sec.mid ≠ s.mid := by
      intro sec hsec e
      unfold Distinct at hd
      rw [List.map_append, List.map_cons] at hd
      exact (List.nodup_append.mp hd).2.2 sec.mid (List.mem_map_of_mem hsec) s.mid (by simp) e
    have hrm : ∀ sec ∈ rest, sec.mid ≠ s.mid := by
      intro sec hsec e
      unfold Distinct at hd
      rw [List.map_append, List.map_cons] at hd
      have g := (List.nodup_append.mp hd).2.1
      rw [List.nodup_cons] at g
      exact g.1 (e ▸ List.mem_map_of_mem hsec)
    unfold curDirLoop
    cases hp : pluck (hasMid s.mid) (setCur b s.dir) w with
    | none =>
      exfalso
      have hno : ∀ t ∈ Work.toList w, hasMid s.mid t = false :=
        pre_no_mid (w := w) (fun x hx => hx) rfl (pluck_none hp) h3
      have := hc s (by simp)
      rw [← h2 s (by simp), find_none_of_forall hno] at this
      cases this
    | some r =>
      obtain ⟨t, w1⟩ := r
      simp only
      obtain ⟨pre, post, g1, g2, g3, g4⟩ := pluck_some hp
      have hpre := pre_no_mid (w := w) (fun x hx => by rw [g1]; exact List.mem_append_left _ hx) rfl g4 h3
      have htmid : t.mid = some s.mid := by simpa [hasMid] using g3
      have hfirst : (Work.toList w).find? (hasMid s.mid) = some t := by
        rw [g1, toList_append, toList_cons]; exact find_replace_hit _ _ _ hpre g3
      have hother : ∀ m, m ≠ s.mid →
          (Work.toList w1).find? (hasMid m) = (Work.toList w).find? (hasMid m) := by
        intro m hm
        rw [g1, g2, toList_append, toList_cons, toList_append, toList_cons]
        apply find_replace_other
        · exact hasMid_ne htmid hm
        · rw [hasMid_setCur]; exact hasMid_ne htmid hm
      have := ih (done ++ [s]) w1 (by simpa using hd) (fun sec hsec => hc sec (List.mem_cons_of_mem _ hsec)) ?_
      · simpa using this
      · refine ⟨?_, ?_, ?_⟩
        · intro sec hsec
          rcases List.mem_append.mp hsec with h | h
          · obtain ⟨t0, a1, a2⟩ := h1 sec h
            exact ⟨t0, a1, by rw [hother _ (hdm sec h)]; exact a2⟩
          · simp only [List.mem_singleton] at h; subst h
            refine ⟨t, by rw [← h2 sec (by simp)]; exact hfirst, ?_⟩
            rw [g2, toList_append, toList_cons]
            exact find_replace_hit _ _ _ hpre (by rw [hasMid_setCur]; exact g3)
        · intro sec hsec
          rw [hother _ (hrm sec hsec)]
          exact h2 sec (List.mem_cons_of_mem _ hsec)
        · intro x hx hav sec hsec
          rw [g2] at hx
          rcases List.mem_append.mp hx with hx | hx
          · exact h3 x (by rw [g1]; exact List.mem_append_left _ hx) hav sec (List.mem_cons_of_mem _ hsec)
          · rcases List.mem_cons.mp hx with hx | hx
            · subst hx; rw [hasMid_setCur]; exact hasMid_ne htmid (hrm sec hsec)
            · exact h3 x (by rw [g1]; exact List.mem_append_right _ (List.mem_cons_of_mem _ hx)) hav sec
                (List.mem_cons_of_mem _ hsec)

/-- `setRTPTransceiverCurrentDirection` over sections with distinct mids that all have a carrier: the first
    carrier of each mid gets `setCur`. -/
theorem curDirLoop_spec (b : Bool) (ts : List Tr) (secs : List Sec) (hd : Distinct secs)
    (hc : ∀ sec ∈ secs, (ts.find? (hasMid sec.mid)).isSome = true) :
    ∀ sec ∈ secs, ∃ t0, ts.find? (hasMid sec.mid) = some t0 ∧
      (Work.toList (curDirLoop b (Work.ofList ts) secs)).find? (hasMid sec.mid) = some (setCur b sec.dir t0) := by
  have := curDirLoop_inv b ts secs [] (Work.ofList ts) (by simpa using hd) hc
    ⟨by simp, by intro sec _; rw [toList_ofList], noTakenMid_ofList ts secs⟩
  simpa using this.1

theorem curDirOf_answer_legal (o d : Dir) (hs : Bool) (h : legal o d = true) :
    legal o (curDirOf false d hs) = true := by
  cases o <;> cases d <;> cases hs <;> first | rfl | exact h


/-! ### local operations inside the answer window -/

/-- an in-place update that keeps mid and currentRemoteDirection and keeps the direction a legal answer -/
def Safe (t t' : Tr) : Prop :=
  t'.mid = t.mid ∧ t'.curRemote = t.curRemote ∧
    ∀ d, t.curRemote = some d → legal d t.dir = true → legal d t'.dir = true

theorem Safe.refl (t : Tr) : Safe t t := ⟨rfl, rfl, fun _ _ h => h⟩

/-- pointwise `Safe` (core Lean has no `List.Forall₂`) -/
inductive AllSafe : List Tr → List Tr → Prop
  | nil : AllSafe [] []
  | cons {a b : Tr} {l1 l2 : List Tr} : Safe a b → AllSafe l1 l2 → AllSafe (a :: l1) (b :: l2)

/-- `ts'` = `ts` with safe in-place updates, followed by new transceivers that have no mid yet -/
def Ext (ts ts' : List Tr) : Prop :=
  ∃ ts1 extra, ts' = ts1 ++ extra ∧ AllSafe ts ts1 ∧ ∀ x ∈ extra, x.mid = none

theorem forall2_safe_refl (ts : List Tr) : AllSafe ts ts := by
  induction ts with
  | nil => exact .nil
  | cons t ts ih => exact .cons (Safe.refl t) ih

theorem find_forall2 {m : Nat} {ts ts1 : List Tr} (h : AllSafe ts ts1) {t : Tr}
    (hf : ts.find? (hasMid m) = some t) : ∃ t', ts1.find? (hasMid m) = some t' ∧ Safe t t' := by
  induction h with
  | nil => simp at hf
  | @cons a b l1 l2 hs _ ih =>
    have hm : hasMid m b = hasMid m a := by simp [hasMid, hs.1]
    rw [List.find?_cons] at hf ⊢
    rw [hm]
    cases hc : hasMid m a with
    | true => rw [hc] at hf; simp only [Option.some.injEq] at hf; subst hf; exact ⟨b, rfl, hs⟩
    | false => rw [hc] at hf; exact ih hf

theorem Ext.ready {off : List Sec} {ts ts' : List Tr} (h : Ext ts ts') (hr : Ready off ts) : Ready off ts' := by
  obtain ⟨ts1, extra, rfl, hf, _⟩ := h
  intro sec hsec
  obtain ⟨t, h1, h2, h3⟩ := hr sec hsec
  obtain ⟨t', g1, g2⟩ := find_forall2 hf h1
  refine ⟨t', ?_, by rw [g2.2.1, h2], g2.2.2 _ h2 h3⟩
  rw [List.find?_append, g1]; rfl

theorem Ext.append (ts : List Tr) (x : Tr) (hx : x.mid = none) : Ext ts (ts ++ [x]) :=
  ⟨ts, [x], rfl, forall2_safe_refl ts, by simp [hx]⟩

theorem attachTrack_safe {t : Tr} {k : Kind} (h : t.isSendAllowed k = true) : Safe t t.attachTrack := by
  refine ⟨rfl, rfl, ?_⟩
  intro d hd hl
  simp only [Tr.isSendAllowed, Bool.and_eq_true, Bool.not_eq_true', Bool.or_eq_false_iff] at h
  have h4 := h.2
  rw [hd] at h4
  cases d with
  | sendrecv => rfl
  | sendonly => simp at h4
  | inactive => simp at h4
  | recvonly =>
    unfold Tr.attachTrack
    cases hdir : t.dir <;> simp_all [legal]

theorem addTrackTo_ext (k : Kind) (ts : List Tr) : Ext ts (addTrackTo k ts) := by
  induction ts with
  | nil => exact ⟨[], _, rfl, .nil, by simp⟩
  | cons t rest ih =>
    unfold addTrackTo
    by_cases h : t.isSendAllowed k = true
    · rw [if_pos h]
      exact ⟨t.attachTrack :: rest, [], by simp, .cons (attachTrack_safe h) (forall2_safe_refl rest), by simp⟩
    · rw [if_neg h]
      obtain ⟨ts1, extra, h1, h2, h3⟩ := ih
      exact ⟨t :: ts1, extra, by simp [h1], .cons (Safe.refl t) h2, h3⟩

theorem detachTrack_safe (t : Tr) : Safe t t.detachTrack.1 := by
  unfold Tr.detachTrack
  cases hdir : t.dir
  · refine ⟨rfl, rfl, ?_⟩
    intro d _ hl; rw [hdir] at hl
    cases d <;> simp_all [legal]
  · refine ⟨rfl, rfl, ?_⟩
    intro d _ _; exact legal_inactive d
  · exact ⟨rfl, rfl, fun _ _ h => by simpa [hdir] using h⟩
  · exact ⟨rfl, rfl, fun _ _ h => by simpa [hdir] using h⟩

theorem stop_safe (t : Tr) : Safe t t.stop :=
  ⟨rfl, rfl, fun d _ _ => legal_inactive d⟩

theorem modifyAt_forall2 (f : Tr → Tr) : ∀ (ts : List Tr) (i : Nat),
    (∀ t, ts[i]? = some t → Safe t (f t)) → AllSafe ts (modifyAt f ts i)
  | [], _, _ => .nil
  | t :: rest, 0, h => .cons (h t (by simp)) (forall2_safe_refl rest)
  | t :: rest, i + 1, h => .cons (Safe.refl t) (modifyAt_forall2 f rest i (fun u hu => h u (by simpa using hu)))

theorem modifyAt_ext (f : Tr → Tr) (ts : List Tr) (i : Nat) (h : ∀ t, ts[i]? = some t → Safe t (f t)) :
    Ext ts (modifyAt f ts i) :=
  ⟨modifyAt f ts i, [], by simp, modifyAt_forall2 f ts i h, by simp⟩

theorem Ext.refl (ts : List Tr) : Ext ts ts := ⟨ts, [], by simp, forall2_safe_refl ts, by simp⟩

end WebrtcVerif.Directions
