import WebrtcVerif.Proofs.OggLemmas
/-!
  One logical stream as a list of pages: the pages of the audio packets (`dataPages`), the whole body
  (`bodyPages`: OpusHead, OpusTags, audio) and its two endings (appended nil EOS page / last page marked), with
  the specification predicates of `OggSpec` proved for them.
-/
namespace WebrtcVerif.Ogg
open WebrtcVerif.Bytes WebrtcVerif.OggSpec

/-- an accepted audio packet with its sample count -/
abbrev Pkt := Bs × Nat

/-- page index and granule position of a track between two packets -/
structure Cur where
  idx : Nat
  g : Nat
  deriving DecidableEq, Repr

def Cur.step (serial : Nat) (c : Cur) (p : Pkt) : Cur :=
  { idx := (c.idx + (createPages p.1 0 ((c.g + p.2) % two64) serial c.idx).length) % two32
    g := (c.g + p.2) % two64 }

def Cur.run (serial : Nat) (c : Cur) (pkts : List Pkt) : Cur := pkts.foldl (Cur.step serial) c

def dataPages (serial : Nat) : Cur → List Pkt → List Page
  | _, [] => []
  | c, p :: ps => createPages p.1 0 ((c.g + p.2) % two64) serial c.idx ++ dataPages serial (c.step serial p) ps

def samplesSum (pkts : List Pkt) : Nat := (pkts.map (·.2)).sum

theorem dataPages_append (serial : Nat) (c : Cur) (a b' : List Pkt) :
    dataPages serial c (a ++ b') = dataPages serial c a ++ dataPages serial (c.run serial a) b' := by
  induction a generalizing c with
  | nil => simp [dataPages, Cur.run]
  | cons p ps ih => simp [dataPages, Cur.run, ih, List.append_assoc]

theorem Cur.run_g (serial : Nat) (c : Cur) (pkts : List Pkt) (hg : c.g < two64) :
    (c.run serial pkts).g = (c.g + samplesSum pkts) % two64 := by
  induction pkts generalizing c with
  | nil => simp [Cur.run, samplesSum, Nat.mod_eq_of_lt hg]
  | cons p ps ih =>
    have := ih (c.step serial p) (Nat.mod_lt _ (by decide))
    simp only [Cur.run, List.foldl_cons, samplesSum, List.map_cons, List.sum_cons] at this ⊢
    rw [this]
    simp only [Cur.step, two64]
    omega

theorem Cur.step_idx_lt (serial : Nat) (c : Cur) (p : Pkt) : (c.step serial p).idx < two32 :=
  Nat.mod_lt _ (by decide)

theorem two64_pos : 0 < two64 := by decide

theorem dataPages_all (serial : Nat) (hs : serial < two32) (c : Cur) (pkts : List Pkt) (hi : c.idx < two32) :
    ∀ p ∈ dataPages serial c pkts, p.wf ∧ p.serial = serial ∧ isEOS p = false ∧ isBOS p = false := by
  induction pkts generalizing c with
  | nil => simp [dataPages]
  | cons q qs ih =>
    intro p hp
    simp only [dataPages, List.mem_append] at hp
    rcases hp with hp | hp
    · obtain ⟨a1, a2, a3⟩ := createPages_all q.1 0 _ serial c.idx (Or.inl rfl) (Nat.mod_lt _ two64_pos) hs hi p hp
      refine ⟨a1, a2, a3, ?_⟩
      obtain ⟨p0, rest, he, hb0, hbr⟩ := createPages_bos q.1 0 ((c.g + q.2) % two64) serial c.idx (Or.inl rfl)
      rw [he] at hp
      rcases List.mem_cons.mp hp with rfl | h
      · rw [hb0]; rfl
      · exact hbr p h
    · exact ih _ (Cur.step_idx_lt _ _ _) p hp

theorem dataPages_seq (serial : Nat) (c : Cur) (pkts : List Pkt) :
    ∀ k R, c.idx = k % two32 →
      seqFrom k (dataPages serial c pkts ++ R) = seqFrom (k + (dataPages serial c pkts).length) R ∧
      (c.run serial pkts).idx = (k + (dataPages serial c pkts).length) % two32 := by
  induction pkts generalizing c with
  | nil => intro k R hk; simp [dataPages, Cur.run, hk]
  | cons q qs ih =>
    intro k R hk
    obtain ⟨f1, _⟩ := createPages_facts q.1 0 ((c.g + q.2) % two64) serial c.idx (Or.inl rfl)
    have hk' : (c.step serial q).idx = (k + (createPages q.1 0 ((c.g + q.2) % two64) serial c.idx).length) % two32 := by
      simp only [Cur.step, hk, two32]; omega
    obtain ⟨i1, i2⟩ := ih (c.step serial q) _ R hk'
    simp only [dataPages, List.append_assoc, Cur.run, List.foldl_cons, List.length_append]
    rw [f1 k _ hk, i1]
    refine ⟨by rw [Nat.add_assoc], ?_⟩
    simp only [Cur.run] at i2
    rw [i2, Nat.add_assoc]

theorem dataPages_cont (serial : Nat) (c : Cur) (pkts : List Pkt) :
    ∀ R, contFrom false (dataPages serial c pkts ++ R) = contFrom false R := by
  induction pkts generalizing c with
  | nil => intro R; simp [dataPages]
  | cons q qs ih =>
    intro R
    obtain ⟨_, f2, _⟩ := createPages_facts q.1 0 ((c.g + q.2) % two64) serial c.idx (Or.inl rfl)
    simp only [dataPages, List.append_assoc]
    rw [f2, ih]

/-- `cum j` must be the sample count after `j` packets of the stream, modulo 2^64 -/
theorem dataPages_gran (cum : Nat → Nat) (serial : Nat) (c : Cur) (pkts : List Pkt) (hg : c.g < two64) :
    ∀ k R, (∀ j, j ≤ pkts.length → cum (k + j) % two64 = (c.g + samplesSum (pkts.take j)) % two64) →
      granulesFrom cum k (dataPages serial c pkts ++ R) = granulesFrom cum (k + pkts.length) R := by
  induction pkts generalizing c with
  | nil => intro k R _; simp [dataPages]
  | cons q qs ih =>
    intro k R hcum
    obtain ⟨_, _, f3, _⟩ := createPages_facts q.1 0 ((c.g + q.2) % two64) serial c.idx (Or.inl rfl)
    simp only [dataPages, List.append_assoc]
    rw [f3, ih (c.step serial q) (Nat.mod_lt _ two64_pos) (k + 1) R]
    · have h1 := hcum 1 (by simp)
      simp only [samplesSum, List.take_succ_cons, List.take_zero, List.map_cons, List.map_nil, List.sum_cons,
        List.sum_nil, Nat.add_zero] at h1
      simp only [two64] at h1
      simp only [List.length_cons, two64, h1, beq_self_eq_true, Bool.true_and]
      congr 1; omega
    · intro j hj
      have h2 := hcum (j + 1) (by simp; omega)
      simp only [samplesSum, List.take_succ_cons, List.map_cons, List.sum_cons] at h2
      rw [show k + 1 + j = k + (j + 1) by omega, h2]
      simp only [Cur.step, samplesSum, two64]
      omega

theorem dataPages_mono (serial : Nat) (c : Cur) (pkts : List Pkt) (hno : c.g + samplesSum pkts < two64 - 1) :
    ∀ R, granuleMonotoneFrom c.g (dataPages serial c pkts ++ R) = granuleMonotoneFrom (c.g + samplesSum pkts) R := by
  induction pkts generalizing c with
  | nil => intro R; simp [dataPages, samplesSum]
  | cons q qs ih =>
    intro R
    have hsum : samplesSum (q :: qs) = q.2 + samplesSum qs := by simp [samplesSum]
    have hlt : c.g + q.2 < two64 := by rw [hsum] at hno; omega
    have hg' : (c.g + q.2) % two64 = c.g + q.2 := Nat.mod_eq_of_lt hlt
    obtain ⟨_, _, _, f4, _⟩ := createPages_facts q.1 0 ((c.g + q.2) % two64) serial c.idx (Or.inl rfl)
    simp only [dataPages, List.append_assoc]
    rw [f4 (by rw [hg']; simp only [noGranule, two64] at hno ⊢; rw [hsum] at hno; omega)]
    have hstepg : (c.step serial q).g = c.g + q.2 := by simp only [Cur.step, hg']
    have := ih (c.step serial q) (by rw [hstepg]; rw [hsum] at hno; omega) R
    rw [hstepg] at this
    rw [hg', this, hsum]
    simp [Nat.add_assoc]

theorem dataPages_packets (serial : Nat) (c : Cur) (pkts : List Pkt) :
    (dataPages serial c pkts).flatMap (·.payload) = (pkts.map (·.1)).flatten ∧
    ∀ rest, packetLens 0 ((dataPages serial c pkts).flatMap (·.segs) ++ rest) =
      pkts.map (·.1.length) ++ packetLens 0 rest := by
  induction pkts generalizing c with
  | nil => simp [dataPages]
  | cons q qs ih =>
    obtain ⟨_, _, _, _, f5, f6⟩ := createPages_facts q.1 0 ((c.g + q.2) % two64) serial c.idx (Or.inl rfl)
    obtain ⟨i1, i2⟩ := ih (c.step serial q)
    refine ⟨by simp [dataPages, f5, i1], ?_⟩
    intro rest
    simp only [dataPages, List.flatMap_append, List.append_assoc, List.map_cons, List.cons_append]
    rw [f6, i2]; simp


/-! ### marking the last page -/

def markEos (p : Page) : Page := { p with headerType := p.headerType ||| pageHeaderTypeEndOfStream }

def markLast : List Page → List Page
  | [] => []
  | [p] => [markEos p]
  | p :: q :: rest => p :: markLast (q :: rest)

theorem u8_bits (h : UInt8) : (h ||| 4) &&& 1 = h &&& 1 ∧ (h ||| 4) &&& 2 = h &&& 2 ∧ (h ||| 4) &&& 4 = 4 := by
  have e4 : (4 : UInt8).toBitVec = BitVec.twoPow 8 2 := by decide
  have e2 : (2 : UInt8).toBitVec = BitVec.twoPow 8 1 := by decide
  have e1 : (1 : UInt8).toBitVec = BitVec.twoPow 8 0 := by decide
  refine ⟨?_, ?_, ?_⟩ <;> apply UInt8.toBitVec_inj.mp <;>
    simp only [UInt8.toBitVec_and, UInt8.toBitVec_or, e4, e2, e1] <;>
    apply BitVec.eq_of_getLsbD_eq <;> intro i hi <;>
    simp only [BitVec.getLsbD_and, BitVec.getLsbD_or, BitVec.getLsbD_twoPow] <;>
    (by_cases h0 : 0 = i <;> by_cases h1 : 1 = i <;> by_cases h2 : 2 = i <;> simp_all <;> omega)

theorem markEos_flags (p : Page) :
    isEOS (markEos p) = true ∧ isBOS (markEos p) = isBOS p ∧ OggSpec.isCont (markEos p) = OggSpec.isCont p := by
  obtain ⟨h1, h2, h4⟩ := u8_bits p.headerType
  simp only [isEOS, isBOS, OggSpec.isCont, markEos, pageHeaderTypeEndOfStream, h1, h2, h4]
  simp


theorem markLast_seq (S : List Page) : ∀ k, seqFrom k (markLast S) = seqFrom k S := by
  induction S with
  | nil => intro k; rfl
  | cons p rest ih =>
    intro k
    cases rest with
    | nil => simp [markLast, seqFrom, markEos]
    | cons q r => simp only [markLast, seqFrom, ih]

theorem markLast_cont (S : List Page) : ∀ o, contFrom o (markLast S) = contFrom o S := by
  induction S with
  | nil => intro o; rfl
  | cons p rest ih =>
    intro o
    cases rest with
    | nil => simp [markLast, contFrom, (markEos_flags p).2.2]
    | cons q r => simp only [markLast, contFrom, ih]

theorem markLast_gran (cum : Nat → Nat) (S : List Page) :
    ∀ k, granulesFrom cum k (markLast S) = granulesFrom cum k S := by
  induction S with
  | nil => intro k; rfl
  | cons p rest ih =>
    intro k
    cases rest with
    | nil => simp [markLast, granulesFrom, markEos, completions]
    | cons q r => simp only [markLast, granulesFrom, ih]

theorem markLast_mono (S : List Page) : ∀ g, granuleMonotoneFrom g (markLast S) = granuleMonotoneFrom g S := by
  induction S with
  | nil => intro g; rfl
  | cons p rest ih =>
    intro g
    cases rest with
    | nil => simp [markLast, granuleMonotoneFrom, markEos]
    | cons q r => simp only [markLast, granuleMonotoneFrom, ih]

theorem markLast_segs (S : List Page) : (markLast S).flatMap (·.segs) = S.flatMap (·.segs) ∧
    (markLast S).flatMap (·.payload) = S.flatMap (·.payload) := by
  induction S with
  | nil => exact ⟨rfl, rfl⟩
  | cons p rest ih =>
    cases rest with
    | nil => simp [markLast, markEos]
    | cons q r => simp only [markLast, List.flatMap_cons, ih.1, ih.2, and_self]

theorem markLast_packets (S : List Page) : packetsOf (markLast S) = packetsOf S := by
  unfold packetsOf; rw [(markLast_segs S).1, (markLast_segs S).2]

theorem markLast_bos (S : List Page) : bosOk (markLast S) = bosOk S := by
  have hall : ∀ S : List Page, (markLast S).all (fun q => !isBOS q) = S.all (fun q => !isBOS q) := by
    intro S
    induction S with
    | nil => rfl
    | cons p rest ih =>
      cases rest with
      | nil => simp [markLast, (markEos_flags p).2.1]
      | cons q r => simp only [markLast, List.all_cons, ih]
  cases S with
  | nil => rfl
  | cons p rest =>
    cases rest with
    | nil => simp [markLast, bosOk, (markEos_flags p).2.1]
    | cons q r => simp only [markLast, bosOk, hall]

theorem markLast_eos (S : List Page) (hne : S ≠ []) (h : ∀ p ∈ S, isEOS p = false) : eosOk (markLast S) = true := by
  induction S with
  | nil => exact absurd rfl hne
  | cons p rest ih =>
    cases rest with
    | nil => simp [markLast, eosOk, (markEos_flags p).1]
    | cons q r =>
      simp only [markLast]
      have hp := h p (by simp)
      have := ih (by simp) (fun x hx => h x (by simp [hx]))
      cases hm : markLast (q :: r) with
      | nil => cases r <;> simp [markLast] at hm
      | cons a l => rw [hm] at this; simp [eosOk, hp, this]

theorem markLast_mem (S : List Page) (P : Page → Prop) (hP : ∀ p, P p → P (markEos p)) (h : ∀ p ∈ S, P p) :
    ∀ p ∈ markLast S, P p := by
  induction S with
  | nil => simp [markLast]
  | cons a rest ih =>
    cases rest with
    | nil => intro p hp; simp [markLast] at hp; subst hp; exact hP a (h a (by simp))
    | cons q r =>
      intro p hp
      simp only [markLast, List.mem_cons] at hp
      rcases hp with rfl | hp
      · exact h _ (by simp)
      · exact ih (fun x hx => h x (by simp [hx])) p (by simpa [List.mem_cons] using hp)

theorem eosOk_append (S : List Page) (e : Page) (h : ∀ p ∈ S, isEOS p = false) (he : isEOS e = true) :
    eosOk (S ++ [e]) = true := by
  induction S with
  | nil => simp [eosOk, he]
  | cons p rest ih =>
    have hp := h p (by simp)
    have := ih (fun x hx => h x (by simp [hx]))
    cases hr : rest ++ [e] with
    | nil => simp at hr
    | cons a l => rw [hr] at this; simp [hr, eosOk, hp, this]


/-! ### a whole logical stream -/

def headPages (serial : Nat) (head : Bs) : List Page := createPages head pageHeaderTypeBeginningOfStream 0 serial 0

def tagsPages (serial : Nat) (head tags : Bs) : List Page :=
  createPages tags 0 0 serial ((headPages serial head).length % two32)

/-- page index / granule after the two header packets -/
def startCur (serial : Nat) (head tags : Bs) : Cur :=
  { idx := ((headPages serial head).length % two32 + (tagsPages serial head tags).length) % two32, g := 0 }

def bodyPages (serial : Nat) (head tags : Bs) (pkts : List Pkt) : List Page :=
  headPages serial head ++ tagsPages serial head tags ++ dataPages serial (startCur serial head tags) pkts

def endCur (serial : Nat) (head tags : Bs) (pkts : List Pkt) : Cur := (startCur serial head tags).run serial pkts

/-- the nil end-of-stream page -/
def eosPage (serial : Nat) (c : Cur) : Page :=
  { headerType := pageHeaderTypeEndOfStream, granule := c.g, serial := serial, index := c.idx, segs := [], payload := [] }

/-- the finished stream: last page marked (rewritable output) or a nil EOS page appended -/
def finalStream (seekable : Bool) (serial : Nat) (head tags : Bs) (pkts : List Pkt) : List Page :=
  if seekable then markLast (bodyPages serial head tags pkts)
  else bodyPages serial head tags pkts ++ [eosPage serial (endCur serial head tags pkts)]

theorem splitBy_cons_append (x : Bs) (ns : List Nat) (rest : Bs) :
    splitBy (x.length :: ns) (x ++ rest) = x :: splitBy ns rest := by
  simp [splitBy]

theorem splitBy_lengths (xs : List Bs) (ns : List Nat) (rest : Bs) :
    splitBy (xs.map List.length ++ ns) (xs.flatten ++ rest) = xs ++ splitBy ns rest := by
  induction xs with
  | nil => simp
  | cons x xs ih =>
    simp only [List.map_cons, List.cons_append, List.flatten_cons, List.append_assoc]
    rw [splitBy_cons_append, ih]

/-- sample count after `k` packets of the stream (the two header packets count nothing) -/
def cumOf (pkts : List Pkt) (k : Nat) : Nat := samplesSum (pkts.take (k - 2))

theorem bodyPages_eq (serial : Nat) (head tags : Bs) (pkts : List Pkt) :
    bodyPages serial head tags pkts =
      headPages serial head ++ (tagsPages serial head tags ++ dataPages serial (startCur serial head tags) pkts) := by
  simp [bodyPages, List.append_assoc]

theorem startCur_idx (serial : Nat) (head tags : Bs) :
    (startCur serial head tags).idx = ((headPages serial head).length + (tagsPages serial head tags).length) % two32 := by
  simp only [startCur, two32]; omega

theorem bodyPages_length (serial : Nat) (head tags : Bs) (pkts : List Pkt) :
    (bodyPages serial head tags pkts).length = (headPages serial head).length + (tagsPages serial head tags).length +
      (dataPages serial (startCur serial head tags) pkts).length := by
  simp [bodyPages_eq, List.length_append]; omega

theorem body_seq (serial : Nat) (head tags : Bs) (pkts : List Pkt) (R : List Page) :
    seqFrom 0 (bodyPages serial head tags pkts ++ R) = seqFrom (bodyPages serial head tags pkts).length R := by
  obtain ⟨h1, _⟩ := createPages_facts head 2 0 serial 0 (Or.inr rfl)
  obtain ⟨t1, _⟩ := createPages_facts tags 0 0 serial ((headPages serial head).length % two32) (Or.inl rfl)
  rw [bodyPages_length, bodyPages_eq, List.append_assoc]
  show seqFrom 0 (createPages head 2 0 serial 0 ++ _) = _
  rw [h1 0 _ (by simp), List.append_assoc]
  show seqFrom _ (createPages tags 0 0 serial ((headPages serial head).length % two32) ++ _) = _
  rw [t1 _ _ (by simp [headPages, pageHeaderTypeBeginningOfStream])]
  rw [Nat.zero_add]
  exact (dataPages_seq serial (startCur serial head tags) pkts _ R (startCur_idx serial head tags)).1

theorem endCur_idx (serial : Nat) (head tags : Bs) (pkts : List Pkt) :
    (endCur serial head tags pkts).idx = (bodyPages serial head tags pkts).length % two32 := by
  rw [bodyPages_length]
  exact (dataPages_seq serial (startCur serial head tags) pkts _ [] (startCur_idx serial head tags)).2

theorem endCur_g (serial : Nat) (head tags : Bs) (pkts : List Pkt) :
    (endCur serial head tags pkts).g = samplesSum pkts % two64 := by
  have := Cur.run_g serial (startCur serial head tags) pkts (by simp [startCur, two64])
  simpa [endCur, startCur] using this

theorem body_cont (serial : Nat) (head tags : Bs) (pkts : List Pkt) (R : List Page) :
    contFrom false (bodyPages serial head tags pkts ++ R) = contFrom false R := by
  obtain ⟨_, h2, _⟩ := createPages_facts head 2 0 serial 0 (Or.inr rfl)
  obtain ⟨_, t2, _⟩ := createPages_facts tags 0 0 serial ((headPages serial head).length % two32) (Or.inl rfl)
  rw [bodyPages_eq, List.append_assoc]
  show contFrom false (createPages head 2 0 serial 0 ++ _) = _
  rw [h2, List.append_assoc]
  show contFrom false (createPages tags 0 0 serial ((headPages serial head).length % two32) ++ _) = _
  rw [t2, dataPages_cont]

theorem body_gran (serial : Nat) (head tags : Bs) (pkts : List Pkt) (R : List Page) :
    granulesFrom (cumOf pkts) 0 (bodyPages serial head tags pkts ++ R) =
      granulesFrom (cumOf pkts) (2 + pkts.length) R := by
  obtain ⟨_, _, h3, _⟩ := createPages_facts head 2 0 serial 0 (Or.inr rfl)
  obtain ⟨_, _, t3, _⟩ := createPages_facts tags 0 0 serial ((headPages serial head).length % two32) (Or.inl rfl)
  have hH : createPages head 2 0 serial 0 = headPages serial head := rfl
  have hT : createPages tags 0 0 serial ((headPages serial head).length % two32) = tagsPages serial head tags := rfl
  rw [hH] at h3
  rw [hT] at t3
  rw [bodyPages_eq, List.append_assoc, h3, List.append_assoc, t3,
    dataPages_gran (cumOf pkts) serial (startCur serial head tags) pkts (by simp [startCur, two64]) 2 R]
  · simp [cumOf, samplesSum]
  · intro j _
    simp [cumOf, startCur]

theorem body_mono (serial : Nat) (head tags : Bs) (pkts : List Pkt) (hno : samplesSum pkts < two64 - 1) (R : List Page) :
    granuleMonotoneFrom 0 (bodyPages serial head tags pkts ++ R) = granuleMonotoneFrom (samplesSum pkts) R := by
  obtain ⟨_, _, _, h4, _⟩ := createPages_facts head 2 0 serial 0 (Or.inr rfl)
  obtain ⟨_, _, _, t4, _⟩ := createPages_facts tags 0 0 serial ((headPages serial head).length % two32) (Or.inl rfl)
  have hH : createPages head 2 0 serial 0 = headPages serial head := rfl
  have hT : createPages tags 0 0 serial ((headPages serial head).length % two32) = tagsPages serial head tags := rfl
  rw [hH] at h4
  rw [hT] at t4
  rw [bodyPages_eq, List.append_assoc, h4 (by decide), List.append_assoc, t4 (by decide)]
  have := dataPages_mono serial (startCur serial head tags) pkts (by simpa [startCur] using hno) R
  simp only [startCur, Nat.zero_add] at this
  simp only [startCur, this, Nat.le_refl, decide_true, Bool.true_and]

theorem body_packets (serial : Nat) (head tags : Bs) (pkts : List Pkt) (R : List Page) :
    packetsOf (bodyPages serial head tags pkts ++ R) = head :: tags :: (pkts.map (·.1) ++
      splitBy (packetLens 0 (R.flatMap (·.segs))) (R.flatMap (·.payload))) := by
  obtain ⟨_, _, _, _, h5, h6⟩ := createPages_facts head 2 0 serial 0 (Or.inr rfl)
  obtain ⟨_, _, _, _, t5, t6⟩ := createPages_facts tags 0 0 serial ((headPages serial head).length % two32) (Or.inl rfl)
  obtain ⟨p1, p2⟩ := dataPages_packets serial (startCur serial head tags) pkts
  have hH : createPages head 2 0 serial 0 = headPages serial head := rfl
  have hT : createPages tags 0 0 serial ((headPages serial head).length % two32) = tagsPages serial head tags := rfl
  rw [hH] at h5 h6
  rw [hT] at t5 t6
  unfold packetsOf
  rw [bodyPages_eq]
  simp only [List.flatMap_append, List.append_assoc]
  rw [h6, t6, p2, h5, t5, p1, Nat.zero_add, Nat.zero_add, splitBy_cons_append, splitBy_cons_append]
  have : pkts.map (fun x => x.1.length) = (pkts.map (·.1)).map List.length := by simp
  rw [this, splitBy_lengths]

theorem body_all (serial : Nat) (head tags : Bs) (pkts : List Pkt) (hs : serial < two32) :
    ∀ p ∈ bodyPages serial head tags pkts, p.wf ∧ p.serial = serial ∧ isEOS p = false := by
  intro p hp
  rw [bodyPages_eq] at hp
  simp only [List.mem_append] at hp
  rcases hp with hp | hp | hp
  · exact createPages_all head 2 0 serial 0 (Or.inr rfl) (by decide) hs (by decide) p hp
  · exact createPages_all tags 0 0 serial _ (Or.inl rfl) (by decide) hs (Nat.mod_lt _ (by decide)) p hp
  · obtain ⟨a1, a2, a3, _⟩ := dataPages_all serial hs (startCur serial head tags) pkts (Nat.mod_lt _ (by decide)) p hp
    exact ⟨a1, a2, a3⟩

theorem body_bos (serial : Nat) (head tags : Bs) (pkts : List Pkt) (hs : serial < two32) :
    ∃ p0 rest, bodyPages serial head tags pkts = p0 :: rest ∧ isBOS p0 = true ∧ ∀ p ∈ rest, isBOS p = false := by
  obtain ⟨p0, rest, he, hb0, hbr⟩ := createPages_bos head 2 0 serial 0 (Or.inr rfl)
  obtain ⟨q0, qrest, hqe, hq0, hqr⟩ :=
    createPages_bos tags 0 0 serial ((headPages serial head).length % two32) (Or.inl rfl)
  refine ⟨p0, rest ++ (tagsPages serial head tags ++ dataPages serial (startCur serial head tags) pkts), ?_, by simpa using hb0, ?_⟩
  · rw [bodyPages_eq]; show createPages head 2 0 serial 0 ++ _ = _; rw [he]; rfl
  · intro p hp
    simp only [List.mem_append] at hp
    rcases hp with hp | hp | hp
    · exact hbr p hp
    · have : tagsPages serial head tags = q0 :: qrest := hqe
      rw [this] at hp
      rcases List.mem_cons.mp hp with rfl | h
      · rw [hq0]; rfl
      · exact hqr p h
    · exact (dataPages_all serial hs (startCur serial head tags) pkts (Nat.mod_lt _ (by decide)) p hp).2.2.2


theorem eosPage_flags (serial : Nat) (c : Cur) :
    isEOS (eosPage serial c) = true ∧ isBOS (eosPage serial c) = false ∧ OggSpec.isCont (eosPage serial c) = false :=
  ⟨by show ((4 : UInt8) &&& 4 != 0) = true; decide, by show ((4 : UInt8) &&& 2 != 0) = false; decide,
    by show ((4 : UInt8) &&& 1 != 0) = false; decide⟩

theorem markEos_wf (p : Page) (h : p.wf) : (markEos p).wf := h

/-- The finished stream satisfies every clause of the specification. -/
theorem finalStream_ok (seekable : Bool) (serial : Nat) (head tags : Bs) (pkts : List Pkt) (hs : serial < two32)
    (hpages : (bodyPages serial head tags pkts).length < two32) (hno : samplesSum pkts < two64 - 1) :
    bosOk (finalStream seekable serial head tags pkts) = true ∧
    eosOk (finalStream seekable serial head tags pkts) = true ∧
    seqFrom 0 (finalStream seekable serial head tags pkts) = true ∧
    contFrom false (finalStream seekable serial head tags pkts) = true ∧
    packetsOf (finalStream seekable serial head tags pkts) = head :: tags :: pkts.map (·.1) ∧
    granulesFrom (cumOf pkts) 0 (finalStream seekable serial head tags pkts) = true ∧
    granuleMonotoneFrom 0 (finalStream seekable serial head tags pkts) = true ∧
    ∀ p ∈ finalStream seekable serial head tags pkts, p.wf ∧ p.serial = serial := by
  obtain ⟨p0, rest, hB, hb0, hbr⟩ := body_bos serial head tags pkts hs
  have hall := body_all serial head tags pkts hs
  have hne : bodyPages serial head tags pkts ≠ [] := by rw [hB]; simp
  have hbos : bosOk (bodyPages serial head tags pkts) = true := by
    rw [hB]; simp only [bosOk, hb0, Bool.true_and, List.all_eq_true]
    intro q hq; simp [hbr q hq]
  cases seekable with
  | true =>
    simp only [finalStream, if_true]
    refine ⟨by rw [markLast_bos]; exact hbos, markLast_eos _ hne (fun p hp => (hall p hp).2.2), ?_, ?_, ?_, ?_, ?_, ?_⟩
    · rw [markLast_seq]; have := body_seq serial head tags pkts []; simpa [seqFrom] using this
    · rw [markLast_cont]; have := body_cont serial head tags pkts []; simpa [contFrom] using this
    · rw [markLast_packets]; have := body_packets serial head tags pkts []
      simpa [packetLens, splitBy] using this
    · rw [markLast_gran]; have := body_gran serial head tags pkts []; simpa [granulesFrom] using this
    · rw [markLast_mono]; have := body_mono serial head tags pkts hno []; simpa [granuleMonotoneFrom] using this
    · exact markLast_mem _ (fun p => p.wf ∧ p.serial = serial) (fun p hp => ⟨markEos_wf p hp.1, hp.2⟩)
        (fun p hp => ⟨(hall p hp).1, (hall p hp).2.1⟩)
  | false =>
    have hidx := endCur_idx serial head tags pkts
    have hg := endCur_g serial head tags pkts
    rw [Nat.mod_eq_of_lt hpages] at hidx
    rw [Nat.mod_eq_of_lt (by omega)] at hg
    simp only [finalStream, Bool.false_eq_true, if_false]
    refine ⟨?_, eosOk_append _ _ (fun p hp => (hall p hp).2.2) (eosPage_flags _ _).1, ?_, ?_, ?_, ?_, ?_, ?_⟩
    · rw [hB]; simp only [List.cons_append, bosOk, hb0, Bool.true_and, List.all_append, List.all_eq_true, Bool.and_eq_true]
      refine ⟨fun q hq => by simp [hbr q hq], ?_⟩
      intro q hq; simp at hq; subst hq; simp [(eosPage_flags serial (endCur serial head tags pkts)).2.1]
    · rw [body_seq]; simp only [seqFrom, eosPage, hidx, Bool.and_true, beq_iff_eq]
      exact (Nat.mod_eq_of_lt (by simpa [two32] using hpages)).symm
    · rw [body_cont]; simp [contFrom, (eosPage_flags serial (endCur serial head tags pkts)).2.2]
    · rw [body_packets]; simp [eosPage, packetLens, splitBy]
    · rw [body_gran]
      simp only [granulesFrom, completions, eosPage, List.filter_nil, List.length_nil, if_true, Nat.add_zero,
        Bool.and_true, Bool.or_eq_true, beq_iff_eq]
      right
      rw [hg]
      simp only [cumOf, Nat.add_sub_cancel_left, List.take_length]
      exact (Nat.mod_eq_of_lt (by simp only [two64] at hno ⊢; omega)).symm
    · rw [body_mono _ _ _ _ hno]
      have : ¬ (samplesSum pkts = noGranule) := by simp only [noGranule, two64] at hno ⊢; omega
      simp [granuleMonotoneFrom, eosPage, hg, this]
    · intro p hp
      simp only [List.mem_append, List.mem_singleton] at hp
      rcases hp with hp | rfl
      · exact ⟨(hall p hp).1, (hall p hp).2.1⟩
      · refine ⟨⟨by simp [eosPage], by simp [eosPage, lacingSum], ?_, hs, ?_⟩, rfl⟩
        · simp only [eosPage, hg]; omega
        · simp only [eosPage, hidx]; exact hpages

end WebrtcVerif.Ogg
