import WebrtcVerif.Model.Ogg
/-!
  The header packets the writers build (`buildIDHeader`, `buildCommentHeader`) read back through the reader's
  `ParseOpusHead` / `ParseOpusTags` as the configured fields.
-/
namespace WebrtcVerif.Ogg
open WebrtcVerif.Bytes

theorem slice_mid (a x c : Bs) : slice (a ++ x ++ c) a.length (a.length + x.length) = some x := by
  unfold slice
  rw [if_pos (by simp)]
  simp [List.append_assoc]

theorem head_family0 (rate preSkip : Nat) (m : ChannelMapping) (hf : m.family = 0) (hr : rate < two32)
    (hp : preSkip < 65536) :
    parseOpusHead (buildIDHeader rate preSkip m) =
      .ok { channelMap := 0, channels := m.channelCount, outputGain := 0, preSkip := preSkip, sampleRate := rate,
            version := 1 } := by
  have e : buildIDHeader rate preSkip m =
      [79, 112, 117, 115, 72, 101, 97, 100, 1, m.channelCount, b preSkip, b (preSkip / 256), b rate, b (rate / 256),
        b (rate / 65536), b (rate / 16777216), 0, 0, 0] := by
    simp [buildIDHeader, hf, opusHeadSig, le16, le32]
  rw [e]
  simp only [parseOpusHead, List.length_cons, List.length_nil]
  simp only [parseHeadFields, slice, List.length_cons, List.length_nil]
  simp [rd32le_le32, rd16le]
  refine ⟨?_, ?_⟩
  · omega
  · simp only [two32] at hr; omega


theorem head_familyN (rate preSkip : Nat) (m : ChannelMapping) (hf : m.family = 1 ∨ m.family = 2 ∨ m.family = 255)
    (hlen : m.mapping.length = m.channelCount.toNat) (hr : rate < two32) (hp : preSkip < 65536) :
    parseOpusHead (buildIDHeader rate preSkip m) =
      .ok { channelMap := m.family, channels := m.channelCount, outputGain := 0, preSkip := preSkip, sampleRate := rate,
            version := 1, streamCount := m.streamCount, coupledCount := m.coupledCount, channelMapping := m.mapping } := by
  have hne : (m.family != 0) = true := by rcases hf with h | h | h <;> rw [h] <;> decide
  have e : buildIDHeader rate preSkip m =
      [79, 112, 117, 115, 72, 101, 97, 100, 1, m.channelCount, b preSkip, b (preSkip / 256), b rate, b (rate / 256),
        b (rate / 65536), b (rate / 16777216), 0, 0, m.family, m.streamCount, m.coupledCount] ++ m.mapping := by
    simp [buildIDHeader, hne, opusHeadSig, le16, le32, ← hlen]
  rw [e]
  have hlen2 : ([79, 112, 117, 115, 72, 101, 97, 100, 1, m.channelCount, b preSkip, b (preSkip / 256), b rate,
      b (rate / 256), b (rate / 65536), b (rate / 16777216), 0, 0, m.family, m.streamCount, m.coupledCount]
        ++ m.mapping).length = 21 + m.channelCount.toNat := by simp [hlen]; omega
  have hsl := slice_mid [79, 112, 117, 115, 72, 101, 97, 100, 1, m.channelCount, b preSkip, b (preSkip / 256), b rate,
      b (rate / 256), b (rate / 65536), b (rate / 16777216), 0, 0, m.family, m.streamCount, m.coupledCount] m.mapping []
  simp only [List.append_nil, List.length_cons, List.length_nil, hlen] at hsl
  simp only [parseOpusHead, hlen2]
  rw [if_neg (by omega)]
  simp only [parseHeadFields, hlen2]
  have hfam0 : (m.family == 0) = false := by simpa using hne
  have hfamN : (m.family == 1 || m.family == 2 || m.family == 255) = true := by
    rcases hf with h | h | h <;> rw [h] <;> decide
  simp only [List.cons_append, List.nil_append, List.getElem?_cons_succ, List.getElem?_cons_zero, slice,
    List.length_cons]
  simp [rd32le_le32, rd16le, hlen]
  have hf0 : ¬ m.family = 0 := by simpa using hfam0
  have hfN : (m.family = 1 ∨ m.family = 2) ∨ m.family = 255 := by
    rcases hf with h | h | h
    · exact Or.inl (Or.inl h)
    · exact Or.inl (Or.inr h)
    · exact Or.inr h
  rw [if_neg hf0, if_pos hfN, if_pos (by omega)]
  simp only
  have h1 : preSkip / 256 % 256 * 256 + preSkip % 256 = preSkip := by omega
  have h2 : rate % 4294967296 = rate := Nat.mod_eq_of_lt hr
  have h3 : List.take m.channelCount.toNat m.mapping = m.mapping := List.take_of_length_le (by omega)
  rw [h1, h2, h3]


/-! ### OpusTags -/

theorem splitFirstEq_name (k v : Bs) (hk : ∀ x ∈ k, x ≠ 61) : splitFirstEq (k ++ 61 :: v) = some (k, v) := by
  induction k with
  | nil => simp [splitFirstEq]
  | cons a rest ih =>
    have ha : (a == 61) = false := by simpa using hk a (by simp)
    simp only [List.cons_append, splitFirstEq, ha, Bool.false_eq_true, if_false,
      ih (fun x hx => hk x (by simp [hx]))]

theorem validName_noEq (k : Bs) (h : isValidCommentName k = true) : ∀ x ∈ k, x ≠ 61 := by
  intro x hx e
  simp only [isValidCommentName, Bool.and_eq_true, List.all_eq_true] at h
  have := h.2 x hx
  subst e
  simp at this

theorem rd32leL_le32 (n : Nat) (h : n < two32) : rd32leL (le32 n) = some n := by
  simp only [le32, rd32leL, rd32le_le32]
  rw [Nat.mod_eq_of_lt (by simpa [two32] using h)]

theorem encodeComment_length (c : Bs × Bs) : (encodeComment c).length = 4 + (c.1.length + 1 + c.2.length) := by
  simp [encodeComment]; omega

theorem commentsLoop (payload : Bs) (cs : List (Bs × Bs)) (hv : ∀ c ∈ cs, validUserComment c = true) :
    ∀ (pre post : Bs), payload = pre ++ cs.flatMap encodeComment ++ post →
      ∃ t, parseUserCommentsLoop payload cs.length pre.length = (.ok t, cs) := by
  induction cs with
  | nil => intro pre post _; exact ⟨_, rfl⟩
  | cons c rest ih =>
    intro pre post hp
    have hvc := hv c (by simp)
    simp only [validUserComment, Bool.and_eq_true, decide_eq_true_eq] at hvc
    obtain ⟨⟨hname, _⟩, hlen⟩ := hvc
    have hL : c.1.length + 1 + c.2.length < two32 := by
      simp only [maxUint32Length, two32] at hlen ⊢; omega
    -- the payload around this comment
    have hp1 : payload = pre ++ le32 (c.1.length + 1 + c.2.length) ++
        ((c.1 ++ 61 :: c.2) ++ (rest.flatMap encodeComment ++ post)) := by
      rw [hp]; simp [encodeComment, List.append_assoc]
    have hp2 : payload = (pre ++ le32 (c.1.length + 1 + c.2.length)) ++ (c.1 ++ 61 :: c.2) ++
        (rest.flatMap encodeComment ++ post) := by
      rw [hp1]; simp [List.append_assoc]
    have hp3 : payload = (pre ++ encodeComment c) ++ rest.flatMap encodeComment ++ post := by
      rw [hp]; simp [List.append_assoc]
    have hplen : payload.length = pre.length + 4 + (c.1.length + 1 + c.2.length) +
        ((rest.flatMap encodeComment).length + post.length) := by
      rw [hp2]; simp; omega
    have s1 : slice payload pre.length (pre.length + 4) = some (le32 (c.1.length + 1 + c.2.length)) := by
      have := slice_mid pre (le32 (c.1.length + 1 + c.2.length))
        ((c.1 ++ 61 :: c.2) ++ (rest.flatMap encodeComment ++ post))
      rw [← hp1] at this; simpa using this
    have s2 : slice payload (pre.length + 4) (pre.length + 4 + (c.1.length + 1 + c.2.length)) =
        some (c.1 ++ 61 :: c.2) := by
      have := slice_mid (pre ++ le32 (c.1.length + 1 + c.2.length)) (c.1 ++ 61 :: c.2)
        (rest.flatMap encodeComment ++ post)
      rw [← hp2] at this
      have hl : (pre ++ le32 (c.1.length + 1 + c.2.length)).length = pre.length + 4 := by simp
      have hx : (c.1 ++ 61 :: c.2).length = c.1.length + 1 + c.2.length := by simp; omega
      rw [hl, hx] at this; exact this
    obtain ⟨t, hrec⟩ := ih (fun x hx => hv x (by simp [hx])) (pre ++ encodeComment c) post hp3
    rw [List.length_append, encodeComment_length] at hrec
    refine ⟨t, ?_⟩
    simp only [List.length_cons, parseUserCommentsLoop]
    rw [if_neg (by omega), s1]
    simp only [Option.bind_some, rd32leL_le32 _ hL]
    rw [if_neg (by omega), s2]
    simp only [splitFirstEq_name c.1 c.2 (validName_noEq c.1 hname)]
    rw [show pre.length + 4 + (c.1.length + 1 + c.2.length) = pre.length + (4 + (c.1.length + 1 + c.2.length)) by omega,
      hrec]


theorem flatMap_encode_length_ge (cs : List (Bs × Bs)) : 5 * cs.length ≤ (cs.flatMap encodeComment).length := by
  induction cs with
  | nil => simp
  | cons c rest ih => simp only [List.flatMap_cons, List.length_append, encodeComment_length, List.length_cons]; omega

/-- accepted tags read back exactly -/
theorem tags_roundtrip (t : Tags) (h : validOpusTags t = true) : parseOpusTags (buildCommentHeader t) = .ok t := by
  simp only [validOpusTags, validTagString, Bool.and_eq_true, decide_eq_true_eq, List.all_eq_true] at h
  obtain ⟨⟨⟨⟨_, hvl⟩, hcn⟩, hcs⟩, _⟩ := h
  have hV : t.vendor.length < two32 := by simp only [maxUint32Length, two32] at hvl ⊢; omega
  have hN : t.comments.length < two32 := by simp only [maxUint32Length, two32] at hcn ⊢; omega
  generalize hP : buildCommentHeader t = payload
  have hp0 : payload = opusTagsSig ++ (le32 t.vendor.length ++ (t.vendor ++ (le32 t.comments.length ++
      t.comments.flatMap encodeComment))) := by
    rw [← hP]; simp [buildCommentHeader, List.append_assoc]
  have hplen : payload.length = 16 + t.vendor.length + (t.comments.flatMap encodeComment).length := by
    rw [hp0]; simp [opusTagsSig]; omega
  have hge := flatMap_encode_length_ge t.comments
  have hsig : opusTagsSig.length = 8 := rfl
  have s0 : slice payload 0 8 = some opusTagsSig := by
    have := slice_mid [] opusTagsSig (le32 t.vendor.length ++ (t.vendor ++ (le32 t.comments.length ++
      t.comments.flatMap encodeComment)))
    rw [List.nil_append, ← hp0] at this
    simpa only [List.length_nil, hsig, Nat.zero_add] using this
  have s1 : slice payload 8 12 = some (le32 t.vendor.length) := by
    have := slice_mid opusTagsSig (le32 t.vendor.length) (t.vendor ++ (le32 t.comments.length ++
      t.comments.flatMap encodeComment))
    rw [show opusTagsSig ++ le32 t.vendor.length ++ (t.vendor ++ (le32 t.comments.length ++
      t.comments.flatMap encodeComment)) = payload by rw [hp0]; simp [List.append_assoc]] at this
    simpa only [hsig, le32_length] using this
  have s2 : slice payload 12 (12 + t.vendor.length) = some t.vendor := by
    have := slice_mid (opusTagsSig ++ le32 t.vendor.length) t.vendor (le32 t.comments.length ++
      t.comments.flatMap encodeComment)
    rw [show opusTagsSig ++ le32 t.vendor.length ++ t.vendor ++ (le32 t.comments.length ++
      t.comments.flatMap encodeComment) = payload by rw [hp0]; simp [List.append_assoc]] at this
    simpa only [List.length_append, hsig, le32_length] using this
  have s3 : slice payload (12 + t.vendor.length) (12 + t.vendor.length + 4) = some (le32 t.comments.length) := by
    have := slice_mid (opusTagsSig ++ le32 t.vendor.length ++ t.vendor) (le32 t.comments.length)
      (t.comments.flatMap encodeComment)
    rw [show opusTagsSig ++ le32 t.vendor.length ++ t.vendor ++ le32 t.comments.length ++
      t.comments.flatMap encodeComment = payload by rw [hp0]; simp [List.append_assoc]] at this
    simpa only [List.length_append, hsig, le32_length] using this
  obtain ⟨t', hloop⟩ := commentsLoop payload t.comments hcs
    (opusTagsSig ++ le32 t.vendor.length ++ t.vendor ++ le32 t.comments.length) []
    (by rw [hp0]; simp [List.append_assoc])
  have hprelen : (opusTagsSig ++ le32 t.vendor.length ++ t.vendor ++ le32 t.comments.length).length =
      12 + t.vendor.length + 4 := by simp [opusTagsSig]; omega
  rw [hprelen] at hloop
  unfold parseOpusTags
  rw [if_neg (by omega), s0]
  simp only [bne_self_eq_false, Bool.false_eq_true, if_false, s1, Option.bind_some, rd32leL_le32 _ hV]
  rw [if_neg (by omega), if_neg (by omega), s2, s3]
  simp only [Option.bind_some, rd32leL_le32 _ hN]
  rw [if_neg (by omega), hloop]

end WebrtcVerif.Ogg
