import WebrtcVerif.Model.Fmtp
/-!
  Helper lemmas about the model of internal/fmtp (core Lean only).
-/
namespace WebrtcVerif.Fmtp

/-! ### characters -/

theorem beq_comm' {α : Type} [BEq α] [LawfulBEq α] (a b : α) : (a == b) = (b == a) := by
  apply Bool.eq_iff_iff.2
  simp only [beq_iff_eq]
  exact eq_comm

theorem toNat_ofNat_small (n : Nat) (h : n < 55296) : (Char.ofNat n).toNat = n := by
  have hv : n.isValidChar := Or.inl h
  unfold Char.ofNat
  rw [dif_pos hv]
  simp [Char.ofNatAux, Char.toNat]

theorem longS_toNat : longS.toNat = 383 := by decide
theorem kelvin_toNat : kelvin.toNat = 8490 := by decide

theorem isUpperAscii_iff (c : Char) : isUpperAscii c = true ↔ 65 ≤ c.toNat ∧ c.toNat ≤ 90 := by
  simp [isUpperAscii]

theorem dotI_toNat : dotI.toNat = 304 := by decide

theorem ne_of_toNat_ne {c d : Char} (h : c.toNat ≠ d.toNat) : c ≠ d := fun e => h (e ▸ rfl)

/-- the lower-case form of an upper-case ASCII letter -/
theorem lowerChar_upper (c : Char) (h : isUpperAscii c = true) :
    (lowerChar c).toNat = c.toNat + 32 := by
  have := (isUpperAscii_iff c).1 h
  simp only [lowerChar, h, if_true]
  exact toNat_ofNat_small _ (by omega)

theorem lowerChar_not_upper (c : Char) (h : isUpperAscii c = false) (hk : c ≠ kelvin) (hi : c ≠ dotI) :
    lowerChar c = c := by
  simp [lowerChar, h, hk, hi]

/-- a character below U+0080 that is not an upper-case letter is its own lower case -/
theorem lowerChar_small (c : Char) (h : isUpperAscii c = false) (hs : c.toNat < 128) : lowerChar c = c := by
  apply lowerChar_not_upper c h
  · apply ne_of_toNat_ne; rw [kelvin_toNat]; omega
  · apply ne_of_toNat_ne; rw [dotI_toNat]; omega

/-- `unicode.ToLower` is idempotent -/
theorem lowerChar_idem (c : Char) : lowerChar (lowerChar c) = lowerChar c := by
  by_cases hu : isUpperAscii c = true
  · have h1 := lowerChar_upper c hu
    have h2 := (isUpperAscii_iff c).1 hu
    apply lowerChar_small
    · cases h : isUpperAscii (lowerChar c) with
      | false => rfl
      | true => have := (isUpperAscii_iff _).1 h; omega
    · omega
  · have hu' : isUpperAscii c = false := by simpa using hu
    by_cases hk : c = kelvin
    · subst hk; decide
    · by_cases hi : c = dotI
      · subst hi; decide
      · simp only [lowerChar_not_upper c hu' hk hi]

theorem toLower_idem (s : Str) : toLower (toLower s) = toLower s := by
  simp [toLower, List.map_map, Function.comp_def, lowerChar_idem]

theorem foldChar_of_ne {c : Char} (h : c ≠ longS) (hi : c ≠ dotI) : foldChar c = lowerChar c := by
  simp [foldChar, h, hi]

theorem lowerChar_ne_dotI {c : Char} (h : c ≠ dotI) : lowerChar c ≠ dotI := by
  by_cases hu : isUpperAscii c = true
  · have h1 := lowerChar_upper c hu
    have h2 := (isUpperAscii_iff c).1 hu
    apply ne_of_toNat_ne; rw [h1, dotI_toNat]; omega
  · have hu' : isUpperAscii c = false := by simpa using hu
    by_cases hk : c = kelvin
    · subst hk; decide
    · rw [lowerChar_not_upper c hu' hk h]; exact h

/-- away from U+017F, characters with the same fold representative have the same lower case -/
theorem lowerChar_eq_of_foldChar_eq {c d : Char} (hc : c ≠ longS) (hd : d ≠ longS)
    (h : foldChar c = foldChar d) : lowerChar c = lowerChar d := by
  by_cases hci : c = dotI
  · by_cases hdi : d = dotI
    · rw [hci, hdi]
    · subst hci
      rw [show foldChar dotI = dotI by decide, foldChar_of_ne hd hdi] at h
      exact absurd h.symm (lowerChar_ne_dotI hdi)
  · by_cases hdi : d = dotI
    · subst hdi
      rw [show foldChar dotI = dotI by decide, foldChar_of_ne hc hci] at h
      exact absurd h (lowerChar_ne_dotI hci)
    · rwa [foldChar_of_ne hc hci, foldChar_of_ne hd hdi] at h

/-- no U+017F in the string -/
def noLongS (s : Str) : Bool := s.all (· != longS)

/-- only ASCII characters -/
def isAscii (s : Str) : Bool := s.all (·.toNat < 128)

theorem noLongS_of_isAscii {s : Str} (h : isAscii s = true) : noLongS s = true := by
  simp only [isAscii, noLongS, List.all_eq_true] at *
  intro c hc
  have := h c hc
  have hne : c ≠ longS := by
    apply ne_of_toNat_ne; rw [longS_toNat]; simp at this; omega
  simpa using hne

theorem map_lower_eq_of_map_fold_eq : ∀ {s t : Str}, noLongS s = true → noLongS t = true →
    s.map foldChar = t.map foldChar → s.map lowerChar = t.map lowerChar
  | [], [], _, _, _ => rfl
  | [], _ :: _, _, _, h => by simp at h
  | _ :: _, [], _, _, h => by simp at h
  | c :: cs, d :: ds, hs, ht, h => by
    simp only [noLongS, List.all_cons, Bool.and_eq_true, bne_iff_ne, ne_eq] at hs ht
    simp only [List.map_cons, List.cons.injEq] at h ⊢
    exact ⟨lowerChar_eq_of_foldChar_eq hs.1 ht.1 h.1,
      map_lower_eq_of_map_fold_eq (by simpa [noLongS] using hs.2) (by simpa [noLongS] using ht.2) h.2⟩

/-! ### strings.EqualFold is an equivalence relation -/

theorem equalFold_iff (s t : Str) : equalFold s t = true ↔ s.map foldChar = t.map foldChar := by
  simp [equalFold]

theorem equalFold_refl (s : Str) : equalFold s s = true := by simp [equalFold]

theorem equalFold_comm (s t : Str) : equalFold s t = equalFold t s := by
  simp only [equalFold]
  exact beq_comm' _ _

theorem equalFold_trans {s t u : Str} (h1 : equalFold s t = true) (h2 : equalFold t u = true) :
    equalFold s u = true := by
  rw [equalFold_iff] at *; exact h1.trans h2

theorem equalFold_congr_left {s s' : Str} (h : equalFold s s' = true) (t : Str) :
    equalFold s t = equalFold s' t := by
  simp only [equalFold, (equalFold_iff s s').1 h]

theorem equalFold_congr_right {t t' : Str} (h : equalFold t t' = true) (s : Str) :
    equalFold s t = equalFold s t' := by
  simp only [equalFold, (equalFold_iff t t').1 h]

/-- Where U+017F is absent, strings that are equal under folding have the same lower-case form — the
    fact `genericFMTP.Match` silently relies on. -/
theorem toLower_eq_of_equalFold {s t : Str} (hs : noLongS s = true) (ht : noLongS t = true)
    (h : equalFold s t = true) : toLower s = toLower t := by
  rw [equalFold_iff] at h
  exact map_lower_eq_of_map_fold_eq hs ht h

/-! ### defaults depend on the lower-case form only -/

theorem defaultClockRate_congr {m m' : Str} (h : toLower m = toLower m') :
    defaultClockRate m = defaultClockRate m' := by simp [defaultClockRate, h]

theorem defaultChannels_congr {m m' : Str} (h : toLower m = toLower m') :
    defaultChannels m = defaultChannels m' := by simp [defaultChannels, h]

theorem clockRateEqual_congr {m m' : Str} (h : toLower m = toLower m') (a b : Nat) :
    clockRateEqual m a b = clockRateEqual m' a b := by simp [clockRateEqual, defaultClockRate_congr h]

theorem channelsEqual_congr {m m' : Str} (h : toLower m = toLower m') (a b : Nat) :
    channelsEqual m a b = channelsEqual m' a b := by simp [channelsEqual, defaultChannels_congr h]

theorem clockRateEqual_comm (m : Str) (a b : Nat) : clockRateEqual m a b = clockRateEqual m b a := by
  simp only [clockRateEqual]
  exact beq_comm' _ _

theorem channelsEqual_comm (m : Str) (a b : Nat) : channelsEqual m a b = channelsEqual m b a := by
  simp only [channelsEqual]
  exact beq_comm' _ _

theorem clockRateEqual_refl (m : Str) (a : Nat) : clockRateEqual m a a = true := by simp [clockRateEqual]
theorem channelsEqual_refl (m : Str) (a : Nat) : channelsEqual m a a = true := by simp [channelsEqual]

/-! ### paramsEqual -/

theorem paramsEqual_comm (a b : Params) : paramsEqual a b = paramsEqual b a := by
  simp [paramsEqual, Bool.and_comm]

theorem paramsHalf_refl (x : Params) : paramsHalf x x = true := by
  simp only [paramsHalf, List.all_eq_true]
  intro e _
  cases x.get? e.1 with
  | none => rfl
  | some v => exact equalFold_refl v

theorem paramsEqual_refl (x : Params) : paramsEqual x x = true := by
  simp [paramsEqual, paramsHalf_refl]

/-! ### H.264, VP9, AV1 -/

theorem profileLevelIDMatches_comm (a b : Str) : profileLevelIDMatches a b = profileLevelIDMatches b a := by
  unfold profileLevelIDMatches
  cases hexDecode a with
  | none => cases hexDecode b with
    | none => rfl
    | some bb => rcases bb with _ | ⟨b0, _ | ⟨b1, bt⟩⟩ <;> rfl
  | some aa =>
    rcases aa with _ | ⟨a0, _ | ⟨a1, at'⟩⟩
    · cases hexDecode b with
      | none => rfl
      | some bb => rcases bb with _ | ⟨b0, _ | ⟨b1, bt⟩⟩ <;> rfl
    · cases hexDecode b with
      | none => rfl
      | some bb => rcases bb with _ | ⟨b0, _ | ⟨b1, bt⟩⟩ <;> rfl
    · cases hexDecode b with
      | none => rfl
      | some bb =>
        rcases bb with _ | ⟨b0, _ | ⟨b1, bt⟩⟩
        · rfl
        · rfl
        · show (a0 == b0 && a1 == b1) = (b0 == a0 && b1 == a1)
          rw [beq_comm' a0 b0, beq_comm' a1 b1]

/-- the profile-level-id decodes to at least two bytes -/
def plidDecodable (s : Str) : Bool :=
  match hexDecode s with
  | some (_ :: _ :: _) => true
  | _ => false

theorem profileLevelIDMatches_self (s : Str) : profileLevelIDMatches s s = plidDecodable s := by
  unfold profileLevelIDMatches plidDecodable
  cases hexDecode s with
  | none => rfl
  | some aa => rcases aa with _ | ⟨a0, _ | ⟨a1, at'⟩⟩ <;> simp

theorem h264Match_comm (h c : Params) : h264Match h c = h264Match c h := by
  unfold h264Match
  cases h.get? keyPacketizationMode with
  | none => cases c.get? keyPacketizationMode <;> rfl
  | some hp =>
    cases c.get? keyPacketizationMode with
    | none => rfl
    | some cp =>
      by_cases e : hp = cp
      · subst e
        simp only [ne_eq, not_true_eq_false, if_false]
        cases h.get? keyProfileLevelID with
        | none => cases c.get? keyProfileLevelID <;> rfl
        | some hl =>
          cases c.get? keyProfileLevelID with
          | none => rfl
          | some cl => exact profileLevelIDMatches_comm hl cl
      · have e' : cp ≠ hp := fun x => e x.symm
        simp [e, e']

/-- what an H.264 parameter set needs in order to match itself -/
def h264SelfOK (p : Params) : Bool :=
  (p.get? keyPacketizationMode).isSome &&
    match p.get? keyProfileLevelID with
    | some plid => plidDecodable plid
    | none => false

theorem h264Match_self (p : Params) : h264Match p p = h264SelfOK p := by
  unfold h264Match h264SelfOK
  cases p.get? keyPacketizationMode with
  | none => rfl
  | some pm =>
    simp only [ne_eq, not_true_eq_false, if_false, Option.isSome_some, Bool.true_and]
    cases p.get? keyProfileLevelID with
    | none => rfl
    | some l => exact profileLevelIDMatches_self l

theorem profileMatch_comm (k : Str) (h c : Params) : profileMatch k h c = profileMatch k c h := by
  simp only [profileMatch]
  exact beq_comm' _ _

theorem profileMatch_refl (k : Str) (p : Params) : profileMatch k p p = true := by simp [profileMatch]

/-! ### genericFMTP.Match -/

/-- symmetric as soon as the two mime types have the same lower-case form whenever they are equal under folding -/
theorem genericMatch_comm (gm : Str) (gc gch : Nat) (gp : Params) (fm : Str) (fc fch : Nat) (fp : Params)
    (h : equalFold gm fm = true → toLower gm = toLower fm) :
    genericMatch gm gc gch gp fm fc fch fp = genericMatch fm fc fch fp gm gc gch gp := by
  unfold genericMatch
  rw [equalFold_comm fm gm, paramsEqual_comm fp gp]
  cases hf : equalFold gm fm with
  | false => simp
  | true =>
    have hl := h hf
    rw [clockRateEqual_congr hl, channelsEqual_congr hl, clockRateEqual_comm fm gc fc, channelsEqual_comm fm gch fch]

theorem genericMatch_refl (m : Str) (c ch : Nat) (p : Params) : genericMatch m c ch p m c ch p = true := by
  simp [genericMatch, equalFold_refl, clockRateEqual_refl, channelsEqual_refl, paramsEqual_refl]

/-! ### Parse: the implementation selected depends on the folded mime type only -/

/-- which of the four `FMTP` implementations `Parse` selects -/
inductive Family | h264 | vp9 | av1 | generic
  deriving DecidableEq, Repr

def family (m : Str) : Family :=
  if equalFold m mimeH264 then .h264
  else if equalFold m mimeVP9 then .vp9
  else if equalFold m mimeAV1 then .av1
  else .generic

theorem parse_eq (m : Str) (c ch : Nat) (l : Str) :
    parse m c ch l =
      match family m with
      | .h264 => .h264 (parseParameters l)
      | .vp9 => .vp9 (parseParameters l)
      | .av1 => .av1 (parseParameters l)
      | .generic => .generic m c ch (parseParameters l) := by
  unfold parse family
  by_cases h1 : equalFold m mimeH264 = true
  · simp [h1]
  · by_cases h2 : equalFold m mimeVP9 = true
    · simp [h1, h2]
    · by_cases h3 : equalFold m mimeAV1 = true
      · simp [h1, h2, h3]
      · simp [h1, h2, h3]

theorem family_congr {m m' : Str} (h : equalFold m m' = true) : family m = family m' := by
  simp only [family, equalFold_congr_left h]

/-! ### ASCII recasing (defined without reference to the folding tables of the model) -/

/-- the same character, or the same ASCII letter in the other case (code points 32 apart, the upper one in A–Z) -/
def sameAsciiLetter (c d : Char) : Bool :=
  c == d || (isUpperAscii c && d.toNat == c.toNat + 32) || (isUpperAscii d && c.toNat == d.toNat + 32)

/-- `t` is `s` with the case of any of its ASCII letters changed -/
def asciiRecasing : Str → Str → Bool
  | [], [] => true
  | c :: cs, d :: ds => sameAsciiLetter c d && asciiRecasing cs ds
  | _, _ => false

private theorem lower_of_upper_pair {c d : Char} (hu : isUpperAscii c = true) (hd : d.toNat = c.toNat + 32) :
    lowerChar c = d ∧ lowerChar d = d ∧ foldChar c = lowerChar c ∧ foldChar d = lowerChar d := by
  have h2 := (isUpperAscii_iff c).1 hu
  have h1 := lowerChar_upper c hu
  refine ⟨Char.toNat_inj.1 (by omega), ?_, ?_, ?_⟩
  · apply lowerChar_small
    · cases h : isUpperAscii d with
      | false => rfl
      | true => have := (isUpperAscii_iff _).1 h; omega
    · omega
  · apply foldChar_of_ne <;> apply ne_of_toNat_ne
    · rw [longS_toNat]; omega
    · rw [dotI_toNat]; omega
  · apply foldChar_of_ne <;> apply ne_of_toNat_ne
    · rw [longS_toNat]; omega
    · rw [dotI_toNat]; omega

theorem sameAsciiLetter_sound {c d : Char} (h : sameAsciiLetter c d = true) :
    lowerChar c = lowerChar d ∧ foldChar c = foldChar d := by
  simp only [sameAsciiLetter, Bool.or_eq_true, Bool.and_eq_true, beq_iff_eq] at h
  rcases h with (h | ⟨hu, hd⟩) | ⟨hu, hd⟩
  · subst h; exact ⟨rfl, rfl⟩
  · obtain ⟨h1, h2, h3, h4⟩ := lower_of_upper_pair hu hd
    exact ⟨by rw [h1, h2], by rw [h3, h4, h1, h2]⟩
  · obtain ⟨h1, h2, h3, h4⟩ := lower_of_upper_pair hu hd
    exact ⟨by rw [h1, h2], by rw [h3, h4, h1, h2]⟩

theorem asciiRecasing_sound : ∀ {s t : Str}, asciiRecasing s t = true →
    toLower s = toLower t ∧ equalFold s t = true
  | [], [], _ => ⟨rfl, rfl⟩
  | c :: cs, d :: ds, h => by
    simp only [asciiRecasing, Bool.and_eq_true] at h
    obtain ⟨h1, h2⟩ := sameAsciiLetter_sound h.1
    obtain ⟨ih1, ih2⟩ := asciiRecasing_sound h.2
    rw [equalFold_iff] at ih2 ⊢
    simp only [toLower] at ih1
    exact ⟨by simp only [toLower, List.map_cons, h1, ih1], by simp only [List.map_cons, h2, ih2]⟩
  | [], _ :: _, h => by simp [asciiRecasing] at h
  | _ :: _, [], h => by simp [asciiRecasing] at h

/-! ### splitting and the parameter map -/

theorem splitOn_ne_nil (sep : Char) (s : Str) : splitOn sep s ≠ [] := by
  cases s with
  | nil => simp [splitOn]
  | cons c cs =>
    simp only [splitOn]
    split
    · simp
    · split <;> simp

/-- `strings.Split` distributes over a separator -/
theorem splitOn_append (sep : Char) (s t : Str) :
    splitOn sep (s ++ sep :: t) = splitOn sep s ++ splitOn sep t := by
  induction s with
  | nil => simp [splitOn]
  | cons c cs ih =>
    by_cases hc : c = sep
    · simp [splitOn, hc, ih]
    · simp only [List.cons_append, splitOn, hc, if_false, ih]
      cases hs : splitOn sep cs with
      | nil => exact absurd hs (splitOn_ne_nil sep cs)
      | cons h0 t0 => simp

theorem parseParameters_append (s t : Str) :
    parseParameters (s ++ ';' :: t) = parseParameters t ++ parseParameters s := by
  simp [parseParameters, splitOn_append]

/-- a compatible pair selects the same `FMTP` implementation -/
theorem family_eq_of_matches {a b : Codec} (h : matchFmtp a b = true) : family a.mime = family b.mime := by
  unfold matchFmtp Codec.parsed at h
  rw [parse_eq a.mime, parse_eq b.mime] at h
  cases ha : family a.mime <;> cases hb : family b.mime <;> simp [ha, hb, Parsed.matches] at h <;> rfl

theorem family_h264_iff (m : Str) : family m = .h264 ↔ equalFold m mimeH264 = true := by
  unfold family
  by_cases h1 : equalFold m mimeH264 = true
  · simp [h1]
  · by_cases h2 : equalFold m mimeVP9 = true
    · simp [h1, h2]
    · by_cases h3 : equalFold m mimeAV1 = true
      · simp [h1, h2, h3]
      · simp [h1, h2, h3]

end WebrtcVerif.Fmtp
