import WebrtcVerif.Model.Ops
import WebrtcVerif.Proofs.OpsLemmas
/-!
  "A requested negotiation-needed check is not lost": `NegInv` (`Model/Ops.lean`) is an inductive invariant
  of the operations-queue transition system whenever the worker's callback honours requests (modes
  `enqueue` and `rearm`), for every interleaving of workers, enqueuers, waiters, closers, raw flag setters
  and API goroutines inside `PeerConnection.onNegotiationNeeded`.
-/
namespace WebrtcVerif.Ops

/-! ### list facts -/

theorem mem_set_self_of_get {α} {l : List α} {w : Nat} {x : α} (y : α) (hw : l[w]? = some x) :
    y ∈ l.set w y :=
  List.mem_of_getElem? (getElem?_set_self' y hw)

theorem mem_set_of_mem_ne {α} {l : List α} {w : Nat} {x z : α} (y : α) (hw : l[w]? = some x)
    (hz : z ∈ l) (hne : z ≠ x) : z ∈ l.set w y := by
  obtain ⟨j, hj⟩ := List.getElem?_of_mem hz
  have hjw : w ≠ j := by
    intro e
    subst e
    rw [hw] at hj
    cases hj
    exact hne rfl
  have : (l.set w y)[j]? = some z := by rw [List.getElem?_set_ne hjw]; exact hj
  exact List.mem_of_getElem? this

/-- worker `w` moves from a pc that is not mid-call: mid-call workers stay -/
theorem midW_set {l : List WPc} {w : Nat} {pc : WPc} (pc' : WPc) (hw : l[w]? = some pc)
    (hpc : pc.midCall = false) :
    (∃ p ∈ l, p.midCall = true) → ∃ p ∈ l.set w pc', p.midCall = true := by
  rintro ⟨p, hp, hm⟩
  refine ⟨p, mem_set_of_mem_ne pc' hw hp ?_, hm⟩
  intro e
  subst e
  rw [hpc] at hm
  cases hm

theorem midN_set {l : List NPc} {n : Nat} {pc : NPc} (pc' : NPc) (hn : l[n]? = some pc)
    (hpc : pc.midCall = false) :
    (∃ p ∈ l, p.midCall = true) → ∃ p ∈ l.set n pc', p.midCall = true := by
  rintro ⟨p, hp, hm⟩
  refine ⟨p, mem_set_of_mem_ne pc' hn hp ?_, hm⟩
  intro e
  subst e
  rw [hpc] at hm
  cases hm

/-! ### `owed` -/

theorem owed_snoc_req (l : List NegEv) : ((l ++ [NegEv.req]).getLast? == some NegEv.req) = true := by
  simp

theorem owed_snoc_chk (l : List NegEv) : ((l ++ [NegEv.chk]).getLast? == some NegEv.req) = false := by
  simp

/-! ### introduction and transport rules -/

theorem NegInv.of_closed {s : St} (h : s.isClosed = true) : NegInv s := fun _ => Or.inl h

theorem NegInv.of_flag {s : St} (h : s.flag = true) : NegInv s := fun _ => Or.inr (Or.inl h)

theorem NegInv.of_pending {s : St} (h : ∃ it ∈ s.accepted, it.isCheck = true ∧ it ∉ s.executed) :
    NegInv s := fun _ => Or.inr (Or.inr (Or.inl h))

theorem NegInv.of_worker {s : St} (h : ∃ pc ∈ s.workers, pc.midCall = true) : NegInv s :=
  fun _ => Or.inr (Or.inr (Or.inr (Or.inl h)))

theorem NegInv.of_caller {s : St} (h : ∃ pc ∈ s.callers, pc.midCall = true) : NegInv s :=
  fun _ => Or.inr (Or.inr (Or.inr (Or.inr h)))

theorem NegInv.of_not_owed {s : St} (h : owed s = false) : NegInv s := by
  intro ho
  rw [h] at ho
  cases ho

theorem NegInv.mono {s s' : St} (h : NegInv s)
    (hlog : owed s' = true → owed s = true)
    (hc : s.isClosed = true → s'.isClosed = true)
    (hf : s.flag = true → s'.flag = true)
    (hp : (∃ it ∈ s.accepted, it.isCheck = true ∧ it ∉ s.executed) →
      ∃ it ∈ s'.accepted, it.isCheck = true ∧ it ∉ s'.executed)
    (hw : (∃ pc ∈ s.workers, pc.midCall = true) → ∃ pc ∈ s'.workers, pc.midCall = true)
    (hn : (∃ pc ∈ s.callers, pc.midCall = true) → ∃ pc ∈ s'.callers, pc.midCall = true) :
    NegInv s' := by
  intro ho
  rcases h (hlog ho) with h1 | h1 | h1 | h1 | h1
  · exact Or.inl (hc h1)
  · exact Or.inr (Or.inl (hf h1))
  · exact Or.inr (Or.inr (Or.inl (hp h1)))
  · exact Or.inr (Or.inr (Or.inr (Or.inl (hw h1))))
  · exact Or.inr (Or.inr (Or.inr (Or.inr (hn h1))))

/-- only components the invariant does not read have changed -/
theorem NegInv.congr {s s' : St} (h : NegInv s) (h1 : s'.negLog = s.negLog)
    (h2 : s'.isClosed = s.isClosed) (h3 : s'.flag = s.flag) (h4 : s'.accepted = s.accepted)
    (h5 : s'.executed = s.executed) (h6 : s'.workers = s.workers) (h7 : s'.callers = s.callers) :
    NegInv s' := by
  unfold NegInv owed at *
  rw [h1, h2, h3, h4, h5, h6, h7]
  exact h

/-! ### `tryEnqueue`, `enqCheck`, `negApply` -/

theorem tryEnqueue_neg_frame (s : St) (it : Item) :
    (tryEnqueue s it).1.isClosed = s.isClosed ∧ (tryEnqueue s it).1.flag = s.flag
      ∧ (tryEnqueue s it).1.executed = s.executed ∧ (tryEnqueue s it).1.callers = s.callers
      ∧ (tryEnqueue s it).1.negLog = s.negLog
      ∧ (∀ x ∈ s.accepted, x ∈ (tryEnqueue s it).1.accepted)
      ∧ (∀ p ∈ s.workers, p ∈ (tryEnqueue s it).1.workers) := by
  unfold tryEnqueue
  split
  · simp
  · dsimp only
    split
    · refine ⟨rfl, rfl, rfl, rfl, rfl, ?_, fun p hp => hp⟩
      intro x hx
      exact List.mem_append_left _ hx
    · refine ⟨rfl, rfl, rfl, rfl, rfl, ?_, ?_⟩
      · intro x hx
        exact List.mem_append_left _ hx
      · intro p hp
        exact List.mem_append_left _ hp

theorem NegInv.tryEnqueue {s : St} (h : NegInv s) (it : Item) : NegInv (tryEnqueue s it).1 := by
  obtain ⟨h1, h2, h3, h4, h5, h6, h7⟩ := tryEnqueue_neg_frame s it
  refine h.mono ?_ ?_ ?_ ?_ ?_ ?_
  · unfold owed; rw [h5]; exact id
  · rw [h1]; exact id
  · rw [h2]; exact id
  · rintro ⟨x, hx, hc, hne⟩
    exact ⟨x, h6 x hx, hc, by rw [h3]; exact hne⟩
  · rintro ⟨p, hp, hm⟩
    exact ⟨p, h7 p hp, hm⟩
  · rw [h4]; exact id

theorem OpsInv.executed_sub {s : St} (h : OpsInv s) : ∀ x ∈ s.executed, x ∈ s.accepted := by
  intro x hx
  rw [h.fifo]
  simp [hx]

theorem enqCheck_isClosed (s : St) : (enqCheck s).isClosed = s.isClosed :=
  (tryEnqueue_neg_frame { s with checks := s.checks + 1 } (.check s.checks)).1

theorem enqCheck_executed (s : St) : (enqCheck s).executed = s.executed :=
  (tryEnqueue_neg_frame { s with checks := s.checks + 1 } (.check s.checks)).2.2.1

theorem enqCheck_accepted_open {s : St} (hc : s.isClosed = false) :
    (enqCheck s).accepted = s.accepted ++ [.check s.checks] :=
  (tryEnqueue_open (s := { s with checks := s.checks + 1 }) (.check s.checks) hc).2

/-- after `Enqueue(check)` the request is safe (queued, or the queue is closed), whatever the state was -/
theorem negInv_after_enqCheck {s t : St} (hi : OpsInv s) (hc : t.isClosed = (enqCheck s).isClosed)
    (ha : t.accepted = (enqCheck s).accepted) (he : t.executed = (enqCheck s).executed) : NegInv t := by
  cases hcl : s.isClosed with
  | true =>
    apply NegInv.of_closed
    rw [hc, enqCheck_isClosed, hcl]
  | false =>
    apply NegInv.of_pending
    refine ⟨.check s.checks, ?_, rfl, ?_⟩
    · rw [ha, enqCheck_accepted_open hcl]; simp
    · rw [he, enqCheck_executed]
      intro hm
      exact Nat.lt_irrefl _ (hi.fresh _ (hi.executed_sub _ hm))

theorem negApply_false (s : St) : negApply s false = { s with flag := true, unseen := true } := by
  simp [negApply]

theorem negApply_true (s : St) : negApply s true = enqCheck s := by
  simp [negApply]

/-- after the second half of onNegotiationNeeded the request is safe, whatever the state was -/
theorem negInv_after_negApply {s t : St} (e : Bool) (hi : OpsInv s)
    (hc : t.isClosed = (negApply s e).isClosed) (hf : t.flag = (negApply s e).flag)
    (ha : t.accepted = (negApply s e).accepted) (he : t.executed = (negApply s e).executed) :
    NegInv t := by
  cases e with
  | true =>
    rw [negApply_true] at hc ha he
    exact negInv_after_enqCheck hi hc ha he
  | false =>
    apply NegInv.of_flag
    rw [hf, negApply_false]

/-! ### preservation -/

theorem negInv_init (nc nd nn : Nat) : NegInv (init nc nd nn) := by
  apply NegInv.of_not_owed
  simp [owed, init]

theorem negInv_step {m : NegMode} (hm : m ≠ NegMode.none) {s s' : St} {a : Action} (hi : OpsInv s)
    (h : NegInv s) (hs : step m s a = some s') : NegInv s' := by
  cases a with
  | enqueue it =>
    simp only [step] at hs
    split at hs
    · cases hs
    · cases hs
      exact h.tryEnqueue it
  | doneBegin d =>
    simp only [step] at hs
    split at hs
    · split at hs
      · cases hs
      · cases hs
        exact (h.tryEnqueue (.waiter d)).congr rfl rfl rfl rfl rfl rfl rfl
    · cases hs
  | doneWake d =>
    simp only [step] at hs
    split at hs
    · split at hs
      · cases hs
        exact h.congr rfl rfl rfl rfl rfl rfl rfl
      · cases hs
    · cases hs
  | doneDrainWake d =>
    simp only [step] at hs
    split at hs
    · split at hs
      · cases hs
        exact h.congr rfl rfl rfl rfl rfl rfl rfl
      · cases hs
    · cases hs
  | doneRecheck d =>
    simp only [step] at hs
    split at hs
    · split at hs
      · cases hs
        exact h.congr rfl rfl rfl rfl rfl rfl rfl
      · cases hs
        exact h.congr rfl rfl rfl rfl rfl rfl rfl
    · cases hs
  | gcBegin c =>
    simp only [step] at hs
    split at hs
    · split at hs
      · cases hs
        exact h.congr rfl rfl rfl rfl rfl rfl rfl
      · split at hs
        · cases hs
          exact NegInv.of_closed rfl
        · cases hs
          exact NegInv.of_closed rfl
    · cases hs
  | gcWake c =>
    simp only [step] at hs
    split at hs
    · split at hs
      · cases hs
        exact h.congr rfl rfl rfl rfl rfl rfl rfl
      · cases hs
    · cases hs
  | gcRecheck c =>
    simp only [step] at hs
    split at hs
    · split at hs
      · cases hs
        exact h.congr rfl rfl rfl rfl rfl rfl rfl
      · cases hs
        exact h.congr rfl rfl rfl rfl rfl rfl rfl
    · cases hs
  | pop w =>
    have key : ∀ pc, s.workers[w]? = some pc → pc.midCall = false →
        NegInv { (popQueue s).1 with
          workers := setAt (popQueue s).1.workers w (.popped (popQueue s).2) } := by
      intro pc hw hpc
      unfold popQueue
      split
      · exact h.mono id id id id (midW_set _ hw hpc) id
      · exact h.mono id id id id (midW_set _ hw hpc) id
    simp only [step] at hs
    split at hs
    · rename_i hw
      cases hs
      exact key _ hw rfl
    · rename_i it hw
      cases hs
      exact key _ hw rfl
    · cases hs
  | exec w =>
    simp only [step] at hs
    split at hs
    · rename_i it hw
      cases hs
      cases hck : it.isCheck with
      | true =>
        apply NegInv.of_not_owed
        simp [owed]
      | false =>
        refine h.mono ?_ id id ?_ (midW_set _ hw rfl) id
        · simp [owed]
        · rintro ⟨x, hx, hc, hne⟩
          refine ⟨x, hx, hc, ?_⟩
          intro hmem
          rcases List.mem_append.mp hmem with h1 | h1
          · exact hne h1
          · simp at h1
            subst h1
            rw [hck] at hc
            cases hc
    · cases hs
  | afterLoop w =>
    simp only [step] at hs
    split at hs
    · rename_i hw
      cases hs
      exact h.mono id id id id (midW_set _ hw rfl) id
    · cases hs
  | clearFlag w =>
    simp only [step] at hs
    split at hs
    · rename_i hw
      cases hs
      exact NegInv.of_worker ⟨.cleared, mem_set_self_of_get _ hw, rfl⟩
    · cases hs
  | cbBegin w =>
    simp only [step] at hs
    split at hs
    · rename_i hw
      cases m with
      | none => exact absurd rfl hm
      | enqueue =>
        cases hs
        have h1 : OpsInv { s with negCalls := s.negCalls + 1 } :=
          hi.with_aux s.flag (s.negCalls + 1) s.callers s.negLog
        exact negInv_after_enqCheck h1 rfl rfl rfl
      | rearm =>
        cases hs
        exact NegInv.of_worker ⟨.cb s.queue.isEmpty, mem_set_self_of_get _ hw, rfl⟩
    · cases hs
  | cbAct w =>
    simp only [step] at hs
    split at hs
    · rename_i e hw
      cases hs
      exact negInv_after_negApply e hi rfl rfl rfl rfl
    · cases hs
  | negTest n =>
    simp only [step] at hs
    split at hs
    · rename_i hn
      cases hs
      exact NegInv.of_caller ⟨.tested s.queue.isEmpty, mem_set_self_of_get _ hn, rfl⟩
    · cases hs
  | negAct n =>
    simp only [step] at hs
    split at hs
    · rename_i e hn
      cases hs
      exact negInv_after_negApply e hi rfl rfl rfl rfl
    · cases hs
  | deferred w =>
    simp only [step] at hs
    split at hs
    · rename_i hw
      split at hs
      · cases hs
      · split at hs
        · cases hs
          exact h.mono id id id id (midW_set _ hw rfl) id
        · cases hs
          refine h.mono id id id id ?_ id
          intro hx
          obtain ⟨p, hp, hpm⟩ := midW_set .fin hw rfl hx
          exact ⟨p, List.mem_append_left _ hp, hpm⟩
    · cases hs
  | setFlag =>
    simp only [step] at hs
    cases hs
    exact NegInv.of_flag rfl

theorem negInv_of_reachable {m : NegMode} (hm : m ≠ NegMode.none) {nc nd nn : Nat} {s : St}
    (h : Reachable m nc nd nn s) : NegInv s := by
  induction h with
  | init => exact negInv_init nc nd nn
  | step a hr hs ih => exact negInv_step hm (opsInv_of_reachable hr) ih hs

/-! ### consequences -/

theorem not_mem_of_liveL_zero {l : List WPc} (h : liveL l = 0) : ∀ pc ∈ l, pc.live = false := by
  induction l with
  | nil => intro pc hp; cases hp
  | cons p l ih =>
    rw [liveL_cons] at h
    intro pc hp
    rcases List.mem_cons.mp hp with h1 | h1
    · subst h1
      cases hpl : pc.live with
      | false => rfl
      | true => simp [hpl] at h
    · have : liveL l = 0 := by omega
      exact ih this pc h1

theorem WPc.live_of_midCall {pc : WPc} (h : pc.midCall = true) : pc.live = true := by
  cases pc <;> simp_all [WPc.midCall, WPc.live]

/-- with no worker left and nobody inside onNegotiationNeeded, an owed request sits in the flag (or the
    queue was closed) -/
theorem NegInv.quiescent {s : St} (h : NegInv s) (hi : OpsInv s) (hq : quiescent s)
    (hn : ∀ pc ∈ s.callers, pc.midCall = false) (ho : owed s = true) :
    s.isClosed = true ∨ s.flag = true := by
  rcases h ho with h1 | h1 | h1 | h1 | h1
  · exact Or.inl h1
  · exact Or.inr h1
  · obtain ⟨x, hx, _, hne⟩ := h1
    rw [hi.executed_eq_of_quiescent hq] at hne
    exact absurd hx hne
  · obtain ⟨p, hp, hpm⟩ := h1
    have := not_mem_of_liveL_zero hq p hp
    rw [WPc.live_of_midCall hpm] at this
    cases this
  · obtain ⟨p, hp, hpm⟩ := h1
    rw [hn p hp] at hpm
    cases hpm

/-! ### `FlagInv`: a set flag is either unseen by every flag test so far or about to be cleared -/

theorem FlagInv.of_unseen {s : St} (h : s.unseen = true) : FlagInv s := fun _ => Or.inl h

theorem FlagInv.of_clear {s : St} (h : s.flag = false) : FlagInv s := by
  intro hf
  rw [h] at hf
  cases hf

/-- flag and `unseen` unchanged, a `loaded` worker stays -/
theorem FlagInv.mono {s s' : St} (h : FlagInv s) (hf : s'.flag = s.flag) (hu : s'.unseen = s.unseen)
    (hw : WPc.loaded ∈ s.workers → WPc.loaded ∈ s'.workers) : FlagInv s' := by
  intro hf'
  rw [hf] at hf'
  rcases h hf' with h1 | h1
  · exact Or.inl (by rw [hu]; exact h1)
  · exact Or.inr (hw h1)

theorem loaded_mem_set {l : List WPc} {w : Nat} {pc : WPc} (pc' : WPc) (hw : l[w]? = some pc)
    (hne : pc ≠ WPc.loaded) : WPc.loaded ∈ l → WPc.loaded ∈ l.set w pc' :=
  fun hm => mem_set_of_mem_ne pc' hw hm (fun e => hne e.symm)

theorem tryEnqueue_flag_frame (s : St) (it : Item) :
    (tryEnqueue s it).1.flag = s.flag ∧ (tryEnqueue s it).1.unseen = s.unseen
      ∧ (∀ p ∈ s.workers, p ∈ (tryEnqueue s it).1.workers) := by
  unfold tryEnqueue
  split
  · simp
  · dsimp only
    split
    · exact ⟨rfl, rfl, fun p hp => hp⟩
    · exact ⟨rfl, rfl, fun p hp => List.mem_append_left _ hp⟩

theorem FlagInv.tryEnqueue {s : St} (h : FlagInv s) (it : Item) : FlagInv (tryEnqueue s it).1 := by
  obtain ⟨h1, h2, h3⟩ := tryEnqueue_flag_frame s it
  exact h.mono h1 h2 (h3 _)

theorem FlagInv.enqCheck {s : St} (h : FlagInv s) : FlagInv (enqCheck s) := by
  unfold Ops.enqCheck
  apply FlagInv.tryEnqueue
  exact h.mono rfl rfl id

theorem FlagInv.negApply {s : St} (h : FlagInv s) (e : Bool) : FlagInv (negApply s e) := by
  cases e with
  | true => rw [negApply_true]; exact h.enqCheck
  | false => rw [negApply_false]; exact FlagInv.of_unseen rfl

theorem flagInv_init (nc nd nn : Nat) : FlagInv (init nc nd nn) := FlagInv.of_clear rfl

theorem flagInv_step {m : NegMode} {s s' : St} {a : Action} (h : FlagInv s)
    (hs : step m s a = some s') : FlagInv s' := by
  cases a with
  | enqueue it =>
    simp only [step] at hs
    split at hs
    · cases hs
    · cases hs
      exact h.tryEnqueue it
  | doneBegin d =>
    simp only [step] at hs
    split at hs
    · split at hs
      · cases hs
      · cases hs
        exact (h.tryEnqueue (.waiter d)).mono rfl rfl id
    · cases hs
  | doneWake d =>
    simp only [step] at hs
    split at hs
    · split at hs
      · cases hs
        exact h.mono rfl rfl id
      · cases hs
    · cases hs
  | doneDrainWake d =>
    simp only [step] at hs
    split at hs
    · split at hs
      · cases hs
        exact h.mono rfl rfl id
      · cases hs
    · cases hs
  | doneRecheck d =>
    simp only [step] at hs
    split at hs
    · split at hs
      · cases hs
        exact h.mono rfl rfl id
      · cases hs
        exact h.mono rfl rfl id
    · cases hs
  | gcBegin c =>
    simp only [step] at hs
    split at hs
    · split at hs
      · cases hs
        exact h.mono rfl rfl id
      · split at hs
        · cases hs
          exact h.mono rfl rfl id
        · cases hs
          exact h.mono rfl rfl id
    · cases hs
  | gcWake c =>
    simp only [step] at hs
    split at hs
    · split at hs
      · cases hs
        exact h.mono rfl rfl id
      · cases hs
    · cases hs
  | gcRecheck c =>
    simp only [step] at hs
    split at hs
    · split at hs
      · cases hs
        exact h.mono rfl rfl id
      · cases hs
        exact h.mono rfl rfl id
    · cases hs
  | pop w =>
    have key : ∀ pc, s.workers[w]? = some pc → pc ≠ WPc.loaded →
        FlagInv { (popQueue s).1 with
          workers := setAt (popQueue s).1.workers w (.popped (popQueue s).2) } := by
      intro pc hw hpc
      unfold popQueue
      split
      · exact h.mono rfl rfl (loaded_mem_set _ hw hpc)
      · exact h.mono rfl rfl (loaded_mem_set _ hw hpc)
    simp only [step] at hs
    split at hs
    · rename_i hw
      cases hs
      exact key _ hw (by simp)
    · rename_i it hw
      cases hs
      exact key _ hw (by simp)
    · cases hs
  | exec w =>
    simp only [step] at hs
    split at hs
    · rename_i it hw
      cases hs
      exact h.mono rfl rfl (loaded_mem_set _ hw (by simp))
    · cases hs
  | afterLoop w =>
    simp only [step] at hs
    split at hs
    · rename_i hw
      cases hs
      intro hf
      right
      have hf' : s.flag = true := hf
      simp only [hf', if_true]
      exact mem_set_self_of_get _ hw
    · cases hs
  | clearFlag w =>
    simp only [step] at hs
    split at hs
    · cases hs
      exact FlagInv.of_clear rfl
    · cases hs
  | cbBegin w =>
    simp only [step] at hs
    split at hs
    · rename_i hw
      cases m with
      | none =>
        cases hs
        exact h.mono rfl rfl (loaded_mem_set _ hw (by simp))
      | enqueue =>
        cases hs
        have h1 : FlagInv { s with negCalls := s.negCalls + 1 } := h.mono rfl rfl id
        have hw2 : (Ops.enqCheck { s with negCalls := s.negCalls + 1 }).workers[w]? = some WPc.cleared :=
          enqCheck_workers_get (s := { s with negCalls := s.negCalls + 1 }) hw
        exact h1.enqCheck.mono rfl rfl (loaded_mem_set _ hw2 (by simp))
      | rearm =>
        cases hs
        exact h.mono rfl rfl (loaded_mem_set _ hw (by simp))
    · cases hs
  | cbAct w =>
    simp only [step] at hs
    split at hs
    · rename_i e hw
      cases hs
      exact (h.negApply e).mono rfl rfl (loaded_mem_set _ (negApply_workers_get e hw) (by simp))
    · cases hs
  | negTest n =>
    simp only [step] at hs
    split at hs
    · cases hs
      exact h.mono rfl rfl id
    · cases hs
  | negAct n =>
    simp only [step] at hs
    split at hs
    · rename_i e hn
      cases hs
      exact (h.negApply e).mono rfl rfl id
    · cases hs
  | deferred w =>
    simp only [step] at hs
    split at hs
    · rename_i hw
      split at hs
      · cases hs
      · split at hs
        · cases hs
          exact h.mono rfl rfl (loaded_mem_set _ hw (by simp))
        · cases hs
          exact h.mono rfl rfl (fun hm => List.mem_append_left _ (loaded_mem_set .fin hw (by simp) hm))
    · cases hs
  | setFlag =>
    simp only [step] at hs
    cases hs
    exact FlagInv.of_unseen rfl

theorem flagInv_of_reachable {m : NegMode} {nc nd nn : Nat} {s : St} (h : Reachable m nc nd nn s) :
    FlagInv s := by
  induction h with
  | init => exact flagInv_init nc nd nn
  | step a _ hs ih => exact flagInv_step ih hs

end WebrtcVerif.Ops
