import WebrtcVerif.Drv.C24
import WebrtcVerif.Proofs.GatherLemmas
/-!
  The C24 simulator (`Drv/C24.lean`) only ever moves its core state by `Gather.step`: every simulated
  run — and therefore every implementation trace the correspondence run found equal to one — is a
  `Reachable` run of the transition system the C24 theorems are about.
-/
namespace WebrtcVerif.Drv.C24
open WebrtcVerif.Gather


/-- the simulator's core state is reachable -/
def SimOk (ps nf : Nat) (sim : Sim) : Prop := Reachable ps nf sim.core

theorem act_ok {ps nf : Nat} {sim : Sim} (a : Action) (h : SimOk ps nf sim) : SimOk ps nf (act sim a) := by
  unfold act
  split
  · rename_i c hc; exact Reachable.step a h hc
  · exact h

@[simp] theorem setT_core (sim : Sim) (i : Nat) (pc : TPc) : (setT sim i pc).core = sim.core := rfl
@[simp] theorem logT_core (sim : Sim) (i : Nat) (e : String) : (logT sim i e).core = sim.core := rfl

theorem setT_ok {ps nf : Nat} {sim : Sim} (i : Nat) (pc : TPc) (h : SimOk ps nf sim) : SimOk ps nf (setT sim i pc) := h
theorem logT_ok {ps nf : Nat} {sim : Sim} (i : Nat) (e : String) (h : SimOk ps nf sim) : SimOk ps nf (logT sim i e) := h

theorem afterCallback_ok {ps nf : Nat} {sim : Sim} (i : Nat) (todo : List Item) (h : SimOk ps nf sim) :
    SimOk ps nf (afterCallback sim i todo).2 := by
  unfold afterCallback; split <;> exact h

theorem afterFlush_ok {ps nf : Nat} {sim : Sim} (i idx left : Nat) (h : SimOk ps nf sim) :
    SimOk ps nf (afterFlush sim i idx left).2 := by
  unfold afterFlush; split <;> exact h

theorem segA_ok {ps nf : Nat} {sim : Sim} (i : Nat) (todo : List Item) (h : SimOk ps nf sim) :
    SimOk ps nf (segA sim i todo).2 := by
  unfold segA
  split
  · dsimp only
    split
    · exact act_ok _ h
    · exact afterCallback_ok _ _ (act_ok _ h)
  · exact afterCallback_ok _ _ (logT_ok _ _ (act_ok _ h))
  · dsimp only
    split
    · exact act_ok _ h
    · exact afterCallback_ok _ _ (act_ok _ h)
  · exact afterCallback_ok _ _ (logT_ok _ _ (act_ok _ h))
  · split
    · exact h
    · exact setT_ok _ _ (act_ok _ h)
    · exact setT_ok _ _ (act_ok _ h)
    · split
      · exact afterCallback_ok _ _ (logT_ok _ _ (act_ok _ h))
      · exact h

theorem segF_ok {ps nf : Nat} {sim : Sim} (i idx left : Nat) (sub : FSub) (h : SimOk ps nf sim) :
    SimOk ps nf (segF sim i idx left sub).2 := by
  cases sub with
  | start => exact setT_ok _ _ (act_ok _ h)
  | swapped => simp only [segF]; split <;> exact h
  | cand =>
    simp only [segF]
    split
    · exact h
    · split
      · exact setT_ok _ _ (logT_ok _ _ (act_ok _ h))
      · exact logT_ok _ _ (act_ok _ h)
  | emitted =>
    simp only [segF]
    split
    · exact setT_ok _ _ (act_ok _ h)
    · exact afterFlush_ok _ _ _ (act_ok _ h)
  | nil_ => exact afterFlush_ok _ _ _ (logT_ok _ _ (act_ok _ h))

theorem stepName_ok {ps nf : Nat} {sim : Sim} (n : String) (h : SimOk ps nf sim) :
    SimOk ps nf (stepName sim n).2 := by
  unfold stepName
  split
  · exact h
  · split
    · exact h
    · exact h
    · exact segA_ok _ _ h
    · exact segF_ok _ _ _ _ h

theorem schedStep_ok {ps nf : Nat} (acc : Sim × List String) (n : String) (h : SimOk ps nf acc.1) :
    SimOk ps nf (schedStep acc n).1 := stepName_ok n h

theorem drainStep_ok {ps nf : Nat} (acc : Sim × List String) (n : String) (h : SimOk ps nf acc.1) :
    SimOk ps nf (drainStep acc n).1 := by
  unfold drainStep
  split
  · exact h
  · exact stepName_ok n h

theorem foldl_ok {ps nf : Nat} (f : Sim × List String → String → Sim × List String)
    (hf : ∀ acc n, SimOk ps nf acc.1 → SimOk ps nf (f acc n).1)
    (names : List String) (acc : Sim × List String) (h : SimOk ps nf acc.1) :
    SimOk ps nf (names.foldl f acc).1 := by
  induction names generalizing acc with
  | nil => exact h
  | cons n ns ih => exact ih _ (hf acc n h)

theorem drain_ok {ps nf : Nat} (fuel : Nat) (sim : Sim) (ev : List String) (h : SimOk ps nf sim) :
    SimOk ps nf (drain fuel sim ev).1 := by
  induction fuel generalizing sim ev with
  | zero => exact h
  | succ k ih =>
    unfold drain
    split
    · exact h
    · have hp := foldl_ok drainStep drainStep_ok (allNames sim) (sim, []) h
      split
      rename_i sim1 ev1 heq
      have h1 : SimOk ps nf sim1 := by
        have : sim1 = ((allNames sim).foldl drainStep (sim, [])).1 := by rw [heq]
        rw [this]; exact hp
      split
      · exact h1
      · exact ih _ _ h1

/-- every run of the simulator (any program, any schedule, then the drain) stays inside the proved
    transition system: its core state is `Reachable` -/
theorem simulate_reachable (p : Prog) :
    Reachable p.pool (initThreads p).2 (simulate p).1.core := by
  unfold simulate
  apply drain_ok
  exact foldl_ok schedStep schedStep_ok p.sched (initSim p, []) Reachable.init

end WebrtcVerif.Drv.C24
