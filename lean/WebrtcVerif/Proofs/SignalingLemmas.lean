import WebrtcVerif.Model.Signaling
/-!
  Helper lemmas about Model/Signaling.lean (used by Props/C01, C02, C03): a normal form of
  `setDescription`, the invariant tying the pending descriptions to the signaling state, and its
  preservation by every API call.
-/
namespace WebrtcVerif.Signaling

/-! ### the transition table against the JSEP machine (finite: checked case by case) -/

/-- decidable form of "success ⇒ JSEP edge to `next`, returns `next`; error ⇒ returns `cur`" -/
def tableOk (cur next : Sig) (op : Op) (ty : Ty) : Bool :=
  match (checkNext cur next op ty).2 with
  | none =>
    (match Side.ofOp op with
     | some side => jsepEdge cur side ty == some next
     | none => false) && (checkNext cur next op ty).1 == next
  | some _ => (checkNext cur next op ty).1 == cur

theorem tableOk_all (cur next : Sig) (op : Op) (ty : Ty) : tableOk cur next op ty = true := by
  cases cur <;> cases next <;> cases op <;> cases ty <;> rfl

theorem checkNext_ok {cur next : Sig} {op : Op} {ty : Ty} (h : (checkNext cur next op ty).2 = none) :
    (∃ side, Side.ofOp op = some side ∧ jsepEdge cur side ty = some next) ∧
      (checkNext cur next op ty).1 = next := by
  have t := tableOk_all cur next op ty
  unfold tableOk at t
  rw [h] at t
  simp only [Bool.and_eq_true, beq_iff_eq] at t
  obtain ⟨t1, t2⟩ := t
  refine ⟨?_, t2⟩
  cases hs : Side.ofOp op with
  | none => simp [hs] at t1
  | some side => exact ⟨side, rfl, by simpa [hs] using t1⟩

theorem checkNext_err {cur next : Sig} {op : Op} {ty : Ty} {e : TErr} (h : (checkNext cur next op ty).2 = some e) :
    (checkNext cur next op ty).1 = cur := by
  have t := tableOk_all cur next op ty
  unfold tableOk at t
  rw [h] at t
  simpa using t

/-! ### normal form of setDescription -/

/-- the `next` argument `setDescription` passes to `checkNextSignalingState` -/
def proposed : Op → Ty → Sig
  | .setLocal, .offer => .haveLocalOffer
  | .setLocal, .pranswer => .haveLocalPranswer
  | .setRemote, .offer => .haveRemoteOffer
  | .setRemote, .pranswer => .haveRemotePranswer
  | _, _ => .stable

/-- the bookkeeping done under `pc.mu` when the transition is accepted -/
def book (s : Neg) (op : Op) (d : Desc) : Neg :=
  match op, d.ty with
  | .setLocal, .offer => { s with pendL := some d }
  | .setLocal, .pranswer => { s with pendL := some d }
  | .setLocal, .answer => { s with curL := some d, curR := s.pendR, pendR := none, pendL := none }
  | .setRemote, .offer => { s with pendR := some d }
  | .setRemote, .pranswer => { s with pendR := some d }
  | .setRemote, .answer => { s with curR := some d, curL := s.pendL, pendR := none, pendL := none }
  | _, .rollback => { s with pendL := none, pendR := none }
  | _, _ => s

/-- the lastOffer / lastAnswer comparison of the SetLocal branches -/
def mismatch (s : Neg) (op : Op) (d : Desc) : Option Err :=
  match op, d.ty with
  | .setLocal, .offer => if d.txt ≠ s.lastOffer then some .mismatchOffer else none
  | .setLocal, .answer => if d.txt ≠ s.lastAnswer then some .mismatchAnswer else none
  | .setLocal, .pranswer => if d.txt ≠ s.lastAnswer then some .mismatchAnswer else none
  | _, _ => none

theorem setDescription_nf (s : Neg) (d : Desc) (op : Op) :
    setDescription s d op =
      if s.isClosed then fail s .closed
      else if d.ty = .unknown then fail s .type
      else if op = .unknown then fail s .oper
      else match mismatch s op d with
        | some e => fail s e
        | none => commit (book s op d) s (checkNext s.sig (proposed op d.ty) op d.ty) := by
  unfold setDescription
  split
  · rfl
  · split
    · rfl
    · rename_i hty
      cases op <;> cases h : d.ty <;> simp_all [mismatch, book, proposed] <;> split <;> simp_all

theorem commit_err (s' s : Neg) (chk : Sig × Option TErr) (e : TErr) (h : chk.2 = some e) :
    commit s' s chk = fail s (Err.ofT e) := by
  unfold commit; rw [h]

theorem commit_ok (s' s : Neg) (chk : Sig × Option TErr) (h : chk.2 = none) :
    commit s' s chk = { st := { s' with sig := chk.1 }, events := [chk.1] } := by
  unfold commit; rw [h]

/-- Every failure of `setDescription` returns the untouched state and no event. -/
theorem setDescription_err (s : Neg) (d : Desc) (op : Op) (h : (setDescription s d op).err ≠ none) :
    (setDescription s d op).st = s ∧ (setDescription s d op).events = [] := by
  rw [setDescription_nf] at h ⊢
  split
  · exact ⟨rfl, rfl⟩
  · split
    · exact ⟨rfl, rfl⟩
    · split
      · exact ⟨rfl, rfl⟩
      · split
        · exact ⟨rfl, rfl⟩
        · rename_i hc hty hop _ hm
          cases hchk : (checkNext s.sig (proposed op d.ty) op d.ty).2 with
          | some e => rw [commit_err _ _ _ e hchk]; exact ⟨rfl, rfl⟩
          | none =>
            exfalso; apply h
            simp [hc, hty, hop, hm, commit_ok _ _ _ hchk]

/-- A success of `setDescription`: all guards passed, the table accepted the transition to `proposed`,
    the result is the bookkeeping with the new state, and exactly one event announces it. -/
theorem setDescription_ok (s : Neg) (d : Desc) (op : Op) (h : (setDescription s d op).err = none) :
    s.isClosed = false ∧ d.ty ≠ .unknown ∧ op ≠ .unknown ∧ mismatch s op d = none ∧
    (checkNext s.sig (proposed op d.ty) op d.ty).2 = none ∧
    (setDescription s d op).st = { book s op d with sig := proposed op d.ty } ∧
    (setDescription s d op).events = [proposed op d.ty] := by
  rw [setDescription_nf] at h ⊢
  split at h
  · simp [fail] at h
  · rename_i hc
    split at h
    · simp [fail] at h
    · rename_i hty
      split at h
      · simp [fail] at h
      · rename_i hop
        split at h
        · simp [fail] at h
        · rename_i hm
          cases hchk : (checkNext s.sig (proposed op d.ty) op d.ty).2 with
          | some e => rw [commit_err _ _ _ e hchk] at h; simp [fail] at h
          | none =>
            have h1 := (checkNext_ok hchk).2
            simp only [hc, hty, hop, hm, if_false]
            rw [commit_ok _ _ _ hchk, h1]
            simp_all

/-- the errors raised after the commit point (`setDescription` has already applied the transition) -/
def Err.postCommit : Err → Bool
  | .engine | .remotePost | .localPost => true
  | _ => false

theorem setDescription_err_pre (s : Neg) (d : Desc) (op : Op) (e : Err)
    (h : (setDescription s d op).err = some e) : Err.postCommit e = false := by
  rw [setDescription_nf] at h
  repeat' (split at h)
  all_goals first
    | (simp [fail] at h; subst h; rfl)
    | skip
  · rename_i hm
    unfold mismatch at hm
    repeat' (split at hm)
    all_goals first
      | (simp [fail] at h hm; subst h; subst hm; rfl)
      | (simp at hm)
  · cases hc : (checkNext s.sig (proposed op d.ty) op d.ty).2 with
    | none => rw [commit_ok _ _ _ hc] at h; simp at h
    | some t =>
      rw [commit_err _ _ _ t hc] at h; simp [fail] at h; subst h
      cases t <;> rfl

theorem remotePreCheck_pre (s : Neg) (d : Desc) (e : Err) (h : remotePreCheck s d = some e) :
    Err.postCommit e = false := by
  unfold remotePreCheck at h
  simp only at h
  repeat (split at h; · (cases h; rfl))
  cases h

/-! ### the two public calls in terms of setDescription -/

/-- `SetLocalDescription`: either nothing happened (an error, the state and no event), or
    `setDescription` committed some `d'` — `d` itself or `d` with the JSEP 5.4 substitution — and the
    only error still possible is the post-commit one. -/
theorem setLocal_outcome (s : Neg) (d : Desc) :
    ((∃ e, (setLocal s d).err = some e ∧ Err.postCommit e = false) ∧
      (setLocal s d).st = s ∧ (setLocal s d).events = []) ∨
    (∃ d' : Desc, d'.ty = d.ty ∧ d'.f = d.f ∧
      (d'.txt = d.txt ∨ (d.txt = .empty ∧ (d'.txt = s.lastOffer ∨ d'.txt = s.lastAnswer))) ∧
      (setDescription s d' .setLocal).err = none ∧
      (setLocal s d).st = (setDescription s d' .setLocal).st ∧
      (setLocal s d).events = (setDescription s d' .setLocal).events ∧
      ((setLocal s d).err = none ∨
        ((setLocal s d).err = some .localPost ∧ d.f.localPostOk = false ∧ d.ty ≠ .rollback))) := by
  unfold setLocal
  split
  · exact Or.inl ⟨⟨.closed, rfl, rfl⟩, rfl, rfl⟩
  · split
    · -- rollback: straight to setDescription
      cases hr : (setDescription s d .setLocal).err with
      | some e =>
        have := setDescription_err s d .setLocal (by simp [hr])
        exact Or.inl ⟨⟨e, rfl, setDescription_err_pre s d .setLocal e hr⟩, this.1, this.2⟩
      | none => exact Or.inr ⟨d, rfl, rfl, Or.inl rfl, hr, rfl, rfl, Or.inl rfl⟩
    · rename_i hnr
      split
      · exact Or.inl ⟨⟨.emptysdp, rfl, rfl⟩, rfl, rfl⟩
      · rename_i d' hsub
        have hd' : d'.ty = d.ty ∧ d'.f = d.f ∧
            (d'.txt = d.txt ∨ (d.txt = .empty ∧ (d'.txt = s.lastOffer ∨ d'.txt = s.lastAnswer))) := by
          unfold localSubst at hsub
          split at hsub
          · rename_i he
            split at hsub <;> first | (cases hsub; simp [he]) | cases hsub
          · cases hsub; simp
        split
        · exact Or.inl ⟨⟨.parse, rfl, rfl⟩, rfl, rfl⟩
        · unfold localPost
          cases hr : (setDescription s d' .setLocal).err with
          | some e =>
            have := setDescription_err s d' .setLocal (by simp [hr])
            exact Or.inl ⟨⟨e, by simp [hr], setDescription_err_pre s d' .setLocal e hr⟩,
              by simpa using this.1, by simpa using this.2⟩
          | none =>
            refine Or.inr ⟨d', hd'.1, hd'.2.1, hd'.2.2, hr, ?_⟩
            simp only
            split
            · rename_i hp
              refine ⟨rfl, rfl, Or.inr ⟨rfl, ?_, hnr⟩⟩
              rw [← hd'.2.1]; simpa using hp
            · exact ⟨rfl, rfl, Or.inl hr⟩

/-- `SetRemoteDescription`: either nothing happened, or `setDescription` committed `d` and the only
    errors still possible are the two post-commit ones. -/
theorem setRemote_outcome (s : Neg) (d : Desc) :
    ((∃ e, (setRemote s d).err = some e ∧ Err.postCommit e = false) ∧
      (setRemote s d).st = s ∧ (setRemote s d).events = []) ∨
    ((setDescription s d .setRemote).err = none ∧
      (setRemote s d).st = (setDescription s d .setRemote).st ∧
      (setRemote s d).events = (setDescription s d .setRemote).events ∧
      ((setRemote s d).err = none ∨
        (d.ty ≠ .rollback ∧
          (((setRemote s d).err = some .engine ∧ d.f.engineOk = false) ∨
           ((setRemote s d).err = some .remotePost ∧ d.f.remotePostOk = false))))) := by
  unfold setRemote
  split
  · exact Or.inl ⟨⟨.closed, rfl, rfl⟩, rfl, rfl⟩
  · split
    · cases hr : (setDescription s d .setRemote).err with
      | some e =>
        have := setDescription_err s d .setRemote (by simp [hr])
        exact Or.inl ⟨⟨e, rfl, setDescription_err_pre s d .setRemote e hr⟩, this.1, this.2⟩
      | none => exact Or.inr ⟨rfl, rfl, rfl, Or.inl rfl⟩
    · rename_i hnr
      split
      · rename_i e hpre
        exact Or.inl ⟨⟨e, rfl, remotePreCheck_pre s d e hpre⟩, rfl, rfl⟩
      · unfold remotePost
        cases hr : (setDescription s d .setRemote).err with
        | some e =>
          have := setDescription_err s d .setRemote (by simp [hr])
          exact Or.inl ⟨⟨e, by simp [hr], setDescription_err_pre s d .setRemote e hr⟩,
            by simpa using this.1, by simpa using this.2⟩
        | none =>
          refine Or.inr ⟨rfl, ?_⟩
          simp only
          split
          · rename_i hp
            exact ⟨rfl, rfl, Or.inr ⟨hnr, Or.inl ⟨rfl, by simpa using hp⟩⟩⟩
          · split
            · rename_i hp
              exact ⟨rfl, rfl, Or.inr ⟨hnr, Or.inr ⟨rfl, by simpa using hp⟩⟩⟩
            · exact ⟨rfl, rfl, Or.inl hr⟩

/-! ### the invariant: the pending descriptions are determined by the signaling state -/

def Inv (s : Neg) : Prop :=
  (s.isClosed = true ↔ s.sig = .closed) ∧
  match s.sig with
  | .stable => s.pendL = none ∧ s.pendR = none
  | .haveLocalOffer => (∃ o, s.pendL = some o ∧ o.ty = .offer) ∧ s.pendR = none
  | .haveRemoteOffer => s.pendL = none ∧ (∃ o, s.pendR = some o ∧ o.ty = .offer)
  | .haveLocalPranswer => (∃ p, s.pendL = some p ∧ p.ty = .pranswer) ∧ (∃ o, s.pendR = some o ∧ o.ty = .offer)
  | .haveRemotePranswer => (∃ o, s.pendL = some o ∧ o.ty = .offer) ∧ (∃ p, s.pendR = some p ∧ p.ty = .pranswer)
  | .closed => True
  | .unknown => False

theorem Inv_init : Inv Neg.init := by
  simp [Inv, Neg.init]

theorem setDescription_inv (s : Neg) (d : Desc) (op : Op) (h : Inv s) : Inv (setDescription s d op).st := by
  cases he : (setDescription s d op).err with
  | some e => rw [(setDescription_err s d op (by simp [he])).1]; exact h
  | none =>
    obtain ⟨hc, hty, hop, _, hchk, hst, _⟩ := setDescription_ok s d op he
    rw [hst]
    obtain ⟨h1, h2⟩ := h
    cases hs : s.sig <;> cases op <;> cases hd : d.ty <;>
      simp_all [checkNext, proposed, book, Inv]

theorem setLocal_inv (s : Neg) (d : Desc) (h : Inv s) : Inv (setLocal s d).st := by
  rcases setLocal_outcome s d with ⟨_, hst, _⟩ | ⟨d', _, _, _, _, hst, _⟩
  · rw [hst]; exact h
  · rw [hst]; exact setDescription_inv s d' .setLocal h

theorem setRemote_inv (s : Neg) (d : Desc) (h : Inv s) : Inv (setRemote s d).st := by
  rcases setRemote_outcome s d with ⟨_, hst, _⟩ | ⟨_, hst, _⟩
  · rw [hst]; exact h
  · rw [hst]; exact setDescription_inv s d .setRemote h

theorem createOffer_inv (s : Neg) (k : Nat) (h : Inv s) : Inv (createOffer s k).st := by
  unfold createOffer; split
  · exact h
  · exact h

theorem createAnswer_inv (s : Neg) (k : Nat) (h : Inv s) : Inv (createAnswer s k).st := by
  unfold createAnswer; (repeat' split) <;> exact h

theorem close_inv (s : Neg) : Inv (close s).st := by
  simp [close, Inv]

theorem step_inv (s : Neg) (a : Action) (h : Inv s) : Inv (step s a).st := by
  cases a with
  | createOffer k => exact createOffer_inv s k h
  | createAnswer k => exact createAnswer_inv s k h
  | setLocal d => exact setLocal_inv s d h
  | setRemote d => exact setRemote_inv s d h
  | close => exact close_inv s

theorem run_inv (s : Neg) (acts : List Action) (h : Inv s) : Inv (run s acts) := by
  induction acts generalizing s with
  | nil => exact h
  | cons a as ih => exact ih _ (step_inv s a h)

/-! ### every API call is one of five kinds of move -/

inductive Moves (t : Neg) : Neg → Prop
  | same : Moves t t
  | offer (x : Txt) : Moves t { t with lastOffer := x }
  | answer (x : Txt) : Moves t { t with lastAnswer := x }
  | close : Moves t { t with isClosed := true, sig := .closed }
  | commit (op : Op) (d : Desc) (hop : op ≠ .unknown) (hty : d.ty ≠ .unknown) (hc : t.isClosed = false)
      (hchk : (checkNext t.sig (proposed op d.ty) op d.ty).2 = none) :
      Moves t { book t op d with sig := proposed op d.ty }

theorem setDescription_moves (t : Neg) (d : Desc) (op : Op) : Moves t (setDescription t d op).st := by
  cases he : (setDescription t d op).err with
  | some e => rw [(setDescription_err t d op (by simp [he])).1]; exact .same
  | none =>
    obtain ⟨hc, hty, hop, _, hchk, hst, _⟩ := setDescription_ok t d op he
    rw [hst]; exact .commit op d hop hty hc hchk

theorem step_moves (t : Neg) (a : Action) : Moves t (step t a).st := by
  cases a with
  | createOffer k =>
    simp only [step, createOffer]; split
    · exact .same
    · exact .offer _
  | createAnswer k =>
    simp only [step, createAnswer]; (repeat' split) <;> first | exact .same | exact .answer _
  | close => exact .close
  | setLocal d =>
    simp only [step]
    rcases setLocal_outcome t d with ⟨_, hst, _⟩ | ⟨d', _, _, _, _, hst, _⟩
    · rw [hst]; exact .same
    · rw [hst]; exact setDescription_moves t d' .setLocal
  | setRemote d =>
    simp only [step]
    rcases setRemote_outcome t d with ⟨_, hst, _⟩ | ⟨_, hst, _⟩
    · rw [hst]; exact .same
    · rw [hst]; exact setDescription_moves t d .setRemote

/-- the current descriptions change only when an answer is committed, i.e. on a move into `stable` -/
theorem moves_current (t t' : Neg) (m : Moves t t') (h : t'.sig ≠ .stable) :
    t'.curL = t.curL ∧ t'.curR = t.curR := by
  cases m with
  | same => exact ⟨rfl, rfl⟩
  | offer x => exact ⟨rfl, rfl⟩
  | answer x => exact ⟨rfl, rfl⟩
  | close => exact ⟨rfl, rfl⟩
  | commit op d hop hty hc hchk =>
    cases op <;> cases hd : d.ty <;> simp_all [proposed, book]

/-- a move that leaves the current descriptions alone, or commits an answer -/
theorem moves_current_or_answer (t t' : Neg) (m : Moves t t') :
    (t'.curL = t.curL ∧ t'.curR = t.curR) ∨ t'.sig = .stable := by
  by_cases h : t'.sig = .stable
  · exact Or.inr h
  · exact Or.inl (moves_current t t' m h)

/-- "the exchange opened by the local offer `o` is in progress" (or the connection was closed) -/
def LocalExch (o : Desc) (t : Neg) : Prop :=
  ((t.sig = .haveLocalOffer ∨ t.sig = .haveRemotePranswer) ∧ t.pendL = some o) ∨ t.sig = .closed

/-- "the exchange opened by the remote offer `o` is in progress" (or the connection was closed) -/
def RemoteExch (o : Desc) (t : Neg) : Prop :=
  ((t.sig = .haveRemoteOffer ∨ t.sig = .haveLocalPranswer) ∧ t.pendR = some o) ∨ t.sig = .closed

theorem moves_localExch (o : Desc) (t t' : Neg) (hi : Inv t) (he : LocalExch o t) (m : Moves t t')
    (h : t'.sig ≠ .stable) : LocalExch o t' := by
  cases m with
  | same => exact he
  | offer x => exact he
  | answer x => exact he
  | close => exact Or.inr rfl
  | commit op d hop hty hc hchk =>
    obtain ⟨hi1, hi2⟩ := hi
    rcases he with ⟨hs, hp⟩ | hcl
    · rcases hs with hs | hs <;> cases op <;> cases hd : d.ty <;>
        simp_all [checkNext, proposed, book, LocalExch]
    · simp_all

theorem moves_remoteExch (o : Desc) (t t' : Neg) (hi : Inv t) (he : RemoteExch o t) (m : Moves t t')
    (h : t'.sig ≠ .stable) : RemoteExch o t' := by
  cases m with
  | same => exact he
  | offer x => exact he
  | answer x => exact he
  | close => exact Or.inr rfl
  | commit op d hop hty hc hchk =>
    obtain ⟨hi1, hi2⟩ := hi
    rcases he with ⟨hs, hp⟩ | hcl
    · rcases hs with hs | hs <;> cases op <;> cases hd : d.ty <;>
        simp_all [checkNext, proposed, book, RemoteExch]
    · simp_all

/-- a property kept by every move that does not end in `stable` is kept along a history that never
    passes through `stable` -/
theorem run_keeps (P : Neg → Prop) (hP : ∀ t t', Inv t → P t → Moves t t' → t'.sig ≠ .stable → P t')
    (t : Neg) (acts : List Action) (hi : Inv t) (h0 : P t)
    (hns : ∀ k, 1 ≤ k → k ≤ acts.length → (run t (acts.take k)).sig ≠ .stable) : P (run t acts) := by
  induction acts generalizing t with
  | nil => exact h0
  | cons a as ih =>
    have h1 : (step t a).st.sig ≠ .stable := by
      have := hns 1 (Nat.le_refl 1) (by simp)
      simpa [run] using this
    apply ih (step t a).st (step_inv t a hi) (hP t _ hi h0 (step_moves t a) h1)
    intro k hk1 hk2
    have := hns (k + 1) (by omega) (by simp; omega)
    simpa [run] using this

theorem run_append (s : Neg) (xs ys : List Action) : run s (xs ++ ys) = run (run s xs) ys := by
  simp [run, List.foldl_append]

theorem run_cons (s : Neg) (a : Action) (as : List Action) : run s (a :: as) = run (step s a).st as := rfl

end WebrtcVerif.Signaling
